/-
  C14 — the clone of a closed, well-formed schema: shapes of the copies, the clone's registry, and
  `CloneClosedWF`.
-/
import PyGqlModel.Lemmas.HeapFuel

set_option linter.unusedSimpArgs false
set_option linter.unusedVariables false
set_option linter.unnecessarySimpa false

namespace PyGql.Heap.Own
open PyGql.Heap

theorem stepImp_of_pres {h h' : Heap} (p : Pres h.size h h') (chk : Ref → Bool) : StepImp chk h h' := by
  intro a o hr
  exact ⟨o, by rw [p.2.2 a (read_lt h a o hr)]; exact hr, Evolves.refl chk o⟩

theorem copyArgs_step (chk : Ref → Bool) (h : Heap) (as : List Addr) : StepImp chk h (copyArgs h as).1 :=
  stepImp_of_pres (copyArgs_ok h.size as h (inv_self h)).1 chk
theorem copyFields_step (chk : Ref → Bool) (h : Heap) (as : List Addr) : StepImp chk h (copyFields h as).1 :=
  stepImp_of_pres (copyFields_ok h.size as h (inv_self h)).1 chk
theorem cloneType_step (cfg : Cfg) (hd : cfg.deepClone = true) (chk : Ref → Bool) (h : Heap) (t : TypeO) : StepImp chk h (cloneType cfg h t).1 :=
  stepImp_of_pres (cloneType_ok h.size cfg hd h t (inv_self h)).1 chk
theorem cloneDir_step (cfg : Cfg) (hd : cfg.deepClone = true) (chk : Ref → Bool) (h : Heap) (d : DirO) : StepImp chk h (cloneDir cfg h d).1 :=
  stepImp_of_pres (cloneDir_ok h.size cfg hd h d (inv_self h)).1 chk
theorem cloneTypes_step (cfg : Cfg) (hd : cfg.deepClone = true) (chk : Ref → Bool) (h : Heap) (l : List (String × Addr)) :
    StepImp chk h (cloneTypes cfg h l).1 := stepImp_of_pres (cloneTypes_ok h.size cfg hd l h (inv_self h)).1 chk
theorem cloneDirs_step (cfg : Cfg) (hd : cfg.deepClone = true) (chk : Ref → Bool) (h : Heap) (l : List (String × Addr)) :
    StepImp chk h (cloneDirs cfg h l).1 := stepImp_of_pres (cloneDirs_ok h.size cfg hd l h (inv_self h)).1 chk

/-! ### shapes of the copies -/

theorem argShape_iff (chk : Ref → Bool) (h : Heap) (a : Addr) : argShape chk h a = true ↔ ∃ g, h.readArg a = some g ∧ chk g.ty.base = true := by
  cases hg : h.readArg a with
  | none => simp [argShape, hg]
  | some g => simp [argShape, hg]

theorem copyArgs_est (chk : Ref → Bool) : ∀ (as : List Addr) (h : Heap), (∀ c, c ∈ as → argShape chk h c = true) →
    ∀ c, c ∈ (copyArgs h as).2 → argShape chk (copyArgs h as).1 c = true := by
  intro as
  induction as with
  | nil => intro h _ c hc; simp [copyArgs] at hc
  | cons a as ih =>
    intro h hin c hc
    obtain ⟨g, hg, hchk⟩ := (argShape_iff chk h a).mp (hin a (by simp))
    simp only [copyArgs, hg] at hc ⊢
    have hrest : ∀ c, c ∈ as → argShape chk (h.alloc (.arg g)).1 c = true :=
      fun c hcm => argShape_keep (step_alloc chk h _) c (hin c (by simp [hcm]))
    simp only [List.mem_cons] at hc
    rcases hc with rfl | hc
    · exact argShape_keep (copyArgs_step chk _ as) _ ((argShape_iff chk _ _).mpr ⟨g, readArg_alloc_new h g, hchk⟩)
    · exact ih _ hrest c hc

theorem copyFields_est (chk : Ref → Bool) : ∀ (as : List Addr) (h : Heap), (∀ c, c ∈ as → fieldShape chk h c = true) →
    ∀ c, c ∈ (copyFields h as).2 → fieldShape chk (copyFields h as).1 c = true := by
  intro as
  induction as with
  | nil => intro h _ c hc; simp [copyFields] at hc
  | cons a as ih =>
    intro h hin c hc
    obtain ⟨f, hf, hty, hargs⟩ := (fieldShape_iff chk h a).mp (hin a (by simp))
    simp only [copyFields, hf] at hc ⊢
    have st1 : StepImp chk h ((copyArgs h f.args).1.alloc (.field { f with args := (copyArgs h f.args).2 })).1 :=
      (copyArgs_step chk h f.args).trans (step_alloc chk _ _)
    have hrest : ∀ c, c ∈ as → fieldShape chk ((copyArgs h f.args).1.alloc (.field { f with args := (copyArgs h f.args).2 })).1 c = true :=
      fun c hcm => fieldShape_keep st1 c (hin c (by simp [hcm]))
    simp only [List.mem_cons] at hc
    rcases hc with rfl | hc
    · apply fieldShape_keep (copyFields_step chk _ as)
      refine (fieldShape_iff chk _ _).mpr ⟨_, readField_alloc_new _ _, hty, ?_⟩
      intro x hx
      exact argShape_keep (step_alloc chk _ _) x (copyArgs_est chk f.args h hargs x hx)
    · exact ih _ hrest c hc

theorem cloneType_est (cfg : Cfg) (hd : cfg.deepClone = true) (chk : Ref → Bool) (h : Heap) (a : Addr) (t : TypeO) (ht : h.readType a = some t)
    (hs : typeShape chk h a = true) :
    typeShape chk (cloneType cfg h t).1 (cloneType cfg h t).2 = true ∧
    ∃ t', (cloneType cfg h t).1.readType (cloneType cfg h t).2 = some t' ∧ t'.kind = t.kind ∧ t'.name = t.name := by
  rw [typeShape_eq chk h a t ht, Bool.and_eq_true] at hs
  obtain ⟨hrefs, hm⟩ := hs
  simp only [cloneType, hd, if_true]
  cases hk : t.kind with
  | input =>
    simp only
    refine ⟨?_, _, readType_alloc_new _ _, rfl, rfl⟩
    rw [typeShape_eq _ _ _ _ (readType_alloc_new _ _), Bool.and_eq_true]
    refine ⟨by simpa [typeRefs, hk] using hrefs, ?_⟩
    have hin : ∀ c, c ∈ t.fields → argShape chk h c = true := by simpa [typeMembersOK, hk, List.all_eq_true] using hm
    simp only [typeMembersOK, hk, List.all_eq_true]
    exact fun c hc => argShape_keep (step_alloc chk _ _) c (copyArgs_est chk t.fields h hin c hc)
  | object =>
    simp only
    refine ⟨?_, _, readType_alloc_new _ _, rfl, rfl⟩
    rw [typeShape_eq _ _ _ _ (readType_alloc_new _ _), Bool.and_eq_true]
    refine ⟨by simpa [typeRefs, hk] using hrefs, ?_⟩
    have hin : ∀ c, c ∈ t.fields → fieldShape chk h c = true := by simpa [typeMembersOK, hk, List.all_eq_true] using hm
    simp only [typeMembersOK, hk, List.all_eq_true]
    exact fun c hc => fieldShape_keep (step_alloc chk _ _) c (copyFields_est chk t.fields h hin c hc)
  | interface =>
    simp only
    refine ⟨?_, _, readType_alloc_new _ _, rfl, rfl⟩
    rw [typeShape_eq _ _ _ _ (readType_alloc_new _ _), Bool.and_eq_true]
    refine ⟨by simpa [typeRefs, hk] using hrefs, ?_⟩
    have hin : ∀ c, c ∈ t.fields → fieldShape chk h c = true := by simpa [typeMembersOK, hk, List.all_eq_true] using hm
    simp only [typeMembersOK, hk, List.all_eq_true]
    exact fun c hc => fieldShape_keep (step_alloc chk _ _) c (copyFields_est chk t.fields h hin c hc)
  | union =>
    simp only
    refine ⟨?_, _, readType_alloc_new _ _, rfl, rfl⟩
    rw [typeShape_eq _ _ _ _ (readType_alloc_new _ _), Bool.and_eq_true]
    exact ⟨by simpa [typeRefs, hk] using hrefs, by simp [typeMembersOK, hk]⟩
  | scalar =>
    simp only
    refine ⟨?_, _, readType_alloc_new _ _, rfl, rfl⟩
    rw [typeShape_eq _ _ _ _ (readType_alloc_new _ _), Bool.and_eq_true]
    exact ⟨by simpa [typeRefs, hk] using hrefs, by simp [typeMembersOK, hk]⟩
  | enum =>
    simp only
    refine ⟨?_, _, readType_alloc_new _ _, rfl, rfl⟩
    rw [typeShape_eq _ _ _ _ (readType_alloc_new _ _), Bool.and_eq_true]
    exact ⟨by simpa [typeRefs, hk] using hrefs, by simp [typeMembersOK, hk]⟩

theorem cloneDir_est (cfg : Cfg) (hd : cfg.deepClone = true) (chk : Ref → Bool) (h : Heap) (a : Addr) (d : DirO) (hr : h.readDir a = some d)
    (hs : dirShape chk h a = true) : dirShape chk (cloneDir cfg h d).1 (cloneDir cfg h d).2 = true := by
  simp only [dirShape, hr, List.all_eq_true] at hs
  simp only [cloneDir, hd, if_true, dirShape, readDir_alloc_new, List.all_eq_true]
  exact fun c hc => argShape_keep (step_alloc chk _ _) c (copyArgs_est chk d.args h hs c hc)

theorem cloneTypes_est (cfg : Cfg) (hd : cfg.deepClone = true) (chk : Ref → Bool) : ∀ (l : List (String × Addr)) (h : Heap),
    (∀ e, e ∈ l → isProtected e.1 = false → typeShape chk h e.2 = true ∧ nameOK h e = true) →
    ∀ x, x ∈ (cloneTypes cfg h l).2 → (∃ e, e ∈ l ∧ e.1 = x.1 ∧ isProtected e.1 = false) ∧
      ∀ a', x.2 = some a' → typeShape chk (cloneTypes cfg h l).1 a' = true ∧ nameOK (cloneTypes cfg h l).1 (x.1, a') = true := by
  intro l
  induction l with
  | nil => intro h _ x hx; simp [cloneTypes] at hx
  | cons e0 rest ih =>
    intro h hin x hx
    obtain ⟨n, a⟩ := e0
    by_cases hp : isProtected n = true
    · simp only [cloneTypes, hp, if_true] at hx ⊢
      obtain ⟨⟨e, he, h1⟩, h2⟩ := ih h (fun e he => hin e (by simp [he])) x hx
      exact ⟨⟨e, by simp [he], h1⟩, h2⟩
    · have hnp : isProtected n = false := by simpa using hp
      cases ht : h.readType a with
      | none =>
        simp only [cloneTypes, hnp, Bool.false_eq_true, if_false, ht] at hx ⊢
        obtain ⟨⟨e, he, h1⟩, h2⟩ := ih h (fun e he => hin e (by simp [he])) x hx
        exact ⟨⟨e, by simp [he], h1⟩, h2⟩
      | some t =>
        simp only [cloneTypes, hnp, Bool.false_eq_true, if_false, ht] at hx ⊢
        obtain ⟨hsh, hnm⟩ := hin (n, a) (by simp) hnp
        obtain ⟨hcs, t', ht', hk', hn'⟩ := cloneType_est cfg hd chk h a t ht hsh
        have st := cloneType_step cfg hd chk h t
        have hrest : ∀ e, e ∈ rest → isProtected e.1 = false →
            typeShape chk (cloneType cfg h t).1 e.2 = true ∧ nameOK (cloneType cfg h t).1 e = true :=
          fun e he hq => ⟨typeShape_keep st e.2 (hin e (by simp [he]) hq).1, nameOK_keep st e (hin e (by simp [he]) hq).2⟩
        simp only [List.mem_cons] at hx
        rcases hx with rfl | hx
        · refine ⟨⟨(n, a), by simp, rfl, hnp⟩, ?_⟩
          intro a' ea
          simp only [Option.some.injEq] at ea
          subst ea
          have st2 := cloneTypes_step cfg hd chk (cloneType cfg h t).1 rest
          refine ⟨typeShape_keep st2 _ hcs, ?_⟩
          obtain ⟨t'', ht'', _, hn''⟩ := readType_keep st2 _ t' ht'
          simp only [nameOK, ht] at hnm
          simp only [nameOK, ht'', hn'', hn']
          exact hnm
        · obtain ⟨⟨e, he, h1⟩, h2⟩ := ih _ hrest x hx
          exact ⟨⟨e, by simp [he], h1⟩, h2⟩

theorem cloneDirs_est (cfg : Cfg) (hd : cfg.deepClone = true) (chk : Ref → Bool) : ∀ (l : List (String × Addr)) (h : Heap),
    (∀ e, e ∈ l → dirShape chk h e.2 = true) →
    ∀ x, x ∈ (cloneDirs cfg h l).2 → ∀ a', x.2 = some a' → dirShape chk (cloneDirs cfg h l).1 a' = true := by
  intro l
  induction l with
  | nil => intro h _ x hx; simp [cloneDirs] at hx
  | cons e0 rest ih =>
    intro h hin x hx a' ea
    obtain ⟨n, a⟩ := e0
    cases hr : h.readDir a with
    | none =>
      simp only [cloneDirs, hr] at hx ⊢
      exact ih h (fun e he => hin e (by simp [he])) x hx a' ea
    | some d =>
      simp only [cloneDirs, hr] at hx ⊢
      have st := cloneDir_step cfg hd chk h d
      simp only [List.mem_cons] at hx
      rcases hx with rfl | hx
      · simp only [Option.some.injEq] at ea
        subst ea
        exact dirShape_keep (cloneDirs_step cfg hd chk _ rest) _ (cloneDir_est cfg hd chk h a d hr (hin (n, a) (by simp)))
      · exact ih _ (fun e he => dirShape_keep st e.2 (hin e (by simp [he]))) x hx a' ea


/-! ### the clone's registry -/

theorem lookup_none_notin {reg : List (String × Addr)} {n : String} (hl : ¬ (lookup reg n).isSome = true) : n ∉ regNames reg := by
  intro hn
  exact hl (lookup_isSome_of_name hn)

theorem buildTypeMap_nodup (h : Heap) (fuel : Nat) (roots : List Addr) : (regNames (buildTypeMap h fuel roots)).Nodup := by
  simp only [buildTypeMap]
  generalize reach h fuel [] roots = l
  suffices ∀ (acc : List (String × Addr)), (regNames acc).Nodup →
      (regNames (l.foldl (fun reg a => match h.readType a with
        | some t => if (lookup reg t.name).isSome then reg else reg ++ [(t.name, a)]
        | none => reg) acc)).Nodup from this [] (by simp [regNames])
  induction l with
  | nil => intro acc ha; exact ha
  | cons a l ih =>
    intro acc ha
    simp only [List.foldl_cons]
    apply ih
    split
    · split
      · exact ha
      · rename_i t _ hl
        simp only [regNames, List.map_append, List.map_cons, List.map_nil]
        rw [List.nodup_append]
        refine ⟨ha, by simp, ?_⟩
        intro x hx y hy
        simp only [List.mem_singleton] at hy
        subst hy
        intro hxy
        exact lookup_none_notin hl (hxy ▸ hx)
    · exact ha

theorem foldl_setdefault_nodup (l : List (String × Addr)) : ∀ (acc : List (String × Addr)), (regNames acc).Nodup →
    (regNames (l.foldl (fun reg e => if (lookup reg e.1).isSome then reg else reg ++ [e]) acc)).Nodup := by
  induction l with
  | nil => intro acc ha; exact ha
  | cons x l ih =>
    intro acc ha
    simp only [List.foldl_cons]
    apply ih
    split
    · exact ha
    · rename_i hl
      simp only [regNames, List.map_append, List.map_cons, List.map_nil]
      rw [List.nodup_append]
      refine ⟨ha, by simp, ?_⟩
      intro a ha' y hy
      simp only [List.mem_singleton] at hy
      subst hy
      intro hxy
      exact lookup_none_notin hl (hxy ▸ ha')

theorem cloneRegistry_nodup (cfg : Cfg) (s : Schema) (h : Heap) (hn : (regNames s.types).Nodup) : (regNames (cloneRegistry cfg s h)).Nodup := by
  have hbase : (regNames ((s.types.filter fun e => isProtected e.1) ++
      ((buildTypeMap h (reachFuel h (rootAddrs s)) (rootAddrs s)).filter fun e => !isProtected e.1))).Nodup := by
    simp only [regNames, List.map_append]
    rw [List.nodup_append]
    refine ⟨List.Nodup.sublist (List.Sublist.map _ List.filter_sublist) hn,
            List.Nodup.sublist (List.Sublist.map _ List.filter_sublist) (buildTypeMap_nodup h _ _), ?_⟩
    intro a ha b hb hab
    simp only [List.mem_map, List.mem_filter] at ha hb
    obtain ⟨e1, ⟨_, hp1⟩, rfl⟩ := ha
    obtain ⟨e2, ⟨_, hp2⟩, rfl⟩ := hb
    rw [hab] at hp1
    simp [hp1] at hp2
  simp only [cloneRegistry]
  split
  · exact foldl_setdefault_nodup s.types _ hbase
  · exact hbase

/-- the clone of a closed schema starts from entries of the source's registry only -/
theorem cloneRegistry_sub (cfg : Cfg) (s : Schema) (h : Heap) (hcl : closedB h s = true) : ∀ e, e ∈ cloneRegistry cfg s h → e ∈ s.types := by
  have hc := closedB_reg hcl
  have hroots : ∀ a, a ∈ rootAddrs s → Good h s.types a := by
    intro a ha
    simp only [closedB, shapeB, Bool.and_eq_true] at hcl
    simp only [rootAddrs, List.mem_filterMap, List.mem_cons, List.not_mem_nil, or_false] at ha
    obtain ⟨r, hr, hra⟩ := ha
    cases r with
    | none => simp at hra
    | some r =>
      simp only [Option.map_some, Option.some.injEq] at hra
      subst hra
      rcases hr with hr | hr | hr
      · have := hcl.1.1.1.2; rw [← hr] at this; exact Or.inl (refOK_good hc this)
      · have := hcl.1.1.2; rw [← hr] at this; exact Or.inl (refOK_good hc this)
      · have := hcl.1.2; rw [← hr] at this; exact Or.inl (refOK_good hc this)
  have hbase : ∀ e, e ∈ (s.types.filter fun e => isProtected e.1) ++
      ((buildTypeMap h (reachFuel h (rootAddrs s)) (rootAddrs s)).filter fun e => !isProtected e.1) → e ∈ s.types := by
    intro e he
    simp only [List.mem_append, List.mem_filter] at he
    rcases he with ⟨h1, _⟩ | ⟨hb, _⟩
    · exact h1
    · exact (buildTypeMap_reg hc _ _ hroots e hb).1
  intro e he
  simp only [cloneRegistry] at he
  split at he
  · rcases foldl_setdefault_mem _ _ e he with h1 | h1
    · exact hbase e h1
    · exact h1
  · exact hbase e he

/-- … and (fixed variant) from ALL its names: both registries agree on every lookup that succeeds in the source -/
theorem cloneRegistry_lookup (cfg : Cfg) (hk : cfg.keepAllTypes = true) (s : Schema) (h : Heap) (hcl : closedB h s = true)
    (hn : (regNames s.types).Nodup) (n : String) (a : Addr) (hl : lookup s.types n = some a) : lookup (cloneRegistry cfg s h) n = some a := by
  have hmem := lookup_mem' hl
  have hname : n ∈ regNames (cloneRegistry cfg s h) := by
    simp only [cloneRegistry, hk, if_true]
    exact (foldl_setdefault_names s.types _).2 (n, a) hmem
  simp only [regNames, List.mem_map] at hname
  obtain ⟨e, he, rfl⟩ := hname
  have hes := cloneRegistry_sub cfg s h hcl e he
  have h1 := lookup_of_mem_nodup hn hes
  rw [hl] at h1
  have h2 := lookup_of_mem_nodup (cloneRegistry_nodup cfg s h hn) he
  rw [h2, h1]


/-! ### the clone of a closed, well-formed schema -/

theorem refOK_lookup {reg : List (String × Addr)} {r : Ref} (h : refOK reg r = true) : lookup reg r.name = some r.addr := by
  simpa [refOK] using h

/-- the state `clone()` hands to `fix_type_references` (registry entries replaced by the copies) is well-formed, and every
    reference in it still passes any check the source's references passed -/
theorem clone_start_wfs_gen (chk' : Ref → Bool) (cfg : Cfg) (hd : cfg.deepClone = true) (s : Schema) (h : Heap) (hcl : closedB h s = true) (w : WFs (refOK s.types) h s)
    (hm : ∀ r, refOK s.types r = true → chk' r = true) :
    WFs chk' (cloneDirs cfg (cloneTypes cfg h s.types).1 s.dirs).1
      (replaceCore cfg { types := cloneRegistry cfg s h, dirs := [], query := s.query, mutation := s.mutation, subscription := s.subscription, dres := none } (cloneTypes cfg h s.types).2 (cloneDirs cfg (cloneTypes cfg h s.types).1 s.dirs).2).1 := by
  obtain ⟨pt, vt, st, nt⟩ := cloneTypes_ok h.size cfg hd s.types h (inv_self h)
  have stT := fun chk => cloneTypes_step cfg hd chk h s.types
  have stD := fun chk => cloneDirs_step cfg hd chk (cloneTypes cfg h s.types).1 s.dirs
  have stAll := fun chk => (stT chk).trans (stD chk)
  have estT := cloneTypes_est cfg hd (refOK s.types) s.types h (fun e he _ => ⟨w.types e he, w.names e he⟩)
  have estD := cloneDirs_est cfg hd (refOK s.types) s.dirs (cloneTypes cfg h s.types).1
    (fun e he => dirShape_keep (stT _) e.2 (w.dirs e he))
  have hsub := cloneRegistry_sub cfg s h hcl
  have hnd := cloneRegistry_nodup cfg s h w.nodup
  have hreadable : ∀ e, e ∈ s.types → (h.readType e.2).isSome = true := by
    intro e he
    obtain ⟨t, ht, _⟩ := (typeShape_iff _ h e.2).mp (w.types e he)
    simp [ht]
  have hP : ∀ e, e ∈ (replaceTypes cfg (cloneRegistry cfg s h) false (cloneTypes cfg h s.types).2).1 →
      typeShape chk' (cloneDirs cfg (cloneTypes cfg h s.types).1 s.dirs).1 e.2 = true ∧
      nameOK (cloneDirs cfg (cloneTypes cfg h s.types).1 s.dirs).1 e = true ∧
      protLeaf (cloneDirs cfg (cloneTypes cfg h s.types).1 s.dirs).1 e = true := by
    apply replaceTypes_pred cfg (fun e => typeShape chk' (cloneDirs cfg (cloneTypes cfg h s.types).1 s.dirs).1 e.2 = true ∧
      nameOK (cloneDirs cfg (cloneTypes cfg h s.types).1 s.dirs).1 e = true ∧
      protLeaf (cloneDirs cfg (cloneTypes cfg h s.types).1 s.dirs).1 e = true)
    · intro x hx a' ea
      obtain ⟨⟨e0, _, h1x, hnp⟩, h2⟩ := estT x hx
      obtain ⟨hsh, hnm⟩ := h2 a' ea
      refine ⟨typeShape_mono hm _ _ (typeShape_keep (stD _) a' hsh), nameOK_keep (stD chk') _ hnm, ?_⟩
      simp [protLeaf, ← h1x, hnp]
    · intro e0 he0
      have hes := hsub e0 he0
      by_cases hp : isProtected e0.1 = true
      · left
        have hl := protLeaf_keep (stAll chk') e0 (w.prot e0 hes)
        exact ⟨typeShape_prot _ _ e0 hp hl, nameOK_keep (stAll chk') e0 (w.names e0 hes), hl⟩
      · right
        have hnp : isProtected e0.1 = false := by simpa using hp
        exact nt e0.1 e0.2 hes hnp (readType_lt (hreadable e0 hes)) (hreadable e0 hes)
  simp only [replaceCore]
  refine ⟨fun e0 he0 => (hP e0 he0).1, ?_, fun e0 he0 => (hP e0 he0).2.1, fun e0 he0 => (hP e0 he0).2.2,
    replaceTypes_nodup cfg _ _ _ hnd⟩
  apply replaceDirs_pred (fun e => dirShape chk' (cloneDirs cfg (cloneTypes cfg h s.types).1 s.dirs).1 e.2 = true)
  · intro x hx a' ea
    exact dirShape_mono hm _ _ (estD x hx a' ea)
  · intro e0 he0; simp at he0

theorem clone_start_wfs (cfg : Cfg) (hd : cfg.deepClone = true) (s : Schema) (h : Heap) (hcl : closedB h s = true) (w : WFs (refOK s.types) h s) :
    WFs (fun _ => true) (cloneDirs cfg (cloneTypes cfg h s.types).1 s.dirs).1
      (replaceCore cfg { types := cloneRegistry cfg s h, dirs := [], query := s.query, mutation := s.mutation, subscription := s.subscription, dres := none } (cloneTypes cfg h s.types).2 (cloneDirs cfg (cloneTypes cfg h s.types).1 s.dirs).2).1 :=
  clone_start_wfs_gen (fun _ => true) cfg hd s h hcl w (fun _ _ => rfl)

/-- `Schema.clone` (deep copy, all types kept, accumulated flag) of a closed well-formed schema is closed and well-formed -/
theorem clone_closed_wfs (cfg : Cfg) (hd : cfg.deepClone = true) (hk : cfg.keepAllTypes = true) (hacc : cfg.accumulateBusted = true)
    (fuel : Nat) (s : Schema) (h h' : Heap) (s' : Schema) (hcl : closedB h s = true) (w : WFs (refOK s.types) h s)
    (e : clone cfg fuel s h = some (h', s')) : closedB h' s' = true ∧ WFs (refOK s'.types) h' s' := by
  -- the copying phase
  obtain ⟨pt, vt, st, nt⟩ := cloneTypes_ok h.size cfg hd s.types h (inv_self h)
  have stT := fun chk => cloneTypes_step cfg hd chk h s.types
  have stD := fun chk => cloneDirs_step cfg hd chk (cloneTypes cfg h s.types).1 s.dirs
  have stAll := fun chk => (stT chk).trans (stD chk)
  have estT := cloneTypes_est cfg hd (refOK s.types) s.types h (fun e he _ => ⟨w.types e he, w.names e he⟩)
  have estD := cloneDirs_est cfg hd (refOK s.types) s.dirs (cloneTypes cfg h s.types).1
    (fun e he => dirShape_keep (stT _) e.2 (w.dirs e he))
  have hsub := cloneRegistry_sub cfg s h hcl
  have hnd := cloneRegistry_nodup cfg s h w.nodup
  have hreadable : ∀ e, e ∈ s.types → (h.readType e.2).isSome = true := by
    intro e he
    obtain ⟨t, ht, _⟩ := (typeShape_iff _ h e.2).mp (w.types e he)
    simp [ht]
  simp only [clone] at e
  split at e
  · cases e
  · rename_i h1 s1 hr
    cases e
    suffices hmain : closedB h' s1 = true ∧ WFs (refOK s1.types) h' s1 from
      ⟨hmain.1, ⟨hmain.2.types, hmain.2.dirs, hmain.2.names, hmain.2.prot, hmain.2.nodup⟩⟩
    simp only [replaceTD] at hr
    split at hr
    · -- types were replaced by their copies: `fix_type_references` runs on a well-formed schema
      exact healLoop_closed cfg hacc fuel _ _ _ _ (clone_start_wfs cfg hd s h hcl w) hr
    · -- nothing was replaced: there is no (non-protected) type to copy; the registry is the clone's initial one
      rename_i hb
      cases hr
      have hnil : (cloneTypes cfg h s.types).2 = [] := by
        apply not_busted_nil cfg hacc (cloneRegistry cfg s h) hnd
        · intro x hx
          obtain ⟨⟨e0, he0, h1x, _⟩, _⟩ := estT x hx
          have hname : x.1 ∈ regNames (cloneRegistry cfg s h) := by
            simp only [cloneRegistry, hk, if_true]
            rw [← h1x]
            exact (foldl_setdefault_names s.types _).2 e0 he0
          simp only [regNames, List.mem_map] at hname
          obtain ⟨e1, he1, h1e⟩ := hname
          refine ⟨e1, he1, h1e, ?_⟩
          intro heq
          have hlt := readType_lt (hreadable e1 (hsub e1 he1))
          have hfresh := vt x hx e1.2 heq
          exact absurd hlt (Nat.not_lt.mpr hfresh)
        · simpa [replaceCore] using hb
      have hmono : ∀ r, refOK s.types r = true → refOK (cloneRegistry cfg s h) r = true := by
        intro r hr'
        have := cloneRegistry_lookup cfg hk s h hcl w.nodup r.name r.addr (refOK_lookup hr')
        simp [refOK, this]
      have w' : WFs (refOK (cloneRegistry cfg s h)) (cloneDirs cfg (cloneTypes cfg h s.types).1 s.dirs).1
          (replaceCore cfg { types := cloneRegistry cfg s h, dirs := [], query := s.query, mutation := s.mutation, subscription := s.subscription, dres := none } (cloneTypes cfg h s.types).2 (cloneDirs cfg (cloneTypes cfg h s.types).1 s.dirs).2).1 := by
        simp only [replaceCore, hnil, replaceTypes]
        refine ⟨?_, ?_, ?_, ?_, hnd⟩
        · intro e0 he0
          exact typeShape_mono hmono _ _ (typeShape_keep (stAll _) e0.2 (w.types e0 (hsub e0 he0)))
        · apply replaceDirs_pred (fun e => dirShape (refOK (cloneRegistry cfg s h)) (cloneDirs cfg (cloneTypes cfg h s.types).1 s.dirs).1 e.2 = true)
          · intro x hx a' ea
            exact dirShape_mono hmono _ _ (estD x hx a' ea)
          · intro e0 he0; simp at he0
        · exact fun e0 he0 => nameOK_keep (stAll (fun _ => true)) e0 (w.names e0 (hsub e0 he0))
        · exact fun e0 he0 => protLeaf_keep (stAll (fun _ => true)) e0 (w.prot e0 (hsub e0 he0))
      have htypes : (replaceCore cfg { types := cloneRegistry cfg s h, dirs := [], query := s.query, mutation := s.mutation, subscription := s.subscription, dres := none } (cloneTypes cfg h s.types).2 (cloneDirs cfg (cloneTypes cfg h s.types).1 s.dirs).2).1.types
          = cloneRegistry cfg s h := by simp [replaceCore, hnil, replaceTypes]
      refine ⟨?_, by rw [htypes]; exact w'⟩
      apply closedB_of_wfs _ _ (by rw [htypes]; exact w')
      · rw [htypes]; simp only [replaceCore, hnil, replaceTypes]; exact rootOK_reRoot _ s.query
      · rw [htypes]; simp only [replaceCore, hnil, replaceTypes]; exact rootOK_reRoot _ s.mutation
      · rw [htypes]; simp only [replaceCore, hnil, replaceTypes]; exact rootOK_reRoot _ s.subscription

end PyGql.Heap.Own

/-
  `Spec.ParentsAgree` from the other rules' clauses, part 1: the typed node enumeration is closed under the selections
  of its selection sets, a selection-set node shows `parent = compositeBase type`, and - with well-formed identities -
  a selection-set identity determines its (node, static context) pair.
-/
import PyGqlModel.Lemmas.ValidateOverlapWf2
import PyGqlModel.Validate.WfMeta
namespace PyGql.Validate
open PyGql PyGql.Validate.Spec

theorem mem_withView {w : View} {ns : List Node} {q : Node × View} (h : q ∈ withView w ns) : q.1 ∈ ns := by
  rw [← withView_fst w ns]; exact List.mem_map.mpr ⟨q, h, rfl⟩

theorem mem_tnDirs {s : SchemaD} {w : View} {ds : List Dir} {q : Node × View} (h : q ∈ tnDirs s w ds) :
    q.1 ∈ dirsNodes ds := by
  rw [← tnDirs_fst s w ds]; exact List.mem_map.mpr ⟨q, h, rfl⟩

theorem mem_tnSels_of_mem {s : SchemaD} {w : View} {x : Sel} {xs : List Sel} (hx : x ∈ xs) :
    ∀ q ∈ tnSel s w x, q ∈ tnSels s w xs := by
  induction xs with
  | nil => cases hx
  | cons y ys ih =>
    intro q hq
    rw [tnSels, List.mem_append]
    rcases List.mem_cons.mp hx with rfl | hx'
    · exact Or.inl hq
    · exact Or.inr (ih hx' q hq)

private theorem notSelT {q : Node × View} {i : Nat} {sels : List Sel} {v : View} (h : q.1.isSelSet = false)
    (e : q = (Node.selectionSet i sels, v)) : False := by subst e; cases h

mutual
/-- closure of the typed enumeration of a selection, and the shape of the context at a selection-set node -/
theorem tclosed_sel (s : SchemaD) : ∀ (x : Sel) (w : View) (i : Nat) (sels : List Sel) (v : View),
    (Node.selectionSet i sels, v) ∈ tnSel s w x →
    (∀ q ∈ tnSels s v sels, q ∈ tnSel s w x) ∧ v.parent = compositeBase s v.type
  | .field al name args dirs true ssid sub, w, i, sels, v, h => by
    simp only [tnSel, ↓reduceIte, List.mem_cons, List.mem_append, Prod.mk.injEq, reduceCtorEq, false_and,
      false_or] at h
    rcases h with (h | h) | h | h
    · exact (notSelT (argsNodes_noSelSet _ _ (mem_withView h)) rfl).elim
    · exact (notSelT (dirsNodes_noSelSet _ _ (mem_tnDirs h)) rfl).elim
    · obtain ⟨⟨rfl, rfl⟩, rfl⟩ := h
      refine ⟨fun q hq => ?_, rfl⟩
      simp only [tnSel, ↓reduceIte, List.mem_cons, List.mem_append]
      exact Or.inr (Or.inr (Or.inr hq))
    · obtain ⟨c1, c2⟩ := tclosed_sels s sub _ i sels v h
      refine ⟨fun q hq => ?_, c2⟩
      simp only [tnSel, ↓reduceIte, List.mem_cons, List.mem_append]
      exact Or.inr (Or.inr (Or.inr (c1 q hq)))
  | .field al name args dirs false ssid sub, w, i, sels, v, h => by
    simp only [tnSel, Bool.false_eq_true, ↓reduceIte, List.append_nil, List.mem_cons, List.mem_append, Prod.mk.injEq,
      reduceCtorEq, false_and, false_or] at h
    rcases h with h | h
    · exact (notSelT (argsNodes_noSelSet _ _ (mem_withView h)) rfl).elim
    · exact (notSelT (dirsNodes_noSelSet _ _ (mem_tnDirs h)) rfl).elim
  | .spread name dirs, w, i, sels, v, h => by
    simp only [tnSel, List.mem_cons, Prod.mk.injEq, reduceCtorEq, false_and, false_or] at h
    exact (notSelT (dirsNodes_noSelSet _ _ (mem_tnDirs h)) rfl).elim
  | .inline on dirs id sub, w, i, sels, v, h => by
    simp only [tnSel, List.mem_cons, List.mem_append, Prod.mk.injEq, reduceCtorEq, false_and, false_or] at h
    rcases h with h | h | h
    · exact (notSelT (dirsNodes_noSelSet _ _ (mem_tnDirs h)) rfl).elim
    · obtain ⟨⟨rfl, rfl⟩, rfl⟩ := h
      refine ⟨fun q hq => ?_, rfl⟩
      simp only [tnSel, List.mem_cons, List.mem_append]
      exact Or.inr (Or.inr (Or.inr hq))
    · obtain ⟨c1, c2⟩ := tclosed_sels s sub _ i sels v h
      refine ⟨fun q hq => ?_, c2⟩
      simp only [tnSel, List.mem_cons, List.mem_append]
      exact Or.inr (Or.inr (Or.inr (c1 q hq)))
theorem tclosed_sels (s : SchemaD) : ∀ (xs : List Sel) (w : View) (i : Nat) (sels : List Sel) (v : View),
    (Node.selectionSet i sels, v) ∈ tnSels s w xs →
    (∀ q ∈ tnSels s v sels, q ∈ tnSels s w xs) ∧ v.parent = compositeBase s v.type
  | [], _, _, _, _, h => by cases h
  | x :: xs, w, i, sels, v, h => by
    rw [tnSels, List.mem_append] at h
    rcases h with h | h
    · obtain ⟨c1, c2⟩ := tclosed_sel s x w i sels v h
      exact ⟨fun q hq => by rw [tnSels, List.mem_append]; exact Or.inl (c1 q hq), c2⟩
    · obtain ⟨c1, c2⟩ := tclosed_sels s xs w i sels v h
      exact ⟨fun q hq => by rw [tnSels, List.mem_append]; exact Or.inr (c1 q hq), c2⟩
end

theorem tclosed_def (s : SchemaD) (df : Def) (i : Nat) (sels : List Sel) (v : View)
    (h : (Node.selectionSet i sels, v) ∈ tnDef s df) :
    (∀ q ∈ tnSels s v sels, q ∈ tnDef s df) ∧ v.parent = compositeBase s v.type := by
  cases df with
  | op kind name vars dirs j ss =>
    simp only [tnDef, List.mem_cons, List.mem_append, Prod.mk.injEq, reduceCtorEq, false_and, false_or] at h
    rcases h with (h | h) | h | h
    · have hm : (Node.selectionSet i sels, v).1 ∈ vars.flatMap varDefNodes := by
        rw [← tnVarDefs_fst s _ vars]; exact List.mem_map.mpr ⟨_, h, rfl⟩
      exact (notSelT (varDefsNodes_noSelSet _ _ hm) rfl).elim
    · exact (notSelT (dirsNodes_noSelSet _ _ (mem_tnDirs h)) rfl).elim
    · obtain ⟨⟨rfl, rfl⟩, rfl⟩ := h
      refine ⟨fun q hq => ?_, rfl⟩
      simp only [tnDef, List.mem_cons, List.mem_append]
      exact Or.inr (Or.inr (Or.inr hq))
    · obtain ⟨c1, c2⟩ := tclosed_sels s ss _ i sels v h
      refine ⟨fun q hq => ?_, c2⟩
      simp only [tnDef, List.mem_cons, List.mem_append]
      exact Or.inr (Or.inr (Or.inr (c1 q hq)))
  | frag name on dirs j ss =>
    simp only [tnDef, List.mem_cons, List.mem_append, Prod.mk.injEq, reduceCtorEq, false_and, false_or] at h
    rcases h with h | h | h
    · exact (notSelT (dirsNodes_noSelSet _ _ (mem_tnDirs h)) rfl).elim
    · obtain ⟨⟨rfl, rfl⟩, rfl⟩ := h
      refine ⟨fun q hq => ?_, rfl⟩
      simp only [tnDef, List.mem_cons, List.mem_append]
      exact Or.inr (Or.inr (Or.inr hq))
    · obtain ⟨c1, c2⟩ := tclosed_sels s ss _ i sels v h
      refine ⟨fun q hq => ?_, c2⟩
      simp only [tnDef, List.mem_cons, List.mem_append]
      exact Or.inr (Or.inr (Or.inr (c1 q hq)))
  | ts a b => simp [tnDef] at h

/-- **typed closure**: the typed enumeration contains the typed selections of each of its selection sets -/
theorem typed_closed {s : SchemaD} {d : Doc} {i : Nat} {sels : List Sel} {v : View}
    (h : (Node.selectionSet i sels, v) ∈ typedNodes s d) :
    (∀ q ∈ tnSels s v sels, q ∈ typedNodes s d) ∧ v.parent = compositeBase s v.type := by
  simp only [typedNodes, List.mem_flatMap] at h ⊢
  obtain ⟨df, hdf, hm⟩ := h
  obtain ⟨c1, c2⟩ := tclosed_def s df i sels v hm
  exact ⟨fun q hq => ⟨df, hdf, c1 q hq⟩, c2⟩

theorem typed_node_mem {s : SchemaD} {d : Doc} {q : Node × View} (h : q ∈ typedNodes s d) : q.1 ∈ nodes d := by
  unfold nodes
  apply List.mem_cons_of_mem
  rw [← typedNodes_fst s d]
  exact List.mem_map.mpr ⟨q, h, rfl⟩

/-- with well-formed identities a selection-set identity determines its (node, context) pair -/
theorem typed_unique {s : SchemaD} {d : Doc} (hw : WfIds d) {q q' : Node × View} {k : Nat}
    (h1 : q ∈ typedNodes s d) (h2 : q' ∈ typedNodes s d) (e1 : ssidOf? q.1 = some k) (e2 : ssidOf? q'.1 = some k) :
    q = q' := by
  have hnd : ((typedNodes s d).filterMap fun q => ssidOf? q.1).Nodup := by
    have : ((typedNodes s d).filterMap fun q => ssidOf? q.1) = selSetIds d := by
      have h0 : selSetIds d = idsOf (d.defs.flatMap defNodes) := by
        unfold selSetIds nodes
        show idsOf ([Node.document d] ++ _) = _
        rw [idsOf_append]; rfl
      rw [h0, ← typedNodes_fst s d]
      unfold idsOf
      rw [List.filterMap_map]
      rfl
    rw [this]; exact hw
  exact filterMap_inj_of_nodup _ _ hnd q h1 q' h2 k e1 e2

end PyGql.Validate

/-
  The walk of `ChainedVisitor` over a document, for a chain whose rules never raise `SkipNode` and whose
  error counts per node do not depend on the visitor state ("context-free" chain):
  the number of errors after the walk = the sum over EVERY node of the document (`Spec.nodes`),
  i.e. the visitor enters and leaves each node exactly once.
-/
import PyGqlModel.Validate.Chain
import PyGqlModel.Spec.ValidSpec
namespace PyGql.Validate
open PyGql PyGql.Validate.Spec

/-- number of errors recorded so far -/
def E (st : St) : Nat := st.rs.errs.length

def total (f g : Node → Nat) (ns : List Node) : Nat := (ns.map fun n => f n + g n).sum

theorem total_nil (f g : Node → Nat) : total f g [] = 0 := rfl
theorem total_cons (f g : Node → Nat) (n : Node) (ns : List Node) : total f g (n :: ns) = (f n + g n) + total f g ns := by
  simp [total]
theorem total_append (f g : Node → Nat) (a b : List Node) : total f g (a ++ b) = total f g a + total f g b := by
  simp [total]

/-- a chain that never skips and whose error counts depend on the node only -/
def Node.isDoc : Node → Bool | .document _ => true | _ => false

/-- context-free BELOW the document node (document-level rules may skip at the document itself) -/
structure CF (c : Cfg) (f g : Node → Nat) : Prop where
  noskip : ∀ n st, n.isDoc = false → (enter c n st).2 = false
  enterE : ∀ n st, n.isDoc = false → E (enter c n st).1 = E st + f n
  leaveE : ∀ n st, n.isDoc = false → E (leave c n st) = E st + g n

variable {c : Cfg} {f g : Node → Nat}

theorem visitNode_E (h : CF c f g) (n : Node) (body : St → St) (k : Nat)
    (hb : ∀ st, E (body st) = E st + k) (st : St) (hn : n.isDoc = false := by rfl) :
    E (visitNode c n body st) = E st + ((f n + g n) + k) := by
  have e1 := h.enterE n st hn
  have e2 := h.noskip n st hn
  unfold visitNode
  revert e1 e2
  generalize enter c n st = p
  obtain ⟨st', sk⟩ := p
  intro e1 e2
  simp only at e1 e2
  subst e2
  simp only [Bool.false_eq_true, ↓reduceIte, h.leaveE _ _ hn, hb, e1]
  omega

mutual
theorem visitValue_E (h : CF c f g) : ∀ (v : Value) (st : St), E (visitValue c v st) = E st + total f g (valueNodes v)
  | .list vs, st => by
    rw [visitValue, valueNodes, total_cons]
    exact visitNode_E h _ _ _ (fun st => visitValues_E h vs st) st
  | .obj fs, st => by
    rw [visitValue, valueNodes, total_cons]
    exact visitNode_E h _ _ _ (fun st => visitObjFields_E h fs st) st
  | .var x, st => by
    rw [visitValue]; simp only [valueNodes, total_cons, total_nil]; exact visitNode_E h _ _ 0 (fun _ => rfl) st
  | .int x, st => by
    rw [visitValue]; simp only [valueNodes, total_cons, total_nil]; exact visitNode_E h _ _ 0 (fun _ => rfl) st
  | .float x, st => by
    rw [visitValue]; simp only [valueNodes, total_cons, total_nil]; exact visitNode_E h _ _ 0 (fun _ => rfl) st
  | .str x, st => by
    rw [visitValue]; simp only [valueNodes, total_cons, total_nil]; exact visitNode_E h _ _ 0 (fun _ => rfl) st
  | .bool x, st => by
    rw [visitValue]; simp only [valueNodes, total_cons, total_nil]; exact visitNode_E h _ _ 0 (fun _ => rfl) st
  | .null, st => by
    rw [visitValue]; simp only [valueNodes, total_cons, total_nil]; exact visitNode_E h _ _ 0 (fun _ => rfl) st
  | .enum x, st => by
    rw [visitValue]; simp only [valueNodes, total_cons, total_nil]; exact visitNode_E h _ _ 0 (fun _ => rfl) st
theorem visitValues_E (h : CF c f g) : ∀ (vs : List Value) (st : St), E (visitValues c vs st) = E st + total f g (valuesNodes vs)
  | [], st => by rw [visitValues, valuesNodes, total_nil]; rfl
  | v :: vs, st => by
    rw [visitValues, valuesNodes, total_append, visitValues_E h vs, visitValue_E h v]; omega
theorem visitObjField_E (h : CF c f g) : ∀ (x : ObjField) (st : St), E (visitObjField c x st) = E st + total f g (objFieldNodes x)
  | .mk n v, st => by
    rw [visitObjField, objFieldNodes, total_cons]
    exact visitNode_E h _ _ _ (fun st => visitValue_E h v st) st
theorem visitObjFields_E (h : CF c f g) : ∀ (fs : List ObjField) (st : St), E (visitObjFields c fs st) = E st + total f g (objFieldsNodes fs)
  | [], st => by rw [visitObjFields, objFieldsNodes, total_nil]; rfl
  | x :: fs, st => by
    rw [visitObjFields, objFieldsNodes, total_append, visitObjFields_E h fs, visitObjField_E h x]; omega
end


theorem foldl_E {α} (h : CF c f g) (visit : α → St → St) (ns : α → List Node)
    (hv : ∀ a st, E (visit a st) = E st + total f g (ns a)) :
    ∀ (as : List α) (st : St), E (as.foldl (fun st a => visit a st) st) = E st + total f g (as.flatMap ns)
  | [], st => by simp [total_nil]
  | a :: as, st => by
    rw [List.foldl_cons, foldl_E h visit ns hv as, hv, List.flatMap_cons, total_append]; omega

theorem visitArgument_E (h : CF c f g) (a : Arg) (st : St) : E (visitArgument c a st) = E st + total f g (argNodes a) := by
  rw [visitArgument, argNodes, total_cons]
  exact visitNode_E h _ _ _ (fun st => visitValue_E h a.value st) st

theorem visitArguments_E (h : CF c f g) (as : List Arg) (st : St) : E (visitArguments c as st) = E st + total f g (argsNodes as) :=
  foldl_E h (visitArgument c) argNodes (visitArgument_E h) as st

theorem visitDirective_E (h : CF c f g) (d : Dir) (st : St) : E (visitDirective c d st) = E st + total f g (dirNodes d) := by
  rw [visitDirective, dirNodes, total_cons]
  exact visitNode_E h _ _ _ (fun st => visitArguments_E h d.args st) st

theorem visitDirectives_E (h : CF c f g) (ds : List Dir) (st : St) : E (visitDirectives c ds st) = E st + total f g (dirsNodes ds) :=
  foldl_E h (visitDirective c) dirNodes (visitDirective_E h) ds st

mutual
theorem visitSel_E (h : CF c f g) : ∀ (x : Sel) (st : St), E (visitSel c x st) = E st + total f g (selNodes x)
  | .field al name args dirs true ssid sub, st => by
    rw [visitSel, selNodes, total_cons]
    refine visitNode_E h _ _ _ (fun st => ?_) st
    simp only [↓reduceIte, total_append, total_cons]
    rw [visitNode_E h _ _ _ (fun st => visitSels_E h sub st), visitDirectives_E h, visitArguments_E h]; omega
  | .field al name args dirs false ssid sub, st => by
    rw [visitSel, selNodes, total_cons]
    refine visitNode_E h _ _ _ (fun st => ?_) st
    simp only [Bool.false_eq_true, ↓reduceIte, total_append, total_nil]
    rw [visitDirectives_E h, visitArguments_E h]; omega
  | .spread name dirs, st => by
    rw [visitSel, selNodes, total_cons]
    exact visitNode_E h _ _ _ (fun st => visitDirectives_E h dirs st) st
  | .inline on dirs ssid sub, st => by
    rw [visitSel, selNodes, total_cons]
    refine visitNode_E h _ _ _ (fun st => ?_) st
    simp only [total_append, total_cons]
    rw [visitNode_E h _ _ _ (fun st => visitSels_E h sub st), visitDirectives_E h]; omega
theorem visitSels_E (h : CF c f g) : ∀ (xs : List Sel) (st : St), E (visitSels c xs st) = E st + total f g (selsNodes xs)
  | [], st => by rw [visitSels, selsNodes, total_nil]; rfl
  | x :: xs, st => by
    rw [visitSels, selsNodes, total_append, visitSels_E h xs, visitSel_E h x]; omega
end

theorem visitVarDef_E (h : CF c f g) (v : VarDef) (st : St) : E (visitVarDef c v st) = E st + total f g (varDefNodes v) := by
  rw [visitVarDef, varDefNodes, total_cons]
  refine visitNode_E h _ _ _ (fun st => ?_) st
  rw [total_append, total_cons, visitDirectives_E h, visitNode_E h _ id 0 (fun _ => rfl)]
  cases v.default with
  | none => simp only [total_nil]; omega
  | some d => simp only [visitValue_E h]; omega

theorem visitDef_E (h : CF c f g) (d : Def) (st : St) : E (visitDef c d st) = E st + total f g (defNodes d) := by
  cases d with
  | op kind name vars dirs ssid sels =>
    simp only [visitDef, defNodes, total_cons, total_append]
    rw [visitNode_E h _ _ (total f g (vars.flatMap varDefNodes) + total f g (dirsNodes dirs) +
          ((f (.selectionSet ssid sels) + g (.selectionSet ssid sels)) + total f g (selsNodes sels)))]
    · intro st
      rw [visitNode_E h _ _ _ (fun st => visitSels_E h sels st), visitDirectives_E h,
        foldl_E h (visitVarDef c) varDefNodes (visitVarDef_E h)]; omega
  | frag name on dirs ssid sels =>
    simp only [visitDef, defNodes, total_cons, total_append]
    rw [visitNode_E h _ _ (total f g (dirsNodes dirs) +
          ((f (.selectionSet ssid sels) + g (.selectionSet ssid sels)) + total f g (selsNodes sels)))]
    · intro st
      rw [visitNode_E h _ _ _ (fun st => visitSels_E h sels st), visitDirectives_E h]; omega
  | ts a b =>
    simp only [visitDef, defNodes, total_cons, total_nil]
    exact visitNode_E h _ id 0 (fun _ => rfl) st

theorem visitDefs_E (h : CF c f g) (ds : List Def) (st : St) :
    E (ds.foldl (fun st x => visitDef c x st) st) = E st + total f g (ds.flatMap defNodes) :=
  foldl_E h (visitDef c) defNodes (visitDef_E h) ds st

/-- **every node exactly once**: for a chain that is context-free below the document and does not skip at
    the document, the number of errors after visiting the document is the sum, over all nodes of the
    document, of the errors added on entering and on leaving the node -/
theorem visitDocument_E (h : CF c f g) (d : Doc) (st : St)
    (hs : (enter c (.document d) st).2 = false)
    (he : E (enter c (.document d) st).1 = E st + f (.document d))
    (hl : ∀ st, E (leave c (.document d) st) = E st + g (.document d)) :
    E (visitDocument c d st) = E st + total f g (nodes d) := by
  rw [visitDocument, nodes, total_cons]
  unfold visitNode
  revert hs he
  generalize enter c (.document d) st = p
  obtain ⟨st', sk⟩ := p
  intro hs he
  simp only at hs he
  subst hs
  simp only [Bool.false_eq_true, ↓reduceIte, hl, visitDefs_E h, he]
  omega

/-- the document is not entered further when the chain skips at the document node: the members that entered are left -/
theorem visitDocument_skip (d : Doc) (st : St) (hs : (enter c (.document d) st).2 = true) :
    visitDocument c d st = leaveSkipped c (.document d) st (enter c (.document d) st).1 := by
  rw [visitDocument]
  unfold visitNode
  revert hs
  generalize enter c (.document d) st = p
  obtain ⟨st', sk⟩ := p
  intro hs
  simp only at hs
  subst hs
  rfl

/-- a single-rule chain whose rule raised `SkipNode`: nobody but `TypeInfoVisitor` is left -/
theorem leaveSkipped_single (s : SchemaD) (fx : Fixes) (r : Rule) (n : Node) (st0 st1 : St)
    (h : (enterRule s fx r n st1.ti st0.rs).2 = true) :
    leaveSkipped ⟨s, fx, [r]⟩ n st0 st1 = { ti := tiLeave n st1.ti, rs := st1.rs } := by
  unfold leaveSkipped raisedRules
  revert h
  generalize enterRule s fx r n st1.ti st0.rs = p
  obtain ⟨a, b⟩ := p
  intro h
  simp only at h
  subst h
  simp [raisedRules]

theorem enter_one_rule (s : SchemaD) (fx : Fixes) (r : Rule) (n : Node) (st : St) :
    enter ⟨s, fx, [r]⟩ n st =
      ({ ti := tiEnter s n st.ti, rs := (enterRule s fx r n (tiEnter s n st.ti) st.rs).1 },
       (enterRule s fx r n (tiEnter s n st.ti) st.rs).2) := by
  simp only [enter, enterRules]
  generalize enterRule s fx r n (tiEnter s n st.ti) st.rs = p
  obtain ⟨a, b⟩ := p
  cases b <;> simp

/-- single-rule chain that skips at `n`: the state after the node is the entered state with `TypeInfoVisitor` left -/
theorem leaveSkipped_enter_single (s : SchemaD) (fx : Fixes) (r : Rule) (n : Node) (st : St)
    (h : (enter ⟨s, fx, [r]⟩ n st).2 = true) :
    leaveSkipped ⟨s, fx, [r]⟩ n st (enter ⟨s, fx, [r]⟩ n st).1 =
      { ti := tiLeave n (tiEnter s n st.ti), rs := (enterRule s fx r n (tiEnter s n st.ti) st.rs).1 } := by
  rw [enter_one_rule] at h ⊢
  exact leaveSkipped_single s fx r n st _ h

end PyGql.Validate

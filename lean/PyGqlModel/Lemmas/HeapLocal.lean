/-
  C14 — LOCALITY of closedness / well-formedness: `closedB h s` and `wfB h s` only read the objects the schema registers, their
  member objects and the argument objects of their fields (`Foot Q h s`: all of them lie in `Q`). So a heap `h'` that agrees with
  `h` on `Q` gives the same verdicts, whatever was written or allocated elsewhere — the objects of OTHER schemas included.
-/
import PyGqlModel.Lemmas.HeapOwn

set_option linter.unusedSimpArgs false
set_option linter.unusedVariables false

namespace PyGql.Heap.Local
open PyGql.Heap PyGql.Heap.Own

/-- the footprint of a schema lies inside `Q` -/
def Foot (Q : Addr → Prop) (h : Heap) (s : Schema) : Prop :=
  (∀ e, e ∈ s.types → Q e.2 ∧ ∀ t, h.readType e.2 = some t → ∀ c, c ∈ typeKids t →
      Q c ∧ ∀ f, h.readField c = some f → ∀ g, g ∈ f.args → Q g) ∧
  (∀ e, e ∈ s.dirs → Q e.2 ∧ ∀ d, h.readDir e.2 = some d → ∀ c, c ∈ d.args → Q c)

/-- `h'` shows the same objects as `h` at the addresses of `Q` -/
def Agree (Q : Addr → Prop) (h h' : Heap) : Prop := ∀ x, Q x → h'.read x = h.read x

theorem readType_agree {Q : Addr → Prop} {h h' : Heap} (ag : Agree Q h h') {a : Addr} (qa : Q a) : h'.readType a = h.readType a := by
  simp only [Heap.readType, ag a qa]
theorem readField_agree {Q : Addr → Prop} {h h' : Heap} (ag : Agree Q h h') {a : Addr} (qa : Q a) : h'.readField a = h.readField a := by
  simp only [Heap.readField, ag a qa]
theorem readArg_agree {Q : Addr → Prop} {h h' : Heap} (ag : Agree Q h h') {a : Addr} (qa : Q a) : h'.readArg a = h.readArg a := by
  simp only [Heap.readArg, ag a qa]
theorem readDir_agree {Q : Addr → Prop} {h h' : Heap} (ag : Agree Q h h') {a : Addr} (qa : Q a) : h'.readDir a = h.readDir a := by
  simp only [Heap.readDir, ag a qa]

theorem Foot.keep {Q : Addr → Prop} {h h' : Heap} (ag : Agree Q h h') {s : Schema} (f : Foot Q h s) : Foot Q h' s := by
  refine ⟨fun e he => ?_, fun e he => ?_⟩
  · obtain ⟨q, k⟩ := f.1 e he
    refine ⟨q, fun t ht c hc => ?_⟩
    rw [readType_agree ag q] at ht
    obtain ⟨qc, kc⟩ := k t ht c hc
    refine ⟨qc, fun fl hfl g hg => ?_⟩
    rw [readField_agree ag qc] at hfl
    exact kc fl hfl g hg
  · obtain ⟨q, k⟩ := f.2 e he
    refine ⟨q, fun d hd c hc => ?_⟩
    rw [readDir_agree ag q] at hd
    exact k d hd c hc

theorem Foot.mono {Q Q' : Addr → Prop} (hq : ∀ x, Q x → Q' x) {h : Heap} {s : Schema} (f : Foot Q h s) : Foot Q' h s := by
  refine ⟨fun e he => ?_, fun e he => ?_⟩
  · obtain ⟨q, k⟩ := f.1 e he
    exact ⟨hq _ q, fun t ht c hc => ⟨hq _ (k t ht c hc).1, fun fl hfl g hg => hq _ ((k t ht c hc).2 fl hfl g hg)⟩⟩
  · obtain ⟨q, k⟩ := f.2 e he
    exact ⟨hq _ q, fun d hd c hc => hq _ (k d hd c hc)⟩

theorem argShape_agree {Q : Addr → Prop} {h h' : Heap} (ag : Agree Q h h') (chk : Ref → Bool) {a : Addr} (qa : Q a) :
    argShape chk h' a = argShape chk h a := by
  simp only [argShape, readArg_agree ag qa]

theorem all_eq_of {α : Type} {l : List α} {p q : α → Bool} (hpq : ∀ x, x ∈ l → p x = q x) : l.all p = l.all q := by
  induction l with
  | nil => rfl
  | cons x l ih =>
    simp only [List.all_cons]
    rw [hpq x (by simp), ih (fun y hy => hpq y (by simp [hy]))]

theorem fieldShape_agree {Q : Addr → Prop} {h h' : Heap} (ag : Agree Q h h') (chk : Ref → Bool) {a : Addr} (qa : Q a)
    (qk : ∀ f, h.readField a = some f → ∀ g, g ∈ f.args → Q g) : fieldShape chk h' a = fieldShape chk h a := by
  simp only [fieldShape, readField_agree ag qa]
  cases hf : h.readField a with
  | none => rfl
  | some f =>
    simp only
    rw [all_eq_of (fun g hg => argShape_agree ag chk (qk f hf g hg))]

theorem typeShape_agree {Q : Addr → Prop} {h h' : Heap} (ag : Agree Q h h') (chk : Ref → Bool) {a : Addr} (qa : Q a)
    (qk : ∀ t, h.readType a = some t → ∀ c, c ∈ typeKids t → Q c ∧ ∀ f, h.readField c = some f → ∀ g, g ∈ f.args → Q g) :
    typeShape chk h' a = typeShape chk h a := by
  simp only [typeShape, readType_agree ag qa]
  cases ht : h.readType a with
  | none => rfl
  | some t =>
    simp only
    have hm : typeMembersOK chk h' t = typeMembersOK chk h t := by
      have k := qk t ht
      simp only [typeMembersOK]
      cases hk : t.kind <;> simp only [typeKids, hk] at k ⊢
      · exact all_eq_of (fun c hc => fieldShape_agree ag chk (k c hc).1 (k c hc).2)
      · exact all_eq_of (fun c hc => fieldShape_agree ag chk (k c hc).1 (k c hc).2)
      · exact all_eq_of (fun c hc => argShape_agree ag chk (k c hc).1)
    rw [hm]

theorem dirShape_agree {Q : Addr → Prop} {h h' : Heap} (ag : Agree Q h h') (chk : Ref → Bool) {a : Addr} (qa : Q a)
    (qk : ∀ d, h.readDir a = some d → ∀ c, c ∈ d.args → Q c) : dirShape chk h' a = dirShape chk h a := by
  simp only [dirShape, readDir_agree ag qa]
  cases hd : h.readDir a with
  | none => rfl
  | some d =>
    simp only
    exact all_eq_of (fun c hc => argShape_agree ag chk (qk d hd c hc))

theorem shapeB_agree {Q : Addr → Prop} {h h' : Heap} (ag : Agree Q h h') (chk : Ref → Bool) {s : Schema} (f : Foot Q h s) :
    shapeB chk h' s = shapeB chk h s := by
  simp only [shapeB]
  rw [all_eq_of (l := s.types) (fun e he => typeShape_agree ag chk (f.1 e he).1 (f.1 e he).2),
      all_eq_of (l := s.dirs) (fun e he => dirShape_agree ag chk (f.2 e he).1 (f.2 e he).2)]

theorem nameOK_agree {Q : Addr → Prop} {h h' : Heap} (ag : Agree Q h h') {e : String × Addr} (qa : Q e.2) : nameOK h' e = nameOK h e := by
  simp only [nameOK, readType_agree ag qa]

theorem protLeaf_agree {Q : Addr → Prop} {h h' : Heap} (ag : Agree Q h h') {e : String × Addr} (qa : Q e.2) : protLeaf h' e = protLeaf h e := by
  simp only [protLeaf, readType_agree ag qa]

/-- closedness is local -/
theorem closedB_agree {Q : Addr → Prop} {h h' : Heap} (ag : Agree Q h h') {s : Schema} (f : Foot Q h s) : closedB h' s = closedB h s := by
  simp only [closedB]
  rw [shapeB_agree ag _ f, all_eq_of (l := s.types) (fun e he => nameOK_agree ag (f.1 e he).1)]

/-- well-formedness is local -/
theorem wfB_agree {Q : Addr → Prop} {h h' : Heap} (ag : Agree Q h h') {s : Schema} (f : Foot Q h s) : wfB h' s = wfB h s := by
  simp only [wfB]
  rw [shapeB_agree ag _ f, all_eq_of (l := s.types) (fun e he => nameOK_agree ag (f.1 e he).1),
      all_eq_of (l := s.types) (fun e he => protLeaf_agree ag (f.1 e he).1)]

/-- a well-formed schema only mentions objects that exist -/
theorem foot_of_wfB {h : Heap} {s : Schema} (hw : wfB h s = true) : Foot (fun x => x < h.size) h s := by
  simp only [wfB, shapeB, Bool.and_eq_true, List.all_eq_true] at hw
  obtain ⟨⟨⟨⟨⟨⟨⟨ht, hd⟩, _⟩, _⟩, _⟩, _⟩, _⟩, _⟩ := hw
  have argLt : ∀ a, argShape (fun _ => true) h a = true → a < h.size := by
    intro a ha
    simp only [argShape] at ha
    split at ha
    · rename_i g hg; exact read_lt h a _ (readArg_read hg)
    · cases ha
  refine ⟨fun e he => ?_, fun e he => ?_⟩
  · have hs := ht e he
    simp only [typeShape] at hs
    split at hs
    · rename_i t hrt
      refine ⟨read_lt h e.2 _ (readType_read hrt), fun t' ht' c hc => ?_⟩
      rw [hrt] at ht'; cases ht'
      simp only [Bool.and_eq_true] at hs
      have hm := hs.2
      simp only [typeMembersOK] at hm
      cases hk : t.kind <;> simp only [typeKids, hk, List.all_eq_true] at hm hc
      · have hf := hm c hc
        simp only [fieldShape] at hf
        split at hf
        · rename_i fl hfl
          refine ⟨read_lt h c _ (readField_read hfl), fun f' hf' g hg => ?_⟩
          rw [hfl] at hf'; cases hf'
          simp only [Bool.and_eq_true, List.all_eq_true] at hf
          exact argLt g (hf.2 g hg)
        · cases hf
      · have hf := hm c hc
        simp only [fieldShape] at hf
        split at hf
        · rename_i fl hfl
          refine ⟨read_lt h c _ (readField_read hfl), fun f' hf' g hg => ?_⟩
          rw [hfl] at hf'; cases hf'
          simp only [Bool.and_eq_true, List.all_eq_true] at hf
          exact argLt g (hf.2 g hg)
        · cases hf
      · cases hc
      · cases hc
      · refine ⟨argLt c (hm c hc), fun f' hf' g hg => ?_⟩
        have ha := hm c hc
        simp only [argShape] at ha
        split at ha
        · rename_i g0 hg0
          have := readArg_read hg0
          have h2 := readField_read hf'
          rw [this] at h2; cases h2
        · cases ha
      · cases hc
    · cases hs
  · have hs := hd e he
    simp only [dirShape] at hs
    split at hs
    · rename_i d hrd
      refine ⟨read_lt h e.2 _ (readDir_read hrd), fun d' hd' c hc => ?_⟩
      rw [hrd] at hd'; cases hd'
      simp only [List.all_eq_true] at hs
      exact argLt c (hs c hc)
    · cases hs

end PyGql.Heap.Local

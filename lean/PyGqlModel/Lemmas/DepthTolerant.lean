/-
  C19 — the tolerant evaluation of `@skip/@include` (`_skip_unless_unknown`, C19-Q1vars2.patch) on a
  document = the strict evaluation on the document in which every directive that CANNOT be evaluated
  is dropped (`eraseL`). Simulation through `collect_fields_untyped` and `_nesting_levels`.
-/
import PyGqlModel.Lemmas.DepthAcyclic

set_option linter.unusedVariables false
set_option linter.unusedSimpArgs false

namespace PyGql.Depth.Lemmas
open PyGql.Depth PyGql.DepthSpec

/-- directives that cannot be evaluated with `vars` are dropped ("kept when unknown") -/
def eraseD (vars : Vars) (d : Dirs) : Dirs := if dirsBound vars d then d else {}

mutual
def eraseSel (vars : Vars) : Sel → Sel
  | .field a n d sub => .field a n (eraseD vars d) (eraseL vars sub)
  | .inline d ss => .inline (eraseD vars d) (eraseL vars ss)
  | .spread n d => .spread n (eraseD vars d)
def eraseL (vars : Vars) : List Sel → List Sel
  | [] => []
  | s :: ss => eraseSel vars s :: eraseL vars ss
end

def eraseFld (vars : Vars) (f : Fld) : Fld := ⟨f.alias, f.name, eraseL vars f.sub⟩
def eraseG (vars : Vars) (G : Grouped) : Grouped := G.map fun kv => (kv.1, kv.2.map (eraseFld vars))
def eraseFrag (vars : Vars) (f : Frag) : Frag := ⟨f.name, eraseL vars f.sels⟩
def eraseFrags (vars : Vars) (frags : List Frag) : List Frag := frags.map (eraseFrag vars)
def eraseOp (vars : Vars) (op : Op) : Op := ⟨op.name, eraseL vars op.sels⟩
def eraseDoc (vars : Vars) (doc : Doc) : Doc := ⟨doc.ops.map (eraseOp vars), eraseFrags vars doc.frags⟩

theorem eraseL_cons (vars : Vars) (s ss) : eraseL vars (s :: ss) = eraseSel vars s :: eraseL vars ss := by
  simp [eraseL]

theorem eraseL_append (vars : Vars) (a b : List Sel) : eraseL vars (a ++ b) = eraseL vars a ++ eraseL vars b := by
  induction a with
  | nil => simp [eraseL]
  | cons x xs ih => simp [eraseL_cons, ih]

theorem eraseL_eq_map (vars : Vars) (l : List Sel) : eraseL vars l = l.map (eraseSel vars) := by
  induction l with
  | nil => simp [eraseL]
  | cons x xs ih => simp [eraseL_cons, ih]

/-! ### `_skip_unless_unknown` = strict evaluation of the erased directives -/

theorem evalOpt_err {vars : Vars} {o : Option Cond} (h : optBound vars o = false) : ∃ e, evalOpt vars o = .error e := by
  cases o with
  | none => simp [optBound] at h
  | some c =>
    cases c with
    | lit b => simp [optBound, condBound] at h
    | var n =>
      simp only [optBound, condBound] at h
      cases hl : vars.lookup n with
      | none => exact ⟨.coercion, by simp [evalOpt, evalCond, hl]⟩
      | some b => simp [hl] at h

theorem skipSelection_err {vars : Vars} {d : Dirs} (h : dirsBound vars d = false) :
    ∃ e, skipSelection d vars = .error e := by
  simp only [dirsBound, Bool.and_eq_false_iff] at h
  by_cases h1 : optBound vars d.skip = true
  · have h2 : optBound vars d.incl = false := by
      rcases h with h | h
      · rw [h1] at h; cases h
      · exact h
    obtain ⟨e, he⟩ := evalOpt_err h2
    exact ⟨e, by simp [skipSelection, evalOpt_ok vars _ h1, he]⟩
  · have h1' : optBound vars d.skip = false := by simpa using h1
    obtain ⟨e, he⟩ := evalOpt_err h1'
    exact ⟨e, by simp [skipSelection, he]⟩

theorem dirsBound_erase (vars : Vars) (d : Dirs) : dirsBound vars (eraseD vars d) = true := by
  unfold eraseD
  split
  · assumption
  · simp [dirsBound, optBound]

theorem skipT_eq (vars : Vars) (d : Dirs) : skipSelectionT d vars = skipSelection (eraseD vars d) vars := by
  cases hb : dirsBound vars d with
  | true => simp [skipSelectionT, eraseD, hb, skipSelection_ok vars d hb]
  | false =>
    obtain ⟨e, he⟩ := skipSelection_err hb
    have h1 : skipSelectionT d vars = .ok false := by simp only [skipSelectionT, he]
    have h2 : eraseD vars d = {} := by simp [eraseD, hb]
    rw [h1, h2]
    simp [skipSelection, evalOpt]

/-- on a request whose directive variables are all available nothing is erased -/
theorem skipT_ok (vars : Vars) (d : Dirs) : skipSelectionT d vars = .ok (skipped vars (eraseD vars d)) := by
  rw [skipT_eq, skipSelection_ok vars _ (dirsBound_erase vars d)]

/-! ### grouped fields commute with erasure -/

theorem eraseG_extendKey (vars : Vars) (G : Grouped) (key : String) (fs : List Fld) :
    eraseG vars (extendKey G key fs) = extendKey (eraseG vars G) key (fs.map (eraseFld vars)) := by
  induction G with
  | nil => simp [extendKey, eraseG]
  | cons kv rest ih =>
    obtain ⟨k, xs⟩ := kv
    simp only [extendKey, eraseG, List.map_cons] at ih ⊢
    split
    · simp [List.map_append]
    · simp [ih]

theorem eraseG_merge (vars : Vars) (g into : Grouped) :
    eraseG vars (merge g into) = merge (eraseG vars g) (eraseG vars into) := by
  unfold merge
  induction g generalizing into with
  | nil => simp [eraseG]
  | cons kv rest ih =>
    simp only [List.foldl_cons]
    rw [ih, eraseG_extendKey]
    simp [eraseG]

theorem lookupFrag_erase (vars : Vars) (frags : List Frag) (n : String) :
    lookupFrag (eraseFrags vars frags) n = (lookupFrag frags n).map (eraseFrag vars) := by
  unfold lookupFrag eraseFrags
  rw [← List.map_reverse]
  induction frags.reverse with
  | nil => simp
  | cons f fs ih =>
    simp only [List.map_cons, List.find?_cons]
    have : (eraseFrag vars f).name = f.name := rfl
    rw [this]
    cases f.name == n <;> simp [ih]

/-! ### simulation -/

def eraseSt (vars : Vars) (r : Except Err CState) : Except Err CState :=
  match r with
  | .error e => .error e
  | .ok (g, s) => .ok (eraseG vars g, s)

theorem step_sim (vars : Vars) (frags : List Frag)
    (rec recE : List Sel → List String → Except Err CState)
    (hrec : ∀ ss sn, recE (eraseL vars ss) sn = eraseSt vars (rec ss sn))
    (G : Grouped) (S : List String) (s : Sel) :
    collectStep recE (eraseFrags vars frags) vars (eraseG vars G, S) (eraseSel vars s) =
      eraseSt vars (collectStepG skipSelectionT rec frags vars (G, S) s) := by
  cases s with
  | field a n d sub =>
    simp only [eraseSel, collectStep, collectStepG, skipT_ok, skipSelection_ok vars _ (dirsBound_erase vars d)]
    cases skipped vars (eraseD vars d) with
    | true => simp [eraseSt]
    | false => simp [eraseSt, eraseG_extendKey, eraseFld]
  | inline d ss =>
    simp only [eraseSel, collectStep, collectStepG, skipT_ok, skipSelection_ok vars _ (dirsBound_erase vars d)]
    cases skipped vars (eraseD vars d) with
    | true => simp [eraseSt]
    | false =>
      simp only [hrec]
      cases rec ss S with
      | error e => simp [eraseSt]
      | ok r => obtain ⟨g, s'⟩ := r; simp [eraseSt, eraseG_merge]
  | spread n d =>
    simp only [eraseSel, collectStep, collectStepG, skipT_ok, skipSelection_ok vars _ (dirsBound_erase vars d)]
    cases skipped vars (eraseD vars d) with
    | true => simp [eraseSt]
    | false =>
      simp only [Bool.false_eq_true, if_false]
      by_cases hc : S.contains n = true
      · simp only [hc, ↓reduceIte, eraseSt]
      · have hc' : S.contains n = false := by simpa using hc
        simp only [hc', Bool.false_eq_true, ↓reduceIte, lookupFrag_erase]
        cases lookupFrag frags n with
        | none => simp [eraseSt]
        | some fr =>
          simp only [Option.map_some]
          have : (eraseFrag vars fr).sels = eraseL vars fr.sels := rfl
          rw [this, hrec]
          cases rec fr.sels S with
          | error e => simp [eraseSt]
          | ok r => obtain ⟨g, s'⟩ := r; simp [eraseSt, eraseG_merge]

theorem loop_sim (vars : Vars) (frags : List Frag)
    (rec recE : List Sel → List String → Except Err CState)
    (hrec : ∀ ss sn, recE (eraseL vars ss) sn = eraseSt vars (rec ss sn)) :
    ∀ (sels : List Sel) (G : Grouped) (S : List String),
      loopM (collectStep recE (eraseFrags vars frags) vars) (eraseG vars G, S) (eraseL vars sels) =
        eraseSt vars (loopM (collectStepG skipSelectionT rec frags vars) (G, S) sels) := by
  intro sels
  induction sels with
  | nil => intro G S; simp [loopM, eraseL, eraseSt]
  | cons s ss ih =>
    intro G S
    simp only [eraseL_cons, loopM]
    rw [step_sim vars frags rec recE hrec G S s]
    cases collectStepG skipSelectionT rec frags vars (G, S) s with
    | error e => simp [eraseSt]
    | ok st => obtain ⟨G1, S1⟩ := st; simp only [eraseSt]; exact ih G1 S1

theorem collect_sim (vars : Vars) (frags : List Frag) :
    ∀ (k : Nat) (sels : List Sel) (seen : List String),
      collectFieldsUntyped k (eraseL vars sels) (eraseFrags vars frags) vars seen =
        eraseSt vars (collectFieldsUntypedG skipSelectionT k sels frags vars seen) := by
  intro k
  induction k with
  | zero => intro sels seen; simp [collectFieldsUntyped, collectFieldsUntypedG, eraseSt]
  | succ k ih =>
    intro sels seen
    have h1 : collectFieldsUntyped (k + 1) (eraseL vars sels) (eraseFrags vars frags) vars seen =
        loopM (collectStep (fun ss sn => collectFieldsUntyped k ss (eraseFrags vars frags) vars sn)
          (eraseFrags vars frags) vars) ([], seen) (eraseL vars sels) := rfl
    have h2 : collectFieldsUntypedG skipSelectionT (k + 1) sels frags vars seen =
        loopM (collectStepG skipSelectionT (fun ss sn => collectFieldsUntypedG skipSelectionT k ss frags vars sn)
          frags vars) ([], seen) sels := rfl
    rw [h1, h2]
    have := loop_sim vars frags (fun ss sn => collectFieldsUntypedG skipSelectionT k ss frags vars sn)
      (fun ss sn => collectFieldsUntyped k ss (eraseFrags vars frags) vars sn) (fun ss sn => ih ss sn) sels [] seen
    simpa [eraseG] using this

theorem flatMap_sub_erase (vars : Vars) (fs : List Fld) :
    (fs.map (eraseFld vars)).flatMap (·.sub) = eraseL vars (fs.flatMap (·.sub)) := by
  induction fs with
  | nil => simp [eraseL]
  | cons f rest ih => simp [eraseFld, eraseL_append, ih]

theorem levelsLoop_sim (vars : Vars) (rec recE : List Sel → Except Err Nat)
    (hrec : ∀ ss, recE (eraseL vars ss) = rec ss) :
    ∀ (G : Grouped) (lv : Nat), levelsLoop recE lv (eraseG vars G) = levelsLoop rec lv G := by
  intro G
  induction G with
  | nil => intro lv; simp [levelsLoop, eraseG]
  | cons kv rest ih =>
    intro lv
    obtain ⟨k, fs⟩ := kv
    simp only [eraseG, List.map_cons, levelsLoop, flatMap_sub_erase, hrec] at ih ⊢
    cases rec (fs.flatMap (·.sub)) with
    | error e => rfl
    | ok n => exact ih _

/-- **simulation**: `_nesting_levels` with the tolerant hook = strict `_nesting_levels` on the erased document -/
theorem nestingLevels_sim (vars : Vars) (frags : List Frag) :
    ∀ (k : Nat) (sels : List Sel),
      nestingLevels k (eraseL vars sels) (eraseFrags vars frags) vars =
        nestingLevelsG skipSelectionT k sels frags vars := by
  intro k
  induction k with
  | zero => intro sels; rfl
  | succ k ih =>
    intro sels
    have h1 : nestingLevels (k + 1) (eraseL vars sels) (eraseFrags vars frags) vars =
        (match collectFieldsUntyped (k + 1) (eraseL vars sels) (eraseFrags vars frags) vars [] with
         | .error e => .error e
         | .ok (collected, _) =>
           levelsLoop (fun ss => nestingLevels k ss (eraseFrags vars frags) vars) 0 collected) := rfl
    have h2 : nestingLevelsG skipSelectionT (k + 1) sels frags vars =
        (match collectFieldsUntypedG skipSelectionT (k + 1) sels frags vars [] with
         | .error e => .error e
         | .ok (collected, _) => levelsLoop (fun ss => nestingLevelsG skipSelectionT k ss frags vars) 0 collected) := rfl
    rw [h1, h2, collect_sim vars frags (k + 1) sels []]
    cases collectFieldsUntypedG skipSelectionT (k + 1) sels frags vars [] with
    | error e => rfl
    | ok r =>
      obtain ⟨G, S'⟩ := r
      simp only [eraseSt]
      exact levelsLoop_sim vars _ _ (fun ss => ih ss) G 0

/-! ### the erased document: same potential / fuel / acyclicity, every directive variable available -/

mutual
theorem pot_erase (vars : Vars) (w : String → Nat) : ∀ s : Sel, pot w (eraseSel vars s) = pot w s
  | .field a n d sub => by simp only [eraseSel]; rw [pot_field, pot_field, potL_erase vars w sub]
  | .inline d ss => by simp only [eraseSel]; rw [pot_inline, pot_inline, potL_erase vars w ss]
  | .spread n d => by simp only [eraseSel]; rw [pot_spread, pot_spread]
theorem potL_erase (vars : Vars) (w : String → Nat) : ∀ l : List Sel, potL w (eraseL vars l) = potL w l
  | [] => by simp [eraseL]
  | s :: ss => by rw [eraseL_cons, potL_cons, potL_cons, pot_erase vars w s, potL_erase vars w ss]
end

mutual
theorem boundSel_erase (vars : Vars) : ∀ s : Sel, boundSel vars (eraseSel vars s) = true
  | .field a n d sub => by simp [eraseSel, boundSel, dirsBound_erase, boundL_erase vars sub]
  | .inline d ss => by simp [eraseSel, boundSel, dirsBound_erase, boundL_erase vars ss]
  | .spread n d => by simp [eraseSel, boundSel, dirsBound_erase]
theorem boundL_erase (vars : Vars) : ∀ l : List Sel, boundL vars (eraseL vars l) = true
  | [] => by simp [eraseL, boundL]
  | s :: ss => by rw [eraseL_cons, boundL_cons, boundSel_erase vars s, boundL_erase vars ss]; rfl
end

mutual
theorem eraseSel_id (vars : Vars) : ∀ s : Sel, boundSel vars s = true → eraseSel vars s = s
  | .field a n d sub, h => by
    simp only [boundSel, Bool.and_eq_true] at h
    simp [eraseSel, eraseD, h.1, eraseL_id vars sub h.2]
  | .inline d ss, h => by
    simp only [boundSel, Bool.and_eq_true] at h
    simp [eraseSel, eraseD, h.1, eraseL_id vars ss h.2]
  | .spread n d, h => by
    simp only [boundSel] at h
    simp [eraseSel, eraseD, h]
theorem eraseL_id (vars : Vars) : ∀ l : List Sel, boundL vars l = true → eraseL vars l = l
  | [], _ => by simp [eraseL]
  | s :: ss, h => by
    simp only [boundL_cons, Bool.and_eq_true] at h
    rw [eraseL_cons, eraseSel_id vars s h.1, eraseL_id vars ss h.2]
end

theorem weightStep_erase (vars : Vars) (frags : List Frag) (tbl : List (String × Nat)) :
    weightStep (eraseFrags vars frags) tbl = weightStep frags tbl := by
  simp [weightStep, eraseFrags, eraseFrag, potL_erase, List.map_map, Function.comp_def]

theorem weights_erase (vars : Vars) (frags : List Frag) : weights (eraseFrags vars frags) = weights frags := by
  unfold weights
  have hlen : (eraseFrags vars frags).length = frags.length := by simp [eraseFrags]
  rw [hlen]
  have : weightStep (eraseFrags vars frags) = weightStep frags := funext (weightStep_erase vars frags)
  rw [this]

theorem acyclic_erase (vars : Vars) (frags : List Frag) : acyclic (eraseFrags vars frags) = acyclic frags := by
  unfold acyclic
  rw [weights_erase]
  simp [eraseFrags, eraseFrag, List.all_map, potL_erase, Function.comp_def]

theorem fuel_erase (vars : Vars) (doc : Doc) : (eraseDoc vars doc).fuel = doc.fuel := by
  unfold Doc.fuel eraseDoc
  simp only [weights_erase]
  simp [eraseOp, potL_erase, List.map_map, Function.comp_def]

/-! ### `_selected_paths` with the lenient hook = strict `_selected_paths` on the erased document -/

theorem pathsLoop_sim (vars : Vars) (md : Nat) (pat : List String → Bool) (path : List String)
    (rec recE : List Sel → List String → Except Err (List (List String)))
    (hrec : ∀ ss p, recE (eraseL vars ss) p = rec ss p) :
    ∀ (G : Grouped) (acc : List (List String)),
      pathsLoop recE md pat path acc (eraseG vars G) = pathsLoop rec md pat path acc G := by
  intro G
  induction G with
  | nil => intro acc; simp [pathsLoop, eraseG]
  | cons kv rest ih =>
    intro acc
    obtain ⟨k, fs⟩ := kv
    cases fs with
    | nil => simp [pathsLoop, eraseG]
    | cons child more =>
      have h1 : pathsLoop recE md pat path acc (eraseG vars ((k, child :: more) :: rest)) =
          (if descend md path.length = true then
            match recE (eraseL vars ((child :: more).flatMap (·.sub))) (path ++ [child.name]) with
            | .error e => .error e
            | .ok sub => pathsLoop recE md pat path
                ((if pat (path ++ [child.name]) = true then acc ++ [path ++ [child.name]] else acc) ++ sub) (eraseG vars rest)
          else pathsLoop recE md pat path
                (if pat (path ++ [child.name]) = true then acc ++ [path ++ [child.name]] else acc) (eraseG vars rest)) := by
        rw [← flatMap_sub_erase]
        rfl
      have h2 : pathsLoop rec md pat path acc ((k, child :: more) :: rest) =
          (if descend md path.length = true then
            match rec ((child :: more).flatMap (·.sub)) (path ++ [child.name]) with
            | .error e => .error e
            | .ok sub => pathsLoop rec md pat path
                ((if pat (path ++ [child.name]) = true then acc ++ [path ++ [child.name]] else acc) ++ sub) rest
          else pathsLoop rec md pat path
                (if pat (path ++ [child.name]) = true then acc ++ [path ++ [child.name]] else acc) rest) := rfl
      rw [h1, h2, hrec]
      split
      · cases rec ((child :: more).flatMap (·.sub)) (path ++ [child.name]) with
        | error e => rfl
        | ok sub => exact ih _
      · exact ih _

theorem selectedPaths_sim (vars : Vars) (frags : List Frag) (md : Nat) (pat : List String → Bool) :
    ∀ (k : Nat) (sels : List Sel) (path : List String),
      selectedPaths k (eraseL vars sels) (eraseFrags vars frags) vars md pat path =
        selectedPathsG skipSelectionT k sels frags vars md pat path := by
  intro k
  induction k with
  | zero => intro sels path; rfl
  | succ k ih =>
    intro sels path
    have h1 : selectedPaths (k + 1) (eraseL vars sels) (eraseFrags vars frags) vars md pat path =
        (match collectFieldsUntyped (k + 1) (eraseL vars sels) (eraseFrags vars frags) vars [] with
         | .error e => .error e
         | .ok (collected, _) =>
           pathsLoop (fun s p => selectedPaths k s (eraseFrags vars frags) vars md pat p) md pat path [] collected) := rfl
    have h2 : selectedPathsG skipSelectionT (k + 1) sels frags vars md pat path =
        (match collectFieldsUntypedG skipSelectionT (k + 1) sels frags vars [] with
         | .error e => .error e
         | .ok (collected, _) =>
           pathsLoop (fun s p => selectedPathsG skipSelectionT k s frags vars md pat p) md pat path [] collected) := rfl
    rw [h1, h2, collect_sim vars frags (k + 1) sels []]
    cases collectFieldsUntypedG skipSelectionT (k + 1) sels frags vars [] with
    | error e => rfl
    | ok r =>
      obtain ⟨G, S'⟩ := r
      simp only [eraseSt]
      exact pathsLoop_sim vars md pat path _ _ (fun ss p => ih ss p) G []

theorem eraseL_nil_iff (vars : Vars) (l : List Sel) : eraseL vars l = [] ↔ l = [] := by
  cases l <;> simp [eraseL]

theorem selectedFields_sim (vars : Vars) (frags : List Frag) (md : Nat) (pat : List String → Bool)
    (k : Nat) (sub : List Sel) (path : List String) :
    selectedFields k (eraseL vars sub) (eraseFrags vars frags) vars md pat path =
      selectedFieldsG skipSelectionT k sub frags vars md pat path := by
  cases sub with
  | nil => simp [selectedFields, selectedFieldsG, eraseL]
  | cons s ss =>
    simp only [selectedFields, selectedFieldsG, eraseL_cons]
    exact selectedPaths_sim vars frags md pat k (s :: ss) path

end PyGql.Depth.Lemmas

/-
  `Validate/ChainPar.lean` says of itself: "`visitDocumentPar enterRule = visitDocument` by construction (not proved)".
  Proved here, visit function by visit function: the parametrised chain instantiated with the rules' own enter function
  IS the chain of the theorems. Consequently `runM`-with-`enterRule` is `run`.
-/
import PyGqlModel.Validate.ChainPar
namespace PyGql.Validate
open PyGql

theorem enterRulesPar_eq (c : Cfg) (n : Node) (ti : TI) : ∀ (rs : List Rule) (st : RS),
    enterRulesPar enterRule c n ti rs st = enterRules c n ti rs st
  | [], st => by rw [enterRulesPar, enterRules]
  | r :: rest, st => by
    rw [enterRulesPar, enterRules]
    simp only [enterRulesPar_eq c n ti rest]

theorem raisedRulesPar_eq (c : Cfg) (n : Node) (ti : TI) : ∀ (rs : List Rule) (st : RS),
    raisedRulesPar enterRule c n ti rs st = raisedRules c n ti rs st
  | [], st => by rw [raisedRulesPar, raisedRules]
  | r :: rest, st => by
    rw [raisedRulesPar, raisedRules]
    simp only [raisedRulesPar_eq c n ti rest]

theorem enterPar_eq (c : Cfg) (n : Node) (st : St) : enterPar enterRule c n st = enter c n st := by
  simp only [enterPar, enter, enterRulesPar_eq]

theorem leavePar_eq (c : Cfg) (n : Node) (st : St) : leavePar enterRule c n st = leave c n st := rfl

theorem leaveSkippedPar_eq (c : Cfg) (n : Node) (st0 st1 : St) :
    leaveSkippedPar enterRule c n st0 st1 = leaveSkipped c n st0 st1 := by
  simp only [leaveSkippedPar, leaveSkipped, raisedRulesPar_eq]

theorem visitNodePar_eq (c : Cfg) (n : Node) (b1 b2 : St → St) (hb : ∀ st, b1 st = b2 st) (st : St) :
    visitNodePar enterRule c n b1 st = visitNode c n b2 st := by
  simp only [visitNodePar, visitNode, enterPar_eq, leavePar_eq, leaveSkippedPar_eq, hb]

mutual
theorem visitValuePar_eq (c : Cfg) : ∀ (v : Value) (st : St), visitValuePar enterRule c v st = visitValue c v st
  | .list vs, st => by
    rw [visitValuePar, visitValue]
    exact visitNodePar_eq c _ _ _ (fun st => visitValuesPar_eq c vs st) st
  | .obj fs, st => by
    rw [visitValuePar, visitValue]
    exact visitNodePar_eq c _ _ _ (fun st => visitObjFieldsPar_eq c fs st) st
  | .var x, st => by rw [visitValuePar, visitValue]; exact visitNodePar_eq c _ _ _ (fun _ => rfl) st
  | .int x, st => by rw [visitValuePar, visitValue]; exact visitNodePar_eq c _ _ _ (fun _ => rfl) st
  | .float x, st => by rw [visitValuePar, visitValue]; exact visitNodePar_eq c _ _ _ (fun _ => rfl) st
  | .str x, st => by rw [visitValuePar, visitValue]; exact visitNodePar_eq c _ _ _ (fun _ => rfl) st
  | .bool x, st => by rw [visitValuePar, visitValue]; exact visitNodePar_eq c _ _ _ (fun _ => rfl) st
  | .null, st => by rw [visitValuePar, visitValue]; exact visitNodePar_eq c _ _ _ (fun _ => rfl) st
  | .enum x, st => by rw [visitValuePar, visitValue]; exact visitNodePar_eq c _ _ _ (fun _ => rfl) st
theorem visitValuesPar_eq (c : Cfg) : ∀ (vs : List Value) (st : St), visitValuesPar enterRule c vs st = visitValues c vs st
  | [], st => by rw [visitValuesPar, visitValues]
  | v :: vs, st => by rw [visitValuesPar, visitValues, visitValuePar_eq c v st, visitValuesPar_eq c vs]
theorem visitObjFieldPar_eq (c : Cfg) : ∀ (x : ObjField) (st : St), visitObjFieldPar enterRule c x st = visitObjField c x st
  | .mk n v, st => by
    rw [visitObjFieldPar, visitObjField]
    exact visitNodePar_eq c _ _ _ (fun st => visitValuePar_eq c v st) st
theorem visitObjFieldsPar_eq (c : Cfg) : ∀ (fs : List ObjField) (st : St),
    visitObjFieldsPar enterRule c fs st = visitObjFields c fs st
  | [], st => by rw [visitObjFieldsPar, visitObjFields]
  | x :: fs, st => by rw [visitObjFieldsPar, visitObjFields, visitObjFieldPar_eq c x st, visitObjFieldsPar_eq c fs]
end

theorem foldl_congr' {α β} (f g : β → α → β) (h : ∀ b a, f b a = g b a) (l : List α) (b : β) : l.foldl f b = l.foldl g b := by
  have : f = g := funext fun b => funext fun a => h b a
  rw [this]

theorem visitArgumentPar_eq (c : Cfg) (a : Arg) (st : St) : visitArgumentPar enterRule c a st = visitArgument c a st := by
  rw [visitArgumentPar, visitArgument]
  exact visitNodePar_eq c _ _ _ (fun st => visitValuePar_eq c a.value st) st

theorem visitArgumentsPar_eq (c : Cfg) (as : List Arg) (st : St) : visitArgumentsPar enterRule c as st = visitArguments c as st := by
  rw [visitArgumentsPar, visitArguments]
  exact foldl_congr' _ _ (fun st a => visitArgumentPar_eq c a st) as st

theorem visitDirectivePar_eq (c : Cfg) (d : Dir) (st : St) : visitDirectivePar enterRule c d st = visitDirective c d st := by
  rw [visitDirectivePar, visitDirective]
  exact visitNodePar_eq c _ _ _ (fun st => visitArgumentsPar_eq c d.args st) st

theorem visitDirectivesPar_eq (c : Cfg) (ds : List Dir) (st : St) :
    visitDirectivesPar enterRule c ds st = visitDirectives c ds st := by
  rw [visitDirectivesPar, visitDirectives]
  exact foldl_congr' _ _ (fun st d => visitDirectivePar_eq c d st) ds st

mutual
theorem visitSelPar_eq (c : Cfg) : ∀ (x : Sel) (st : St), visitSelPar enterRule c x st = visitSel c x st
  | .field al name args dirs hasSub ssid sub, st => by
    rw [visitSelPar, visitSel]
    refine visitNodePar_eq c _ _ _ (fun st => ?_) st
    simp only [visitArgumentsPar_eq, visitDirectivesPar_eq]
    split
    · exact visitNodePar_eq c _ _ _ (fun st => visitSelsPar_eq c sub st) _
    · rfl
  | .spread name dirs, st => by
    rw [visitSelPar, visitSel]
    exact visitNodePar_eq c _ _ _ (fun st => visitDirectivesPar_eq c dirs st) st
  | .inline on dirs ssid sub, st => by
    rw [visitSelPar, visitSel]
    refine visitNodePar_eq c _ _ _ (fun st => ?_) st
    simp only [visitDirectivesPar_eq]
    exact visitNodePar_eq c _ _ _ (fun st => visitSelsPar_eq c sub st) _
theorem visitSelsPar_eq (c : Cfg) : ∀ (xs : List Sel) (st : St), visitSelsPar enterRule c xs st = visitSels c xs st
  | [], st => by rw [visitSelsPar, visitSels]
  | x :: xs, st => by rw [visitSelsPar, visitSels, visitSelPar_eq c x st, visitSelsPar_eq c xs]
end

theorem visitVarDefPar_eq (c : Cfg) (v : VarDef) (st : St) : visitVarDefPar enterRule c v st = visitVarDef c v st := by
  rw [visitVarDefPar, visitVarDef]
  refine visitNodePar_eq c _ _ _ (fun st => ?_) st
  cases v.default with
  | none =>
    simp only [visitDirectivesPar_eq]
    exact congrArg _ (visitNodePar_eq c _ _ _ (fun _ => rfl) _)
  | some dv =>
    simp only [visitValuePar_eq, visitDirectivesPar_eq]
    exact congrArg _ (visitNodePar_eq c _ _ _ (fun _ => rfl) _)

theorem visitDefPar_eq (c : Cfg) (d : Def) (st : St) : visitDefPar enterRule c d st = visitDef c d st := by
  cases d with
  | op kind name vars dirs ssid sels =>
    rw [visitDefPar, visitDef]
    refine visitNodePar_eq c _ _ _ (fun st => ?_) st
    simp only [visitDirectivesPar_eq, foldl_congr' _ _ (fun st v => visitVarDefPar_eq c v st)]
    exact visitNodePar_eq c _ _ _ (fun st => visitSelsPar_eq c sels st) _
  | frag name on dirs ssid sels =>
    rw [visitDefPar, visitDef]
    refine visitNodePar_eq c _ _ _ (fun st => ?_) st
    simp only [visitDirectivesPar_eq]
    exact visitNodePar_eq c _ _ _ (fun st => visitSelsPar_eq c sels st) _
  | ts a b =>
    rw [visitDefPar, visitDef]
    exact visitNodePar_eq c _ _ _ (fun _ => rfl) st

/-- **the parametrised chain with the rules' own enter function is the chain of the theorems** -/
theorem visitDocumentPar_eq (c : Cfg) (d : Doc) (st : St) : visitDocumentPar enterRule c d st = visitDocument c d st := by
  rw [visitDocumentPar, visitDocument]
  exact visitNodePar_eq c _ _ _ (fun st => foldl_congr' _ _ (fun st x => visitDefPar_eq c x st) d.defs st) st

end PyGql.Validate

/-
  THE MEMOISED SEARCH NEVER LOSES A REPORT, part 2: the shape of the postconditions (`GPM` = `GP` of
  `ValidateOverlapPost.lean` over the keys of BOTH memos, closure `OblM`), its combinators, the loops, and the `cmp`
  frames of the five memoised search functions.
-/
import PyGqlModel.Lemmas.ValidateOverlapMCert
import PyGqlModel.Lemmas.ValidateOverlapMemoSound
namespace PyGql.Validate
open PyGql PyGql.Validate.Spec

/-- `M` contains both memos of the context -/
def SupM (c : OCtx) (M : MemoM) : Prop := ∀ k ∈ keysM c, M k

structure GPM (s : SchemaD) (d : Doc) (c : OCtx) (r : Nat × OCtx) (Res : MemoM → Prop) : Prop where
  crash : c.crash = none
  mono : ∀ k ∈ keysM c, k ∈ keysM r.2
  res : r.1 = 0 → ∀ M, SupM r.2 M → (∀ k ∈ keysM r.2, k ∈ keysM c ∨ OblM s d M k) ∧ Res M

variable {s : SchemaD} {d : Doc}

/-- a step that counts nothing and leaves memo and crash flag alone -/
theorem GPM.skip {c c' : OCtx} {Res : MemoM → Prop} (hp : keysM c' = keysM c) (hcr : c'.crash = c.crash)
    (hres : ∀ M, SupM c M → Res M) (h : c'.crash = none) : GPM s d c (0, c') Res :=
  ⟨by rw [← hcr]; exact h, fun k hk => by simp only; rw [hp]; exact hk,
   fun _ M hM => ⟨fun k hk => Or.inl (by simp only at hk; rw [hp] at hk; exact hk),
    hres M (fun k hk => hM k (by simp only; rw [hp]; exact hk))⟩⟩

/-- a step that reported something: nothing is claimed -/
theorem GPM.pos {c c' : OCtx} {Res : MemoM → Prop} {k : Nat} (hk : k ≠ 0) (hp : ∀ x ∈ keysM c, x ∈ keysM c')
    (hcr : c.crash = none) : GPM s d c (k, c') Res :=
  ⟨hcr, hp, fun h0 => absurd h0 hk⟩

/-- change the count to one that vanishes only if the original does -/
theorem GPM.count {c : OCtx} {r : Nat × OCtx} {R : MemoM → Prop} (h : GPM s d c r R) (k : Nat) (hk : k = 0 → r.1 = 0) :
    GPM s d c (k, r.2) R :=
  ⟨h.crash, h.mono, fun h0 => h.res (hk h0)⟩

/-- weaken the payload -/
theorem GPM.imp {c : OCtx} {r : Nat × OCtx} {R1 R2 : MemoM → Prop} (h : GPM s d c r R1) (hi : ∀ M, SupM r.2 M → R1 M → R2 M) :
    GPM s d c r R2 :=
  ⟨h.crash, h.mono, fun h0 M hM => ⟨(h.res h0 M hM).1, hi M hM (h.res h0 M hM).2⟩⟩

/-- sequencing: the second call starts where the first ended -/
theorem GPM.seq {c : OCtx} {r1 r2 : Nat × OCtx} {R1 R2 : MemoM → Prop} (h1 : GPM s d c r1 R1) (h2 : GPM s d r1.2 r2 R2) :
    GPM s d c (r1.1 + r2.1, r2.2) (fun M => R1 M ∧ R2 M) := by
  refine ⟨h1.crash, fun k hk => h2.mono k (h1.mono k hk), fun h0 M hM => ?_⟩
  simp only at h0 hM
  have hM1 : SupM r1.2 M := fun k hk => hM k (h2.mono k hk)
  obtain ⟨a1, a2⟩ := h1.res (by omega) M hM1
  obtain ⟨b1, b2⟩ := h2.res (by omega) M hM
  refine ⟨fun k hk => ?_, a2, b2⟩
  rcases b1 k hk with h | h
  · exact a1 k h
  · exact Or.inr h

/-- a context transformation in front (e.g. marking a name in `cmp`, inserting a key whose closure is supplied) -/
theorem GPM.pre {c c0 : OCtx} {r : Nat × OCtx} {R : MemoM → Prop} (h : GPM s d c0 r R) (hcr : c0.crash = c.crash)
    (hp : ∀ k ∈ keysM c, k ∈ keysM c0)
    (hnew : r.1 = 0 → ∀ M, SupM r.2 M → R M → ∀ k ∈ keysM c0, k ∈ keysM c ∨ OblM s d M k) : GPM s d c r R := by
  refine ⟨by rw [← hcr]; exact h.crash, fun k hk => h.mono k (hp k hk), fun h0 M hM => ?_⟩
  obtain ⟨a1, a2⟩ := h.res h0 M hM
  refine ⟨fun k hk => ?_, a2⟩
  rcases a1 k hk with h' | h'
  · exact hnew h0 M hM a2 k h'
  · exact Or.inr h'

/-- a context transformation behind that keeps memo and crash flag (e.g. restoring `cmp`) -/
theorem GPM.post {c : OCtx} {r : Nat × OCtx} {c' : OCtx} {R : MemoM → Prop} (h : GPM s d c r R) (hp : keysM c' = keysM r.2) :
    GPM s d c (r.1, c') R :=
  ⟨h.crash, fun k hk => by simp only; rw [hp]; exact h.mono k hk,
   fun h0 M hM => by
    have hM' : SupM r.2 M := fun k hk => hM k (by simp only; rw [hp]; exact hk)
    obtain ⟨a1, a2⟩ := h.res h0 M hM'
    exact ⟨fun k hk => a1 k (by simp only at hk; rw [hp] at hk; exact hk), a2⟩⟩

/-- **`sumLoop`**: every item satisfies its postcondition ⇒ the loop satisfies the conjunction -/
theorem sumLoop_gpM {α} (xs : List α) (f : α → OCtx → Nat × OCtx) (P : OCtx → Prop) (Q : α → MemoM → Prop)
    (hf : ∀ x ∈ xs, ∀ c, P c → P (f x c).2 ∧ ((f x c).2.crash = none → GPM s d c (f x c) (Q x)))
    (c : OCtx) (hc : P c) (hn : (sumLoop xs f c).2.crash = none) :
    GPM s d c (sumLoop xs f c) (fun M => ∀ x ∈ xs, Q x M) := by
  unfold sumLoop at hn ⊢
  have key : ∀ (ys : List α) (acc : Nat × OCtx), (∀ x ∈ ys, x ∈ xs) → P acc.2 →
      (ys.foldl (fun (acc : Nat × OCtx) x =>
        if acc.2.crash.isSome then acc else ((acc.1 + (f x acc.2).1, (f x acc.2).2) : Nat × OCtx)) acc).2.crash = none →
      acc.2.crash = none ∧
      (∀ k ∈ keysM acc.2, k ∈ keysM (ys.foldl (fun (acc : Nat × OCtx) x =>
        if acc.2.crash.isSome then acc else ((acc.1 + (f x acc.2).1, (f x acc.2).2) : Nat × OCtx)) acc).2) ∧
      ((ys.foldl (fun (acc : Nat × OCtx) x =>
        if acc.2.crash.isSome then acc else ((acc.1 + (f x acc.2).1, (f x acc.2).2) : Nat × OCtx)) acc).1 = 0 →
        acc.1 = 0 ∧ ∀ M, SupM (ys.foldl (fun (acc : Nat × OCtx) x =>
          if acc.2.crash.isSome then acc else ((acc.1 + (f x acc.2).1, (f x acc.2).2) : Nat × OCtx)) acc).2 M →
          (∀ k ∈ keysM (ys.foldl (fun (acc : Nat × OCtx) x =>
            if acc.2.crash.isSome then acc else ((acc.1 + (f x acc.2).1, (f x acc.2).2) : Nat × OCtx)) acc).2,
            k ∈ keysM acc.2 ∨ OblM s d M k) ∧ ∀ x ∈ ys, Q x M) := by
    intro ys
    induction ys with
    | nil =>
      intro acc _ _ h
      exact ⟨h, fun k hk => hk, fun h0 => ⟨h0, fun M _ => ⟨fun k hk => Or.inl hk, fun _ hx => nomatch hx⟩⟩⟩
    | cons y ys ih =>
      intro acc hsub hp h
      rw [List.foldl_cons] at h ⊢
      have hy : y ∈ xs := hsub y (List.mem_cons_self ..)
      have hys : ∀ x ∈ ys, x ∈ xs := fun x hx => hsub x (List.mem_cons_of_mem _ hx)
      by_cases hcr : acc.2.crash.isSome = true
      · rw [if_pos hcr] at h ⊢
        obtain ⟨a, _⟩ := ih acc hys hp h
        rw [a] at hcr; cases hcr
      · rw [if_neg hcr] at h ⊢
        obtain ⟨p1, q1⟩ := hf y hy acc.2 hp
        obtain ⟨a, b, c'⟩ := ih (acc.1 + (f y acc.2).1, (f y acc.2).2) hys p1 h
        have g := q1 a
        refine ⟨g.crash, fun k hk => b k (g.mono k hk), fun h0 => ?_⟩
        obtain ⟨c1, c2⟩ := c' h0
        simp only at c1
        refine ⟨by omega, fun M hM => ?_⟩
        obtain ⟨d1, d2⟩ := c2 M hM
        have hMy : SupM (f y acc.2).2 M := fun k hk => hM k (b k hk)
        obtain ⟨e1, e2⟩ := g.res (by omega) M hMy
        refine ⟨fun k hk => ?_, fun x hx => ?_⟩
        · rcases d1 k hk with h' | h'
          · exact e1 k h'
          · exact Or.inr h'
        · rcases List.mem_cons.mp hx with rfl | hx
          · exact e2
          · exact d2 x hx
  obtain ⟨a, b, c'⟩ := key xs (0, c) (fun _ h => h) hc hn
  exact ⟨a, b, fun h0 M hM => (c' h0).2 M hM⟩


/-! ### `_fields_and_fragments` touches neither memo -/

theorem ff_keysM (s : SchemaD) (p : Option String) (i : Nat) (sels : List Sel) (c : OCtx) :
    keysM (fieldsAndFragments s p i sels c).2 = keysM c := by
  unfold fieldsAndFragments
  cases c.cache.find? (·.1 == i) <;> rfl

theorem ff_ffp (s : SchemaD) (p : Option String) (i : Nat) (sels : List Sel) (c : OCtx) :
    (fieldsAndFragments s p i sels c).2.ffp = c.ffp := by
  unfold fieldsAndFragments
  cases c.cache.find? (·.1 == i) <;> rfl

/-- a loop over fragment names each of which is recorded in `cmp` -/
theorem sumLoop_namesM (xs : List String) (f : String → OCtx → Nat × OCtx) (P : OCtx → Prop)
    (NO : MemoM → List String → String → Prop)
    (hf : ∀ x ∈ xs, ∀ c, P c → P (f x c).2 ∧ (∀ n ∈ c.cmp, n ∈ (f x c).2.cmp) ∧
      ((f x c).2.crash = none → x ∈ (f x c).2.cmp ∧
        GPM s d c (f x c) (fun M => ∀ CF, (∀ n ∈ (f x c).2.cmp, n ∈ CF) → ∀ n ∈ (f x c).2.cmp, n ∈ c.cmp ∨ NO M CF n)))
    (c : OCtx) (hc : P c) (hn : (sumLoop xs f c).2.crash = none) :
    (∀ x ∈ xs, x ∈ (sumLoop xs f c).2.cmp) ∧ (∀ n ∈ c.cmp, n ∈ (sumLoop xs f c).2.cmp) ∧
    GPM s d c (sumLoop xs f c) (fun M => ∀ CF, (∀ n ∈ (sumLoop xs f c).2.cmp, n ∈ CF) →
      ∀ n ∈ (sumLoop xs f c).2.cmp, n ∈ c.cmp ∨ NO M CF n) := by
  unfold sumLoop at hn ⊢
  generalize hF : (fun (acc : Nat × OCtx) x =>
    if acc.2.crash.isSome then acc else ((acc.1 + (f x acc.2).1, (f x acc.2).2) : Nat × OCtx)) = F at hn ⊢
  have key : ∀ (ys : List String) (acc : Nat × OCtx), (∀ x ∈ ys, x ∈ xs) → P acc.2 →
      (ys.foldl F acc).2.crash = none →
      acc.2.crash = none ∧ (∀ k ∈ keysM acc.2, k ∈ keysM (ys.foldl F acc).2) ∧
      (∀ n ∈ acc.2.cmp, n ∈ (ys.foldl F acc).2.cmp) ∧ (∀ x ∈ ys, x ∈ (ys.foldl F acc).2.cmp) ∧
      ((ys.foldl F acc).1 = 0 → acc.1 = 0 ∧ ∀ M, SupM (ys.foldl F acc).2 M →
        (∀ k ∈ keysM (ys.foldl F acc).2, k ∈ keysM acc.2 ∨ OblM s d M k) ∧
        ∀ CF, (∀ n ∈ (ys.foldl F acc).2.cmp, n ∈ CF) → ∀ n ∈ (ys.foldl F acc).2.cmp, n ∈ acc.2.cmp ∨ NO M CF n) := by
    intro ys
    induction ys with
    | nil =>
      intro acc _ _ h
      exact ⟨h, fun k hk => hk, fun n hn => hn, (fun _ hx => nomatch hx),
        fun h0 => ⟨h0, fun M _ => ⟨fun k hk => Or.inl hk, fun CF _ n hn => Or.inl hn⟩⟩⟩
    | cons y ys ih =>
      intro acc hsub hp h
      rw [List.foldl_cons] at h ⊢
      have hy : y ∈ xs := hsub y (List.mem_cons_self ..)
      have hys : ∀ x ∈ ys, x ∈ xs := fun x hx => hsub x (List.mem_cons_of_mem _ hx)
      have hstep : F acc y = if acc.2.crash.isSome then acc else (acc.1 + (f y acc.2).1, (f y acc.2).2) := by
        rw [← hF]
      by_cases hcr : acc.2.crash.isSome = true
      · rw [hstep, if_pos hcr] at h
        obtain ⟨a, _⟩ := ih acc hys hp h
        rw [a] at hcr; cases hcr
      · rw [hstep, if_neg hcr] at h ⊢
        obtain ⟨p1, m1, q1⟩ := hf y hy acc.2 hp
        obtain ⟨a, b, cm, cx, c'⟩ := ih (acc.1 + (f y acc.2).1, (f y acc.2).2) hys p1 h
        obtain ⟨hyin, g⟩ := q1 a
        refine ⟨g.crash, fun k hk => b k (g.mono k hk), fun n hn => cm n (m1 n hn), fun x hx => ?_, fun h0 => ?_⟩
        · rcases List.mem_cons.mp hx with rfl | hx
          · exact cm _ hyin
          · exact cx x hx
        · obtain ⟨c1, c2⟩ := c' h0
          simp only at c1
          refine ⟨by omega, fun M hM => ?_⟩
          obtain ⟨d1, d2⟩ := c2 M hM
          have hMy : SupM (f y acc.2).2 M := fun k hk => hM k (b k hk)
          obtain ⟨e1, e2⟩ := g.res (by omega) M hMy
          refine ⟨fun k hk => ?_, fun CF hCF n hn => ?_⟩
          · rcases d1 k hk with h' | h'
            · exact e1 k h'
            · exact Or.inr h'
          · rcases d2 CF hCF n hn with h' | h'
            · exact e2 CF (fun n hn => hCF n (cm n hn)) n h'
            · exact Or.inr h'
  obtain ⟨a, b, cm, cx, c'⟩ := key xs (0, c) (fun _ h => h) hc hn
  exact ⟨cx, cm, a, b, fun h0 M hM => (c' h0).2 M hM⟩


/-! ### `cmp` frames of the memoised search -/

section
variable (s : SchemaD) (fx : Fixes)

def KFindM (fuel : Nat) : Prop := ∀ pme f1 f2 c, (findConflictM s fx fuel pme f1 f2 c).2.cmp = c.cmp
def KCbM (fuel : Nat) : Prop := ∀ me fm1 fm2 c, (conflictsBetweenM s fx fuel me fm1 fm2 c).2.cmp = c.cmp
def KFrM (fuel : Nat) : Prop := ∀ me of1 of2 c, (betweenFragmentsM s fx fuel me of1 of2 c).2.cmp = c.cmp
def KSsM (fuel : Nat) : Prop :=
  ∀ me p1 id1 sels1 p2 id2 sels2 c, (betweenSubselectionsM s fx fuel me p1 id1 sels1 p2 id2 sels2 c).2.cmp = c.cmp
def KFfM (fuel : Nat) : Prop :=
  ∀ me ssid fm name c, ∀ n ∈ c.cmp, n ∈ (betweenFieldsAndFragmentM s fx fuel me ssid fm name c).2.cmp

theorem cmp_framesM (h7 : fx.v7 = true) : ∀ fuel, KFindM s fx fuel ∧ KCbM s fx fuel ∧ KFrM s fx fuel ∧ KSsM s fx fuel ∧ KFfM s fx fuel := by
  intro fuel
  induction fuel with
  | zero =>
    refine ⟨?_, ?_, ?_, ?_, ?_⟩
    · intro pme f1 f2 c; simp only [findConflictM]
    · intro me fm1 fm2 c; simp only [conflictsBetweenM]
    · intro me of1 of2 c; simp only [betweenFragmentsM]
    · intro me p1 id1 sels1 p2 id2 sels2 c; simp only [betweenSubselectionsM]
    · intro me ssid fm name c n hn; simp only [betweenFieldsAndFragmentM]; exact hn
  | succ fuel ih =>
    obtain ⟨i1, i2, i3, i4, i5⟩ := ih
    refine ⟨?_, ?_, ?_, ?_, ?_⟩
    · intro pme f1 f2 c
      simp only [findConflictM]
      repeat' split
      all_goals first | rfl | exact i4 _ _ _ _ _ _ _ c
    · intro me fm1 fm2 c
      simp only [conflictsBetweenM]
      apply sumLoop_cmp_eq
      intro q _ c
      split
      · rfl
      · apply sumLoop_cmp_eq
        intro f1 _ c
        apply sumLoop_cmp_eq
        intro f2 _ c
        exact i1 me f1 f2 c
    · intro me of1 of2 c
      cases of1 with
      | none => simp only [betweenFragmentsM]
      | some f1 =>
        cases of2 with
        | none => simp only [betweenFragmentsM]
        | some f2 =>
          simp only [betweenFragmentsM, h7, ↓reduceIte]
          split
          · rfl
          · split
            · rfl
            · split
              · rename_i on1 id1 sels1 on2 id2 sels2 _ _
                rw [sumLoop_cmp_eq _ _ (fun fr _ c => i3 me (some f1) (some fr) c),
                  sumLoop_cmp_eq _ _ (fun fr _ c => i3 me (some fr) (some f2) c), i2,
                  (ff_frame s _ id2 sels2 _).2.1, (ff_frame s _ id1 sels1 _).2.1]
              · rfl
    · intro me p1 id1 sels1 p2 id2 sels2 c
      simp only [betweenSubselectionsM]
      rw [sumLoop_cmp_eq _ _ (fun f1 _ c => sumLoop_cmp_eq _ _ (fun f2 _ c => i3 me (some f1) (some f2) c) c),
        sumLoop_cmp_eq _ _ (fun fr _ c => withFreshCmp_cmp _ c),
        sumLoop_cmp_eq _ _ (fun fr _ c => withFreshCmp_cmp _ c), i2,
        (ff_frame s p2 id2 sels2 _).2.1, (ff_frame s p1 id1 sels1 _).2.1]
    · intro me ssid fm name c n hn
      simp only [betweenFieldsAndFragmentM]
      split
      · exact hn
      · split
        · exact List.mem_cons_of_mem _ hn
        · rename_i on fid fsels _
          split
          · exact List.mem_cons_of_mem _ hn
          · split
            · rw [(ff_frame s _ fid fsels _).2.1]; exact List.mem_cons_of_mem _ hn
            · apply sumLoop_cmp_mono _ _ (fun fr _ c => i5 me ssid fm fr c)
              rw [i2, (ff_frame s _ fid fsels _).2.1]
              exact List.mem_cons_of_mem _ hn

end
end PyGql.Validate

/-
  C04 — the simulation for the FAILURE outcome: on selection lists equal up to repeated selections, when the model's
  collector fails with the `CoercionError` of a directive condition, the specification's collector fails with the same
  error (at the same selection: both evaluate the selections in the same order, the model only re-visits fragments the
  specification has already expanded — and those are failure-free, `SafeV`).
-/
import PyGqlModel.Lemmas.C04Sim
import PyGqlModel.Lemmas.C04DirFail

set_option linter.unusedSimpArgs false
set_option linter.unusedVariables false

namespace PyGql.Props.C04
open PyGql PyGql.Exec PyGql.Spec PyGql.Lemmas.C04Raise

section
variable (s : SchemaD) (doc : Doc) (vars : Vars)

def SimE (rk : String → Nat) (f fS : String → List Sel → List String → SeqRes) : Prop :=
  ∀ (obj : String) (selsS selsM : List Sel) (Q : Sel → Prop) (AS : FNode → Prop) (seen V : List String) (r : Nat),
    RepA Q selsS selsM → QCov s doc vars obj Q AS V → (∀ x, Q x → ¬ DirFail s doc vars obj [x]) → (∀ N ∈ seen, N ∈ V) →
    Closed s doc vars obj rk r AS V → SafeV s doc vars obj rk r V → selsNeed rk selsM ≤ r → selsNeed rk selsS ≤ r →
    f obj selsM seen = .error CE → fS obj selsS V = .error CE

private theorem seen3_sub' {seen2 V : List String} {name : String} (h2 : ∀ N ∈ seen2, N ∈ V) (hn : name ∈ V) :
    ∀ N ∈ (if seen2.contains name = true then seen2 else seen2 ++ [name]), N ∈ V := by
  intro N hN
  by_cases hc : seen2.contains name = true
  · rw [if_pos hc] at hN; exact h2 N hN
  · rw [if_neg hc] at hN
    simp at hN
    rcases hN with hN | rfl
    · exact h2 N hN
    · exact hn

private theorem seen2_sub' {seen seen1 V : List String} (h0 : ∀ N ∈ seen, N ∈ V) (h1 : ∀ N ∈ seen1, N ∈ V) :
    ∀ N ∈ (if seen = [] then seen else seen1), N ∈ V := by
  intro N hN
  by_cases he : seen = []
  · rw [if_pos he] at hN; exact h0 N hN
  · rw [if_neg he] at hN; exact h1 N hN

private theorem mseqStep_simE (rk ek : String → Nat) (B : Nat) (hrk : Ranked doc rk ek B)
    (rec recS : String → List Sel → List String → SeqRes) (hM : ModelSound s doc vars rec) (hS : SpecFacts s doc vars rk recS)
    (hSim : Sim s doc vars rk rec recS) (hD : ModelDirSound s doc vars rec) (hSafe : SpecSafe s doc vars rk recS)
    (hE : SimE s doc vars rk rec recS) (obj : String) (r : Nat) :
    ∀ (selsS selsM : List Sel) (Q : Sel → Prop), RepA Q selsS selsM →
      ∀ (AS : FNode → Prop) (seen V : List String),
      QCov s doc vars obj Q AS V → (∀ x, Q x → ¬ DirFail s doc vars obj [x]) → (∀ N ∈ seen, N ∈ V) →
      Closed s doc vars obj rk r AS V → SafeV s doc vars obj rk r V →
      selsNeed rk selsM ≤ r → selsNeed rk selsS ≤ r →
      mseqStep s doc vars rec obj selsM seen = .error CE →
      sseqStep s doc vars recS obj selsS V = .error CE := by
  intro selsS selsM Q hrep
  induction hrep with
  | nil =>
    intro AS seen V _ _ _ _ _ _ _ h
    simp [mseqStep] at h
  | @both Q x tS tM _ ih =>
    intro AS seen V hq hqs hsv hcl hsafe hnM hnS h
    simp only [selsNeed] at hnM hnS
    have hxr : selNeed rk x ≤ r := by omega
    -- continue with the tails once the head is done on both sides
    have contE : ∀ (q1S : List FNode) (V1 : List String) (seen2 : List String),
        HeadFacts s doc vars obj x AS V q1S V1 → ¬ DirFail s doc vars obj [x] → (∀ G ∈ V1, G ∈ V ∨ SafeF s doc vars obj G) →
        (∀ N ∈ seen2, N ∈ V1) → mseqStep s doc vars rec obj tM seen2 = .error CE →
        sseqStep s doc vars recS obj tS V1 = .error CE := by
      intro q1S V1 seen2 hh hnd hnew hs2 hrun
      have hcl1 := closed_after_head s doc vars hcl hh
      have hq1 : QCov s doc vars obj (fun y => y = x ∨ Q y) (fun n => AS n ∨ n ∈ q1S) V1 := by
        intro y hy
        rcases hy with rfl | hy
        · exact ⟨fun n hn => hh.1 n hn, fun N hN => hh.2.1 N hN⟩
        · obtain ⟨a, b⟩ := hq y hy
          exact ⟨fun n hn => Or.inl (a n hn), fun N hN => hh.2.2.2 N (b N hN)⟩
      have hqs1 : ∀ y, (y = x ∨ Q y) → ¬ DirFail s doc vars obj [y] := by
        intro y hy
        rcases hy with rfl | hy
        · exact hnd
        · exact hqs y hy
      exact ih _ seen2 V1 hq1 hqs1 hs2 hcl1 (safeV_after hsafe hnew) (by omega) (by omega) hrun
    have same : ∀ G ∈ V, G ∈ V ∨ SafeF s doc vars obj G := fun G hG => Or.inl hG
    cases x with
    | field key name loc dirs args hs sub =>
      simp only [mseqStep, bind, Except.bind, pure, Except.pure] at h
      cases hsk : skipSelection vars dirs with
      | error e =>
        simp [hsk] at h
        simp [sseqStep, bind, Except.bind, pure, Except.pure, hsk, h, CE]
      | ok b =>
        simp only [hsk] at h
        have hnd := not_dirFail_field (s := s) (doc := doc) (obj := obj) (key := key) (name := name) (loc := loc) (args := args)
          (hs := hs) (sub := sub) hsk
        cases b with
        | true =>
          simp at h
          obtain ⟨hno, hnoN⟩ := no_reach_field_skipped s doc vars (obj := obj) (key := key) (name := name) (loc := loc)
            (args := args) (hs := hs) (sub := sub) hsk
          have ht := contE [] V seen (hf_nothing s doc vars obj _ AS V hno (fun N hN => absurd hN (hnoN N))) hnd same hsv h
          simpa [sseqStep, bind, Except.bind, pure, Except.pure, Functor.map, Except.map, hsk] using ht
        | false =>
          simp only [Bool.false_eq_true, if_false] at h
          cases hr : mseqStep s doc vars rec obj tM seen with
          | ok p => simp [hr] at h
          | error e =>
            simp [hr] at h
            subst h
            have ht := contE [mkNode key name loc args hs sub] V seen
              (hf_field_kept s doc vars obj key name loc dirs args hs sub AS V) hnd same hsv hr
            simp [sseqStep, bind, Except.bind, pure, Except.pure, Functor.map, Except.map, hsk, ht]
    | inline on dirs sub =>
      simp only [selNeed] at hxr
      simp only [mseqStep, bind, Except.bind, pure, Except.pure, List.isEmpty_iff] at h
      cases hsk : skipSelection vars dirs with
      | error e =>
        simp [hsk] at h
        simp [sseqStep, bind, Except.bind, pure, Except.pure, hsk, h, CE]
      | ok b =>
        simp only [hsk] at h
        cases b with
        | true =>
          simp at h
          obtain ⟨hno, hnoN⟩ := no_reach_inline_dropped s doc vars (obj := obj) (on := on) (dirs := dirs) (sub := sub) (Or.inl hsk)
          have ht := contE [] V seen (hf_nothing s doc vars obj _ AS V hno (fun N hN => absurd hN (hnoN N)))
            (not_dirFail_inline_dropped hsk (Or.inl rfl)) same hsv h
          simpa [sseqStep, bind, Except.bind, pure, Except.pure, Functor.map, Except.map, hsk] using ht
        | false =>
          simp only [Bool.false_eq_true, if_false] at h
          cases hap : fragmentTypeApplies s obj on with
          | error e =>
            simp [hap] at h
            have := fragmentTypeApplies_err _ _ _ _ hap
            rw [h] at this; simp [CE] at this
          | ok a =>
            simp only [hap] at h
            cases a with
            | false =>
              simp at h
              obtain ⟨hno, hnoN⟩ := no_reach_inline_dropped s doc vars (obj := obj) (on := on) (dirs := dirs) (sub := sub) (Or.inr hap)
              have ht := contE [] V seen (hf_nothing s doc vars obj _ AS V hno (fun N hN => absurd hN (hnoN N)))
                (not_dirFail_inline_dropped hsk (Or.inr hap)) same hsv h
              simpa [sseqStep, bind, Except.bind, pure, Except.pure, Functor.map, Except.map, hsk, hap] using ht
            | true =>
              simp only [Bool.not_true, Bool.false_eq_true, if_false] at h
              cases hr1 : rec obj sub seen with
              | error e =>
                simp [hr1] at h
                subst h
                have hs1 := hE obj sub sub (fun _ => False) AS seen V r (RepA.refl _ _)
                  (by intro y hy; exact absurd hy (by simp)) (by intro y hy; exact absurd hy (by simp)) hsv hcl hsafe
                  (by omega) (by omega) hr1
                simp [sseqStep, bind, Except.bind, pure, Except.pure, Functor.map, Except.map, hsk, hap, hs1]
              | ok p1 =>
                obtain ⟨q1M, seen1⟩ := p1
                simp only [hr1] at h
                obtain ⟨q1S, V1, hs1, hrep1, hsv1⟩ := hSim obj sub sub (fun _ => False) (fun _ => True) AS seen V r q1M seen1 (RepA.refl _ _)
                  (by intro y hy; exact absurd hy (by simp)) (fun _ _ => trivial) hsv hcl (by omega) (by omega) hr1
                obtain ⟨f1, f2, f3, f4⟩ := hS obj sub V q1S V1 AS r hs1 (by omega) hcl
                obtain ⟨g1, g2, g3⟩ := hSafe obj sub V q1S V1 r hs1 (by omega) hsafe
                cases hr2 : mseqStep s doc vars rec obj tM (if seen = [] then seen else seen1) with
                | ok p2 => simp [hr2] at h
                | error e =>
                  simp [hr2] at h
                  subst h
                  have ht := contE q1S V1 _
                    (hf_inline_expanded s doc vars obj on dirs sub AS V V1 q1S f1 f2 f3 f4)
                    (not_dirFail_inline_expanded hsk g1) g2
                    (seen2_sub' (fun N hN => f4 N (hsv N hN)) hsv1) hr2
                  simp [sseqStep, bind, Except.bind, pure, Except.pure, Functor.map, Except.map, hsk, hap, hs1, ht]
    | spread name dirs =>
      simp only [selNeed] at hxr
      have hrank : rk name < r := by omega
      simp only [mseqStep, bind, Except.bind, pure, Except.pure, List.isEmpty_iff] at h
      cases hfr : doc.fragment? name with
      | none => simp [hfr, CE] at h
      | some fr =>
        simp only [hfr] at h
        cases hsk : skipSelection vars dirs with
        | error e =>
          simp [hsk] at h
          simp [sseqStep, bind, Except.bind, pure, Except.pure, hsk, h, CE]
        | ok b =>
          simp only [hsk] at h
          cases b with
          | true =>
            simp at h
            obtain ⟨hno, hnoN⟩ := no_reach_spread_skipped s doc vars (obj := obj) (name := name) (dirs := dirs) hsk
            have ht := contE [] V seen (hf_nothing s doc vars obj _ AS V hno (fun N hN => absurd hN (hnoN N)))
              (not_dirFail_spread hsk (Or.inl rfl)) same hsv h
            simpa [sseqStep, bind, Except.bind, pure, Except.pure, Functor.map, Except.map, hsk] using ht
          | false =>
            simp only [Bool.false_eq_true, if_false] at h
            have safeOf : name ∈ V → SafeF s doc vars obj name := by
              intro hmem
              rcases hsafe name hmem with h1 | h1
              · omega
              · exact h1
            -- what the specification does when it skips the spread because the name is visited
            have specVisited : name ∈ V → ∀ (seen2 : List String), (∀ N ∈ seen2, N ∈ V) →
                mseqStep s doc vars rec obj tM seen2 = .error CE →
                sseqStep s doc vars recS obj (Sel.spread name dirs :: tS) V = .error CE := by
              intro hmem seen2 hs2 hrun
              have ht := contE [] V seen2 (hf_spread_visited s doc vars rk r obj name dirs AS V hcl hmem hrank)
                (not_dirFail_spread hsk (Or.inr (safeOf hmem))) same hs2 hrun
              simpa [sseqStep, bind, Except.bind, pure, Except.pure, Functor.map, Except.map, hsk, hmem] using ht
            by_cases hseen : seen.contains name
            · simp only [hseen, if_true] at h
              simp at h
              exact specVisited (hsv name (by simpa using hseen)) seen hsv h
            · simp only [hseen, Bool.false_eq_true, if_false] at h
              cases hap : fragmentTypeApplies s obj (some fr.on) with
              | error e =>
                simp [hap] at h
                have := fragmentTypeApplies_err _ _ _ _ hap
                rw [h] at this; simp [CE] at this
              | ok a =>
                simp only [hap] at h
                cases a with
                | false =>
                  simp at h
                  by_cases hvis : V.contains name
                  · exact specVisited (by simpa using hvis) seen hsv h
                  · have hnv : name ∉ V := by simpa using hvis
                    have hsf : SafeF s doc vars obj name := by
                      intro fr' hf' ha'; rw [hfr] at hf'; cases hf'; simp [hap] at ha'
                    have ht := contE [] (V ++ [name]) seen
                      (hf_spread_not_applied s doc vars obj name dirs AS V
                        (by intro fr' hf'; rw [hfr] at hf'; cases hf'; simp [hap]))
                      (not_dirFail_spread hsk (Or.inr hsf))
                      (by intro G hG; simp at hG; rcases hG with hG | rfl; exact Or.inl hG; exact Or.inr hsf)
                      (fun N hN => by simp [hsv N hN]) h
                    simpa [sseqStep, bind, Except.bind, pure, Except.pure, Functor.map, Except.map, hsk, hnv, hfr, hap] using ht
                | true =>
                  simp only [Bool.not_true, Bool.false_eq_true, if_false] at h
                  cases hr1 : rec obj fr.sels seen with
                  | error e =>
                    simp [hr1] at h
                    subst h
                    by_cases hvis : V.contains name
                    · -- the specification skipped a fragment it had expanded: that fragment is failure-free
                      exact absurd (hD obj fr.sels seen hr1) (safeOf (by simpa using hvis) fr hfr hap)
                    · have hnv : name ∉ V := by simpa using hvis
                      have hV1 : ∀ N ∈ seen, N ∈ V ++ [name] := fun N hN => by simp [hsv N hN]
                      have hs1 := hE obj fr.sels fr.sels (fun _ => False) AS seen (V ++ [name]) (rk name) (RepA.refl _ _)
                        (by intro y hy; exact absurd hy (by simp)) (by intro y hy; exact absurd hy (by simp)) hV1
                        (closed_for_body s doc vars hcl hrank) (safeV_for_body hsafe hrank)
                        (hrk.collect name fr hfr) (hrk.collect name fr hfr) hr1
                      simp [sseqStep, bind, Except.bind, pure, Except.pure, Functor.map, Except.map, hsk, hnv, hfr, hap, hs1]
                  | ok p1 =>
                    obtain ⟨q1M, seen1⟩ := p1
                    simp only [hr1] at h
                    obtain ⟨hMn, hMs⟩ := hM obj fr.sels seen q1M seen1 hr1
                    generalize hs3 : (if (if seen = [] then seen else seen1).contains name = true
                        then (if seen = [] then seen else seen1)
                        else (if seen = [] then seen else seen1) ++ [name]) = seen3 at h
                    cases hr2 : mseqStep s doc vars rec obj tM seen3 with
                    | ok p2 => simp [hr2] at h
                    | error e =>
                      simp [hr2] at h
                      subst h
                      by_cases hvis : V.contains name
                      · have hmem : name ∈ V := by simpa using hvis
                        have hcov : Covered s doc vars obj AS V name := by
                          rcases hcl name hmem with h1 | h1
                          · omega
                          · exact h1
                        obtain ⟨c1, c2⟩ := hcov fr hfr hap
                        have hs1V : ∀ N ∈ seen1, N ∈ V := by
                          intro N hN
                          rcases hMs N hN with h1 | h1
                          · exact hsv N h1
                          · exact c2 N h1
                        have hs3V : ∀ N ∈ seen3, N ∈ V := by
                          rw [← hs3]; exact seen3_sub' (seen2_sub' hsv hs1V) hmem
                        exact specVisited hmem seen3 hs3V hr2
                      · have hnv : name ∉ V := by simpa using hvis
                        have hV1 : ∀ N ∈ seen, N ∈ V ++ [name] := fun N hN => by simp [hsv N hN]
                        obtain ⟨q1S, V1, hs1, hrep1, hsv1⟩ := hSim obj fr.sels fr.sels (fun _ => False) (fun _ => True) AS seen (V ++ [name]) (rk name)
                          q1M seen1 (RepA.refl _ _) (by intro y hy; exact absurd hy (by simp)) (fun _ _ => trivial) hV1
                          (closed_for_body s doc vars hcl hrank) (hrk.collect name fr hfr) (hrk.collect name fr hfr) hr1
                        obtain ⟨f1, f2, f3, f4⟩ := hS obj fr.sels (V ++ [name]) q1S V1 AS (rk name) hs1 (hrk.collect name fr hfr)
                          (closed_for_body s doc vars hcl hrank)
                        obtain ⟨g1, g2, g3⟩ := hSafe obj fr.sels (V ++ [name]) q1S V1 (rk name) hs1 (hrk.collect name fr hfr)
                          (safeV_for_body hsafe hrank)
                        have hsf : SafeF s doc vars obj name := by
                          intro fr' hf' _; rw [hfr] at hf'; cases hf'; exact g1
                        have hs3V : ∀ N ∈ seen3, N ∈ V1 := by
                          rw [← hs3]
                          exact seen3_sub' (seen2_sub' (fun N hN => f4 N (hV1 N hN)) hsv1) (f4 name (by simp))
                        have ht := contE q1S V1 seen3
                          (hf_spread_expanded s doc vars obj name dirs fr hfr AS V V1 q1S f1 f2 f3 f4)
                          (not_dirFail_spread hsk (Or.inr hsf))
                          (by
                            intro G hG
                            rcases g2 G hG with h1 | h1
                            · simp at h1
                              rcases h1 with h1 | rfl
                              · exact Or.inl h1
                              · exact Or.inr hsf
                            · exact Or.inr h1)
                          hs3V hr2
                        simp [sseqStep, bind, Except.bind, pure, Except.pure, Functor.map, Except.map, hsk, hnv, hfr, hap, hs1, ht]
  | @extra Q x tS tM hQx _ ih =>
    intro AS seen V hq hqs hsv hcl hsafe hnM hnS h
    simp only [selsNeed] at hnM
    obtain ⟨hxn, hxN⟩ := hq x hQx
    have hxs := hqs x hQx
    -- the specification does not see this repeated selection: it was processed before, without failure
    have contE : ∀ (seen2 : List String), (∀ N ∈ seen2, N ∈ V) →
        mseqStep s doc vars rec obj tM seen2 = .error CE → sseqStep s doc vars recS obj tS V = .error CE :=
      fun seen2 hs2 hrun => ih AS seen2 V hq hqs hs2 hcl hsafe (by omega) hnS hrun
    cases x with
    | field key name loc dirs args hs sub =>
      simp only [mseqStep, bind, Except.bind, pure, Except.pure] at h
      cases hsk : skipSelection vars dirs with
      | error e => exact absurd (.here (x := Sel.field key name loc dirs args hs sub) (by simp) (by simpa [ownDirs] using hsk)) hxs
      | ok b =>
        simp only [hsk] at h
        cases b with
        | true => simp at h; exact contE seen hsv h
        | false =>
          simp only [Bool.false_eq_true, if_false] at h
          cases hr : mseqStep s doc vars rec obj tM seen with
          | ok p => simp [hr] at h
          | error e => simp [hr] at h; subst h; exact contE seen hsv hr
    | inline on dirs sub =>
      simp only [mseqStep, bind, Except.bind, pure, Except.pure, List.isEmpty_iff] at h
      cases hsk : skipSelection vars dirs with
      | error e => exact absurd (.here (x := Sel.inline on dirs sub) (by simp) (by simpa [ownDirs] using hsk)) hxs
      | ok b =>
        simp only [hsk] at h
        cases b with
        | true => simp at h; exact contE seen hsv h
        | false =>
          simp only [Bool.false_eq_true, if_false] at h
          cases hap : fragmentTypeApplies s obj on with
          | error e =>
            simp [hap] at h
            have := fragmentTypeApplies_err _ _ _ _ hap
            rw [h] at this; simp [CE] at this
          | ok a =>
            simp only [hap] at h
            cases a with
            | false => simp at h; exact contE seen hsv h
            | true =>
              simp only [Bool.not_true, Bool.false_eq_true, if_false] at h
              cases hr1 : rec obj sub seen with
              | error e =>
                simp [hr1] at h; subst h
                exact absurd (.inline (by simp) hsk hap (hD obj sub seen hr1)) hxs
              | ok p1 =>
                obtain ⟨q1M, seen1⟩ := p1
                simp only [hr1] at h
                obtain ⟨hMn, hMs⟩ := hM obj sub seen q1M seen1 hr1
                cases hr2 : mseqStep s doc vars rec obj tM (if seen = [] then seen else seen1) with
                | ok p2 => simp [hr2] at h
                | error e =>
                  simp [hr2] at h; subst h
                  have hs1V : ∀ N ∈ seen1, N ∈ V := by
                    intro N hN
                    rcases hMs N hN with h1 | h1
                    · exact hsv N h1
                    · exact hxN N (.inline (by simp) hsk hap h1)
                  exact contE _ (seen2_sub' hsv hs1V) hr2
    | spread name dirs =>
      simp only [mseqStep, bind, Except.bind, pure, Except.pure, List.isEmpty_iff] at h
      cases hfr : doc.fragment? name with
      | none => simp [hfr, CE] at h
      | some fr =>
        simp only [hfr] at h
        cases hsk : skipSelection vars dirs with
        | error e => exact absurd (.here (x := Sel.spread name dirs) (by simp) (by simpa [ownDirs] using hsk)) hxs
        | ok b =>
          simp only [hsk] at h
          cases b with
          | true => simp at h; exact contE seen hsv h
          | false =>
            simp only [Bool.false_eq_true, if_false] at h
            by_cases hseen : seen.contains name
            · simp only [hseen, if_true] at h; simp at h; exact contE seen hsv h
            · simp only [hseen, Bool.false_eq_true, if_false] at h
              cases hap : fragmentTypeApplies s obj (some fr.on) with
              | error e =>
                simp [hap] at h
                have := fragmentTypeApplies_err _ _ _ _ hap
                rw [h] at this; simp [CE] at this
              | ok a =>
                simp only [hap] at h
                cases a with
                | false => simp at h; exact contE seen hsv h
                | true =>
                  simp only [Bool.not_true, Bool.false_eq_true, if_false] at h
                  cases hr1 : rec obj fr.sels seen with
                  | error e =>
                    simp [hr1] at h; subst h
                    exact absurd (.spread (by simp) hsk hfr hap (hD obj fr.sels seen hr1)) hxs
                  | ok p1 =>
                    obtain ⟨q1M, seen1⟩ := p1
                    simp only [hr1] at h
                    obtain ⟨hMn, hMs⟩ := hM obj fr.sels seen q1M seen1 hr1
                    generalize hs3 : (if (if seen = [] then seen else seen1).contains name = true
                        then (if seen = [] then seen else seen1)
                        else (if seen = [] then seen else seen1) ++ [name]) = seen3 at h
                    cases hr2 : mseqStep s doc vars rec obj tM seen3 with
                    | ok p2 => simp [hr2] at h
                    | error e =>
                      simp [hr2] at h; subst h
                      have hs1V : ∀ N ∈ seen1, N ∈ V := by
                        intro N hN
                        rcases hMs N hN with h1 | h1
                        · exact hsv N h1
                        · exact hxN N (.spread (by simp) hsk hfr hap h1)
                      have hs3V : ∀ N ∈ seen3, N ∈ V := by
                        rw [← hs3]; exact seen3_sub' (seen2_sub' hsv hs1V) (hxN name (.here (by simp) hsk))
                      exact contE seen3 hs3V hr2

/-- **collect_simulation_fail**: the failure simulation holds for the two collectors at every fuel -/
theorem collect_simulation_fail (rk ek : String → Nat) (B : Nat) (hrk : Ranked doc rk ek B) (n : Nat) :
    SimE s doc vars rk (mseq s doc vars n) (sseq s doc vars n) := by
  induction n with
  | zero => intro obj selsS selsM Q AS seen V r _ _ _ _ _ _ _ _ h; simp [mseq, CE] at h
  | succ n ih =>
    intro obj selsS selsM Q AS seen V r hrep hq hqs hsv hcl hsafe hnM hnS h
    simp only [mseq] at h
    simp only [sseq]
    exact mseqStep_simE s doc vars rk ek B hrk _ _ (mseq_sound s doc vars n) (sseq_facts s doc vars rk ek B hrk n)
      (collect_simulation s doc vars rk ek B hrk n) (mseq_dirSound s doc vars n) (sseq_safe s doc vars rk ek B hrk n) ih obj r
      selsS selsM Q hrep AS seen V hq hqs hsv hcl hsafe hnM hnS h

end
end PyGql.Props.C04

/-
  The weaker notion of agreement that HOLDS below `__schema { … }` / `__type { … }`: every admissible parent type of a
  selection set is the one `TypeInfoVisitor` shows at its node, OR `none` (`adm_walk_or_none`). `ParentsAgree` needs
  `NoMetaSubs` because for a meta field `_get_field_def` (the visitor) knows the field and `parent_type.field_map` (the
  search) does not; the search then derives NO parent type - never a wrong one - provided the schema defines no field
  with a reserved meta name (`NoReservedFields`, what schema validation guarantees) and `__typename` carries no
  sub-selection (`NoTypenameSubs`, a consequence of ScalarLeafs on schemas that have `String`).
-/
import PyGqlModel.Lemmas.ValidateOverlapParents2
import PyGqlModel.Lemmas.ValidateOverlapSim
namespace PyGql.Validate
open PyGql PyGql.Validate.Spec

/-- no type of the schema defines a field named `__schema` or `__type` -/
def NoReservedFields (s : SchemaD) : Prop := ∀ T, fieldOf s T "__schema" = none ∧ fieldOf s T "__type" = none

/-- `__typename` is never selected with a sub-selection -/
def NoTypenameSubs (d : Doc) : Prop := ∀ n ∈ nodes d, ∀ name args dirs, n = Node.field name args dirs true → name ≠ "__typename"

theorem ovFieldOf_eq_getFieldDef (s : SchemaD) (p name : String) (h1 : name ≠ "__schema") (h2 : name ≠ "__type") :
    ovFieldOf s p name = getFieldDef s p name := by
  unfold ovFieldOf getFieldDef
  simp [h1, h2]

theorem ovFieldOf_reserved (s : SchemaD) (hres : NoReservedFields s) (p name : String)
    (h : name = "__schema" ∨ name = "__type") : ovFieldOf s p name = none := by
  unfold ovFieldOf
  rcases h with rfl | rfl
  · simpa using (hres p).1
  · simpa using (hres p).2

section
variable {s : SchemaD} {d : Doc}
variable (hout : ∀ T name fd, fieldOf s T name = some fd → isOutputTy s fd.type = true)
  (hsl : Spec.scalarLeafs s d) (hfc : Spec.fragmentsOnCompositeTypes s d) (hres : NoReservedFields s)
  (hnt : NoTypenameSubs d)

include hout hsl hfc hres hnt in
/-- the sub-selection of a collected field: the search derives the parent type the visitor shows, or none -/
theorem coll_walk_or_none {p : Option String} {sels : List Sel} {rn : String} {e : FEntry} (hc : CollD s p sels rn e) :
    ∀ v : View, (v.parent = p ∨ p = none) → v.parent = compositeBase s v.type → (∀ q ∈ tnSels s v sels, q ∈ typedNodes s d) →
      e.hasSub = true → e.subParent = none ∨
        ∃ v2, (Node.selectionSet e.ssid e.sub, v2) ∈ typedNodes s d ∧ v2.parent = e.subParent := by
  induction hc with
  | @field parent sels alias name args dirs hasSub ssid sub hm =>
    intro v hvp _ hcl hs
    simp only at hs; subst hs
    rcases hvp with hvp | hpn
    · have hsub := fun q hq => hcl q (mem_tnSels_of_mem hm q hq)
      have hfield : (Node.field name args dirs true, View.enter s (.field name args dirs true) v) ∈ typedNodes s d :=
        hsub _ (by simp [tnSel])
      by_cases hmeta : name = "__schema" ∨ name = "__type"
      · left
        show ((parent.bind fun q => ovFieldOf s q name).map (·.type)).map (·.base) = none
        cases parent with
        | none => rfl
        | some q => simp [ovFieldOf_reserved s hres q name hmeta]
      · right
        have h1 : name ≠ "__schema" := fun e => hmeta (Or.inl e)
        have h2 : name ≠ "__type" := fun e => hmeta (Or.inr e)
        have h3 : name ≠ "__typename" := hnt _ (typed_node_mem hfield) name args dirs rfl
        have hnmeta : name ∉ metaFieldNames := by
          simp only [metaFieldNames, List.mem_cons, List.not_mem_nil, or_false, not_or]
          exact ⟨h1, h2, h3⟩
        refine ⟨_, hsub (Node.selectionSet ssid sub,
          View.enter s (.selectionSet ssid sub) (View.enter s (.field name args dirs true) v)) (by simp [tnSel]), ?_⟩
        show compositeBase s (TI.outOnly s ((v.parent.bind fun q => getFieldDef s q name).map (·.type))) = _
        rw [compositeBase_outOnly, hvp]
        have hfd : (parent.bind fun q => getFieldDef s q name) = parent.bind fun q => fieldOf s q name := by
          cases parent with
          | none => rfl
          | some q => simp only [Option.bind_some]; exact getFieldDef_nonMeta s q name hnmeta
        rw [hfd]
        have hov : (parent.bind fun q => ovFieldOf s q name) = parent.bind fun q => fieldOf s q name := by
          cases parent with
          | none => rfl
          | some q => simp only [Option.bind_some]; exact ovFieldOf_nonMeta s q name hnmeta
        show _ = ((parent.bind fun q => ovFieldOf s q name).map (·.type)).map (·.base)
        rw [hov]
        cases hf : (parent.bind fun q => fieldOf s q name) with
        | none => rfl
        | some f =>
          simp only [Option.map_some]
          have ho : isOutputTy s f.type = true := by
            cases parent with
            | none => simp at hf
            | some q => exact hout q name f (by simpa using hf)
          have hleaf := (hsl _ hfield name args dirs true rfl f.type (by
            show TI.outOnly s ((v.parent.bind fun q => getFieldDef s q name).map (·.type)) = some f.type
            rw [hvp, hfd, hf]; simp [TI.outOnly, ho])).1
          have hcomp : isComposite s f.type.base = true := by
            unfold isOutputTy at ho
            unfold isLeaf at hleaf
            unfold isComposite
            cases hk : kindOf s f.type.base with
            | none => simp [hk] at ho
            | some k => cases k <;> simp_all
          simp [compositeBase, hcomp]
    · left
      subst hpn
      rfl
  | @inline parent sels on dirs id sub rn e hm _ ih =>
    intro v hvp hvc hcl hs
    have hsub := fun q hq => hcl q (mem_tnSels_of_mem hm q hq)
    have hnode : (Node.inline on dirs, View.enter s (.inline on dirs) v) ∈ typedNodes s d := hsub _ (by simp [tnSel])
    have hset : (Node.selectionSet id sub, View.enter s (.selectionSet id sub) (View.enter s (.inline on dirs) v))
        ∈ typedNodes s d := hsub _ (by simp [tnSel])
    refine ih _ ?_ rfl (typed_closed hset).1 hs
    cases on with
    | none =>
      rcases hvp with hvp | hpn
      · left
        show compositeBase s (TI.outOnly s v.type) = parent
        rw [compositeBase_outOnly, ← hvc, hvp]
      · right
        subst hpn
        rfl
    | some n =>
      left
      have hcomp : isComposite s n = true := hfc.1 _ (typed_node_mem hnode) n dirs rfl
      show compositeBase s (TI.outOnly s (typeFromAst s (.named n))) = (typeFromAst s (.named n)).map (·.base)
      rw [(composite_named s n hcomp).1, (composite_named s n hcomp).2]

theorem selSet_typed {i : Nat} {sels : List Sel} (h : SelSet d i sels) :
    ∃ v, (Node.selectionSet i sels, v) ∈ typedNodes s d := by
  have : Node.selectionSet i sels ∈ d.defs.flatMap defNodes := by
    simpa [SelSet, nodes] using h
  rw [← typedNodes_fst s d] at this
  obtain ⟨q, hq, e⟩ := List.mem_map.mp this
  obtain ⟨n, v⟩ := q
  simp only at e
  subst e
  exact ⟨v, hq⟩

include hout hsl hfc hres hnt in
/-- **every admissible parent type is the one the visitor shows, or none** - documents with `__schema { … }` /
    `__type { … }` included -/
theorem adm_walk_or_none (hw : WfIds d) {i : Nat} {p : Option String} (h : Adm s d i p) :
    p = none ∨ WalkP s d i p := by
  induction h with
  | walk hm => exact Or.inr ⟨_, _, hm, rfl⟩
  | @frag name on i sels ht =>
    right
    obtain ⟨dirs, hF⟩ := fragTable_def ht
    have hmem : (Node.selectionSet i sels, View.enter s (.selectionSet i sels) (View.enter s (.fragmentDef name on dirs) {}))
        ∈ typedNodes s d := by
      simp only [typedNodes, List.mem_flatMap]
      exact ⟨_, hF, by simp [tnDef]⟩
    have hnode : (Node.fragmentDef name on dirs, View.enter s (.fragmentDef name on dirs) {}) ∈ typedNodes s d := by
      simp only [typedNodes, List.mem_flatMap]
      exact ⟨_, hF, by simp [tnDef]⟩
    have hcomp : isComposite s on = true := hfc.2 _ (typed_node_mem hnode) name on dirs rfl
    refine ⟨_, _, hmem, ?_⟩
    show compositeBase s (TI.outOnly s (typeFromAst s (.named on))) = fragParent s on
    rw [(composite_named s on hcomp).1]
    exact (composite_named s on hcomp).2.symm
  | @sub i sels p rn e _ hs hc hsub ih =>
    obtain ⟨v, hm⟩ : ∃ v, (Node.selectionSet i sels, v) ∈ typedNodes s d := by
      rcases ih with _ | ⟨sels0, v, hm, _⟩
      · exact selSet_typed hs
      · have hsame : sels0 = sels := wf_selSet_unique hw (by simp only [SelSet]; exact typed_node_mem hm) hs
        subst hsame
        exact ⟨v, hm⟩
    have hvp : v.parent = p ∨ p = none := by
      rcases ih with hn | ⟨sels0, v0, hm0, hv0⟩
      · exact Or.inr hn
      · have := typed_unique hw hm0 hm (k := i) rfl rfl
        cases this
        exact Or.inl hv0
    obtain ⟨c1, c2⟩ := typed_closed hm
    rcases coll_walk_or_none hout hsl hfc hres hnt hc v hvp c2 c1 hsub with hn | ⟨v2, hm2, hp2⟩
    · exact Or.inl hn
    · exact Or.inr ⟨_, v2, hm2, hp2⟩

end
end PyGql.Validate

/-
  Generalisation of `Lemmas/ValidateWalk.lean`: the chain may carry an INVARIANT on the visitor state
  (e.g. "the set of fragment names collected at the document node is K") and the context-free property
  is only required of the nodes below a level `lvl` (document, or document + definitions), so that
  rules with document- or definition-level state can be handled by an explicit induction at that level.
-/
import PyGqlModel.Lemmas.ValidateWalk
namespace PyGql.Validate
open PyGql PyGql.Validate.Spec

/-- document and definition level nodes -/
def Node.isTop : Node → Bool
  | .document _ | .operation .. | .fragmentDef .. | .tsDef => true
  | _ => false

structure CFI (c : Cfg) (lvl : Node → Bool) (Inv : St → Prop) (f g : Node → Nat) : Prop where
  inner : ∀ n, n.isTop = false → lvl n = false
  noskip : ∀ n st, lvl n = false → Inv st → (enter c n st).2 = false
  enterE : ∀ n st, lvl n = false → Inv st → E (enter c n st).1 = E st + f n
  enterI : ∀ n st, lvl n = false → Inv st → Inv (enter c n st).1
  leaveE : ∀ n st, lvl n = false → Inv st → E (leave c n st) = E st + g n
  leaveI : ∀ n st, lvl n = false → Inv st → Inv (leave c n st)

variable {c : Cfg} {lvl : Node → Bool} {Inv : St → Prop} {f g : Node → Nat}

/-- what a visit of a sub-tree with nodes `ns` establishes -/
def Post (Inv : St → Prop) (f g : Node → Nat) (ns : List Node) (st st' : St) : Prop :=
  Inv st' ∧ E st' = E st + total f g ns

theorem visitNodeI (h : CFI c lvl Inv f g) (n : Node) (body : St → St) (ns : List Node)
    (hb : ∀ st, Inv st → Post Inv f g ns st (body st)) (st : St) (hi : Inv st) (hn : lvl n = false) :
    Post Inv f g (n :: ns) st (visitNode c n body st) := by
  have e1 := h.enterE n st hn hi
  have e2 := h.noskip n st hn hi
  have e3 := h.enterI n st hn hi
  unfold visitNode
  revert e1 e2 e3
  generalize enter c n st = p
  obtain ⟨st', sk⟩ := p
  intro e1 e2 e3
  simp only at e1 e2 e3
  subst e2
  simp only [Bool.false_eq_true, ↓reduceIte]
  obtain ⟨b1, b2⟩ := hb st' e3
  refine ⟨h.leaveI n _ hn b1, ?_⟩
  rw [h.leaveE n _ hn b1, b2, e1, total_cons]; omega

theorem Post.nil (hi : Inv st) : Post Inv f g [] st st := ⟨hi, by simp [total_nil]⟩

theorem Post.append {a b : List Node} {s1 s2 s3 : St} (h1 : Post Inv f g a s1 s2) (h2 : Post Inv f g b s2 s3) :
    Post Inv f g (a ++ b) s1 s3 := ⟨h2.1, by rw [h2.2, h1.2, total_append]; omega⟩

mutual
theorem visitValueI (h : CFI c lvl Inv f g) : ∀ (v : Value) (st : St), Inv st → Post Inv f g (valueNodes v) st (visitValue c v st)
  | .list vs, st, hi => by
    rw [visitValue, valueNodes]
    exact visitNodeI h _ _ _ (fun st hi => visitValuesI h vs st hi) st hi (h.inner _ rfl)
  | .obj fs, st, hi => by
    rw [visitValue, valueNodes]
    exact visitNodeI h _ _ _ (fun st hi => visitObjFieldsI h fs st hi) st hi (h.inner _ rfl)
  | .var x, st, hi => by
    rw [visitValue]; simp only [valueNodes]; exact visitNodeI h _ _ [] (fun _ hi => Post.nil hi) st hi (h.inner _ rfl)
  | .int x, st, hi => by
    rw [visitValue]; simp only [valueNodes]; exact visitNodeI h _ _ [] (fun _ hi => Post.nil hi) st hi (h.inner _ rfl)
  | .float x, st, hi => by
    rw [visitValue]; simp only [valueNodes]; exact visitNodeI h _ _ [] (fun _ hi => Post.nil hi) st hi (h.inner _ rfl)
  | .str x, st, hi => by
    rw [visitValue]; simp only [valueNodes]; exact visitNodeI h _ _ [] (fun _ hi => Post.nil hi) st hi (h.inner _ rfl)
  | .bool x, st, hi => by
    rw [visitValue]; simp only [valueNodes]; exact visitNodeI h _ _ [] (fun _ hi => Post.nil hi) st hi (h.inner _ rfl)
  | .null, st, hi => by
    rw [visitValue]; simp only [valueNodes]; exact visitNodeI h _ _ [] (fun _ hi => Post.nil hi) st hi (h.inner _ rfl)
  | .enum x, st, hi => by
    rw [visitValue]; simp only [valueNodes]; exact visitNodeI h _ _ [] (fun _ hi => Post.nil hi) st hi (h.inner _ rfl)
theorem visitValuesI (h : CFI c lvl Inv f g) : ∀ (vs : List Value) (st : St), Inv st → Post Inv f g (valuesNodes vs) st (visitValues c vs st)
  | [], st, hi => by rw [visitValues, valuesNodes]; exact Post.nil hi
  | v :: vs, st, hi => by
    rw [visitValues, valuesNodes]
    have h1 := visitValueI h v st hi
    exact h1.append (visitValuesI h vs _ h1.1)
theorem visitObjFieldI (h : CFI c lvl Inv f g) : ∀ (x : ObjField) (st : St), Inv st → Post Inv f g (objFieldNodes x) st (visitObjField c x st)
  | .mk n v, st, hi => by
    rw [visitObjField, objFieldNodes]
    exact visitNodeI h _ _ _ (fun st hi => visitValueI h v st hi) st hi (h.inner _ rfl)
theorem visitObjFieldsI (h : CFI c lvl Inv f g) : ∀ (fs : List ObjField) (st : St), Inv st → Post Inv f g (objFieldsNodes fs) st (visitObjFields c fs st)
  | [], st, hi => by rw [visitObjFields, objFieldsNodes]; exact Post.nil hi
  | x :: fs, st, hi => by
    rw [visitObjFields, objFieldsNodes]
    have h1 := visitObjFieldI h x st hi
    exact h1.append (visitObjFieldsI h fs _ h1.1)
end

theorem foldlI {α} (visit : α → St → St) (ns : α → List Node)
    (hv : ∀ a st, Inv st → Post Inv f g (ns a) st (visit a st)) :
    ∀ (as : List α) (st : St), Inv st → Post Inv f g (as.flatMap ns) st (as.foldl (fun st a => visit a st) st)
  | [], st, hi => by simpa using Post.nil hi
  | a :: as, st, hi => by
    rw [List.foldl_cons, List.flatMap_cons]
    have h1 := hv a st hi
    exact h1.append (foldlI visit ns hv as _ h1.1)

theorem visitArgumentI (h : CFI c lvl Inv f g) (a : Arg) (st : St) (hi : Inv st) :
    Post Inv f g (argNodes a) st (visitArgument c a st) := by
  rw [visitArgument, argNodes]
  exact visitNodeI h _ _ _ (fun st hi => visitValueI h a.value st hi) st hi (h.inner _ rfl)

theorem visitArgumentsI (h : CFI c lvl Inv f g) (as : List Arg) (st : St) (hi : Inv st) :
    Post Inv f g (argsNodes as) st (visitArguments c as st) :=
  foldlI (visitArgument c) argNodes (visitArgumentI h) as st hi

theorem visitDirectiveI (h : CFI c lvl Inv f g) (d : Dir) (st : St) (hi : Inv st) :
    Post Inv f g (dirNodes d) st (visitDirective c d st) := by
  rw [visitDirective, dirNodes]
  exact visitNodeI h _ _ _ (fun st hi => visitArgumentsI h d.args st hi) st hi (h.inner _ rfl)

theorem visitDirectivesI (h : CFI c lvl Inv f g) (ds : List Dir) (st : St) (hi : Inv st) :
    Post Inv f g (dirsNodes ds) st (visitDirectives c ds st) :=
  foldlI (visitDirective c) dirNodes (visitDirectiveI h) ds st hi

mutual
theorem visitSelI (h : CFI c lvl Inv f g) : ∀ (x : Sel) (st : St), Inv st → Post Inv f g (selNodes x) st (visitSel c x st)
  | .field al name args dirs true ssid sub, st, hi => by
    rw [visitSel, selNodes]
    refine visitNodeI h _ _ _ (fun st hi => ?_) st hi (h.inner _ rfl)
    simp only [↓reduceIte]
    have h1 := visitArgumentsI h args st hi
    have h2 := visitDirectivesI h dirs _ h1.1
    have h3 := visitNodeI h (.selectionSet ssid sub) _ _ (fun st hi => visitSelsI h sub st hi) _ h2.1 (h.inner _ rfl)
    exact (h1.append h2).append h3
  | .field al name args dirs false ssid sub, st, hi => by
    rw [visitSel, selNodes]
    refine visitNodeI h _ _ _ (fun st hi => ?_) st hi (h.inner _ rfl)
    simp only [Bool.false_eq_true, ↓reduceIte, List.append_nil]
    have h1 := visitArgumentsI h args st hi
    exact h1.append (visitDirectivesI h dirs _ h1.1)
  | .spread name dirs, st, hi => by
    rw [visitSel, selNodes]
    exact visitNodeI h _ _ _ (fun st hi => visitDirectivesI h dirs st hi) st hi (h.inner _ rfl)
  | .inline on dirs ssid sub, st, hi => by
    rw [visitSel, selNodes]
    refine visitNodeI h _ _ _ (fun st hi => ?_) st hi (h.inner _ rfl)
    have h2 := visitDirectivesI h dirs st hi
    exact h2.append (visitNodeI h (.selectionSet ssid sub) _ _ (fun st hi => visitSelsI h sub st hi) _ h2.1 (h.inner _ rfl))
theorem visitSelsI (h : CFI c lvl Inv f g) : ∀ (xs : List Sel) (st : St), Inv st → Post Inv f g (selsNodes xs) st (visitSels c xs st)
  | [], st, hi => by rw [visitSels, selsNodes]; exact Post.nil hi
  | x :: xs, st, hi => by
    rw [visitSels, selsNodes]
    have h1 := visitSelI h x st hi
    exact h1.append (visitSelsI h xs _ h1.1)
end

theorem visitVarDefI (h : CFI c lvl Inv f g) (v : VarDef) (st : St) (hi : Inv st) :
    Post Inv f g (varDefNodes v) st (visitVarDef c v st) := by
  rw [visitVarDef, varDefNodes]
  refine visitNodeI h _ _ _ (fun st hi => ?_) st hi (h.inner _ rfl)
  have key0 : ∀ st', Inv st' → Post Inv f g [.typeNode v.type] st' (visitNode c (.typeNode v.type) id st') :=
    fun st' hi' => visitNodeI h _ id [] (fun _ hi => Post.nil hi) st' hi' (h.inner _ rfl)
  have key : ∀ st', Inv st' → Post Inv f g (.typeNode v.type :: dirsNodes v.dirs) st'
      (visitDirectives c v.dirs (visitNode c (.typeNode v.type) id st')) := fun st' hi' => by
    have h1 := key0 st' hi'
    exact h1.append (visitDirectivesI h v.dirs _ h1.1)
  cases hd : v.default with
  | none => simpa using key st hi
  | some d =>
    simp only
    have h1 := visitValueI h d st hi
    exact h1.append (key _ h1.1)

/-- the children of an operation definition (everything below the operation node) -/
def opBodyNodes (vars : List VarDef) (dirs : List Dir) (ssid : Nat) (sels : List Sel) : List Node :=
  vars.flatMap varDefNodes ++ dirsNodes dirs ++ .selectionSet ssid sels :: selsNodes sels
def fragBodyNodes (dirs : List Dir) (ssid : Nat) (sels : List Sel) : List Node :=
  dirsNodes dirs ++ .selectionSet ssid sels :: selsNodes sels

theorem opBodyI (h : CFI c lvl Inv f g) (vars : List VarDef) (dirs : List Dir) (ssid : Nat) (sels : List Sel)
    (st : St) (hi : Inv st) :
    Post Inv f g (opBodyNodes vars dirs ssid sels) st
      (visitNode c (.selectionSet ssid sels) (visitSels c sels)
        (visitDirectives c dirs (vars.foldl (fun st v => visitVarDef c v st) st))) := by
  have h1 := foldlI (visitVarDef c) varDefNodes (visitVarDefI h) vars st hi
  have h2 := visitDirectivesI h dirs _ h1.1
  have h3 := visitNodeI h (.selectionSet ssid sels) _ _ (fun st hi => visitSelsI h sels st hi) _ h2.1 (h.inner _ rfl)
  exact (h1.append h2).append h3

theorem fragBodyI (h : CFI c lvl Inv f g) (dirs : List Dir) (ssid : Nat) (sels : List Sel) (st : St) (hi : Inv st) :
    Post Inv f g (fragBodyNodes dirs ssid sels) st
      (visitNode c (.selectionSet ssid sels) (visitSels c sels) (visitDirectives c dirs st)) := by
  have h2 := visitDirectivesI h dirs st hi
  exact h2.append (visitNodeI h (.selectionSet ssid sels) _ _ (fun st hi => visitSelsI h sels st hi) _ h2.1 (h.inner _ rfl))

theorem visitDefI (h : CFI c lvl Inv f g) (hd : ∀ n, n.isDoc = false → lvl n = false) (d : Def) (st : St) (hi : Inv st) :
    Post Inv f g (defNodes d) st (visitDef c d st) := by
  cases d with
  | op kind name vars dirs ssid sels =>
    simp only [visitDef, defNodes]
    exact visitNodeI h _ _ _ (fun st hi => opBodyI h vars dirs ssid sels st hi) st hi (hd _ rfl)
  | frag name on dirs ssid sels =>
    simp only [visitDef, defNodes]
    exact visitNodeI h _ _ _ (fun st hi => fragBodyI h dirs ssid sels st hi) st hi (hd _ rfl)
  | ts a b =>
    simp only [visitDef, defNodes]
    exact visitNodeI h _ id [] (fun _ hi => Post.nil hi) st hi (hd _ rfl)

theorem visitDefsI (h : CFI c lvl Inv f g) (hd : ∀ n, n.isDoc = false → lvl n = false) (ds : List Def) (st : St) (hi : Inv st) :
    Post Inv f g (ds.flatMap defNodes) st (ds.foldl (fun st x => visitDef c x st) st) :=
  foldlI (visitDef c) defNodes (visitDefI h hd) ds st hi

end PyGql.Validate

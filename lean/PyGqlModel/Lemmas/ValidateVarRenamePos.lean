/-
  Renaming of variables and the clause of 5.8.5 (`Spec.variablesInAllowedPosition`): the typed enumeration of the
  renamed document is the renamed typed enumeration (same static contexts), the usages are the renamed usages at the
  same positions, the definition a usage is checked against is the renamed definition (same type, same kind of default).
-/
import PyGqlModel.Lemmas.ValidateVarRenameSpec
namespace PyGql.Validate
open PyGql PyGql.Validate.Spec

section
variable (V : Vr) (s : SchemaD)

/-- a (node, context) pair of the renamed document -/
def Vr.nv (p : Node × View) : Node × View := (V.node p.1, p.2)

theorem view_enter_vr (n : Node) (v : View) : View.enter s (V.node n) v = View.enter s n v := by
  cases n with
  | inline on dirs => cases on <;> rfl
  | _ => rfl

theorem withView_vr (v : View) (l : List Node) : withView v (l.map V.node) = (withView v l).map V.nv := by
  simp [withView, List.map_map, Function.comp_def, Vr.nv]

theorem tnDirs_vr (v : View) (ds : List Dir) : tnDirs s v (ds.map V.dir) = (tnDirs s v ds).map V.nv := by
  induction ds with
  | nil => rfl
  | cons a as ih =>
    simp only [tnDirs, List.map_cons, List.flatMap_cons, List.map_append] at ih ⊢
    rw [ih]
    congr 1
    have h1 := view_enter_vr V s (.directive a) v
    simp only [Vr.node] at h1
    simp only [tnDir, h1, List.map_cons, Vr.dir, argsNodes_vr, withView_vr]
    rfl

mutual
theorem tnSel_vr : ∀ (v : View) (x : Sel), tnSel s v (V.sel x) = (tnSel s v x).map V.nv
  | v, .field al n args dirs true id sub => by
    have h1 := view_enter_vr V s (.field n args dirs true) v
    have h2 := fun w => view_enter_vr V s (.selectionSet id sub) w
    simp only [Vr.node] at h1 h2
    simp only [Vr.sel, tnSel, ↓reduceIte, h1, h2, List.map_cons, List.map_append, argsNodes_vr, withView_vr, tnDirs_vr,
      tnSels_vr _ sub]
    rfl
  | v, .field al n args dirs false id sub => by
    have h1 := view_enter_vr V s (.field n args dirs false) v
    simp only [Vr.node] at h1
    simp only [Vr.sel, tnSel, Bool.false_eq_true, ↓reduceIte, h1, List.map_cons, List.map_append, argsNodes_vr,
      withView_vr, tnDirs_vr, List.map_nil]
    rfl
  | v, .spread n dirs => by simp only [Vr.sel, tnSel, List.map_cons, tnDirs_vr]; rfl
  | v, .inline on dirs id sub => by
    have h1 := view_enter_vr V s (.inline on dirs) v
    have h2 := fun w => view_enter_vr V s (.selectionSet id sub) w
    simp only [Vr.node] at h1 h2
    simp only [Vr.sel, tnSel, h1, h2, List.map_cons, List.map_append, tnDirs_vr, tnSels_vr _ sub]
    rfl
theorem tnSels_vr : ∀ (v : View) (xs : List Sel), tnSels s v (V.selList xs) = (tnSels s v xs).map V.nv
  | v, [] => rfl
  | v, x :: xs => by simp only [Vr.selList, tnSels, List.map_append, tnSel_vr v x, tnSels_vr v xs]
end

theorem tnVarDef_vr (w : View) (v : VarDef) : tnVarDef s w (V.varDef v) = (tnVarDef s w v).map V.nv := by
  obtain ⟨nm, ty, df, ds, hc⟩ := v
  cases df with
  | none =>
    simp only [tnVarDef, Vr.varDef, Option.map_none, List.map_append, tnDirs_vr]
    rfl
  | some dv =>
    simp only [tnVarDef, Vr.varDef, Option.map_some, List.map_append, tnDirs_vr, valueNodes_vr]
    simp [withView, Vr.nv, List.map_map, Function.comp_def, Vr.node, Vr.varDef]

theorem tnVarDefs_vr (w : View) (vs : List VarDef) :
    (vs.map V.varDef).flatMap (tnVarDef s w) = (vs.flatMap (tnVarDef s w)).map V.nv := by
  induction vs with
  | nil => rfl
  | cons v vs ih => simp only [List.map_cons, List.flatMap_cons, List.map_append, tnVarDef_vr, ih]

theorem tnDef_vr (x : Def) : tnDef s (V.defn x) = (tnDef s x).map V.nv := by
  cases x with
  | op k nm vars dirs id sels =>
    have h1 := view_enter_vr V s (.operation k nm vars dirs sels) {}
    have h2 := fun w => view_enter_vr V s (.selectionSet id sels) w
    simp only [Vr.node] at h1 h2
    simp only [Vr.defn, tnDef, h1, h2, List.map_cons, List.map_append, tnVarDefs_vr, tnDirs_vr, tnSels_vr]
    rfl
  | frag n on dirs id sels =>
    have h1 := view_enter_vr V s (.fragmentDef n on dirs) {}
    have h2 := fun w => view_enter_vr V s (.selectionSet id sels) w
    simp only [Vr.node] at h1 h2
    simp only [Vr.defn, tnDef, h1, h2, List.map_cons, List.map_append, tnDirs_vr, tnSels_vr]
    rfl
  | ts a b => rfl

/-- a renamed usage: the renamed variable at the same position -/
def Vr.use (p : String × Usage) : String × Usage := (V.var p.1, p.2)

mutual
theorem usesValue_vr : ∀ (p : Usage) (v : Value), usesValue s p (V.value v) = (usesValue s p v).map V.use
  | p, .list vs => by simp only [Vr.value, usesValue, usesValues_vr _ vs]
  | p, .obj fs => by simp only [Vr.value, usesValue, usesObjFields_vr _ fs]
  | p, .var x => rfl
  | p, .int x => rfl
  | p, .float x => rfl
  | p, .str x => rfl
  | p, .bool x => rfl
  | p, .null => rfl
  | p, .enum x => rfl
theorem usesValues_vr : ∀ (p : Usage) (vs : List Value), usesValues s p (V.values vs) = (usesValues s p vs).map V.use
  | p, [] => rfl
  | p, v :: vs => by simp only [Vr.values, usesValues, List.map_append, usesValue_vr p v, usesValues_vr p vs]
theorem usesObjFields_vr : ∀ (p : Usage) (fs : List ObjField),
    usesObjFields s p (V.objFields fs) = (usesObjFields s p fs).map V.use
  | p, [] => rfl
  | p, .mk n v :: fs => by
    simp only [Vr.objFields, Vr.objField, usesObjFields, List.map_append, usesValue_vr _ v, usesObjFields_vr p fs]
end

theorem nodeUsages_vr (q : Node × View) : nodeUsages s (V.nv q) = (nodeUsages s q).map V.use := by
  obtain ⟨n, v⟩ := q
  cases n <;> simp [Vr.nv, Vr.node, nodeUsages, Vr.arg, usesValue_vr]

theorem defUsages_vr (x : Def) : defUsages s (V.defn x) = (defUsages s x).map V.use := by
  simp only [defUsages, tnDef_vr, List.flatMap_map, List.map_flatMap]
  exact flatMap_congr' _ fun q _ => nodeUsages_vr V s q

theorem mem_defUsages_vr (x : Def) (x' : String) (u : Usage) :
    (x', u) ∈ defUsages s (V.defn x) ↔ ∃ y, x' = V.var y ∧ (y, u) ∈ defUsages s x := by
  rw [defUsages_vr, List.mem_map]
  constructor
  · rintro ⟨⟨y, u'⟩, h, e⟩
    simp only [Vr.use, Prod.mk.injEq] at e
    obtain ⟨rfl, rfl⟩ := e
    exact ⟨y, rfl, h⟩
  · rintro ⟨y, rfl, h⟩
    exact ⟨(y, u), h, rfl⟩

theorem usedAt_vr (d : Doc) (o x' : String) (u : Usage) :
    UsedAt s (V.doc d) o x' u ↔ ∃ x, x' = V.var x ∧ UsedAt s d o x u := by
  unfold UsedAt
  simp only [mem_defs_vr, vr_opKey, vr_fragName, opReaches_vr, mem_defUsages_vr]
  constructor
  · rintro (⟨a, ha, hk, x, rfl, h⟩ | ⟨f, hf, a, ha, hk, x, rfl, h⟩)
    · exact ⟨x, rfl, Or.inl ⟨a, ha, hk, h⟩⟩
    · exact ⟨x, rfl, Or.inr ⟨f, hf, a, ha, hk, h⟩⟩
  · rintro ⟨x, rfl, ⟨a, ha, hk, h⟩ | ⟨f, hf, a, ha, hk, h⟩⟩
    · exact Or.inl ⟨a, ha, hk, x, rfl, h⟩
    · exact Or.inr ⟨f, hf, a, ha, hk, x, rfl, h⟩

theorem find?_varDef_vr (hinj : ∀ a b, V.var a = V.var b → a = b) (x : String) (l : List VarDef) :
    (l.map V.varDef).find? (·.name == V.var x) = (l.find? (·.name == x)).map V.varDef := by
  induction l with
  | nil => rfl
  | cons a as ih =>
    simp only [List.map_cons, List.find?_cons]
    have : ((V.varDef a).name == V.var x) = (a.name == x) := by
      show (V.var a.name == V.var x) = (a.name == x)
      by_cases h : a.name = x
      · subst h; rw [beq_self_eq_true, beq_self_eq_true]
      · have h' : V.var a.name ≠ V.var x := fun e => h (hinj _ _ e)
        rw [beq_eq_false_iff_ne.mpr h', beq_eq_false_iff_ne.mpr h]
    rw [this]
    split
    · rfl
    · exact ih

theorem varDefFor_vr (hinj : ∀ a b, V.var a = V.var b → a = b) (d : Doc) (o x : String) :
    varDefFor (V.doc d) o (V.var x) = (varDefFor d o x).map V.varDef := by
  unfold varDefFor
  have : ((V.doc d).defs.flatMap fun df => if df.opKey? = some o then df.vars else []) =
      (d.defs.flatMap fun df => if df.opKey? = some o then df.vars else []).map V.varDef := by
    simp only [Vr.doc, List.flatMap_map, List.map_flatMap]
    refine flatMap_congr' _ fun a _ => ?_
    rw [vr_opKey, vr_vars]
    split <;> rfl
  rw [this, ← List.map_reverse, find?_varDef_vr V hinj]

theorem hasNonNullDefault_vr (vd : VarDef) : (V.varDef vd).hasNonNullDefault = vd.hasNonNullDefault := by
  obtain ⟨nm, ty, df, ds, hc⟩ := vd
  cases df with
  | none => rfl
  | some dv => cases dv <;> rfl

theorem usageAllowed_vr (vd : VarDef) (u : Usage) : usageAllowed s (V.varDef vd) u ↔ usageAllowed s vd u := by
  unfold usageAllowed
  simp only [hasNonNullDefault_vr]
  rfl

end

/-- **the clause of 5.8.5 under an injective renaming of variables** -/
theorem variables_in_allowed_position_spec_vr (V : Vr) (hinj : ∀ a b, V.var a = V.var b → a = b) (s : SchemaD) (d : Doc) :
    Spec.variablesInAllowedPosition s (V.doc d) ↔ Spec.variablesInAllowedPosition s d := by
  unfold Spec.variablesInAllowedPosition
  constructor
  · intro h o x u vd hu hd
    have := h o (V.var x) u (V.varDef vd) ((usedAt_vr V s d o _ u).mpr ⟨x, rfl, hu⟩) (by rw [varDefFor_vr V hinj, hd]; rfl)
    exact (usageAllowed_vr V s vd u).mp this
  · intro h o x' u vd' hu hd
    obtain ⟨x, rfl, hu'⟩ := (usedAt_vr V s d o _ u).mp hu
    rw [varDefFor_vr V hinj] at hd
    cases hvd : varDefFor d o x with
    | none => rw [hvd] at hd; simp at hd
    | some vd =>
      rw [hvd] at hd
      simp only [Option.map_some, Option.some.injEq] at hd
      subst hd
      exact (usageAllowed_vr V s vd u).mpr (h o x u vd hu' hvd)

end PyGql.Validate

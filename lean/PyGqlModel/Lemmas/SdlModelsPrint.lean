/-
  C12 — the two printer models print the same text, part 3: the printer itself.  For the collection-valued state of fix
  H1 every state-passing function of `SdlPrint` returns the state it was given (`Rel … .1`) and the text of the
  corresponding function of `SdlPrintTA` (`Rel … .2`).  The only hypothesis is about the PRINTED directive applications:
  the String model writes them with its own `dirAppText`, the Text model (as the real printer) with the language printer
  of C03, whose `_join` drops empty entries — they agree when the applications consist of lexemes (`dirAppOK`).
-/
import PyGqlModel.Lemmas.SdlModelsDesc
import PyGqlModel.Lemmas.SdlTextDefaults
import PyGqlModel.Lemmas.SdlTextOrder
namespace PyGql.SdlModels
open PyGql PyGql.Sdl PyGql.SdlPrintT
open PyGql.SdlText hiding T
open PyGql.SdlPrint (Apps PrinterState Opts)

def optsA (o : Opts) : SdlPrintTA.OptsA := { base := optsT o, custom := o.custom, whitelist := o.whitelist }

theorem optsA_base (o : Opts) : (optsA o).base = optsT o := rfl
theorem optsT_indent (o : Opts) : (optsT o).indent = T o.indent := rfl
theorem optsT_descriptions (o : Opts) : (optsT o).descriptions = o.descriptions := rfl

/-- the state of the fixed code (H1): the frozenset of the specified directive names -/
abbrev st0 : PrinterState := SdlPrint.initialCollection

/-- the result of a state-passing function of the String model: unchanged state, the text `t` -/
def Rel (r : String × PrinterState) (t : Text) : Prop := r.2 = st0 ∧ T r.1 = t

theorem Rel.eq {r : String × PrinterState} {t : Text} (h : Rel r t) : r = (r.1, st0) := by
  cases r; cases h; simp_all

/-- `enumerate`-style map of the Text models -/
def imap {α} (g : Nat → α → Text) : Nat → List α → List Text
  | _, [] => []
  | i, x :: xs => g i x :: imap g (i + 1) xs

theorem imap_const {α} (g : α → Text) : ∀ (i : Nat) (l : List α), imap (fun _ x => g x) i l = l.map g
  | _, [] => rfl
  | i, x :: xs => by simp only [imap, List.map_cons, imap_const g (i + 1) xs]

theorem mapSt_rel {α} (f : Nat → α → PrinterState → String × PrinterState) (g : Nat → α → Text) :
    ∀ (l : List α) (i : Nat), (∀ j x, x ∈ l → Rel (f j x st0) (g j x)) →
      (SdlPrint.mapSt f i l st0).2 = st0 ∧ (SdlPrint.mapSt f i l st0).1.map T = imap g i l
  | [], _, _ => ⟨rfl, rfl⟩
  | x :: xs, i, h => by
    have hx := h i x (by simp)
    have ih := mapSt_rel f g xs (i + 1) (fun j y hy => h j y (by simp [hy]))
    simp only [SdlPrint.mapSt, hx.1, imap, List.map_cons, hx.2]
    exact ⟨ih.1, by rw [ih.2]⟩

/-! ### directive applications -/

theorem keepCustom_st0 (wl : Option (List String)) : ∀ ds : List DirApp,
    SdlPrint.keepCustom wl ds st0 = (ds.filter (SdlPrintTA.keepP wl), st0)
  | [] => rfl
  | d :: ds => by
    have ih := keepCustom_st0 wl ds
    simp only [st0, SdlPrint.initialCollection] at ih ⊢
    simp only [SdlPrint.keepCustom, SdlPrint.PrinterState.member, ih, List.filter_cons, SdlPrintTA.keepP]
    rfl

theorem joinSep_ne_nil (sep : Text) : ∀ xs : List Text, xs ≠ [] → (∀ x ∈ xs, x ≠ []) → joinSep sep xs ≠ []
  | [], h, _ => absurd rfl h
  | [x], _, h => by simpa [joinSep] using h x (by simp)
  | x :: y :: r, _, h => by
    have hx := h x (by simp)
    intro hj
    simp only [joinSep, List.append_eq_nil_iff] at hj
    exact hx hj.1.1

theorem argTexts_eq (c : Print.Cfg) : ∀ (as : List (String × Lit)), (as.all fun a => nameOK a.1 && litOK a.2) = true →
    (as.map argOf).map (Print.printArgument c) = fieldTexts as
  | [], _ => rfl
  | (k, v) :: as, h => by
    simp only [List.all_cons, Bool.and_eq_true] at h
    simp only [List.map_cons, fieldTexts, argTexts_eq c as h.2, Print.printArgument, argOf, nameOf, litText_eq c v h.1.2]

theorem fieldTexts_ne_nil : ∀ (as : List (String × Lit)), ∀ x ∈ fieldTexts as, x ≠ []
  | [], _, hx => by simp [fieldTexts] at hx
  | (k, v) :: as, x, hx => by
    simp only [fieldTexts, List.mem_cons] at hx
    rcases hx with rfl | hx
    · simp
    · exact fieldTexts_ne_nil as x hx

theorem T_dirAppText (d : DirApp) (h : SdlPrintTA.dirAppOK d = true) : T (SdlPrint.dirAppText d) = SdlPrintTA.dirText d := by
  simp only [SdlPrintTA.dirAppOK, Bool.and_eq_true] at h
  have hat : T "@" = [64] := by decide
  have hlp : T "(" = [40] := by decide
  have hrp : T ")" = [41] := by decide
  have hcs : T ", " = [44, 32] := by decide
  simp only [SdlPrint.dirAppText, SdlPrintTA.dirText, Print.printDirective, Print.printArguments, dirOf, nameOf,
    argTexts_eq _ d.args h.2, T_append, T_ite, T_intercalate, T_fieldTexts, hat, hlp, hrp, hcs, T_nil]
  rw [PrintTokens.join_eq_joinSep _ _ (fieldTexts_ne_nil d.args), ← joinSep_eq]
  cases hargs : d.args with
  | nil => simp [fieldTexts, joinSep, Print.wrap]
  | cons a as =>
    have hne : fieldTexts (a :: as) ≠ [] := by cases a; simp [fieldTexts]
    have hj := joinSep_ne_nil [44, 32] (fieldTexts (a :: as)) hne (fieldTexts_ne_nil _)
    have hie : (joinSep [44, 32] (fieldTexts (a :: as))).isEmpty = false := by
      cases hjj : joinSep [44, 32] (fieldTexts (a :: as)) with
      | nil => exact absurd hjj hj
      | cons _ _ => rfl
    simp [Print.wrap, hie]

theorem printDirectives_rel (o : Opts) (apps : Apps) (path : String) (h : SdlPrintTA.appsOKAt (optsA o) apps path = true) :
    Rel (SdlPrint.printDirectives o apps path st0) (SdlPrintTA.printDirectives (optsA o) apps path) := by
  have hsp : T " " = [32] := by decide
  unfold SdlPrint.printDirectives SdlPrintTA.printDirectives SdlPrintTA.nodesAt
  by_cases hc : o.custom = true
  · have hc' : (optsA o).custom = true := hc
    simp only [hc, hc', Bool.not_true, Bool.false_eq_true, if_false, if_true]
    by_cases hn : (SdlPrint.Apps.get apps path).isEmpty = true
    · simp only [hn, if_true]; exact ⟨rfl, rfl⟩
    · simp only [hn, Bool.false_eq_true, if_false, keepCustom_st0]
      refine ⟨rfl, ?_⟩
      simp only [T_append, T_intercalate, hsp, List.map_map]
      have hk : SdlPrintTA.keptAt (optsA o) apps path = (SdlPrint.Apps.get apps path).filter (SdlPrintTA.keepP o.whitelist) := by
        simp only [SdlPrintTA.keptAt, SdlPrintTA.nodesAt, hc', if_true]; rfl
      simp only [SdlPrintTA.appsOKAt, hk, List.all_eq_true] at h
      rw [hk, List.map_congr_left (fun d hd => by simpa using T_dirAppText d (h d hd))]
      rfl
  · have hc' : (optsA o).custom = false := by simpa [optsA] using hc
    have hc2 : o.custom = false := by simpa using hc
    simp only [hc2, hc', Bool.not_false, if_true, Bool.false_eq_true, if_false, List.isEmpty_nil]
    exact ⟨rfl, rfl⟩

/-! ### members -/

theorem printInputValue_rel (s : SchemaD) (o : Opts) (apps : Apps) (path : String) (a : ArgD)
    (h : SdlPrintTA.argAppsOK (optsA o) apps path a = true) :
    Rel (SdlPrint.printInputValue s o apps path a st0) (SdlPrintTA.printInputValue s (optsA o) apps path a) := by
  have hd := printDirectives_rel o apps (path ++ "." ++ a.name) h
  have h1 : T ": " = [58, 32] := by decide
  have h2 : T " = " = [32, 61, 32] := by decide
  unfold Rel
  simp only [SdlPrint.printInputValue]
  refine ⟨hd.1, ?_⟩
  simp only [SdlPrintTA.printInputValue, T_strip, T_append, T_ite, T_render, T_valueText, hd.2, h1, h2]

theorem printArgs_imap (s : SchemaD) (c : SdlPrintTA.OptsA) (apps : Apps) (path : String) (depth : Nat) (multi : Bool) :
    ∀ (i : Nat) (as : List ArgD), SdlPrintTA.printArgs s c apps path depth multi i as =
      imap (fun i a => if multi then printDescription c.base a.desc (depth + 1) (i == 0) ++ c.base.indent ++
          repeatText c.base.indent depth ++ SdlPrintTA.printInputValue s c apps path a
        else SdlPrintTA.printInputValue s c apps path a) i as
  | _, [] => rfl
  | i, a :: as => by simp only [SdlPrintTA.printArgs, imap, printArgs_imap s c apps path depth multi (i + 1) as]

theorem printArg_rel (s : SchemaD) (o : Opts) (apps : Apps) (path : String) (depth : Nat) (multi : Bool) (i : Nat) (a : ArgD)
    (h : SdlPrintTA.argAppsOK (optsA o) apps path a = true) :
    Rel (SdlPrint.printArg s o apps path depth multi i a st0)
      (if multi then printDescription (optsT o) a.desc (depth + 1) (i == 0) ++ T o.indent ++
          repeatText (T o.indent) depth ++ SdlPrintTA.printInputValue s (optsA o) apps path a
        else SdlPrintTA.printInputValue s (optsA o) apps path a) := by
  have hv := printInputValue_rel s o apps path a h
  unfold Rel
  simp only [SdlPrint.printArg]
  refine ⟨hv.1, ?_⟩
  simp only [T_ite, T_append, T_printDescription, T_repeatStr, hv.2]

theorem printArguments_rel (s : SchemaD) (o : Opts) (apps : Apps) (path : String) (args : List ArgD) (depth : Nat)
    (h : args.all (SdlPrintTA.argAppsOK (optsA o) apps path) = true) :
    Rel (SdlPrint.printArguments s o apps path args depth st0) (SdlPrintTA.printArguments s (optsA o) apps path args depth) := by
  rw [List.all_eq_true] at h
  have hm := fun m => mapSt_rel (SdlPrint.printArg s o apps path depth m) _ args 0
    (fun j x hx => printArg_rel s o apps path depth m j x (h x hx))
  have hm1 := fun m => (hm m).1
  have hm2 := fun m => (hm m).2
  have h1 : T "(\n" = [40, 10] := by decide
  have h2 : T "\n" = [10] := by decide
  have h3 : T ")" = [41] := by decide
  have h4 : T "(" = [40] := by decide
  have h5 : T ", " = [44, 32] := by decide
  unfold Rel
  simp only [SdlPrint.printArguments]
  refine ⟨hm1 _, ?_⟩
  simp only [SdlPrintTA.printArguments, T_ite, T_append, T_intercalate, hm2, T_repeatStr, printArgs_imap,
    optsA_base, optsT_indent, h1, h2, h3, h4, h5, T_nil]
  simp only [List.append_assoc, List.cons_append, List.nil_append, List.singleton_append]
  rfl

theorem printFields_imap (s : SchemaD) (c : SdlPrintTA.OptsA) (apps : Apps) (tname : String) :
    ∀ (i : Nat) (fs : List FieldD), SdlPrintTA.printFields s c apps tname i fs = imap (SdlPrintTA.printField s c apps tname) i fs
  | _, [] => rfl
  | i, f :: fs => by simp only [SdlPrintTA.printFields, imap, printFields_imap s c apps tname (i + 1) fs]

theorem printEnumValues_imap (c : SdlPrintTA.OptsA) (apps : Apps) (tname : String) :
    ∀ (i : Nat) (vs : List EnumValD), SdlPrintTA.printEnumValues c apps tname i vs = imap (SdlPrintTA.printEnumValue c apps tname) i vs
  | _, [] => rfl
  | i, v :: vs => by simp only [SdlPrintTA.printEnumValues, imap, printEnumValues_imap c apps tname (i + 1) vs]

theorem printInputFields_imap (s : SchemaD) (c : SdlPrintTA.OptsA) (apps : Apps) (tname : String) :
    ∀ (i : Nat) (fs : List ArgD), SdlPrintTA.printInputFields s c apps tname i fs = imap (SdlPrintTA.printInputField s c apps tname) i fs
  | _, [] => rfl
  | i, f :: fs => by simp only [SdlPrintTA.printInputFields, imap, printInputFields_imap s c apps tname (i + 1) fs]

theorem printField_rel (s : SchemaD) (o : Opts) (apps : Apps) (tname : String) (i : Nat) (f : FieldD)
    (h : SdlPrintTA.fieldAppsOK (optsA o) apps tname f = true) :
    Rel (SdlPrint.printField s o apps tname i f st0) (SdlPrintTA.printField s (optsA o) apps tname i f) := by
  simp only [SdlPrintTA.fieldAppsOK, Bool.and_eq_true] at h
  have ha := printArguments_rel s o apps (tname ++ "." ++ f.name) f.args 1 h.2
  have hd := printDirectives_rel o apps (tname ++ "." ++ f.name) h.1
  have h1 : T ": " = [58, 32] := by decide
  unfold Rel
  simp only [SdlPrint.printField, ha.1]
  refine ⟨hd.1, ?_⟩
  simp only [SdlPrintTA.printField, T_rstrip, T_append, T_printDescription, T_render, T_printDeprecated, ha.2, hd.2, h1]
  rfl

theorem printEnumValue_rel (o : Opts) (apps : Apps) (tname : String) (i : Nat) (v : EnumValD)
    (h : SdlPrintTA.appsOKAt (optsA o) apps (tname ++ "." ++ v.name) = true) :
    Rel (SdlPrint.printEnumValue o apps tname i v st0) (SdlPrintTA.printEnumValue (optsA o) apps tname i v) := by
  have hd := printDirectives_rel o apps (tname ++ "." ++ v.name) h
  unfold Rel
  simp only [SdlPrint.printEnumValue]
  refine ⟨hd.1, ?_⟩
  simp only [SdlPrintTA.printEnumValue, T_rstrip, T_append, T_printDescription, T_printDeprecated, hd.2]
  rfl

theorem printInputField_rel (s : SchemaD) (o : Opts) (apps : Apps) (tname : String) (i : Nat) (f : ArgD)
    (h : SdlPrintTA.argAppsOK (optsA o) apps tname f = true) :
    Rel (SdlPrint.printInputField s o apps tname i f st0) (SdlPrintTA.printInputField s (optsA o) apps tname i f) := by
  have hv := printInputValue_rel s o apps tname f h
  unfold Rel
  simp only [SdlPrint.printInputField]
  refine ⟨hv.1, ?_⟩
  simp only [SdlPrintTA.printInputField, T_append, T_printDescription, hv.2]
  rfl

end PyGql.SdlModels

/-
  The ONLY lexer errors reported beyond the end of the text (ledger L6, position `len + 1`) come from texts that END
  INSIDE AN ESCAPE SEQUENCE of a quoted string: `…\` or `…\u` followed by fewer than four hex digits.
-/
import PyGqlModel.Lemmas.LexRange
import PyGqlModel.Lemmas.LexTiles
namespace PyGql.Lex
open PyGql.Spec.Lexical (IgnRun)

/-- the text ends with a truncated escape sequence: `\` or `\u` + 0..3 hex digits -/
def EndsInEscape (s : Text) : Prop :=
  ∃ pre hs, s = pre ++ 92 :: hs ∧ (hs = [] ∨ ∃ hs', hs = 117 :: hs' ∧ hs'.length < 4 ∧ hs'.all isHex = true)

theorem EndsInEscape.prepend {s : Text} (p : Text) (h : EndsInEscape s) : EndsInEscape (p ++ s) := by
  obtain ⟨pre, hs, rfl, h⟩ := h
  exact ⟨p ++ pre, hs, by simp, h⟩

theorem EndsInEscape.cons {s : Text} (c : Nat) (h : EndsInEscape s) : EndsInEscape (c :: s) :=
  EndsInEscape.prepend [c] h

/-- in range, or the text ends inside an escape -/
def InOrEsc (n : Nat) (s : Text) (e : SynErr) : Prop := e.pos ≤ n ∨ EndsInEscape s

theorem InOrEsc.cons {n : Nat} {s : Text} {e : SynErr} (c : Nat) (h : InOrEsc n s e) : InOrEsc n (c :: s) e :=
  h.imp id (EndsInEscape.cons c)

theorem InOrEsc.prepend {n : Nat} {s : Text} {e : SynErr} (p : Text) (h : InOrEsc n s e) : InOrEsc n (p ++ s) e :=
  h.imp id (EndsInEscape.prepend p)

theorem short_of_no_four (t1 : Text) (h : ∀ a b c d t2, t1 = a :: b :: c :: d :: t2 → False) : t1.length < 4 := by
  match t1 with
  | [] | [_] | [_, _] | [_, _, _] => simp
  | a :: b :: c :: d :: t2 => exact (h a b c d t2 rfl).elim

theorem shortUnicodeErr_esc (n : Nat) (t1 : Text) (hl : t1.length < 4) :
    InOrEsc n (92 :: 117 :: t1) (shortUnicodeErr n t1) := by
  unfold shortUnicodeErr
  split
  · rename_i hh
    exact .inr ⟨[], 117 :: t1, rfl, .inr ⟨t1, rfl, hl, hh⟩⟩
  · exact .inl (Nat.le_trans (Nat.sub_le _ _) (Nat.sub_le _ _))

theorem readStringBody_esc (n : Nat) (s : Text) : ∀ e, readStringBody n s = .error e → InOrEsc n s e := by
  fun_induction readStringBody n s <;> intro e h
  all_goals first
    | (cases h; done)
    | (cases h; exact .inl (Nat.le_refl _))
    | (cases h; exact .inl (Nat.le_trans (Nat.sub_le _ _) (Nat.sub_le _ _)))
    | (cases h; exact .inr ⟨[], [], rfl, .inl rfl⟩)
    | (cases h; exact shortUnicodeErr_esc n _ (short_of_no_four _ (by assumption)))
    | (cases h; (repeat apply InOrEsc.cons); apply_assumption; assumption)

/-! ### every reader other than `_read_string` reports INSIDE the text (mechanical copies of `LexRange` with the strict bound) -/

def SBounded {α} (n : Nat) (r : R α) : Prop := ∀ e, r = .error e → e.pos ≤ n

theorem sb_ok {α} (n : Nat) (a : α) : SBounded n (.ok a : R α) := by
  intro e h; cases h
theorem sb_error {α} (n : Nat) (e : SynErr) (h : e.pos ≤ n) : SBounded n (.error e : R α) := by
  intro e' h'; cases h'; exact h
theorem sb_map {α β} (n : Nat) (r : R α) (f : α → β) (h : SBounded n r) : SBounded n (r.map f) := by
  intro e he
  cases r with
  | ok a => cases he
  | error e' => cases he; exact h _ rfl
theorem sb_bind {α β} (n : Nat) (r : R α) (f : α → R β) (h : SBounded n r) (hf : ∀ a, SBounded n (f a)) :
    SBounded n (r >>= f) := by
  intro e he
  cases r with
  | ok a => exact hf a e he
  | error e' => cases he; exact h _ rfl

theorem readDots_strict (n k : Nat) (s : Text) : SBounded n (readDots n k s) := by
  induction k generalizing s with
  | zero => exact sb_ok _ _
  | succ k ih =>
    cases s with
    | nil => exact sb_error _ _ (Nat.le_refl _)
    | cons c t =>
      simp only [readDots]
      split
      · exact ih t
      · exact sb_error _ _ (Nat.sub_le _ _)

theorem readEllipsis_strict (n : Nat) (s : Text) : SBounded n (readEllipsis n s) := by
  intro e he
  unfold readEllipsis at he
  split at he
  · rename_i e' h'; cases he; exact readDots_strict n 3 s _ h'
  · cases he


theorem readBlockBody_strict (n k : Nat) (s : Text) : SBounded n (readBlockBody n k s) := by
  fun_induction readBlockBody n k s <;>
    first
      | exact sb_ok _ _
      | exact sb_error _ _ (Nat.le_refl _)
      | exact sb_error _ _ (Nat.le_trans (Nat.sub_le _ _) (Nat.sub_le _ _))
      | (rename_i ih; exact ih)
      | (rename_i e hrec ih; exact sb_error _ _ (ih _ hrec))

theorem readBlockString_strict (n : Nat) (s : Text) : SBounded n (readBlockString n s) := by
  intro e he
  unfold readBlockString at he
  split at he
  · rename_i e' h'; cases he; exact readBlockBody_strict n 0 _ _ h'
  · cases he

theorem readOverDigits_strict (n : Nat) (s : Text) : SBounded n (readOverDigits n s) := by
  unfold readOverDigits
  split
  · exact sb_error _ _ (Nat.le_refl _)
  · split
    · exact sb_ok _ _
    · exact sb_error _ _ (Nat.sub_le _ _)

theorem readOverInteger_strict (n : Nat) (s : Text) : SBounded n (readOverInteger n s) := by
  unfold readOverInteger
  split
  · exact sb_error _ _ (Nat.le_refl _)
  · split
    · split
      · exact sb_ok _ _
      · split
        · exact sb_error _ _ (Nat.sub_le _ _)
        · exact sb_ok _ _
    · exact readOverDigits_strict _ _

theorem readFraction_strict (n : Nat) (s : Text) : SBounded n (readFraction n s) := by
  unfold readFraction
  split
  · split
    · exact sb_map _ _ _ (readOverDigits_strict _ _)
    · exact sb_ok _ _
  · exact sb_ok _ _

theorem readExponent_strict (n : Nat) (s : Text) : SBounded n (readExponent n s) := by
  unfold readExponent
  split
  · split
    · exact sb_map _ _ _ (readOverDigits_strict _ _)
    · exact sb_ok _ _
  · exact sb_ok _ _

theorem numberLookahead_strict (n : Nat) (s : Text) : SBounded n (numberLookahead n s) := by
  unfold numberLookahead
  split
  · split
    · exact sb_error _ _ (Nat.sub_le _ _)
    · exact sb_ok _ _
  · exact sb_ok _ _

theorem readNumber_strict (n : Nat) (s : Text) : SBounded n (readNumber n s) := by
  unfold readNumber
  refine sb_bind _ _ _ (readOverInteger_strict _ _) (fun s2 => ?_)
  refine sb_bind _ _ _ (readFraction_strict _ _) (fun p1 => ?_)
  refine sb_bind _ _ _ (readExponent_strict _ _) (fun p2 => ?_)
  refine sb_bind _ _ _ (numberLookahead_strict _ _) (fun _ => ?_)
  exact sb_ok _ _

theorem readString_esc (n : Nat) (s : Text) (e : SynErr) (h : readString n s = .error e) : InOrEsc n s e := by
  unfold readString at h
  split at h
  · rename_i e' h'
    cases h
    have := readStringBody_esc n _ _ h'
    have hs : s = s.take 1 ++ s.drop 1 := (List.take_append_drop 1 s).symm
    rw [hs]; exact this.prepend _
  · cases h

theorem map_error {α β} {r : R α} {f : α → β} {e : SynErr} (h : r.map f = .error e) : r = .error e := by
  cases r with
  | ok a => cases h
  | error e' => cases h; rfl

/-- one call of `__next__`: an error beyond the end of the text only when the text ends inside an escape -/
theorem next_esc (n : Nat) (s : Text) (e : SynErr) (h : next n s = .error e) : InOrEsc n s e := by
  obtain ⟨ign, hs, _, _⟩ := readOverWhitespace_sound false s
  unfold next at h
  split at h
  · cases h
  · rename_i c t hw
    rw [hw] at hs
    simp only at h
    split at h
    · cases h; exact .inl (Nat.sub_le _ _)
    · split at h
      · cases h
      · split at h
        · exact .inl (readEllipsis_strict n _ _ (map_error h))
        · split at h
          · exact .inl (readBlockString_strict n _ _ (map_error h))
          · split at h
            · rw [hs]; exact (readString_esc n _ _ (map_error h)).prepend _
            · split at h
              · exact .inl (readNumber_strict n _ _ (map_error h))
              · split at h
                · cases h
                · cases h; exact .inl (Nat.sub_le _ _)

theorem lexLoop_esc (n : Nat) : ∀ (fuel : Nat) (s : Text) (e : SynErr), lexLoop n fuel s = .error e → e.kind ≠ .fuel →
    InOrEsc n s e
  | 0, s, e, h, hk => by simp only [lexLoop] at h; cases h; exact absurd rfl hk
  | fuel + 1, s, e, h, hk => by
    simp only [lexLoop] at h
    split at h
    · rename_i e' h'; cases h; exact next_esc n s _ h'
    · cases h
    · rename_i tok rest hn
      split at h
      · cases h
      · rename_i e' h'
        cases h
        obtain ⟨ign, lex, hs, _⟩ := next_sound n s rest tok hn
        have := lexLoop_esc n fuel rest _ h' hk
        rw [hs, ← List.append_assoc]; exact this.prepend _

end PyGql.Lex

/-
  Lemmas relating the model `BlockString.parseBlockString` to the specification `Spec.BlockStringValue`.
-/
import PyGqlModel.BlockString
import PyGqlModel.Spec.BlockStringSpec

namespace PyGql.BlockString
open PyGql.Spec

/-! ### splitting -/

theorem splitLinesAux_ne_nil (b : Bool) (s : Text) : splitLinesAux b s ≠ [] := by
  induction s generalizing b with
  | nil => simp [splitLinesAux]
  | cons c t ih =>
    unfold splitLinesAux
    split
    · split
      · exact ih false
      · simp
    · split
      · simp
      · split <;> simp

theorem splitLinesAux_true_nil : splitLinesAux true [] = splitLinesAux false [] := by
  simp [splitLinesAux]

theorem splitLinesAux_true_lf (t : Text) : splitLinesAux true (10 :: t) = splitLinesAux false t := by
  simp [splitLinesAux]

theorem splitLinesAux_true_other (c : Nat) (t : Text) (h : c ≠ 10) :
    splitLinesAux true (c :: t) = splitLinesAux false (c :: t) := by
  simp [splitLinesAux, h]

/-- put `p` in front of the first line -/
def prependLine (p : Text) : List Text → List Text
  | l :: ls => (p ++ l) :: ls
  | [] => [p]

theorem prependLine_nil (x : List Text) (h : x ≠ []) : prependLine [] x = x := by
  cases x with
  | nil => exact absurd rfl h
  | cons l ls => simp [prependLine]

theorem split_spec_aux (cur s : Text) :
    splitByLineTerminator cur s = prependLine cur.reverse (splitLinesAux false s) := by
  fun_induction splitByLineTerminator cur s with
  | case1 cur => simp [splitLinesAux, prependLine]
  | case2 cur c h =>
    rcases h with h | h <;> subst h <;> simp [splitLinesAux, prependLine]
  | case3 cur c h =>
    have h1 : c ≠ 10 := fun e => h (Or.inl e)
    have h2 : c ≠ 13 := fun e => h (Or.inr e)
    simp [splitLinesAux, prependLine, h1, h2]
  | case4 cur c d t h ih =>
    obtain ⟨hc, hd⟩ := h
    subst hc; subst hd
    rw [ih, List.reverse_nil]
    have : splitLinesAux false (13 :: 10 :: t) = [] :: splitLinesAux false t := by
      simp [splitLinesAux]
    rw [this, prependLine_nil _ (splitLinesAux_ne_nil _ _)]
    simp [prependLine]
  | case5 cur c d t h1 h2 ih =>
    rw [ih, List.reverse_nil, prependLine_nil _ (splitLinesAux_ne_nil _ _)]
    rcases h2 with h2 | h2
    · subst h2
      simp [splitLinesAux, prependLine]
    · subst h2
      have hd : d ≠ 10 := fun e => h1 ⟨rfl, e⟩
      have : splitLinesAux false (13 :: d :: t) = [] :: splitLinesAux true (d :: t) := by
        simp [splitLinesAux]
      rw [this, splitLinesAux_true_other d t hd]
      simp [prependLine]
  | case6 cur c d t h1 h2 ih =>
    have hc1 : c ≠ 10 := fun e => h2 (Or.inl e)
    have hc2 : c ≠ 13 := fun e => h2 (Or.inr e)
    rw [ih]
    conv => rhs; rw [splitLinesAux]
    simp only [hc1, hc2, ↓reduceIte]
    split
    · rename_i l ls hs; rw [hs]; simp [prependLine]
    · rename_i hs; exact absurd hs (splitLinesAux_ne_nil _ _)

theorem split_spec (raw : Text) : splitLines raw = splitByLineTerminator [] raw := by
  rw [split_spec_aux, splitLines]
  exact (prependLine_nil _ (splitLinesAux_ne_nil _ _)).symm

/-! ### indentation -/

theorem isBlankChar_eq (c : Nat) : isBlankChar c = isWhiteSpace c := by
  simp [isBlankChar, isWhiteSpace, Bool.or_comm]

theorem isBlankChar_fun : isBlankChar = isWhiteSpace := funext isBlankChar_eq

theorem length_take_drop_while (p : Nat → Bool) (l : Text) :
    (l.takeWhile p).length + (l.dropWhile p).length = l.length := by
  rw [← List.length_append, List.takeWhile_append_dropWhile]

theorem lstrip_length (l : Text) : (lstrip l).length = l.length - indentOf l := by
  have := length_take_drop_while isWhiteSpace l
  simp only [lstrip, indentOf, isBlankChar_fun]; omega

theorem indentOf_le (l : Text) : indentOf l ≤ l.length := by
  have := length_take_drop_while isWhiteSpace l
  simp only [indentOf]; omega

/-- combining the running minimum (`none` = `sys.maxsize`) with an optional candidate -/
def optMin : Option Nat → Option Nat → Option Nat
  | none, x => x
  | some a, none => some a
  | some a, some b => some (min a b)

theorem indentStep_eq (acc : Option Nat) (l : Text) :
    indentStep acc l = if indentOf l < l.length then optMin acc (some (indentOf l)) else acc := by
  have h1 := lstrip_length l
  have h2 := indentOf_le l
  unfold indentStep
  by_cases h : indentOf l < l.length
  · have : (lstrip l).length ≠ 0 := by omega
    have e : l.length - (lstrip l).length = indentOf l := by omega
    simp only [this, ne_eq, not_false_eq_true, ↓reduceIte, h, e]
    cases acc <;> simp [optMin]
  · have : (lstrip l).length = 0 := by omega
    simp [this, h]

theorem optMin_assoc (a : Option Nat) (b : Nat) (c : Option Nat) :
    optMin (optMin a (some b)) c = optMin a (optMin (some b) c) := by
  cases a <;> cases c <;> simp [optMin, Nat.min_assoc]

theorem min?_cons_optMin (a : Nat) (r : List Nat) : (a :: r).min? = optMin (some a) r.min? := by
  rw [List.min?_cons]
  cases r.min? <;> simp [optMin]

theorem foldl_indentStep (acc : Option Nat) (ls : List Text) :
    ls.foldl indentStep acc =
      optMin acc (((ls.filter (fun l => indentOf l < l.length)).map indentOf).min?) := by
  induction ls generalizing acc with
  | nil => cases acc <;> simp [optMin]
  | cons l ls ih =>
    rw [List.foldl_cons, ih, indentStep_eq]
    by_cases h : indentOf l < l.length
    · simp only [h, ↓reduceIte, List.filter_cons, decide_true, List.map_cons]
      rw [min?_cons_optMin, optMin_assoc]
    · simp [h]

theorem commonIndent_spec (lines : List Text) : commonIndent lines = Spec.commonIndent lines := by
  simp [commonIndent, Spec.commonIndent, foldl_indentStep, optMin]

/-! ### blank lines and joining -/

theorem lstrip_isEmpty (l : Text) : (lstrip l).isEmpty = onlyWhiteSpace l := by
  simp only [lstrip, onlyWhiteSpace, isBlankChar_fun]
  induction l with
  | nil => simp
  | cons c t ih =>
    rw [List.dropWhile_cons]
    by_cases h : isWhiteSpace c = true
    · simp [h, ih]
    · simp [h]

theorem popLeading_spec (ls : List Text) : popLeading ls = ls.dropWhile onlyWhiteSpace := by
  induction ls with
  | nil => simp [popLeading]
  | cons l ls ih => simp [popLeading, List.dropWhile_cons, lstrip_isEmpty, ih]

theorem popTrailing_spec (ls : List Text) :
    popTrailing ls = (ls.reverse.dropWhile onlyWhiteSpace).reverse := by
  induction ls with
  | nil => simp [popTrailing]
  | cons l ls ih =>
    rw [popTrailing, ih, List.reverse_cons, List.dropWhile_append]
    cases h : List.dropWhile onlyWhiteSpace ls.reverse with
    | nil => simp [lstrip_isEmpty, List.dropWhile_cons]; split <;> simp_all
    | cons x xs => simp

theorem joinLF_eq (l : Text) (ls : List Text) :
    joinLF (l :: ls) = l ++ ls.flatMap (fun x => 10 :: x) := by
  induction ls generalizing l with
  | nil => simp [joinLF]
  | cons x xs ih =>
    have : joinLF (l :: x :: xs) = l ++ 10 :: joinLF (x :: xs) := by rw [joinLF]; simp
    rw [this, ih]; simp

theorem formatted_eq (l : Text) (ls : List Text) :
    formatted (l :: ls) = l ++ ls.flatMap (fun x => 10 :: x) := by
  simp only [formatted]
  induction ls generalizing l with
  | nil => simp
  | cons x xs ih => rw [List.foldl_cons, ih]; simp

theorem joinLF_spec (ls : List Text) : joinLF ls = formatted ls := by
  cases ls with
  | nil => simp [joinLF, formatted]
  | cons l ls => rw [joinLF_eq, formatted_eq]

end PyGql.BlockString

/-
  `OverlappingFieldsCanBeMergedChecker`, soundness half, part 6: the walk of the rule run alone on a document
  without fragment spreads. A run that ends without a crash and without an error found, at every selection set, no
  two different conflicting fields - hence the clause `Spec.overlappingFieldsCanBeMerged`.
-/
import PyGqlModel.Lemmas.ValidateOverlapSoundSF3
namespace PyGql.Validate
open PyGql PyGql.Validate.Spec

private theorem enter_ov' (s : SchemaD) (fx : Fixes) (n : Node) (st : St) :
    enter ⟨s, fx, [.overlappingFieldsCanBeMerged]⟩ n st =
      ({ ti := tiEnter s n st.ti, rs := (enterRule s fx .overlappingFieldsCanBeMerged n (tiEnter s n st.ti) st.rs).1 },
       (enterRule s fx .overlappingFieldsCanBeMerged n (tiEnter s n st.ti) st.rs).2) := by
  simp only [enter, enterRules]
  generalize enterRule s fx .overlappingFieldsCanBeMerged n (tiEnter s n st.ti) st.rs = p
  obtain ⟨a, b⟩ := p
  cases b <;> simp

private theorem leave_ov' (s : SchemaD) (fx : Fixes) (n : Node) (st : St) :
    leave ⟨s, fx, [.overlappingFieldsCanBeMerged]⟩ n st = { ti := tiLeave n st.ti, rs := st.rs } := by
  simp only [leave, List.reverse_cons, List.reverse_nil, List.nil_append, List.foldl_cons, List.foldl_nil]
  congr 1

/-- the exception flag of the rule state after a selection set: set when the search crashed, else unchanged -/
theorem ov_enter_sel_crash (s : SchemaD) (fx : Fixes) (i : Nat) (sels : List Sel) (ti : TI) (rs : RS) :
    ((enterRule s fx .overlappingFieldsCanBeMerged (.selectionSet i sels) ti rs).1.crash = none →
      (withinSelectionSet s fx ti.parentType i sels rs.octx).2.crash = none ∧ rs.crash = none) ∧
    ((withinSelectionSet s fx ti.parentType i sels rs.octx).2.crash.isSome = true →
      (enterRule s fx .overlappingFieldsCanBeMerged (.selectionSet i sels) ti rs).1.crash.isSome = true) := by
  simp only [enterRule]
  cases hcr : (withinSelectionSet s fx ti.parentType i sels rs.octx).2.crash with
  | none => simp [RS.errN]
  | some e => simp [RS.errN]

/-- sane search context; a crash of the search is recorded in the rule state -/
def OInv (s : SchemaD) (d : Doc) (st : St) : Prop :=
  CI s d st.rs.octx ∧ (st.rs.octx.crash.isSome = true → st.rs.crash.isSome = true)

def WGoodAt (s : SchemaD) (d : Doc) (q : Node × View) : Prop :=
  match q.1 with
  | .selectionSet _ sels => WGood s d q.2.parent sels
  | _ => True

def OS (s : SchemaD) (d : Doc) (l : List (Node × View)) (st st' : St) : Prop :=
  st'.ti = st.ti ∧
  ((∀ p ∈ l, p ∈ typedNodes s d) → OInv s d st →
    OInv s d st' ∧ E st ≤ E st' ∧
    (st'.rs.crash = none → st.rs.crash = none ∧ (E st' = E st → ∀ q ∈ l, WGoodAt s d q)))

theorem os_alg (s : SchemaD) (fx : Fixes) (d : Doc) (h7 : fx.v7 = true) (hns : NoSpreads d) (hpa : ParentsAgree s d) :
    TAlg ⟨s, fx, [.overlappingFieldsCanBeMerged]⟩ (OS s d) where
  ti h := h.1
  nil st := ⟨rfl, fun _ hi => ⟨hi, Nat.le_refl _, fun h => ⟨h, fun _ _ hq => nomatch hq⟩⟩⟩
  append {a b s1 s2 s3} h1 h2 := ⟨h2.1.trans h1.1, fun hm hi => by
    obtain ⟨i2, m2, k2⟩ := h1.2 (fun p hp => hm p (List.mem_append_left _ hp)) hi
    obtain ⟨i3, m3, k3⟩ := h2.2 (fun p hp => hm p (List.mem_append_right _ hp)) i2
    refine ⟨i3, Nat.le_trans m2 m3, fun hcr => ?_⟩
    obtain ⟨c2, g3⟩ := k3 hcr
    obtain ⟨c1, g2⟩ := k2 c2
    refine ⟨c1, fun he q hq => ?_⟩
    rcases List.mem_append.mp hq with hq | hq
    · exact g2 (by omega) q hq
    · exact g3 (by omega) q hq⟩
  node n body l st hn hd hb := by
    have hsk : (enter ⟨s, fx, [.overlappingFieldsCanBeMerged]⟩ n st).2 = false := by rw [enter_ov']; exact ov_noskip ..
    rw [visitNode_false hsk, leave_ov']
    have hti : (enter ⟨s, fx, [.overlappingFieldsCanBeMerged]⟩ n st).1.ti = tiEnter s n st.ti := by rw [enter_ov']
    obtain ⟨b1, b2⟩ := hb _ hti
    refine ⟨?_, fun hm hi => ?_⟩
    · show tiLeave n (body _).ti = st.ti
      rw [b1, hti, tiLeave_tiEnter _ _ _ hd]
    · have hmem : (n, View.enter s n st.ti.view) ∈ typedNodes s d := hm _ (List.mem_cons_self ..)
      -- what entering the node does
      have hst1 : OInv s d (enter ⟨s, fx, [.overlappingFieldsCanBeMerged]⟩ n st).1 ∧
          E st ≤ E (enter ⟨s, fx, [.overlappingFieldsCanBeMerged]⟩ n st).1 ∧
          ((enter ⟨s, fx, [.overlappingFieldsCanBeMerged]⟩ n st).1.rs.crash = none → st.rs.crash = none ∧
            (E (enter ⟨s, fx, [.overlappingFieldsCanBeMerged]⟩ n st).1 = E st →
              WGoodAt s d (n, View.enter s n st.ti.view))) := by
        rw [enter_ov']
        simp only [E]
        by_cases hs : n.isSelSet = true
        · cases n with
          | selectionSet i sels =>
            obtain ⟨k1, k2⟩ := ov_enter_sel s fx i sels (tiEnter s (.selectionSet i sels) st.ti) st.rs
            obtain ⟨k3, k4⟩ := ov_enter_sel_crash s fx i sels (tiEnter s (.selectionSet i sels) st.ti) st.rs
            have hpar : (tiEnter s (.selectionSet i sels) st.ti).parentType =
                (View.enter s (.selectionSet i sels) st.ti.view).parent := by rw [← view_enter]; rfl
            have hadm : Adm s d i (tiEnter s (.selectionSet i sels) st.ti).parentType := by
              rw [hpar]; exact Adm.walk hmem
            have hsel := selSet_of_typed hmem
            obtain ⟨w1, _⟩ := within_sound s fx d h7 _ i sels st.rs.octx hi.1 hsel hadm
            refine ⟨⟨by rw [k1]; exact w1, by rw [k1]; exact k4⟩, by rw [k2]; omega, fun hcr => ?_⟩
            obtain ⟨c1, c2⟩ := k3 hcr
            refine ⟨c2, fun he => ?_⟩
            obtain ⟨_, g⟩ := within_complete_sf s fx d h7 hns hpa _ i sels st.rs.octx hi.1 hsel hadm c1
            have := g (by rw [k2] at he; omega)
            simp only [WGoodAt]
            rw [← hpar]; exact this
          | _ => cases hs
        · rw [ov_enter_other s fx n _ _ hn (by simpa using hs)]
          refine ⟨hi, Nat.le_refl _, fun h => ⟨h, fun _ => ?_⟩⟩
          cases n <;> first | trivial | (simp at hs)
      obtain ⟨i1, m1, k1⟩ := hst1
      obtain ⟨i2, m2, k2⟩ := b2 (fun p hp => hm p (List.mem_cons_of_mem _ hp)) i1
      refine ⟨i2, Nat.le_trans m1 m2, fun hcr => ?_⟩
      obtain ⟨c1, g2⟩ := k2 hcr
      obtain ⟨c0, g1⟩ := k1 c1
      refine ⟨c0, fun he q hq => ?_⟩
      have he' : E (body (enter ⟨s, fx, [.overlappingFieldsCanBeMerged]⟩ n st).1) = E st := he
      rcases List.mem_cons.mp hq with rfl | hq
      · exact g1 (by omega)
      · exact g2 (by omega) q hq

/-- **soundness on documents without fragment spreads**: a run of the rule alone that ends without an error and
    without a crash establishes the clause -/
theorem ov_document_sound_sf (s : SchemaD) (fx : Fixes) (d : Doc) (h7 : fx.v7 = true) (hns : NoSpreads d)
    (hpa : ParentsAgree s d)
    (hE : E (visitDocument ⟨s, fx, [.overlappingFieldsCanBeMerged]⟩ d {}) = 0)
    (hC : (visitDocument ⟨s, fx, [.overlappingFieldsCanBeMerged]⟩ d {}).rs.crash = none) :
    Spec.overlappingFieldsCanBeMerged s d := by
  have he : enter ⟨s, fx, [.overlappingFieldsCanBeMerged]⟩ (.document d) {} =
      (({ ti := {}, rs := { ({} : RS) with octx := { ({} : OCtx) with frags := fragTable d } } } : St), false) := by
    rw [enter_ov']; simp [enterRule, tiEnter, fragTable]
  rw [visitDocument] at hE hC
  unfold visitNode at hE hC
  rw [he] at hE hC
  simp only [Bool.false_eq_true, ↓reduceIte, leave_ov'] at hE hC
  have hw := visitDefsR (os_alg s fx d h7 hns hpa) d.defs
    ({ ti := {}, rs := { ({} : RS) with octx := { ({} : OCtx) with frags := fragTable d } } } : St) rfl
  obtain ⟨_, _, k⟩ := hw.2 (fun p hp => hp) ⟨⟨rfl, fun _ h => nomatch h⟩, fun h => by cases h⟩
  obtain ⟨_, g⟩ := k hC
  have hall := g (by simp only [E] at hE ⊢; rw [hE]; rfl)
  apply clause_of_wgood hns hpa
  intro i sels hs p ha
  have hmem : Node.selectionSet i sels ∈ (typedNodes s d).map (·.1) := by
    rw [typedNodes_fst]
    simp only [SelSet, nodes, List.mem_cons, reduceCtorEq, false_or] at hs
    exact hs
  obtain ⟨q, hq, hq1⟩ := List.mem_map.mp hmem
  obtain ⟨n, v⟩ := q
  simp only at hq1; subst hq1
  have := hall _ hq
  simp only [WGoodAt] at this
  rw [hpa _ _ _ ha (Adm.walk hq)]
  exact this

end PyGql.Validate

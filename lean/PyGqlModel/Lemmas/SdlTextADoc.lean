/-
  C12 text level, applied schema directives — the whole printed text: well-formedness of the denoted trees, the text as
  the join of its parts, and the assembly `parse (printSchemaTA c s apps) = docToAst (schemaToDocA s c apps)`.
-/
import PyGqlModel.Lemmas.SdlTextADefs
namespace PyGql.SdlText
open PyGql PyGql.Ast PyGql.Sdl PyGql.Spec PyGql.PrintLex PyGql.PrintTokens PyGql.PrintMatch PyGql.PrintString PyGql.SdlPrint PyGql.Parse PyGql.Lex

/-! ### well-formedness of the trees -/

theorem wfDirectives_dirOf (ds : List DirApp) (h : ds.all SdlPrintTA.dirAppOK = true) : wfDirectives true (ds.map dirOf) = true := by
  simp only [wfDirectives, List.all_eq_true, List.mem_map]
  rintro _ ⟨d, hd, rfl⟩
  have := List.all_eq_true.1 h d hd
  simp only [SdlPrintTA.dirAppOK, Bool.and_eq_true, List.all_eq_true] at this
  simp only [wfDirective, dirOf, List.all_eq_true, List.mem_map]
  rintro _ ⟨a, ha, rfl⟩
  exact wfValue_valueOf a.2 (this.2 a ha).2

theorem wfDirectives_append (a b : List Directive) : wfDirectives true (a ++ b) = (wfDirectives true a && wfDirectives true b) := by
  simp [wfDirectives, List.all_append]

theorem wfInputValue_argA (s : SchemaD) (c : SdlPrintTA.OptsA) (apps : Apps) (path : String) (w : Nat) (a : ArgD)
    (h : argOKT s w a = true) (hk : SdlPrintTA.argAppsOK c apps path a = true) :
    wfInputValue (inputValOf (SdlPrintTA.argToDefA s c apps path a)) = true := by
  have h0 := wfInputValue_arg s w a h
  simp only [wfInputValue, inputValOf, Bool.and_eq_true] at h0 ⊢
  exact ⟨⟨h0.1.1, h0.1.2⟩, wfDirectives_dirOf _ hk⟩

theorem wfFieldDefinition_fieldA (s : SchemaD) (c : SdlPrintTA.OptsA) (apps : Apps) (tname : String) (w : Nat) (f : FieldD)
    (h : fieldOKT s w f = true) (hk : SdlPrintTA.fieldAppsOK c apps tname f = true) :
    wfFieldDefinition (fieldOf (SdlPrintTA.fieldToDefA s c apps tname f)) = true := by
  simp only [fieldOKT, Bool.and_eq_true, List.all_eq_true] at h
  simp only [SdlPrintTA.fieldAppsOK, Bool.and_eq_true, List.all_eq_true] at hk
  obtain ⟨⟨⟨_, ht⟩, _⟩, ha⟩ := h
  simp only [wfFieldDefinition, fieldOf, SdlPrintTA.fieldToDefA, Bool.and_eq_true, List.all_eq_true]
  refine ⟨⟨?_, wfType_typeOf f.type ht⟩, ?_⟩
  · intro x hx
    simp only [List.map_map, List.mem_map, Function.comp_apply] at hx
    obtain ⟨a, ha', rfl⟩ := hx
    exact wfInputValue_argA s c apps _ _ a (ha a ha') (hk.2 a ha')
  · rw [List.map_append, wfDirectives_append, wfDirectives_depr, wfDirectives_dirOf _ hk.1]; rfl

theorem wfEnumValue_valA (c : SdlPrintTA.OptsA) (apps : Apps) (tname : String) (w : Nat) (v : EnumValD) (h : enumValOKT w v = true)
    (hk : SdlPrintTA.appsOKAt c apps (tname ++ "." ++ v.name) = true) :
    wfEnumValueDefinition (enumValOf (SdlPrintTA.enumValToDefA c apps tname v)) = true := by
  simp only [enumValOKT, Bool.and_eq_true] at h
  simp only [wfEnumValueDefinition, enumValOf, SdlPrintTA.enumValToDefA, nameOf, Bool.and_eq_true]
  refine ⟨h.1.2, ?_⟩
  rw [List.map_append, wfDirectives_append, wfDirectives_depr, wfDirectives_dirOf _ hk]; rfl

theorem wfDefinition_typeA (fl : Flags) (s : SchemaD) (c : SdlPrintTA.OptsA) (apps : Apps) (w : Nat) (t : TypeD)
    (h : typeOKT s w t = true) (hk : SdlPrintTA.typeAppsOK c apps t = true) :
    wfDefinition fl (defTree (.type (SdlPrintTA.typeToDefA s c apps t))) = true := by
  simp only [typeOKT, Bool.and_eq_true] at h
  obtain ⟨_, hkind⟩ := h
  simp only [SdlPrintTA.typeAppsOK, Bool.and_eq_true, List.all_eq_true] at hk
  obtain ⟨⟨⟨hkt, hkf⟩, hkv⟩, hki⟩ := hk
  have hd := wfDirectives_dirOf _ hkt
  have hfields : ∀ (fs : List FieldD), (∀ f ∈ fs, fieldOKT s w f = true) → (∀ f ∈ fs, SdlPrintTA.fieldAppsOK c apps t.name f = true) →
      ∀ x ∈ (fs.map (SdlPrintTA.fieldToDefA s c apps t.name)).map fieldOf, wfFieldDefinition x = true := by
    intro fs hfs hfk x hx
    simp only [List.map_map, List.mem_map, Function.comp_apply] at hx
    obtain ⟨f, hf, rfl⟩ := hx
    exact wfFieldDefinition_fieldA s c apps t.name w f (hfs f hf) (hfk f hf)
  cases hk' : t.kind with
  | scalar => simpa [defTree, typeDefOf, SdlPrintTA.typeToDefA, hk', wfDefinition] using hd
  | union => simpa [defTree, typeDefOf, SdlPrintTA.typeToDefA, hk', wfDefinition] using hd
  | object =>
    rw [hk'] at hkind
    simp only [Bool.and_eq_true, List.all_eq_true] at hkind
    simp only [defTree, typeDefOf, SdlPrintTA.typeToDefA, hk', wfDefinition, hd, Bool.true_and, List.all_eq_true]
    exact hfields t.fields hkind.1.2 hkf
  | interface =>
    rw [hk'] at hkind
    simp only [Bool.and_eq_true, List.all_eq_true] at hkind
    simp only [defTree, typeDefOf, SdlPrintTA.typeToDefA, hk', wfDefinition, hd, Bool.true_and, List.all_eq_true]
    exact hfields t.fields hkind.2 hkf
  | enum =>
    rw [hk'] at hkind
    simp only [Bool.and_eq_true, List.all_eq_true] at hkind
    simp only [defTree, typeDefOf, SdlPrintTA.typeToDefA, hk', wfDefinition, hd, Bool.true_and, List.all_eq_true]
    intro x hx
    simp only [List.map_map, List.mem_map, Function.comp_apply] at hx
    obtain ⟨f, hf, rfl⟩ := hx
    exact wfEnumValue_valA c apps t.name w f (hkind.2 f hf) (hkv f hf)
  | input =>
    rw [hk'] at hkind
    simp only [Bool.and_eq_true, List.all_eq_true] at hkind
    simp only [defTree, typeDefOf, SdlPrintTA.typeToDefA, hk', wfDefinition, hd, Bool.true_and, List.all_eq_true]
    intro x hx
    simp only [List.map_map, List.mem_map, Function.comp_apply] at hx
    obtain ⟨f, hf, rfl⟩ := hx
    exact wfInputValue_argA s c apps t.name w f (hkind.2 f hf) (hki f hf)

theorem wfDefinition_directiveA (fl : Flags) (s : SchemaD) (c : SdlPrintTA.OptsA) (apps : Apps) (w : Nat) (d : DirectiveD)
    (h : directiveOKT s w d = true) (hk : SdlPrintTA.directiveAppsOK c apps d = true) :
    wfDefinition fl (defTree (.directive (SdlPrintTA.directiveToDefA s c apps d))) = true := by
  simp only [directiveOKT, Bool.and_eq_true, List.all_eq_true, Bool.not_eq_true', List.isEmpty_eq_false_iff] at h
  simp only [SdlPrintTA.directiveAppsOK, List.all_eq_true] at hk
  obtain ⟨⟨⟨_, ha⟩, hne⟩, hl⟩ := h
  simp only [defTree, SdlPrintTA.directiveToDefA, wfDefinition, Bool.and_eq_true, List.all_eq_true, Bool.not_eq_true',
    List.isEmpty_eq_false_iff, decide_eq_true_eq]
  refine ⟨⟨?_, by simpa using hne⟩, ?_⟩
  · intro x hx
    simp only [List.map_map, List.mem_map, Function.comp_apply] at hx
    obtain ⟨a, ha', rfl⟩ := hx
    exact wfInputValue_argA s c apps _ w a (ha a ha') (hk a ha')
  · intro x hx
    simp only [List.mem_map] at hx
    obtain ⟨n, hn, rfl⟩ := hx
    have := (hl n hn).2
    simpa [nameOf] using this

theorem wfDefinition_schemaA (fl : Flags) (s : SchemaD) (ds : List DirApp) (hne : rootOps s ≠ []) (hk : ds.all SdlPrintTA.dirAppOK = true) :
    wfDefinition fl (defTree (.schema { ops := rootOps s, dirs := ds })) = true := by
  have h0 := wfDefinition_schema fl s hne
  simp only [defTree, wfDefinition, Bool.and_eq_true] at h0 ⊢
  exact ⟨⟨wfDirectives_dirOf _ hk, h0.1.2⟩, h0.2⟩

theorem membersNonEmpty_of_okA (s : SchemaD) (c : SdlPrintTA.OptsA) (apps : Apps) (w : Nat) (t : TypeD) (h : typeOKT s w t = true) :
    membersNonEmpty (SdlPrintTA.typeToDefA s c apps t) := by
  simp only [typeOKT, Bool.and_eq_true] at h
  obtain ⟨_, hk⟩ := h
  unfold membersNonEmpty
  cases hkind : t.kind <;> rw [hkind] at hk <;> simp only [SdlPrintTA.typeToDefA, hkind] <;>
    simp only [Bool.and_eq_true, Bool.not_eq_true', List.isEmpty_eq_false_iff] at hk <;>
    first | trivial | (simp only [ne_eq, List.map_eq_nil_iff]; first | exact hk.1.1 | exact hk.1)

/-! ### the whole text -/

theorem docToAst_schemaToDocA (s : SchemaD) (c : SdlPrintTA.OptsA) (apps : Apps) :
    docToAst (SdlPrintTA.schemaToDocA s c apps) = some ⟨(SdlPrintTA.schemaToDocA s c apps).map defTree, none⟩ := by
  have h : ∀ doc : Doc, (∀ x ∈ doc, defOf x = some (defTree x)) → doc.mapM defOf = some (doc.map defTree) := by
    intro doc
    induction doc with
    | nil => intro _; rfl
    | cons x xs ih =>
      intro hx
      simp [List.mapM_cons, hx x (by simp), ih (fun y hy => hx y (by simp [hy]))]
  have hall : ∀ x ∈ SdlPrintTA.schemaToDocA s c apps, defOf x = some (defTree x) := by
    intro x hx
    simp only [SdlPrintTA.schemaToDocA, List.mem_append, List.mem_map] at hx
    rcases hx with (hx | ⟨d, _, rfl⟩) | ⟨t, _, rfl⟩
    · split at hx
      · simp only [List.mem_singleton] at hx; subst hx; rfl
      · cases hx
    · rfl
    · rfl
  simp [docToAst, h _ hall]

/-- the text parts and token classes of the printed schema, in order -/
def schemaPairsA (c : SdlPrintTA.OptsA) (s : SchemaD) (apps : Apps) : List LP :=
  (if SdlPrintTA.needsSchemaBlockA s c apps then
      [(T "schema" ++ SdlPrintTA.printDirectives c apps "" ++ SdlPrintT.braces (SdlPrintT.rootLines c.base s),
        (definitionV (defTree (.schema { ops := rootOps s, dirs := SdlPrintTA.keptAt c apps "" }))).yield)] else []) ++
  s.directives.map (fun d => (SdlPrintTA.printDirectiveDefinition s c apps d,
    (definitionV (defTree (.directive (SdlPrintTA.directiveToDefA s c apps d)))).yield)) ++
  s.types.map (fun t => (SdlPrintTA.printType s c apps t, (definitionV (defTree (.type (SdlPrintTA.typeToDefA s c apps t)))).yield))

theorem schemaPairsA_snd (c : SdlPrintTA.OptsA) (s : SchemaD) (apps : Apps) :
    (schemaPairsA c s apps).flatMap Prod.snd = Item.yieldAll (((SdlPrintTA.schemaToDocA s c apps).map defTree).map definitionV) := by
  rw [yieldAll_map]
  unfold schemaPairsA SdlPrintTA.schemaToDocA
  split <;> simp [List.flatMap_append, List.flatMap_map, List.map_append, List.map_map, Function.comp_def]

private theorem e_schema' : T "schema" = K.schema := by decide

theorem printSchemaTA_eq (c : SdlPrintTA.OptsA) (s : SchemaD) (apps : Apps) (hs : InPrintOrder s)
    (hne : schemaPairsA c s apps ≠ []) :
    SdlPrintTA.printSchemaTA c s apps = Print.joinSep [10, 10] ((schemaPairsA c s apps).map Prod.fst) ++ [10] := by
  have hfilter : (SdlPrintTA.printSchemaDefinition s c apps ::
      (s.directives.map (SdlPrintTA.printDirectiveDefinition s c apps) ++ s.types.map (SdlPrintTA.printType s c apps))).filter
        (fun p => !p.isEmpty) = (schemaPairsA c s apps).map Prod.fst := by
    have hd : (s.directives.map (SdlPrintTA.printDirectiveDefinition s c apps)).filter (fun p => !p.isEmpty) =
        s.directives.map (SdlPrintTA.printDirectiveDefinition s c apps) := by
      rw [List.filter_eq_self]; intro x hx; simp only [List.mem_map] at hx; obtain ⟨d, _, rfl⟩ := hx
      have := printDirectiveDefinitionA_ne s c apps d
      cases h : SdlPrintTA.printDirectiveDefinition s c apps d with | nil => exact absurd h this | cons _ _ => rfl
    have ht : (s.types.map (SdlPrintTA.printType s c apps)).filter (fun p => !p.isEmpty) = s.types.map (SdlPrintTA.printType s c apps) := by
      rw [List.filter_eq_self]; intro x hx; simp only [List.mem_map] at hx; obtain ⟨d, _, rfl⟩ := hx
      have := printTypeA_ne s c apps d
      cases h : SdlPrintTA.printType s c apps d with | nil => exact absurd h this | cons _ _ => rfl
    unfold schemaPairsA SdlPrintTA.printSchemaDefinition
    split
    · simp [List.filter_cons, List.filter_append, hd, ht, e_schema', K.schema, List.map_map, Function.comp_def]
    · simp [List.filter_cons, List.filter_append, hd, ht, List.map_map, Function.comp_def]
  have : ((schemaPairsA c s apps).map Prod.fst).isEmpty = false := by
    cases h : schemaPairsA c s apps with | nil => exact absurd h hne | cons _ _ => rfl
  unfold SdlPrintTA.printSchemaTA
  simp only [hs.1, hs.2, joinSep_eq, List.cons_append]
  rw [hfilter]
  simp [this]

theorem lexesTo_printSchemaTA (c : SdlPrintTA.OptsA) (s : SchemaD) (apps : Apps) (hs : InPrintOrder s)
    (hne : schemaPairsA c s apps ≠ []) (h : ∀ p ∈ schemaPairsA c s apps, Lay p.1 p.2) :
    LexesTo (SdlPrintTA.printSchemaTA c s apps)
      (Item.yieldAll (((SdlPrintTA.schemaToDocA s c apps).map defTree).map definitionV)) := by
  have l1 := lay_joinSep [10, 10] [] (fun b cb hb => by simpa using lay_lf_cons (lay_lf_cons hb))
    (fun b => delimHead_cons (by decide)) _ h
  rw [joinCls_nil, schemaPairsA_snd] at l1
  have l2 := lay_append l1 (lay_lf_cons lay_nil) (delimHead_cons (by decide))
  have := lexesTo_of_lay l2 [] [] safe_nil lexesTo_nil
  rw [printSchemaTA_eq c s apps hs hne]
  simpa using this

/-- the assembled statement: lexing facts + matcher facts + well-formedness ⇒ the printed text parses to the tree -/
theorem parse_printSchemaTA (c : SdlPrintTA.OptsA) (s : SchemaD) (apps : Apps) (hs : InPrintOrder s)
    (hne : schemaPairsA c s apps ≠ []) (hlay : ∀ p ∈ schemaPairsA c s apps, Lay p.1 p.2)
    (hplain : ∀ d ∈ (SdlPrintTA.schemaToDocA s c apps).map defTree, ∀ fol, plainF (definitionV d) fol = true)
    (hwf : wfDocument { noLocation := true, allowTypeSystem := true } ⟨(SdlPrintTA.schemaToDocA s c apps).map defTree, none⟩ = true) :
    parseSdlTextT (SdlPrintTA.printSchemaTA c s apps) = docToAst (SdlPrintTA.schemaToDocA s c apps) := by
  obtain ⟨toks, h1, h2⟩ := lexAll_of_lexesTo (lexesTo_printSchemaTA c s apps hs hne hlay)
  have hm := matches_defs { noLocation := true, allowTypeSystem := true } rfl _ hplain sofTok
    (eofTok (SdlPrintTA.printSchemaTA c s apps).length) (by decide) (by simp [cls, eofTok, hasValue]) toks h2
  have hparse := Props.C01.parse_complete_document _ _ _ hwf hm
  rw [docToAst_schemaToDocA]
  unfold parseSdlTextT Parse.parseText
  rw [h1]
  simp only [hparse, Except.toOption]

end PyGql.SdlText

/-
  C14 — every visitor hook is a `StepAll` and establishes the shape of what it returns (members level).
-/
import PyGqlModel.Lemmas.HeapClosed

set_option linter.unusedSimpArgs false
set_option linter.unusedVariables false
set_option linter.unnecessarySimpa false

namespace PyGql.Heap.Own
open PyGql.Heap

theorem readArg_alloc_new (h : Heap) (g : ArgO) : (h.alloc (.arg g)).1.readArg (h.alloc (.arg g)).2 = some g := by
  simp [Heap.readArg, alloc_addr, read_alloc_new]
theorem readField_alloc_new (h : Heap) (g : FieldO) : (h.alloc (.field g)).1.readField (h.alloc (.field g)).2 = some g := by
  simp [Heap.readField, alloc_addr, read_alloc_new]
theorem readType_alloc_new (h : Heap) (g : TypeO) : (h.alloc (.type g)).1.readType (h.alloc (.type g)).2 = some g := by
  simp [Heap.readType, alloc_addr, read_alloc_new]
theorem readDir_alloc_new (h : Heap) (g : DirO) : (h.alloc (.dir g)).1.readDir (h.alloc (.dir g)).2 = some g := by
  simp [Heap.readDir, alloc_addr, read_alloc_new]

theorem readArg_write_self (h : Heap) (a : Addr) (g : ArgO) (ha : a < h.size) : (h.write a (.arg g)).readArg a = some g := by
  simp [Heap.readArg, read_write_self h a _ ha]
theorem readField_write_self (h : Heap) (a : Addr) (g : FieldO) (ha : a < h.size) : (h.write a (.field g)).readField a = some g := by
  simp [Heap.readField, read_write_self h a _ ha]
theorem readType_write_self (h : Heap) (a : Addr) (g : TypeO) (ha : a < h.size) : (h.write a (.type g)).readType a = some g := by
  simp [Heap.readType, read_write_self h a _ ha]

theorem readArg_lt {h : Heap} {a : Addr} {g : ArgO} (hr : h.readArg a = some g) : a < h.size := read_lt h a _ (readArg_read hr)
theorem readField_lt {h : Heap} {a : Addr} {g : FieldO} (hr : h.readField a = some g) : a < h.size := read_lt h a _ (readField_read hr)
theorem readType_lt' {h : Heap} {a : Addr} {g : TypeO} (hr : h.readType a = some g) : a < h.size := read_lt h a _ (readType_read hr)

/-! ### arguments and input fields -/

theorem onArgument_step (v : Visitor) (reg : List (String × Addr)) (h : Heap) (a : Addr) : StepAll v reg h (onArgument v reg h a).1 := by
  intro chk hc
  simp only [onArgument]
  split
  · exact StepImp.refl chk h
  · rename_i g hg
    cases v with
    | camel ren => exact step_alloc chk h _
    | heal =>
      simp only
      split
      · exact StepImp.refl chk h
      · rename_i t ht
        exact write_arg_ty chk h a g t hg (hc _ (healed_ok reg g.ty t ht)) (healed_sameNames reg g.ty t ht)
    | vis p => exact StepImp.refl chk h
    | sdir d w => exact StepImp.refl chk h

theorem onArgument_est (v : Visitor) (reg : List (String × Addr)) (chk0 : Ref → Bool) (h : Heap) (a : Addr)
    (hs : argShape chk0 h a = true) : ∀ a', (onArgument v reg h a).2 = some a' →
      argShape (outChk v reg chk0) (onArgument v reg h a).1 a' = true := by
  intro a' e
  simp only [argShape] at hs
  split at hs
  · rename_i g hg
    simp only [onArgument, hg] at e ⊢
    cases v with
    | camel ren =>
      simp only [Option.some.injEq] at e
      subst e
      simp only [argShape, readArg_alloc_new, outChk]
      exact hs
    | heal =>
      cases ht : healed reg g.ty with
      | none => simp [ht] at e
      | some t =>
        simp only [ht, Option.some.injEq] at e ⊢
        subst e
        simp only [argShape, readArg_write_self h a _ (readArg_lt hg), outChk]
        exact healed_ok reg g.ty t ht
    | vis p =>
      simp only [Option.some.injEq] at e
      subst e
      simp only [argShape, hg, outChk]; exact hs
    | sdir d w =>
      simp only [Option.some.injEq] at e
      subst e
      simp only [argShape, hg, outChk]; exact hs
  · cases hs

theorem onInputField_step (v : Visitor) (reg : List (String × Addr)) (h : Heap) (a : Addr) : StepAll v reg h (onInputField v reg h a).1 := by
  intro chk hc
  simp only [onInputField]
  split
  · exact StepImp.refl chk h
  · rename_i g hg
    cases v with
    | camel ren => exact step_alloc chk h _
    | heal =>
      simp only
      split
      · exact StepImp.refl chk h
      · rename_i t ht
        exact write_arg_ty chk h a g t hg (hc _ (healed_ok reg g.ty t ht)) (healed_sameNames reg g.ty t ht)
    | vis p => simp only; split <;> exact StepImp.refl chk h
    | sdir d w => exact StepImp.refl chk h

theorem onInputField_est (v : Visitor) (reg : List (String × Addr)) (chk0 : Ref → Bool) (h : Heap) (a : Addr)
    (hs : argShape chk0 h a = true) : ∀ a', (onInputField v reg h a).2 = some a' →
      argShape (outChk v reg chk0) (onInputField v reg h a).1 a' = true := by
  intro a' e
  simp only [argShape] at hs
  split at hs
  · rename_i g hg
    simp only [onInputField, hg] at e ⊢
    cases v with
    | camel ren =>
      simp only [Option.some.injEq] at e
      subst e
      simp only [argShape, readArg_alloc_new, outChk]
      exact hs
    | heal =>
      cases ht : healed reg g.ty with
      | none => simp [ht] at e
      | some t =>
        simp only [ht, Option.some.injEq] at e ⊢
        subst e
        simp only [argShape, readArg_write_self h a _ (readArg_lt hg), outChk]
        exact healed_ok reg g.ty t ht
    | vis p =>
      simp only at e ⊢
      split at e
      · rename_i hv
        simp only [Option.some.injEq] at e
        subst e
        simp only [hv, if_true, argShape, hg, outChk]; exact hs
      · cases e
    | sdir d w =>
      simp only [Option.some.injEq] at e
      subst e
      simp only [argShape, hg, outChk]; exact hs
  · cases hs

/-! ### fields -/

theorem onFieldBase_step (v : Visitor) (reg : List (String × Addr)) (h : Heap) (a : Addr) (f : FieldO) :
    StepAll v reg h (onFieldBase v reg h a f).1 := by
  simp only [onFieldBase]
  have hm := mapFilter_step (onArgument_step v reg) f.args h
  split
  · exact hm.trans (stepAll_alloc v reg _ _)
  · exact hm

theorem healFieldType_step (reg : List (String × Addr)) (h : Heap) (a : Addr) : StepAll .heal reg h (healFieldType reg h a).1 := by
  intro chk hc
  simp only [healFieldType]
  split
  · exact StepImp.refl chk h
  · rename_i f hf
    split
    · exact StepImp.refl chk h
    · rename_i t ht
      exact write_field_ty chk h a f t hf (hc _ (healed_ok reg f.ty t ht)) (healed_sameNames reg f.ty t ht)

theorem onField_step (v : Visitor) (reg : List (String × Addr)) (tn : String) (h : Heap) (a : Addr) :
    StepAll v reg h (onField v reg tn h a).1 := by
  simp only [onField]
  split
  · exact StepAll.refl v reg h
  · rename_i f hf
    cases v with
    | camel ren => exact (stepAll_alloc _ reg h _).trans (onFieldBase_step _ reg _ _ _)
    | sdir d w =>
      simp only
      split
      · exact StepAll.refl _ reg h
      · split
        · exact (stepAll_alloc _ reg h _).trans (onFieldBase_step _ reg _ _ _)
        · exact onFieldBase_step _ reg _ _ _
    | heal => exact (onFieldBase_step _ reg h a f).trans (healFieldType_step reg _ _)
    | vis p => exact onFieldBase_step _ reg h a f

/-- `fieldShape` spelled out -/
theorem fieldShape_iff (chk : Ref → Bool) (h : Heap) (a : Addr) :
    fieldShape chk h a = true ↔ ∃ f, h.readField a = some f ∧ chk f.ty.base = true ∧ ∀ c, c ∈ f.args → argShape chk h c = true := by
  simp only [fieldShape]
  cases hf : h.readField a with
  | none => simp
  | some f => simp [Bool.and_eq_true, List.all_eq_true]

theorem bne_false_eq {l1 l2 : List Addr} (hb : ¬ (l1 != l2) = true) : l1 = l2 := by
  simpa using hb

/-- base part of `on_field`: the arguments are established; the field's own type reference is not touched -/
theorem onFieldBase_est (v : Visitor) (reg : List (String × Addr)) (chk0 : Ref → Bool) (hc : Compat v reg chk0) (h : Heap) (a : Addr)
    (f : FieldO) (hf : h.readField a = some f) (hargs : ∀ c, c ∈ f.args → argShape chk0 h c = true) :
    ∃ f2, (onFieldBase v reg h a f).1.readField (onFieldBase v reg h a f).2 = some f2 ∧
      (chk0 f.ty.base = true → chk0 f2.ty.base = true) ∧
      ∀ c, c ∈ f2.args → argShape (outChk v reg chk0) (onFieldBase v reg h a f).1 c = true := by
  have hest := mapFilter_est (S := argShape) (fun chk h h' a st hs => argShape_keep st a hs) hc (onArgument_step v reg)
    (fun h a hs => onArgument_est v reg chk0 h a hs) f.args h hargs
  have hstep := mapFilter_step (onArgument_step v reg) f.args h
  simp only [onFieldBase]
  split
  · refine ⟨_, readField_alloc_new _ _, fun x => x, ?_⟩
    intro c hcm
    exact argShape_keep (step_alloc _ _ _) c (hest c hcm)
  · rename_i hb
    have heq := bne_false_eq hb
    obtain ⟨o', hr', hd, hk, hrefs⟩ := hstep chk0 hc a _ (readField_read hf)
    cases o' with
    | field f' =>
      refine ⟨f', readField_of_read hr', fun x => by simpa [refsOf] using hrefs (by simpa [refsOf] using x), ?_⟩
      intro c hcm
      have hm : c ∈ f.args := by simpa [kids] using hk.subset (by simpa [kids] using hcm)
      exact hest c (by rw [heq]; exact hm)
    | type _ => simp [SameHead] at hd
    | arg _ => simp [SameHead] at hd
    | dir _ => simp [SameHead] at hd

theorem onField_est (v : Visitor) (reg : List (String × Addr)) (tn : String) (chk0 : Ref → Bool) (hc : Compat v reg chk0) (h : Heap) (a : Addr)
    (hs : fieldShape chk0 h a = true) : ∀ a', (onField v reg tn h a).2 = some a' →
      fieldShape (outChk v reg chk0) (onField v reg tn h a).1 a' = true := by
  intro a' e
  obtain ⟨f, hf, hty, hargs⟩ := (fieldShape_iff chk0 h a).mp hs
  simp only [onField, hf] at e ⊢
  cases v with
  | camel ren =>
    simp only [Option.some.injEq] at e ⊢
    subst e
    obtain ⟨f2, h2, t2, a2⟩ := onFieldBase_est (.camel ren) reg chk0 hc (h.alloc (.field { f with name := ren f.name })).1
      (h.alloc (.field { f with name := ren f.name })).2 { f with name := ren f.name } (readField_alloc_new _ _)
      (fun c hcm => argShape_keep (step_alloc _ _ _) c (hargs c hcm))
    exact (fieldShape_iff _ _ _).mpr ⟨f2, h2, t2 hty, a2⟩
  | sdir d w =>
    simp only at e ⊢
    split at e
    · cases e
    · rename_i hdrop
      simp only [hdrop] at e ⊢
      split at e
      · rename_i id hw
        simp only [Option.some.injEq] at e
        subst e
        obtain ⟨f2, h2, t2, a2⟩ := onFieldBase_est (.sdir d w) reg chk0 hc (h.alloc (.field { f with res := some id })).1
          (h.alloc (.field { f with res := some id })).2 { f with res := some id } (readField_alloc_new _ _)
          (fun c hcm => argShape_keep (step_alloc _ _ _) c (hargs c hcm))
        exact (fieldShape_iff _ _ _).mpr ⟨f2, h2, t2 hty, a2⟩
      · rename_i hw
        simp only [Option.some.injEq] at e
        subst e
        obtain ⟨f2, h2, t2, a2⟩ := onFieldBase_est (.sdir d w) reg chk0 hc h a f hf hargs
        exact (fieldShape_iff _ _ _).mpr ⟨f2, h2, t2 hty, a2⟩
  | vis p =>
    simp only [Option.some.injEq] at e ⊢
    subst e
    obtain ⟨f2, h2, t2, a2⟩ := onFieldBase_est (.vis p) reg chk0 hc h a f hf hargs
    exact (fieldShape_iff _ _ _).mpr ⟨f2, h2, t2 hty, a2⟩
  | heal =>
    simp only at e ⊢
    obtain ⟨f2, h2, _, a2⟩ := onFieldBase_est .heal reg chk0 hc h a f hf hargs
    simp only [healFieldType, h2] at e ⊢
    cases ht : healed reg f2.ty with
    | none => simp [ht] at e
    | some t =>
      simp only [ht, Option.some.injEq] at e ⊢
      subst e
      refine (fieldShape_iff _ _ _).mpr ⟨{ f2 with ty := t }, readField_write_self _ _ _ (readField_lt h2), healed_ok reg f2.ty t ht, ?_⟩
      intro c hcm
      exact argShape_keep (write_field_ty _ _ _ f2 t h2 (healed_ok reg f2.ty t ht) (healed_sameNames reg f2.ty t ht)) c (a2 c hcm)

end PyGql.Heap.Own

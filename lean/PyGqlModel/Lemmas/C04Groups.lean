/-
  C04 — grouped field sets as functions of the VISIT SEQUENCE: `addSeq g q` appends the nodes of `q` one by one;
  merging a freshly collected group set is the same as appending its sequence (`mergeInto_addSeq`), and two sequences
  that are equal up to repeats give group sets that are entry-wise equal up to repeats (`GRel.addSeq`).
-/
import PyGqlModel.Exec
import PyGqlModel.Lemmas.C04Rep

set_option linter.unusedSimpArgs false
set_option linter.unusedVariables false

namespace PyGql.Props.C04
open PyGql PyGql.Exec

def addSeq (g : Grouped) (q : List FNode) : Grouped := q.foldl (fun g n => g.extend n.key [n]) g

theorem addSeq_nil (g : Grouped) : addSeq g [] = g := rfl
theorem addSeq_cons (g : Grouped) (n : FNode) (q : List FNode) : addSeq g (n :: q) = addSeq (g.extend n.key [n]) q := rfl
theorem addSeq_append (g : Grouped) (q1 q2 : List FNode) : addSeq g (q1 ++ q2) = addSeq (addSeq g q1) q2 := by
  simp [addSeq, List.foldl_append]

theorem mem_keys_extend (g : Grouped) (k k' : String) (ns : List FNode) :
    k' ∈ (g.extend k ns).keys ↔ k' ∈ g.keys ∨ k' = k := by
  induction g with
  | nil => simp [Grouped.extend, Grouped.keys]
  | cons kv rest ih =>
    obtain ⟨k1, m1⟩ := kv
    simp only [Grouped.extend]
    by_cases h : k1 = k
    · subst h
      simp only [beq_self_eq_true, if_true, Grouped.keys, List.map_cons, List.mem_cons]
      constructor
      · intro h; exact Or.inl h
      · rintro (h | h)
        · exact h
        · exact Or.inl h
    · have h' : (k1 == k) = false := by simpa using h
      simp only [h', Bool.false_eq_true, if_false]
      simp only [Grouped.keys, List.map_cons, List.mem_cons] at ih ⊢
      rw [ih, or_assoc]

theorem extend_of_not_mem (g : Grouped) (k : String) (ns : List FNode) (h : k ∉ g.keys) : g.extend k ns = g ++ [(k, ns)] := by
  induction g with
  | nil => simp [Grouped.extend]
  | cons kv rest ih =>
    obtain ⟨k1, m1⟩ := kv
    have hne : k1 ≠ k := fun e => h (by simp [Grouped.keys, e])
    have h' : (k1 == k) = false := by simpa using hne
    simp only [Grouped.extend, h', Bool.false_eq_true, if_false, List.cons_append]
    rw [ih (fun hm => h (by simp [Grouped.keys] at hm ⊢; exact Or.inr hm))]

theorem keys_nodup_extend (g : Grouped) (k : String) (ns : List FNode) (h : g.keys.Nodup) : (g.extend k ns).keys.Nodup := by
  induction g with
  | nil => simp [Grouped.extend, Grouped.keys]
  | cons kv rest ih =>
    obtain ⟨k1, m1⟩ := kv
    simp only [Grouped.keys, List.map_cons, List.nodup_cons] at h
    simp only [Grouped.extend]
    by_cases hk : k1 = k
    · subst hk; simp [Grouped.keys, h]
    · have h' : (k1 == k) = false := by simpa using hk
      simp only [h', Bool.false_eq_true, if_false]
      simp only [Grouped.keys, List.map_cons, List.nodup_cons]
      refine ⟨?_, ih h.2⟩
      intro hm
      have := (mem_keys_extend rest k k1 ns).mp hm
      rcases this with h1 | h1
      · exact h.1 h1
      · exact hk h1

theorem keys_nodup_addSeq (g : Grouped) (q : List FNode) (h : g.keys.Nodup) : (addSeq g q).keys.Nodup := by
  induction q generalizing g with
  | nil => exact h
  | cons n q ih => exact ih _ (keys_nodup_extend g _ _ h)

theorem extend_extend_same (g : Grouped) (k : String) (a b : List FNode) : (g.extend k a).extend k b = g.extend k (a ++ b) := by
  induction g with
  | nil => simp [Grouped.extend]
  | cons kv rest ih =>
    obtain ⟨k1, m1⟩ := kv
    by_cases h : k1 = k
    · subst h; simp [Grouped.extend, List.append_assoc]
    · have h' : (k1 == k) = false := by simpa using h
      simp [Grouped.extend, h', ih]

theorem extend_comm (g : Grouped) (k k' : String) (a b : List FNode) (hne : k ≠ k') (hk : k ∈ g.keys) :
    (g.extend k a).extend k' b = (g.extend k' b).extend k a := by
  induction g with
  | nil => simp [Grouped.keys] at hk
  | cons kv rest ih =>
    obtain ⟨k1, m1⟩ := kv
    by_cases h1 : k1 = k
    · subst h1
      have h' : (k1 == k') = false := by simpa using hne
      simp [Grouped.extend, h']
    · have h1' : (k1 == k) = false := by simpa using h1
      have hkr : k ∈ Grouped.keys rest := by
        simp [Grouped.keys] at hk ⊢
        rcases hk with hk | hk
        · exact absurd hk.symm h1
        · exact hk
      by_cases h2 : k1 = k'
      · subst h2
        simp [Grouped.extend, h1']
      · have h2' : (k1 == k') = false := by simpa using h2
        simp [Grouped.extend, h1', h2', ih hkr]

private theorem foldl_extend_comm (rest : Grouped) (X : Grouped) (k : String) (b : List FNode) (hk : k ∈ X.keys)
    (hr : ∀ kv ∈ rest, kv.1 ≠ k) :
    rest.foldl (fun acc kv => acc.extend kv.1 kv.2) (X.extend k b) = (rest.foldl (fun acc kv => acc.extend kv.1 kv.2) X).extend k b := by
  induction rest generalizing X with
  | nil => rfl
  | cons kv rest ih =>
    simp only [List.foldl_cons]
    rw [extend_comm X k kv.1 b kv.2 (fun e => hr kv (by simp) e.symm) hk]
    exact ih _ ((mem_keys_extend X kv.1 k kv.2).mpr (Or.inl hk)) (fun kv' h => hr kv' (by simp [h]))

private theorem foldl_extend_present (G : Grouped) (acc : Grouped) (k : String) (b : List FNode) (hn : G.keys.Nodup) (hk : k ∈ G.keys) :
    (G.extend k b).foldl (fun acc kv => acc.extend kv.1 kv.2) acc = (G.foldl (fun acc kv => acc.extend kv.1 kv.2) acc).extend k b := by
  induction G generalizing acc with
  | nil => simp [Grouped.keys] at hk
  | cons kv rest ih =>
    obtain ⟨k1, m1⟩ := kv
    simp only [Grouped.keys, List.map_cons, List.nodup_cons] at hn
    by_cases h1 : k1 = k
    · subst h1
      simp only [Grouped.extend, beq_self_eq_true, if_true, List.foldl_cons]
      rw [← extend_extend_same]
      refine foldl_extend_comm rest _ k1 b ((mem_keys_extend acc k1 k1 m1).mpr (Or.inr rfl)) ?_
      intro kv' hkv' e
      exact hn.1 (by simp [Grouped.keys]; exact ⟨kv'.2, by rw [← e]; exact hkv'⟩)
    · have h1' : (k1 == k) = false := by simpa using h1
      have hkr : k ∈ Grouped.keys rest := by
        simp [Grouped.keys] at hk ⊢
        rcases hk with hk | hk
        · exact absurd hk.symm h1
        · exact hk
      simp only [Grouped.extend, h1', Bool.false_eq_true, if_false, List.foldl_cons]
      exact ih _ hn.2 hkr

theorem mergeInto_extend (G g : Grouped) (k : String) (b : List FNode) (hn : G.keys.Nodup) :
    (G.extend k b).mergeInto g = (G.mergeInto g).extend k b := by
  unfold Grouped.mergeInto
  by_cases hk : k ∈ G.keys
  · exact foldl_extend_present G g k b hn hk
  · rw [extend_of_not_mem G k b hk]; simp [List.foldl_append]

/-- **merging a collected group set = appending its visit sequence** -/
theorem mergeInto_addSeq_gen (G g : Grouped) (q : List FNode) (hn : G.keys.Nodup) :
    (addSeq G q).mergeInto g = addSeq (G.mergeInto g) q := by
  induction q generalizing G with
  | nil => rfl
  | cons n q ih =>
    rw [addSeq_cons, ih _ (keys_nodup_extend G _ _ hn), mergeInto_extend G g _ _ hn, ← addSeq_cons]

theorem mergeInto_addSeq (g : Grouped) (q : List FNode) : (addSeq [] q).mergeInto g = addSeq g q := by
  have := mergeInto_addSeq_gen [] g q (by simp [Grouped.keys])
  simpa [Grouped.mergeInto] using this

/-! ### entry-wise "equal up to repeats" -/

inductive GRel : Grouped → Grouped → Prop
  | nil : GRel [] []
  | cons {k : String} {ss ms : List FNode} {gS gM : Grouped} : Rep ss ms → GRel gS gM → GRel ((k, ss) :: gS) ((k, ms) :: gM)

def presentIn (g : Grouped) (n : FNode) : Prop := ∃ kv ∈ g, kv.1 = n.key ∧ n ∈ kv.2

theorem presentIn_extend (g : Grouped) (k : String) (ns : List FNode) (x : FNode)
    (h : presentIn g x ∨ (k = x.key ∧ x ∈ ns)) : presentIn (g.extend k ns) x := by
  induction g with
  | nil =>
    rcases h with ⟨kv, hkv, _⟩ | ⟨hk, hx⟩
    · simp at hkv
    · exact ⟨(k, ns), by simp [Grouped.extend], hk, hx⟩
  | cons kv rest ih =>
    obtain ⟨k1, m1⟩ := kv
    simp only [Grouped.extend]
    by_cases h1 : k1 = k
    · subst h1
      simp only [beq_self_eq_true, if_true]
      rcases h with ⟨kv, hkv, hk, hx⟩ | ⟨hk, hx⟩
      · simp at hkv
        rcases hkv with rfl | hkv
        · exact ⟨(k1, m1 ++ ns), by simp, hk, by simp [hx]⟩
        · exact ⟨kv, by simp [hkv], hk, hx⟩
      · exact ⟨(k1, m1 ++ ns), by simp, hk, by simp [hx]⟩
    · have h1' : (k1 == k) = false := by simpa using h1
      simp only [h1', Bool.false_eq_true, if_false]
      rcases h with ⟨kv, hkv, hk, hx⟩ | h
      · simp at hkv
        rcases hkv with rfl | hkv
        · exact ⟨(k1, m1), by simp, hk, hx⟩
        · obtain ⟨kv', hm, hk', hx'⟩ := ih (Or.inl ⟨kv, hkv, hk, hx⟩)
          exact ⟨kv', by simp [hm], hk', hx'⟩
      · obtain ⟨kv', hm, hk', hx'⟩ := ih (Or.inr h)
        exact ⟨kv', by simp [hm], hk', hx'⟩

theorem GRel.keys_eq {gS gM : Grouped} (h : GRel gS gM) : gS.keys = gM.keys := by
  induction h with
  | nil => rfl
  | cons _ _ ih => simp [Grouped.keys] at ih ⊢; exact ih

theorem GRel.extend_both {gS gM : Grouped} (h : GRel gS gM) (k : String) (a : FNode) :
    GRel (gS.extend k [a]) (gM.extend k [a]) := by
  induction h with
  | nil => exact .cons (Rep.refl _) .nil
  | @cons k1 ss ms xs ys hr hrest ih =>
    simp only [Grouped.extend]
    by_cases h1 : k1 = k
    · subst h1
      simp only [beq_self_eq_true, if_true]
      exact .cons (hr.snoc_both a) hrest
    · have h1' : (k1 == k) = false := by simpa using h1
      simp only [h1', Bool.false_eq_true, if_false]
      exact .cons hr ih

theorem GRel.extend_extra {gS gM : Grouped} (h : GRel gS gM) (a : FNode) (hn : gM.keys.Nodup) (hp : presentIn gM a) :
    GRel gS (gM.extend a.key [a]) := by
  induction h with
  | nil => obtain ⟨kv, hkv, _⟩ := hp; simp at hkv
  | @cons k1 ss ms xs ys hr hrest ih =>
    simp only [Grouped.keys, List.map_cons, List.nodup_cons] at hn
    simp only [Grouped.extend]
    obtain ⟨kv, hkv, hkk, hx⟩ := hp
    by_cases h1 : k1 = a.key
    · simp only [h1, beq_self_eq_true, if_true]
      have : a ∈ ms := by
        simp at hkv
        rcases hkv with rfl | hkv
        · exact hx
        · exfalso; apply hn.1
          simp [Grouped.keys]
          exact ⟨kv.2, by rw [h1, ← hkk]; exact hkv⟩
      rw [← h1]
      exact .cons (hr.snoc_extra a this) hrest
    · have h1' : (k1 == a.key) = false := by simpa using h1
      simp only [h1', Bool.false_eq_true, if_false]
      have hp' : presentIn ys a := by
        simp at hkv
        rcases hkv with rfl | hkv
        · exact absurd hkk h1
        · exact ⟨kv, hkv, hkk, hx⟩
      exact .cons hr (ih hn.2 hp')

/-- sequences equal up to repeats (ambient elements being present in the model's groups) give related group sets -/
theorem GRel.addSeq {P : FNode → Prop} {qS qM : List FNode} (hq : RepA P qS qM) :
    ∀ {gS gM : Grouped}, GRel gS gM → gM.keys.Nodup → (∀ x, P x → presentIn gM x) →
      GRel (addSeq gS qS) (addSeq gM qM) := by
  induction hq with
  | nil => intro gS gM h _ _; exact h
  | @both P a xs ys _ ih =>
    intro gS gM h hn hp
    rw [addSeq_cons, addSeq_cons]
    refine ih (h.extend_both a.key a) (keys_nodup_extend _ _ _ hn) ?_
    intro x hx
    rcases hx with rfl | hx
    · exact presentIn_extend _ _ _ _ (Or.inr ⟨rfl, by simp⟩)
    · exact presentIn_extend _ _ _ _ (Or.inl (hp x hx))
  | @extra P a xs ys hpa _ ih =>
    intro gS gM h hn hp
    rw [addSeq_cons]
    refine ih (h.extend_extra a hn (hp a hpa)) (keys_nodup_extend _ _ _ hn) ?_
    intro x hx
    exact presentIn_extend _ _ _ _ (Or.inl (hp x hx))

theorem GRel_of_rep {qS qM : List FNode} (h : Rep qS qM) : GRel (addSeq [] qS) (addSeq [] qM) :=
  GRel.addSeq h .nil (by simp [Grouped.keys]) (by intro x hx; exact absurd hx (by simp))

end PyGql.Props.C04

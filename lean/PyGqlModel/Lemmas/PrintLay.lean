/-
  Layout-robust lexing: `Lay w cs` — the text `w`, whose LFs are layout (between tokens, or inside block strings that
  re-decode to the same value), lexes to the classes `cs` in front of every safe rest and under EVERY additional
  indentation `P` inserted after each LF (`_indent` = `replaceLF P`).  This is the enabling notion for everything the
  printer nests inside `_block` (selection sets, field blocks): `Lay` is closed under concatenation and under `_indent`.
-/
import PyGqlModel.Lemmas.PrintLex
namespace PyGql.PrintLex
open PyGql PyGql.Lex PyGql.Spec PyGql.PrintString

/-- an indentation string of the statement: spaces and tabs -/
def Blank (p : Text) : Prop := ∀ c ∈ p, c = 32 ∨ c = 9

def Lay (w : Text) (cs : List TokClass) : Prop :=
  ∀ P, Blank P → ∀ r cs', Safe r → LexesTo r cs' → LexesTo (replaceLF P w ++ r) (cs ++ cs')

/-- empty, or starts with a delimiter -/
def DelimHead (w : Text) : Prop := ∀ c t, w = c :: t → isDelim c = true

theorem delimHead_nil : DelimHead [] := by intro c t h; cases h
theorem delimHead_cons {c : Nat} {t : Text} (h : isDelim c = true) : DelimHead (c :: t) := by
  intro c' t' e; cases e; exact h

theorem replaceLF_append (P a b : Text) : replaceLF P (a ++ b) = replaceLF P a ++ replaceLF P b := by
  induction a with
  | nil => simp [replaceLF]
  | cons c t ih =>
    simp only [List.cons_append, replaceLF]
    split <;> simp [ih]

theorem replaceLF_noLF (P w : Text) (h : ∀ c ∈ w, c ≠ 10) : replaceLF P w = w := by
  induction w with
  | nil => rfl
  | cons c t ih =>
    have hc := h c (by simp)
    simp [replaceLF, hc, ih (fun x hx => h x (by simp [hx]))]

theorem blank_noLF {P : Text} (h : Blank P) : ∀ c ∈ P, c ≠ 10 := by
  intro c hc; rcases h c hc with e | e <;> omega

theorem replaceLF_replaceLF (P Q w : Text) (hQ : Blank Q) :
    replaceLF P (replaceLF Q w) = replaceLF (P ++ Q) w := by
  induction w with
  | nil => rfl
  | cons c t ih =>
    simp only [replaceLF]
    split
    · simp only [replaceLF, ↓reduceIte, replaceLF_append, replaceLF_noLF P Q (blank_noLF hQ), ih, List.append_assoc]
    · rename_i hc; simp [replaceLF, hc, ih]

theorem blank_append {P Q : Text} (hP : Blank P) (hQ : Blank Q) : Blank (P ++ Q) := by
  intro c hc
  rcases List.mem_append.1 hc with h | h
  · exact hP c h
  · exact hQ c h

theorem blank_nil : Blank [] := by intro c hc; cases hc

theorem lexesTo_blank {P s : Text} {cs : List TokClass} (hP : Blank P) (h : LexesTo s cs) : LexesTo (P ++ s) cs := by
  induction P with
  | nil => simpa using h
  | cons c t ih =>
    have hc : isIgnored c = true := by rcases hP c (by simp) with e | e <;> subst e <;> decide
    exact lexesTo_ignored hc (ih (fun x hx => hP x (by simp [hx])))

theorem safe_replaceLF {P b r : Text} (hb : DelimHead b) (hr : Safe r) : Safe (replaceLF P b ++ r) := by
  cases b with
  | nil => simpa [replaceLF] using hr
  | cons c t =>
    have hc := hb c t rfl
    simp only [replaceLF]
    split
    · exact safe_cons (by decide)
    · exact safe_cons hc

theorem lay_nil : Lay [] [] := by
  intro P _ r cs' _ h; simpa [replaceLF] using h

theorem lay_append {a b : Text} {ca cb : List TokClass} (ha : Lay a ca) (hb : Lay b cb) (hd : DelimHead b) :
    Lay (a ++ b) (ca ++ cb) := by
  intro P hP r cs' hr h
  have h1 := hb P hP r cs' hr h
  have h2 := ha P hP _ _ (safe_replaceLF (P := P) hd hr) h1
  simpa [replaceLF_append, List.append_assoc] using h2

/-- a lexeme segment without LF -/
theorem lay_of_seg {w : Text} {cs : List TokClass} (hn : ∀ c ∈ w, c ≠ 10)
    (h : ∀ r cs', Safe r → LexesTo r cs' → LexesTo (w ++ r) (cs ++ cs')) : Lay w cs := by
  intro P _ r cs' hr hl
  rw [replaceLF_noLF P w hn]; exact h r cs' hr hl

/-- a punctuator in front needs no delimiter after it -/
theorem lay_punct_cons {c : Nat} {k : TokKind} {b : Text} {cb : List TokClass} (h1 : isIgnored c = false) (h2 : c ≠ 35)
    (h3 : isPrintable c = true) (h4 : symbolKind c = some k) (hk : hasValue k = false) (h10 : c ≠ 10) (hb : Lay b cb) :
    Lay (c :: b) ((k, []) :: cb) := by
  intro P hP r cs' hr hl
  have := lexesTo_punct h1 h2 h3 h4 hk (hb P hP r cs' hr hl)
  simpa [replaceLF, h10] using this

theorem lay_ignored_cons {c : Nat} {b : Text} {cb : List TokClass} (hc : isIgnored c = true) (h10 : c ≠ 10)
    (hb : Lay b cb) : Lay (c :: b) cb := by
  intro P hP r cs' hr hl
  have := lexesTo_ignored hc (hb P hP r cs' hr hl)
  simpa [replaceLF, h10] using this

theorem lay_space_cons {b : Text} {cb : List TokClass} (hb : Lay b cb) : Lay (32 :: b) cb :=
  lay_ignored_cons (by decide) (by decide) hb
theorem lay_comma_cons {b : Text} {cb : List TokClass} (hb : Lay b cb) : Lay (44 :: b) cb :=
  lay_ignored_cons (by decide) (by decide) hb

theorem lay_lf_cons {b : Text} {cb : List TokClass} (hb : Lay b cb) : Lay (10 :: b) cb := by
  intro P hP r cs' hr hl
  have := lexesTo_lf (lexesTo_blank hP (hb P hP r cs' hr hl))
  simpa [replaceLF] using this

theorem lay_blank_prefix {Q b : Text} {cb : List TokClass} (hQ : Blank Q) (hb : Lay b cb) : Lay (Q ++ b) cb := by
  intro P hP r cs' hr hl
  have := lexesTo_blank hQ (hb P hP r cs' hr hl)
  simpa [replaceLF_append, replaceLF_noLF P Q (blank_noLF hQ)] using this

/-- closure under `_indent`'s LF replacement -/
theorem lay_replaceLF {Q w : Text} {cs : List TokClass} (hQ : Blank Q) (h : Lay w cs) : Lay (replaceLF Q w) cs := by
  intro P hP r cs' hr hl
  rw [replaceLF_replaceLF P Q w hQ]
  exact h (P ++ Q) (blank_append hP hQ) r cs' hr hl

/-- closure under `_indent` -/
theorem lay_indentText {Q w : Text} {cs : List TokClass} (hQ : Blank Q) (h : Lay w cs) : Lay (indentText w Q) cs := by
  unfold indentText
  cases w with
  | nil => simpa using h
  | cons c t => simpa using lay_blank_prefix hQ (lay_replaceLF hQ h)

theorem replaceLF_nil (w : Text) : replaceLF [] w = w := by
  induction w with
  | nil => rfl
  | cons c t ih => simp only [replaceLF]; split <;> simp_all

/-- the plain form (no extra indentation) -/
theorem lexesTo_of_lay {w : Text} {cs : List TokClass} (h : Lay w cs) (r : Text) (cs' : List TokClass) (hr : Safe r)
    (hl : LexesTo r cs') : LexesTo (w ++ r) (cs ++ cs') := by
  have := h [] blank_nil r cs' hr hl
  rwa [replaceLF_nil] at this

/-- `_wrap(" ", x)` -/
theorem lay_wrap_space {b : Text} {cb : List TokClass} (hb : Lay b cb) :
    Lay (if b.isEmpty then [] else 32 :: b) cb := by
  cases b with
  | nil => simpa using hb
  | cons c t => simpa using lay_space_cons hb

end PyGql.PrintLex

/-
  The clause of 5.3.2 (`Spec.overlappingFieldsCanBeMerged`) and the side conditions of the overlap theorems only read a
  document through (a) its selection-set nodes, (b) its typed enumeration, (c) its fragment table. Two documents that
  agree on the three (`SameDoc`) satisfy the same clause; a permutation of the definitions of a document with unique
  fragment names is such a pair (`sameDoc_of_perm`).
-/
import PyGqlModel.Lemmas.ValidateOverlapWf
namespace PyGql.Validate
open PyGql PyGql.Validate.Spec

structure SameDoc (s : SchemaD) (d d' : Doc) : Prop where
  sets : ∀ i sels, SelSet d i sels ↔ SelSet d' i sels
  typed : ∀ q, q ∈ typedNodes s d ↔ q ∈ typedNodes s d'
  frags : ∀ k, AL.get? (fragTable d) k = AL.get? (fragTable d') k

theorem SameDoc.symm {s : SchemaD} {d d' : Doc} (h : SameDoc s d d') : SameDoc s d' d :=
  ⟨fun i sels => (h.sets i sels).symm, fun q => (h.typed q).symm, fun k => (h.frags k).symm⟩

variable {s : SchemaD} {d d' : Doc}

theorem SameDoc.adm (h : SameDoc s d d') {i : Nat} {p : Option String} (ha : Adm s d i p) : Adm s d' i p := by
  induction ha with
  | walk hm => exact .walk ((h.typed _).mp hm)
  | frag ht => exact .frag (by rw [← h.frags]; exact ht)
  | sub _ hs hc hsub ih => exact .sub ih ((h.sets _ _).mp hs) hc hsub

theorem SameDoc.collF (h : SameDoc s d d') {g rn : String} {e : FEntry} (hc : CollF s d g rn e) : CollF s d' g rn e := by
  induction hc with
  | here t a c => exact .here (by rw [← h.frags]; exact t) (h.adm a) c
  | there t sp _ ih => exact .there (by rw [← h.frags]; exact t) sp ih

theorem SameDoc.coll (h : SameDoc s d d') {p : Option String} {sels : List Sel} {rn : String} {e : FEntry}
    (hc : Coll s d p sels rn e) : Coll s d' p sels rn e := by
  rcases hc with hc | ⟨g, sp, hf⟩
  · exact Or.inl hc
  · exact Or.inr ⟨g, sp, h.collF hf⟩

theorem SameDoc.conf (h : SameDoc s d d') {pme : Bool} {f1 f2 : FEntry} (hc : Conf s d pme f1 f2) : Conf s d' pme f1 f2 := by
  induction hc with
  | args h1 h2 => exact .args h1 h2
  | types h1 h2 h3 => exact .types h1 h2 h3
  | sub s1 s2 a1 a2 c1 c2 _ ih => exact .sub s1 s2 (h.adm a1) (h.adm a2) (h.coll c1) (h.coll c2) ih
  | subSwap s1 s2 a1 a2 c1 c2 _ ih => exact .subSwap s1 s2 (h.adm a1) (h.adm a2) (h.coll c1) (h.coll c2) ih

/-- **the clause of 5.3.2 is the same for two documents that agree on selection sets, typed nodes and fragments** -/
theorem SameDoc.clause (h : SameDoc s d d') (H : overlappingFieldsCanBeMerged s d) : overlappingFieldsCanBeMerged s d' := by
  intro i sels hs p ha rn e1 e2 c1 c2 hconf
  exact H i sels ((h.sets _ _).mpr hs) p (h.symm.adm ha) rn e1 e2 (h.symm.coll c1) (h.symm.coll c2) (h.symm.conf hconf)

theorem SameDoc.parentsAgree (h : SameDoc s d d') (hpa : ParentsAgree s d) : ParentsAgree s d' :=
  fun i p q a b => hpa i p q (h.symm.adm a) (h.symm.adm b)

/-! ### reordering definitions -/

theorem get?_foldl_set_not_mem' {β} (k : String) : ∀ (l : List (String × β)) (m : AL β), k ∉ l.map (·.1) →
    AL.get? (l.foldl (fun acc f => AL.set acc f.1 f.2) m) k = AL.get? m k
  | [], _, _ => rfl
  | f :: l, m, h => by
    simp only [List.map_cons, List.mem_cons, not_or] at h
    simp only [List.foldl_cons]
    rw [get?_foldl_set_not_mem' k l _ h.2, AL.get?_set, if_neg h.1]

theorem get?_foldl_set_mem' {β} (k : String) (v : β) : ∀ (l : List (String × β)) (m : AL β), (l.map (·.1)).Nodup →
    (k, v) ∈ l → AL.get? (l.foldl (fun acc f => AL.set acc f.1 f.2) m) k = some v
  | [], _, _, h => by cases h
  | f :: l, m, hnd, h => by
    simp only [List.map_cons, List.nodup_cons] at hnd
    simp only [List.foldl_cons]
    rcases List.mem_cons.mp h with e | h'
    · subst e
      rw [get?_foldl_set_not_mem' k l _ hnd.1, AL.get?_set, if_pos rfl]
    · exact get?_foldl_set_mem' k v l _ hnd.2 h'

theorem get?_foldl_set_perm' {β} {l l' : List (String × β)} (h : l.Perm l') (hnd : (l.map (·.1)).Nodup) (k : String) :
    AL.get? (l.foldl (fun acc f => AL.set acc f.1 f.2) []) k = AL.get? (l'.foldl (fun acc f => AL.set acc f.1 f.2) []) k := by
  have hnd' : (l'.map (·.1)).Nodup := (h.map _).nodup_iff.mp hnd
  by_cases hk : k ∈ l.map (·.1)
  · obtain ⟨p, hp, rfl⟩ := List.mem_map.mp hk
    rw [get?_foldl_set_mem' p.1 p.2 l [] hnd hp, get?_foldl_set_mem' p.1 p.2 l' [] hnd' (h.mem_iff.mp hp)]
  · have hk' : k ∉ l'.map (·.1) := fun h' => hk ((h.map _).mem_iff.mpr h')
    rw [get?_foldl_set_not_mem' k l [] hk, get?_foldl_set_not_mem' k l' [] hk']

theorem fragDefs_names' (d : Doc) : (fragDefs d).map (·.1) = fragNames d := by
  unfold fragDefs fragNames
  rw [List.map_filterMap]
  congr 1
  funext x
  cases x <;> rfl

/-- a permutation of the definitions of a document with unique fragment names -/
theorem sameDoc_of_perm (s : SchemaD) {d d' : Doc} (h : d.defs.Perm d'.defs) (hnd : (fragNames d).Nodup) : SameDoc s d d' := by
  refine ⟨fun i sels => ?_, fun q => (h.flatMap_right _).mem_iff, fun k => ?_⟩
  · simp only [SelSet, nodes, List.mem_cons, reduceCtorEq, false_or]
    exact (h.flatMap_right _).mem_iff
  · have hp : (fragDefs d).Perm (fragDefs d') := h.filterMap _
    have hn : ((fragDefs d).map (·.1)).Nodup := by rw [fragDefs_names']; exact hnd
    unfold fragTable
    exact get?_foldl_set_perm' hp hn k

theorem wfIds_perm {d d' : Doc} (h : d.defs.Perm d'.defs) (hw : WfIds d) : WfIds d' := by
  unfold WfIds selSetIds idsOf nodes at hw ⊢
  simp only [List.filterMap_cons, ssidOf?] at hw ⊢
  exact ((h.flatMap_right _).filterMap _).nodup_iff.mp hw

end PyGql.Validate

/-
  TYPE nodes of definitions (types of variable definitions, of field / argument / input-field definitions, every type
  nested in them; the `NamedType` nodes of type conditions, `implements` lists, union members and operation types read
  as the type `.named t`): sub-nodes of the definition's view, well-formed when the definition is.
-/
import PyGqlModel.Lemmas.SpanValsTS
namespace PyGql.Ast
open PyGql

def namedTypes (ts : List NamedType) : List TypeRef := ts.map TypeRef.named
def optNamed : Option NamedType → List TypeRef
  | none => []
  | some t => [.named t]

mutual
def Selection.types : Selection → List TypeRef
  | .field _ _ _ _ ss _ => optSSTypes ss
  | .fragmentSpread _ _ _ => []
  | .inlineFragment tc _ ss _ => optNamed tc ++ ss.types
def SelectionSet.types : SelectionSet → List TypeRef
  | .mk sels _ => selsTypes sels
def optSSTypes : Option SelectionSet → List TypeRef
  | none => []
  | some ss => ss.types
def selsTypes : List Selection → List TypeRef
  | [] => []
  | s :: ss => s.types ++ selsTypes ss
end

def InputValueDefinition.types (d : InputValueDefinition) : List TypeRef := d.type.subs
def FieldDefinition.types (d : FieldDefinition) : List TypeRef :=
  d.arguments.flatMap InputValueDefinition.types ++ d.type.subs

/-- every type node of a definition -/
def Definition.types : Definition → List TypeRef
  | .operation d => d.variableDefinitions.flatMap (fun v => v.type.subs) ++ d.selectionSet.types
  | .fragment d => d.variableDefinitions.flatMap (fun v => v.type.subs) ++ [.named d.typeCondition] ++ d.selectionSet.types
  | .schemaDefinition _ ops _ => ops.map (fun o => .named o.type)
  | .scalarTypeDefinition _ _ _ _ => []
  | .objectTypeDefinition _ _ ifs _ fields _ => namedTypes ifs ++ fields.flatMap FieldDefinition.types
  | .interfaceTypeDefinition _ _ _ fields _ => fields.flatMap FieldDefinition.types
  | .unionTypeDefinition _ _ _ types _ => namedTypes types
  | .enumTypeDefinition _ _ _ _ _ => []
  | .inputObjectTypeDefinition _ _ _ fields _ => fields.flatMap InputValueDefinition.types
  | .directiveDefinition _ _ args _ _ => args.flatMap InputValueDefinition.types
  | .schemaExtension _ ops _ => ops.map (fun o => .named o.type)
  | .scalarTypeExtension _ _ _ => []
  | .objectTypeExtension _ ifs _ fields _ => namedTypes ifs ++ fields.flatMap FieldDefinition.types
  | .interfaceTypeExtension _ _ fields _ => fields.flatMap FieldDefinition.types
  | .unionTypeExtension _ _ types _ => namedTypes types
  | .enumTypeExtension _ _ _ _ => []
  | .inputObjectTypeExtension _ _ fields _ => fields.flatMap InputValueDefinition.types

end PyGql.Ast

namespace PyGql.Spec
open PyGql PyGql.Ast PyGql.Parse

theorem SubL.flatSep {α} {j : Item} (sep : TokKind) (f : α → Item) : ∀ {xs : List α} {x : α}, x ∈ xs →
    Item.Sub j (f x) → SubL j (xs.flatMap fun y => [p sep, f y])
  | [], _, hx, _ => by cases hx
  | y :: ys, x, hx, h => by
    simp only [List.flatMap_cons]
    rcases List.mem_cons.1 hx with rfl | hx'
    · exact ((SubL.head [] h).tail _).left _
    · exact (SubL.flatSep sep f hx' h).right _

theorem SubL.sep {α} {j : Item} (sep : TokKind) (f : α → Item) {xs : List α} {x : α} (hx : x ∈ xs)
    (h : Item.Sub j (f x)) : SubL j (sepV sep f xs) := by
  cases xs with
  | nil => cases hx
  | cons y ys =>
    simp only [sepV]
    rcases List.mem_cons.1 hx with rfl | hx'
    · exact (SubL.head _ h).tail _
    · exact ((SubL.flatSep sep f hx' h).tail _).tail _

theorem typeV_named (t : NamedType) : typeV (.named t) = namedTypeV t := rfl

theorem type_subs (t w : TypeRef) (h : w ∈ t.subs) : Item.Sub (typeV w) (typeV t) ∧ (wfType t = true → wfType w = true) :=
  subs_type_sub t w h

theorem variableDefinition_types (d : VariableDefinition) (w : TypeRef) (h : w ∈ d.type.subs) :
    Item.Sub (typeV w) (variableDefinitionV d) ∧ (wfVariableDefinition d = true → wfType w = true) := by
  obtain ⟨h1, h2⟩ := type_subs d.type w h
  have h1' : SubL (typeV w) [typeV d.type] := SubL.head _ h1
  unfold variableDefinitionV
  simp only [wfVariableDefinition, Bool.and_eq_true]
  exact ⟨((SubL.head _ h1).tail _ |>.tail _).node _, fun hh => h2 hh.1.1⟩

theorem variableDefinitions_types (ds : List VariableDefinition) (w : TypeRef)
    (h : w ∈ ds.flatMap (fun v => v.type.subs)) :
    SubL (typeV w) (variableDefinitionsV ds) ∧ (ds.all wfVariableDefinition = true → wfType w = true) := by
  obtain ⟨d, hd, hw⟩ := mem_flatMap' h
  obtain ⟨h1, h2⟩ := variableDefinition_types d w hw
  exact ⟨SubL.group _ _ variableDefinitionV hd h1, fun hh => h2 (all_mem hh hd)⟩

mutual
theorem selection_types : ∀ (s : Selection) (w : TypeRef), w ∈ s.types →
    Item.Sub (typeV w) (selectionV s) ∧ wfType w = true
  | .field alias_ name args dirs ss loc, w, h => by
    simp only [Selection.types] at h
    obtain ⟨h1, h2⟩ := optSS_types ss w h
    exact ⟨by simp only [selectionV]; apply SubL.node; subl, h2⟩
  | .fragmentSpread name dirs loc, w, h => by simp [Selection.types] at h
  | .inlineFragment tc dirs ss loc, w, h => by
    simp only [Selection.types, List.mem_append] at h
    rcases h with h | h
    · cases tc with
      | none => simp [optNamed] at h
      | some t =>
        simp only [optNamed, List.mem_singleton] at h
        subst h
        have h1 : SubL (typeV (.named t)) [kw K.on, namedTypeV t] := (SubL.head _ .refl).tail _
        exact ⟨by simp only [selectionV]; apply SubL.node; subl, rfl⟩
    · obtain ⟨h0, h2⟩ := selectionSet_types ss w h
      have h1 : SubL (typeV w) [selectionSetV ss] := SubL.head _ h0
      exact ⟨by simp only [selectionV]; apply SubL.node; subl, h2⟩
theorem selectionSet_types : ∀ (ss : SelectionSet) (w : TypeRef), w ∈ ss.types →
    Item.Sub (typeV w) (selectionSetV ss) ∧ wfType w = true
  | .mk sels loc, w, h => by
    simp only [SelectionSet.types] at h
    obtain ⟨h1, h2⟩ := sels_types sels w h
    exact ⟨by simp only [selectionSetV]; apply SubL.node; subl, h2⟩
theorem optSS_types : ∀ (o : Option SelectionSet) (w : TypeRef), w ∈ optSSTypes o →
    SubL (typeV w) (optSelectionSetV o) ∧ wfType w = true
  | none, w, h => by simp [optSSTypes] at h
  | some ss, w, h => by
    simp only [optSSTypes] at h
    obtain ⟨h1, h2⟩ := selectionSet_types ss w h
    exact ⟨by simp only [optSelectionSetV]; exact SubL.head _ h1, h2⟩
theorem sels_types : ∀ (ss : List Selection) (w : TypeRef), w ∈ selsTypes ss →
    SubL (typeV w) (selectionsV ss) ∧ wfType w = true
  | [], w, h => by simp [selsTypes] at h
  | s :: ss, w, h => by
    simp only [selsTypes, List.mem_append] at h
    simp only [selectionsV]
    rcases h with h | h
    · obtain ⟨h1, h2⟩ := selection_types s w h
      exact ⟨SubL.head _ h1, h2⟩
    · obtain ⟨h1, h2⟩ := sels_types ss w h
      exact ⟨h1.tail _, h2⟩
end

theorem inputValue_types (d : InputValueDefinition) (w : TypeRef) (h : w ∈ d.types) :
    Item.Sub (typeV w) (inputValueV d) ∧ (wfInputValue d = true → wfType w = true) := by
  obtain ⟨h0, h2⟩ := type_subs d.type w h
  have h1 : SubL (typeV w) [typeV d.type] := SubL.head _ h0
  unfold inputValueV
  simp only [wfInputValue, Bool.and_eq_true]
  refine ⟨?_, fun hh => h2 hh.1.1⟩
  apply SubL.node
  apply SubL.right; apply SubL.tail; apply SubL.tail
  exact SubL.head _ h0

theorem inputValues_types (ds : List InputValueDefinition) (w : TypeRef) (h : w ∈ ds.flatMap InputValueDefinition.types) :
    (SubL (typeV w) (groupV .parenL .parenR inputValueV ds) ∧ SubL (typeV w) (blockV inputValueV ds)) ∧
    (ds.all wfInputValue = true → wfType w = true) := by
  obtain ⟨d, hd, hw⟩ := mem_flatMap' h
  obtain ⟨h1, h2⟩ := inputValue_types d w hw
  exact ⟨⟨SubL.group _ _ inputValueV hd h1, SubL.block inputValueV hd h1⟩, fun hh => h2 (all_mem hh hd)⟩

theorem fieldDefinition_types (d : FieldDefinition) (w : TypeRef) (h : w ∈ d.types) :
    Item.Sub (typeV w) (fieldDefinitionV d) ∧ (wfFieldDefinition d = true → wfType w = true) := by
  unfold FieldDefinition.types at h
  unfold fieldDefinitionV
  simp only [wfFieldDefinition, Bool.and_eq_true]
  rcases List.mem_append.1 h with h | h
  · obtain ⟨⟨h1, _⟩, h2⟩ := inputValues_types d.arguments w h
    exact ⟨by apply SubL.node; subl, fun hh => h2 hh.1.1⟩
  · obtain ⟨h0, h2⟩ := type_subs d.type w h
    refine ⟨?_, fun hh => h2 hh.1.2⟩
    apply SubL.node
    apply SubL.right; apply SubL.tail; apply SubL.right; apply SubL.tail
    exact SubL.head _ h0

theorem fieldDefinitions_types (ds : List FieldDefinition) (w : TypeRef) (h : w ∈ ds.flatMap FieldDefinition.types) :
    SubL (typeV w) (blockV fieldDefinitionV ds) ∧ (ds.all wfFieldDefinition = true → wfType w = true) := by
  obtain ⟨d, hd, hw⟩ := mem_flatMap' h
  obtain ⟨h1, h2⟩ := fieldDefinition_types d w hw
  exact ⟨SubL.block fieldDefinitionV hd h1, fun hh => h2 (all_mem hh hd)⟩

theorem named_implements (ts : List NamedType) (w : TypeRef) (h : w ∈ namedTypes ts) :
    SubL (typeV w) (implementsV ts) ∧ wfType w = true := by
  simp only [namedTypes, List.mem_map] at h
  obtain ⟨t, ht, rfl⟩ := h
  refine ⟨?_, rfl⟩
  unfold implementsV
  have : ts.isEmpty = false := by cases ts with | nil => cases ht | cons _ _ => rfl
  simp only [this, Bool.false_eq_true, if_false]
  exact (SubL.sep .amp namedTypeV ht .refl).tail _

theorem named_union (ts : List NamedType) (w : TypeRef) (h : w ∈ namedTypes ts) :
    SubL (typeV w) (unionMembersV ts) ∧ wfType w = true := by
  simp only [namedTypes, List.mem_map] at h
  obtain ⟨t, ht, rfl⟩ := h
  refine ⟨?_, rfl⟩
  unfold unionMembersV
  have : ts.isEmpty = false := by cases ts with | nil => cases ht | cons _ _ => rfl
  simp only [this, Bool.false_eq_true, if_false]
  exact (SubL.sep .pipe namedTypeV ht .refl).tail _

theorem operationTypes_types (ops : List OperationTypeDefinition) (w : TypeRef)
    (h : w ∈ ops.map (fun o => TypeRef.named o.type)) :
    (SubL (typeV w) (ops.map operationTypeV) ∧ SubL (typeV w) (blockV operationTypeV ops)) ∧ wfType w = true := by
  simp only [List.mem_map] at h
  obtain ⟨o, ho, rfl⟩ := h
  have hs : Item.Sub (typeV (.named o.type)) (operationTypeV o) := by
    unfold operationTypeV
    exact ((SubL.head [] (.refl : Item.Sub (namedTypeV o.type) _)).tail _ |>.tail _).node _
  exact ⟨⟨SubL.map operationTypeV ho hs, SubL.block operationTypeV ho hs⟩, rfl⟩

/-- every type node of every definition -/
theorem definition_types (fl : Flags) (x : Definition) (w : TypeRef) (h : w ∈ x.types) :
    Item.Sub (typeV w) (definitionV x) ∧ (wfDefinition fl x = true → wfType w = true) := by
  cases x with
  | operation d =>
    simp only [Definition.types, List.mem_append] at h
    simp only [definitionV, wfDefinition, wfOperation, Bool.and_eq_true]
    unfold operationV
    split
    · rename_i hsh
      simp only [isShorthand, decide_eq_true_eq] at hsh
      rcases h with h | h
      · have : d.variableDefinitions = [] := by simpa using hsh.2.2.1
        simp [this] at h
      · obtain ⟨h0, h2⟩ := selectionSet_types d.selectionSet w h
        exact ⟨((SubL.head [] h0).tail _).node _, fun _ => h2⟩
    · rcases h with h | h
      · obtain ⟨h1, h2⟩ := variableDefinitions_types d.variableDefinitions w h
        exact ⟨by apply SubL.node; subl, fun hh => h2 hh.1.1.2⟩
      · obtain ⟨h0, h2⟩ := selectionSet_types d.selectionSet w h
        have h1 : SubL (typeV w) [selectionSetV d.selectionSet] := SubL.head _ h0
        exact ⟨by apply SubL.node; subl, fun _ => h2⟩
  | fragment d =>
    simp only [Definition.types, List.mem_append, List.mem_singleton] at h
    simp only [definitionV, wfDefinition, wfFragment, Bool.and_eq_true]
    unfold fragmentV
    rcases h with (h | h) | h
    · obtain ⟨h1, h2⟩ := variableDefinitions_types d.variableDefinitions w h
      exact ⟨by apply SubL.node; subl, fun hh => h2 hh.1.1.2⟩
    · subst h
      refine ⟨?_, fun _ => rfl⟩
      apply SubL.node
      apply SubL.tail; apply SubL.tail; apply SubL.right; apply SubL.tail
      exact SubL.head _ .refl
    · obtain ⟨h0, h2⟩ := selectionSet_types d.selectionSet w h
      have h1 : SubL (typeV w) [selectionSetV d.selectionSet] := SubL.head _ h0
      exact ⟨by apply SubL.node; subl, fun _ => h2⟩
  | schemaDefinition dirs ops loc =>
    obtain ⟨⟨h1, _⟩, h2⟩ := operationTypes_types ops w h
    exact ⟨by simp only [definitionV]; apply SubL.node; subl, fun _ => h2⟩
  | scalarTypeDefinition desc name dirs loc => simp [Definition.types] at h
  | objectTypeDefinition desc name ifs dirs fields loc =>
    simp only [Definition.types, List.mem_append] at h
    rcases h with h | h
    · obtain ⟨h1, h2⟩ := named_implements ifs w h
      exact ⟨by simp only [definitionV]; apply SubL.node; subl, fun _ => h2⟩
    · obtain ⟨h1, h2⟩ := fieldDefinitions_types fields w h
      exact ⟨by simp only [definitionV]; apply SubL.node; subl, fun hh => h2 (by simp [wfDefinition] at hh; simpa using hh.2)⟩
  | interfaceTypeDefinition desc name dirs fields loc =>
    obtain ⟨h1, h2⟩ := fieldDefinitions_types fields w h
    exact ⟨by simp only [definitionV]; apply SubL.node; subl, fun hh => h2 (by simp [wfDefinition] at hh; simpa using hh.2)⟩
  | unionTypeDefinition desc name dirs types loc =>
    obtain ⟨h1, h2⟩ := named_union types w h
    exact ⟨by simp only [definitionV]; apply SubL.node; subl, fun _ => h2⟩
  | enumTypeDefinition desc name dirs values loc => simp [Definition.types] at h
  | inputObjectTypeDefinition desc name dirs fields loc =>
    obtain ⟨⟨_, h1⟩, h2⟩ := inputValues_types fields w h
    exact ⟨by simp only [definitionV]; apply SubL.node; subl, fun hh => h2 (by simp [wfDefinition] at hh; simpa using hh.2)⟩
  | directiveDefinition desc name args locations loc =>
    obtain ⟨⟨h1, _⟩, h2⟩ := inputValues_types args w h
    exact ⟨by simp only [definitionV]; apply SubL.node; subl, fun hh => h2 (by simp [wfDefinition] at hh; simpa using hh.1.1)⟩
  | schemaExtension dirs ops loc =>
    obtain ⟨⟨_, h1⟩, h2⟩ := operationTypes_types ops w h
    exact ⟨by simp only [definitionV]; apply SubL.node; subl, fun _ => h2⟩
  | scalarTypeExtension name dirs loc => simp [Definition.types] at h
  | objectTypeExtension name ifs dirs fields loc =>
    simp only [Definition.types, List.mem_append] at h
    rcases h with h | h
    · obtain ⟨h1, h2⟩ := named_implements ifs w h
      exact ⟨by simp only [definitionV]; apply SubL.node; subl, fun _ => h2⟩
    · obtain ⟨h1, h2⟩ := fieldDefinitions_types fields w h
      exact ⟨by simp only [definitionV]; apply SubL.node; subl, fun hh => h2 (by simp [wfDefinition] at hh; simpa using hh.1.2)⟩
  | interfaceTypeExtension name dirs fields loc =>
    obtain ⟨h1, h2⟩ := fieldDefinitions_types fields w h
    exact ⟨by simp only [definitionV]; apply SubL.node; subl, fun hh => h2 (by simp [wfDefinition] at hh; simpa using hh.1.2)⟩
  | unionTypeExtension name dirs types loc =>
    obtain ⟨h1, h2⟩ := named_union types w h
    exact ⟨by simp only [definitionV]; apply SubL.node; subl, fun _ => h2⟩
  | enumTypeExtension name dirs values loc => simp [Definition.types] at h
  | inputObjectTypeExtension name dirs fields loc =>
    obtain ⟨⟨_, h1⟩, h2⟩ := inputValues_types fields w h
    exact ⟨by simp only [definitionV]; apply SubL.node; subl, fun hh => h2 (by simp [wfDefinition] at hh; simpa using hh.1.2)⟩

end PyGql.Spec

/-
  C12 text level, applied schema directives — the members printed by `SdlPrintTA` (input values, arguments in both
  layouts, fields, enum values, input fields) against the views of the document `schemaToDocA` denotes.
-/
import PyGqlModel.Lemmas.SdlTextADirs
namespace PyGql.SdlText
open PyGql PyGql.Ast PyGql.Sdl PyGql.Spec PyGql.PrintLex PyGql.PrintTokens PyGql.PrintMatch PyGql.PrintString PyGql.SdlPrint PyGql.Parse

abbrev dirsCls (ds : List DirApp) : List TokClass := Item.yieldAll (directivesV (ds.map dirOf))

theorem dirsCls_append (a b : List DirApp) : dirsCls (a ++ b) = dirsCls a ++ dirsCls b := by
  simp [dirsCls, directivesV, List.map_append, PrintMatch.yieldAll_append]

theorem dirsCls_nil : dirsCls [] = [] := by simp [dirsCls, directivesV, Item.yieldAll]

theorem rstrip_snoc_space (x : Text) : SdlPrintT.rstrip (x ++ [32]) = SdlPrintT.rstrip x := by
  simp [SdlPrintT.rstrip, show SdlPrintT.isWs 32 = true from rfl]

/-- `rstrip(core + print_directives(..))`: a lone space is stripped, printed applications stay -/
theorem lay_rstrip_tail {core pd : Text} {ds : List DirApp} {cls : List TokClass} (he : EndsNW core) (hf : DirsFacts pd ds)
    (hl : Lay core cls) : Lay (SdlPrintT.rstrip (core ++ pd)) (cls ++ dirsCls ds) ∧ EndsNW (SdlPrintT.rstrip (core ++ pd)) := by
  rcases hf.shape with ⟨rfl, rfl⟩ | ⟨rfl, rfl⟩ | hnw
  · rw [List.append_nil, rstrip_of_endsNW he, dirsCls_nil, List.append_nil]; exact ⟨hl, he⟩
  · rw [rstrip_snoc_space, rstrip_of_endsNW he, dirsCls_nil, List.append_nil]; exact ⟨hl, he⟩
  · rw [rstrip_of_endsNW (endsNW_append hnw)]
    exact ⟨lay_append hl hf.lay hf.delim, endsNW_append hnw⟩

/-- the same for `strip` when the core starts with a non-blank -/
theorem lay_strip_tail {c : Nat} {t pd : Text} {ds : List DirApp} {cls : List TokClass} (hc : SdlPrintT.isWs c = false)
    (he : EndsNW (c :: t)) (hf : DirsFacts pd ds) (hl : Lay (c :: t) cls) :
    Lay (SdlPrintT.strip ((c :: t) ++ pd)) (cls ++ dirsCls ds) ∧ EndsNW (SdlPrintT.strip ((c :: t) ++ pd)) ∧
      ∃ t', SdlPrintT.strip ((c :: t) ++ pd) = c :: t' := by
  obtain ⟨h1, h2⟩ := lay_rstrip_tail he hf hl
  have hr : ∃ t', SdlPrintT.rstrip ((c :: t) ++ pd) = c :: t' := by
    rcases hf.shape with ⟨rfl, rfl⟩ | ⟨rfl, rfl⟩ | hnw
    · exact ⟨t, by rw [List.append_nil, rstrip_of_endsNW he]⟩
    · exact ⟨t, by rw [rstrip_snoc_space, rstrip_of_endsNW he]⟩
    · exact ⟨t ++ pd, by rw [rstrip_of_endsNW (endsNW_append hnw)]; rfl⟩
  obtain ⟨t', ht'⟩ := hr
  have hs : SdlPrintT.strip ((c :: t) ++ pd) = c :: t' := by
    unfold SdlPrintT.strip; rw [ht', lstrip_of_head c t' hc]
  rw [hs]; rw [ht'] at h1 h2
  exact ⟨h1, h2, t', rfl⟩

/-! ### input values -/

/-- the tokens of an input value with its applied directives, without its description -/
def ivCoreA (s : SchemaD) (c : SdlPrintTA.OptsA) (apps : Apps) (path : String) (a : ArgD) : List TokClass :=
  ivCore s a ++ dirsCls (SdlPrintTA.keptAt c apps (path ++ "." ++ a.name))

theorem inputValueVA_yield (s : SchemaD) (c : SdlPrintTA.OptsA) (apps : Apps) (path : String) (a : ArgD) :
    (inputValueV (inputValOf (SdlPrintTA.argToDefA s c apps path a))).yield =
      Item.yieldAll (descV (descOf (descToDoc a.desc))) ++ ivCoreA s c apps path a := by
  simp [inputValueV, inputValOf, SdlPrintTA.argToDefA, argToDef, ivCore, ivCoreA, dirsCls, dfltOf, nameV, Item.yield, Item.yieldAll,
    PrintMatch.yieldAll_append]

/-- the conditions on one argument that do not concern its description -/
def ArgCoreA (s : SchemaD) (c : SdlPrintTA.OptsA) (apps : Apps) (path : String) (a : ArgD) : Prop :=
  ArgCore s a ∧ DirsFacts (SdlPrintTA.printDirectives c apps (path ++ "." ++ a.name)) (SdlPrintTA.keptAt c apps (path ++ "." ++ a.name))

theorem lay_inputValueCoreA (s : SchemaD) (c : SdlPrintTA.OptsA) (apps : Apps) (path : String) (a : ArgD)
    (h : ArgCoreA s c apps path a) :
    Lay (SdlPrintTA.printInputValue s c apps path a) (ivCoreA s c apps path a) ∧ SdlPrintTA.printInputValue s c apps path a ≠ [] := by
  obtain ⟨⟨hn, ht, hd⟩, hf⟩ := h
  obtain ⟨ch, t, hct, hcw⟩ := headNW_name (w := T a.name) hn
  have hcoreL := lay_inputValueCore s a hn ht hd
  rw [printInputValue_eq s a hn ht hd] at hcoreL
  have hends : EndsNW (T a.name ++ 58 :: 32 :: (SdlPrintT.renderTy a.type ++ defaultTxt s a)) := by
    apply endsNW_append
    have : EndsNW (SdlPrintT.renderTy a.type ++ defaultTxt s a) := endsNW_append_nil (endsNW_renderTy _ ht) hd.2
    obtain ⟨l, hl, hlw⟩ := this
    refine ⟨l, ?_, hlw⟩
    have hne : SdlPrintT.renderTy a.type ++ defaultTxt s a ≠ [] := by
      intro e; rw [e] at hl; cases hl
    rw [List.getLast?_cons, List.getLast?_cons, hl]; rfl
  have hform : (if a.hasDefault then (T a.name ++ [58, 32] ++ SdlPrintT.renderTy a.type) ++ [32, 61, 32] ++ SdlPrintT.valueText s a.default a.type
      else T a.name ++ [58, 32] ++ SdlPrintT.renderTy a.type) =
      T a.name ++ 58 :: 32 :: (SdlPrintT.renderTy a.type ++ defaultTxt s a) := by
    unfold defaultTxt; split <;> simp [List.append_assoc]
  unfold SdlPrintTA.printInputValue
  simp only [hform]
  rw [hct] at hends hcoreL ⊢
  simp only [List.cons_append] at hends hcoreL ⊢
  obtain ⟨h1, _, t', ht'⟩ := lay_strip_tail hcw hends hf hcoreL
  simp only [List.cons_append] at h1 ht'
  exact ⟨h1, by rw [ht']; simp⟩

/-! ### arguments -/

def ArgsPartA (s : SchemaD) (c : SdlPrintTA.OptsA) (apps : Apps) (path : String) (args : List ArgD) (depth : Nat) : Prop :=
  Lay (SdlPrintTA.printArguments s c apps path args depth)
    (Item.yieldAll (groupV .parenL .parenR inputValueV (args.map fun a => inputValOf (SdlPrintTA.argToDefA s c apps path a)))) ∧
  DelimHead (SdlPrintTA.printArguments s c apps path args depth)

theorem lay_arguments_onelineA (s : SchemaD) (c : SdlPrintTA.OptsA) (apps : Apps) (path : String) (args : List ArgD) (depth : Nat)
    (hm : SdlPrintT.multiArgs c.base args = false) (hnd : ∀ a ∈ args, descToDoc a.desc = none)
    (hc : ∀ a ∈ args, ArgCoreA s c apps path a) : ArgsPartA s c apps path args depth := by
  cases args with
  | nil => exact ⟨by simpa [SdlPrintTA.printArguments, groupV, Item.yieldAll] using lay_nil,
      by simpa [SdlPrintTA.printArguments] using delimHead_nil⟩
  | cons a as =>
    have hargs : ∀ (i : Nat) (l : List ArgD), SdlPrintTA.printArgs s c apps path depth false i l =
        l.map (SdlPrintTA.printInputValue s c apps path) := by
      intro i l
      induction l generalizing i with
      | nil => rfl
      | cons x xs ih => simp [SdlPrintTA.printArgs, ih]
    let ps : List LP := (a :: as).map fun x => (SdlPrintTA.printInputValue s c apps path x, ivCoreA s c apps path x)
    have hps : ∀ p ∈ ps, Lay p.1 p.2 := by
      intro p hp; simp only [ps, List.mem_map] at hp; obtain ⟨x, hx, rfl⟩ := hp
      exact (lay_inputValueCoreA s c apps path x (hc x hx)).1
    have l1 := lay_joinSep [44, 32] [] sep_comma (fun b => delimHead_cons (by decide)) ps hps
    have ef : ps.map Prod.fst = (a :: as).map (SdlPrintTA.printInputValue s c apps path) := by
      simp [ps, List.map_map, Function.comp_def]
    have ey : joinCls [] ps = Item.yieldAll (((a :: as).map fun x => inputValOf (SdlPrintTA.argToDefA s c apps path x)).map inputValueV) := by
      rw [joinCls_nil, yieldAll_map]
      simp only [ps, List.flatMap_map]
      apply flatMap_congr'
      intro x hx
      rw [inputValueVA_yield, hnd x hx]
      simp [descOf, descV, optV, Item.yieldAll]
    rw [ef, ey] at l1
    have htxt : SdlPrintTA.printArguments s c apps path (a :: as) depth =
        40 :: (Print.joinSep [44, 32] ((a :: as).map (SdlPrintTA.printInputValue s c apps path)) ++ [41]) := by
      simp [SdlPrintTA.printArguments, hm, hargs, joinSep_eq]
    rw [ArgsPartA, htxt]
    refine ⟨?_, delimHead_cons (by decide)⟩
    have := lay_parenL (lay_append l1 (lay_parenR lay_nil) (delimHead_cons (by decide)))
    simpa [groupV, Item.yieldAll, Item.yield, PrintMatch.yieldAll_append] using this

theorem lay_arguments_multiA (s : SchemaD) (c : SdlPrintTA.OptsA) (apps : Apps) (path : String) (hind : Blank c.base.indent)
    (args : List ArgD) (depth : Nat) (hm : SdlPrintT.multiArgs c.base args = true) (hd : ArgDescs c.base args (depth + 1))
    (hc : ∀ a ∈ args, ArgCoreA s c apps path a) : ArgsPartA s c apps path args depth := by
  have hI := blank_repeatText c.base.indent hind depth
  have key : ∀ (l : List ArgD) (i : Nat), (∀ a ∈ l, a ∈ args) →
      Lay (Print.joinSep [10] (SdlPrintTA.printArgs s c apps path depth true i l))
        (Item.yieldAll (l.map fun a => inputValueV (inputValOf (SdlPrintTA.argToDefA s c apps path a)))) := by
    intro l
    induction l with
    | nil => intro i _; simpa [SdlPrintTA.printArgs, Print.joinSep, Item.yieldAll] using lay_nil
    | cons x xs ih =>
      intro i hl
      have lx : Lay (SdlPrintT.printDescription c.base x.desc (depth + 1) (i == 0) ++ c.base.indent ++
          SdlPrintT.repeatText c.base.indent depth ++ SdlPrintTA.printInputValue s c apps path x)
          (inputValueV (inputValOf (SdlPrintTA.argToDefA s c apps path x))).yield := by
        have := lay_desc_then (hd (i == 0) x (hl x (by simp)))
          (lay_blank_prefix hind (lay_blank_prefix hI (lay_inputValueCoreA s c apps path x (hc x (hl x (by simp)))).1))
        rw [inputValueVA_yield]
        simpa [List.append_assoc] using this
      cases xs with
      | nil => simpa [SdlPrintTA.printArgs, Print.joinSep, Item.yieldAll] using lx
      | cons y ys =>
        have ih' := ih (i + 1) (fun z hz => hl z (by simp [hz]))
        have := lay_append lx (lay_lf_cons ih') (delimHead_cons (by decide))
        simp only [SdlPrintTA.printArgs] at ih' this ⊢
        simpa [Print.joinSep, Item.yieldAll, List.append_assoc] using this
  have hne : args.isEmpty = false := by
    cases args with
    | nil => simp [SdlPrintT.multiArgs] at hm
    | cons _ _ => rfl
  have htxt : SdlPrintTA.printArguments s c apps path args depth =
      SdlPrintT.repeatText c.base.indent depth ++ 40 :: 10 :: (Print.joinSep [10] (SdlPrintTA.printArgs s c apps path depth true 0 args) ++
        10 :: (SdlPrintT.repeatText c.base.indent depth ++ [41])) := by
    simp [SdlPrintTA.printArguments, hm, hne, joinSep_eq, List.append_assoc]
  rw [ArgsPartA, htxt]
  constructor
  · have l1 := lay_blank_prefix hI (lay_parenL (lay_lf_cons (lay_append (key args 0 (fun a h => h))
      (lay_lf_cons (lay_blank_prefix hI (lay_parenR lay_nil))) (delimHead_cons (by decide)))))
    simpa [groupV, hne, Item.yieldAll, Item.yield, PrintMatch.yieldAll_append, List.map_map, Function.comp_def] using l1
  · intro ch t e
    cases hr : SdlPrintT.repeatText c.base.indent depth with
    | nil => rw [hr] at e; cases e; decide
    | cons c' t' =>
      rw [hr] at e hI; cases e
      rcases hI ch (by simp) with rfl | rfl <;> decide

/-! ### fields, enum values, input fields -/

theorem lay_fieldA (s : SchemaD) (c : SdlPrintTA.OptsA) (apps : Apps) (tname : String) (hind : Blank c.base.indent) (i : Nat)
    (f : FieldD) (hn : nameOK f.name = true) (ht : tyOK f.type = true)
    (hdesc : DescPart (SdlPrintT.printDescription c.base f.desc 1 (i == 0)) (Item.yieldAll (descV (descOf (descToDoc f.desc)))))
    (hargs : ArgsPartA s c apps (tname ++ "." ++ f.name) f.args 1)
    (hf : DirsFacts (SdlPrintTA.printDirectives c apps (tname ++ "." ++ f.name)) (SdlPrintTA.keptAt c apps (tname ++ "." ++ f.name))) :
    Lay (SdlPrintTA.printField s c apps tname i f) (fieldDefinitionV (fieldOf (SdlPrintTA.fieldToDefA s c apps tname f))).yield ∧
      SdlPrintTA.printField s c apps tname i f ≠ [] := by
  obtain ⟨ldep, ddep, edep⟩ := lay_deprecated f.deprecated
  have hends : EndsNW (SdlPrintT.printDescription c.base f.desc 1 (i == 0) ++ c.base.indent ++ T f.name ++
      SdlPrintTA.printArguments s c apps (tname ++ "." ++ f.name) f.args 1 ++
      [58, 32] ++ SdlPrintT.renderTy f.type ++ SdlPrintT.printDeprecated f.deprecated) :=
    endsNW_append_nil (endsNW_append (endsNW_renderTy _ ht)) edep
  have l1 := lay_colon (lay_space_cons (lay_append (lay_renderTy f.type ht) ldep ddep))
  have l2 := lay_append (lay_nameOf f.name hn) (lay_append hargs.1 l1 (delimHead_cons (by decide)))
    (delimHead_append hargs.2 (delimHead_cons (by decide)))
  have l3 := lay_desc_then hdesc (lay_blank_prefix hind l2)
  have etxt : SdlPrintT.printDescription c.base f.desc 1 (i == 0) ++ c.base.indent ++ T f.name ++
      SdlPrintTA.printArguments s c apps (tname ++ "." ++ f.name) f.args 1 ++
      [58, 32] ++ SdlPrintT.renderTy f.type ++ SdlPrintT.printDeprecated f.deprecated =
      SdlPrintT.printDescription c.base f.desc 1 (i == 0) ++ (c.base.indent ++ (T f.name ++
      (SdlPrintTA.printArguments s c apps (tname ++ "." ++ f.name) f.args 1 ++
      58 :: 32 :: (SdlPrintT.renderTy f.type ++ SdlPrintT.printDeprecated f.deprecated)))) := by simp [List.append_assoc]
  rw [etxt] at hends
  obtain ⟨h1, h2⟩ := lay_rstrip_tail hends hf l3
  unfold SdlPrintTA.printField
  simp only [etxt]
  refine ⟨?_, by obtain ⟨ch, hc, _⟩ := h2; intro e; rw [e] at hc; cases hc⟩
  simpa [fieldDefinitionV, fieldOf, SdlPrintTA.fieldToDefA, nameV, dirsCls, directivesV, Item.yield, Item.yieldAll,
    PrintMatch.yieldAll_append, List.append_assoc, List.map_map, Function.comp_def] using h1

theorem lay_enumValueA (c : SdlPrintTA.OptsA) (apps : Apps) (tname : String) (hind : Blank c.base.indent) (i : Nat) (v : EnumValD)
    (hn : nameOK v.name = true)
    (hdesc : DescPart (SdlPrintT.printDescription c.base v.desc 1 (i == 0)) (Item.yieldAll (descV (descOf (descToDoc v.desc)))))
    (hf : DirsFacts (SdlPrintTA.printDirectives c apps (tname ++ "." ++ v.name)) (SdlPrintTA.keptAt c apps (tname ++ "." ++ v.name))) :
    Lay (SdlPrintTA.printEnumValue c apps tname i v) (enumValueDefinitionV (enumValOf (SdlPrintTA.enumValToDefA c apps tname v))).yield ∧
    SdlPrintTA.printEnumValue c apps tname i v ≠ [] := by
  obtain ⟨ldep, ddep, edep⟩ := lay_deprecated v.deprecated
  have hends : EndsNW (SdlPrintT.printDescription c.base v.desc 1 (i == 0) ++ c.base.indent ++ T v.name ++
      SdlPrintT.printDeprecated v.deprecated) :=
    endsNW_append_nil (endsNW_append (endsNW_name hn)) edep
  have l3 := lay_desc_then hdesc (lay_blank_prefix hind (lay_append (lay_nameOf v.name hn) ldep ddep))
  have etxt : SdlPrintT.printDescription c.base v.desc 1 (i == 0) ++ c.base.indent ++ T v.name ++
      SdlPrintT.printDeprecated v.deprecated =
      SdlPrintT.printDescription c.base v.desc 1 (i == 0) ++ (c.base.indent ++ (T v.name ++
      SdlPrintT.printDeprecated v.deprecated)) := by simp [List.append_assoc]
  rw [etxt] at hends
  obtain ⟨h1, h2⟩ := lay_rstrip_tail hends hf l3
  unfold SdlPrintTA.printEnumValue
  simp only [etxt]
  refine ⟨?_, by obtain ⟨ch, hc, _⟩ := h2; intro e; rw [e] at hc; cases hc⟩
  simpa [enumValueDefinitionV, enumValOf, SdlPrintTA.enumValToDefA, nameV, dirsCls, directivesV, Item.yield, Item.yieldAll,
    PrintMatch.yieldAll_append, List.append_assoc] using h1

theorem lay_inputFieldA (s : SchemaD) (c : SdlPrintTA.OptsA) (apps : Apps) (tname : String) (hind : Blank c.base.indent) (i : Nat)
    (a : ArgD) (hc : ArgCoreA s c apps tname a)
    (hdesc : DescPart (SdlPrintT.printDescription c.base a.desc 1 (i == 0)) (Item.yieldAll (descV (descOf (descToDoc a.desc))))) :
    Lay (SdlPrintTA.printInputField s c apps tname i a) (inputValueV (inputValOf (SdlPrintTA.argToDefA s c apps tname a))).yield ∧
    SdlPrintTA.printInputField s c apps tname i a ≠ [] := by
  obtain ⟨hl, hne⟩ := lay_inputValueCoreA s c apps tname a hc
  refine ⟨?_, by unfold SdlPrintTA.printInputField; intro e; exact hne (List.append_eq_nil_iff.1 e).2⟩
  have l3 := lay_desc_then hdesc (lay_blank_prefix hind hl)
  rw [inputValueVA_yield]
  simpa [SdlPrintTA.printInputField, List.append_assoc] using l3

end PyGql.SdlText

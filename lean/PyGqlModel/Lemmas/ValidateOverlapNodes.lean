/-
  `OverlappingFieldsCanBeMergedChecker`, part 2: structural facts. The node enumeration is closed under
  sub-selections (the sub-selection of a field collected from a selection set of the document is a selection set
  of the document), and the fragment table only holds fragment definitions of the document.
-/
import PyGqlModel.Lemmas.ValidateOverlap
namespace PyGql.Validate
open PyGql PyGql.Validate.Spec

def Node.isSelSet : Node → Bool | .selectionSet .. => true | _ => false

mutual
theorem valueNodes_noSelSet : ∀ (v : Value), ∀ n ∈ valueNodes v, n.isSelSet = false
  | .list vs, n, h => by
    rw [valueNodes, List.mem_cons] at h
    rcases h with rfl | h
    · rfl
    · exact valuesNodes_noSelSet vs n h
  | .obj fs, n, h => by
    rw [valueNodes, List.mem_cons] at h
    rcases h with rfl | h
    · rfl
    · exact objFieldsNodes_noSelSet fs n h
  | .var _, n, h => by simp only [valueNodes, List.mem_singleton] at h; subst h; rfl
  | .int _, n, h => by simp only [valueNodes, List.mem_singleton] at h; subst h; rfl
  | .float _, n, h => by simp only [valueNodes, List.mem_singleton] at h; subst h; rfl
  | .str _, n, h => by simp only [valueNodes, List.mem_singleton] at h; subst h; rfl
  | .bool _, n, h => by simp only [valueNodes, List.mem_singleton] at h; subst h; rfl
  | .null, n, h => by simp only [valueNodes, List.mem_singleton] at h; subst h; rfl
  | .enum _, n, h => by simp only [valueNodes, List.mem_singleton] at h; subst h; rfl
theorem valuesNodes_noSelSet : ∀ (vs : List Value), ∀ n ∈ valuesNodes vs, n.isSelSet = false
  | [], _, h => by cases h
  | v :: vs, n, h => by
    rw [valuesNodes, List.mem_append] at h
    rcases h with h | h
    · exact valueNodes_noSelSet v n h
    · exact valuesNodes_noSelSet vs n h
theorem objFieldNodes_noSelSet : ∀ (f : ObjField), ∀ n ∈ objFieldNodes f, n.isSelSet = false
  | .mk _ v, n, h => by
    rw [objFieldNodes, List.mem_cons] at h
    rcases h with rfl | h
    · rfl
    · exact valueNodes_noSelSet v n h
theorem objFieldsNodes_noSelSet : ∀ (fs : List ObjField), ∀ n ∈ objFieldsNodes fs, n.isSelSet = false
  | [], _, h => by cases h
  | f :: fs, n, h => by
    rw [objFieldsNodes, List.mem_append] at h
    rcases h with h | h
    · exact objFieldNodes_noSelSet f n h
    · exact objFieldsNodes_noSelSet fs n h
end

theorem argsNodes_noSelSet (as : List Arg) : ∀ n ∈ argsNodes as, n.isSelSet = false := by
  intro n h
  simp only [argsNodes, List.mem_flatMap, argNodes, List.mem_cons] at h
  obtain ⟨a, _, rfl | h⟩ := h
  · rfl
  · exact valueNodes_noSelSet _ n h

theorem dirsNodes_noSelSet (ds : List Dir) : ∀ n ∈ dirsNodes ds, n.isSelSet = false := by
  intro n h
  simp only [dirsNodes, List.mem_flatMap, dirNodes, List.mem_cons] at h
  obtain ⟨d, _, rfl | h⟩ := h
  · rfl
  · exact argsNodes_noSelSet _ n h

theorem varDefsNodes_noSelSet (vs : List VarDef) : ∀ n ∈ vs.flatMap varDefNodes, n.isSelSet = false := by
  intro n h
  simp only [List.mem_flatMap, varDefNodes, List.mem_cons, List.mem_append, List.not_mem_nil, or_false] at h
  obtain ⟨v, _, rfl | h | rfl | h⟩ := h
  · rfl
  · cases hd : v.default with
    | none => rw [hd] at h; cases h
    | some dv => rw [hd] at h; exact valueNodes_noSelSet dv n h
  · rfl
  · exact dirsNodes_noSelSet _ n h

theorem mem_selsNodes_of_mem {x : Sel} {xs : List Sel} (hx : x ∈ xs) : ∀ n ∈ selNodes x, n ∈ selsNodes xs := by
  induction xs with
  | nil => cases hx
  | cons y ys ih =>
    intro n hn
    rw [selsNodes, List.mem_append]
    rcases List.mem_cons.mp hx with rfl | hx'
    · exact Or.inl hn
    · exact Or.inr (ih hx' n hn)

private theorem notSel {n : Node} {i : Nat} {sels : List Sel} (h : n.isSelSet = false) (e : n = .selectionSet i sels) :
    False := by subst e; cases h

mutual
/-- the nodes of a selection are closed under "the selections of a selection set that occurs in it" -/
theorem closed_sel : ∀ (x : Sel) (i : Nat) (sels : List Sel), Node.selectionSet i sels ∈ selNodes x →
    ∀ n ∈ selsNodes sels, n ∈ selNodes x
  | .field al name args dirs true ssid sub, i, sels, h, n, hn => by
    simp only [selNodes, ↓reduceIte, List.mem_cons, List.mem_append, reduceCtorEq, false_or] at h ⊢
    rcases h with (h | h) | h | h
    · exact (notSel (argsNodes_noSelSet _ _ h) rfl).elim
    · exact (notSel (dirsNodes_noSelSet _ _ h) rfl).elim
    · cases h; exact Or.inr (Or.inr (Or.inr hn))
    · exact Or.inr (Or.inr (Or.inr (closed_sels sub i sels h n hn)))
  | .field al name args dirs false ssid sub, i, sels, h, n, hn => by
    simp only [selNodes, Bool.false_eq_true, ↓reduceIte, List.append_nil, List.mem_cons, List.mem_append, reduceCtorEq,
      false_or] at h
    rcases h with h | h
    · exact (notSel (argsNodes_noSelSet _ _ h) rfl).elim
    · exact (notSel (dirsNodes_noSelSet _ _ h) rfl).elim
  | .spread name dirs, i, sels, h, n, hn => by
    simp only [selNodes, List.mem_cons, reduceCtorEq, false_or] at h
    exact (notSel (dirsNodes_noSelSet _ _ h) rfl).elim
  | .inline on dirs id sub, i, sels, h, n, hn => by
    simp only [selNodes, List.mem_cons, List.mem_append, reduceCtorEq, false_or] at h ⊢
    rcases h with h | h | h
    · exact (notSel (dirsNodes_noSelSet _ _ h) rfl).elim
    · cases h; exact Or.inr (Or.inr (Or.inr hn))
    · exact Or.inr (Or.inr (Or.inr (closed_sels sub i sels h n hn)))
theorem closed_sels : ∀ (xs : List Sel) (i : Nat) (sels : List Sel), Node.selectionSet i sels ∈ selsNodes xs →
    ∀ n ∈ selsNodes sels, n ∈ selsNodes xs
  | [], _, _, h, _, _ => by cases h
  | x :: xs, i, sels, h, n, hn => by
    rw [selsNodes, List.mem_append] at h ⊢
    rcases h with h | h
    · exact Or.inl (closed_sel x i sels h n hn)
    · exact Or.inr (closed_sels xs i sels h n hn)
end

theorem closed_def (df : Def) (i : Nat) (sels : List Sel) (h : Node.selectionSet i sels ∈ defNodes df) :
    ∀ n ∈ selsNodes sels, n ∈ defNodes df := by
  intro n hn
  cases df with
  | op kind name vars dirs ssid ss =>
    simp only [defNodes, List.mem_cons, List.mem_append, reduceCtorEq, false_or] at h ⊢
    rcases h with (h | h) | h | h
    · exact (notSel (varDefsNodes_noSelSet _ _ h) rfl).elim
    · exact (notSel (dirsNodes_noSelSet _ _ h) rfl).elim
    · cases h; exact Or.inr (Or.inr (Or.inr hn))
    · exact Or.inr (Or.inr (Or.inr (closed_sels ss i sels h n hn)))
  | frag name on dirs ssid ss =>
    simp only [defNodes, List.mem_cons, List.mem_append, reduceCtorEq, false_or] at h ⊢
    rcases h with h | h | h
    · exact (notSel (dirsNodes_noSelSet _ _ h) rfl).elim
    · cases h; exact Or.inr (Or.inr (Or.inr hn))
    · exact Or.inr (Or.inr (Or.inr (closed_sels ss i sels h n hn)))
  | ts a b => simp [defNodes] at h

/-- **closure**: the selections of a selection set of the document are nodes of the document -/
theorem selSet_closed {d : Doc} {i : Nat} {sels : List Sel} (h : SelSet d i sels) : ∀ n ∈ selsNodes sels, n ∈ nodes d := by
  intro n hn
  simp only [SelSet, nodes, List.mem_cons, reduceCtorEq, false_or, List.mem_flatMap] at h ⊢
  obtain ⟨df, hdf, hm⟩ := h
  exact Or.inr ⟨df, hdf, closed_def df i sels hm n hn⟩

/-- the sub-selection of a field collected from a selection set of the document is one too -/
theorem selSet_sub {s : SchemaD} {d : Doc} {p : Option String} {sels : List Sel} {rn : String} {e : FEntry} {i : Nat}
    (h : SelSet d i sels) (hc : CollD s p sels rn e) (hs : e.hasSub = true) : SelSet d e.ssid e.sub := by
  induction hc generalizing i with
  | @field parent sels alias name args dirs hasSub ssid sub hm =>
    simp only at hs; subst hs
    apply selSet_closed h
    apply mem_selsNodes_of_mem hm
    simp [selNodes]
  | @inline parent sels on dirs id sub rn e hm _ ih =>
    refine ih (i := id) ?_ hs
    apply selSet_closed h
    apply mem_selsNodes_of_mem hm
    simp [selNodes]

/-! ### the fragment table -/

theorem get?_foldl_set {α} (l : List (String × α)) (m0 : AL α) (k : String) (v : α)
    (h : AL.get? (l.foldl (fun m f => AL.set m f.1 f.2) m0) k = some v) : (k, v) ∈ l ∨ AL.get? m0 k = some v := by
  induction l generalizing m0 with
  | nil => exact Or.inr h
  | cons f fs ih =>
    rw [List.foldl_cons] at h
    rcases ih _ h with h' | h'
    · exact Or.inl (List.mem_cons_of_mem _ h')
    · rw [AL.get?_set] at h'
      by_cases hk : k = f.1
      · rw [if_pos hk] at h'; cases h'; subst hk; exact Or.inl (List.mem_cons_self ..)
      · rw [if_neg hk] at h'; exact Or.inr h'

theorem fragTable_def {d : Doc} {name on : String} {fid : Nat} {fsels : List Sel}
    (h : AL.get? (fragTable d) name = some (on, fid, fsels)) : ∃ dirs, Def.frag name on dirs fid fsels ∈ d.defs := by
  rcases get?_foldl_set _ _ _ _ h with h' | h'
  · simp only [fragDefs, List.mem_filterMap] at h'
    obtain ⟨df, hdf, he⟩ := h'
    cases df <;> simp at he
    obtain ⟨rfl, rfl, rfl, rfl⟩ := he
    exact ⟨_, hdf⟩
  · simp [AL.get?_nil] at h'

theorem fragTable_selSet {d : Doc} {name on : String} {fid : Nat} {fsels : List Sel}
    (h : AL.get? (fragTable d) name = some (on, fid, fsels)) : SelSet d fid fsels := by
  obtain ⟨dirs, hdf⟩ := fragTable_def h
  simp only [SelSet, nodes, List.mem_cons, reduceCtorEq, false_or, List.mem_flatMap]
  exact ⟨_, hdf, by simp [defNodes]⟩

end PyGql.Validate

/-
  `Safe` for every parser function (one line each) and for the three entry points.
-/
import PyGqlModel.Lemmas.ParseRange
namespace PyGql.Parse
open PyGql PyGql.Ast

instance {n : Nat} (fl : Flags) {pv : P Value} [SafeC n pv] : SafeC n (parseObjectFieldWith fl pv) :=
  ⟨by unfold parseObjectFieldWith; safe⟩

theorem parseValueLiteral_safe (n : Nat) (fl : Flags) : ∀ k c, Safe n (parseValueLiteral fl k c) := by
  intro k
  induction k with
  | zero => intro c; exact Safe.fail _
  | succ k ih =>
    intro c
    haveI : SafeC n (parseValueLiteral fl k c) := ⟨ih c⟩
    unfold parseValueLiteral
    safe

instance (n : Nat) (fl : Flags) (k : Nat) (c : Bool) : SafeC n (parseValueLiteral fl k c) :=
  ⟨parseValueLiteral_safe n fl k c⟩

instance (n : Nat) (fl : Flags) (k : Nat) (c : Bool) : SafeC n (parseArgument fl k c) := ⟨by unfold parseArgument; safe⟩
instance (n : Nat) (fl : Flags) (k : Nat) (c : Bool) : SafeC n (parseArguments fl k c) := ⟨by unfold parseArguments; safe⟩
instance (n : Nat) (fl : Flags) (k : Nat) (c : Bool) : SafeC n (parseDirective fl k c) := ⟨by unfold parseDirective; safe⟩

theorem directivesLoop_safe (n : Nat) (fl : Flags) (fuel : Nat) (c : Bool) : ∀ k, Safe n (directivesLoop fl fuel c k) := by
  intro k
  induction k with
  | zero => exact Safe.fail _
  | succ k ih => unfold directivesLoop; safe

instance (n : Nat) (fl : Flags) (k : Nat) (c : Bool) : SafeC n (parseDirectives fl k c) :=
  ⟨directivesLoop_safe n fl k c k⟩

instance (n : Nat) (fl : Flags) (k : Nat) : SafeC n (parseVariableDefinition fl k) :=
  ⟨by unfold parseVariableDefinition; safe⟩
instance (n : Nat) (fl : Flags) (k : Nat) : SafeC n (parseVariableDefinitions fl k) :=
  ⟨by unfold parseVariableDefinitions; safe⟩
instance (n : Nat) (fl : Flags) : SafeC n (parseFragmentName fl) := ⟨by unfold parseFragmentName; safe⟩

instance {n : Nat} (fl : Flags) (k : Nat) {psel : P Selection} [SafeC n psel] : SafeC n (parseSelectionSetWith fl k psel) :=
  ⟨by unfold parseSelectionSetWith; safe⟩
instance {n : Nat} (fl : Flags) (k : Nat) {pss : P SelectionSet} [SafeC n pss] : SafeC n (parseFieldWith fl k pss) :=
  ⟨by unfold parseFieldWith; safe⟩
instance {n : Nat} (fl : Flags) (k : Nat) {pss : P SelectionSet} [SafeC n pss] : SafeC n (parseFragmentWith fl k pss) :=
  ⟨by unfold parseFragmentWith; safe⟩

theorem parseSelection_safe (n : Nat) (fl : Flags) (fuel : Nat) : ∀ k, Safe n (parseSelection fl fuel k) := by
  intro k
  induction k with
  | zero => exact Safe.fail _
  | succ k ih =>
    haveI : SafeC n (parseSelection fl fuel k) := ⟨ih⟩
    unfold parseSelection
    safe

instance (n : Nat) (fl : Flags) (fuel k : Nat) : SafeC n (parseSelection fl fuel k) := ⟨parseSelection_safe n fl fuel k⟩
instance (n : Nat) (fl : Flags) (k : Nat) : SafeC n (parseSelectionSet fl k) := ⟨by unfold parseSelectionSet; safe⟩
instance (n : Nat) : SafeC n parseOperationType := ⟨by unfold parseOperationType; safe⟩
instance (n : Nat) (fl : Flags) (k : Nat) : SafeC n (parseOperationDefinition fl k) :=
  ⟨by unfold parseOperationDefinition; safe⟩
instance (n : Nat) (fl : Flags) (k : Nat) : SafeC n (parseFragmentDefinition fl k) :=
  ⟨by unfold parseFragmentDefinition; safe⟩
instance (n : Nat) (fl : Flags) (k : Nat) : SafeC n (parseExecutableDefinition fl k) :=
  ⟨by unfold parseExecutableDefinition; safe⟩

/-! ### type system -/

instance (n : Nat) (fl : Flags) : SafeC n (parseDescription fl) := ⟨by unfold parseDescription; safe⟩
instance (n : Nat) (fl : Flags) : SafeC n (parseOperationTypeDefinition fl) :=
  ⟨by unfold parseOperationTypeDefinition; safe⟩
instance (n : Nat) (fl : Flags) (k : Nat) : SafeC n (parseSchemaDefinition fl k) := ⟨by unfold parseSchemaDefinition; safe⟩
instance (n : Nat) (fl : Flags) (k : Nat) : SafeC n (parseScalarTypeDefinition fl k) :=
  ⟨by unfold parseScalarTypeDefinition; safe⟩

theorem implementsLoop_safe (n : Nat) (fl : Flags) : ∀ k, Safe n (implementsLoop fl k) := by
  intro k
  induction k with
  | zero => exact Safe.fail _
  | succ k ih => unfold implementsLoop; safe

instance (n : Nat) (fl : Flags) (k : Nat) : SafeC n (implementsLoop fl k) := ⟨implementsLoop_safe n fl k⟩
instance (n : Nat) (fl : Flags) (k : Nat) : SafeC n (parseImplementsInterfaces fl k) :=
  ⟨by unfold parseImplementsInterfaces; safe⟩
instance (n : Nat) (fl : Flags) (k : Nat) : SafeC n (parseInputValueDefinition fl k) :=
  ⟨by unfold parseInputValueDefinition; safe⟩
instance (n : Nat) (fl : Flags) (k : Nat) : SafeC n (parseArgumentDefinitions fl k) :=
  ⟨by unfold parseArgumentDefinitions; safe⟩
instance (n : Nat) (fl : Flags) (k : Nat) : SafeC n (parseFieldDefinition fl k) := ⟨by unfold parseFieldDefinition; safe⟩
instance (n : Nat) (fl : Flags) (k : Nat) : SafeC n (parseFieldsDefinition fl k) := ⟨by unfold parseFieldsDefinition; safe⟩
instance (n : Nat) (fl : Flags) (k : Nat) : SafeC n (parseObjectTypeDefinition fl k) :=
  ⟨by unfold parseObjectTypeDefinition; safe⟩
instance (n : Nat) (fl : Flags) (k : Nat) : SafeC n (parseInterfaceTypeDefinition fl k) :=
  ⟨by unfold parseInterfaceTypeDefinition; safe⟩
instance (n : Nat) (fl : Flags) (k : Nat) : SafeC n (parseUnionMemberTypes fl k) := ⟨by unfold parseUnionMemberTypes; safe⟩
instance (n : Nat) (fl : Flags) (k : Nat) : SafeC n (parseUnionTypeDefinition fl k) :=
  ⟨by unfold parseUnionTypeDefinition; safe⟩
instance (n : Nat) (fl : Flags) (k : Nat) : SafeC n (parseEnumValueDefinition fl k) :=
  ⟨by unfold parseEnumValueDefinition; safe⟩
instance (n : Nat) (fl : Flags) (k : Nat) : SafeC n (parseEnumValuesDefinition fl k) :=
  ⟨by unfold parseEnumValuesDefinition; safe⟩
instance (n : Nat) (fl : Flags) (k : Nat) : SafeC n (parseEnumTypeDefinition fl k) :=
  ⟨by unfold parseEnumTypeDefinition; safe⟩
instance (n : Nat) (fl : Flags) (k : Nat) : SafeC n (parseInputFieldsDefinition fl k) :=
  ⟨by unfold parseInputFieldsDefinition; safe⟩
instance (n : Nat) (fl : Flags) (k : Nat) : SafeC n (parseInputObjectTypeDefinition fl k) :=
  ⟨by unfold parseInputObjectTypeDefinition; safe⟩
instance (n : Nat) (fl : Flags) : SafeC n (parseDirectiveLocation fl) := ⟨by unfold parseDirectiveLocation; safe⟩
instance (n : Nat) (fl : Flags) (k : Nat) : SafeC n (parseDirectiveLocations fl k) :=
  ⟨by unfold parseDirectiveLocations; safe⟩
instance (n : Nat) (fl : Flags) (k : Nat) : SafeC n (parseDirectiveDefinition fl k) :=
  ⟨by unfold parseDirectiveDefinition; safe⟩
instance (n : Nat) (fl : Flags) (k : Nat) : SafeC n (parseTypeSystemDefinition fl k) :=
  ⟨by unfold parseTypeSystemDefinition; safe⟩
instance (n : Nat) (fl : Flags) (k : Nat) : SafeC n (parseSchemaExtension fl k) := ⟨by unfold parseSchemaExtension; safe⟩
instance (n : Nat) (fl : Flags) (k : Nat) : SafeC n (parseScalarTypeExtension fl k) :=
  ⟨by unfold parseScalarTypeExtension; safe⟩
instance (n : Nat) (fl : Flags) (k : Nat) : SafeC n (parseObjectTypeExtension fl k) :=
  ⟨by unfold parseObjectTypeExtension; safe⟩
instance (n : Nat) (fl : Flags) (k : Nat) : SafeC n (parseInterfaceTypeExtension fl k) :=
  ⟨by unfold parseInterfaceTypeExtension; safe⟩
instance (n : Nat) (fl : Flags) (k : Nat) : SafeC n (parseUnionTypeExtension fl k) :=
  ⟨by unfold parseUnionTypeExtension; safe⟩
instance (n : Nat) (fl : Flags) (k : Nat) : SafeC n (parseEnumTypeExtension fl k) :=
  ⟨by unfold parseEnumTypeExtension; safe⟩
instance (n : Nat) (fl : Flags) (k : Nat) : SafeC n (parseInputObjectTypeExtension fl k) :=
  ⟨by unfold parseInputObjectTypeExtension; safe⟩
instance (n : Nat) (fl : Flags) (k : Nat) : SafeC n (parseTypeSystemExtension fl k) :=
  ⟨by unfold parseTypeSystemExtension; safe⟩

/-! ### definitions, documents, entry points -/

instance (n : Nat) (fl : Flags) (k : Nat) : SafeC n (parseDefinition fl k) := ⟨by unfold parseDefinition; safe⟩
instance (n : Nat) (fl : Flags) (k : Nat) : SafeC n (parseDocumentP fl k) := ⟨by unfold parseDocumentP; safe⟩
instance (n : Nat) (fl : Flags) (k : Nat) : SafeC n (parseValueP fl k) := ⟨by unfold parseValueP; safe⟩
instance (n : Nat) (fl : Flags) (k : Nat) : SafeC n (parseTypeP fl k) := ⟨by unfold parseTypeP; safe⟩

/-- the entry-point wrapper: every error of `runAll p toks` is inside the text when the tokens are -/
theorem runAll_in_range {α} (n : Nat) (p : Nat → P α) (hp : ∀ k, Safe n (p k)) (toks : List Tok)
    (hr : ∀ t ∈ toks, TokR n t) (e : SynErr) (h : runAll p toks = .error e) : e.pos ≤ n := by
  unfold runAll at h
  have hs : InR n ⟨toks, default⟩ := ⟨hr, Nat.zero_le _⟩
  have := (hp (toks.length + 1)).out _ hs
  split at h
  · rename_i a s hps
    rw [hps] at this
    split at h
    · cases h
    · rename_i t tl hts
      cases h
      exact (this.1 t (by simp [hts])).1
  · rename_i e' hps
    rw [hps] at this
    cases h
    exact this

end PyGql.Parse

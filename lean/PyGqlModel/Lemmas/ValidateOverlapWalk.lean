/-
  `OverlappingFieldsCanBeMergedChecker`, part 6: `find_conflicts_within_selection_set`, and the walk of the rule run
  alone: when the clause `Spec.overlappingFieldsCanBeMerged` holds, no selection set adds an error.
-/
import PyGqlModel.Lemmas.ValidateOverlapSearch3
import PyGqlModel.Lemmas.ValidateTypedR
import PyGqlModel.Lemmas.ValidateVarsNodes
namespace PyGql.Validate
open PyGql PyGql.Validate.Spec

theorem mem_pairsOf {α} {l : List α} {x y : α} (h : (x, y) ∈ pairsOf l) : x ∈ l ∧ y ∈ l := by
  induction l with
  | nil => cases h
  | cons a as ih =>
    rw [pairsOf, List.mem_append] at h
    rcases h with h | h
    · obtain ⟨z, hz, e⟩ := List.mem_map.mp h
      cases e
      exact ⟨List.mem_cons_self .., List.mem_cons_of_mem _ hz⟩
    · obtain ⟨h1, h2⟩ := ih h
      exact ⟨List.mem_cons_of_mem _ h1, List.mem_cons_of_mem _ h2⟩

/-- **`find_conflicts_within_selection_set`**: a positive count comes with two conflicting fields of the set -/
theorem within_sound (s : SchemaD) (fx : Fixes) (d : Doc) (h7 : fx.v7 = true) (p : Option String) (i : Nat)
    (sels : List Sel) (c : OCtx) (hc : CI s d c) (h1 : SelSet d i sels) (h2 : Adm s d i p) :
    CI s d (withinSelectionSet s fx p i sels c).2 ∧
    (0 < (withinSelectionSet s fx p i sels c).1 →
      ∃ p' rn e1 e2, Adm s d i p' ∧ Coll s d p' sels rn e1 ∧ Coll s d p' sels rn e2 ∧ Conf s d false e1 e2) := by
  obtain ⟨sf, _, sff, sfr, _⟩ := search_sound s fx d h7 overlapFuel
  simp only [withinSelectionSet, conflictsWithin]
  obtain ⟨x1, x2, p', x3, x4, x5⟩ := ff_set s d hc h1 h2
  generalize fieldsAndFragments s p i sels c = ra at x1 x2 x4 x5 ⊢
  obtain ⟨⟨fm, fr⟩, ca⟩ := ra
  simp only at x1 x2 x4 x5 ⊢
  let G : Prop := ∃ q rn e1 e2, Adm s d i q ∧ Coll s d q sels rn e1 ∧ Coll s d q sels rn e2 ∧ Conf s d false e1 e2
  obtain ⟨r01, r02⟩ := sumLoop_spec' fm
    (fun x c => sumLoop (pairsOf x.2) (fun y c =>
      (if (findConflict s fx overlapFuel false y.1 y.2 c).1 = true then 1 else 0,
       (findConflict s fx overlapFuel false y.1 y.2 c).2)) c) (CI s d)
    (fun q => ∃ e1 e2, e1 ∈ q.2 ∧ e2 ∈ q.2 ∧ Conf s d false e1 e2) G
    (fun q hq c hc => sumLoop_spec' (pairsOf q.2) _ (CI s d) (fun y => Conf s d false y.1 y.2) _
      (fun y hy c hc => by
        obtain ⟨m1, m2⟩ := mem_pairsOf hy
        obtain ⟨w1, w2⟩ := sf false y.1 y.2 c hc (x2 q hq _ m1) (x2 q hq _ m2)
        refine ⟨w1, fun h => w2 ?_⟩
        cases hb : (findConflict s fx overlapFuel false y.1 y.2 c).1 with
        | true => rfl
        | false => rw [hb] at h; simp at h)
      (fun y hy hQ => ⟨y.1, y.2, (mem_pairsOf hy).1, (mem_pairsOf hy).2, hQ⟩) c hc)
    (fun q hq hQ => by
      obtain ⟨e1, e2, m1, m2, hcf⟩ := hQ
      exact ⟨p', q.1, e1, e2, x3, x4 q.1 e1 ⟨q.2, hq, m1⟩, x4 q.1 e2 ⟨q.2, hq, m2⟩, hcf⟩) ca x1
  obtain ⟨r11, r12⟩ := withFreshCmp_spec s d
    (fun c => sumLoop fr (fun g c => betweenFieldsAndFragment s fx overlapFuel false i fm g c) c) G
    (fun c hc => sumLoop_spec' fr _ (CI s d)
      (fun g => ∃ rn e1 e2, Has fm rn e1 ∧ CollF s d g rn e2 ∧ Conf s d false e1 e2) G
      (fun g _ c hc => sff false i fm g c hc x2)
      (fun g hg hQ => by
        obtain ⟨rn, e1, e2, z1, z2, z3⟩ := hQ
        exact ⟨p', rn, e1, e2, x3, x4 rn e1 z1, x5 g hg rn e2 z2, z3⟩) c hc) _ r01
  obtain ⟨r21, r22⟩ := sumLoop_spec' (pairsOf fr)
    (fun y c => betweenFragments s fx overlapFuel false (some y.1) (some y.2) c) (CI s d)
    (fun y => ∃ rn e1 e2, CollF s d y.1 rn e1 ∧ CollF s d y.2 rn e2 ∧ Conf s d false e1 e2) G
    (fun y _ c hc => by
      obtain ⟨w1, w2⟩ := sfr false (some y.1) (some y.2) c hc
      refine ⟨w1, fun h => ?_⟩
      obtain ⟨g1, g2, rn, e1, e2, z1, z2, z3, z4, z5⟩ := w2 h
      cases z1; cases z2
      exact ⟨rn, e1, e2, z3, z4, z5⟩)
    (fun y hy hQ => by
      obtain ⟨rn, e1, e2, z3, z4, z5⟩ := hQ
      obtain ⟨m1, m2⟩ := mem_pairsOf hy
      exact ⟨p', rn, e1, e2, x3, x5 y.1 m1 rn e1 z3, x5 y.2 m2 rn e2 z4, z5⟩) _ r11
  refine ⟨r21, fun h => ?_⟩
  by_cases h0 : 0 < (sumLoop fm (fun x c => sumLoop (pairsOf x.2) (fun y c =>
      (if (findConflict s fx overlapFuel false y.1 y.2 c).1 = true then 1 else 0,
       (findConflict s fx overlapFuel false y.1 y.2 c).2)) c) ca).1
  · exact r02 h0
  · by_cases h1 : 0 < (withFreshCmp (fun c => sumLoop fr
        (fun g c => betweenFieldsAndFragment s fx overlapFuel false i fm g c) c)
        (sumLoop fm (fun x c => sumLoop (pairsOf x.2) (fun y c =>
          (if (findConflict s fx overlapFuel false y.1 y.2 c).1 = true then 1 else 0,
           (findConflict s fx overlapFuel false y.1 y.2 c).2)) c) ca).2).1
    · exact r12 h1
    · exact r22 (by omega)

end PyGql.Validate

/-
  C04 — `collect_fields` (model) and `CollectFields` (specification) as producers of VISIT SEQUENCES:
  `mseq` / `sseq` return the list of collected nodes in depth-first order; the grouped field set is `addSeq` of it.
-/
import PyGqlModel.Spec.ExecSpec
import PyGqlModel.Lemmas.C04Groups

set_option linter.unusedSimpArgs false
set_option linter.unusedVariables false

namespace PyGql.Props.C04
open PyGql PyGql.Exec PyGql.Spec

abbrev SeqRes := R (List FNode × List String)

def mkNode (key name : String) (loc : Nat) (args : List (String × Option String)) (hs : Bool) (sub : List Sel) : FNode :=
  { key := key, name := name, loc := loc, args := args, hasSub := hs, sub := sub }

/-- the model's loop, returning the visit sequence -/
def mseqStep (s : SchemaD) (doc : Doc) (vars : Vars) (rec : String → List Sel → List String → SeqRes) (obj : String) :
    List Sel → List String → SeqRes
  | [], seen => .ok ([], seen)
  | .field key name loc dirs args hs sub :: rest, seen => do
    if (← skipSelection vars dirs) then mseqStep s doc vars rec obj rest seen
    else do
      let (q, s') ← mseqStep s doc vars rec obj rest seen
      pure (mkNode key name loc args hs sub :: q, s')
  | .inline on dirs sub :: rest, seen => do
    let skipped ← skipSelection vars dirs
    let drop ← if skipped then pure true else do pure (!(← fragmentTypeApplies s obj on))
    if drop then mseqStep s doc vars rec obj rest seen
    else do
      let (q1, seen') ← rec obj sub seen
      let seen2 := if seen.isEmpty then seen else seen'
      let (q2, s'') ← mseqStep s doc vars rec obj rest seen2
      pure (q1 ++ q2, s'')
  | .spread name dirs :: rest, seen => do
    match doc.fragment? name with
    | none => .error (.internal "KeyError")
    | some fr =>
      let skipped ← skipSelection vars dirs
      let drop ← if skipped then pure true else
        if seen.contains name then pure true else do pure (!(← fragmentTypeApplies s obj (some fr.on)))
      if drop then mseqStep s doc vars rec obj rest seen
      else do
        let (q1, seen') ← rec obj fr.sels seen
        let seen2 := if seen.isEmpty then seen else seen'
        let seen3 := if seen2.contains name then seen2 else seen2 ++ [name]
        let (q2, s'') ← mseqStep s doc vars rec obj rest seen3
        pure (q1 ++ q2, s'')

def mseq (s : SchemaD) (doc : Doc) (vars : Vars) : Nat → String → List Sel → List String → SeqRes
  | 0 => fun _ _ _ => .error .outOfFuel
  | n + 1 => fun obj sels seen => mseqStep s doc vars (mseq s doc vars n) obj sels seen

/-- the specification's loop, returning the visit sequence -/
def sseqStep (s : SchemaD) (doc : Doc) (vars : Vars) (rec : String → List Sel → List String → SeqRes) (obj : String) :
    List Sel → List String → SeqRes
  | [], visited => .ok ([], visited)
  | .field key name loc dirs args hs sub :: rest, visited => do
    if (← skipSelection vars dirs) then sseqStep s doc vars rec obj rest visited
    else do
      let (q, v') ← sseqStep s doc vars rec obj rest visited
      pure (mkNode key name loc args hs sub :: q, v')
  | .spread name dirs :: rest, visited => do
    if (← skipSelection vars dirs) then sseqStep s doc vars rec obj rest visited
    else if visited.contains name then sseqStep s doc vars rec obj rest visited
    else
      let visited := visited ++ [name]
      match doc.fragment? name with
      | none => sseqStep s doc vars rec obj rest visited
      | some fr => do
        if !(← fragmentTypeApplies s obj (some fr.on)) then sseqStep s doc vars rec obj rest visited
        else do
          let (q1, visited') ← rec obj fr.sels visited
          let (q2, v'') ← sseqStep s doc vars rec obj rest visited'
          pure (q1 ++ q2, v'')
  | .inline on dirs sub :: rest, visited => do
    if (← skipSelection vars dirs) then sseqStep s doc vars rec obj rest visited
    else if !(← fragmentTypeApplies s obj on) then sseqStep s doc vars rec obj rest visited
    else do
      let (q1, visited') ← rec obj sub visited
      let (q2, v'') ← sseqStep s doc vars rec obj rest visited'
      pure (q1 ++ q2, v'')

def sseq (s : SchemaD) (doc : Doc) (vars : Vars) : Nat → String → List Sel → List String → SeqRes
  | 0 => fun _ _ _ => .error .outOfFuel
  | n + 1 => fun obj sels visited => sseqStep s doc vars (sseq s doc vars n) obj sels visited

/-- grouped result of a sequence result, on top of the accumulator `g` -/
def grp (g : Grouped) (r : SeqRes) : R (Grouped × List String) :=
  match r with
  | .ok (q, st) => .ok (addSeq g q, st)
  | .error e => .error e

private theorem collectStep_eq_mseq (s : SchemaD) (doc : Doc) (vars : Vars)
    (rec : String → List Sel → List String → R (Grouped × List String)) (recQ : String → List Sel → List String → SeqRes)
    (hrec : ∀ obj sels seen, rec obj sels seen = grp [] (recQ obj sels seen)) (obj : String) :
    ∀ (sels : List Sel) (seen : List String) (g : Grouped),
      collectStep s doc vars rec obj sels seen g = grp g (mseqStep s doc vars recQ obj sels seen) := by
  intro sels
  induction sels with
  | nil => intro seen g; simp [collectStep, mseqStep, grp, addSeq_nil]
  | cons sel rest ih =>
    intro seen g
    cases sel with
    | field key name loc dirs args hs sub =>
      simp only [collectStep, mseqStep, bind, Except.bind, pure, Except.pure]
      cases hsk : skipSelection vars dirs with
      | error e => simp [grp]
      | ok b =>
        cases b with
        | true => simpa using ih seen g
        | false =>
          simp only [Bool.false_eq_true, if_false]
          rw [ih seen _]
          cases mseqStep s doc vars recQ obj rest seen with
          | error e => simp [grp]
          | ok p => simp [grp, addSeq_cons, mkNode]
    | inline on dirs sub =>
      simp only [collectStep, mseqStep, bind, Except.bind, pure, Except.pure]
      cases hsk : skipSelection vars dirs with
      | error e => simp [grp]
      | ok b =>
        cases b with
        | true => simpa using ih seen g
        | false =>
          simp only [Bool.false_eq_true, if_false]
          cases hap : fragmentTypeApplies s obj on with
          | error e => simp [grp]
          | ok a =>
            cases a with
            | false => simpa using ih seen g
            | true =>
              simp only [Bool.not_true, Bool.false_eq_true, if_false]
              rw [hrec obj sub seen]
              cases recQ obj sub seen with
              | error e => simp [grp]
              | ok p1 =>
                simp only [grp, mergeInto_addSeq]
                rw [ih _ _]
                cases mseqStep s doc vars recQ obj rest (if seen.isEmpty = true then seen else p1.2) with
                | error e => simp [grp]
                | ok p2 => simp [grp, addSeq_append]
    | spread name dirs =>
      simp only [collectStep, mseqStep, bind, Except.bind, pure, Except.pure]
      cases hfr : doc.fragment? name with
      | none => simp [grp]
      | some fr =>
        simp only []
        cases hsk : skipSelection vars dirs with
        | error e => simp [grp]
        | ok b =>
          cases b with
          | true => simpa using ih seen g
          | false =>
            simp only [Bool.false_eq_true, if_false]
            by_cases hseen : seen.contains name
            · simp only [hseen, if_true]; simpa using ih seen g
            · simp only [hseen, Bool.false_eq_true, if_false]
              cases hap : fragmentTypeApplies s obj (some fr.on) with
              | error e => simp [grp]
              | ok a =>
                cases a with
                | false => simpa using ih seen g
                | true =>
                  simp only [Bool.not_true, Bool.false_eq_true, if_false]
                  rw [hrec obj fr.sels seen]
                  cases recQ obj fr.sels seen with
                  | error e => simp [grp]
                  | ok p1 =>
                    simp only [grp, mergeInto_addSeq]
                    rw [ih _ _]
                    generalize (if (if seen.isEmpty = true then seen else p1.2).contains name = true
                      then (if seen.isEmpty = true then seen else p1.2)
                      else (if seen.isEmpty = true then seen else p1.2) ++ [name]) = seen3
                    cases mseqStep s doc vars recQ obj rest seen3 with
                    | error e => simp [grp]
                    | ok p2 => simp [grp, addSeq_append]

/-- the model's grouped field set is `addSeq` of its visit sequence -/
theorem collectFields_eq_mseq (s : SchemaD) (doc : Doc) (vars : Vars) (n : Nat) (obj : String) (sels : List Sel) (seen : List String) :
    collectFields s doc vars n obj sels seen = grp [] (mseq s doc vars n obj sels seen) := by
  induction n generalizing obj sels seen with
  | zero => simp [collectFields, mseq, grp]
  | succ n ih =>
    simp only [collectFields, mseq]
    exact collectStep_eq_mseq s doc vars _ _ (fun obj sels seen => ih obj sels seen) obj sels seen []

private theorem collectStepS_eq_sseq (s : SchemaD) (doc : Doc) (vars : Vars)
    (rec : String → List Sel → List String → R (Grouped × List String)) (recQ : String → List Sel → List String → SeqRes)
    (hrec : ∀ obj sels v, rec obj sels v = grp [] (recQ obj sels v)) (obj : String) :
    ∀ (sels : List Sel) (v : List String) (g : Grouped),
      collectStepS s doc vars rec obj sels v g = grp g (sseqStep s doc vars recQ obj sels v) := by
  intro sels
  induction sels with
  | nil => intro v g; simp [collectStepS, sseqStep, grp, addSeq_nil]
  | cons sel rest ih =>
    intro v g
    cases sel with
    | field key name loc dirs args hs sub =>
      simp only [collectStepS, sseqStep, bind, Except.bind, pure, Except.pure]
      cases hsk : skipSelection vars dirs with
      | error e => simp [grp]
      | ok b =>
        cases b with
        | true => simpa using ih v g
        | false =>
          simp only [Bool.false_eq_true, if_false]
          rw [ih v _]
          cases sseqStep s doc vars recQ obj rest v with
          | error e => simp [grp]
          | ok p => simp [grp, addSeq_cons, mkNode]
    | inline on dirs sub =>
      simp only [collectStepS, sseqStep, bind, Except.bind, pure, Except.pure]
      cases hsk : skipSelection vars dirs with
      | error e => simp [grp]
      | ok b =>
        cases b with
        | true => simpa using ih v g
        | false =>
          simp only [Bool.false_eq_true, if_false]
          cases hap : fragmentTypeApplies s obj on with
          | error e => simp [grp]
          | ok a =>
            cases a with
            | false => simpa using ih v g
            | true =>
              simp only [Bool.not_true, Bool.false_eq_true, if_false]
              rw [hrec obj sub v]
              cases recQ obj sub v with
              | error e => simp [grp]
              | ok p1 =>
                simp only [grp, mergeInto_addSeq]
                rw [ih _ _]
                cases sseqStep s doc vars recQ obj rest p1.2 with
                | error e => simp [grp]
                | ok p2 => simp [grp, addSeq_append]
    | spread name dirs =>
      simp only [collectStepS, sseqStep, bind, Except.bind, pure, Except.pure]
      cases hsk : skipSelection vars dirs with
      | error e => simp [grp]
      | ok b =>
        cases b with
        | true => simpa using ih v g
        | false =>
          simp only [Bool.false_eq_true, if_false]
          by_cases hvis : v.contains name
          · simp only [hvis, if_true]; simpa using ih v g
          · simp only [hvis, Bool.false_eq_true, if_false]
            cases hfr : doc.fragment? name with
            | none => simpa using ih _ g
            | some fr =>
              simp only []
              cases hap : fragmentTypeApplies s obj (some fr.on) with
              | error e => simp [grp]
              | ok a =>
                cases a with
                | false => simpa using ih _ g
                | true =>
                  simp only [Bool.not_true, Bool.false_eq_true, if_false]
                  rw [hrec obj fr.sels _]
                  cases recQ obj fr.sels (v ++ [name]) with
                  | error e => simp [grp]
                  | ok p1 =>
                    simp only [grp, mergeInto_addSeq]
                    rw [ih _ _]
                    cases sseqStep s doc vars recQ obj rest p1.2 with
                    | error e => simp [grp]
                    | ok p2 => simp [grp, addSeq_append]

/-- the specification's grouped field set is `addSeq` of its visit sequence -/
theorem collectFieldsS_eq_sseq (s : SchemaD) (doc : Doc) (vars : Vars) (n : Nat) (obj : String) (sels : List Sel) (v : List String) :
    collectFieldsS s doc vars n obj sels v = grp [] (sseq s doc vars n obj sels v) := by
  induction n generalizing obj sels v with
  | zero => simp [collectFieldsS, sseq, grp]
  | succ n ih =>
    simp only [collectFieldsS, sseq]
    exact collectStepS_eq_sseq s doc vars _ _ (fun obj sels v => ih obj sels v) obj sels v []

end PyGql.Props.C04

/-
  Lexing a text that is a concatenation of lexemes and ignored characters (the shape of everything the printer
  emits): the compositional lemmas behind `print_tokens_*` (C03, document part).
  Positions never matter here: results are stated through token CLASSES (`Spec.cls`).
-/
import PyGqlModel.Lex
import PyGqlModel.PrintString
import PyGqlModel.Spec.Grammar
import PyGqlModel.Spec.Lexical
import PyGqlModel.Lemmas.LexChars

namespace PyGql.PrintLex
open PyGql PyGql.Lex PyGql.Spec PyGql.PrintString

/-- the characters that follow a lexeme in printed output: LF, space, `! $ & ( ) , : = @ [ ] { | }` -/
def isDelim (c : Nat) : Bool := [10, 32, 33, 36, 38, 40, 41, 44, 58, 61, 64, 91, 93, 123, 124, 125].contains c

/-- the rest of the text cannot extend the lexeme before it: it is empty or starts with a delimiter -/
def Safe (r : Text) : Prop := ∀ c t, r = c :: t → isDelim c = true

theorem safe_nil : Safe [] := by intro c t h; cases h
theorem safe_cons {c : Nat} {t : Text} (h : isDelim c = true) : Safe (c :: t) := by
  intro c' t' e; cases e; exact h

/-- `s` lexes (after SOF) to tokens of classes `cs` followed by EOF — for every total length and enough fuel -/
def LexesTo (s : Text) (cs : List TokClass) : Prop :=
  ∀ n fuel, s.length < fuel → ∃ toks, lexLoop n fuel s = .ok (toks ++ [eofTok n]) ∧ classes toks = cs

theorem lexesTo_nil : LexesTo [] [] := by
  intro n fuel h
  cases fuel with
  | zero => omega
  | succ f => exact ⟨[], by simp [lexLoop, next, readOverWhitespace], rfl⟩

/-- an ignored character in front changes nothing -/
theorem lexesTo_ignored {c : Nat} {s : Text} {cs : List TokClass} (hc : isIgnored c = true)
    (h : LexesTo s cs) : LexesTo (c :: s) cs := by
  intro n fuel hf
  cases fuel with
  | zero => omega
  | succ f =>
    obtain ⟨toks, h1, h2⟩ := h n (f + 1) (by simp at hf; omega)
    refine ⟨toks, ?_, h2⟩
    rw [← h1]
    simp only [lexLoop]
    have : next n (c :: s) = next n s := by
      simp [next, readOverWhitespace, hc]
    rw [this]

/-- one token in front -/
theorem lexesTo_step {w r : Text} {c : TokClass} {cs : List TokClass}
    (hw : ∀ n, ∃ tok, next n (w ++ r) = .ok (tok, some r) ∧ cls tok = c)
    (hlen : r.length < (w ++ r).length) (h : LexesTo r cs) : LexesTo (w ++ r) (c :: cs) := by
  intro n fuel hf
  cases fuel with
  | zero => omega
  | succ f =>
    obtain ⟨tok, hn, hc⟩ := hw n
    obtain ⟨toks, h1, h2⟩ := h n f (by omega)
    refine ⟨tok :: toks, ?_, by simp [classes, hc] at h2 ⊢; exact h2⟩
    simp only [lexLoop, hn, h1, List.cons_append]

theorem lexesTo_space {s : Text} {cs : List TokClass} (h : LexesTo s cs) : LexesTo (32 :: s) cs :=
  lexesTo_ignored (by decide) h
theorem lexesTo_lf {s : Text} {cs : List TokClass} (h : LexesTo s cs) : LexesTo (10 :: s) cs :=
  lexesTo_ignored (by decide) h
theorem lexesTo_comma {s : Text} {cs : List TokClass} (h : LexesTo s cs) : LexesTo (44 :: s) cs :=
  lexesTo_ignored (by decide) h

/-- the whole text: `lexAll` -/
theorem lexAll_of_lexesTo {s : Text} {cs : List TokClass} (h : LexesTo s cs) :
    ∃ toks, lexAll s = .ok (sofTok :: toks ++ [eofTok s.length]) ∧ classes toks = cs := by
  obtain ⟨toks, h1, h2⟩ := h s.length (s.length + 1) (by omega)
  exact ⟨toks, by simp [lexAll, h1], h2⟩

/-! ### single lexemes -/

/-- a punctuator -/
theorem next_punct (n : Nat) (c : Nat) (k : TokKind) (r : Text) (h1 : isIgnored c = false) (h2 : c ≠ 35)
    (h3 : isPrintable c = true) (h4 : symbolKind c = some k) :
    next n (c :: r) = .ok (⟨k, posAt n (c :: r), posAt n r, [c]⟩, some r) := by
  simp [next, readOverWhitespace, h1, h2, h3, h4]

theorem lexesTo_punct {c : Nat} {k : TokKind} {r : Text} {cs : List TokClass} (h1 : isIgnored c = false) (h2 : c ≠ 35)
    (h3 : isPrintable c = true) (h4 : symbolKind c = some k) (hk : hasValue k = false) (h : LexesTo r cs) :
    LexesTo (c :: r) ((k, []) :: cs) := by
  have := lexesTo_step (w := [c]) (r := r) (c := (k, [])) (cs := cs)
    (fun n => ⟨_, next_punct n c k r h1 h2 h3 h4, by simp [cls, hk]⟩) (by simp) h
  simpa using this

theorem lexesTo_bracketL {r cs} (h : LexesTo r cs) : LexesTo (91 :: r) ((.bracketL, []) :: cs) :=
  lexesTo_punct (by decide) (by decide) (by decide) (by decide) rfl h
theorem lexesTo_bracketR {r cs} (h : LexesTo r cs) : LexesTo (93 :: r) ((.bracketR, []) :: cs) :=
  lexesTo_punct (by decide) (by decide) (by decide) (by decide) rfl h
theorem lexesTo_curlyL {r cs} (h : LexesTo r cs) : LexesTo (123 :: r) ((.curlyL, []) :: cs) :=
  lexesTo_punct (by decide) (by decide) (by decide) (by decide) rfl h
theorem lexesTo_curlyR {r cs} (h : LexesTo r cs) : LexesTo (125 :: r) ((.curlyR, []) :: cs) :=
  lexesTo_punct (by decide) (by decide) (by decide) (by decide) rfl h
theorem lexesTo_bang {r cs} (h : LexesTo r cs) : LexesTo (33 :: r) ((.bang, []) :: cs) :=
  lexesTo_punct (by decide) (by decide) (by decide) (by decide) rfl h
theorem lexesTo_dollar {r cs} (h : LexesTo r cs) : LexesTo (36 :: r) ((.dollar, []) :: cs) :=
  lexesTo_punct (by decide) (by decide) (by decide) (by decide) rfl h
theorem lexesTo_colon {r cs} (h : LexesTo r cs) : LexesTo (58 :: r) ((.colon, []) :: cs) :=
  lexesTo_punct (by decide) (by decide) (by decide) (by decide) rfl h


/-! ### names -/

theorem delim_facts (c : Nat) (h : isDelim c = true) :
    isNameChar c = false ∧ isDigit c = false ∧ c ≠ 46 ∧ c ≠ 34 ∧ isNameStart c = false ∧ c ≠ 101 ∧ c ≠ 69 := by
  simp [isDelim] at h
  rcases h with h | h | h | h | h | h | h | h | h | h | h | h | h | h | h | h <;> subst h <;> decide

theorem span_append (p : Nat → Bool) (w r : Text) (hw : ∀ x ∈ w, p x = true)
    (hr : ∀ c t, r = c :: t → p c = false) :
    (w ++ r).takeWhile p = w ∧ (w ++ r).dropWhile p = r := by
  induction w with
  | nil =>
    cases r with
    | nil => simp
    | cons c t => simp [hr c t rfl]
  | cons a w ih =>
    have ha := hw a (by simp)
    have := ih (fun x hx => hw x (by simp [hx]))
    simp [ha, this]

theorem nameStart_facts (c : Nat) (h : Spec.Lexical.isNameStart c = true) :
    isIgnored c = false ∧ c ≠ 35 ∧ isPrintable c = true ∧ symbolKind c = none ∧ c ≠ 46 ∧ c ≠ 34 ∧ c ≠ 45 ∧
    isDigit c = false ∧ isNameStart c = true ∧ isNameChar c = true := by
  have hlt : c < 128 := by
    simp [Spec.Lexical.isNameStart, Spec.Lexical.isLetter] at h; omega
  rw [← isNameStart_spec] at h
  have key : ∀ c, c < 128 → isNameStart c = true →
      isIgnored c = false ∧ c ≠ 35 ∧ isPrintable c = true ∧ symbolKind c = none ∧ c ≠ 46 ∧ c ≠ 34 ∧ c ≠ 45 ∧
      isDigit c = false ∧ isNameStart c = true ∧ isNameChar c = true := by decide
  exact key c hlt h

theorem next_name (n : Nat) (w r : Text) (hw : Spec.Lexical.isName w = true) (hr : Safe r) :
    next n (w ++ r) = .ok (⟨.name, posAt n (w ++ r), posAt n r, w⟩, some r) := by
  cases w with
  | nil => simp [Spec.Lexical.isName] at hw
  | cons c t =>
    simp only [Spec.Lexical.isName, Bool.and_eq_true, List.all_eq_true] at hw
    obtain ⟨hc, ht⟩ := hw
    obtain ⟨f1, f2, f3, f4, f5, f6, f7, f8, f9, f10⟩ := nameStart_facts c hc
    have hall : ∀ x ∈ c :: t, isNameChar x = true := by
      intro x hx
      simp at hx
      rcases hx with rfl | hx
      · exact f10
      · rw [isNameChar_spec]; exact ht x hx
    have hrr : ∀ c' t', r = c' :: t' → isNameChar c' = false := fun c' t' e => (delim_facts c' (hr c' t' e)).1
    obtain ⟨htk, hdr⟩ := span_append isNameChar (c :: t) r hall hrr
    have htq : tq.isPrefixOf (c :: (t ++ r)) = false := by
      simp [tq, List.isPrefixOf]; intro e; exact absurd e.symm f6
    simp only [List.cons_append] at htk hdr ⊢
    simp [next, readOverWhitespace, f1, f2, f3, f4, f5, f6, f7, f8, f9, htq, readName, htk, hdr, Except.map]

theorem lexesTo_name {w r : Text} {cs : List TokClass} (hw : Spec.Lexical.isName w = true) (hr : Safe r)
    (h : LexesTo r cs) : LexesTo (w ++ r) ((.name, w) :: cs) := by
  refine lexesTo_step (fun n => ⟨_, next_name n w r hw hr, by simp [cls, hasValue]⟩) ?_ h
  cases w with
  | nil => simp [Spec.Lexical.isName] at hw
  | cons c t => simp; omega

end PyGql.PrintLex

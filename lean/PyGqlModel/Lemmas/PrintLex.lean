/-
  Lexing a text that is a concatenation of lexemes and ignored characters (the shape of everything the printer
  emits): the compositional lemmas behind `print_tokens_*` (C03, document part).
  Positions never matter here: results are stated through token CLASSES (`Spec.cls`).
-/
import PyGqlModel.Lex
import PyGqlModel.PrintString
import PyGqlModel.Spec.Grammar
import PyGqlModel.Spec.Lexical
import PyGqlModel.Lemmas.LexChars
import PyGqlModel.Lemmas.LexRange

namespace PyGql.PrintLex
open PyGql PyGql.Lex PyGql.Spec PyGql.PrintString

/-- the characters that follow a lexeme in printed output: TAB, LF, space, `! $ & ( ) , : = @ [ ] { | }` -/
def isDelim (c : Nat) : Bool := [9, 10, 32, 33, 36, 38, 40, 41, 44, 58, 61, 64, 91, 93, 123, 124, 125].contains c

/-- the rest of the text cannot extend the lexeme before it: it is empty or starts with a delimiter -/
def Safe (r : Text) : Prop := ∀ c t, r = c :: t → isDelim c = true

theorem safe_nil : Safe [] := by intro c t h; cases h
theorem safe_cons {c : Nat} {t : Text} (h : isDelim c = true) : Safe (c :: t) := by
  intro c' t' e; cases e; exact h

/-- `s` lexes (after SOF) to tokens of classes `cs` followed by EOF — for every total length and enough fuel -/
def LexesTo (s : Text) (cs : List TokClass) : Prop :=
  ∀ n fuel, s.length < fuel → ∃ toks, lexLoop n fuel s = .ok (toks ++ [eofTok n]) ∧ classes toks = cs

theorem lexesTo_nil : LexesTo [] [] := by
  intro n fuel h
  cases fuel with
  | zero => omega
  | succ f => exact ⟨[], by simp [lexLoop, next, readOverWhitespace], rfl⟩

/-- an ignored character in front changes nothing -/
theorem lexesTo_ignored {c : Nat} {s : Text} {cs : List TokClass} (hc : isIgnored c = true)
    (h : LexesTo s cs) : LexesTo (c :: s) cs := by
  intro n fuel hf
  cases fuel with
  | zero => omega
  | succ f =>
    obtain ⟨toks, h1, h2⟩ := h n (f + 1) (by simp at hf; omega)
    refine ⟨toks, ?_, h2⟩
    rw [← h1]
    simp only [lexLoop]
    have : next n (c :: s) = next n s := by
      simp [next, readOverWhitespace, hc]
    rw [this]

/-- one token in front -/
theorem lexesTo_step {w r : Text} {c : TokClass} {cs : List TokClass}
    (hw : ∀ n, ∃ tok, next n (w ++ r) = .ok (tok, some r) ∧ cls tok = c)
    (hlen : r.length < (w ++ r).length) (h : LexesTo r cs) : LexesTo (w ++ r) (c :: cs) := by
  intro n fuel hf
  cases fuel with
  | zero => omega
  | succ f =>
    obtain ⟨tok, hn, hc⟩ := hw n
    obtain ⟨toks, h1, h2⟩ := h n f (by omega)
    refine ⟨tok :: toks, ?_, by simp [classes, hc] at h2 ⊢; exact h2⟩
    simp only [lexLoop, hn, h1, List.cons_append]

theorem lexesTo_space {s : Text} {cs : List TokClass} (h : LexesTo s cs) : LexesTo (32 :: s) cs :=
  lexesTo_ignored (by decide) h
theorem lexesTo_lf {s : Text} {cs : List TokClass} (h : LexesTo s cs) : LexesTo (10 :: s) cs :=
  lexesTo_ignored (by decide) h
theorem lexesTo_comma {s : Text} {cs : List TokClass} (h : LexesTo s cs) : LexesTo (44 :: s) cs :=
  lexesTo_ignored (by decide) h

/-- the whole text: `lexAll` -/
theorem lexAll_of_lexesTo {s : Text} {cs : List TokClass} (h : LexesTo s cs) :
    ∃ toks, lexAll s = .ok (sofTok :: toks ++ [eofTok s.length]) ∧ classes toks = cs := by
  obtain ⟨toks, h1, h2⟩ := h s.length (s.length + 1) (by omega)
  exact ⟨toks, by simp [lexAll, h1], h2⟩

/-! ### single lexemes -/

/-- a punctuator -/
theorem next_punct (n : Nat) (c : Nat) (k : TokKind) (r : Text) (h1 : isIgnored c = false) (h2 : c ≠ 35)
    (h3 : isPrintable c = true) (h4 : symbolKind c = some k) :
    next n (c :: r) = .ok (⟨k, posAt n (c :: r), posAt n r, [c]⟩, some r) := by
  simp [next, readOverWhitespace, h1, h2, h3, h4]

theorem lexesTo_punct {c : Nat} {k : TokKind} {r : Text} {cs : List TokClass} (h1 : isIgnored c = false) (h2 : c ≠ 35)
    (h3 : isPrintable c = true) (h4 : symbolKind c = some k) (hk : hasValue k = false) (h : LexesTo r cs) :
    LexesTo (c :: r) ((k, []) :: cs) := by
  have := lexesTo_step (w := [c]) (r := r) (c := (k, [])) (cs := cs)
    (fun n => ⟨_, next_punct n c k r h1 h2 h3 h4, by simp [cls, hk]⟩) (by simp) h
  simpa using this

theorem lexesTo_bracketL {r cs} (h : LexesTo r cs) : LexesTo (91 :: r) ((.bracketL, []) :: cs) :=
  lexesTo_punct (by decide) (by decide) (by decide) (by decide) rfl h
theorem lexesTo_bracketR {r cs} (h : LexesTo r cs) : LexesTo (93 :: r) ((.bracketR, []) :: cs) :=
  lexesTo_punct (by decide) (by decide) (by decide) (by decide) rfl h
theorem lexesTo_curlyL {r cs} (h : LexesTo r cs) : LexesTo (123 :: r) ((.curlyL, []) :: cs) :=
  lexesTo_punct (by decide) (by decide) (by decide) (by decide) rfl h
theorem lexesTo_curlyR {r cs} (h : LexesTo r cs) : LexesTo (125 :: r) ((.curlyR, []) :: cs) :=
  lexesTo_punct (by decide) (by decide) (by decide) (by decide) rfl h
theorem lexesTo_bang {r cs} (h : LexesTo r cs) : LexesTo (33 :: r) ((.bang, []) :: cs) :=
  lexesTo_punct (by decide) (by decide) (by decide) (by decide) rfl h
theorem lexesTo_dollar {r cs} (h : LexesTo r cs) : LexesTo (36 :: r) ((.dollar, []) :: cs) :=
  lexesTo_punct (by decide) (by decide) (by decide) (by decide) rfl h
theorem lexesTo_colon {r cs} (h : LexesTo r cs) : LexesTo (58 :: r) ((.colon, []) :: cs) :=
  lexesTo_punct (by decide) (by decide) (by decide) (by decide) rfl h


/-! ### names -/

theorem delim_facts (c : Nat) (h : isDelim c = true) :
    isNameChar c = false ∧ isDigit c = false ∧ c ≠ 46 ∧ c ≠ 34 ∧ isNameStart c = false ∧ c ≠ 101 ∧ c ≠ 69 := by
  simp [isDelim] at h
  rcases h with h | h | h | h | h | h | h | h | h | h | h | h | h | h | h | h | h <;> subst h <;> decide

theorem span_append (p : Nat → Bool) (w r : Text) (hw : ∀ x ∈ w, p x = true)
    (hr : ∀ c t, r = c :: t → p c = false) :
    (w ++ r).takeWhile p = w ∧ (w ++ r).dropWhile p = r := by
  induction w with
  | nil =>
    cases r with
    | nil => simp
    | cons c t => simp [hr c t rfl]
  | cons a w ih =>
    have ha := hw a (by simp)
    have := ih (fun x hx => hw x (by simp [hx]))
    simp [ha, this]

theorem nameStart_facts (c : Nat) (h : Spec.Lexical.isNameStart c = true) :
    isIgnored c = false ∧ c ≠ 35 ∧ isPrintable c = true ∧ symbolKind c = none ∧ c ≠ 46 ∧ c ≠ 34 ∧ c ≠ 45 ∧
    isDigit c = false ∧ isNameStart c = true ∧ isNameChar c = true := by
  have hlt : c < 128 := by
    simp [Spec.Lexical.isNameStart, Spec.Lexical.isLetter] at h; omega
  rw [← isNameStart_spec] at h
  have key : ∀ c, c < 128 → isNameStart c = true →
      isIgnored c = false ∧ c ≠ 35 ∧ isPrintable c = true ∧ symbolKind c = none ∧ c ≠ 46 ∧ c ≠ 34 ∧ c ≠ 45 ∧
      isDigit c = false ∧ isNameStart c = true ∧ isNameChar c = true := by decide
  exact key c hlt h

theorem next_name (n : Nat) (w r : Text) (hw : Spec.Lexical.isName w = true) (hr : Safe r) :
    next n (w ++ r) = .ok (⟨.name, posAt n (w ++ r), posAt n r, w⟩, some r) := by
  cases w with
  | nil => simp [Spec.Lexical.isName] at hw
  | cons c t =>
    simp only [Spec.Lexical.isName, Bool.and_eq_true, List.all_eq_true] at hw
    obtain ⟨hc, ht⟩ := hw
    obtain ⟨f1, f2, f3, f4, f5, f6, f7, f8, f9, f10⟩ := nameStart_facts c hc
    have hall : ∀ x ∈ c :: t, isNameChar x = true := by
      intro x hx
      simp at hx
      rcases hx with rfl | hx
      · exact f10
      · rw [isNameChar_spec]; exact ht x hx
    have hrr : ∀ c' t', r = c' :: t' → isNameChar c' = false := fun c' t' e => (delim_facts c' (hr c' t' e)).1
    obtain ⟨htk, hdr⟩ := span_append isNameChar (c :: t) r hall hrr
    have htq : tq.isPrefixOf (c :: (t ++ r)) = false := by
      simp [tq, List.isPrefixOf]; intro e; exact absurd e.symm f6
    simp only [List.cons_append] at htk hdr ⊢
    simp [next, readOverWhitespace, f1, f2, f3, f4, f5, f6, f7, f8, f9, htq, readName, htk, hdr, Except.map]

theorem lexesTo_name {w r : Text} {cs : List TokClass} (hw : Spec.Lexical.isName w = true) (hr : Safe r)
    (h : LexesTo r cs) : LexesTo (w ++ r) ((.name, w) :: cs) := by
  refine lexesTo_step (fun n => ⟨_, next_name n w r hw hr, by simp [cls, hasValue]⟩) ?_ h
  cases w with
  | nil => simp [Spec.Lexical.isName] at hw
  | cons c t => simp; omega


/-! ### quoted strings (the body lemma is the one of `Props/C03_strings.lean`, there private, with a rest) -/

theorem hex_low (c : Nat) (h : c < 32) :
    hex4 48 48 (hexDigitLower (c / 16)) (hexDigitLower (c % 16)) = some c := by
  revert c; decide

theorem quoted_simple :
    quoted 34 = some 34 ∧ quoted 92 = some 92 ∧ quoted 110 = some 10 ∧ quoted 114 = some 13 ∧
    quoted 116 = some 9 ∧ quoted 98 = some 8 ∧ quoted 102 = some 12 ∧ quoted 117 = none := by decide

theorem readStringBody_jsonEscape (n : Nat) (v rest : Text) :
    readStringBody n (jsonEscape v ++ 34 :: rest) = .ok (v, rest) := by
  obtain ⟨q1, q2, q3, q4, q5, q6, q7, q8⟩ := quoted_simple
  induction v with
  | nil => rw [readStringBody.eq_def]; simp [jsonEscape]
  | cons c t ih =>
    simp only [jsonEscape, jsonEscapeChar]
    split
    · rename_i h; subst h; rw [readStringBody.eq_def]; simp [q1, ih]
    split
    · rename_i h; subst h; rw [readStringBody.eq_def]; simp [q2, ih]
    split
    · rename_i h; subst h; rw [readStringBody.eq_def]; simp [q3, ih]
    split
    · rename_i h; subst h; rw [readStringBody.eq_def]; simp [q4, ih]
    split
    · rename_i h; subst h; rw [readStringBody.eq_def]; simp [q5, ih]
    split
    · rename_i h; subst h; rw [readStringBody.eq_def]; simp [q6, ih]
    split
    · rename_i h; subst h; rw [readStringBody.eq_def]; simp [q7, ih]
    split
    · rename_i h
      have hh : isHighSurrogate c = false := by simp [isHighSurrogate]; omega
      simp only [List.cons_append, List.nil_append]
      rw [readStringBody_unicode_single n _ _ _ _ c _ (hex_low c h) hh]; simp [ih]
    · rename_i h1 h2 h3 h4 h5 h6 h7 h8
      have hp : isPrintable c = true := by simp [isPrintable]; omega
      rw [readStringBody.eq_def]
      simp [h1, h2, h3, h4, hp, ih]

/-- the escaped body followed by the closing quote never starts with two quotes -/
theorem jsonEscape_head (v : Text) (r : Text) (hr : Safe r) :
    tq.isPrefixOf (34 :: (jsonEscape v ++ 34 :: r)) = false := by
  cases v with
  | nil =>
    cases r with
    | nil => simp [jsonEscape, tq, List.isPrefixOf]
    | cons c t =>
      have := (delim_facts c (hr c t rfl)).2.2.2.1
      simp [jsonEscape, tq, List.isPrefixOf]; intro e; exact absurd e.symm this
  | cons c t =>
    simp only [jsonEscape, jsonEscapeChar]
    repeat' split
    all_goals simp [tq, List.isPrefixOf]
    all_goals omega

theorem next_string (n : Nat) (v r : Text) (hr : Safe r) :
    next n (jsonDumps v ++ r) = .ok (⟨.string, posAt n (jsonDumps v ++ r), posAt n r, v⟩, some r) := by
  have hb := readStringBody_jsonEscape n v r
  have hq := jsonEscape_head v r hr
  have e : jsonDumps v ++ r = 34 :: (jsonEscape v ++ 34 :: r) := by simp [jsonDumps]
  rw [e]
  have h1 : isIgnored 34 = false := by decide
  have h3 : isPrintable 34 = true := by decide
  have h4 : symbolKind 34 = none := by decide
  simp [next, readOverWhitespace, h1, h3, h4, hq, readString, hb, Except.map]

theorem lexesTo_string {v r : Text} {cs : List TokClass} (hr : Safe r) (h : LexesTo r cs) :
    LexesTo (jsonDumps v ++ r) ((.string, v) :: cs) := by
  refine lexesTo_step (fun n => ⟨_, next_string n v r hr, by simp [cls, hasValue]⟩) ?_ h
  simp [jsonDumps]; omega

/-! ### integers -/

theorem safe_head_facts {r : Text} (hr : Safe r) :
    (∀ c t, r = c :: t → isDigit c = false) ∧ (∀ c t, r = c :: t → c ≠ 46) ∧
    (∀ c t, r = c :: t → ¬ (c = 101 ∨ c = 69)) ∧ (∀ c t, r = c :: t → isNameStart c = false) := by
  refine ⟨fun c t e => (delim_facts c (hr c t e)).2.1, fun c t e => (delim_facts c (hr c t e)).2.2.1, ?_,
    fun c t e => (delim_facts c (hr c t e)).2.2.2.2.1⟩
  intro c t e h
  have := delim_facts c (hr c t e)
  rcases h with h | h
  · exact this.2.2.2.2.2.1 h
  · exact this.2.2.2.2.2.2 h

/-- after the digits of a number, a rest that starts with a delimiter ends the number -/
theorem number_tail (n : Nat) (r : Text) (hr : Safe r) :
    readFraction n r = .ok (false, r) ∧ readExponent n r = .ok (false, r) ∧ numberLookahead n r = .ok () := by
  obtain ⟨_, h2, h3, h4⟩ := safe_head_facts hr
  cases r with
  | nil => simp [readFraction, readExponent, numberLookahead]
  | cons c t =>
    have a := h2 c t rfl
    have b := h3 c t rfl
    have d := h4 c t rfl
    simp [readFraction, readExponent, numberLookahead, a, b, d]


theorem digit_facts (c : Nat) (h : c = 45 ∨ isDigit c = true) :
    isIgnored c = false ∧ c ≠ 35 ∧ isPrintable c = true ∧ symbolKind c = none ∧ c ≠ 46 ∧ c ≠ 34 := by
  have hlt : c < 128 := by
    rcases h with h | h
    · omega
    · rw [isDigit_spec] at h; simp [Spec.Lexical.isDigit] at h; omega
  have key : ∀ c, c < 128 → (c = 45 ∨ isDigit c = true) →
      isIgnored c = false ∧ c ≠ 35 ∧ isPrintable c = true ∧ symbolKind c = none ∧ c ≠ 46 ∧ c ≠ 34 := by decide
  exact key c hlt h

/-- `__next__` dispatches a text starting with `-` or a digit to `_read_number` -/
theorem next_number (n : Nat) (c : Nat) (t : Text) (h : c = 45 ∨ isDigit c = true) :
    next n (c :: t) = (readNumber n (c :: t)).map (fun p => (p.1, some p.2)) := by
  obtain ⟨f1, f2, f3, f4, f5, f6⟩ := digit_facts c h
  have htq : tq.isPrefixOf (c :: t) = false := by
    simp [tq, List.isPrefixOf]; intro e; exact absurd e.symm f6
  simp [next, readOverWhitespace, f1, f2, f3, f4, f5, htq, f6]
  intro a b
  rcases h with h | h
  · exact absurd h a
  · rw [h] at b; cases b

/-- `_read_over_integer` on an IntegerPart (without sign) followed by a non-digit -/
theorem readOverInteger_ip (n : Nat) (d : Nat) (ds rest : Text)
    (h : ((d == 48 && ds.isEmpty) || (Spec.Lexical.isNonZeroDigit d && ds.all Spec.Lexical.isDigit)) = true)
    (hrest : ∀ c t, rest = c :: t → isDigit c = false) :
    readOverInteger n (d :: ds ++ rest) = .ok rest := by
  simp only [Bool.or_eq_true, Bool.and_eq_true, beq_iff_eq, List.isEmpty_iff, List.all_eq_true] at h
  rcases h with ⟨rfl, rfl⟩ | ⟨hd, hds⟩
  · cases rest with
    | nil => simp [readOverInteger]
    | cons c t => simp [readOverInteger, hrest c t rfl]
  · have hne : d ≠ 48 := by simp [Spec.Lexical.isNonZeroDigit] at hd; omega
    have hdig : isDigit d = true := by
      rw [isDigit_spec]; simp [Spec.Lexical.isNonZeroDigit, Spec.Lexical.isDigit] at hd ⊢; omega
    have hall : ∀ x ∈ ds, isDigit x = true := fun x hx => by rw [isDigit_spec]; exact hds x hx
    have := (span_append isDigit ds rest hall hrest).2
    simp [readOverInteger, hne, readOverDigits, hdig, this]

theorem take_length_sub (w r : Text) : (w ++ r).take ((w ++ r).length - r.length) = w := by
  simp

theorem next_int (n : Nat) (w r : Text) (hw : Spec.Lexical.isIntValue w = true) (hr : Safe r) :
    next n (w ++ r) = .ok (⟨.int, posAt n (w ++ r), posAt n r, w⟩, some r) := by
  obtain ⟨t1, t2, t3⟩ := number_tail n r hr
  have hdr := (safe_head_facts hr).1
  simp only [Spec.Lexical.isIntValue, Spec.Lexical.isIntegerPart] at hw
  have htake := take_length_sub w r
  by_cases hneg : ∃ t, w = 45 :: t
  · obtain ⟨t, rfl⟩ := hneg
    simp only [Spec.Lexical.stripNegativeSign] at hw
    cases t with
    | nil => simp at hw
    | cons d ds =>
      simp only at hw
      have hro := readOverInteger_ip n d ds r hw hdr
      simp only [List.cons_append] at hro htake ⊢
      rw [next_number n 45 _ (Or.inl rfl)]
      simp only [readNumber, skipMinus, ↓reduceIte, hro, t1, t2, t3, bind, Except.bind, pure, Except.pure, Except.map,
        Bool.or_self, Bool.false_eq_true]
      rw [htake]
  · cases w with
    | nil => simp [Spec.Lexical.stripNegativeSign] at hw
    | cons d ds =>
      have hd45 : d ≠ 45 := fun e => hneg ⟨ds, by rw [e]⟩
      have hs : Spec.Lexical.stripNegativeSign (d :: ds) = d :: ds := by
        unfold Spec.Lexical.stripNegativeSign
        split
        · rename_i heq; simp at heq; exact absurd heq.1 hd45
        · rfl
      rw [hs] at hw
      simp only at hw
      have hro := readOverInteger_ip n d ds r hw hdr
      have hdig : isDigit d = true := by
        rw [isDigit_spec]
        simp [Spec.Lexical.isNonZeroDigit, Spec.Lexical.isDigit] at hw ⊢
        rcases hw with ⟨rfl, _⟩ | ⟨h, _⟩ <;> omega
      simp only [List.cons_append] at hro htake ⊢
      rw [next_number n d _ (Or.inr hdig)]
      simp only [readNumber, skipMinus, hd45, ↓reduceIte, hro, t1, t2, t3, bind, Except.bind, pure, Except.pure, Except.map,
        Bool.or_self, Bool.false_eq_true]
      rw [htake]

theorem lexesTo_int {w r : Text} {cs : List TokClass} (hw : Spec.Lexical.isIntValue w = true) (hr : Safe r)
    (h : LexesTo r cs) : LexesTo (w ++ r) ((.int, w) :: cs) := by
  refine lexesTo_step (fun n => ⟨_, next_int n w r hw hr, by simp [cls, hasValue]⟩) ?_ h
  cases w with
  | nil => simp [Spec.Lexical.isIntValue, Spec.Lexical.isIntegerPart, Spec.Lexical.stripNegativeSign] at hw
  | cons c t => simp; omega


/-! ### lexemes given by their behaviour (floats until `next_float`, block strings: string part of C03) -/

/-- `w` followed by a delimiter is read as one Float token with value `w` -/
def FloatLexeme (w : Text) : Prop :=
  w ≠ [] ∧ ∀ n r, Safe r → next n (w ++ r) = .ok (⟨.float, posAt n (w ++ r), posAt n r, w⟩, some r)

/-- the printed block string (value position, depth 0) followed by a delimiter is read as one BlockString token with
    value `v` — the string-level statement `BlockRoundtripStatement` of `Props/C03_strings.lean` with a rest -/
def BlockLexeme (ind v : Text) : Prop :=
  ∀ n r, Safe r → next n (blockString v ind false ++ r) =
    .ok (⟨.blockString, posAt n (blockString v ind false ++ r), posAt n r, v⟩, some r)

theorem blockString_ne_nil (v ind : Text) (d : Bool) : blockString v ind d ≠ [] := by
  unfold blockString
  simp only
  split
  · split <;> simp
  · split <;> simp

theorem lexesTo_float {w r : Text} {cs : List TokClass} (hw : FloatLexeme w) (hr : Safe r)
    (h : LexesTo r cs) : LexesTo (w ++ r) ((.float, w) :: cs) := by
  refine lexesTo_step (fun n => ⟨_, hw.2 n r hr, by simp [cls, hasValue]⟩) ?_ h
  have := hw.1
  cases w with
  | nil => exact absurd rfl this
  | cons c t => simp; omega

theorem lexesTo_block {ind v r : Text} {cs : List TokClass} (hw : BlockLexeme ind v) (hr : Safe r)
    (h : LexesTo r cs) : LexesTo (blockString v ind false ++ r) ((.blockString, v) :: cs) := by
  refine lexesTo_step (fun n => ⟨_, hw n r hr, by simp [cls, hasValue]⟩) ?_ h
  have := blockString_ne_nil v ind false
  cases hb : blockString v ind false with
  | nil => exact absurd hb this
  | cons c t => simp; omega

end PyGql.PrintLex

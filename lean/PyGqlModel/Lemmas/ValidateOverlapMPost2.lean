/-
  THE MEMOISED SEARCH NEVER LOSES A REPORT, part 3: postconditions of `_find_conflict` (a `CertM`) and
  `_conflicts_between` (a `CertM` for every cross pair) of the memoised search.
-/
import PyGqlModel.Lemmas.ValidateOverlapMPost
namespace PyGql.Validate
open PyGql PyGql.Validate.Spec

/-- what `_conflicts_between_subselections` (memoised) establishes for two selection sets -/
structure SetsResM (s : SchemaD) (d : Doc) (M : MemoM) (me : Bool) (id1 : Nat) (p1 : Option String) (sels1 : List Sel)
    (id2 : Nat) (p2 : Option String) (sels2 : List Sel) : Prop where
  direct : ∀ rn e1 e2, CollD s p1 sels1 rn e1 → CollD s p2 sels2 rn e2 → CertM s d M me e1 e2
  fragR : ∀ g, SpreadD sels2 g → FCov d M me id1 g
  fragL : ∀ g, SpreadD sels1 g → FCov d M me id2 g
  frags : ∀ g1 g2, SpreadD sels1 g1 → SpreadD sels2 g2 → CovM M me g1 g2

section
variable (s : SchemaD) (fx : Fixes) (d : Doc)

def EFindM (fuel : Nat) : Prop :=
  ∀ pme f1 f2 c, CI s d c → Ent s d f1 → Ent s d f2 → (findConflictM s fx fuel pme f1 f2 c).2.crash = none →
    GPM s d c (if (findConflictM s fx fuel pme f1 f2 c).1 = true then 1 else 0, (findConflictM s fx fuel pme f1 f2 c).2)
      (fun M => CertM s d M pme f1 f2)

def ECbM (fuel : Nat) : Prop :=
  ∀ me fm1 fm2 c, CI s d c → EntOK (fun _ e => Ent s d e) fm1 → EntOK (fun _ e => Ent s d e) fm2 →
    (conflictsBetweenM s fx fuel me fm1 fm2 c).2.crash = none →
    GPM s d c (conflictsBetweenM s fx fuel me fm1 fm2 c)
      (fun M => ∀ rn e1 e2, e1 ∈ AL.getD fm1 rn [] → e2 ∈ AL.getD fm2 rn [] → CertM s d M me e1 e2)

def ESsM (fuel : Nat) : Prop :=
  ∀ me p1 id1 sels1 p2 id2 sels2 c, CI s d c → SelSet d id1 sels1 → Adm s d id1 p1 → SelSet d id2 sels2 →
    Adm s d id2 p2 →
    (betweenSubselectionsM s fx fuel me p1 id1 sels1 p2 id2 sels2 c).2.crash = none →
    GPM s d c (betweenSubselectionsM s fx fuel me p1 id1 sels1 p2 id2 sels2 c) (fun M => SetsResM s d M me id1 p1 sels1 id2 p2 sels2)

theorem stepM_efind (fuel : Nat) (hss : ESsM s fx d fuel) :
    EFindM s fx d (fuel + 1) := by
  intro pme f1 f2 c hc h1 h2
  simp only [findConflictM]
  generalize hm0 : (pme || _) = me
  have hm : (pme || exclusiveParents s f1 f2) = me := hm0
  clear hm0
  have htail : (me = false → f1.name = f2.name ∧ sameArguments f1.args f2.args = some true) →
      (if (match f1.fdef.map (·.type), f2.fdef.map (·.type) with
          | some a, some b => typesConflict s a b
          | _, _ => false) = true then (true, c)
        else if (f1.hasSub && f2.hasSub) = true then
          (decide ((betweenSubselectionsM s fx fuel me ((f1.fdef.map (·.type)).map (·.base)) f1.ssid f1.sub
            ((f2.fdef.map (·.type)).map (·.base)) f2.ssid f2.sub c).1 > 0),
           (betweenSubselectionsM s fx fuel me ((f1.fdef.map (·.type)).map (·.base)) f1.ssid f1.sub
            ((f2.fdef.map (·.type)).map (·.base)) f2.ssid f2.sub c).2)
        else (false, c)).2.crash = none →
      GPM s d c
        (if (if (match f1.fdef.map (·.type), f2.fdef.map (·.type) with
            | some a, some b => typesConflict s a b
            | _, _ => false) = true then (true, c)
          else if (f1.hasSub && f2.hasSub) = true then
            (decide ((betweenSubselectionsM s fx fuel me ((f1.fdef.map (·.type)).map (·.base)) f1.ssid f1.sub
              ((f2.fdef.map (·.type)).map (·.base)) f2.ssid f2.sub c).1 > 0),
             (betweenSubselectionsM s fx fuel me ((f1.fdef.map (·.type)).map (·.base)) f1.ssid f1.sub
              ((f2.fdef.map (·.type)).map (·.base)) f2.ssid f2.sub c).2)
          else (false, c)).1 = true then 1 else 0,
         (if (match f1.fdef.map (·.type), f2.fdef.map (·.type) with
            | some a, some b => typesConflict s a b
            | _, _ => false) = true then (true, c)
          else if (f1.hasSub && f2.hasSub) = true then
            (decide ((betweenSubselectionsM s fx fuel me ((f1.fdef.map (·.type)).map (·.base)) f1.ssid f1.sub
              ((f2.fdef.map (·.type)).map (·.base)) f2.ssid f2.sub c).1 > 0),
             (betweenSubselectionsM s fx fuel me ((f1.fdef.map (·.type)).map (·.base)) f1.ssid f1.sub
              ((f2.fdef.map (·.type)).map (·.base)) f2.ssid f2.sub c).2)
          else (false, c)).2)
        (fun M => CertM s d M pme f1 f2) := by
    intro hA
    have htypes : (match f1.fdef.map (·.type), f2.fdef.map (·.type) with
        | some a, some b => typesConflict s a b
        | _, _ => false) = false → ∀ t1 t2, f1.fdef.map (·.type) = some t1 → f2.fdef.map (·.type) = some t2 →
        typesConflict s t1 t2 = false := by
      intro h t1 t2 e1 e2
      rw [e1, e2] at h
      exact h
    generalize htcd : (match f1.fdef.map (·.type), f2.fdef.map (·.type) with
      | some a, some b => typesConflict s a b
      | _, _ => false) = tc at htypes
    cases tc with
    | true => exact fun h => GPM.pos (by simp) (fun _ hx => hx) h
    | false =>
      simp only [Bool.false_eq_true, ↓reduceIte]
      have hargs : (pme || exclusiveParents s f1 f2) = false →
          f1.name = f2.name ∧ sameArguments f1.args f2.args = some true := fun h => hA (by rw [← hm]; exact h)
      by_cases hsd : (f1.hasSub && f2.hasSub) = true
      · rw [if_pos hsd]
        simp only [Bool.and_eq_true] at hsd
        obtain ⟨s1, a1⟩ := h1.sub hsd.1
        obtain ⟨s2, a2⟩ := h2.sub hsd.2
        intro hcr
        have g := hss me _ _ _ _ _ _ c hc s1 a1 s2 a2 hcr
        refine (g.count _ (fun h0 => ?_)).imp (fun M _ r => ?_)
        · have hk : ¬ ((betweenSubselectionsM s fx fuel me ((f1.fdef.map (·.type)).map (·.base)) f1.ssid f1.sub
              ((f2.fdef.map (·.type)).map (·.base)) f2.ssid f2.sub c).1 > 0) := fun hk => by
            rw [if_pos (decide_eq_true hk)] at h0; exact absurd h0 (by decide)
          omega
        · subst hm
          exact .mk hargs (htypes rfl) (fun _ _ => r.direct) (fun _ _ => r.fragR) (fun _ _ => r.fragL) (fun _ _ => r.frags)
      · rw [if_neg hsd]
        intro hcr
        refine GPM.skip rfl rfl (fun M _ => ?_) hcr
        have hno : ¬ (f1.hasSub = true ∧ f2.hasSub = true) := fun h => hsd (by simp [h.1, h.2])
        exact .mk hargs (htypes rfl) (fun x y => absurd ⟨x, y⟩ hno) (fun x y => absurd ⟨x, y⟩ hno)
          (fun x y => absurd ⟨x, y⟩ hno) (fun x y => absurd ⟨x, y⟩ hno)
  cases me with
  | true =>
    simp only [↓reduceIte]
    exact htail (fun h => by cases h)
  | false =>
    simp only [Bool.false_eq_true, ↓reduceIte]
    by_cases hn : (f1.name != f2.name) = true
    · simp only [hn, ↓reduceIte]
      exact fun h => GPM.pos (by simp) (fun _ hx => hx) h
    · simp only [hn, Bool.false_eq_true, ↓reduceIte]
      cases hsa : sameArguments f1.args f2.args with
      | none => exact fun h => by cases h
      | some b =>
        cases b with
        | false => exact fun h => GPM.pos (by simp) (fun _ hx => hx) h
        | true => exact htail (fun _ => ⟨by simpa using hn, hsa⟩)

theorem stepM_ecb (fuel : Nat) (hsf : SFindM s fx d fuel) (hef : EFindM s fx d fuel) : ECbM s fx d (fuel + 1) := by
  intro me fm1 fm2 c hc h1 h2
  simp only [conflictsBetweenM]
  intro hcr
  refine (sumLoop_gpM fm1 _ (CI s d)
    (fun q M => ∀ e1 ∈ q.2, ∀ e2 ∈ AL.getD fm2 q.1 [], CertM s d M me e1 e2) (fun q hq c hc => ?_) c hc hcr).imp
    (fun M _ hall rn e1 e2 m1 m2 => ?_)
  · obtain ⟨rn, fields1⟩ := q
    simp only
    cases hg : AL.get? fm2 rn with
    | none =>
      refine ⟨hc, fun h => GPM.skip rfl rfl (fun M _ e1 _ e2 m2 => ?_) h⟩
      simp [AL.getD, hg] at m2
    | some fields2 =>
      simp only
      have hgd : AL.getD fm2 rn [] = fields2 := by simp [AL.getD, hg]
      rw [hgd]
      have hP2 : ∀ f1 ∈ fields1, ∀ c, CI s d c → CI s d (sumLoop fields2 (fun f2 c =>
          (if (findConflictM s fx fuel me f1 f2 c).1 = true then 1 else 0, (findConflictM s fx fuel me f1 f2 c).2)) c).2 :=
        fun f1 hf1 c hc => (sumLoop_spec fields2 _ (CI s d) (fun _ => True) (fun f2 hf2 c hc =>
          ⟨(hsf me f1 f2 c hc (h1 _ hq f1 hf1) (h2 _ (AL.mem_of_get? hg) f2 hf2)).1, fun _ => trivial⟩) c hc).1
      have hP : CI s d (sumLoop fields1 (fun f1 c => sumLoop fields2 (fun f2 c =>
          (if (findConflictM s fx fuel me f1 f2 c).1 = true then 1 else 0, (findConflictM s fx fuel me f1 f2 c).2)) c) c).2 :=
        (sumLoop_spec fields1 _ (CI s d) (fun _ => True) (fun f1 hf1 c hc => ⟨hP2 f1 hf1 c hc, fun _ => trivial⟩) c hc).1
      refine ⟨hP, fun hcr => ?_⟩
      refine (sumLoop_gpM fields1 _ (CI s d) (fun f1 M => ∀ e2 ∈ fields2, CertM s d M me f1 e2)
        (fun f1 hf1 c hc => ?_) c hc hcr).imp (fun M _ hall e1 m1 e2 m2 => hall e1 m1 e2 m2)
      refine ⟨hP2 f1 hf1 c hc, fun hcr => ?_⟩
      refine (sumLoop_gpM fields2 _ (CI s d) (fun f2 M => CertM s d M me f1 f2)
        (fun f2 hf2 c hc => ?_) c hc hcr).imp (fun M _ hall e2 m2 => hall e2 m2)
      have hE1 := h1 _ hq f1 hf1
      have hE2 := h2 _ (AL.mem_of_get? hg) f2 hf2
      exact ⟨(hsf me f1 f2 c hc hE1 hE2).1, fun hcr => hef me f1 f2 c hc hE1 hE2 hcr⟩
  · rcases AL.getD_cases fm1 rn [] with e | e
    · rw [e] at m1; cases m1
    · exact hall _ e e1 m1 e2 m2

end
end PyGql.Validate

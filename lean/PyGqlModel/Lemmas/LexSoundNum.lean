/-
  Soundness of `_read_number` against IntValue / FloatValue of Spec/Lexical.lean.
-/
import PyGqlModel.Lemmas.LexSound

namespace PyGql.Lex
open PyGql.Spec.Lexical

theorem takeWhile_append_stop (p : Nat → Bool) (a b : Text) (ha : ∀ x ∈ a, p x = true)
    (hb : startsWith p b = false) : (a ++ b).takeWhile p = a ∧ (a ++ b).dropWhile p = b := by
  induction a with
  | nil =>
    cases b with
    | nil => simp
    | cons c t => simp [startsWith] at hb; simp [List.takeWhile_cons, List.dropWhile_cons, hb]
  | cons x xs ih =>
    have hx := ha x (by simp)
    have := ih (fun y hy => ha y (by simp [hy]))
    simp [List.takeWhile_cons, List.dropWhile_cons, hx, this.1, this.2]

/-- Digit+ -/
def Digits1 (l : Text) : Prop := ∃ d ds, l = d :: ds ∧ Spec.Lexical.isDigit d = true ∧ ds.all Spec.Lexical.isDigit = true

theorem readOverDigits_sound (n : Nat) (s r : Text) (h : readOverDigits n s = .ok r) :
    ∃ l, s = l ++ r ∧ Digits1 l ∧ startsWith Spec.Lexical.isDigit r = false := by
  have hfun : Lex.isDigit = Spec.Lexical.isDigit := funext isDigit_spec
  cases s with
  | nil => simp [readOverDigits] at h
  | cons c t =>
    simp only [readOverDigits] at h
    split at h
    · rename_i hc
      simp only [Except.ok.injEq] at h; subst h
      refine ⟨c :: t.takeWhile Lex.isDigit, by simp [List.takeWhile_append_dropWhile], ⟨c, _, rfl, ?_, ?_⟩, ?_⟩
      · rw [← isDigit_spec]; exact hc
      · rw [← hfun]; exact List.all_takeWhile
      · rw [← hfun]; exact startsWith_dropWhile _ _
    · cases h

/-- IntegerPart without the sign: `0` | NonZeroDigit Digit* -/
def IntBody (l : Text) : Prop :=
  l = [48] ∨ ∃ d ds, l = d :: ds ∧ isNonZeroDigit d = true ∧ ds.all Spec.Lexical.isDigit = true

theorem readOverInteger_sound (n : Nat) (s r : Text) (h : readOverInteger n s = .ok r) :
    ∃ l, s = l ++ r ∧ IntBody l ∧ startsWith Spec.Lexical.isDigit r = false := by
  cases s with
  | nil => simp [readOverInteger] at h
  | cons c t =>
    simp only [readOverInteger] at h
    split at h
    · rename_i hc; subst hc
      split at h
      · simp only [Except.ok.injEq] at h; subst h
        exact ⟨[48], rfl, Or.inl rfl, rfl⟩
      · rename_i d u
        split at h
        · cases h
        · rename_i hd
          simp only [Except.ok.injEq] at h; subst h
          refine ⟨[48], rfl, Or.inl rfl, ?_⟩
          simp only [startsWith]; rw [← isDigit_spec]; simpa using hd
    · rename_i hc
      obtain ⟨l, hs, ⟨d, ds, rfl, hd, hds⟩, hr⟩ := readOverDigits_sound n _ r h
      simp only [List.cons_append, List.cons.injEq] at hs
      obtain ⟨rfl, _⟩ := hs
      refine ⟨c :: ds, by simp_all, Or.inr ⟨c, ds, rfl, ?_, hds⟩, hr⟩
      simp [Spec.Lexical.isDigit, isNonZeroDigit] at hd ⊢
      omega

theorem readFraction_sound (n : Nat) (s r : Text) (f : Bool) (h : readFraction n s = .ok (f, r)) :
    (f = false ∧ r = s ∧ startsWith (· == 46) s = false) ∨
    (f = true ∧ ∃ l, s = 46 :: l ++ r ∧ Digits1 l ∧ startsWith Spec.Lexical.isDigit r = false) := by
  cases s with
  | nil => simp [readFraction] at h; exact Or.inl ⟨h.1, h.2, rfl⟩
  | cons c t =>
    simp only [readFraction] at h
    split at h
    · rename_i hc; subst hc
      cases hd : readOverDigits n t with
      | error e => simp [hd, Except.map] at h
      | ok r' =>
        simp only [hd, Except.map, Except.ok.injEq, Prod.mk.injEq] at h
        obtain ⟨rfl, rfl⟩ := h
        obtain ⟨l, hs, hl, hr⟩ := readOverDigits_sound n t r' hd
        exact Or.inr ⟨rfl, l, by rw [hs]; simp, hl, hr⟩
    · rename_i hc
      simp only [Except.ok.injEq, Prod.mk.injEq] at h
      obtain ⟨rfl, rfl⟩ := h
      exact Or.inl ⟨rfl, rfl, by simp [startsWith, hc]⟩

/-- ExponentPart :: ExponentIndicator Sign? Digit+ -/
def ExpPart (l : Text) : Prop :=
  ∃ i sg ds, l = i :: (sg ++ ds) ∧ (i = 101 ∨ i = 69) ∧ (sg = [] ∨ sg = [43] ∨ sg = [45]) ∧ Digits1 ds

theorem readExponent_sound (n : Nat) (s r : Text) (f : Bool) (h : readExponent n s = .ok (f, r)) :
    (f = false ∧ r = s ∧ startsWith (fun c => c == 101 || c == 69) s = false) ∨
    (f = true ∧ ∃ l, s = l ++ r ∧ ExpPart l ∧ startsWith Spec.Lexical.isDigit r = false) := by
  cases s with
  | nil => simp [readExponent] at h; exact Or.inl ⟨h.1, h.2, rfl⟩
  | cons c t =>
    simp only [readExponent] at h
    split at h
    · rename_i hc
      cases hd : readOverDigits n (skipSign t) with
      | error e => simp [hd, Except.map] at h
      | ok r' =>
        simp only [hd, Except.map, Except.ok.injEq, Prod.mk.injEq] at h
        obtain ⟨rfl, rfl⟩ := h
        obtain ⟨l, hs, hl, hr⟩ := readOverDigits_sound n _ r' hd
        have hsg : ∃ sg, t = sg ++ skipSign t ∧ (sg = [] ∨ sg = [43] ∨ sg = [45]) := by
          cases t with
          | nil => exact ⟨[], rfl, Or.inl rfl⟩
          | cons x u =>
            simp only [skipSign]
            split
            · rename_i hx
              rcases hx with rfl | rfl
              · exact ⟨[43], rfl, Or.inr (Or.inl rfl)⟩
              · exact ⟨[45], rfl, Or.inr (Or.inr rfl)⟩
            · exact ⟨[], rfl, Or.inl rfl⟩
        obtain ⟨sg, htsg, hsgc⟩ := hsg
        refine Or.inr ⟨rfl, c :: (sg ++ l), by (conv => lhs; rw [htsg, hs]); simp, ⟨c, sg, l, rfl, hc, hsgc, hl⟩, hr⟩
    · rename_i hc
      simp only [Except.ok.injEq, Prod.mk.injEq] at h
      obtain ⟨rfl, rfl⟩ := h
      refine Or.inl ⟨rfl, rfl, ?_⟩
      simp only [startsWith]
      simp only [not_or] at hc
      simp [hc.1, hc.2]

end PyGql.Lex

namespace PyGql.Lex
open PyGql.Spec.Lexical

theorem mem_Digits1 {l : Text} (h : Digits1 l) : ∀ x ∈ l, Spec.Lexical.isDigit x = true := by
  obtain ⟨d, ds, rfl, hd, hds⟩ := h
  intro x hx
  rcases List.mem_cons.mp hx with rfl | hx
  · exact hd
  · exact List.all_eq_true.mp hds x hx

theorem mem_IntBody {l : Text} (h : IntBody l) : ∀ x ∈ l, Spec.Lexical.isDigit x = true := by
  rcases h with rfl | ⟨d, ds, rfl, hd, hds⟩
  · intro x hx; simp at hx; subst hx; decide
  · intro x hx
    rcases List.mem_cons.mp hx with rfl | hx
    · simp [isNonZeroDigit, Spec.Lexical.isDigit] at hd ⊢; omega
    · exact List.all_eq_true.mp hds x hx

theorem IntBody_ne_nil {l : Text} (h : IntBody l) : ∃ d ds, l = d :: ds ∧ Spec.Lexical.isDigit d = true := by
  rcases h with rfl | ⟨d, ds, rfl, hd, _⟩
  · exact ⟨48, [], rfl, by decide⟩
  · exact ⟨d, ds, rfl, by simp [isNonZeroDigit, Spec.Lexical.isDigit] at hd ⊢; omega⟩

theorem stripNeg_digit (d : Nat) (ds : Text) (h : Spec.Lexical.isDigit d = true) :
    stripNegativeSign (d :: ds) = d :: ds := by
  unfold stripNegativeSign
  split
  · rename_i t heq
    simp only [List.cons.injEq] at heq
    obtain ⟨rfl, _⟩ := heq
    simp [Spec.Lexical.isDigit] at h
  · rfl

theorem isIntegerPart_of (sg ip : Text) (hsg : sg = [] ∨ sg = [45]) (hip : IntBody ip) :
    isIntegerPart (sg ++ ip) = true := by
  have hstrip : stripNegativeSign (sg ++ ip) = ip := by
    rcases hsg with rfl | rfl
    · obtain ⟨d, ds, rfl, hd⟩ := IntBody_ne_nil hip
      exact stripNeg_digit d ds hd
    · simp [stripNegativeSign]
  unfold isIntegerPart
  rw [hstrip]
  rcases hip with rfl | ⟨d, ds, rfl, hd, hds⟩
  · decide
  · simp [hd, hds]

theorem isFloatValue_of (sg ip fr ex : Text) (hsg : sg = [] ∨ sg = [45]) (hip : IntBody ip)
    (hfr : fr = [] ∨ ∃ l, fr = 46 :: l ∧ Digits1 l) (hex : ex = [] ∨ ExpPart ex) (hne : ¬ (fr = [] ∧ ex = [])) :
    isFloatValue (sg ++ ip ++ fr ++ ex) = true := by
  have hsgm : ∀ x ∈ sg, x = 45 := by rcases hsg with rfl | rfl <;> simp
  have hipm := mem_IntBody hip
  have hfrm : ∀ x ∈ fr, x = 46 ∨ Spec.Lexical.isDigit x = true := by
    rcases hfr with rfl | ⟨l, rfl, hl⟩
    · simp
    · intro x hx
      rcases List.mem_cons.mp hx with rfl | hx
      · exact Or.inl rfl
      · exact Or.inr (mem_Digits1 hl x hx)
  -- split at the exponent indicator
  have hA : ∀ x ∈ sg ++ ip ++ fr, (fun c => !(c == 101 || c == 69)) x = true := by
    intro x hx
    simp only [List.mem_append] at hx
    rcases hx with (hx | hx) | hx
    · have := hsgm x hx; subst this; decide
    · have := hipm x hx; simp [Spec.Lexical.isDigit] at this ⊢; omega
    · rcases hfrm x hx with rfl | h
      · decide
      · simp [Spec.Lexical.isDigit] at h ⊢; omega
  have hexs : startsWith (fun c => !(c == 101 || c == 69)) ex = false := by
    rcases hex with rfl | ⟨i, sg', ds, rfl, hi, _, _⟩
    · rfl
    · rcases hi with rfl | rfl <;> simp [startsWith]
  obtain ⟨hm, he⟩ := takeWhile_append_stop _ (sg ++ ip ++ fr) ex hA hexs
  -- split the mantissa at the dot
  have hB : ∀ x ∈ sg ++ ip, (fun c => c != 46) x = true := by
    intro x hx
    simp only [List.mem_append] at hx
    rcases hx with hx | hx
    · have := hsgm x hx; subst this; decide
    · have := hipm x hx; simp [Spec.Lexical.isDigit] at this ⊢; omega
  have hfrs : startsWith (fun c => c != 46) fr = false := by
    rcases hfr with rfl | ⟨l, rfl, _⟩
    · rfl
    · simp [startsWith]
  obtain ⟨hi, hf⟩ := takeWhile_append_stop _ (sg ++ ip) fr hB hfrs
  have hfrac : fr.isEmpty = true ∨ isFractionalPart fr = true := by
    rcases hfr with rfl | ⟨l, rfl, ⟨d, ds, rfl, hd, hds⟩⟩
    · exact Or.inl rfl
    · exact Or.inr (by simp [isFractionalPart, hd, hds])
  have hexp : ex.isEmpty = true ∨ isExponentPart ex = true := by
    rcases hex with rfl | ⟨i, sg', ds, rfl, hi', hsg', ⟨d, ds', rfl, hd, hds⟩⟩
    · exact Or.inl rfl
    · refine Or.inr ?_
      have hstrip : stripSign (sg' ++ d :: ds') = d :: ds' := by
        rcases hsg' with rfl | rfl | rfl
        · unfold stripSign
          split
          · rename_i t heq; simp only [List.nil_append, List.cons.injEq] at heq
            obtain ⟨rfl, _⟩ := heq; simp [Spec.Lexical.isDigit] at hd
          · rename_i t heq; simp only [List.nil_append, List.cons.injEq] at heq
            obtain ⟨rfl, _⟩ := heq; simp [Spec.Lexical.isDigit] at hd
          · rfl
        · simp [stripSign]
        · simp [stripSign]
      simp only [isExponentPart, hstrip, hd, hds, Bool.and_self, Bool.and_true]
      rcases hi' with rfl | rfl <;> decide
  unfold isFloatValue
  simp only [hm, he, hi, hf, isIntegerPart_of sg ip hsg hip, Bool.true_and]
  have hne' : (fr.isEmpty && ex.isEmpty) = false := by
    cases fr <;> cases ex <;> simp_all
  simp only [hne', Bool.not_false, Bool.and_true]
  rcases hfrac with h1 | h1 <;> rcases hexp with h2 | h2 <;> simp [h1, h2]

end PyGql.Lex

namespace PyGql.Lex
open PyGql.Spec.Lexical

theorem skipMinus_split (s : Text) : ∃ sg, s = sg ++ skipMinus s ∧ (sg = [] ∨ sg = [45]) := by
  cases s with
  | nil => exact ⟨[], rfl, Or.inl rfl⟩
  | cons c t =>
    simp only [skipMinus]
    split
    · rename_i hc; subst hc; exact ⟨[45], rfl, Or.inr rfl⟩
    · exact ⟨[], rfl, Or.inl rfl⟩

theorem numberLookahead_sound (n : Nat) (s : Text) (h : numberLookahead n s = .ok ()) :
    startsWith Spec.Lexical.isNameStart s = false := by
  cases s with
  | nil => rfl
  | cons c t =>
    simp only [numberLookahead] at h
    split at h
    · cases h
    · rename_i hc; simp only [startsWith]; rw [← isNameStart_spec]; simpa using hc

theorem startsWith_or (p q : Nat → Bool) (s : Text) (hp : startsWith p s = false) (hq : startsWith q s = false) :
    startsWith (fun c => p c || q c) s = false := by
  cases s with
  | nil => rfl
  | cons c t => simp [startsWith] at *; exact ⟨hp, hq⟩

/-- `_read_number` reads exactly an IntValue or a FloatValue, keeps it verbatim, and stops where the
    look-ahead restrictions allow -/
theorem readNumber_sound (n : Nat) (s r : Text) (tok : Tok) (h : readNumber n s = .ok (tok, r)) :
    ∃ lex, s = lex ++ r ∧ lex ≠ [] ∧ Lexeme tok.kind lex tok.value ∧ Follow tok.kind lex r ∧
      tok.start = n - (lex ++ r).length ∧ tok.stop = n - r.length := by
  unfold readNumber at h
  simp only [bind, Except.bind, pure, Except.pure] at h
  obtain ⟨sg, hsgs, hsg⟩ := skipMinus_split s
  cases h2 : readOverInteger n (skipMinus s) with
  | error e => simp [h2] at h
  | ok s2 =>
    simp only [h2] at h
    obtain ⟨ip, hip_s, hip, hs2d⟩ := readOverInteger_sound n _ s2 h2
    cases h3 : readFraction n s2 with
    | error e => simp [h3] at h
    | ok p1 =>
      obtain ⟨f1, s3⟩ := p1
      simp only [h3] at h
      cases h4 : readExponent n s3 with
      | error e => simp [h4] at h
      | ok p2 =>
        obtain ⟨f2, s4⟩ := p2
        simp only [h4] at h
        cases h5 : numberLookahead n s4 with
        | error e => simp [h5] at h
        | ok u =>
          simp only [h5, Except.ok.injEq, Prod.mk.injEq] at h
          obtain ⟨rfl, rfl⟩ := h
          have hla := numberLookahead_sound n s4 h5
          -- decompose the fraction and the exponent
          have hfr : ∃ fr, s2 = fr ++ s3 ∧ (fr = [] ∨ ∃ l, fr = 46 :: l ∧ Digits1 l) ∧ (f1 = false ↔ fr = []) ∧
              (f1 = false → startsWith (· == 46) s3 = false) ∧ (f1 = true → startsWith Spec.Lexical.isDigit s3 = false) := by
            rcases readFraction_sound n s2 s3 f1 h3 with ⟨rfl, rfl, hd⟩ | ⟨rfl, l, hs, hl, hd⟩
            · exact ⟨[], rfl, Or.inl rfl, by simp, fun _ => hd, by simp⟩
            · exact ⟨46 :: l, hs, Or.inr ⟨l, rfl, hl⟩, by simp, by simp, fun _ => hd⟩
          have hex : ∃ ex, s3 = ex ++ s4 ∧ (ex = [] ∨ ExpPart ex) ∧ (f2 = false ↔ ex = []) ∧
              (f2 = true → startsWith Spec.Lexical.isDigit s4 = false) := by
            rcases readExponent_sound n s3 s4 f2 h4 with ⟨rfl, rfl, _⟩ | ⟨rfl, l, hs, hl, hd⟩
            · exact ⟨[], rfl, Or.inl rfl, by simp, by simp⟩
            · obtain ⟨i, sg', ds, rfl, _⟩ := hl
              exact ⟨_, hs, Or.inr ⟨i, sg', ds, rfl, by assumption⟩, by simp, fun _ => hd⟩
          obtain ⟨fr, hfr_s, hfrc, hf1, hf1dot, hf1dig⟩ := hfr
          obtain ⟨ex, hex_s, hexc, hf2, hf2dig⟩ := hex
          have hs_all : s = (sg ++ ip ++ fr ++ ex) ++ s4 := by
            conv => lhs; rw [hsgs, hip_s, hfr_s, hex_s]
            simp
          have hne : sg ++ ip ++ fr ++ ex ≠ [] := by
            obtain ⟨d, ds, rfl, _⟩ := IntBody_ne_nil hip
            simp
          have hval : s.take (s.length - s4.length) = sg ++ ip ++ fr ++ ex := by
            rw [hs_all]; exact take_length_sub _ _
          refine ⟨sg ++ ip ++ fr ++ ex, hs_all, hne, ?_, ?_, ?_, rfl⟩
          · -- the lexeme is an IntValue / a FloatValue and the value is verbatim
            cases hff : (f1 || f2) with
            | false =>
              have h1 : f1 = false := (Bool.or_eq_false_iff.mp hff).1
              have h2' : f2 = false := (Bool.or_eq_false_iff.mp hff).2
              have hfr0 := hf1.mp h1
              have hex0 := hf2.mp h2'
              subst hfr0; subst hex0
              simp only [hff, Bool.false_eq_true, ↓reduceIte, Lexeme, hval, List.append_nil, and_true]
              exact isIntegerPart_of sg ip hsg hip
            | true =>
              simp only [hff, ↓reduceIte, Lexeme, hval, and_true]
              refine isFloatValue_of sg ip fr ex hsg hip hfrc hexc ?_
              rintro ⟨rfl, rfl⟩
              have h1 := hf1.mpr rfl
              have h2' := hf2.mpr rfl
              simp [h1, h2'] at hff
          · -- look-ahead
            cases hff : (f1 || f2) with
            | false =>
              have h1 : f1 = false := (Bool.or_eq_false_iff.mp hff).1
              have h2' : f2 = false := (Bool.or_eq_false_iff.mp hff).2
              have hfr0 := hf1.mp h1
              have hex0 := hf2.mp h2'
              subst hfr0; subst hex0
              simp only [List.nil_append] at hfr_s hex_s
              subst hfr_s; subst hex_s
              simp only [hff, Bool.false_eq_true, ↓reduceIte, Follow]
              have hdot := hf1dot h1
              exact startsWith_or _ _ _ (startsWith_or _ _ _ hs2d hla) hdot
            | true =>
              simp only [hff, ↓reduceIte, Follow]
              refine startsWith_or _ _ _ ?_ hla
              cases f2 with
              | true => exact hf2dig rfl
              | false =>
                have hex0 := hf2.mp rfl
                subst hex0
                simp only [List.nil_append] at hex_s
                subst hex_s
                have h1 : f1 = true := by simpa using hff
                exact hf1dig h1
          · simp [posAt, hs_all]

end PyGql.Lex

/-
  The transformations of C06 that cannot affect validity, as ONE function on documents:
  `tr T d` re-orders every selection list with `T.sels`, every argument list (of fields and directives) with
  `T.args` - any functions that return a permutation of their input - and renames fragments with `T.frag`
  (definitions and spreads consistently). Reordering of definitions is expressed with `List.Perm` directly.
  Main lemma: the nodes of the transformed document are, up to order, the transformed nodes of the document.
-/
import PyGqlModel.Spec.ValidSpec
namespace PyGql.Validate
open PyGql PyGql.Validate.Spec

structure Tr where
  sels : List Sel → List Sel
  args : List Arg → List Arg
  frag : String → String
  sels_perm : ∀ l, (sels l).Perm l
  args_perm : ∀ l, (args l).Perm l

namespace Tr
variable (T : Tr)

def dir (d : Dir) : Dir := { name := d.name, args := T.args d.args }

mutual
def sel : Sel → Sel
  | .field al n args dirs hs id sub => .field al n (T.args args) (dirs.map T.dir) hs id (T.sels (selList sub))
  | .spread n dirs => .spread (T.frag n) (dirs.map T.dir)
  | .inline on dirs id sub => .inline on (dirs.map T.dir) id (T.sels (selList sub))
def selList : List Sel → List Sel
  | [] => []
  | x :: xs => sel x :: selList xs
end

theorem dir_isConst (d : Dir) : (T.dir d).isConst = d.isConst := by
  simp only [Dir.isConst, dir]
  exact (T.args_perm d.args).all_eq

theorem dirs_const {ds : List Dir} (h : ds.all Dir.isConst = true) : (ds.map T.dir).all Dir.isConst = true := by
  rw [List.all_map]
  simpa [Function.comp_def, dir_isConst] using h

/-- the directives of a variable definition get their arguments re-ordered as well -/
def varDef (v : VarDef) : VarDef := { v with dirs := v.dirs.map T.dir, dirsConst := T.dirs_const v.dirsConst }

def defn : Def → Def
  | .op k nm vars dirs id sels => .op k nm (vars.map T.varDef) (dirs.map T.dir) id (T.sels (T.selList sels))
  | .frag n on dirs id sels => .frag (T.frag n) on (dirs.map T.dir) id (T.sels (T.selList sels))
  | .ts a b => .ts a b

def doc (d : Doc) : Doc := { defs := d.defs.map T.defn }

def node : Node → Node
  | .document d => .document (T.doc d)
  | .operation k nm vars dirs sels => .operation k nm (vars.map T.varDef) (dirs.map T.dir) (T.sels (T.selList sels))
  | .varDef v => .varDef (T.varDef v)
  | .fragmentDef n on dirs => .fragmentDef (T.frag n) on (dirs.map T.dir)
  | .directive d => .directive (T.dir d)
  | .selectionSet id sels => .selectionSet id (T.sels (T.selList sels))
  | .field n args dirs hs => .field n (T.args args) (dirs.map T.dir) hs
  | .spread n dirs => .spread (T.frag n) (dirs.map T.dir)
  | .inline on dirs => .inline on (dirs.map T.dir)
  | n => n

theorem selList_eq_map (l : List Sel) : T.selList l = l.map T.sel := by
  induction l with
  | nil => rfl
  | cons x xs ih => rw [selList, ih]; rfl

end Tr

theorem selsNodes_eq_flatMap (l : List Sel) : selsNodes l = l.flatMap selNodes := by
  induction l with
  | nil => rfl
  | cons x xs ih => rw [selsNodes, ih]; rfl

/-- a node produced by `valueNodes`: a value or an object field -/
def Node.isValueish : Node → Bool | .value _ | .objField _ => true | _ => false

mutual
theorem valueNodes_kinds : ∀ (v : Value) (n : Node), n ∈ valueNodes v → n.isValueish = true
  | .list vs, n, hn => by
    simp only [valueNodes, List.mem_cons] at hn
    rcases hn with rfl | hn
    · rfl
    · exact valuesNodes_kinds vs n hn
  | .obj fs, n, hn => by
    simp only [valueNodes, List.mem_cons] at hn
    rcases hn with rfl | hn
    · rfl
    · exact objFieldsNodes_kinds fs n hn
  | .var x, n, hn => by simp only [valueNodes, List.mem_singleton] at hn; subst hn; rfl
  | .int x, n, hn => by simp only [valueNodes, List.mem_singleton] at hn; subst hn; rfl
  | .float x, n, hn => by simp only [valueNodes, List.mem_singleton] at hn; subst hn; rfl
  | .str x, n, hn => by simp only [valueNodes, List.mem_singleton] at hn; subst hn; rfl
  | .bool x, n, hn => by simp only [valueNodes, List.mem_singleton] at hn; subst hn; rfl
  | .null, n, hn => by simp only [valueNodes, List.mem_singleton] at hn; subst hn; rfl
  | .enum x, n, hn => by simp only [valueNodes, List.mem_singleton] at hn; subst hn; rfl
theorem valuesNodes_kinds : ∀ (vs : List Value) (n : Node), n ∈ valuesNodes vs → n.isValueish = true
  | [], n, hn => by simp [valuesNodes] at hn
  | v :: vs, n, hn => by
    simp only [valuesNodes, List.mem_append] at hn
    rcases hn with hn | hn
    · exact valueNodes_kinds v n hn
    · exact valuesNodes_kinds vs n hn
theorem objFieldNodes_kinds : ∀ (f : ObjField) (n : Node), n ∈ objFieldNodes f → n.isValueish = true
  | .mk name v, n, hn => by
    simp only [objFieldNodes, List.mem_cons] at hn
    rcases hn with rfl | hn
    · rfl
    · exact valueNodes_kinds v n hn
theorem objFieldsNodes_kinds : ∀ (fs : List ObjField) (n : Node), n ∈ objFieldsNodes fs → n.isValueish = true
  | [], n, hn => by simp [objFieldsNodes] at hn
  | f :: fs, n, hn => by
    simp only [objFieldsNodes, List.mem_append] at hn
    rcases hn with hn | hn
    · exact objFieldNodes_kinds f n hn
    · exact objFieldsNodes_kinds fs n hn
end

theorem map_node_id (T : Tr) (l : List Node) (hl : ∀ n ∈ l, n.isValueish = true ∨ (∃ a, n = .argument a) ∨
    (∃ t, n = .typeNode t)) : l.map T.node = l := by
  induction l with
  | nil => rfl
  | cons a as ih =>
    rw [List.map_cons, ih (fun n hn => hl n (List.mem_cons_of_mem _ hn))]
    rcases hl a (List.mem_cons_self ..) with h | ⟨x, rfl⟩ | ⟨x, rfl⟩
    · cases a <;> simp_all [Node.isValueish, Tr.node]
    · rfl
    · rfl

theorem argNodes_map (T : Tr) (a : Arg) : (argNodes a).map T.node = argNodes a :=
  map_node_id T _ (fun n hn => by
    simp only [argNodes, List.mem_cons] at hn
    rcases hn with rfl | hn
    · exact Or.inr (Or.inl ⟨_, rfl⟩)
    · exact Or.inl (valueNodes_kinds _ n hn))

theorem argsNodes_map (T : Tr) (as : List Arg) : (argsNodes as).map T.node = argsNodes as := by
  induction as with
  | nil => rfl
  | cons a as ih => simp only [argsNodes, List.flatMap_cons, List.map_append] at ih ⊢; rw [argNodes_map, ih]

theorem argsNodes_perm (T : Tr) (as : List Arg) : (argsNodes (T.args as)).Perm (argsNodes as) :=
  (T.args_perm as).flatMap_right _

theorem dirNodes_tr (T : Tr) (d : Dir) : (dirNodes (T.dir d)).Perm ((dirNodes d).map T.node) := by
  simp only [dirNodes, Tr.dir, List.map_cons, argsNodes_map]
  exact List.Perm.cons _ (argsNodes_perm T d.args)

theorem dirsNodes_tr (T : Tr) (ds : List Dir) : (dirsNodes (ds.map T.dir)).Perm ((dirsNodes ds).map T.node) := by
  induction ds with
  | nil => exact List.Perm.refl _
  | cons d ds ih =>
    simp only [dirsNodes, List.map_cons, List.flatMap_cons, List.map_append] at ih ⊢
    exact (dirNodes_tr T d).append ih

mutual
theorem selNodes_tr (T : Tr) : ∀ x : Sel, (selNodes (T.sel x)).Perm ((selNodes x).map T.node)
  | .field al n args dirs true id sub => by
    simp only [Tr.sel, selNodes, ↓reduceIte, List.map_cons, List.map_append, argsNodes_map]
    refine List.Perm.cons _ (((argsNodes_perm T args).append (dirsNodes_tr T dirs)).append (List.Perm.cons _ ?_))
    rw [selsNodes_eq_flatMap]
    refine ((T.sels_perm _).flatMap_right _).trans ?_
    rw [← selsNodes_eq_flatMap]
    exact selsNodes_tr T sub
  | .field al n args dirs false id sub => by
    simp only [Tr.sel, selNodes, Bool.false_eq_true, ↓reduceIte, List.map_cons, List.map_append, argsNodes_map,
      List.append_nil, List.map_nil]
    exact List.Perm.cons _ ((argsNodes_perm T args).append (dirsNodes_tr T dirs))
  | .spread n dirs => by
    simp only [Tr.sel, selNodes, List.map_cons]
    exact List.Perm.cons _ (dirsNodes_tr T dirs)
  | .inline on dirs id sub => by
    simp only [Tr.sel, selNodes, List.map_cons, List.map_append]
    refine List.Perm.cons _ ((dirsNodes_tr T dirs).append (List.Perm.cons _ ?_))
    rw [selsNodes_eq_flatMap]
    refine ((T.sels_perm _).flatMap_right _).trans ?_
    rw [← selsNodes_eq_flatMap]
    exact selsNodes_tr T sub
theorem selsNodes_tr (T : Tr) : ∀ xs : List Sel, (selsNodes (T.selList xs)).Perm ((selsNodes xs).map T.node)
  | [] => by simp [Tr.selList, selsNodes]
  | x :: xs => by
    simp only [Tr.selList, selsNodes, List.map_append]
    exact (selNodes_tr T x).append (selsNodes_tr T xs)
end

theorem selsTop_tr (T : Tr) (sels : List Sel) :
    (selsNodes (T.sels (T.selList sels))).Perm ((selsNodes sels).map T.node) := by
  rw [selsNodes_eq_flatMap]
  refine ((T.sels_perm _).flatMap_right _).trans ?_
  rw [← selsNodes_eq_flatMap]
  exact selsNodes_tr T sels

theorem valueNodes_map (T : Tr) (v : Value) : (valueNodes v).map T.node = valueNodes v :=
  map_node_id T _ (fun n hn => Or.inl (valueNodes_kinds _ n hn))

theorem varDefNodes_tr (T : Tr) (v : VarDef) : (varDefNodes (T.varDef v)).Perm ((varDefNodes v).map T.node) := by
  simp only [varDefNodes, Tr.varDef, List.map_cons, List.map_append]
  refine List.Perm.cons _ (List.Perm.append ?_ (List.Perm.cons _ (dirsNodes_tr T v.dirs)))
  cases v.default with
  | none => exact List.Perm.refl _
  | some dv => simp only [valueNodes_map]; exact List.Perm.refl _

theorem varDefsNodes_tr (T : Tr) (vars : List VarDef) :
    ((vars.map T.varDef).flatMap varDefNodes).Perm ((vars.flatMap varDefNodes).map T.node) := by
  induction vars with
  | nil => exact List.Perm.refl _
  | cons v vs ih =>
    simp only [List.map_cons, List.flatMap_cons, List.map_append]
    exact (varDefNodes_tr T v).append ih

theorem defNodes_tr (T : Tr) (x : Def) : (defNodes (T.defn x)).Perm ((defNodes x).map T.node) := by
  cases x with
  | op k nm vars dirs id sels =>
    simp only [Tr.defn, defNodes, List.map_cons, List.map_append]
    exact List.Perm.cons _ (((varDefsNodes_tr T vars).append (dirsNodes_tr T dirs)).append (List.Perm.cons _ (selsTop_tr T sels)))
  | frag n on dirs id sels =>
    simp only [Tr.defn, defNodes, List.map_cons, List.map_append]
    exact List.Perm.cons _ ((dirsNodes_tr T dirs).append (List.Perm.cons _ (selsTop_tr T sels)))
  | ts a b => exact List.Perm.refl _

/-- **the nodes of the transformed document are, up to order, the transformed nodes of the document** -/
theorem nodes_tr (T : Tr) (d : Doc) : (nodes (T.doc d)).Perm ((nodes d).map T.node) := by
  simp only [nodes, Tr.doc, List.map_cons]
  refine List.Perm.cons _ ?_
  induction d.defs with
  | nil => exact List.Perm.refl _
  | cons x xs ih =>
    simp only [List.map_cons, List.flatMap_cons, List.map_append]
    exact (defNodes_tr T x).append ih

theorem forall_nodes_tr (T : Tr) (d : Doc) (P : Node → Prop) :
    (∀ n ∈ nodes (T.doc d), P n) ↔ (∀ m ∈ nodes d, P (T.node m)) := by
  constructor
  · intro h m hm
    exact h _ ((nodes_tr T d).mem_iff.mpr (List.mem_map_of_mem hm))
  · intro h n hn
    obtain ⟨m, hm, rfl⟩ := List.mem_map.mp ((nodes_tr T d).mem_iff.mp hn)
    exact h m hm

end PyGql.Validate

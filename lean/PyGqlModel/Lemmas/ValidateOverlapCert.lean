/-
  `OverlappingFieldsCanBeMergedChecker`, soundness half with fragment spreads, part 1: CERTIFICATES.
  `Cert M pme f1 f2`: the tree of checks a call of `_find_conflict` that returned false has made - arguments, types,
  and for the sub-selections: direct fields pairwise, fields against spread fragments (transitively), and for pairs
  of spread fragments only that they are COVERED by the compared-pairs memo `M` (`Cov`). The memo itself is closed
  (`KeyObl`): a key stands for "direct fields compared, nested fragment pairs covered". Height-indexed versions of
  `Spec.Conf` / `Spec.CollF` for the inductions.
-/
import PyGqlModel.Lemmas.ValidateOverlapSoundWalk
namespace PyGql.Validate
open PyGql PyGql.Validate.Spec

/-! ### heights -/

inductive ConfH (s : SchemaD) (d : Doc) : Nat → Bool → FEntry → FEntry → Prop where
  | args {n : Nat} {pme : Bool} {f1 f2 : FEntry} :
      (pme || exclusiveParents s f1 f2) = false →
      (f1.name ≠ f2.name ∨ sameArguments f1.args f2.args = some false) → ConfH s d n pme f1 f2
  | types {n : Nat} {pme : Bool} {f1 f2 : FEntry} {t1 t2 : Ty} :
      f1.fdef.map (·.type) = some t1 → f2.fdef.map (·.type) = some t2 → typesConflict s t1 t2 = true →
      ConfH s d n pme f1 f2
  | sub {n : Nat} {pme : Bool} {f1 f2 : FEntry} {p1 p2 : Option String} {rn : String} {e1 e2 : FEntry} :
      f1.hasSub = true → f2.hasSub = true → Adm s d f1.ssid p1 → Adm s d f2.ssid p2 →
      Coll s d p1 f1.sub rn e1 → Coll s d p2 f2.sub rn e2 →
      ConfH s d n (pme || exclusiveParents s f1 f2) e1 e2 → ConfH s d (n + 1) pme f1 f2
  | subSwap {n : Nat} {pme : Bool} {f1 f2 : FEntry} {p1 p2 : Option String} {rn : String} {e1 e2 : FEntry} :
      f1.hasSub = true → f2.hasSub = true → Adm s d f1.ssid p1 → Adm s d f2.ssid p2 →
      Coll s d p1 f1.sub rn e1 → Coll s d p2 f2.sub rn e2 →
      ConfH s d n (pme || exclusiveParents s f1 f2) e2 e1 → ConfH s d (n + 1) pme f1 f2

theorem conf_confH {s : SchemaD} {d : Doc} {pme : Bool} {f1 f2 : FEntry} (h : Conf s d pme f1 f2) :
    ∃ n, ConfH s d n pme f1 f2 := by
  induction h with
  | args h1 h2 => exact ⟨0, .args h1 h2⟩
  | types h1 h2 h3 => exact ⟨0, .types h1 h2 h3⟩
  | sub s1 s2 a1 a2 c1 c2 _ ih => obtain ⟨n, hn⟩ := ih; exact ⟨n + 1, .sub s1 s2 a1 a2 c1 c2 hn⟩
  | subSwap s1 s2 a1 a2 c1 c2 _ ih => obtain ⟨n, hn⟩ := ih; exact ⟨n + 1, .subSwap s1 s2 a1 a2 c1 c2 hn⟩

theorem ConfH.symm {s : SchemaD} {d : Doc} {n : Nat} {pme : Bool} {f1 f2 : FEntry} (h : ConfH s d n pme f1 f2) :
    ConfH s d n pme f2 f1 := by
  induction h with
  | args hme harg =>
    refine .args (by rw [exclusiveParents_symm]; exact hme) ?_
    rcases harg with h | h
    · exact Or.inl (fun e => h e.symm)
    · exact Or.inr (by rw [sameArguments_symm]; exact h)
  | types h1 h2 h3 => exact .types h2 h1 (by rw [typesConflict_symm]; exact h3)
  | sub s1 s2 a1 a2 c1 c2 _ ih => exact .sub s2 s1 a2 a1 c2 c1 (by rw [exclusiveParents_symm]; exact ih)
  | subSwap s1 s2 a1 a2 c1 c2 _ ih => exact .subSwap s2 s1 a2 a1 c2 c1 (by rw [exclusiveParents_symm]; exact ih)

/-- a conflict under "parents mutually exclusive" is a conflict without that assumption -/
theorem ConfH.relax {s : SchemaD} {d : Doc} {n : Nat} {a : Bool} {f1 f2 : FEntry} (h : ConfH s d n a f1 f2) :
    ∀ b : Bool, (b = true → a = true) → ConfH s d n b f1 f2 := by
  induction h with
  | @args n pme f1 f2 hme harg =>
    intro b hb
    refine .args ?_ harg
    cases b with
    | false => simpa using (by simpa using hme : pme = false ∧ exclusiveParents s f1 f2 = false).2
    | true => have := hb rfl; subst this; simp at hme
  | types h1 h2 h3 => intro b _; exact .types h1 h2 h3
  | @sub n pme f1 f2 p1 p2 rn e1 e2 s1 s2 a1 a2 c1 c2 _ ih =>
    intro b hb
    refine .sub s1 s2 a1 a2 c1 c2 (ih _ ?_)
    intro h
    cases b with
    | false => simp at h; simp [h]
    | true => simp [hb rfl]
  | @subSwap n pme f1 f2 p1 p2 rn e1 e2 s1 s2 a1 a2 c1 c2 _ ih =>
    intro b hb
    refine .subSwap s1 s2 a1 a2 c1 c2 (ih _ ?_)
    intro h
    cases b with
    | false => simp at h; simp [h]
    | true => simp [hb rfl]

inductive CollFH (s : SchemaD) (d : Doc) : Nat → String → String → FEntry → Prop where
  | here {k : Nat} {name on : String} {fid : Nat} {fsels : List Sel} {p : Option String} {rn : String} {e : FEntry} :
      AL.get? (fragTable d) name = some (on, fid, fsels) → Adm s d fid p → CollD s p fsels rn e → CollFH s d k name rn e
  | there {k : Nat} {name on g : String} {fid : Nat} {fsels : List Sel} {rn : String} {e : FEntry} :
      AL.get? (fragTable d) name = some (on, fid, fsels) → SpreadD fsels g → CollFH s d k g rn e →
      CollFH s d (k + 1) name rn e

theorem collF_collFH {s : SchemaD} {d : Doc} {g rn : String} {e : FEntry} (h : CollF s d g rn e) :
    ∃ k, CollFH s d k g rn e := by
  induction h with
  | here h1 h2 h3 => exact ⟨0, .here h1 h2 h3⟩
  | there h1 h2 _ ih => obtain ⟨k, hk⟩ := ih; exact ⟨k + 1, .there h1 h2 hk⟩

theorem collFH_collF {s : SchemaD} {d : Doc} {k : Nat} {g rn : String} {e : FEntry} (h : CollFH s d k g rn e) :
    CollF s d g rn e := by
  induction h with
  | here h1 h2 h3 => exact .here h1 h2 h3
  | there h1 h2 _ ih => exact .there h1 h2 ih

/-! ### the memo and the certificates -/

abbrev Memo := String × String × Bool → Prop

/-- the key `_conflicts_between_fragments` files a pair of fragment names under -/
def keyOf (f1 f2 : String) (me : Bool) : String × String × Bool := ((sortedPair f1 f2).1, (sortedPair f1 f2).2, me)

/-- the pair of fragments needs no comparison, or is in the memo -/
def Cov (M : Memo) (me : Bool) (f1 f2 : String) : Prop := f1 = "" ∨ f2 = "" ∨ f1 = f2 ∨ M (keyOf f1 f2 me)

def CovS (M : Memo) (me : Bool) (f1 f2 : String) : Prop := Cov M me f1 f2 ∨ Cov M me f2 f1

theorem CovS.symm {M : Memo} {me : Bool} {f1 f2 : String} (h : CovS M me f1 f2) : CovS M me f2 f1 := Or.symm h

/-- type of the sub-selection of a field, as `_find_conflict` passes it on -/
def FEntry.subParent (f : FEntry) : Option String := (f.fdef.map (·.type)).map (·.base)

/-- **certificate**: `_find_conflict` had nothing to report for the two fields -/
inductive Cert (s : SchemaD) (d : Doc) (M : Memo) : Bool → FEntry → FEntry → Prop where
  | mk {pme : Bool} {f1 f2 : FEntry} :
      ((pme || exclusiveParents s f1 f2) = false → f1.name = f2.name ∧ sameArguments f1.args f2.args = some true) →
      (∀ t1 t2, f1.fdef.map (·.type) = some t1 → f2.fdef.map (·.type) = some t2 → typesConflict s t1 t2 = false) →
      (f1.hasSub = true → f2.hasSub = true → ∀ rn e1 e2, CollD s f1.subParent f1.sub rn e1 →
        CollD s f2.subParent f2.sub rn e2 → Cert s d M (pme || exclusiveParents s f1 f2) e1 e2) →
      (f1.hasSub = true → f2.hasSub = true → ∀ g, SpreadD f2.sub g → ∀ rn e1 e2, CollD s f1.subParent f1.sub rn e1 →
        CollF s d g rn e2 → Cert s d M (pme || exclusiveParents s f1 f2) e1 e2) →
      (f1.hasSub = true → f2.hasSub = true → ∀ g, SpreadD f1.sub g → ∀ rn e1 e2, CollD s f2.subParent f2.sub rn e1 →
        CollF s d g rn e2 → Cert s d M (pme || exclusiveParents s f1 f2) e1 e2) →
      (f1.hasSub = true → f2.hasSub = true → ∀ g1 g2, SpreadD f1.sub g1 → SpreadD f2.sub g2 →
        Cov M (pme || exclusiveParents s f1 f2) g1 g2) →
      Cert s d M pme f1 f2

/-- direct fields / spreads of a fragment of the table -/
def DirF (s : SchemaD) (d : Doc) (g rn : String) (e : FEntry) : Prop :=
  ∃ on fid fsels p, AL.get? (fragTable d) g = some (on, fid, fsels) ∧ Adm s d fid p ∧ CollD s p fsels rn e
def SprF (d : Doc) (g h : String) : Prop :=
  ∃ on fid fsels, AL.get? (fragTable d) g = some (on, fid, fsels) ∧ SpreadD fsels h

/-- what a key of the memo stands for (when both fragments are defined) -/
def KeyObl (s : SchemaD) (d : Doc) (M : Memo) (k : String × String × Bool) : Prop :=
  (AL.get? (fragTable d) k.1).isSome = true → (AL.get? (fragTable d) k.2.1).isSome = true →
  (∀ rn e1 e2, DirF s d k.1 rn e1 → DirF s d k.2.1 rn e2 → Cert s d M k.2.2 e1 e2 ∨ Cert s d M k.2.2 e2 e1) ∧
  (∀ h, SprF d k.1 h → CovS M k.2.2 h k.2.1) ∧
  (∀ h, SprF d k.2.1 h → CovS M k.2.2 k.1 h)

/-- what the visit of one selection set of the document has established -/
structure WithinCert (s : SchemaD) (d : Doc) (M : Memo) (p : Option String) (sels : List Sel) : Prop where
  direct : ∀ rn e1 e2, CollD s p sels rn e1 → CollD s p sels rn e2 → e1 ≠ e2 →
    Cert s d M false e1 e2 ∨ Cert s d M false e2 e1
  frag : ∀ g, SpreadD sels g → ∀ rn e1 e2, CollD s p sels rn e1 → CollF s d g rn e2 → Cert s d M false e1 e2
  frags : ∀ g1 g2, SpreadD sels g1 → SpreadD sels g2 → CovS M false g1 g2

end PyGql.Validate

/-
  Frame / congruence facts of `enterRule` (see `Lemmas/ValidateChainFrame.lean`), part 3: proved case by case over the
  26 rules and the 14 node kinds.
-/
import PyGqlModel.Lemmas.ValidateChainFrame
namespace PyGql.Validate
open PyGql

set_option maxHeartbeats 2000000 in
/-- a rule only writes its own part, the error list and the exception flag -/
theorem enterRule_put (s : SchemaD) (fx : Fixes) (r : Rule) (n : Node) (ti : TI) (a : RS) :
    (enterRule s fx r n ti a).1 = RS.put r a (enterRule s fx r n ti a).1 := by
  cases r <;> cases n <;> rs_pcases

end PyGql.Validate

/-
  The parametrised chain (`Validate/ChainPar.lean`) reads its rule-enter function only at the members of the chain:
  two functions that agree on them give the same run (`visitDocumentPar_congr`). Used to identify the lone runs of the
  memoised chain (`enterRuleM`) with the lone runs of the chain of the theorems for every rule but the overlap rule.
-/
import PyGqlModel.Validate.ChainPar
namespace PyGql.Validate
open PyGql

/-- `er` and `er'` agree on the members of `c` -/
def AgreeOn (c : Cfg) (er er' : ER) : Prop :=
  ∀ r ∈ c.rules, ∀ n ti a, er c.schema c.fixes r n ti a = er' c.schema c.fixes r n ti a

theorem enterRulesPar_congr {er er' : ER} (c : Cfg) (n : Node) (ti : TI) : ∀ (rules : List Rule) (a : RS),
    (∀ r ∈ rules, ∀ n ti a, er c.schema c.fixes r n ti a = er' c.schema c.fixes r n ti a) →
    enterRulesPar er c n ti rules a = enterRulesPar er' c n ti rules a
  | [], a, _ => by rw [enterRulesPar, enterRulesPar]
  | r :: rest, a, h => by
    rw [enterRulesPar, enterRulesPar, h r (List.mem_cons_self ..)]
    simp only [enterRulesPar_congr c n ti rest _ (fun r hr => h r (List.mem_cons_of_mem _ hr))]

theorem raisedRulesPar_congr {er er' : ER} (c : Cfg) (n : Node) (ti : TI) : ∀ (rules : List Rule) (a : RS),
    (∀ r ∈ rules, ∀ n ti a, er c.schema c.fixes r n ti a = er' c.schema c.fixes r n ti a) →
    raisedRulesPar er c n ti rules a = raisedRulesPar er' c n ti rules a
  | [], a, _ => by rw [raisedRulesPar, raisedRulesPar]
  | r :: rest, a, h => by
    rw [raisedRulesPar, raisedRulesPar, h r (List.mem_cons_self ..)]
    simp only [raisedRulesPar_congr c n ti rest _ (fun r hr => h r (List.mem_cons_of_mem _ hr))]

/-- a visit function of the parametrised chain that reads `er` at the members only -/
def CongE (W : ER → Cfg → St → St) : Prop := ∀ er er' c, AgreeOn c er er' → ∀ st, W er c st = W er' c st

theorem CongE.id : CongE (fun _ _ st => st) := fun _ _ _ _ _ => rfl

theorem CongE.comp {W1 W2 : ER → Cfg → St → St} (h1 : CongE W1) (h2 : CongE W2) :
    CongE (fun er c st => W2 er c (W1 er c st)) := fun er er' c h st => by
  simp only [h1 er er' c h st, h2 er er' c h]

theorem CongE.foldl {α : Type} (W : α → ER → Cfg → St → St) : ∀ (l : List α), (∀ x ∈ l, CongE (W x)) →
    CongE (fun er c st => l.foldl (fun st x => W x er c st) st)
  | [], _ => CongE.id
  | x :: xs, h =>
    CongE.comp (h x (List.mem_cons_self ..)) (CongE.foldl W xs fun y hy => h y (List.mem_cons_of_mem _ hy))

theorem CongE.ite (b : Bool) {W : ER → Cfg → St → St} (h : CongE W) : CongE (fun er c st => if b then W er c st else st) := by
  cases b
  · exact CongE.id
  · exact h

theorem CongE.node (n : Node) {B : ER → Cfg → St → St} (hB : CongE B) :
    CongE (fun er c st => visitNodePar er c n (B er c) st) := fun er er' c h st => by
  have he : enterPar er c n st = enterPar er' c n st := by
    simp only [enterPar, enterRulesPar_congr c n _ c.rules st.rs h]
  have hl : ∀ st0 st1, leaveSkippedPar er c n st0 st1 = leaveSkippedPar er' c n st0 st1 := fun st0 st1 => by
    simp only [leaveSkippedPar, raisedRulesPar_congr c n _ c.rules st0.rs h]
  have hb : B er c = B er' c := funext fun st => hB er er' c h st
  simp only [visitNodePar, he, hl, hb]
  rfl

theorem CongE.congr {W W' : ER → Cfg → St → St} (h : CongE W') (e : ∀ er c st, W er c st = W' er c st) : CongE W := by
  have : W = W' := funext fun er => funext fun c => funext fun st => e er c st
  rw [this]; exact h

mutual
theorem cong_value : ∀ v : Value, CongE (fun er c => visitValuePar er c v)
  | .list vs => (CongE.node (.value (.list vs)) (cong_values vs)).congr fun er c st => by rw [visitValuePar]
  | .obj fs => (CongE.node (.value (.obj fs)) (cong_objFields fs)).congr fun er c st => by rw [visitValuePar]
  | .var x => (CongE.node (.value (.var x)) CongE.id).congr fun er c st => by rw [visitValuePar]
  | .int x => (CongE.node (.value (.int x)) CongE.id).congr fun er c st => by rw [visitValuePar]
  | .float x => (CongE.node (.value (.float x)) CongE.id).congr fun er c st => by rw [visitValuePar]
  | .str x => (CongE.node (.value (.str x)) CongE.id).congr fun er c st => by rw [visitValuePar]
  | .bool x => (CongE.node (.value (.bool x)) CongE.id).congr fun er c st => by rw [visitValuePar]
  | .null => (CongE.node (.value .null) CongE.id).congr fun er c st => by rw [visitValuePar]
  | .enum x => (CongE.node (.value (.enum x)) CongE.id).congr fun er c st => by rw [visitValuePar]
theorem cong_values : ∀ vs : List Value, CongE (fun er c => visitValuesPar er c vs)
  | [] => CongE.id.congr fun er c st => by rw [visitValuesPar]
  | v :: vs => (CongE.comp (cong_value v) (cong_values vs)).congr fun er c st => by rw [visitValuesPar]
theorem cong_objField : ∀ f : ObjField, CongE (fun er c => visitObjFieldPar er c f)
  | .mk name v => (CongE.node (.objField name) (cong_value v)).congr fun er c st => by rw [visitObjFieldPar]
theorem cong_objFields : ∀ fs : List ObjField, CongE (fun er c => visitObjFieldsPar er c fs)
  | [] => CongE.id.congr fun er c st => by rw [visitObjFieldsPar]
  | f :: fs => (CongE.comp (cong_objField f) (cong_objFields fs)).congr fun er c st => by rw [visitObjFieldsPar]
end

theorem cong_argument (a : Arg) : CongE (fun er c => visitArgumentPar er c a) :=
  (CongE.node (.argument a) (cong_value a.value)).congr fun _ _ _ => rfl

theorem cong_arguments (as : List Arg) : CongE (fun er c => visitArgumentsPar er c as) :=
  (CongE.foldl (fun a er c => visitArgumentPar er c a) as fun a _ => cong_argument a).congr fun _ _ _ => rfl

theorem cong_directive (d : Dir) : CongE (fun er c => visitDirectivePar er c d) :=
  (CongE.node (.directive d) (cong_arguments d.args)).congr fun _ _ _ => rfl

theorem cong_directives (ds : List Dir) : CongE (fun er c => visitDirectivesPar er c ds) :=
  (CongE.foldl (fun d er c => visitDirectivePar er c d) ds fun d _ => cong_directive d).congr fun _ _ _ => rfl

mutual
theorem cong_sel : ∀ x : Sel, CongE (fun er c => visitSelPar er c x)
  | .field al name args dirs hasSub ssid sub =>
    (CongE.node (.field name args dirs hasSub)
      (CongE.comp (CongE.comp (cong_arguments args) (cong_directives dirs))
        (CongE.ite hasSub (CongE.node (.selectionSet ssid sub) (cong_sels sub))))).congr fun er c st => by
      rw [visitSelPar]
  | .spread name dirs => (CongE.node (.spread name dirs) (cong_directives dirs)).congr fun er c st => by rw [visitSelPar]
  | .inline on dirs ssid sub =>
    (CongE.node (.inline on dirs)
      (CongE.comp (cong_directives dirs) (CongE.node (.selectionSet ssid sub) (cong_sels sub)))).congr fun er c st => by
      rw [visitSelPar]
theorem cong_sels : ∀ xs : List Sel, CongE (fun er c => visitSelsPar er c xs)
  | [] => CongE.id.congr fun er c st => by rw [visitSelsPar]
  | x :: xs => (CongE.comp (cong_sel x) (cong_sels xs)).congr fun er c st => by rw [visitSelsPar]
end

theorem cong_varDef (v : VarDef) : CongE (fun er c => visitVarDefPar er c v) := by
  have hd : CongE (fun er c st => match v.default with | some d => visitValuePar er c d st | none => st) := by
    cases v.default with
    | none => exact CongE.id
    | some d => exact cong_value d
  exact (CongE.node (.varDef v)
    (CongE.comp (CongE.comp hd (CongE.node (.typeNode v.type) CongE.id)) (cong_directives v.dirs))).congr
    fun _ _ _ => rfl

theorem cong_def (x : Def) : CongE (fun er c => visitDefPar er c x) := by
  cases x with
  | op kind name vars dirs ssid sels =>
    exact (CongE.node (.operation kind name vars dirs sels)
      (CongE.comp (CongE.comp (CongE.foldl (fun v er c => visitVarDefPar er c v) vars fun v _ => cong_varDef v)
        (cong_directives dirs)) (CongE.node (.selectionSet ssid sels) (cong_sels sels)))).congr fun _ _ _ => rfl
  | frag name on dirs ssid sels =>
    exact (CongE.node (.fragmentDef name on dirs)
      (CongE.comp (cong_directives dirs) (CongE.node (.selectionSet ssid sels) (cong_sels sels)))).congr
      fun _ _ _ => rfl
  | ts a b => exact (CongE.node .tsDef CongE.id).congr fun _ _ _ => rfl

/-- **two rule-enter functions that agree on the members of the chain give the same run** -/
theorem visitDocumentPar_congr (er er' : ER) (c : Cfg) (h : AgreeOn c er er') (d : Doc) (st : St) :
    visitDocumentPar er c d st = visitDocumentPar er' c d st :=
  ((CongE.node (.document d) (CongE.foldl (fun x er c => visitDefPar er c x) d.defs fun x _ => cong_def x)).congr
    fun _ _ _ => rfl) er er' c h st

end PyGql.Validate

/-
  From well-formed node identities (`WfIds`), non-empty unique fragment names and acyclic fragment spreads to the
  side conditions `OverlapSide` of the soundness half of 5.3.2.
-/
import PyGqlModel.Validate.WfIds
import PyGqlModel.Lemmas.ValidateOverlapPost8
namespace PyGql.Validate
open PyGql PyGql.Validate.Spec

/-! ### lists -/

theorem nodup_flatMap_parts {α β} (f : α → List β) (l : List α) (h : (l.flatMap f).Nodup) :
    (∀ a ∈ l, (f a).Nodup) ∧ (∀ a ∈ l, ∀ b ∈ l, a ≠ b → ∀ x ∈ f a, x ∉ f b) := by
  induction l with
  | nil => exact ⟨(fun _ h => nomatch h), (fun _ h => nomatch h)⟩
  | cons c l ih =>
    rw [List.flatMap_cons, List.nodup_append] at h
    obtain ⟨h1, h2, h3⟩ := h
    obtain ⟨i1, i2⟩ := ih h2
    refine ⟨fun a ha => ?_, fun a ha b hb hab x hx hx' => ?_⟩
    · rcases List.mem_cons.mp ha with e | ha
      · rw [e]; exact h1
      · exact i1 a ha
    · rcases List.mem_cons.mp ha with ea | ha <;> rcases List.mem_cons.mp hb with eb | hb
      · exact hab (ea.trans eb.symm)
      · rw [ea] at hx
        exact h3 x hx x (List.mem_flatMap.mpr ⟨b, hb, hx'⟩) rfl
      · rw [eb] at hx'
        exact h3 x hx' x (List.mem_flatMap.mpr ⟨a, ha, hx⟩) rfl
      · exact i2 a ha b hb hab x hx hx'

theorem filterMap_inj_of_nodup {α β} (f : α → Option β) (l : List α) (h : (l.filterMap f).Nodup) :
    ∀ a ∈ l, ∀ b ∈ l, ∀ k, f a = some k → f b = some k → a = b := by
  induction l with
  | nil => intro a ha; cases ha
  | cons c l ih =>
    intro a ha b hb k fa fb
    have hmem : ∀ y ∈ l, f y = some k → k ∈ l.filterMap f := fun y hy hk => List.mem_filterMap.mpr ⟨y, hy, hk⟩
    rcases List.mem_cons.mp ha with ea | ha' <;> rcases List.mem_cons.mp hb with eb | hb'
    · exact ea.trans eb.symm
    · rw [ea] at fa
      rw [List.filterMap_cons, fa, List.nodup_cons] at h
      exact absurd (hmem _ hb' fb) h.1
    · rw [eb] at fb
      rw [List.filterMap_cons, fb, List.nodup_cons] at h
      exact absurd (hmem _ ha' fa) h.1
    · apply ih _ a ha' b hb' k fa fb
      rw [List.filterMap_cons] at h
      cases hc : f c with
      | none => rw [hc] at h; exact h
      | some _ => rw [hc, List.nodup_cons] at h; exact h.2

/-! ### identities -/

theorem idsOf_append (a b : List Node) : idsOf (a ++ b) = idsOf a ++ idsOf b := by simp [idsOf]
theorem idsOf_cons_sel (i : Nat) (sels : List Sel) (ns : List Node) :
    idsOf (.selectionSet i sels :: ns) = i :: idsOf ns := by simp [idsOf, ssidOf?]

theorem idsOf_nil_of_noSelSet (ns : List Node) (h : ∀ n ∈ ns, n.isSelSet = false) : idsOf ns = [] := by
  unfold idsOf
  rw [List.filterMap_eq_nil_iff]
  intro n hn
  have := h n hn
  cases n <;> simp_all [ssidOf?, Node.isSelSet]

theorem mem_idsOf {ns : List Node} {i : Nat} {sels : List Sel} (h : Node.selectionSet i sels ∈ ns) : i ∈ idsOf ns :=
  List.mem_filterMap.mpr ⟨_, h, rfl⟩

/-- the top-level selections of a definition -/
def Def.topSels : Def → List Sel
  | .op _ _ _ _ _ sels => sels
  | .frag _ _ _ _ sels => sels
  | .ts .. => []
def Def.topId : Def → Option Nat
  | .op _ _ _ _ i _ => some i
  | .frag _ _ _ i _ => some i
  | .ts .. => none

theorem idsOf_defNodes (df : Def) :
    idsOf (defNodes df) = (match df.topId with | some i => [i] | none => []) ++ idsOf (selsNodes df.topSels) := by
  cases df with
  | op kind name vars dirs i sels =>
    simp only [defNodes, Def.topId, Def.topSels]
    have h0 : idsOf [Node.operation kind name vars dirs sels] = [] := rfl
    rw [show (Node.operation kind name vars dirs sels :: (vars.flatMap varDefNodes ++ dirsNodes dirs ++
        Node.selectionSet i sels :: selsNodes sels)) =
      [Node.operation kind name vars dirs sels] ++ (vars.flatMap varDefNodes ++ dirsNodes dirs ++
        Node.selectionSet i sels :: selsNodes sels) from rfl]
    rw [idsOf_append, idsOf_append, idsOf_append, h0, idsOf_nil_of_noSelSet _ (varDefsNodes_noSelSet vars),
      idsOf_nil_of_noSelSet _ (dirsNodes_noSelSet dirs), idsOf_cons_sel]
    rfl
  | frag name on dirs i sels =>
    simp only [defNodes, Def.topId, Def.topSels]
    have h0 : idsOf [Node.fragmentDef name on dirs] = [] := rfl
    rw [show (Node.fragmentDef name on dirs :: (dirsNodes dirs ++ Node.selectionSet i sels :: selsNodes sels)) =
      [Node.fragmentDef name on dirs] ++ (dirsNodes dirs ++ Node.selectionSet i sels :: selsNodes sels) from rfl]
    rw [idsOf_append, idsOf_append, h0, idsOf_nil_of_noSelSet _ (dirsNodes_noSelSet dirs), idsOf_cons_sel]
    rfl
  | ts a b => rfl

theorem selSetIds_eq (d : Doc) : selSetIds d = d.defs.flatMap fun df => idsOf (defNodes df) := by
  unfold selSetIds nodes
  show idsOf ([Node.document d] ++ d.defs.flatMap defNodes) = _
  rw [idsOf_append]
  have : idsOf [Node.document d] = [] := rfl
  rw [this, List.nil_append]
  induction d.defs with
  | nil => rfl
  | cons x xs ih => rw [List.flatMap_cons, List.flatMap_cons, idsOf_append, ih]

/-- a selection set of the document is the top-level one of a definition or nested in its selections -/
theorem selSet_place {d : Doc} {i : Nat} {sels : List Sel} (h : SelSet d i sels) :
    ∃ df ∈ d.defs, (df.topId = some i ∧ df.topSels = sels) ∨ Node.selectionSet i sels ∈ selsNodes df.topSels := by
  simp only [SelSet, nodes, List.mem_cons, reduceCtorEq, false_or, List.mem_flatMap] at h
  obtain ⟨df, hdf, hm⟩ := h
  refine ⟨df, hdf, ?_⟩
  cases df with
  | op kind name vars dirs j ss =>
    simp only [defNodes, List.mem_cons, List.mem_append, reduceCtorEq, false_or] at hm
    rcases hm with (hm | hm) | hm | hm
    · exact absurd (varDefsNodes_noSelSet _ _ hm) (by simp [Node.isSelSet])
    · exact absurd (dirsNodes_noSelSet _ _ hm) (by simp [Node.isSelSet])
    · cases hm; exact Or.inl ⟨rfl, rfl⟩
    · exact Or.inr hm
  | frag name on dirs j ss =>
    simp only [defNodes, List.mem_cons, List.mem_append, reduceCtorEq, false_or] at hm
    rcases hm with hm | hm | hm
    · exact absurd (dirsNodes_noSelSet _ _ hm) (by simp [Node.isSelSet])
    · cases hm; exact Or.inl ⟨rfl, rfl⟩
    · exact Or.inr hm
  | ts a b => simp [defNodes] at hm

/-- the sub-selection node of a collected field lies among the nodes of the selections it was collected from -/
theorem collD_sub_mem {s : SchemaD} {p : Option String} {sels : List Sel} {rn : String} {e : FEntry}
    (hc : CollD s p sels rn e) (hs : e.hasSub = true) : Node.selectionSet e.ssid e.sub ∈ selsNodes sels := by
  induction hc with
  | @field parent sels alias name args dirs hasSub ssid sub hm =>
    simp only at hs; subst hs
    exact mem_selsNodes_of_mem hm _ (by simp [selNodes])
  | @inline parent sels on dirs id sub rn e hm _ ih =>
    exact mem_selsNodes_of_mem hm _ (by
      simp only [selNodes, List.mem_cons, List.mem_append, reduceCtorEq, false_or]
      exact Or.inr (Or.inr (ih hs)))

/-- the sub-selection of a collected field is NESTED in the selections of some definition -/
theorem ent_sub_nested {s : SchemaD} {d : Doc} {e : FEntry} (he : Ent s d e) (hs : e.hasSub = true) :
    ∃ df ∈ d.defs, Node.selectionSet e.ssid e.sub ∈ selsNodes df.topSels := by
  obtain ⟨i, sels, p, rn, h1, _, h3⟩ := he
  have hm := collD_sub_mem h3 hs
  obtain ⟨df, hdf, hpl⟩ := selSet_place h1
  refine ⟨df, hdf, ?_⟩
  rcases hpl with ⟨_, rfl⟩ | hpl
  · exact hm
  · exact closed_sels _ _ _ hpl _ hm

theorem wf_selSet_unique {d : Doc} (hw : WfIds d) {i : Nat} {sels sels' : List Sel} (h1 : SelSet d i sels)
    (h2 : SelSet d i sels') : sels = sels' := by
  have := filterMap_inj_of_nodup ssidOf? (nodes d) hw _ h1 _ h2 i rfl rfl
  cases this; rfl

/-! ### the three side conditions -/

theorem noEmptyName_of {d : Doc} (hne : ∀ f ∈ fragNames d, f ≠ "") : AL.get? (fragTable d) "" = none := by
  cases hg : AL.get? (fragTable d) "" with
  | none => rfl
  | some v =>
    obtain ⟨on, fid, fsels⟩ := v
    obtain ⟨dirs, hdf⟩ := fragTable_def hg
    exact absurd rfl (hne "" (List.mem_filterMap.mpr ⟨_, hdf, rfl⟩))

theorem subsNotBodies_of {s : SchemaD} {d : Doc} (hw : WfIds d) :
    ∀ e, Ent s d e → e.hasSub = true → NotBody d e.ssid := by
  intro e he hs n on fsels ht
  obtain ⟨dirs, hF⟩ := fragTable_def ht
  obtain ⟨df, hdf, hnest⟩ := ent_sub_nested he hs
  rw [WfIds, selSetIds_eq] at hw
  obtain ⟨p1, p2⟩ := nodup_flatMap_parts _ _ hw
  have hin : e.ssid ∈ idsOf (selsNodes df.topSels) := mem_idsOf hnest
  by_cases hdd : df = Def.frag n on dirs e.ssid fsels
  · subst hdd
    have := p1 _ hF
    rw [idsOf_defNodes] at this
    simp only [Def.topId, Def.topSels, List.singleton_append, List.nodup_cons] at this hin
    exact this.1 hin
  · have hx : e.ssid ∈ idsOf (defNodes df) := by rw [idsOf_defNodes]; exact List.mem_append_right _ hin
    have hy : e.ssid ∈ idsOf (defNodes (Def.frag n on dirs e.ssid fsels)) := by
      rw [idsOf_defNodes]; simp [Def.topId]
    exact p2 _ hdf _ hF hdd _ hx hy

end PyGql.Validate

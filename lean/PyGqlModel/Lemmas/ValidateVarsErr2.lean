/-
  `NoUnusedVariablesChecker.leave_document`, `VariablesInAllowedPositionChecker.leave_document` and
  `_flatten_fragments` in terms of the collector's look-ups.
-/
import PyGqlModel.Lemmas.ValidateVarsErr
namespace PyGql.Validate
open PyGql PyGql.Validate.Spec

theorem count_inner' {β} (P : String → Prop) [DecidablePred P] (n : Nat) (q : String × β) :
    (match q with | (var, _) => if P var then n else n + 1) = 0 ↔ n = 0 ∧ P q.1 := by
  obtain ⟨var, us⟩ := q; exact ite_succ_zero _ n

/-- iterating over the items of the items of a well-formed map of maps = looking the keys up -/
theorem forall_entries2_iff {β} {m : AL (AL β)} (hw : AL.WF m) (P : String → String → Prop) :
    (∀ p ∈ m, ∀ q ∈ p.2, P p.1 q.1) ↔ ∀ o x, AL.has (AL.getD m o []) x = true → P o x := by
  constructor
  · intro h o x hx
    rcases AL.getD_cases m o [] with e | e
    · rw [e] at hx; cases hx
    · obtain ⟨q, hq, rfl⟩ := (mem_inner_iff _ x).mpr hx
      exact h _ e q hq
  · intro h p hp q hq
    apply h p.1 q.1
    rw [AL.getD_of_mem hw (show (p.1, p.2) ∈ m from hp)]
    exact (mem_inner_iff _ _).mp ⟨q, hq, rfl⟩

/-! ### NoUnusedVariablesChecker.leave_document -/

theorem unused_zero_iff (c : VC) (hw : c.WFall) :
    c.unusedErrors = 0 ↔
      ∀ o x, (c.sem.dfn o x).isSome = true → (c.sem.ouseK o x = true ∨ ∃ f ∈ c.sem.osp o, c.sem.fuseK f x = true) := by
  unfold VC.unusedErrors
  refine (foldl_count_zero _ (fun p : String × AL VarDef => ∀ q ∈ p.2,
    ((((AL.getD c.opFrags p.1 []).eraseDups).flatMap fun f => AL.keys (AL.getD c.fragVars f [])) ++
      AL.keys (AL.getD c.opVars p.1 [])).contains q.1 = true) ?_ _ _).trans ?_
  · rintro n ⟨o, defined⟩
    exact foldl_count_zero _ _ (count_inner' (fun v => (((AL.getD c.opFrags o []).eraseDups).flatMap
      (fun f => AL.keys (AL.getD c.fragVars f [])) ++ AL.keys (AL.getD c.opVars o [])).contains v = true)) defined n
  simp only [true_and]
  rw [forall_entries2_iff hw.opDefined (fun o x =>
    ((((AL.getD c.opFrags o []).eraseDups).flatMap fun f => AL.keys (AL.getD c.fragVars f [])) ++
      AL.keys (AL.getD c.opVars o [])).contains x = true)]
  simp only [List.contains_iff_mem, List.mem_append, List.mem_flatMap, List.mem_eraseDups, AL.mem_keys, VC.sem,
    AL.has_eq_isSome]
  constructor
  · intro h o x hx
    rcases h o x hx with ⟨f, hf, hfx⟩ | h'
    · exact Or.inr ⟨f, hf, hfx⟩
    · exact Or.inl h'
  · intro h o x hx
    rcases h o x hx with h' | ⟨f, hf, hfx⟩
    · exact Or.inr h'
    · exact Or.inl ⟨f, hf, hfx⟩

/-! ### VariablesInAllowedPositionChecker.leave_document -/

theorem mem_flat_usages {m : AL (List Usage)} (hw : AL.WF m) (x : String) (u : Usage) :
    (x, u) ∈ (m.flatMap fun (v, us) => us.map fun u => (v, u)) ↔ u ∈ AL.getD m x [] := by
  simp only [List.mem_flatMap, List.mem_map, Prod.mk.injEq, Prod.exists]
  constructor
  · rintro ⟨v, us, hm, u', hu', rfl, rfl⟩
    rw [AL.getD_of_mem hw hm]; exact hu'
  · intro h
    rcases AL.getD_cases m x [] with e | e
    · rw [e] at h; cases h
    · exact ⟨x, _, e, u, h, rfl, rfl⟩

theorem count_pos (s : SchemaD) (vardefs : AL VarDef) (n : Nat) (q : String × Usage) :
    (match q with
      | (v, u) =>
        match AL.get? vardefs v with
        | some vd => if VC.usageBad s vd u = true then n + 1 else n
        | none => n) = 0 ↔ n = 0 ∧ ∀ vd, AL.get? vardefs q.1 = some vd → VC.usageBad s vd q.2 = false := by
  obtain ⟨v, u⟩ := q
  simp only
  cases hg : AL.get? vardefs v with
  | none => simp
  | some vd =>
    simp only [Option.some.injEq, forall_eq']
    cases VC.usageBad s vd u <;> simp

theorem position_zero_iff (s : SchemaD) (c : VC) (hw : c.WFall) :
    c.positionErrors s = 0 ↔
      ∀ o x u vd, (u ∈ c.sem.ouse o x ∨ ∃ f ∈ c.sem.osp o, u ∈ c.sem.fuse f x) → c.sem.dfn o x = some vd →
        VC.usageBad s vd u = false := by
  unfold VC.positionErrors
  refine (foldl_count_zero _ (fun p : String × AL VarDef => ∀ q ∈
    ((AL.getD c.opVars p.1 []).flatMap fun (v, us) => us.map fun u => (v, u)) ++
    ((AL.getD c.opFrags p.1 []).flatMap fun f => (AL.getD c.fragVars f []).flatMap fun (v, us) => us.map fun u => (v, u)),
      ∀ vd, AL.get? p.2 q.1 = some vd → VC.usageBad s vd q.2 = false) ?_ _ _).trans ?_
  · rintro n ⟨o, vardefs⟩
    exact foldl_count_zero _ _ (count_pos s vardefs) _ n
  simp only [true_and]
  have hin1 : ∀ o, AL.WF (AL.getD c.opVars o []) := fun o => AL.allVals_getD hw.opVarsIn o [] AL.wf_nil
  have hin2 : ∀ f, AL.WF (AL.getD c.fragVars f []) := fun f => AL.allVals_getD hw.fragVarsIn f [] AL.wf_nil
  have hmem : ∀ o (q : String × Usage), q ∈
      ((AL.getD c.opVars o []).flatMap fun (v, us) => us.map fun u => (v, u)) ++
      ((AL.getD c.opFrags o []).flatMap fun f => (AL.getD c.fragVars f []).flatMap fun (v, us) => us.map fun u => (v, u)) ↔
      (q.2 ∈ c.sem.ouse o q.1 ∨ ∃ f ∈ c.sem.osp o, q.2 ∈ c.sem.fuse f q.1) := by
    rintro o ⟨x, u⟩
    rw [List.mem_append, mem_flat_usages (hin1 o), List.mem_flatMap]
    apply or_congr Iff.rfl
    constructor
    · rintro ⟨f, hf, h⟩; exact ⟨f, hf, (mem_flat_usages (hin2 f) x u).mp h⟩
    · rintro ⟨f, hf, h⟩; exact ⟨f, hf, (mem_flat_usages (hin2 f) x u).mpr h⟩
  constructor
  · intro h o x u vd hu hd
    have hd' : AL.get? (AL.getD c.opDefined o []) x = some vd := hd
    rcases AL.getD_cases c.opDefined o [] with e | e
    · rw [e] at hd'; cases hd'
    · exact h _ e (x, u) ((hmem o (x, u)).mpr hu) vd hd'
  · intro h p hp q hq vd hd
    refine h p.1 q.1 q.2 vd ((hmem p.1 q).mp hq) ?_
    show AL.get? (AL.getD c.opDefined p.1 []) q.1 = some vd
    rw [AL.getD_of_mem hw.opDefined (show (p.1, p.2) ∈ c.opDefined from hp)]
    exact hd

/-! ### _flatten_fragments -/

theorem get?_map_vals {α β} (m : AL α) (G : α → β) (k : String) :
    AL.get? (m.map fun p => (p.1, G p.2)) k = (AL.get? m k).map G := by
  induction m with
  | nil => rfl
  | cons p m ih =>
    rw [List.map_cons, AL.get?_cons, AL.get?_cons, ih]
    by_cases h : p.1 = k <;> simp [h]

theorem flattenClosure_eq (c : VC) :
    c.flattenClosure = { c with opFrags := c.opFrags.map fun p => (p.1, VC.closure c.fragFrags
      ((c.fragFrags.foldl (fun n p => n + p.2.length + 1) 1) + c.opFrags.foldl (fun n p => n + p.2.length + 1) 1) p.2 p.2) } := by
  unfold VC.flattenClosure
  simp only

theorem flatten_wfall (fx : Fixes) (h4 : fx.v4 = true) {c : VC} (hw : c.WFall) : (c.flatten fx).WFall := by
  unfold VC.flatten
  rw [if_pos h4, flattenClosure_eq]
  refine ⟨hw.opVars, hw.opDefined, ?_, hw.opVarsIn, hw.fragVarsIn⟩
  show AL.WF (c.opFrags.map _)
  unfold AL.WF AL.keys
  rw [List.map_map]
  exact hw.opFrags

theorem flatten_sem (fx : Fixes) (h4 : fx.v4 = true) (c : VC) :
    (c.flatten fx).sem.dfn = c.sem.dfn ∧ (c.flatten fx).sem.ouse = c.sem.ouse ∧ (c.flatten fx).sem.ouseK = c.sem.ouseK ∧
    (c.flatten fx).sem.fuse = c.sem.fuse ∧ (c.flatten fx).sem.fuseK = c.sem.fuseK := by
  unfold VC.flatten
  rw [if_pos h4, flattenClosure_eq]
  exact ⟨rfl, rfl, rfl, rfl, rfl⟩

/-- **after `_flatten_fragments` an operation's list holds exactly the fragments reachable from its own spreads** -/
theorem flatten_osp (fx : Fixes) (h4 : fx.v4 = true) (c : VC) (o g : String) :
    g ∈ (c.flatten fx).sem.osp o ↔ ∃ f ∈ c.sem.osp o, VC.Reach c.fragFrags f g := by
  unfold VC.flatten
  rw [if_pos h4, flattenClosure_eq]
  show g ∈ AL.getD (c.opFrags.map _) o [] ↔ ∃ f ∈ AL.getD c.opFrags o [], _
  unfold AL.getD
  rw [get?_map_vals c.opFrags (fun fs => VC.closure c.fragFrags _ fs fs) o]
  cases hg : AL.get? c.opFrags o with
  | none => simp
  | some fs =>
    simp only [Option.map_some, Option.getD_some]
    apply VC.mem_closure
    have h1 := VC.foldl_len_ge c.fragFrags 1
    have h2 := VC.foldl_len_ge_mem c.opFrags 1 (o, fs) (AL.mem_of_get? hg)
    unfold VC.univ
    simp only at h2
    omega

end PyGql.Validate

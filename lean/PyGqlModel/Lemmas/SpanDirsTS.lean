/-
  Directives and descriptions of TYPE-SYSTEM definitions and extensions (on the definition, on its field definitions,
  argument definitions, enum values, input fields): sub-nodes of the definition's view; directives are well-formed
  (`Const`) when the definition is.  Mechanical mirror of `Lemmas/SpanValsTS.lean`.
-/
import PyGqlModel.Lemmas.SpanValsTS
import PyGqlModel.Lemmas.SpanSels
namespace PyGql.Ast
open PyGql

def InputValueDefinition.tdirs (d : InputValueDefinition) : List Directive := d.directives
def FieldDefinition.tdirs (d : FieldDefinition) : List Directive :=
  d.arguments.flatMap InputValueDefinition.tdirs ++ d.directives
def EnumValueDefinition.tdirs (d : EnumValueDefinition) : List Directive := d.directives

/-- every directive of a type-system definition or extension (executable definitions: `Definition.dirs`) -/
def Definition.tdirs : Definition → List Directive
  | .operation _ => []
  | .fragment _ => []
  | .schemaDefinition dirs _ _ => dirs
  | .scalarTypeDefinition _ _ dirs _ => dirs
  | .objectTypeDefinition _ _ _ dirs fields _ => dirs ++ fields.flatMap FieldDefinition.tdirs
  | .interfaceTypeDefinition _ _ dirs fields _ => dirs ++ fields.flatMap FieldDefinition.tdirs
  | .unionTypeDefinition _ _ dirs _ _ => dirs
  | .enumTypeDefinition _ _ dirs values _ => dirs ++ values.flatMap EnumValueDefinition.tdirs
  | .inputObjectTypeDefinition _ _ dirs fields _ => dirs ++ fields.flatMap InputValueDefinition.tdirs
  | .directiveDefinition _ _ args _ _ => args.flatMap InputValueDefinition.tdirs
  | .schemaExtension dirs _ _ => dirs
  | .scalarTypeExtension _ dirs _ => dirs
  | .objectTypeExtension _ _ dirs fields _ => dirs ++ fields.flatMap FieldDefinition.tdirs
  | .interfaceTypeExtension _ dirs fields _ => dirs ++ fields.flatMap FieldDefinition.tdirs
  | .unionTypeExtension _ dirs _ _ => dirs
  | .enumTypeExtension _ dirs values _ => dirs ++ values.flatMap EnumValueDefinition.tdirs
  | .inputObjectTypeExtension _ dirs fields _ => dirs ++ fields.flatMap InputValueDefinition.tdirs

def InputValueDefinition.descs (d : InputValueDefinition) : List StringValue := d.description.toList
def FieldDefinition.descs (d : FieldDefinition) : List StringValue :=
  d.description.toList ++ d.arguments.flatMap InputValueDefinition.descs
def EnumValueDefinition.descs (d : EnumValueDefinition) : List StringValue := d.description.toList

/-- every description of a type-system definition: its own and those of its members -/
def Definition.descs : Definition → List StringValue
  | .objectTypeDefinition desc _ _ _ fields _ => desc.toList ++ fields.flatMap FieldDefinition.descs
  | .interfaceTypeDefinition desc _ _ fields _ => desc.toList ++ fields.flatMap FieldDefinition.descs
  | .scalarTypeDefinition desc _ _ _ => desc.toList
  | .unionTypeDefinition desc _ _ _ _ => desc.toList
  | .enumTypeDefinition desc _ _ values _ => desc.toList ++ values.flatMap EnumValueDefinition.descs
  | .inputObjectTypeDefinition desc _ _ fields _ => desc.toList ++ fields.flatMap InputValueDefinition.descs
  | .directiveDefinition desc _ args _ _ => desc.toList ++ args.flatMap InputValueDefinition.descs
  | .objectTypeExtension _ _ _ fields _ => fields.flatMap FieldDefinition.descs
  | .interfaceTypeExtension _ _ fields _ => fields.flatMap FieldDefinition.descs
  | .enumTypeExtension _ _ values _ => values.flatMap EnumValueDefinition.descs
  | .inputObjectTypeExtension _ _ fields _ => fields.flatMap InputValueDefinition.descs
  | _ => []

/-- the field definitions of an object / interface type definition or extension -/
def Definition.fdefs : Definition → List FieldDefinition
  | .objectTypeDefinition _ _ _ _ fields _ => fields
  | .interfaceTypeDefinition _ _ _ fields _ => fields
  | .objectTypeExtension _ _ _ fields _ => fields
  | .interfaceTypeExtension _ _ fields _ => fields
  | _ => []
/-- the enum value definitions of an enum type definition or extension -/
def Definition.evdefs : Definition → List EnumValueDefinition
  | .enumTypeDefinition _ _ _ values _ => values
  | .enumTypeExtension _ _ values _ => values
  | _ => []
/-- the input value definitions of a definition: input fields, arguments of a directive definition, and the argument
    definitions of its field definitions -/
def Definition.ivdefs (x : Definition) : List InputValueDefinition :=
  (match x with
   | .inputObjectTypeDefinition _ _ _ fields _ => fields
   | .inputObjectTypeExtension _ _ fields _ => fields
   | .directiveDefinition _ _ args _ _ => args
   | _ => []) ++ x.fdefs.flatMap (·.arguments)

end PyGql.Ast

namespace PyGql.Spec
open PyGql PyGql.Ast PyGql.Parse

/-! ### directives -/

theorem inputValue_tdirs (d : InputValueDefinition) (w : Directive) (h : w ∈ d.tdirs) :
    Item.Sub (directiveV w) (inputValueV d) ∧ (wfInputValue d = true → wfDirective true w = true) := by
  unfold InputValueDefinition.tdirs at h
  unfold inputValueV
  simp only [wfInputValue, Bool.and_eq_true]
  obtain ⟨h1, h2⟩ := directives_mem true d.directives w h
  exact ⟨by apply SubL.node; subl, fun hh => h2 hh.2⟩

theorem inputValues_tdirs (ds : List InputValueDefinition) (w : Directive) (h : w ∈ ds.flatMap InputValueDefinition.tdirs) :
    (SubL (directiveV w) (groupV .parenL .parenR inputValueV ds) ∧ SubL (directiveV w) (blockV inputValueV ds)) ∧
    (ds.all wfInputValue = true → wfDirective true w = true) := by
  obtain ⟨d, hd, hw⟩ := mem_flatMap' h
  obtain ⟨h1, h2⟩ := inputValue_tdirs d w hw
  exact ⟨⟨SubL.group _ _ inputValueV hd h1, SubL.block inputValueV hd h1⟩, fun hh => h2 (all_mem hh hd)⟩

theorem fieldDefinition_tdirs (d : FieldDefinition) (w : Directive) (h : w ∈ d.tdirs) :
    Item.Sub (directiveV w) (fieldDefinitionV d) ∧ (wfFieldDefinition d = true → wfDirective true w = true) := by
  unfold FieldDefinition.tdirs at h
  unfold fieldDefinitionV
  simp only [wfFieldDefinition, Bool.and_eq_true]
  rcases List.mem_append.1 h with h | h
  · obtain ⟨⟨h1, _⟩, h2⟩ := inputValues_tdirs d.arguments w h
    exact ⟨by apply SubL.node; subl, fun hh => h2 hh.1.1⟩
  · obtain ⟨h1, h2⟩ := directives_mem true d.directives w h
    exact ⟨by apply SubL.node; subl, fun hh => h2 hh.2⟩

theorem fieldDefinitions_tdirs (ds : List FieldDefinition) (w : Directive) (h : w ∈ ds.flatMap FieldDefinition.tdirs) :
    SubL (directiveV w) (blockV fieldDefinitionV ds) ∧ (ds.all wfFieldDefinition = true → wfDirective true w = true) := by
  obtain ⟨d, hd, hw⟩ := mem_flatMap' h
  obtain ⟨h1, h2⟩ := fieldDefinition_tdirs d w hw
  exact ⟨SubL.block fieldDefinitionV hd h1, fun hh => h2 (all_mem hh hd)⟩

theorem enumValueDefinition_tdirs (d : EnumValueDefinition) (w : Directive) (h : w ∈ d.tdirs) :
    Item.Sub (directiveV w) (enumValueDefinitionV d) ∧ (wfEnumValueDefinition d = true → wfDirective true w = true) := by
  unfold EnumValueDefinition.tdirs at h
  unfold enumValueDefinitionV
  simp only [wfEnumValueDefinition, Bool.and_eq_true]
  obtain ⟨h1, h2⟩ := directives_mem true d.directives w h
  exact ⟨by apply SubL.node; subl, fun hh => h2 hh.2⟩

theorem enumValueDefinitions_tdirs (ds : List EnumValueDefinition) (w : Directive) (h : w ∈ ds.flatMap EnumValueDefinition.tdirs) :
    SubL (directiveV w) (blockV enumValueDefinitionV ds) ∧ (ds.all wfEnumValueDefinition = true → wfDirective true w = true) := by
  obtain ⟨d, hd, hw⟩ := mem_flatMap' h
  obtain ⟨h1, h2⟩ := enumValueDefinition_tdirs d w hw
  exact ⟨SubL.block enumValueDefinitionV hd h1, fun hh => h2 (all_mem hh hd)⟩

/-- every directive of every type-system definition / extension -/
theorem definition_tdirs (fl : Flags) (x : Definition) (w : Directive) (h : w ∈ x.tdirs) :
    Item.Sub (directiveV w) (definitionV x) ∧ (wfDefinition fl x = true → wfDirective true w = true) := by
  cases x with
  | operation d => cases h
  | fragment d => cases h
  | schemaDefinition dirs ops loc =>
    obtain ⟨h1, h2⟩ := directives_mem true dirs w h
    exact ⟨by simp only [definitionV]; apply SubL.node; subl, fun hh => h2 (by simp [wfDefinition] at hh; exact hh.1.1)⟩
  | scalarTypeDefinition desc name dirs loc =>
    obtain ⟨h1, h2⟩ := directives_mem true dirs w h
    exact ⟨by simp only [definitionV]; apply SubL.node; subl, fun hh => h2 (by simpa [wfDefinition] using hh)⟩
  | objectTypeDefinition desc name ifs dirs fields loc =>
    simp only [Definition.tdirs, List.mem_append] at h
    rcases h with h | h
    · obtain ⟨h1, h2⟩ := directives_mem true dirs w h
      exact ⟨by simp only [definitionV]; apply SubL.node; subl, fun hh => h2 (by simp [wfDefinition] at hh; exact hh.1)⟩
    · obtain ⟨h1, h2⟩ := fieldDefinitions_tdirs fields w h
      exact ⟨by simp only [definitionV]; apply SubL.node; subl, fun hh => h2 (by simp [wfDefinition] at hh; simpa using hh.2)⟩
  | interfaceTypeDefinition desc name dirs fields loc =>
    simp only [Definition.tdirs, List.mem_append] at h
    rcases h with h | h
    · obtain ⟨h1, h2⟩ := directives_mem true dirs w h
      exact ⟨by simp only [definitionV]; apply SubL.node; subl, fun hh => h2 (by simp [wfDefinition] at hh; exact hh.1)⟩
    · obtain ⟨h1, h2⟩ := fieldDefinitions_tdirs fields w h
      exact ⟨by simp only [definitionV]; apply SubL.node; subl, fun hh => h2 (by simp [wfDefinition] at hh; simpa using hh.2)⟩
  | unionTypeDefinition desc name dirs types loc =>
    obtain ⟨h1, h2⟩ := directives_mem true dirs w h
    exact ⟨by simp only [definitionV]; apply SubL.node; subl, fun hh => h2 (by simpa [wfDefinition] using hh)⟩
  | enumTypeDefinition desc name dirs values loc =>
    simp only [Definition.tdirs, List.mem_append] at h
    rcases h with h | h
    · obtain ⟨h1, h2⟩ := directives_mem true dirs w h
      exact ⟨by simp only [definitionV]; apply SubL.node; subl, fun hh => h2 (by simp [wfDefinition] at hh; exact hh.1)⟩
    · obtain ⟨h1, h2⟩ := enumValueDefinitions_tdirs values w h
      exact ⟨by simp only [definitionV]; apply SubL.node; subl, fun hh => h2 (by simp [wfDefinition] at hh; simpa using hh.2)⟩
  | inputObjectTypeDefinition desc name dirs fields loc =>
    simp only [Definition.tdirs, List.mem_append] at h
    rcases h with h | h
    · obtain ⟨h1, h2⟩ := directives_mem true dirs w h
      exact ⟨by simp only [definitionV]; apply SubL.node; subl, fun hh => h2 (by simp [wfDefinition] at hh; exact hh.1)⟩
    · obtain ⟨⟨_, h1⟩, h2⟩ := inputValues_tdirs fields w h
      exact ⟨by simp only [definitionV]; apply SubL.node; subl, fun hh => h2 (by simp [wfDefinition] at hh; simpa using hh.2)⟩
  | directiveDefinition desc name args locations loc =>
    obtain ⟨⟨h1, _⟩, h2⟩ := inputValues_tdirs args w h
    exact ⟨by simp only [definitionV]; apply SubL.node; subl, fun hh => h2 (by simp [wfDefinition] at hh; simpa using hh.1.1)⟩
  | schemaExtension dirs ops loc =>
    obtain ⟨h1, h2⟩ := directives_mem true dirs w h
    exact ⟨by simp only [definitionV]; apply SubL.node; subl, fun hh => h2 (by simp [wfDefinition] at hh; exact hh.1.1)⟩
  | scalarTypeExtension name dirs loc =>
    obtain ⟨h1, h2⟩ := directives_mem true dirs w h
    exact ⟨by simp only [definitionV]; apply SubL.node; subl, fun hh => h2 (by simp [wfDefinition] at hh; exact hh.1)⟩
  | objectTypeExtension name ifs dirs fields loc =>
    simp only [Definition.tdirs, List.mem_append] at h
    rcases h with h | h
    · obtain ⟨h1, h2⟩ := directives_mem true dirs w h
      exact ⟨by simp only [definitionV]; apply SubL.node; subl, fun hh => h2 (by simp [wfDefinition] at hh; exact hh.1.1)⟩
    · obtain ⟨h1, h2⟩ := fieldDefinitions_tdirs fields w h
      exact ⟨by simp only [definitionV]; apply SubL.node; subl, fun hh => h2 (by simp [wfDefinition] at hh; simpa using hh.1.2)⟩
  | interfaceTypeExtension name dirs fields loc =>
    simp only [Definition.tdirs, List.mem_append] at h
    rcases h with h | h
    · obtain ⟨h1, h2⟩ := directives_mem true dirs w h
      exact ⟨by simp only [definitionV]; apply SubL.node; subl, fun hh => h2 (by simp [wfDefinition] at hh; exact hh.1.1)⟩
    · obtain ⟨h1, h2⟩ := fieldDefinitions_tdirs fields w h
      exact ⟨by simp only [definitionV]; apply SubL.node; subl, fun hh => h2 (by simp [wfDefinition] at hh; simpa using hh.1.2)⟩
  | unionTypeExtension name dirs types loc =>
    obtain ⟨h1, h2⟩ := directives_mem true dirs w h
    exact ⟨by simp only [definitionV]; apply SubL.node; subl, fun hh => h2 (by simp [wfDefinition] at hh; exact hh.1)⟩
  | enumTypeExtension name dirs values loc =>
    simp only [Definition.tdirs, List.mem_append] at h
    rcases h with h | h
    · obtain ⟨h1, h2⟩ := directives_mem true dirs w h
      exact ⟨by simp only [definitionV]; apply SubL.node; subl, fun hh => h2 (by simp [wfDefinition] at hh; exact hh.1.1)⟩
    · obtain ⟨h1, h2⟩ := enumValueDefinitions_tdirs values w h
      exact ⟨by simp only [definitionV]; apply SubL.node; subl, fun hh => h2 (by simp [wfDefinition] at hh; simpa using hh.1.2)⟩
  | inputObjectTypeExtension name dirs fields loc =>
    simp only [Definition.tdirs, List.mem_append] at h
    rcases h with h | h
    · obtain ⟨h1, h2⟩ := directives_mem true dirs w h
      exact ⟨by simp only [definitionV]; apply SubL.node; subl, fun hh => h2 (by simp [wfDefinition] at hh; exact hh.1.1)⟩
    · obtain ⟨⟨_, h1⟩, h2⟩ := inputValues_tdirs fields w h
      exact ⟨by simp only [definitionV]; apply SubL.node; subl, fun hh => h2 (by simp [wfDefinition] at hh; simpa using hh.1.2)⟩


/-! ### descriptions -/

theorem desc_mem (o : Option StringValue) (w : StringValue) (h : w ∈ o.toList) : SubL (stringV w) (descV o) := by
  cases o with
  | none => cases h
  | some v =>
    simp only [Option.toList, List.mem_singleton] at h
    subst h
    exact SubL.head _ .refl

theorem inputValue_descs (d : InputValueDefinition) (w : StringValue) (h : w ∈ d.descs) :
    Item.Sub (stringV w) (inputValueV d) := by
  unfold InputValueDefinition.descs at h
  unfold inputValueV
  have h1 := desc_mem d.description w h
  apply SubL.node; subl

theorem inputValues_descs (ds : List InputValueDefinition) (w : StringValue) (h : w ∈ ds.flatMap InputValueDefinition.descs) :
    SubL (stringV w) (groupV .parenL .parenR inputValueV ds) ∧ SubL (stringV w) (blockV inputValueV ds) := by
  obtain ⟨d, hd, hw⟩ := mem_flatMap' h
  have h1 := inputValue_descs d w hw
  exact ⟨SubL.group _ _ inputValueV hd h1, SubL.block inputValueV hd h1⟩

theorem fieldDefinition_descs (d : FieldDefinition) (w : StringValue) (h : w ∈ d.descs) :
    Item.Sub (stringV w) (fieldDefinitionV d) := by
  unfold FieldDefinition.descs at h
  unfold fieldDefinitionV
  rcases List.mem_append.1 h with h | h
  · have h1 := desc_mem d.description w h
    apply SubL.node; subl
  · obtain ⟨h1, _⟩ := inputValues_descs d.arguments w h
    apply SubL.node; subl

theorem fieldDefinitions_descs (ds : List FieldDefinition) (w : StringValue) (h : w ∈ ds.flatMap FieldDefinition.descs) :
    SubL (stringV w) (blockV fieldDefinitionV ds) := by
  obtain ⟨d, hd, hw⟩ := mem_flatMap' h
  exact SubL.block fieldDefinitionV hd (fieldDefinition_descs d w hw)

theorem enumValueDefinition_descs (d : EnumValueDefinition) (w : StringValue) (h : w ∈ d.descs) :
    Item.Sub (stringV w) (enumValueDefinitionV d) := by
  unfold EnumValueDefinition.descs at h
  unfold enumValueDefinitionV
  have h1 := desc_mem d.description w h
  apply SubL.node; subl

theorem enumValueDefinitions_descs (ds : List EnumValueDefinition) (w : StringValue)
    (h : w ∈ ds.flatMap EnumValueDefinition.descs) : SubL (stringV w) (blockV enumValueDefinitionV ds) := by
  obtain ⟨d, hd, hw⟩ := mem_flatMap' h
  exact SubL.block enumValueDefinitionV hd (enumValueDefinition_descs d w hw)

/-- every description of every type-system definition is a sub-node of its view -/
theorem definition_descs (x : Definition) (w : StringValue) (h : w ∈ x.descs) : Item.Sub (stringV w) (definitionV x) := by
  cases x with
  | objectTypeDefinition desc name ifs dirs fields loc =>
    simp only [Definition.descs, List.mem_append] at h
    rcases h with h | h
    · have h1 := desc_mem desc w h
      simp only [definitionV]; apply SubL.node; subl
    · have h1 := fieldDefinitions_descs fields w h
      simp only [definitionV]; apply SubL.node; subl
  | interfaceTypeDefinition desc name dirs fields loc =>
    simp only [Definition.descs, List.mem_append] at h
    rcases h with h | h
    · have h1 := desc_mem desc w h
      simp only [definitionV]; apply SubL.node; subl
    · have h1 := fieldDefinitions_descs fields w h
      simp only [definitionV]; apply SubL.node; subl
  | scalarTypeDefinition desc name dirs loc =>
    have h1 := desc_mem desc w h
    simp only [definitionV]; apply SubL.node; subl
  | unionTypeDefinition desc name dirs types loc =>
    have h1 := desc_mem desc w h
    simp only [definitionV]; apply SubL.node; subl
  | enumTypeDefinition desc name dirs values loc =>
    simp only [Definition.descs, List.mem_append] at h
    rcases h with h | h
    · have h1 := desc_mem desc w h
      simp only [definitionV]; apply SubL.node; subl
    · have h1 := enumValueDefinitions_descs values w h
      simp only [definitionV]; apply SubL.node; subl
  | inputObjectTypeDefinition desc name dirs fields loc =>
    simp only [Definition.descs, List.mem_append] at h
    rcases h with h | h
    · have h1 := desc_mem desc w h
      simp only [definitionV]; apply SubL.node; subl
    · obtain ⟨_, h1⟩ := inputValues_descs fields w h
      simp only [definitionV]; apply SubL.node; subl
  | directiveDefinition desc name args locations loc =>
    simp only [Definition.descs, List.mem_append] at h
    rcases h with h | h
    · have h1 := desc_mem desc w h
      simp only [definitionV]; apply SubL.node; subl
    · obtain ⟨h1, _⟩ := inputValues_descs args w h
      simp only [definitionV]; apply SubL.node; subl
  | objectTypeExtension name ifs dirs fields loc =>
    have h1 := fieldDefinitions_descs fields w h
    simp only [definitionV]; apply SubL.node; subl
  | interfaceTypeExtension name dirs fields loc =>
    have h1 := fieldDefinitions_descs fields w h
    simp only [definitionV]; apply SubL.node; subl
  | enumTypeExtension name dirs values loc =>
    have h1 := enumValueDefinitions_descs values w h
    simp only [definitionV]; apply SubL.node; subl
  | inputObjectTypeExtension name dirs fields loc =>
    obtain ⟨_, h1⟩ := inputValues_descs fields w h
    simp only [definitionV]; apply SubL.node; subl
  | _ => cases h

/-! ### members: field definitions, enum values, input values -/

theorem definition_fdefs (fl : Flags) (x : Definition) (w : FieldDefinition) (h : w ∈ x.fdefs) :
    Item.Sub (fieldDefinitionV w) (definitionV x) ∧ (wfDefinition fl x = true → wfFieldDefinition w = true) := by
  cases x with
  | objectTypeDefinition desc name ifs dirs fields loc =>
    have h : w ∈ fields := h
    have h1 : SubL (fieldDefinitionV w) (blockV fieldDefinitionV fields) := SubL.block fieldDefinitionV h .refl
    exact ⟨by simp only [definitionV]; apply SubL.node; subl,
      fun hh => all_mem (by simp [wfDefinition] at hh; simpa using hh.2) h⟩
  | interfaceTypeDefinition desc name dirs fields loc =>
    have h : w ∈ fields := h
    have h1 : SubL (fieldDefinitionV w) (blockV fieldDefinitionV fields) := SubL.block fieldDefinitionV h .refl
    exact ⟨by simp only [definitionV]; apply SubL.node; subl,
      fun hh => all_mem (by simp [wfDefinition] at hh; simpa using hh.2) h⟩
  | objectTypeExtension name ifs dirs fields loc =>
    have h : w ∈ fields := h
    have h1 : SubL (fieldDefinitionV w) (blockV fieldDefinitionV fields) := SubL.block fieldDefinitionV h .refl
    exact ⟨by simp only [definitionV]; apply SubL.node; subl,
      fun hh => all_mem (by simp [wfDefinition] at hh; simpa using hh.1.2) h⟩
  | interfaceTypeExtension name dirs fields loc =>
    have h : w ∈ fields := h
    have h1 : SubL (fieldDefinitionV w) (blockV fieldDefinitionV fields) := SubL.block fieldDefinitionV h .refl
    exact ⟨by simp only [definitionV]; apply SubL.node; subl,
      fun hh => all_mem (by simp [wfDefinition] at hh; simpa using hh.1.2) h⟩
  | _ => cases h

theorem definition_evdefs (fl : Flags) (x : Definition) (w : EnumValueDefinition) (h : w ∈ x.evdefs) :
    Item.Sub (enumValueDefinitionV w) (definitionV x) ∧ (wfDefinition fl x = true → wfEnumValueDefinition w = true) := by
  cases x with
  | enumTypeDefinition desc name dirs values loc =>
    have h : w ∈ values := h
    have h1 : SubL (enumValueDefinitionV w) (blockV enumValueDefinitionV values) := SubL.block enumValueDefinitionV h .refl
    exact ⟨by simp only [definitionV]; apply SubL.node; subl,
      fun hh => all_mem (by simp [wfDefinition] at hh; simpa using hh.2) h⟩
  | enumTypeExtension name dirs values loc =>
    have h : w ∈ values := h
    have h1 : SubL (enumValueDefinitionV w) (blockV enumValueDefinitionV values) := SubL.block enumValueDefinitionV h .refl
    exact ⟨by simp only [definitionV]; apply SubL.node; subl,
      fun hh => all_mem (by simp [wfDefinition] at hh; simpa using hh.1.2) h⟩
  | _ => cases h

theorem fieldDefinition_arguments (fd : FieldDefinition) (w : InputValueDefinition) (h : w ∈ fd.arguments) :
    Item.Sub (inputValueV w) (fieldDefinitionV fd) ∧ (wfFieldDefinition fd = true → wfInputValue w = true) := by
  have h1 : SubL (inputValueV w) (groupV .parenL .parenR inputValueV fd.arguments) := SubL.group _ _ inputValueV h .refl
  unfold fieldDefinitionV
  simp only [wfFieldDefinition, Bool.and_eq_true]
  exact ⟨by apply SubL.node; subl, fun hh => all_mem hh.1.1 h⟩

theorem definition_ivdefs (fl : Flags) (x : Definition) (w : InputValueDefinition) (h : w ∈ x.ivdefs) :
    Item.Sub (inputValueV w) (definitionV x) ∧ (wfDefinition fl x = true → wfInputValue w = true) := by
  unfold Definition.ivdefs at h
  rcases List.mem_append.1 h with h | h
  · cases x with
    | inputObjectTypeDefinition desc name dirs fields loc =>
      have h1 : SubL (inputValueV w) (blockV inputValueV fields) := SubL.block inputValueV h .refl
      exact ⟨by simp only [definitionV]; apply SubL.node; subl,
        fun hh => all_mem (by simp [wfDefinition] at hh; simpa using hh.2) h⟩
    | inputObjectTypeExtension name dirs fields loc =>
      have h1 : SubL (inputValueV w) (blockV inputValueV fields) := SubL.block inputValueV h .refl
      exact ⟨by simp only [definitionV]; apply SubL.node; subl,
        fun hh => all_mem (by simp [wfDefinition] at hh; simpa using hh.1.2) h⟩
    | directiveDefinition desc name args locations loc =>
      have h1 : SubL (inputValueV w) (groupV .parenL .parenR inputValueV args) := SubL.group _ _ inputValueV h .refl
      exact ⟨by simp only [definitionV]; apply SubL.node; subl,
        fun hh => all_mem (by simp [wfDefinition] at hh; simpa using hh.1.1) h⟩
    | _ => cases h
  · obtain ⟨fd, hfd, hw⟩ := mem_flatMap' h
    obtain ⟨a1, a2⟩ := definition_fdefs fl x fd hfd
    obtain ⟨b1, b2⟩ := fieldDefinition_arguments fd w hw
    exact ⟨b1.trans a1, fun hh => b2 (a2 hh)⟩

end PyGql.Spec

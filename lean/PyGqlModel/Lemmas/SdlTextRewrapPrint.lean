/-
  C12 text level — the printer is invariant under re-wrapping, part 2: members, definitions, the whole schema.
-/
import PyGqlModel.Lemmas.SdlTextRewrapSchema
namespace PyGql.SdlText
open PyGql PyGql.Ast PyGql.Sdl PyGql.Spec PyGql.PrintLex PyGql.PrintTokens PyGql.PrintString PyGql.BlockString PyGql.Lex PyGql.SdlPrint

section
variable (o : SdlPrintT.OptsT) (s : SchemaD)

theorem printInputValue_rewrap (w : Nat) (a : ArgD) :
    SdlPrintT.printInputValue (rewrapSchema o.indent.length s) (rewrapArg w a) = SdlPrintT.printInputValue s a := by
  simp only [SdlPrintT.printInputValue, rewrapArg, valueText_rewrap]

theorem printArgs_rewrap (depth : Nat) (multi : Bool) (w : Nat) (hw : w = (depth + 1) * o.indent.length) :
    ∀ (k : Nat) (as : List ArgD), as.all (argRewrapOK w) = true →
      SdlPrintT.printArgs (rewrapSchema o.indent.length s) o depth multi k (as.map (rewrapArg w)) = SdlPrintT.printArgs s o depth multi k as
  | _, [], _ => rfl
  | k, a :: as, h => by
    simp only [List.all_cons, Bool.and_eq_true] at h
    have hd : SdlPrintT.printDescription o (rewrapArg w a).desc (depth + 1) (k == 0) =
        SdlPrintT.printDescription o a.desc (depth + 1) (k == 0) := by
      subst hw
      exact printDescription_rewrapOpt o a.desc (depth + 1) (k == 0) h.1
    simp only [List.map_cons, SdlPrintT.printArgs, printInputValue_rewrap, hd, printArgs_rewrap depth multi w hw (k + 1) as h.2]

theorem multiArgs_rewrap (w : Nat) : ∀ (as : List ArgD), as.all (argRewrapOK w) = true →
    SdlPrintT.multiArgs o (as.map (rewrapArg w)) = SdlPrintT.multiArgs o as := by
  intro as h
  simp only [SdlPrintT.multiArgs]
  congr 1
  induction as with
  | nil => rfl
  | cons a as ih =>
    simp only [List.all_cons, Bool.and_eq_true] at h
    simp only [List.map_cons, List.any_cons, ih h.2]
    congr 1
    have h1 := h.1
    simp only [rewrapArg, argRewrapOK] at h1 ⊢
    cases hdesc : a.desc with
    | none => rfl
    | some x =>
      rw [hdesc] at h1
      by_cases hx : x.isEmpty = true
      · simp only [rewrapOpt, Option.map_some, hx, if_true]
      · have hx' : x.isEmpty = false := by simpa using hx
        simp only [descRewrapOK, hx', Bool.false_or, Bool.and_eq_true] at h1
        simp only [rewrapOpt, Option.map_some, hx', Bool.false_eq_true, if_false, rewrapS_nonempty w x h1.1]

theorem printArguments_rewrap (depth : Nat) (w : Nat) (hw : w = (depth + 1) * o.indent.length) (as : List ArgD)
    (h : as.all (argRewrapOK w) = true) :
    SdlPrintT.printArguments (rewrapSchema o.indent.length s) o (as.map (rewrapArg w)) depth = SdlPrintT.printArguments s o as depth := by
  simp only [SdlPrintT.printArguments, multiArgs_rewrap o w as h, printArgs_rewrap o s depth _ w hw 0 as h, List.isEmpty_map]

theorem printField_rewrap (k : Nat) (f : FieldD) (h : fieldRewrapOK o.indent.length f = true) :
    SdlPrintT.printField (rewrapSchema o.indent.length s) o k (rewrapField o.indent.length f) = SdlPrintT.printField s o k f := by
  simp only [fieldRewrapOK, Bool.and_eq_true] at h
  have hd : SdlPrintT.printDescription o (rewrapOpt o.indent.length f.desc) 1 (k == 0) = SdlPrintT.printDescription o f.desc 1 (k == 0) := by
    have := printDescription_rewrapOpt o f.desc 1 (k == 0) (by rw [Nat.one_mul]; exact h.1)
    rwa [Nat.one_mul] at this
  simp only [SdlPrintT.printField, rewrapField, hd, printArguments_rewrap o s 1 (2 * o.indent.length) (by omega) f.args h.2]

theorem printFields_rewrap : ∀ (k : Nat) (fs : List FieldD), fs.all (fieldRewrapOK o.indent.length) = true →
    SdlPrintT.printFields (rewrapSchema o.indent.length s) o k (fs.map (rewrapField o.indent.length)) = SdlPrintT.printFields s o k fs
  | _, [], _ => rfl
  | k, f :: fs, h => by
    simp only [List.all_cons, Bool.and_eq_true] at h
    simp only [List.map_cons, SdlPrintT.printFields, printField_rewrap o s k f h.1, printFields_rewrap (k + 1) fs h.2]

theorem printEnumValues_rewrap : ∀ (k : Nat) (vs : List EnumValD), vs.all (fun v => descRewrapOK o.indent.length v.desc) = true →
    SdlPrintT.printEnumValues o k (vs.map (rewrapEnumVal o.indent.length)) = SdlPrintT.printEnumValues o k vs
  | _, [], _ => rfl
  | k, v :: vs, h => by
    simp only [List.all_cons, Bool.and_eq_true] at h
    have hd : SdlPrintT.printDescription o (rewrapOpt o.indent.length v.desc) 1 (k == 0) = SdlPrintT.printDescription o v.desc 1 (k == 0) := by
      have := printDescription_rewrapOpt o v.desc 1 (k == 0) (by rw [Nat.one_mul]; exact h.1)
      rwa [Nat.one_mul] at this
    simp only [List.map_cons, SdlPrintT.printEnumValues, SdlPrintT.printEnumValue, rewrapEnumVal, hd, printEnumValues_rewrap (k + 1) vs h.2]

theorem printInputFields_rewrap : ∀ (k : Nat) (fs : List ArgD), fs.all (argRewrapOK o.indent.length) = true →
    SdlPrintT.printInputFields (rewrapSchema o.indent.length s) o k (fs.map (rewrapArg o.indent.length)) = SdlPrintT.printInputFields s o k fs
  | _, [], _ => rfl
  | k, f :: fs, h => by
    simp only [List.all_cons, Bool.and_eq_true] at h
    have hd : SdlPrintT.printDescription o (rewrapArg o.indent.length f).desc 1 (k == 0) = SdlPrintT.printDescription o f.desc 1 (k == 0) := by
      have := printDescription_rewrapOpt o f.desc 1 (k == 0) (by rw [Nat.one_mul]; exact h.1)
      rwa [Nat.one_mul] at this
    simp only [List.map_cons, SdlPrintT.printInputFields, SdlPrintT.printInputField, hd, printInputValue_rewrap,
      printInputFields_rewrap (k + 1) fs h.2]

theorem printType_rewrap (t : TypeD) (h : typeRewrapOK o.indent.length t = true) :
    SdlPrintT.printType (rewrapSchema o.indent.length s) o (rewrapType o.indent.length t) = SdlPrintT.printType s o t := by
  simp only [typeRewrapOK, Bool.and_eq_true] at h
  obtain ⟨⟨⟨h0, hf⟩, hv⟩, hi⟩ := h
  have hd : SdlPrintT.printDescription o (rewrapOpt 0 t.desc) = SdlPrintT.printDescription o t.desc := by
    have := printDescription_rewrapOpt o t.desc 0 true (by rw [Nat.zero_mul]; exact h0)
    rwa [Nat.zero_mul] at this
  have hk : (rewrapType o.indent.length t).kind = t.kind := rfl
  unfold SdlPrintT.printType
  rw [hk]
  cases t.kind <;>
    simp only [rewrapType, hd, printFields_rewrap o s 0 t.fields hf, printEnumValues_rewrap o 0 t.values hv,
      printInputFields_rewrap o s 0 t.inputFields hi] <;> try rfl

theorem printDirectiveDefinition_rewrap (d : DirectiveD) (h : directiveRewrapOK o.indent.length d = true) :
    SdlPrintT.printDirectiveDefinition (rewrapSchema o.indent.length s) o (rewrapDirective o.indent.length d) =
      SdlPrintT.printDirectiveDefinition s o d := by
  simp only [directiveRewrapOK, Bool.and_eq_true] at h
  have hd : SdlPrintT.printDescription o (rewrapOpt 0 d.desc) = SdlPrintT.printDescription o d.desc := by
    have := printDescription_rewrapOpt o d.desc 0 true (by rw [Nat.zero_mul]; exact h.1)
    rwa [Nat.zero_mul] at this
  simp only [SdlPrintT.printDirectiveDefinition, rewrapDirective, hd,
    printArguments_rewrap o s 0 o.indent.length (by omega) d.args h.2]

theorem printSchemaDefinition_rewrap : SdlPrintT.printSchemaDefinition o (rewrapSchema o.indent.length s) = SdlPrintT.printSchemaDefinition o s := by
  have hany : ∀ n, (s.types.map (rewrapType o.indent.length)).any (fun t => t.name == n) = s.types.any (fun t => t.name == n) := by
    intro n; simp only [List.any_map, Function.comp_def]; rfl
  have hr : ∀ r n, rootImplied (rewrapSchema o.indent.length s) r n = rootImplied s r n := by
    intro r n; cases r <;> simp only [rootImplied, rewrapSchema, hany]
  simp only [SdlPrintT.printSchemaDefinition, needsSchemaBlock, hr]
  rfl

end

theorem insertSorted_map {α} (key : α → String) (f : α → α) (hk : ∀ x, key (f x) = key x) (x : α) :
    ∀ l : List α, insertSorted key (f x) (l.map f) = (insertSorted key x l).map f
  | [] => rfl
  | y :: ys => by
    simp only [List.map_cons, insertSorted, hk]
    split
    · rfl
    · simp only [List.map_cons, insertSorted_map key f hk x ys]

theorem sortBy_map {α} (key : α → String) (f : α → α) (hk : ∀ x, key (f x) = key x) :
    ∀ l : List α, sortBy key (l.map f) = (sortBy key l).map f
  | [] => rfl
  | x :: xs => by
    have ih := sortBy_map key f hk xs
    simp only [sortBy] at ih ⊢
    simp only [List.map_cons, List.foldr_cons, ih, insertSorted_map key f hk]

/-- **the printer is invariant under re-wrapping** -/
theorem printSchemaT_rewrap (o : SdlPrintT.OptsT) (s : SchemaD) (h : schemaRewrapOK o.indent.length s = true) :
    SdlPrintT.printSchemaT o (rewrapSchema o.indent.length s) = SdlPrintT.printSchemaT o s := by
  simp only [schemaRewrapOK, Bool.and_eq_true, List.all_eq_true] at h
  have hd : (sortBy (·.name) (rewrapSchema o.indent.length s).directives).map (SdlPrintT.printDirectiveDefinition (rewrapSchema o.indent.length s) o) =
      (sortBy (·.name) s.directives).map (SdlPrintT.printDirectiveDefinition s o) := by
    show (sortBy (·.name) (s.directives.map (rewrapDirective o.indent.length))).map _ = _
    rw [sortBy_map (fun d : DirectiveD => d.name) (rewrapDirective o.indent.length) (fun _ => rfl), List.map_map]
    apply List.map_congr_left
    intro d hd
    exact printDirectiveDefinition_rewrap o s d (h.2 d ((sortBy_perm _ _).mem_iff.mp hd))
  have ht : (sortBy (·.name) (rewrapSchema o.indent.length s).types).map (SdlPrintT.printType (rewrapSchema o.indent.length s) o) =
      (sortBy (·.name) s.types).map (SdlPrintT.printType s o) := by
    show (sortBy (·.name) (s.types.map (rewrapType o.indent.length))).map _ = _
    rw [sortBy_map (fun t : TypeD => t.name) (rewrapType o.indent.length) (fun _ => rfl), List.map_map]
    apply List.map_congr_left
    intro t ht
    exact printType_rewrap o s t (h.1 t ((sortBy_perm _ _).mem_iff.mp ht))
  simp only [SdlPrintT.printSchemaT, printSchemaDefinition_rewrap, hd, ht]

end PyGql.SdlText

/-
  One call of `__next__` consumes an ignored run and one complete lexeme (soundness of `next`).
-/
import PyGqlModel.Lemmas.LexSoundLit
import PyGqlModel.Lemmas.LexSoundNum

namespace PyGql.Lex
open PyGql.Spec.Lexical

theorem lexeme_punct (k : TokKind) (lex : Text) (h : punctuator k = some lex) : Lexeme k lex lex := by
  cases k <;> simp [Lexeme, punctuator, TokKind.constText] at h ⊢ <;> exact h

theorem follow_punct (k : TokKind) (lex rest : Text) (h : punctuator k = some lex) : Follow k lex rest := by
  cases k <;> simp [Follow, punctuator, TokKind.constText] at h ⊢

/-- what `next` returns together with the unread suffix -/
def Step (n : Nat) (s : Text) (tok : Tok) (rest : Text) : Prop :=
  ∃ ign lex, s = ign ++ (lex ++ rest) ∧ IgnRun (lex ++ rest) ign ∧ Lexeme tok.kind lex tok.value ∧
    Follow tok.kind lex rest ∧ lex ≠ [] ∧ tok.start = n - (lex ++ rest).length ∧ tok.stop = n - rest.length

theorem next_eof (n : Nat) (s : Text) (tok : Tok) (h : next n s = .ok (tok, none)) :
    tok = eofTok n ∧ IgnRun [] s := by
  obtain ⟨ign, hs, hrun, _⟩ := readOverWhitespace_sound false s
  unfold next at h
  split at h
  · rename_i hw
    simp only [Except.ok.injEq, Prod.mk.injEq, and_true] at h
    rw [hw] at hs hrun
    simp only [List.append_nil] at hs
    exact ⟨h.symm, hs ▸ hrun rfl⟩
  · simp only at h
    repeat' split at h
    all_goals first
      | (cases h; done)
      | (simp [Except.map] at h; done)
      | (simp only [Except.map] at h; split at h <;> simp at h; done)

private theorem some'_ok (r : R (Tok × Text)) (tok : Tok) (rest : Text)
    (h : (Except.map (fun p => (p.1, some p.2)) r : R (Tok × Option Text)) = .ok (tok, some rest)) :
    r = .ok (tok, rest) := by
  cases r with
  | error e => simp [Except.map] at h
  | ok p =>
    obtain ⟨a, b⟩ := p
    simp only [Except.map, Except.ok.injEq, Prod.mk.injEq, Option.some.injEq] at h
    obtain ⟨rfl, rfl⟩ := h
    rfl

theorem next_sound (n : Nat) (s rest : Text) (tok : Tok) (h : next n s = .ok (tok, some rest)) :
    Step n s tok rest := by
  obtain ⟨ign, hs, hrun, _⟩ := readOverWhitespace_sound false s
  have hrun := hrun rfl
  unfold next at h
  split at h
  · simp at h
  · rename_i c t hw
    rw [hw] at hs hrun
    simp only at h
    by_cases hpr : (!Lex.isPrintable c) = true
    · simp [hpr] at h
    simp only [hpr, Bool.false_eq_true, ↓reduceIte] at h
    cases hsym : symbolKind c with
    | some k =>
      simp only [hsym, Except.ok.injEq, Prod.mk.injEq, Option.some.injEq] at h
      obtain ⟨rfl, rfl⟩ := h
      have hp := (symbolKind_spec c k).mp hsym
      exact ⟨ign, [c], hs, hrun, lexeme_punct k [c] hp, follow_punct k [c] _ hp, by simp, by simp [posAt], rfl⟩
    | none =>
      simp only [hsym] at h
      by_cases h46 : c = 46
      · -- `...`
        simp only [h46, ↓reduceIte] at h
        have h' := some'_ok _ _ _ h
        unfold readEllipsis at h'
        split at h'
        · cases h'
        · rename_i r hd
          simp only [Except.ok.injEq, Prod.mk.injEq] at h'
          obtain ⟨rfl, rfl⟩ := h'
          have hsplit := readDots_sound n 3 _ _ hd
          subst h46
          refine ⟨ign, [46, 46, 46], by rw [hs, hsplit]; rfl, by rw [hsplit] at hrun; exact hrun, ?_, trivial, by simp, ?_, rfl⟩
          · exact lexeme_punct .ellip _ rfl
          · simp only [posAt]; rw [hsplit]; rfl
      simp only [h46, ↓reduceIte] at h
      by_cases htq : tq.isPrefixOf (c :: t) = true
      · -- block string
        simp only [htq, ↓reduceIte] at h
        have h' := some'_ok _ _ _ h
        unfold readBlockString at h'
        split at h'
        · cases h'
        · rename_i raw r hb
          simp only [Except.ok.injEq, Prod.mk.injEq] at h'
          obtain ⟨rfl, rfl⟩ := h'
          obtain ⟨u, hu⟩ := tq_prefix_eq _ htq
          rw [hu] at hb hs hrun
          simp only [List.drop_succ_cons, List.drop_zero] at hb
          obtain ⟨body, rfl, hbody⟩ := readBlockBody_sound n 0 _ _ _ hb
          refine ⟨ign, 34 :: 34 :: 34 :: body, by rw [hs]; simp, by simpa using hrun, ?_, trivial, by simp, ?_, rfl⟩
          · show (blockStringRaw (34 :: 34 :: 34 :: body)).map Spec.BlockStringValue = some _
            have : blockStringRaw (34 :: 34 :: 34 :: body) = some raw := by
              simp [blockStringRaw, List.isPrefixOf, hbody]
            rw [this, Option.map_some, PyGql.Props.C02.block_string_spec]
          · simp [posAt, hu]
      simp only [htq, Bool.false_eq_true, ↓reduceIte] at h
      by_cases h34 : c = 34
      · -- quoted string
        simp only [h34, ↓reduceIte] at h
        have h' := some'_ok _ _ _ h
        unfold readString at h'
        split at h'
        · cases h'
        · rename_i v r hb
          simp only [Except.ok.injEq, Prod.mk.injEq] at h'
          obtain ⟨rfl, rfl⟩ := h'
          subst h34
          simp only [List.drop_succ_cons, List.drop_zero] at hb
          obtain ⟨body, rfl, hbody⟩ := PyGql.Props.C02.escape_spec_sound n _ _ _ hb
          refine ⟨ign, 34 :: (body ++ [34]), by rw [hs]; simp, by simpa using hrun, ?_, ?_, by simp, ?_, rfl⟩
          · exact stringValue_of_body body v hbody
          · intro hlex
            have hb0 : body = [] := by
              simp only [List.cons.injEq, true_and] at hlex
              cases body with
              | nil => rfl
              | cons x xs => simp at hlex
            subst hb0
            cases r with
            | nil => rfl
            | cons x xs =>
              simp only [startsWith, beq_eq_false_iff_ne]
              intro hx; subst hx
              simp [tq, List.isPrefixOf] at htq
          · simp [posAt]
      simp only [h34, ↓reduceIte] at h
      by_cases hnum : (decide (c = 45) || Lex.isDigit c) = true
      · simp only [hnum, ↓reduceIte] at h
        have h' := some'_ok _ _ _ h
        obtain ⟨lex, hsl, hne, hlx, hfo, hst, hsp⟩ := readNumber_sound n _ _ _ h'
        exact ⟨ign, lex, by rw [hs, hsl], by rw [hsl] at hrun; exact hrun, hlx, hfo, hne, hst, hsp⟩
      simp only [hnum, Bool.false_eq_true, ↓reduceIte] at h
      by_cases hname : Lex.isNameStart c = true
      · simp only [hname, ↓reduceIte] at h
        have h' := some'_ok _ _ _ h
        simp only [Except.ok.injEq] at h'
        obtain ⟨lex, hsl, hne, hnm, hval, hkind, hfo, hst, hsp⟩ := readName_sound n c t hname
        rw [h'] at hsl hval hkind hfo hst hsp
        simp only at hsl hval hkind hfo hst hsp
        refine ⟨ign, lex, by rw [hs, hsl], by rw [hsl] at hrun; exact hrun, ?_, ?_, hne, hst, hsp⟩
        · rw [hkind]; exact ⟨hnm, hval⟩
        · rw [hkind]; exact hfo
      · simp [hname] at h

end PyGql.Lex

/-
  The reachable response keys (`KA`, Lemmas/ValidateRootKeys.lean) under `Tr`: re-ordering of selections / arguments at
  every depth and injective renaming of fragments leave the set of reachable keys unchanged.
-/
import PyGqlModel.Lemmas.ValidateRootKeysFuel
import PyGqlModel.Lemmas.ValidateTr
namespace PyGql.Validate
open PyGql

/-- the fragment table of the transformed document, seen from the table of the document -/
def TabRel (T : Tr) (frs frs' : AL (List Sel)) : Prop :=
  (∀ a, AL.get? frs' (T.frag a) = (AL.get? frs a).map fun s => T.sels (T.selList s)) ∧
  (∀ b, (∀ a, b ≠ T.frag a) → AL.get? frs' b = none)

theorem tabRel_set (T : Tr) (hinj : ∀ a b, T.frag a = T.frag b → a = b) {m m' : AL (List Sel)} (h : TabRel T m m')
    (n : String) (sels : List Sel) : TabRel T (AL.set m n sels) (AL.set m' (T.frag n) (T.sels (T.selList sels))) := by
  constructor
  · intro a
    rw [AL.get?_set, AL.get?_set]
    by_cases e : a = n
    · subst e; simp
    · have : T.frag a ≠ T.frag n := fun e' => e (hinj _ _ e')
      rw [if_neg this, if_neg e]; exact h.1 a
  · intro b hb
    rw [AL.get?_set, if_neg (hb n)]
    exact h.2 b hb

theorem sfsTable_tabRel (T : Tr) (hinj : ∀ a b, T.frag a = T.frag b → a = b) (d : Doc) :
    TabRel T (sfsTable d) (sfsTable (T.doc d)) := by
  obtain ⟨ds⟩ := d
  simp only [sfsTable, Tr.doc, List.foldl_map]
  have key : ∀ (l : List Def) (m m' : AL (List Sel)), TabRel T m m' →
      TabRel T (l.foldl (fun m x => match x with | .frag n _ _ _ sels => AL.set m n sels | _ => m) m)
        (l.foldl (fun m x => match T.defn x with | .frag n _ _ _ sels => AL.set m n sels | _ => m) m') := by
    intro l
    induction l with
    | nil => intro m m' h; exact h
    | cons x xs ih =>
      intro m m' h
      rw [List.foldl_cons, List.foldl_cons]
      cases x with
      | frag n on dirs id sels => exact ih _ _ (tabRel_set T hinj h n sels)
      | op => exact ih _ _ h
      | ts => exact ih _ _ h
  exact key ds [] [] ⟨fun _ => rfl, fun _ _ => rfl⟩

theorem mem_tr_sels (T : Tr) (sub : List Sel) : ∀ x ∈ sub, T.sel x ∈ T.sels (T.selList sub) := fun x hx =>
  (T.sels_perm _).mem_iff.mpr (by rw [T.selList_eq_map]; exact List.mem_map_of_mem hx)

theorem of_mem_tr_sels (T : Tr) (sub : List Sel) : ∀ y ∈ T.sels (T.selList sub), ∃ x ∈ sub, y = T.sel x := fun y hy => by
  have := (T.sels_perm _).mem_iff.mp hy
  rw [T.selList_eq_map] at this
  obtain ⟨x, hx, e⟩ := List.mem_map.mp this
  exact ⟨x, hx, e.symm⟩

theorem ka_tr_of (T : Tr) {frs frs' : AL (List Sel)} (hr : TabRel T frs frs') {L : List Sel} {k : String}
    (h : KA frs [] L k) : ∀ L', (∀ x ∈ L, T.sel x ∈ L') → KA frs' [] L' k := by
  induction h with
  | field hm => intro L' hL; exact .field (hL _ hm)
  | inline hm _ ih => intro L' hL; exact .inline (hL _ hm) (ih _ (mem_tr_sels T _))
  | @spread L name ds sels k hm hn hg _ ih =>
    intro L' hL
    refine .spread (hL _ hm) (by simp) ?_ (ih _ (mem_tr_sels T sels))
    rw [hr.1 name, hg]; rfl

theorem ka_tr_to (T : Tr) {frs frs' : AL (List Sel)} (hr : TabRel T frs frs') {L' : List Sel} {k : String}
    (h : KA frs' [] L' k) : ∀ L, (∀ y ∈ L', ∃ x ∈ L, y = T.sel x) → KA frs [] L k := by
  induction h with
  | field hm =>
    intro L hL
    obtain ⟨x, hx, e⟩ := hL _ hm
    cases x with
    | field al n a ds h i sub =>
      simp only [Tr.sel, Sel.field.injEq] at e
      obtain ⟨rfl, rfl, _⟩ := e
      exact .field hx
    | spread => simp [Tr.sel] at e
    | inline => simp [Tr.sel] at e
  | inline hm _ ih =>
    intro L hL
    obtain ⟨x, hx, e⟩ := hL _ hm
    cases x with
    | inline on ds i sub =>
      simp only [Tr.sel, Sel.inline.injEq] at e
      obtain ⟨_, _, _, rfl⟩ := e
      exact .inline hx (ih _ (of_mem_tr_sels T sub))
    | spread => simp [Tr.sel] at e
    | field => simp [Tr.sel] at e
  | @spread L' name' ds' sels' k hm hn hg _ ih =>
    intro L hL
    obtain ⟨x, hx, e⟩ := hL _ hm
    cases x with
    | spread n ds =>
      simp only [Tr.sel, Sel.spread.injEq] at e
      obtain ⟨rfl, _⟩ := e
      rw [hr.1 n] at hg
      cases hg0 : AL.get? frs n with
      | none => rw [hg0] at hg; cases hg
      | some sels =>
        rw [hg0] at hg
        simp only [Option.map_some, Option.some.injEq] at hg
        subst hg
        exact .spread hx (by simp) hg0 (ih _ (of_mem_tr_sels T sels))
    | inline => simp [Tr.sel] at e
    | field => simp [Tr.sel] at e

/-- **the reachable response keys are invariant under `Tr`** -/
theorem ka_tr_iff (T : Tr) (hinj : ∀ a b, T.frag a = T.frag b → a = b) (d : Doc) (sels : List Sel) (k : String) :
    KA (sfsTable (T.doc d)) [] (T.sels (T.selList sels)) k ↔ KA (sfsTable d) [] sels k :=
  ⟨fun h => ka_tr_to T (sfsTable_tabRel T hinj d) h _ (of_mem_tr_sels T sels),
   fun h => ka_tr_of T (sfsTable_tabRel T hinj d) h _ (mem_tr_sels T sels)⟩

end PyGql.Validate

/-
  C12 text level — everything the printer, the denoted document and the predicate `printTextWF` take from the schema
  `s` below the top-level lists goes through `valueLit s`; hence it is the same for two schemas with the same literals.
-/
import PyGqlModel.Lemmas.SdlTextOrder
import PyGqlModel.SdlText
namespace PyGql.SdlText
open PyGql PyGql.Sdl PyGql.SdlPrint

/-- two schemas give the same literals to default values -/
def SameLits (s' s : SchemaD) : Prop := ∀ v ty, valueLit s' valueFuel v ty = valueLit s valueFuel v ty

section
variable {s' s : SchemaD} (h : SameLits s' s)
include h

theorem valueText_congr : SdlPrintT.valueText s' = SdlPrintT.valueText s := by
  funext v ty; simp only [SdlPrintT.valueText, h v ty]

theorem printInputValue_congr : SdlPrintT.printInputValue s' = SdlPrintT.printInputValue s := by
  funext a; simp only [SdlPrintT.printInputValue, valueText_congr h]

theorem printArgs_congr (o : SdlPrintT.OptsT) (depth : Nat) (multi : Bool) : ∀ (l : List ArgD) (i : Nat),
    SdlPrintT.printArgs s' o depth multi i l = SdlPrintT.printArgs s o depth multi i l
  | [], _ => rfl
  | a :: as, i => by simp only [SdlPrintT.printArgs, printInputValue_congr h, printArgs_congr o depth multi as]

theorem printArguments_congr (o : SdlPrintT.OptsT) : SdlPrintT.printArguments s' o = SdlPrintT.printArguments s o := by
  funext args depth; simp only [SdlPrintT.printArguments, printArgs_congr h]

theorem printField_congr (o : SdlPrintT.OptsT) : SdlPrintT.printField s' o = SdlPrintT.printField s o := by
  funext i f; simp only [SdlPrintT.printField, printArguments_congr h]

theorem printFields_congr (o : SdlPrintT.OptsT) : ∀ (l : List FieldD) (i : Nat),
    SdlPrintT.printFields s' o i l = SdlPrintT.printFields s o i l
  | [], _ => rfl
  | f :: fs, i => by simp only [SdlPrintT.printFields, printField_congr h, printFields_congr o fs]

theorem printInputFields_congr (o : SdlPrintT.OptsT) : ∀ (l : List ArgD) (i : Nat),
    SdlPrintT.printInputFields s' o i l = SdlPrintT.printInputFields s o i l
  | [], _ => rfl
  | f :: fs, i => by
    simp only [SdlPrintT.printInputFields, SdlPrintT.printInputField, printInputValue_congr h, printInputFields_congr o fs]

theorem printType_congr (o : SdlPrintT.OptsT) : SdlPrintT.printType s' o = SdlPrintT.printType s o := by
  funext t; simp only [SdlPrintT.printType, printFields_congr h, printInputFields_congr h]

theorem printDirectiveDefinition_congr (o : SdlPrintT.OptsT) :
    SdlPrintT.printDirectiveDefinition s' o = SdlPrintT.printDirectiveDefinition s o := by
  funext d; simp only [SdlPrintT.printDirectiveDefinition, printArguments_congr h]

theorem argToDef_congr : argToDef s' = argToDef s := by
  funext a; simp only [argToDef, h a.default a.type]

theorem fieldToDef_congr : fieldToDef s' = fieldToDef s := by
  funext f; simp only [fieldToDef, argToDef_congr h]

theorem typeToDef_congr : typeToDef s' = typeToDef s := by
  funext t; simp only [typeToDef, argToDef_congr h, fieldToDef_congr h]

theorem directiveToDef_congr : directiveToDef s' = directiveToDef s := by
  funext d; simp only [directiveToDef, argToDef_congr h]

theorem argOKT_congr : argOKT s' = argOKT s := by
  funext w a; simp only [argOKT, h a.default a.type]

theorem fieldOKT_congr : fieldOKT s' = fieldOKT s := by
  funext w f; simp only [fieldOKT, argOKT_congr h]

theorem typeOKT_congr : typeOKT s' = typeOKT s := by
  funext w t; simp only [typeOKT, argOKT_congr h, fieldOKT_congr h]

theorem directiveOKT_congr : directiveOKT s' = directiveOKT s := by
  funext w d; simp only [directiveOKT, argOKT_congr h]

end

end PyGql.SdlText

/-
  C04 helper lemmas — selections all of whose `@skip`/`@include` conditions can be EVALUATED under the variables
  (Boolean literals, variables bound to a non-null value). On such documents `collect_fields` never fails with the
  `CoercionError` that `ResolutionContext.collect_fields` turns into a field error, so `execute_fields` never yields a
  travelling `ResolverError` of its own (`executeFields_notRaised_of_eval`).
-/
import PyGqlModel.Lemmas.C04Raise

set_option linter.unusedSimpArgs false
set_option linter.unusedVariables false

namespace PyGql.Lemmas.C04Dirs
open PyGql PyGql.Exec PyGql.Lemmas.C04Raise

def skipOk (vars : Vars) (dirs : List Dir) : Bool :=
  match skipSelection vars dirs with
  | .ok _ => true
  | .error _ => false

mutual
def selEval (vars : Vars) : Sel → Bool
  | .field _ _ _ dirs _ _ sub => skipOk vars dirs && selsEval vars sub
  | .inline _ dirs sub => skipOk vars dirs && selsEval vars sub
  | .spread _ dirs => skipOk vars dirs
def selsEval (vars : Vars) : List Sel → Bool
  | [] => true
  | x :: xs => selEval vars x && selsEval vars xs
end

/-- every fragment body can be evaluated -/
def DocEval (doc : Doc) (vars : Vars) : Prop := ∀ name fr, doc.fragment? name = some fr → selsEval vars fr.sels = true

/-- decidable certificate (fragments and operations) -/
def docEvalB (doc : Doc) (vars : Vars) : Bool :=
  doc.frags.all (fun fr => selsEval vars fr.sels) && doc.ops.all (fun o => selsEval vars o.sels)

theorem docEval_of_bool (doc : Doc) (vars : Vars) (h : docEvalB doc vars = true) :
    DocEval doc vars ∧ ∀ o ∈ doc.ops, selsEval vars o.sels = true := by
  unfold docEvalB at h
  simp only [Bool.and_eq_true, List.all_eq_true] at h
  refine ⟨?_, h.2⟩
  intro name fr hf
  unfold Doc.fragment? at hf
  have hm := List.mem_of_find?_eq_some hf
  simp at hm
  exact h.1 fr hm

theorem skipOk_ok {vars : Vars} {dirs : List Dir} (h : skipOk vars dirs = true) : ∃ b, skipSelection vars dirs = .ok b := by
  unfold skipOk at h
  cases hs : skipSelection vars dirs with
  | ok b => exact ⟨b, rfl⟩
  | error e => simp [hs] at h

theorem selsEval_append (vars : Vars) (a b : List Sel) : selsEval vars (a ++ b) = (selsEval vars a && selsEval vars b) := by
  induction a with
  | nil => simp [selsEval]
  | cons x xs ih => simp [selsEval, ih, Bool.and_assoc]

theorem mergedSelections_eval (vars : Vars) (nodes : List FNode) (h : ∀ n ∈ nodes, selsEval vars n.sub = true) :
    selsEval vars (mergedSelections nodes) = true := by
  induction nodes with
  | nil => simp [mergedSelections, selsEval]
  | cons n rest ih =>
    have h1 := h n (by simp)
    have h2 := ih (fun m hm => h m (by simp [hm]))
    simp only [mergedSelections, List.flatMap_cons] at h2 ⊢
    rw [selsEval_append]
    by_cases hs : n.hasSub
    · simp [hs, h1, h2]
    · simp [hs, selsEval, h2]

def GroupAllD (P : FNode → Prop) (g : Grouped) : Prop := ∀ kv ∈ g, ∀ n ∈ kv.2, P n

theorem extend_groupAllD (P : FNode → Prop) (g : Grouped) (k : String) (ns : List FNode) (hg : GroupAllD P g)
    (hn : ∀ n ∈ ns, P n) : GroupAllD P (g.extend k ns) := by
  induction g with
  | nil => intro kv hkv n hn'; simp [Grouped.extend] at hkv; subst hkv; exact hn n hn'
  | cons kv rest ih =>
    obtain ⟨k', ms⟩ := kv
    simp only [Grouped.extend]
    by_cases h : k' = k
    · subst h
      simp only [beq_self_eq_true, if_true]
      intro kv hkv n hn'
      simp at hkv
      rcases hkv with rfl | hkv
      · simp at hn'
        rcases hn' with h1 | h1
        · exact hg (k', ms) (by simp) n h1
        · exact hn n h1
      · exact hg kv (by simp [hkv]) n hn'
    · have h' : (k' == k) = false := by simpa using h
      simp only [h', Bool.false_eq_true, if_false]
      intro kv hkv n hn'
      simp at hkv
      rcases hkv with rfl | hkv
      · exact hg (k', ms) (by simp) n hn'
      · exact ih (fun kv hkv => hg kv (by simp [hkv])) kv hkv n hn'

theorem mergeInto_groupAllD (P : FNode → Prop) (src into : Grouped) (hs : GroupAllD P src) (hi : GroupAllD P into) :
    GroupAllD P (src.mergeInto into) := by
  unfold Grouped.mergeInto
  induction src generalizing into with
  | nil => simpa
  | cons kv rest ih =>
    simp only [List.foldl_cons]
    exact ih _ (fun kv' hkv => hs kv' (by simp [hkv])) (extend_groupAllD P _ _ _ hi (fun n hn => hs kv (by simp) n hn))

def NotCoercion {α} (r : R α) : Prop := r ≠ .error (.internal "CoercionError")

/-- what the fuel induction carries -/
def CollectEval (vars : Vars) (rec : String → List Sel → List String → R (Grouped × List String)) : Prop :=
  ∀ obj sels seen, selsEval vars sels = true →
    NotCoercion (rec obj sels seen) ∧
    ∀ g seen', rec obj sels seen = .ok (g, seen') → GroupAllD (fun n => selsEval vars n.sub = true) g

theorem collectStep_eval (s : SchemaD) (doc : Doc) (vars : Vars) (hdoc : DocEval doc vars)
    (rec : String → List Sel → List String → R (Grouped × List String)) (hrec : CollectEval vars rec) (obj : String) :
    ∀ (sels : List Sel) (seen : List String) (g : Grouped), selsEval vars sels = true →
      GroupAllD (fun n => selsEval vars n.sub = true) g →
      NotCoercion (collectStep s doc vars rec obj sels seen g) ∧
      ∀ g' seen', collectStep s doc vars rec obj sels seen g = .ok (g', seen') → GroupAllD (fun n => selsEval vars n.sub = true) g' := by
  intro sels
  induction sels with
  | nil =>
    intro seen g _ hg
    refine ⟨by intro h; simp [collectStep] at h, ?_⟩
    intro g' seen' h
    simp [collectStep] at h
    obtain ⟨rfl, rfl⟩ := h
    exact hg
  | cons sel rest ih =>
    intro seen g he hg
    simp only [selsEval, Bool.and_eq_true] at he
    obtain ⟨hsel, hrest⟩ := he
    cases sel with
    | field key name loc dirs args hs sub =>
      simp only [selEval, Bool.and_eq_true] at hsel
      obtain ⟨b, hb⟩ := skipOk_ok hsel.1
      simp only [collectStep, hb, bind, Except.bind]
      cases b with
      | true => simpa using ih seen g hrest hg
      | false =>
        simpa using ih seen _ hrest (extend_groupAllD _ _ _ _ hg (by intro n hn; simp at hn; subst hn; exact hsel.2))
    | inline on dirs sub =>
      simp only [selEval, Bool.and_eq_true] at hsel
      obtain ⟨b, hb⟩ := skipOk_ok hsel.1
      simp only [collectStep, hb, bind, Except.bind, pure, Except.pure]
      cases b with
      | true => simpa using ih seen g hrest hg
      | false =>
        simp only [Bool.false_eq_true, if_false]
        rcases ha : fragmentTypeApplies s obj on with e | a
        · simp only []
          have := fragmentTypeApplies_err _ _ _ _ ha
          subst this
          exact ⟨by intro h; simp at h, by intro g' seen' h; simp at h⟩
        simp only []
        cases a with
        | false => simpa using ih seen g hrest hg
        | true =>
          simp only [Bool.not_true, Bool.false_eq_true, if_false]
          obtain ⟨hne, hgo⟩ := hrec obj sub seen hsel.2
          cases hr : rec obj sub seen with
          | error e =>
            refine ⟨?_, by intro g' seen' h; simp at h⟩
            intro h
            simp at h
            exact hne (by rw [hr, h])
          | ok p =>
            obtain ⟨gs, seens⟩ := p
            simpa using ih _ _ hrest (mergeInto_groupAllD _ gs g (hgo gs seens hr) hg)
    | spread name dirs =>
      simp only [selEval] at hsel
      cases hfr : doc.fragment? name with
      | none => exact ⟨by intro h; simp [collectStep, hfr] at h, by intro g' seen' h; simp [collectStep, hfr] at h⟩
      | some fr =>
        obtain ⟨b, hb⟩ := skipOk_ok hsel
        simp only [collectStep, hfr, hb, bind, Except.bind, pure, Except.pure]
        cases b with
        | true => simpa using ih seen g hrest hg
        | false =>
          simp only [Bool.false_eq_true, if_false]
          by_cases hseen : seen.contains name
          · simp only [hseen, if_true]; simpa using ih seen g hrest hg
          · simp only [hseen, Bool.false_eq_true, if_false]
            rcases ha : fragmentTypeApplies s obj (some fr.on) with e | a
            · simp only []
              have := fragmentTypeApplies_err _ _ _ _ ha
              subst this
              exact ⟨by intro h; simp at h, by intro g' seen' h; simp at h⟩
            simp only []
            cases a with
            | false => simpa using ih seen g hrest hg
            | true =>
              simp only [Bool.not_true, Bool.false_eq_true, if_false]
              obtain ⟨hne, hgo⟩ := hrec obj fr.sels seen (hdoc name fr hfr)
              cases hr : rec obj fr.sels seen with
              | error e =>
                refine ⟨?_, by intro g' seen' h; simp at h⟩
                intro h
                simp at h
                exact hne (by rw [hr, h])
              | ok p =>
                obtain ⟨gs, seens⟩ := p
                simpa using ih _ _ hrest (mergeInto_groupAllD _ gs g (hgo gs seens hr) hg)

/-- on evaluable selections `collect_fields` never fails with `CoercionError`, and every collected node carries an
    evaluable sub-selection -/
theorem collect_eval (s : SchemaD) (doc : Doc) (vars : Vars) (hdoc : DocEval doc vars) (fuel : Nat) :
    CollectEval vars (collectFields s doc vars fuel) := by
  induction fuel with
  | zero =>
    intro obj sels seen _
    exact ⟨by intro h; simp [collectFields] at h, by intro g seen' h; simp [collectFields] at h⟩
  | succ n ih =>
    intro obj sels seen he
    simp only [collectFields]
    exact collectStep_eval s doc vars hdoc _ ih obj sels seen [] he (by intro kv h; simp at h)

/-- … hence `execute_fields` yields no `ResolverError` of its own -/
theorem executeFields_notRaised_of_eval (s : SchemaD) (doc : Doc) (vars : Vars) (hdoc : DocEval doc vars) (w : World)
    (cf fuel : Nat) (parent : String) (path : Path) (sels : List Sel) (he : selsEval vars sels = true) :
    NotRaised (executeFields s doc vars w cf fuel parent path sels) := by
  intro k l i h
  obtain ⟨_, _, _, cf', hc⟩ := executeFields_raised s doc vars w cf fuel parent path sels k l i h
  exact (collect_eval s doc vars hdoc cf' parent sels [] he).1 hc

end PyGql.Lemmas.C04Dirs

/-
  `OverlappingFieldsCanBeMergedChecker`, part 3: EVERY CONFLICT THE SEARCH REPORTS IS GENUINE. For each of the five
  mutually recursive search functions: if the context is sane (`CI`: the fragment table is the document's, every
  cached parent type is admissible) it stays sane, and a positive count comes with two fields - collected from
  the sets / fragments the function was called on - that conflict in the sense of `Spec.Conf`.
  Fuel, the compared-pairs memo and the compared-fragments set only make the search report LESS.
  This file: the invariant, `_find_conflict`, `_conflicts_between`.
-/
import PyGqlModel.Lemmas.ValidateOverlapNodes
namespace PyGql.Validate
open PyGql PyGql.Validate.Spec

structure CI (s : SchemaD) (d : Doc) (c : OCtx) : Prop where
  frags : c.frags = fragTable d
  cache : ∀ q ∈ c.cache, Adm s d q.1 q.2

/-- a field the search can meet: collected from a selection set of the document under an admissible parent type -/
def Ent (s : SchemaD) (d : Doc) (e : FEntry) : Prop :=
  ∃ i sels p rn, SelSet d i sels ∧ Adm s d i p ∧ CollD s p sels rn e

theorem Ent.sub {s : SchemaD} {d : Doc} {e : FEntry} (h : Ent s d e) (hs : e.hasSub = true) :
    SelSet d e.ssid e.sub ∧ Adm s d e.ssid ((e.fdef.map (·.type)).map (·.base)) := by
  obtain ⟨i, sels, p, rn, h1, h2, h3⟩ := h
  exact ⟨selSet_sub h1 h3 hs, .sub h2 h1 h3 hs⟩

/-- the field map holds `e` under the response name `rn` -/
def Has (fm : FMap) (rn : String) (e : FEntry) : Prop := ∃ l, (rn, l) ∈ fm ∧ e ∈ l

theorem entOK_ent {s : SchemaD} {d : Doc} {p : Option String} {i : Nat} {sels : List Sel} {fm : FMap}
    (h : EntOK (CollD s p sels) fm) (h1 : SelSet d i sels) (h2 : Adm s d i p) : EntOK (fun _ e => Ent s d e) fm :=
  fun q hq e he => ⟨i, sels, p, q.1, h1, h2, h q hq e he⟩

section
variable (s : SchemaD) (fx : Fixes) (d : Doc)

def SFind (fuel : Nat) : Prop :=
  ∀ pme f1 f2 c, CI s d c → Ent s d f1 → Ent s d f2 →
    CI s d (findConflict s fx fuel pme f1 f2 c).2 ∧ ((findConflict s fx fuel pme f1 f2 c).1 = true → Conf s d pme f1 f2)

def SCb (fuel : Nat) : Prop :=
  ∀ me fm1 fm2 c, CI s d c → EntOK (fun _ e => Ent s d e) fm1 → EntOK (fun _ e => Ent s d e) fm2 →
    CI s d (conflictsBetween s fx fuel me fm1 fm2 c).2 ∧
    (0 < (conflictsBetween s fx fuel me fm1 fm2 c).1 → ∃ rn e1 e2, Has fm1 rn e1 ∧ Has fm2 rn e2 ∧ Conf s d me e1 e2)

def SFf (fuel : Nat) : Prop :=
  ∀ me ssid fm name c, CI s d c → EntOK (fun _ e => Ent s d e) fm →
    CI s d (betweenFieldsAndFragment s fx fuel me ssid fm name c).2 ∧
    (0 < (betweenFieldsAndFragment s fx fuel me ssid fm name c).1 →
      ∃ rn e1 e2, Has fm rn e1 ∧ CollF s d name rn e2 ∧ Conf s d me e1 e2)

def SFr (fuel : Nat) : Prop :=
  ∀ me of1 of2 c, CI s d c →
    CI s d (betweenFragments s fx fuel me of1 of2 c).2 ∧
    (0 < (betweenFragments s fx fuel me of1 of2 c).1 →
      ∃ f1 f2 rn e1 e2, of1 = some f1 ∧ of2 = some f2 ∧ CollF s d f1 rn e1 ∧ CollF s d f2 rn e2 ∧ Conf s d me e1 e2)

def SSs (fuel : Nat) : Prop :=
  ∀ me p1 id1 sels1 p2 id2 sels2 c, CI s d c → SelSet d id1 sels1 → Adm s d id1 p1 → SelSet d id2 sels2 → Adm s d id2 p2 →
    CI s d (betweenSubselections s fx fuel me p1 id1 sels1 p2 id2 sels2 c).2 ∧
    (0 < (betweenSubselections s fx fuel me p1 id1 sels1 p2 id2 sels2 c).1 →
      ∃ p1' p2' rn e1 e2, Adm s d id1 p1' ∧ Adm s d id2 p2' ∧ Coll s d p1' sels1 rn e1 ∧ Coll s d p2' sels2 rn e2 ∧
        (Conf s d me e1 e2 ∨ Conf s d me e2 e1))

theorem CI.crash {s : SchemaD} {d : Doc} {c : OCtx} (h : CI s d c) (x : Option String) : CI s d { c with crash := x } :=
  ⟨h.frags, h.cache⟩

theorem step_find (fuel : Nat) (hss : SSs s fx d fuel) : SFind s fx d (fuel + 1) := by
  intro pme f1 f2 c hc h1 h2
  simp only [findConflict]
  generalize hm0 : (pme || _) = me
  have hm : (pme || exclusiveParents s f1 f2) = me := hm0
  clear hm0
  have htypes : ∀ (h : (match f1.fdef.map (·.type), f2.fdef.map (·.type) with
      | some a, some b => typesConflict s a b
      | _, _ => false) = true), Conf s d pme f1 f2 := by
    intro h
    cases h1t : f1.fdef.map (·.type) with
    | none => rw [h1t] at h; cases h
    | some a =>
      cases h2t : f2.fdef.map (·.type) with
      | none => rw [h1t, h2t] at h; cases h
      | some b => rw [h1t, h2t] at h; exact .types h1t h2t h
  have hsubs : (f1.hasSub && f2.hasSub) = true →
      CI s d (betweenSubselections s fx fuel me ((f1.fdef.map (·.type)).map (·.base)) f1.ssid f1.sub
        ((f2.fdef.map (·.type)).map (·.base)) f2.ssid f2.sub c).2 ∧
      (0 < (betweenSubselections s fx fuel me ((f1.fdef.map (·.type)).map (·.base)) f1.ssid f1.sub
        ((f2.fdef.map (·.type)).map (·.base)) f2.ssid f2.sub c).1 → Conf s d pme f1 f2) := by
    intro hsub
    simp only [Bool.and_eq_true] at hsub
    obtain ⟨s1, a1⟩ := h1.sub hsub.1
    obtain ⟨s2, a2⟩ := h2.sub hsub.2
    obtain ⟨c1, c2⟩ := hss me _ _ _ _ _ _ c hc s1 a1 s2 a2
    refine ⟨c1, fun h => ?_⟩
    obtain ⟨p1', p2', rn, e1, e2, b1, b2, b3, b4, b5⟩ := c2 h
    rcases b5 with b5 | b5
    · exact .sub hsub.1 hsub.2 b1 b2 b3 b4 (by rw [hm]; exact b5)
    · exact .subSwap hsub.1 hsub.2 b1 b2 b3 b4 (by rw [hm]; exact b5)
  have htail : CI s d
      (if (match f1.fdef.map (·.type), f2.fdef.map (·.type) with
          | some a, some b => typesConflict s a b
          | _, _ => false) = true then (true, c)
        else if (f1.hasSub && f2.hasSub) = true then
          (decide ((betweenSubselections s fx fuel me ((f1.fdef.map (·.type)).map (·.base)) f1.ssid f1.sub
            ((f2.fdef.map (·.type)).map (·.base)) f2.ssid f2.sub c).1 > 0),
           (betweenSubselections s fx fuel me ((f1.fdef.map (·.type)).map (·.base)) f1.ssid f1.sub
            ((f2.fdef.map (·.type)).map (·.base)) f2.ssid f2.sub c).2)
        else (false, c)).2 ∧
      ((if (match f1.fdef.map (·.type), f2.fdef.map (·.type) with
          | some a, some b => typesConflict s a b
          | _, _ => false) = true then (true, c)
        else if (f1.hasSub && f2.hasSub) = true then
          (decide ((betweenSubselections s fx fuel me ((f1.fdef.map (·.type)).map (·.base)) f1.ssid f1.sub
            ((f2.fdef.map (·.type)).map (·.base)) f2.ssid f2.sub c).1 > 0),
           (betweenSubselections s fx fuel me ((f1.fdef.map (·.type)).map (·.base)) f1.ssid f1.sub
            ((f2.fdef.map (·.type)).map (·.base)) f2.ssid f2.sub c).2)
        else (false, c)).1 = true → Conf s d pme f1 f2) := by
    generalize htcd : (match f1.fdef.map (·.type), f2.fdef.map (·.type) with
      | some a, some b => typesConflict s a b
      | _, _ => false) = tc at htypes
    cases tc with
    | true => exact ⟨hc, fun _ => htypes rfl⟩
    | false =>
      simp only [Bool.false_eq_true, ↓reduceIte]
      generalize hsd : (f1.hasSub && f2.hasSub) = hs at hsubs
      cases hs with
      | true =>
        simp only [↓reduceIte]
        obtain ⟨c1, c2⟩ := hsubs rfl
        exact ⟨c1, fun h => c2 (by simpa using h)⟩
      | false => exact ⟨hc, fun h => by simp at h⟩
  cases me with
  | true =>
    simp only [↓reduceIte]
    exact htail
  | false =>
    simp only [Bool.false_eq_true, ↓reduceIte]
    by_cases hn : (f1.name != f2.name) = true
    · simp only [hn, ↓reduceIte]
      exact ⟨hc, fun _ => .args hm (Or.inl (by simpa using hn))⟩
    · simp only [hn, Bool.false_eq_true, ↓reduceIte]
      cases hsa : sameArguments f1.args f2.args with
      | none => exact ⟨hc.crash _, fun h => by cases h⟩
      | some b =>
        cases b with
        | false => exact ⟨hc, fun _ => .args hm (Or.inr hsa)⟩
        | true => exact htail

theorem step_cb (fuel : Nat) (hf : SFind s fx d fuel) : SCb s fx d (fuel + 1) := by
  intro me fm1 fm2 c hc h1 h2
  simp only [conflictsBetween]
  refine sumLoop_spec' fm1 _ (CI s d)
    (fun q => ∃ e1 e2, e1 ∈ q.2 ∧ Has fm2 q.1 e2 ∧ Conf s d me e1 e2) _ (fun q hq c hc => ?_)
    (fun q hq hQ => by
      obtain ⟨e1, e2, a1, a2, a3⟩ := hQ
      exact ⟨q.1, e1, e2, ⟨q.2, hq, a1⟩, a2, a3⟩) c hc
  obtain ⟨rn, fields1⟩ := q
  simp only
  cases hg : AL.get? fm2 rn with
  | none => exact ⟨hc, fun h => by cases h⟩
  | some fields2 =>
    simp only
    refine sumLoop_spec' fields1 _ (CI s d) (fun f1 => ∃ e2, e2 ∈ fields2 ∧ Conf s d me f1 e2) _
      (fun f1 hf1 c hc => ?_)
      (fun f1 hf1 hQ => by
        obtain ⟨e2, b1, b2⟩ := hQ
        exact ⟨f1, e2, hf1, ⟨fields2, AL.mem_of_get? hg, b1⟩, b2⟩) c hc
    refine sumLoop_spec' fields2 _ (CI s d) (fun f2 => Conf s d me f1 f2) _ (fun f2 hf2 c hc => ?_)
      (fun f2 hf2 hQ => ⟨f2, hf2, hQ⟩) c hc
    obtain ⟨r1, r2⟩ := hf me f1 f2 c hc (h1 _ hq f1 hf1) (h2 _ (AL.mem_of_get? hg) f2 hf2)
    refine ⟨r1, fun h => r2 ?_⟩
    cases hb : (findConflict s fx fuel me f1 f2 c).1 with
    | true => rfl
    | false => rw [hb] at h; simp at h

end
end PyGql.Validate

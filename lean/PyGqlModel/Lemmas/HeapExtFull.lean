/-
  C14 — `extend_schema`, per-schema composition: the rebuilt members (fields, arguments, input fields) of every
  registered type, in order, in the FINAL heap.
-/
import PyGqlModel.Lemmas.HeapExtMembers
import PyGqlModel.Lemmas.HeapCloneClosed

set_option linter.unusedSimpArgs false
set_option linter.unusedVariables false
set_option linter.unnecessarySimpa false

namespace PyGql.Heap.Own
open PyGql.Heap

/-- element-wise relation of two lists of the same length (order kept) -/
inductive All2 {α β : Type} (R : α → β → Prop) : List α → List β → Prop
  | nil : All2 R [] []
  | cons {a : α} {b : β} {as : List α} {bs : List β} : R a b → All2 R as bs → All2 R (a :: as) (b :: bs)

theorem All2.imp {α β : Type} {R S : α → β → Prop} (hrs : ∀ a b, R a b → S a b) {l1 : List α} {l2 : List β} (h : All2 R l1 l2) : All2 S l1 l2 := by
  induction h with
  | nil => exact All2.nil
  | cons hd _ ih => exact All2.cons (hrs _ _ hd) ih

theorem All2.length_eq {α β : Type} {R : α → β → Prop} {l1 : List α} {l2 : List β} (h : All2 R l1 l2) : l1.length = l2.length := by
  induction h with
  | nil => rfl
  | cons _ _ ih => simp [ih]

/-- argument `c` of the result is the rebuilt copy of argument `a` of the source -/
def ArgRel (k : Bool) (N : List (String × Addr)) (h0 hout : Heap) (a c : Addr) : Prop :=
  ∃ g g', h0.readArg a = some g ∧ hout.readArg c = some g' ∧ ArgKept k N g g'

/-- field `c` of the result is the rebuilt copy of field `a` of the source, argument by argument -/
def FieldRel (cfg : Cfg) (N : List (String × Addr)) (h0 hout : Heap) (a c : Addr) : Prop :=
  ∃ f f', h0.readField a = some f ∧ hout.readField c = some f' ∧ FieldKept cfg N f f' ∧
    All2 (ArgRel cfg.extArgPy N h0 hout) f.args f'.args

/-- addresses in `[lo, size)` of `h` read the same in `h'` -/
def KeepsFrom (lo : Nat) (h h' : Heap) : Prop := h.size ≤ h'.size ∧ ∀ c, lo ≤ c → c < h.size → h'.read c = h.read c

theorem KeepsFrom.refl (lo : Nat) (h : Heap) : KeepsFrom lo h h := ⟨Nat.le_refl _, fun _ _ _ => rfl⟩
theorem KeepsFrom.trans {lo : Nat} {h1 h2 h3 : Heap} (a : KeepsFrom lo h1 h2) (b : KeepsFrom lo h2 h3) : KeepsFrom lo h1 h3 :=
  ⟨Nat.le_trans a.1 b.1, fun c hl hc => by rw [b.2 c hl (Nat.lt_of_lt_of_le hc a.1), a.2 c hl hc]⟩
theorem keepsFrom_of_frameX {lo : Nat} {h h' : Heap} (f : FrameX (fun x => x < lo) h h') : KeepsFrom lo h h' :=
  ⟨f.1, fun c hl hc => f.2 c hc (Nat.not_lt.mpr hl)⟩
theorem keepsFrom_alloc (lo : Nat) (h : Heap) (o : Obj) : KeepsFrom lo h (h.alloc o).1 :=
  keepsFrom_of_frameX (allocX _ h o)

theorem ArgRel.keep {k : Bool} {N : List (String × Addr)} {h0 h1 h2 : Heap} {lo : Nat} (kf : KeepsFrom lo h1 h2) {a c : Addr}
    (hc : lo ≤ c) (r : ArgRel k N h0 h1 a c) : ArgRel k N h0 h2 a c := by
  obtain ⟨g, g', h1r, h2r, hk⟩ := r
  refine ⟨g, g', h1r, ?_, hk⟩
  simp only [Heap.readArg, kf.2 c hc (read_lt h1 c _ (readArg_read h2r)), readArg_read h2r]

/-- members with the address bounds that make them stable -/
def ArgRelB (k : Bool) (N : List (String × Addr)) (h0 hout : Heap) (lo : Nat) (a c : Addr) : Prop := lo ≤ c ∧ ArgRel k N h0 hout a c

theorem forall2_argRel_keep {k : Bool} {N : List (String × Addr)} {h0 h1 h2 : Heap} {lo : Nat} (kf : KeepsFrom lo h1 h2) :
    ∀ {as cs : List Addr}, All2 (ArgRelB k N h0 h1 lo) as cs → All2 (ArgRelB k N h0 h2 lo) as cs := by
  intro as cs hf
  induction hf with
  | nil => exact All2.nil
  | cons hd _ ih => exact All2.cons ⟨hd.1, hd.2.keep kf hd.1⟩ ih

/-- `_extend_argument` over a list of existing arguments: one rebuilt copy per argument, in order, all fresh -/
theorem extendArgs_forall2 (k : Bool) (N : List (String × Addr)) : ∀ (as : List Addr) (h0 h : Heap),
    FrameX (fun x => h0.size ≤ x) h0 h → (∀ a, a ∈ as → ∃ g, h0.readArg a = some g) →
    All2 (ArgRelB k N h0 (extendArgs k N h as).1 h.size) as (extendArgs k N h as).2 := by
  intro as
  induction as with
  | nil => intro h0 h _ _; simp only [extendArgs]; exact All2.nil
  | cons a as ih =>
    intro h0 h fr hex
    obtain ⟨g, hg0⟩ := hex a (by simp)
    have hlt : a < h0.size := read_lt h0 a _ (readArg_read hg0)
    have hg : h.readArg a = some g := by
      simp only [Heap.readArg, fr.2 a hlt (Nat.not_le.mpr hlt), readArg_read hg0]
    simp only [extendArgs, hg]
    have hlater := keepsFrom_of_frameX (lo := h.size) ((extendArgsX (fun x => x < h.size) k N as
      (h.alloc (.arg { g with ty := repoint N g.ty, py := if k then g.py else g.name })).1))
    refine All2.cons ⟨Nat.le_refl _, ?_⟩ ?_
    · refine ArgRel.keep hlater (Nat.le_refl _) ⟨g, { g with ty := repoint N g.ty, py := if k then g.py else g.name }, hg0, ?_,
        ⟨rfl, rfl, rfl, rfl, rfl⟩⟩
      simp [Heap.readArg, alloc_addr, read_alloc_new]
    · have := ih h0 (h.alloc (.arg { g with ty := repoint N g.ty, py := if k then g.py else g.name })).1 (fr.trans (allocX _ h _)) (fun x hx => hex x (by simp [hx]))
      refine All2.imp ?_ this
      intro x y hxy
      rw [size_alloc] at hxy
      exact ⟨Nat.le_of_succ_le hxy.1, hxy.2⟩

theorem forall2_mem_right {α β : Type} {R : α → β → Prop} {l1 : List α} {l2 : List β} (h : All2 R l1 l2) :
    ∀ y, y ∈ l2 → ∃ x, x ∈ l1 ∧ R x y := by
  induction h with
  | nil => intro y hy; simp at hy
  | cons hd _ ih =>
    intro y hy
    simp only [List.mem_cons] at hy
    rcases hy with rfl | hy
    · exact ⟨_, by simp, hd⟩
    · obtain ⟨x, hx, r⟩ := ih y hy
      exact ⟨x, by simp [hx], r⟩

def FieldRelB (cfg : Cfg) (N : List (String × Addr)) (h0 hout : Heap) (lo : Nat) (a c : Addr) : Prop :=
  lo ≤ c ∧ ∃ f f', h0.readField a = some f ∧ hout.readField c = some f' ∧ FieldKept cfg N f f' ∧
    All2 (ArgRelB cfg.extArgPy N h0 hout lo) f.args f'.args

theorem FieldRelB.keep {cfg : Cfg} {N : List (String × Addr)} {h0 h1 h2 : Heap} {lo : Nat} (kf : KeepsFrom lo h1 h2) {a c : Addr}
    (r : FieldRelB cfg N h0 h1 lo a c) : FieldRelB cfg N h0 h2 lo a c := by
  obtain ⟨hc, f, f', h1r, h2r, hk, hargs⟩ := r
  refine ⟨hc, f, f', h1r, ?_, hk, forall2_argRel_keep kf hargs⟩
  simp only [Heap.readField, kf.2 c hc (read_lt h1 c _ (readField_read h2r)), readField_read h2r]

theorem forall2_fieldRel_keep {cfg : Cfg} {N : List (String × Addr)} {h0 h1 h2 : Heap} {lo : Nat} (kf : KeepsFrom lo h1 h2) :
    ∀ {as cs : List Addr}, All2 (FieldRelB cfg N h0 h1 lo) as cs → All2 (FieldRelB cfg N h0 h2 lo) as cs := by
  intro as cs hf
  induction hf with
  | nil => exact All2.nil
  | cons hd _ ih => exact All2.cons (hd.keep kf) ih

/-- `_extend_field` over the fields of a type: one rebuilt copy per field, in order, all fresh, argument by argument -/
theorem extendFields_forall2 (cfg : Cfg) (N : List (String × Addr)) : ∀ (as : List Addr) (h0 h : Heap),
    FrameX (fun x => h0.size ≤ x) h0 h →
    (∀ a, a ∈ as → ∃ f, h0.readField a = some f ∧ ∀ x, x ∈ f.args → ∃ g, h0.readArg x = some g) →
    All2 (FieldRelB cfg N h0 (extendFields cfg N h as).1 h.size) as (extendFields cfg N h as).2 := by
  intro as
  induction as with
  | nil => intro h0 h _ _; simp only [extendFields]; exact All2.nil
  | cons a as ih =>
    intro h0 h fr hex
    obtain ⟨f, hf0, hargs⟩ := hex a (by simp)
    have hlt : a < h0.size := read_lt h0 a _ (readField_read hf0)
    have hf : h.readField a = some f := by
      simp only [Heap.readField, fr.2 a hlt (Nat.not_le.mpr hlt), readField_read hf0]
    simp only [extendFields, hf]
    have hA := extendArgs_forall2 cfg.extArgPy N f.args h0 h fr hargs
    have kA : KeepsFrom h.size h (extendArgs cfg.extArgPy N h f.args).1 := keepsFrom_of_frameX (extendArgsX _ _ N f.args h)
    have k1 : KeepsFrom h.size (extendArgs cfg.extArgPy N h f.args).1
        ((extendArgs cfg.extArgPy N h f.args).1.alloc (.field { f with ty := repoint N f.ty, args := (extendArgs cfg.extArgPy N h f.args).2, sub := if cfg.extFieldSub then f.sub else none, py := if cfg.extFieldPy then f.py else f.name })).1 :=
      keepsFrom_alloc _ _ _
    have k2 : KeepsFrom h.size ((extendArgs cfg.extArgPy N h f.args).1.alloc (.field { f with ty := repoint N f.ty, args := (extendArgs cfg.extArgPy N h f.args).2, sub := if cfg.extFieldSub then f.sub else none, py := if cfg.extFieldPy then f.py else f.name })).1
        (extendFields cfg N ((extendArgs cfg.extArgPy N h f.args).1.alloc (.field { f with ty := repoint N f.ty, args := (extendArgs cfg.extArgPy N h f.args).2, sub := if cfg.extFieldSub then f.sub else none, py := if cfg.extFieldPy then f.py else f.name })).1 as).1 :=
      keepsFrom_of_frameX (extendFieldsX _ cfg N as _)
    refine All2.cons ?_ ?_
    · apply FieldRelB.keep k2
      refine ⟨?_, f, { f with ty := repoint N f.ty, args := (extendArgs cfg.extArgPy N h f.args).2, sub := if cfg.extFieldSub then f.sub else none, py := if cfg.extFieldPy then f.py else f.name }, hf0, ?_,
        ⟨rfl, rfl, rfl, rfl, rfl, rfl, rfl⟩, forall2_argRel_keep k1 hA⟩
      · rw [alloc_addr]; exact kA.1
      · simp [Heap.readField, alloc_addr, read_alloc_new]
    · have := ih h0 ((extendArgs cfg.extArgPy N h f.args).1.alloc (.field { f with ty := repoint N f.ty, args := (extendArgs cfg.extArgPy N h f.args).2, sub := if cfg.extFieldSub then f.sub else none, py := if cfg.extFieldPy then f.py else f.name })).1 ((fr.trans (extendArgsX _ _ N f.args h)).trans (allocX _ _ _)) (fun x hx => hex x (by simp [hx]))
      refine All2.imp ?_ this
      intro x y hxy
      have hle : h.size ≤ ((extendArgs cfg.extArgPy N h f.args).1.alloc (.field { f with ty := repoint N f.ty, args := (extendArgs cfg.extArgPy N h f.args).2, sub := if cfg.extFieldSub then f.sub else none, py := if cfg.extFieldPy then f.py else f.name })).1.size :=
        Nat.le_trans kA.1 k1.1
      obtain ⟨hc, f1, f1', r1, r2, r3, r4⟩ := hxy
      refine ⟨Nat.le_trans hle hc, f1, f1', r1, r2, r3, All2.imp (fun _ _ hab => ⟨Nat.le_trans hle hab.1, hab.2⟩) r4⟩


/-! ### the members of one type -/

/-- the rebuilt members `kept` of a type, by kind, element by element -/
def MembersRel (cfg : Cfg) (N : List (String × Addr)) (h0 hout : Heap) (lo : Nat) (t : TypeO) (kept : List Addr) : Prop :=
  match t.kind with
  | .input => All2 (ArgRelB cfg.extInputPy N h0 hout lo) t.fields kept
  | .object | .interface => All2 (FieldRelB cfg N h0 hout lo) t.fields kept
  | _ => kept = []

/-- the members of `t` exist in `h0` (what `wfB` says about a registered type) -/
def MembersReadable (h0 : Heap) (t : TypeO) : Prop :=
  match t.kind with
  | .input => ∀ a, a ∈ t.fields → ∃ g, h0.readArg a = some g
  | .object | .interface => ∀ a, a ∈ t.fields → ∃ f, h0.readField a = some f ∧ ∀ x, x ∈ f.args → ∃ g, h0.readArg x = some g
  | _ => True

theorem membersReadable_of_shape (chk : Ref → Bool) (h0 : Heap) (a : Addr) (t : TypeO) (ht : h0.readType a = some t)
    (hs : typeShape chk h0 a = true) : MembersReadable h0 t := by
  rw [typeShape_eq chk h0 a t ht, Bool.and_eq_true] at hs
  have hm := hs.2
  simp only [MembersReadable, typeMembersOK] at hm ⊢
  cases hk : t.kind <;> simp only [hk, List.all_eq_true] at hm ⊢
  · intro x hx
    obtain ⟨f, hf, _, hargs⟩ := (fieldShape_iff chk h0 x).mp (hm x hx)
    exact ⟨f, hf, fun y hy => by obtain ⟨g, hg, _⟩ := (argShape_iff chk h0 y).mp (hargs y hy); exact ⟨g, hg⟩⟩
  · intro x hx
    obtain ⟨f, hf, _, hargs⟩ := (fieldShape_iff chk h0 x).mp (hm x hx)
    exact ⟨f, hf, fun y hy => by obtain ⟨g, hg, _⟩ := (argShape_iff chk h0 y).mp (hargs y hy); exact ⟨g, hg⟩⟩
  · intro x hx
    obtain ⟨g, hg, _⟩ := (argShape_iff chk h0 x).mp (hm x hx)
    exact ⟨g, hg⟩

theorem MembersRel.keep {cfg : Cfg} {N : List (String × Addr)} {h0 h1 h2 : Heap} {lo : Nat} (kf : KeepsFrom lo h1 h2) {t : TypeO}
    {kept : List Addr} (r : MembersRel cfg N h0 h1 lo t kept) : MembersRel cfg N h0 h2 lo t kept := by
  simp only [MembersRel] at r ⊢
  cases hk : t.kind <;> simp only [hk] at r ⊢
  · exact forall2_fieldRel_keep kf r
  · exact forall2_fieldRel_keep kf r
  · exact r
  · exact r
  · exact forall2_argRel_keep kf r
  · exact r

theorem keepsFrom_mono {lo lo' : Nat} {h h' : Heap} (hl : lo ≤ lo') (k : KeepsFrom lo h h') : KeepsFrom lo' h h' :=
  ⟨k.1, fun c hc hs => k.2 c (Nat.le_trans hl hc) hs⟩

theorem MembersRel.weaken {cfg : Cfg} {N : List (String × Addr)} {h0 h1 : Heap} {lo lo' : Nat} (hl : lo' ≤ lo) {t : TypeO}
    {kept : List Addr} (r : MembersRel cfg N h0 h1 lo t kept) : MembersRel cfg N h0 h1 lo' t kept := by
  simp only [MembersRel] at r ⊢
  cases hk : t.kind <;> simp only [hk] at r ⊢
  · exact r.imp fun a b ⟨hc, f, f', r1, r2, r3, r4⟩ => ⟨Nat.le_trans hl hc, f, f', r1, r2, r3, r4.imp fun _ _ hab => ⟨Nat.le_trans hl hab.1, hab.2⟩⟩
  · exact r.imp fun a b ⟨hc, f, f', r1, r2, r3, r4⟩ => ⟨Nat.le_trans hl hc, f, f', r1, r2, r3, r4.imp fun _ _ hab => ⟨Nat.le_trans hl hab.1, hab.2⟩⟩
  · exact r
  · exact r
  · exact r.imp fun _ _ hab => ⟨Nat.le_trans hl hab.1, hab.2⟩
  · exact r

/-- the member list `_extend_*_type` passes to the constructor: the rebuilt old members, in order, then the added ones -/
theorem extendKids_spec (cfg : Cfg) (ext : Ext) (N Nin : List (String × Addr)) (h0 h : Heap) (t : TypeO)
    (fr : FrameX (fun x => h0.size ≤ x) h0 h) (hread : MembersReadable h0 t) :
    ∃ kept added, (extendKids cfg ext N Nin h t).2 = kept ++ added ∧
      MembersRel cfg N h0 (extendKids cfg ext N Nin h t).1 h.size t kept ∧
      (assocD ext.fields t.name = [] → assocD ext.inputFields t.name = [] → added = []) := by
  simp only [extendKids, MembersRel, MembersReadable] at hread ⊢
  cases hk : t.kind <;> simp only [hk] at hread ⊢
  · refine ⟨(extendFields cfg N h t.fields).2, _, rfl, ?_, ?_⟩
    · exact forall2_fieldRel_keep (keepsFrom_of_frameX (buildFieldsX _ N _ _)) (extendFields_forall2 cfg N t.fields h0 h fr hread)
    · intro h1 _; simp [h1, buildFields]
  · refine ⟨(extendFields cfg N h t.fields).2, _, rfl, ?_, ?_⟩
    · exact forall2_fieldRel_keep (keepsFrom_of_frameX (buildFieldsX _ N _ _)) (extendFields_forall2 cfg N t.fields h0 h fr hread)
    · intro h1 _; simp [h1, buildFields]
  · exact ⟨[], [], rfl, rfl, fun _ _ => rfl⟩
  · exact ⟨[], [], rfl, rfl, fun _ _ => rfl⟩
  · refine ⟨(extendArgs cfg.extInputPy N h t.fields).2, _, rfl, ?_, ?_⟩
    · exact forall2_argRel_keep (keepsFrom_of_frameX (buildArgsX _ Nin _ _)) (extendArgs_forall2 cfg.extInputPy N t.fields h0 h fr hread)
    · intro _ h2; simp [h2, buildArgs]
  · exact ⟨[], [], rfl, rfl, fun _ _ => rfl⟩


/-! ### through `extendAll` -/

theorem extendAll_spec2 (cfg : Cfg) (ext : Ext) (N Nin P : List (String × Addr)) (hr : Heap) (psize : Nat)
    (hP : ∀ n x, lookup P n = some x → hr.size ≤ x ∧ x < psize)
    (hinj : ∀ n n' x, lookup P n = some x → lookup P n' = some x → n = n') :
    ∀ (l : List (String × Addr)) (h : Heap), psize ≤ h.size → FrameX (fun x => hr.size ≤ x) hr h → (l.map (·.1)).Nodup →
      ∀ n a t na, (n, a) ∈ l → isProtected n = false → hr.readType a = some t → lookup P n = some na →
        ∃ hk, psize ≤ hk.size ∧ FrameX (fun x => hr.size ≤ x) hr hk ∧
          (extendAll cfg ext N Nin P hr h l).readType na = some (rebuiltType cfg ext N t (extendKids cfg ext N Nin hk t).2) ∧
          KeepsFrom psize (extendKids cfg ext N Nin hk t).1 (extendAll cfg ext N Nin P hr h l) := by
  intro l
  induction l with
  | nil => intro h _ _ _ n a t na hm; simp at hm
  | cons e rest ih =>
    intro h hsz fr hnd n a t na hm hnp ht hl
    obtain ⟨n0, a0⟩ := e
    simp only [List.map_cons, List.nodup_cons] at hnd
    obtain ⟨hn0, hndr⟩ := hnd
    simp only [List.mem_cons, Prod.mk.injEq] at hm
    by_cases hp : isProtected n0 = true
    · simp only [extendAll, hp, if_true]
      rcases hm with ⟨rfl, rfl⟩ | hm
      · simp [hnp] at hp
      · exact ih h hsz fr hndr n a t na hm hnp ht hl
    · have hp' : isProtected n0 = false := by simpa using hp
      cases ht0 : hr.readType a0 with
      | none =>
        simp only [extendAll, hp', Bool.false_eq_true, if_false, ht0]
        rcases hm with ⟨rfl, rfl⟩ | hm
        · rw [ht0] at ht; cases ht
        · exact ih h hsz fr hndr n a t na hm hnp ht hl
      | some t0 =>
        cases hl0 : lookup P n0 with
        | none =>
          simp only [extendAll, hp', Bool.false_eq_true, if_false, ht0, hl0]
          rcases hm with ⟨rfl, rfl⟩ | hm
          · rw [hl0] at hl; cases hl
          · exact ih h hsz fr hndr n a t na hm hnp ht hl
        | some na0 =>
          simp only [extendAll, hp', Bool.false_eq_true, if_false, ht0, hl0]
          have hna0 := hP n0 na0 hl0
          have kx := extendKidsX (fun x => hr.size ≤ x) cfg ext N Nin h t0
          have kx2 := extendKidsX (fun x => x < psize) cfg ext N Nin h t0
          have hsz1 : psize ≤ (extendOne cfg ext N Nin h t0 na0).size := by
            simp only [extendOne, size_write]; exact Nat.le_trans hsz kx.1
          have fr1 : FrameX (fun x => hr.size ≤ x) hr (extendOne cfg ext N Nin h t0 na0) := by
            simp only [extendOne]
            exact (fr.trans kx).trans (writeX _ _ na0 _ hna0.1)
          rcases hm with ⟨rfl, rfl⟩ | hm
          · rw [ht0] at ht; cases ht
            rw [hl0] at hl; cases hl
            have hb' : ∀ n x, lookup P n = some x → x < (extendOne cfg ext N Nin h t na).size :=
              fun n x hx => Nat.lt_of_lt_of_le (hP n x hx).2 hsz1
            have frest := (extendAll_spec cfg ext N Nin P hr hinj rest (extendOne cfg ext N Nin h t na) hb' hndr).1
            have hnotin : ¬ ∃ e, e ∈ rest ∧ lookup P e.1 = some na := by
              rintro ⟨e, he, hx⟩
              exact hn0 (List.mem_map.mpr ⟨e, he, hinj e.1 _ _ hx hl0⟩)
            refine ⟨h, hsz, fr, ?_, ?_⟩
            · rw [readType_frameX frest (Nat.lt_of_lt_of_le hna0.2 hsz1) hnotin]
              simp only [extendOne, Heap.readType, read_write_same _ na _ (Nat.lt_of_lt_of_le hna0.2 (Nat.le_trans hsz kx.1))]
            · refine KeepsFrom.trans ?_ (keepsFrom_of_frameX (frest.mono (fun x ⟨e, _, hx⟩ => (hP e.1 x hx).2)))
              simp only [extendOne]
              exact keepsFrom_of_frameX (writeX _ _ na _ hna0.2)
          · exact ih _ hsz1 fr1 hndr n a t na hm hnp ht hl


/-- what is left of `extend_schema` after `extendAll`: all writes go to placeholders -/
theorem extend_tail_keeps (cfg : Cfg) (N P : List (String × Addr)) (h1 : Heap) (s : Schema) (ext : Ext) (psize : Nat)
    (hP : ∀ n x, lookup P n = some x → x < psize) :
    KeepsFrom psize h1 (buildNewDirs cfg N (extendDirs cfg N (buildNewTypes N P h1 ext.newTypes) s.dirs).1 ext.newDirs).1 := by
  have f2 := (buildNewTypesX N P ext.newTypes h1).mono (W' := fun x => x < psize) (fun x ⟨e, _, hx⟩ => hP e.1 x hx)
  have f3 := extendDirsX (fun x => x < psize) cfg N s.dirs (buildNewTypes N P h1 ext.newTypes)
  have f4 := buildNewDirsX (fun x => x < psize) cfg N ext.newDirs (extendDirs cfg N (buildNewTypes N P h1 ext.newTypes) s.dirs).1
  exact keepsFrom_of_frameX ((f2.trans f3).trans f4)

/-- PER-SCHEMA composition for one registered type: the object `extend_schema` registers under the name keeps the type-level
    attributes (`TypeKept`) AND its member list is the rebuilt copies of ALL old members, in order (`MembersRel`: attributes of
    every field, argument, input field kept as far as the constructors pass them on; every copy is a fresh object), followed by
    the members the extension adds — none if the extension does not name the type -/
theorem extend_type_full (cfg : Cfg) (hk : cfg.extKeepAll = true) (ext : Ext) (s : Schema) (h : Heap)
    (hnd : (s.types.map (·.1)).Nodup) (hnew : ∀ e, e ∈ ext.newTypes → e.1 ∉ s.types.map (·.1))
    (n : String) (a : Addr) (t : TypeO) (hm : (n, a) ∈ s.types) (hp : isProtected n = false) (ht : h.readType a = some t)
    (hread : MembersReadable h t) :
    ∃ N a' t' kept added, lookup (extend cfg ext s h).2.types n = some a' ∧ (extend cfg ext s h).1.readType a' = some t' ∧
      TypeKept cfg t t' ∧ t'.fields = kept ++ added ∧ MembersRel cfg N h (extend cfg ext s h).1 h.size t kept ∧
      (assocD ext.fields t.name = [] → assocD ext.inputFields t.name = [] → added = []) := by
  have hsrc : n ∈ (s.types.filter fun e => !isProtected e.1).map (·.1) :=
    List.mem_map.mpr ⟨(n, a), List.mem_filter.mpr ⟨hm, by simp [hp]⟩, rfl⟩
  obtain ⟨na, hna⟩ := allocPlaceholders_some ((s.types.filter fun e => !isProtected e.1).map (·.1) ++ ext.newTypes.map (·.1)) h n
    (List.mem_append.mpr (Or.inl hsrc))
  have hinj := allocPlaceholders_inj ((s.types.filter fun e => !isProtected e.1).map (·.1) ++ ext.newTypes.map (·.1)) h
  have hb := fun n x hx => allocPlaceholders_lookup ((s.types.filter fun e => !isProtected e.1).map (·.1) ++ ext.newTypes.map (·.1)) h n x hx
  have hfr0 := allocPlaceholdersX (fun x => h.size ≤ x) ((s.types.filter fun e => !isProtected e.1).map (·.1) ++ ext.newTypes.map (·.1)) h
  simp only [extend, hk, if_true]
  generalize hP : allocPlaceholders h ((s.types.filter fun e => !isProtected e.1).map (·.1) ++ ext.newTypes.map (·.1)) = p at hna hinj hb hfr0
  obtain ⟨hkk, hszk, frk, hrk, kfk⟩ := extendAll_spec2 cfg ext ((s.types.filter fun e => isProtected e.1) ++ p.2)
    (if cfg.extInputFieldExtended then (s.types.filter fun e => isProtected e.1) ++ p.2 else s.types ++ ((s.types.filter fun e => isProtected e.1) ++ p.2))
    p.2 h p.1.size hb hinj s.types p.1 (Nat.le_refl _) hfr0 hnd n a t na hm hp ht hna
  obtain ⟨kept, added, hfs, hrel, hadd⟩ := extendKids_spec cfg ext ((s.types.filter fun e => isProtected e.1) ++ p.2)
    (if cfg.extInputFieldExtended then (s.types.filter fun e => isProtected e.1) ++ p.2 else s.types ++ ((s.types.filter fun e => isProtected e.1) ++ p.2))
    h hkk t frk hread
  have ktail := extend_tail_keeps cfg ((s.types.filter fun e => isProtected e.1) ++ p.2) p.2
    (extendAll cfg ext ((s.types.filter fun e => isProtected e.1) ++ p.2)
      (if cfg.extInputFieldExtended then (s.types.filter fun e => isProtected e.1) ++ p.2 else s.types ++ ((s.types.filter fun e => isProtected e.1) ++ p.2))
      p.2 h p.1 s.types) s ext p.1.size (fun n x hx => (hb n x hx).2)
  refine ⟨(s.types.filter fun e => isProtected e.1) ++ p.2, na,
    rebuiltType cfg ext ((s.types.filter fun e => isProtected e.1) ++ p.2) t (extendKids cfg ext ((s.types.filter fun e => isProtected e.1) ++ p.2) (if cfg.extInputFieldExtended then (s.types.filter fun e => isProtected e.1) ++ p.2 else s.types ++ ((s.types.filter fun e => isProtected e.1) ++ p.2)) hkk t).2,
    kept, added, ?_, ?_, rebuilt_kept cfg ext _ t _, hfs, ?_, hadd⟩
  · rw [lookup_append_right]
    · exact hna
    · intro e he
      have hpe := (List.mem_filter.mp he).2
      cases hq : (e.1 == n) with
      | false => rfl
      | true =>
        simp only [beq_iff_eq] at hq
        rw [hq, hp] at hpe
        cases hpe
  · apply (extend_tail cfg _ p.2 _ s ext na (Nat.lt_of_lt_of_le (hb n na hna).2 (Nat.le_trans hszk (Nat.le_trans (extendKidsX (fun _ => False) cfg ext _ _ hkk t).1 kfk.1))) ?_).trans hrk
    rintro ⟨e, he, hx⟩
    have := hinj e.1 n na hx hna
    exact hnew e he (this ▸ List.mem_map.mpr ⟨(n, a), hm, rfl⟩)
  · have hlo : h.size ≤ hkk.size := Nat.le_trans hfr0.1 hszk
    exact ((hrel.keep (keepsFrom_mono hszk (kfk.trans ktail)))).weaken hlo


/-! ### directives -/

/-- directive entry `e'` of the result is the rebuilt copy of directive entry `e` of the source -/
def DirRelB (cfg : Cfg) (N : List (String × Addr)) (h0 hout : Heap) (lo : Nat) (e e' : String × Addr) : Prop :=
  e'.1 = e.1 ∧ lo ≤ e'.2 ∧ ∃ d d', h0.readDir e.2 = some d ∧ hout.readDir e'.2 = some d' ∧
    d'.name = d.name ∧ d'.locs = d.locs ∧ d'.desc = d.desc ∧ All2 (ArgRelB cfg.extArgPy N h0 hout lo) d.args d'.args

theorem DirRelB.keep {cfg : Cfg} {N : List (String × Addr)} {h0 h1 h2 : Heap} {lo : Nat} (kf : KeepsFrom lo h1 h2) {e e' : String × Addr}
    (r : DirRelB cfg N h0 h1 lo e e') : DirRelB cfg N h0 h2 lo e e' := by
  obtain ⟨hn, hc, d, d', h1r, h2r, r1, r2, r3, hargs⟩ := r
  refine ⟨hn, hc, d, d', h1r, ?_, r1, r2, r3, forall2_argRel_keep kf hargs⟩
  simp only [Heap.readDir, kf.2 e'.2 hc (read_lt h1 e'.2 _ (readDir_read h2r)), readDir_read h2r]

theorem extendDirs_forall2 (cfg : Cfg) (N : List (String × Addr)) : ∀ (l : List (String × Addr)) (h0 h : Heap),
    FrameX (fun x => h0.size ≤ x) h0 h →
    (∀ e, e ∈ l → ∃ d, h0.readDir e.2 = some d ∧ ∀ x, x ∈ d.args → ∃ g, h0.readArg x = some g) →
    All2 (DirRelB cfg N h0 (extendDirs cfg N h l).1 h.size) l (extendDirs cfg N h l).2 := by
  intro l
  induction l with
  | nil => intro h0 h _ _; simp only [extendDirs]; exact All2.nil
  | cons e rest ih =>
    intro h0 h fr hex
    obtain ⟨n, a⟩ := e
    obtain ⟨d, hd0, hargs⟩ := hex (n, a) (by simp)
    have hlt : a < h0.size := read_lt h0 a _ (readDir_read hd0)
    have hd : h.readDir a = some d := by
      simp only [Heap.readDir, fr.2 a hlt (Nat.not_le.mpr hlt), readDir_read hd0]
    simp only [extendDirs, hd]
    have hA := extendArgs_forall2 cfg.extArgPy N d.args h0 h fr hargs
    have kA : KeepsFrom h.size h (extendArgs cfg.extArgPy N h d.args).1 := keepsFrom_of_frameX (extendArgsX _ _ N d.args h)
    have k1 : KeepsFrom h.size (extendArgs cfg.extArgPy N h d.args).1
        ((extendArgs cfg.extArgPy N h d.args).1.alloc (.dir { d with args := (extendArgs cfg.extArgPy N h d.args).2 })).1 := keepsFrom_alloc _ _ _
    have k2 : KeepsFrom h.size ((extendArgs cfg.extArgPy N h d.args).1.alloc (.dir { d with args := (extendArgs cfg.extArgPy N h d.args).2 })).1
        (extendDirs cfg N ((extendArgs cfg.extArgPy N h d.args).1.alloc (.dir { d with args := (extendArgs cfg.extArgPy N h d.args).2 })).1 rest).1 :=
      keepsFrom_of_frameX (extendDirsX _ cfg N rest _)
    refine All2.cons ?_ ?_
    · apply DirRelB.keep k2
      refine ⟨rfl, ?_, d, { d with args := (extendArgs cfg.extArgPy N h d.args).2 }, hd0, ?_, rfl, rfl, rfl, forall2_argRel_keep k1 hA⟩
      · exact kA.1
      · simp [Heap.readDir, alloc_addr, read_alloc_new]
    · have := ih h0 ((extendArgs cfg.extArgPy N h d.args).1.alloc (.dir { d with args := (extendArgs cfg.extArgPy N h d.args).2 })).1
        ((fr.trans (extendArgsX _ _ N d.args h)).trans (allocX _ _ _)) (fun x hx => hex x (by simp [hx]))
      refine All2.imp ?_ this
      intro x y hxy
      have hle : h.size ≤ ((extendArgs cfg.extArgPy N h d.args).1.alloc (.dir { d with args := (extendArgs cfg.extArgPy N h d.args).2 })).1.size :=
        Nat.le_trans kA.1 k1.1
      obtain ⟨hn, hc, d1, d1', r1, r2, r3, r4, r5, r6⟩ := hxy
      exact ⟨hn, Nat.le_trans hle hc, d1, d1', r1, r2, r3, r4, r5, r6.imp fun _ _ hab => ⟨Nat.le_trans hle hab.1, hab.2⟩⟩

/-- entries related name by name: the lookup of a source name finds the related entry -/
theorem all2_lookup {R : String × Addr → String × Addr → Prop} (hR : ∀ e e', R e e' → e'.1 = e.1) :
    ∀ {l l' : List (String × Addr)}, All2 R l l' → (l.map (·.1)).Nodup → ∀ e, e ∈ l → ∃ a', lookup l' e.1 = some a' ∧ R e (e.1, a') := by
  intro l l' hall
  induction hall with
  | nil => intro _ e he; simp at he
  | @cons x y xs ys hxy _ ih =>
    intro hn e he
    simp only [List.map_cons, List.nodup_cons] at hn
    simp only [List.mem_cons] at he
    have hyx := hR x y hxy
    rcases he with rfl | he
    · refine ⟨y.2, ?_, ?_⟩
      · simp [lookup, List.find?_cons, hyx]
      · have : (e.1, y.2) = y := by rw [← hyx]
        rw [this]; exact hxy
    · obtain ⟨a', h1, h2⟩ := ih hn.2 e he
      refine ⟨a', ?_, h2⟩
      have hne : (y.1 == e.1) = false := by
        cases hq : (y.1 == e.1) with
        | false => rfl
        | true =>
          exfalso
          rw [hyx] at hq
          exact hn.1 (List.mem_map.mpr ⟨e, he, (beq_iff_eq.mp hq).symm⟩)
      simp only [lookup, List.find?_cons, hne]
      exact h1

theorem lookup_append_left' {A B : List (String × Addr)} {n : String} {x : Addr} (h : lookup A n = some x) : lookup (A ++ B) n = some x := by
  simp only [lookup, List.find?_append, Option.map_eq_some_iff] at h ⊢
  obtain ⟨e, he, rfl⟩ := h
  exact ⟨e, by simp [he], rfl⟩

theorem DirRelB.weaken {cfg : Cfg} {N : List (String × Addr)} {h0 h1 : Heap} {lo lo' : Nat} (hl : lo' ≤ lo) {e e' : String × Addr}
    (r : DirRelB cfg N h0 h1 lo e e') : DirRelB cfg N h0 h1 lo' e e' := by
  obtain ⟨hn, hc, d, d', r1, r2, r3, r4, r5, r6⟩ := r
  exact ⟨hn, Nat.le_trans hl hc, d, d', r1, r2, r3, r4, r5, r6.imp fun _ _ hab => ⟨Nat.le_trans hl hab.1, hab.2⟩⟩

/-- every registered directive: the result registers a rebuilt copy under the same name, argument by argument -/
theorem extend_dir_full (cfg : Cfg) (ext : Ext) (s : Schema) (h : Heap) (hndT : (s.types.map (·.1)).Nodup) (hnd : (s.dirs.map (·.1)).Nodup)
    (hread : ∀ e, e ∈ s.dirs → ∃ d, h.readDir e.2 = some d ∧ ∀ x, x ∈ d.args → ∃ g, h.readArg x = some g)
    (e : String × Addr) (he : e ∈ s.dirs) :
    ∃ N a', lookup (extend cfg ext s h).2.dirs e.1 = some a' ∧ DirRelB cfg N h (extend cfg ext s h).1 h.size e (e.1, a') := by
  simp only [extend]
  generalize hP : allocPlaceholders h ((s.types.filter fun e => !isProtected e.1).map (·.1) ++ ext.newTypes.map (·.1)) = p
  have hfr0 : FrameX (fun x => h.size ≤ x) h p.1 := by rw [← hP]; exact allocPlaceholdersX _ _ h
  have hb : ∀ n x, lookup p.2 n = some x → h.size ≤ x ∧ x < p.1.size := by
    rw [← hP]; exact fun n x hx => allocPlaceholders_lookup _ h n x hx
  have hinj : ∀ n n' x, lookup p.2 n = some x → lookup p.2 n' = some x → n = n' := by
    rw [← hP]; exact allocPlaceholders_inj _ h
  -- the heap in which the directives are rebuilt: only placeholders (≥ h.size) were written so far
  have f1 := (extendAll_spec cfg ext ((s.types.filter fun e => isProtected e.1) ++ p.2)
    (if cfg.extInputFieldExtended then (s.types.filter fun e => isProtected e.1) ++ p.2 else s.types ++ ((s.types.filter fun e => isProtected e.1) ++ p.2))
    p.2 h hinj s.types p.1 (fun n x hx => (hb n x hx).2) hndT).1
  have f2 := buildNewTypesX ((s.types.filter fun e => isProtected e.1) ++ p.2) p.2 ext.newTypes
    (extendAll cfg ext ((s.types.filter fun e => isProtected e.1) ++ p.2)
      (if cfg.extInputFieldExtended then (s.types.filter fun e => isProtected e.1) ++ p.2 else s.types ++ ((s.types.filter fun e => isProtected e.1) ++ p.2))
      p.2 h p.1 s.types)
  have fr2 := (hfr0.trans (f1.mono (W' := fun x => h.size ≤ x) (fun x ⟨e, _, hx⟩ => (hb e.1 x hx).1))).trans
    (f2.mono (W' := fun x => h.size ≤ x) (fun x ⟨e, _, hx⟩ => (hb e.1 x hx).1))
  have hall := extendDirs_forall2 cfg ((s.types.filter fun e => isProtected e.1) ++ p.2) s.dirs h _ fr2 hread
  have kf := keepsFrom_of_frameX (buildNewDirsX (fun x => x < (buildNewTypes ((s.types.filter fun e => isProtected e.1) ++ p.2) p.2
      (extendAll cfg ext ((s.types.filter fun e => isProtected e.1) ++ p.2)
        (if cfg.extInputFieldExtended then (s.types.filter fun e => isProtected e.1) ++ p.2 else s.types ++ ((s.types.filter fun e => isProtected e.1) ++ p.2))
        p.2 h p.1 s.types) ext.newTypes).size) cfg ((s.types.filter fun e => isProtected e.1) ++ p.2) ext.newDirs
      (extendDirs cfg ((s.types.filter fun e => isProtected e.1) ++ p.2) (buildNewTypes ((s.types.filter fun e => isProtected e.1) ++ p.2) p.2
      (extendAll cfg ext ((s.types.filter fun e => isProtected e.1) ++ p.2)
        (if cfg.extInputFieldExtended then (s.types.filter fun e => isProtected e.1) ++ p.2 else s.types ++ ((s.types.filter fun e => isProtected e.1) ++ p.2))
        p.2 h p.1 s.types) ext.newTypes) s.dirs).1)
  obtain ⟨a', hl, hr⟩ := all2_lookup (fun e e' r => r.1) hall hnd e he
  exact ⟨_, a', lookup_append_left' hl, (hr.keep kf).weaken fr2.1⟩

end PyGql.Heap.Own

/-
  C12 text level, applied schema directives — `print_directives`: the printed applications (`print_ast(directive_node)`,
  the C03 printer) lex to the token classes of the directives of the denoted document.
-/
import PyGqlModel.Lemmas.SdlTextFull
import PyGqlModel.SdlPrintTA
namespace PyGql.SdlText
open PyGql PyGql.Ast PyGql.Sdl PyGql.Spec PyGql.PrintLex PyGql.PrintTokens PyGql.PrintMatch PyGql.PrintString PyGql.SdlPrint PyGql.Parse

theorem okArguments_argOf (ind : Text) : ∀ (as : List (String × Lit)),
    as.all (fun a => nameOK a.1 && litOK a.2) = true → okArguments ind (as.map argOf)
  | [], _ => trivial
  | a :: as, h => by
    simp only [List.all_cons, Bool.and_eq_true] at h
    exact ⟨⟨h.1.1, okValue_valueOf ind a.2 h.1.2⟩, okArguments_argOf ind as h.2⟩

theorem okDirective_dirOf (ind : Text) (d : DirApp) (h : SdlPrintTA.dirAppOK d = true) : okDirective ind (dirOf d) := by
  simp only [SdlPrintTA.dirAppOK, Bool.and_eq_true] at h
  exact ⟨h.1, okArguments_argOf ind d.args h.2⟩

theorem okDirectives_dirOf (ind : Text) : ∀ ds : List DirApp, ds.all SdlPrintTA.dirAppOK = true → okDirectives ind (ds.map dirOf)
  | [], _ => trivial
  | d :: ds, h => by
    simp only [List.all_cons, Bool.and_eq_true] at h
    exact ⟨okDirective_dirOf ind d h.1, okDirectives_dirOf ind ds h.2⟩

theorem endsNW_printDirective (c : Print.Cfg) (d : Directive) (h : okDirective c.indent d) : EndsNW (Print.printDirective c d) := by
  unfold Print.printDirective
  cases ha : d.arguments with
  | nil =>
    have e : Print.printArguments c [] = [] := by simp [Print.printArguments, Print.join, Print.joinSep, Print.wrap]
    rw [e]
    simpa using endsNW_append (a := [64]) (endsNW_name h.1)
  | cons a as =>
    rw [printArguments_eq]
    have := endsNW_snoc (64 :: (d.name.value ++ 40 :: Print.joinSep [44, 32] ((a :: as).map (Print.printArgument c)))) 41 (by decide)
    simpa [List.append_assoc] using this

theorem endsNW_joinSep (sep : Text) : ∀ (xs : List Text), xs ≠ [] → (∀ x ∈ xs, EndsNW x) → EndsNW (Print.joinSep sep xs)
  | [], h, _ => absurd rfl h
  | [x], _, h => by simpa [Print.joinSep] using h x (by simp)
  | x :: y :: ys, _, h => by
    have := endsNW_joinSep sep (y :: ys) (by simp) (fun z hz => h z (by simp [hz]))
    simpa [Print.joinSep, List.append_assoc] using endsNW_append (a := x ++ sep) this

/-- what the layouts need about a printed list of applications: it lexes to the directives' classes, starts with a
    delimiter, and is empty, a lone space (nodes present, none printed — the quirk) or ends with a non-blank -/
structure DirsFacts (txt : Text) (ds : List DirApp) : Prop where
  lay : Lay txt (Item.yieldAll (directivesV (ds.map dirOf)))
  delim : DelimHead txt
  shape : (txt = [] ∧ ds = []) ∨ (txt = [32] ∧ ds = []) ∨ EndsNW txt

theorem dirsFacts (c : SdlPrintTA.OptsA) (apps : Apps) (path : String) (h : SdlPrintTA.appsOKAt c apps path = true) :
    DirsFacts (SdlPrintTA.printDirectives c apps path) (SdlPrintTA.keptAt c apps path) := by
  unfold SdlPrintTA.printDirectives
  by_cases hn : (SdlPrintTA.nodesAt c apps path).isEmpty = true
  · have hk : SdlPrintTA.keptAt c apps path = [] := by
      unfold SdlPrintTA.keptAt; rw [List.isEmpty_iff.1 hn]; rfl
    rw [if_pos hn, hk]
    exact ⟨by simpa [directivesV, Item.yieldAll] using lay_nil, delimHead_nil, Or.inl ⟨rfl, rfl⟩⟩
  · rw [if_neg hn]
    cases hk : SdlPrintTA.keptAt c apps path with
    | nil =>
      refine ⟨?_, delimHead_cons (by decide), Or.inr (Or.inl ⟨by simp [SdlPrintT.joinSep], rfl⟩)⟩
      simpa [SdlPrintT.joinSep, directivesV, Item.yieldAll] using lay_space_cons lay_nil
    | cons d ds =>
      have hok : okDirectives (Print.mkCfg).indent ((d :: ds).map dirOf) := by
        apply okDirectives_dirOf
        unfold SdlPrintTA.appsOKAt at h; rw [hk] at h; exact h
      have emap : (d :: ds).map SdlPrintTA.dirText = ((d :: ds).map dirOf).map (Print.printDirective Print.mkCfg) := by
        simp [SdlPrintTA.dirText, List.map_map, Function.comp_def]
      rw [joinSep_eq, emap]
      refine ⟨lay_space_cons (lay_directiveList _ _ hok), delimHead_cons (by decide), Or.inr (Or.inr ?_)⟩
      apply endsNW_append (a := [32])
      apply endsNW_joinSep _ _ (by simp)
      intro x hx
      simp only [List.mem_map] at hx
      obtain ⟨y, hy, rfl⟩ := hx
      have hoky : okDirective (Print.mkCfg).indent y := by
        obtain ⟨z, hz, rfl⟩ := hy
        apply okDirective_dirOf
        unfold SdlPrintTA.appsOKAt at h; rw [hk] at h
        exact List.all_eq_true.1 h z hz
      exact endsNW_printDirective _ y hoky

end PyGql.SdlText

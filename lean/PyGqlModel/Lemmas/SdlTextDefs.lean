/-
  C12 text level — type definitions, directive definitions and the schema block printed by `SdlPrintT`, against the views
  of the denoted document.
-/
import PyGqlModel.Lemmas.SdlTextMembers
import PyGqlModel.Lemmas.PrintLayTSDefs
namespace PyGql.SdlText
open PyGql PyGql.Ast PyGql.Sdl PyGql.Spec PyGql.PrintLex PyGql.PrintTokens PyGql.PrintMatch PyGql.PrintString PyGql.SdlPrint PyGql.Parse

/-- ` {⏎ lines ⏎}` for indexed member printers -/
theorem lay_braces {α} (pr : Nat → α → Text) (V : α → Item) (prs : Nat → List α → List Text)
    (hprs_nil : ∀ i, prs i [] = []) (hprs_cons : ∀ i x xs, prs i (x :: xs) = pr i x :: prs (i + 1) xs)
    (xs : List α) (hne : xs ≠ []) (h : ∀ i, ∀ x ∈ xs, Lay (pr i x) (V x).yield) :
    Lay (SdlPrintT.braces (prs 0 xs)) (Item.yieldAll (blockV V xs)) := by
  have key : ∀ (l : List α) (i : Nat), (∀ j, ∀ x ∈ l, Lay (pr j x) (V x).yield) →
      Lay (Print.joinSep [10] (prs i l)) (Item.yieldAll (l.map V)) := by
    intro l
    induction l with
    | nil => intro i _; simpa [hprs_nil, Print.joinSep, Item.yieldAll] using lay_nil
    | cons x xs ih =>
      intro i hl
      cases xs with
      | nil => simpa [hprs_cons, hprs_nil, Print.joinSep, Item.yieldAll] using hl i x (by simp)
      | cons y ys =>
        have ih' := ih (i + 1) (fun j z hz => hl j z (by simp [hz]))
        rw [hprs_cons] at ih' ⊢
        have := lay_append (hl i x (by simp)) (lay_lf_cons ih') (delimHead_cons (by decide))
        rw [hprs_cons]
        simpa [Print.joinSep, Item.yieldAll] using this
  have hemp : xs.isEmpty = false := by cases xs with | nil => exact absurd rfl hne | cons _ _ => rfl
  have l1 := lay_space_cons (lay_curlyL (lay_lf_cons (lay_append (key xs 0 h) (lay_lf_cons (lay_curlyR lay_nil))
    (delimHead_cons (by decide)))))
  simpa [SdlPrintT.braces, joinSep_eq, blockV, hemp, Item.yieldAll, Item.yield, PrintMatch.yieldAll_append, List.append_assoc]
    using l1

theorem delimHead_braces (ls : List Text) : DelimHead (SdlPrintT.braces ls) := by
  unfold SdlPrintT.braces; exact delimHead_cons (by decide)

/-- names joined by ` sep ` -/
theorem lay_names_sep (sep : Text) (sk : TokKind) (hsep : ∀ b cb, Lay b cb → Lay (sep ++ b) ([(sk, [])] ++ cb))
    (hd : ∀ b, DelimHead (sep ++ b)) (ns : List String) (h : ∀ n ∈ ns, nameOK n = true) :
    Lay (SdlPrintT.joinSep sep (ns.map T)) (Item.yieldAll (sepV sk namedTypeV (ns.map namedOf))) := by
  let ps : List LP := ns.map fun n => (T n, (namedTypeV (namedOf n)).yield)
  have hps : ∀ p ∈ ps, Lay p.1 p.2 := by
    intro p hp; simp only [ps, List.mem_map] at hp; obtain ⟨n, hn, rfl⟩ := hp
    simpa [namedOf, namedTypeV, nameOf, nameV, Item.yield, Item.yieldAll] using lay_name (w := T n) (h n hn)
  have l1 := lay_joinSep sep [(sk, [])] hsep hd ps hps
  have ef : ps.map Prod.fst = ns.map T := by simp [ps, List.map_map, Function.comp_def]
  have ey : joinCls [(sk, [])] ps = Item.yieldAll (sepV sk namedTypeV (ns.map namedOf)) := by
    rw [yieldAll_sepV_gen sk namedTypeV (fun t => T "") (ns.map namedOf)]
    have : ∀ (a b : List LP), a.map Prod.snd = b.map Prod.snd → joinCls [(sk, [])] a = joinCls [(sk, [])] b := by
      intro a b hab
      cases a with
      | nil => cases b with | nil => rfl | cons _ _ => simp at hab
      | cons x xs =>
        cases b with
        | nil => simp at hab
        | cons y ys =>
          simp only [List.map_cons, List.cons.injEq] at hab
          simp only [joinCls, hab.1]
          congr 1
          have := hab.2
          clear hab
          induction xs generalizing ys with
          | nil => cases ys with | nil => rfl | cons _ _ => simp at this
          | cons u us ih =>
            cases ys with
            | nil => simp at this
            | cons v vs =>
              simp only [List.map_cons, List.cons.injEq] at this
              have := ih vs this.2
              simp only [List.singleton_append] at this
              simp [‹u.snd = v.snd ∧ _›.1, this]
    apply this
    simp [ps, List.map_map, Function.comp_def]
  rw [ef, ey, ← joinSep_eq] at l1
  exact l1


/-! ### type definitions -/

/-- what is needed about the members of a type, by kind -/
def MembersPart (s : SchemaD) (o : SdlPrintT.OptsT) (t : TypeD) : Prop :=
  match t.kind with
  | .scalar => True
  | .object => t.fields ≠ [] ∧ (∀ n ∈ t.interfaces, nameOK n = true) ∧
      ∀ i, ∀ f ∈ t.fields, Lay (SdlPrintT.printField s o i f) (fieldDefinitionV (fieldOf (fieldToDef s f))).yield
  | .interface => t.fields ≠ [] ∧
      ∀ i, ∀ f ∈ t.fields, Lay (SdlPrintT.printField s o i f) (fieldDefinitionV (fieldOf (fieldToDef s f))).yield
  | .union => t.members ≠ [] ∧ ∀ n ∈ t.members, nameOK n = true
  | .enum => t.values ≠ [] ∧
      ∀ i, ∀ v ∈ t.values, Lay (SdlPrintT.printEnumValue o i v) (enumValueDefinitionV (enumValOf (enumValToDef v))).yield
  | .input => t.inputFields ≠ [] ∧
      ∀ i, ∀ a ∈ t.inputFields, Lay (SdlPrintT.printInputField s o i a) (inputValueV (inputValOf (argToDef s a))).yield

private theorem e_scalar : T "scalar " = K.scalar ++ [32] := by decide
private theorem e_enum : T "enum " = K.enum_ ++ [32] := by decide
private theorem e_union : T "union " = K.union ++ [32] := by decide
private theorem e_type : T "type " = K.type_ ++ [32] := by decide
private theorem e_interface : T "interface " = K.interface_ ++ [32] := by decide
private theorem e_input : T "input " = K.input ++ [32] := by decide
private theorem e_implements : T " implements " = 32 :: (K.implements ++ [32]) := by decide

theorem sep_pipe' (b : Text) (cb : List TokClass) (h : Lay b cb) : Lay ([32, 124, 32] ++ b) ([(TokKind.pipe, [])] ++ cb) := sep_pipe b cb h
theorem sep_amp' (b : Text) (cb : List TokClass) (h : Lay b cb) : Lay ([32, 38, 32] ++ b) ([(TokKind.amp, [])] ++ cb) := sep_amp b cb h

/-- keyword, space, name, rest -/
theorem lay_kw_name {k : Text} (hk : Spec.Lexical.isName k = true) (n : String) (hn : nameOK n = true) {b : Text}
    {cb : List TokClass} (hb : Lay b cb) (hd : DelimHead b) :
    Lay (k ++ 32 :: (T n ++ b)) ((.name, k) :: ((nameV (nameOf n)).yield ++ cb)) := by
  have := lay_append (lay_name hk) (lay_space_cons (lay_append (lay_nameOf n hn) hb hd)) (delimHead_cons (by decide))
  simpa using this

theorem lay_printType (s : SchemaD) (o : SdlPrintT.OptsT) (t : TypeD) (hn : nameOK t.name = true)
    (hdesc : DescPart (SdlPrintT.printDescription o t.desc) (Item.yieldAll (descV (descOf (descToDoc t.desc)))))
    (hm : MembersPart s o t) :
    Lay (SdlPrintT.printType s o t) (definitionV (typeDefOf (typeToDef s t))).yield := by
  have kS : Spec.Lexical.isName K.scalar = true := by decide
  have kE : Spec.Lexical.isName K.enum_ = true := by decide
  have kU : Spec.Lexical.isName K.union = true := by decide
  have kT : Spec.Lexical.isName K.type_ = true := by decide
  have kI : Spec.Lexical.isName K.interface_ = true := by decide
  have kN : Spec.Lexical.isName K.input = true := by decide
  have kM : Spec.Lexical.isName K.implements = true := by decide
  unfold MembersPart at hm
  cases hk : t.kind with
  | scalar =>
    have l := lay_desc_then hdesc (lay_kw_name kS t.name hn lay_nil delimHead_nil)
    simpa [SdlPrintT.printType, hk, e_scalar, typeDefOf, typeToDef, definitionV, kw, directivesV, Item.yield, Item.yieldAll,
      PrintMatch.yieldAll_append, List.append_assoc] using l
  | enum =>
    rw [hk] at hm
    have lb := lay_braces (SdlPrintT.printEnumValue o) (fun v => enumValueDefinitionV (enumValOf (enumValToDef v)))
      (SdlPrintT.printEnumValues o) (fun _ => rfl) (fun _ _ _ => rfl) t.values hm.1 hm.2
    have l := lay_desc_then hdesc (lay_kw_name kE t.name hn lb (delimHead_braces _))
    have hmap : blockV enumValueDefinitionV (t.values.map fun v => enumValOf (enumValToDef v)) =
        blockV (fun v => enumValueDefinitionV (enumValOf (enumValToDef v))) t.values := by
      simp [blockV, List.map_map, Function.comp_def]
    simpa [SdlPrintT.printType, hk, e_enum, typeDefOf, typeToDef, definitionV, kw, directivesV, Item.yield, Item.yieldAll,
      PrintMatch.yieldAll_append, List.append_assoc, List.map_map, Function.comp_def, hmap] using l
  | union =>
    rw [hk] at hm
    have ln := lay_names_sep [32, 124, 32] .pipe sep_pipe' (fun b => delimHead_cons (by decide)) t.members hm.2
    have hemp : (t.members.map namedOf).isEmpty = false := by
      cases hmm : t.members with | nil => exact absurd hmm hm.1 | cons _ _ => rfl
    have l := lay_desc_then hdesc (lay_kw_name kU t.name hn (lay_space_cons (lay_equals (lay_space_cons ln))) (delimHead_cons (by decide)))
    simpa [SdlPrintT.printType, hk, e_union, typeDefOf, typeToDef, definitionV, kw, directivesV, unionMembersV, hemp, Item.yield,
      Item.yieldAll, PrintMatch.yieldAll_append, List.append_assoc] using l
  | object =>
    rw [hk] at hm
    obtain ⟨hne, hifs, hfs⟩ := hm
    have lb := lay_braces (SdlPrintT.printField s o) (fun f => fieldDefinitionV (fieldOf (fieldToDef s f)))
      (SdlPrintT.printFields s o) (fun _ => rfl) (fun _ _ _ => rfl) t.fields hne hfs
    have hmap : blockV fieldDefinitionV (t.fields.map fun f => fieldOf (fieldToDef s f)) =
        blockV (fun f => fieldDefinitionV (fieldOf (fieldToDef s f))) t.fields := by
      simp [blockV, List.map_map, Function.comp_def]
    by_cases hi : t.interfaces.isEmpty = true
    · have hi' : t.interfaces = [] := List.isEmpty_iff.1 hi
      have l := lay_desc_then hdesc (lay_kw_name kT t.name hn lb (delimHead_braces _))
      simpa [SdlPrintT.printType, hk, e_type, hi', typeDefOf, typeToDef, definitionV, kw, directivesV, implementsV, Item.yield,
        Item.yieldAll, PrintMatch.yieldAll_append, List.append_assoc, List.map_map, Function.comp_def, hmap] using l
    · have hi' : t.interfaces.isEmpty = false := by simpa using hi
      have hemp : (t.interfaces.map namedOf).isEmpty = false := by simpa using hi'
      have ln := lay_names_sep [32, 38, 32] .amp sep_amp' (fun b => delimHead_cons (by decide)) t.interfaces hifs
      have limpl := lay_space_cons (lay_append (lay_name kM) (lay_space_cons (lay_append ln lb (delimHead_braces _)))
        (delimHead_cons (by decide)))
      have l := lay_desc_then hdesc (lay_kw_name kT t.name hn limpl (delimHead_cons (by decide)))
      simpa [SdlPrintT.printType, hk, e_type, e_implements, hi', typeDefOf, typeToDef, definitionV, kw, directivesV, implementsV,
        hemp, Item.yield, Item.yieldAll, PrintMatch.yieldAll_append, List.append_assoc, List.map_map, Function.comp_def, hmap]
        using l
  | interface =>
    rw [hk] at hm
    have lb := lay_braces (SdlPrintT.printField s o) (fun f => fieldDefinitionV (fieldOf (fieldToDef s f)))
      (SdlPrintT.printFields s o) (fun _ => rfl) (fun _ _ _ => rfl) t.fields hm.1 hm.2
    have hmap : blockV fieldDefinitionV (t.fields.map fun f => fieldOf (fieldToDef s f)) =
        blockV (fun f => fieldDefinitionV (fieldOf (fieldToDef s f))) t.fields := by
      simp [blockV, List.map_map, Function.comp_def]
    have l := lay_desc_then hdesc (lay_kw_name kI t.name hn lb (delimHead_braces _))
    simpa [SdlPrintT.printType, hk, e_interface, typeDefOf, typeToDef, definitionV, kw, directivesV, Item.yield, Item.yieldAll,
      PrintMatch.yieldAll_append, List.append_assoc, List.map_map, Function.comp_def, hmap] using l
  | input =>
    rw [hk] at hm
    have lb := lay_braces (SdlPrintT.printInputField s o) (fun a => inputValueV (inputValOf (argToDef s a)))
      (SdlPrintT.printInputFields s o) (fun _ => rfl) (fun _ _ _ => rfl) t.inputFields hm.1 hm.2
    have hmap : blockV inputValueV (t.inputFields.map fun a => inputValOf (argToDef s a)) =
        blockV (fun a => inputValueV (inputValOf (argToDef s a))) t.inputFields := by
      simp [blockV, List.map_map, Function.comp_def]
    have l := lay_desc_then hdesc (lay_kw_name kN t.name hn lb (delimHead_braces _))
    simpa [SdlPrintT.printType, hk, e_input, typeDefOf, typeToDef, definitionV, kw, directivesV, Item.yield, Item.yieldAll,
      PrintMatch.yieldAll_append, List.append_assoc, List.map_map, Function.comp_def, hmap] using l


theorem printType_ne (s : SchemaD) (o : SdlPrintT.OptsT) (t : TypeD) : SdlPrintT.printType s o t ≠ [] := by
  unfold SdlPrintT.printType
  cases t.kind <;> simp [e_scalar, e_enum, e_union, e_type, e_interface, e_input, K.scalar, K.enum_, K.union, K.type_,
    K.interface_, K.input]

end PyGql.SdlText

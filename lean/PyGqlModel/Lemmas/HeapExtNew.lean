/-
  C14 — closedness of the types and directives `extend_schema` creates from the extension document (`buildNewTypes`,
  `buildNewDirs`), of the rebuilt directives, and the names of the placeholders.
-/
import PyGqlModel.Lemmas.HeapExtBuild

set_option linter.unusedSimpArgs false
set_option linter.unusedVariables false

namespace PyGql.Heap.Own
open PyGql.Heap

theorem allocPlaceholders_names : ∀ (ns : List String) (h : Heap), (allocPlaceholders h ns).2.map (·.1) = ns := by
  intro ns
  induction ns with
  | nil => intro h; rfl
  | cons n ns ih => intro h; simp only [allocPlaceholders, List.map_cons, ih]

theorem lookup_append_isSome_right {A B : List (String × Addr)} {n : String} (hB : (lookup B n).isSome = true) :
    (lookup (A ++ B) n).isSome = true := by
  simp only [lookup, List.find?_append, Option.isSome_map] at hB ⊢
  cases hA : A.find? (fun e => e.1 == n) with
  | some x => simp
  | none => simpa using hB

/-- a new object type of the document: written at its placeholder with closed members -/
theorem buildNewTypes_closed (N P : List (String × Addr)) (psize : Nat) (hP : ∀ n x, lookup P n = some x → x < psize)
    (hinj : ∀ n n' x, lookup P n = some x → lookup P n' = some x → n = n') :
    ∀ (l : List (String × List ExtField)) (h : Heap), psize ≤ h.size → (l.map (·.1)).Nodup → (∀ e, e ∈ l → FieldsOK N e.2) →
      ∀ n fs na, (n, fs) ∈ l → lookup P n = some na →
        ∃ t', (buildNewTypes N P h l).readType na = some t' ∧ t'.name = n ∧ t'.kind = Kind.object ∧ t'.ifaces = [] ∧
          KidsC psize (buildNewTypes N P h l) N Kind.object t'.fields := by
  intro l
  induction l with
  | nil => intro h _ _ _ n fs na hm; simp at hm
  | cons e rest ih =>
    intro h hsz hnd hok n fs na hm hl
    obtain ⟨n0, fs0⟩ := e
    simp only [List.map_cons, List.nodup_cons] at hnd
    have hB : KeepsFrom psize h (buildFields N h fs0).1 := keepsFrom_of_frameX (buildFieldsX _ N fs0 h)
    simp only [List.mem_cons, Prod.mk.injEq] at hm
    simp only [buildNewTypes]
    rcases hm with ⟨rfl, rfl⟩ | hm
    · simp only [hl]
      have hna : na < (buildFields N h fs).1.size := Nat.lt_of_lt_of_le (hP n na hl) (Nat.le_trans hsz hB.1)
      have frest := buildNewTypesX N P rest ((buildFields N h fs).1.write na
        (.type { kind := .object, name := n, desc := none, fields := (buildFields N h fs).2, ifaces := [], members := [], dres := none, rtype := none, values := [], prot := false }))
      have hnot : ¬ ∃ e, e ∈ rest ∧ lookup P e.1 = some na := by
        rintro ⟨e, he, hx⟩
        exact hnd.1 (List.mem_map.mpr ⟨e, he, hinj e.1 n na hx hl⟩)
      refine ⟨{ kind := .object, name := n, desc := none, fields := (buildFields N h fs).2, ifaces := [], members := [], dres := none, rtype := none, values := [], prot := false }, ?_, rfl, rfl, rfl, ?_⟩
      · rw [readType_frameX frest (by rw [size_write]; exact hna) hnot]
        simp only [Heap.readType, read_write_same _ na _ hna]
      · have kW : KeepsFrom psize (buildFields N h fs).1 ((buildFields N h fs).1.write na
            (.type { kind := .object, name := n, desc := none, fields := (buildFields N h fs).2, ifaces := [], members := [], dres := none, rtype := none, values := [], prot := false })) :=
          keepsFrom_of_frameX (writeX _ _ na _ (hP n na hl))
        have kR := keepsFrom_of_frameX (lo := psize) (frest.mono (W' := fun x => x < psize) (fun x ⟨e, _, hx⟩ => hP e.1 x hx))
        simp only [KidsC]
        intro c hc
        exact (((buildFields_closed N fs h (hok (n, fs) (by simp)) c hc).weaken hsz).keep kW).keep kR
    · have hsz' : psize ≤ (match lookup P n0 with
          | some na => (buildFields N h fs0).1.write na
            (.type { kind := .object, name := n0, desc := none, fields := (buildFields N h fs0).2, ifaces := [], members := [], dres := none, rtype := none, values := [], prot := false })
          | none => (buildFields N h fs0).1).size := by
        split
        · rw [size_write]; exact Nat.le_trans hsz hB.1
        · exact Nat.le_trans hsz hB.1
      exact ih _ hsz' hnd.2 (fun e he => hok e (by simp [he])) n fs na hm hl

/-- a new directive of the document: its (rebuilt) arguments are closed -/
theorem buildNewDirs_closed (cfg : Cfg) (N : List (String × Addr)) : ∀ (l : List (String × List ExtArg × List String)) (h : Heap),
    (∀ e, e ∈ l → ArgsOK N e.2.1) → ∀ e', e' ∈ (buildNewDirs cfg N h l).2 → dirShape (refOK N) (buildNewDirs cfg N h l).1 e'.2 = true := by
  intro l
  induction l with
  | nil => intro h _ e' he'; simp [buildNewDirs] at he'
  | cons e rest ih =>
    intro h hok e' he'
    obtain ⟨n, args, locs⟩ := e
    simp only [buildNewDirs, List.mem_cons] at he' ⊢
    rcases he' with rfl | he'
    · -- the directive allocated here
      have hA := buildArgs_closed N args h (hok (n, args, locs) (by simp))
      have hread : ∀ a, a ∈ (buildArgs N h args).2 → ∃ g, (buildArgs N h args).1.readArg a = some g := fun a ha => by
        obtain ⟨_, g, hg, _⟩ := hA a ha; exact ⟨g, hg⟩
      have hall := extendArgs_forall2 cfg.extArgPy N (buildArgs N h args).2 (buildArgs N h args).1 (buildArgs N h args).1 (FrameX.refl _ _) hread
      have hC := all2_argRelB_C (chk0 := refOK N) (fun r hr => by rw [refOK_lookup hr]; rfl) (fun a ha => (hA a ha).shape) hall
      have k1 := keepsFrom_alloc 0 (extendArgs cfg.extArgPy N (buildArgs N h args).1 (buildArgs N h args).2).1
        (.dir { name := n, args := (extendArgs cfg.extArgPy N (buildArgs N h args).1 (buildArgs N h args).2).2, locs := locs, desc := none })
      have k2 := keepsFrom_of_frameX (lo := 0) (buildNewDirsX (fun x => x < 0) cfg N rest
        ((extendArgs cfg.extArgPy N (buildArgs N h args).1 (buildArgs N h args).2).1.alloc
          (.dir { name := n, args := (extendArgs cfg.extArgPy N (buildArgs N h args).1 (buildArgs N h args).2).2, locs := locs, desc := none })).1)
      have hrd : (buildNewDirs cfg N ((extendArgs cfg.extArgPy N (buildArgs N h args).1 (buildArgs N h args).2).1.alloc
          (.dir { name := n, args := (extendArgs cfg.extArgPy N (buildArgs N h args).1 (buildArgs N h args).2).2, locs := locs, desc := none })).1 rest).1.readDir
          ((extendArgs cfg.extArgPy N (buildArgs N h args).1 (buildArgs N h args).2).1.alloc
          (.dir { name := n, args := (extendArgs cfg.extArgPy N (buildArgs N h args).1 (buildArgs N h args).2).2, locs := locs, desc := none })).2
          = some { name := n, args := (extendArgs cfg.extArgPy N (buildArgs N h args).1 (buildArgs N h args).2).2, locs := locs, desc := none } := by
        have hnew := readDir_alloc_new (extendArgs cfg.extArgPy N (buildArgs N h args).1 (buildArgs N h args).2).1
          { name := n, args := (extendArgs cfg.extArgPy N (buildArgs N h args).1 (buildArgs N h args).2).2, locs := locs, desc := none }
        simp only [Heap.readDir, k2.2 _ (Nat.zero_le _) (read_lt _ _ _ (readDir_read hnew)), readDir_read hnew]
      simp only [dirShape, hrd, List.all_eq_true]
      intro c hc
      exact ((((hC c hc).weaken (Nat.zero_le _)).keep k1).keep k2).shape
    · exact ih _ (fun e he => hok e (by simp [he])) e' he'

/-- the rebuilt directives of the source: closed, and stay so -/
theorem extendDirs_closed (cfg : Cfg) (N : List (String × Addr)) (l : List (String × Addr)) (h0 h : Heap) {chk0 : Ref → Bool}
    (hreg : ∀ r, chk0 r = true → (lookup N r.name).isSome = true)
    (fr : FrameX (fun x => h0.size ≤ x) h0 h) (hsh : ∀ e, e ∈ l → dirShape chk0 h0 e.2 = true) (hfin : Heap)
    (kf : KeepsFrom h.size (extendDirs cfg N h l).1 hfin) :
    ∀ e', e' ∈ (extendDirs cfg N h l).2 → dirShape (refOK N) hfin e'.2 = true := by
  have hread : ∀ e, e ∈ l → ∃ d, h0.readDir e.2 = some d ∧ ∀ x, x ∈ d.args → ∃ g, h0.readArg x = some g := by
    intro e he
    have hs := hsh e he
    simp only [dirShape] at hs
    split at hs
    · rename_i d hd
      simp only [List.all_eq_true] at hs
      exact ⟨d, hd, fun x hx => by obtain ⟨g, hg, _⟩ := (argShape_iff _ h0 x).mp (hs x hx); exact ⟨g, hg⟩⟩
    · cases hs
  intro e' he'
  obtain ⟨e, he, rel⟩ := forall2_mem_right (extendDirs_forall2 cfg N l h0 h fr hread) e' he'
  obtain ⟨_, hlo, d, d', r1, r2, _, _, _, hargs⟩ := rel.keep kf
  have hs := hsh e he
  simp only [dirShape, r1, List.all_eq_true] at hs
  simp only [dirShape, r2, List.all_eq_true]
  exact fun c hc => (all2_argRelB_C hreg hs hargs c hc).shape

end PyGql.Heap.Own

/-
  C14 — member-level provenance: type-level hooks, `on_schema` rounds, `fix_type_references`, lists of visitors.
-/
import PyGqlModel.Lemmas.HeapMembersHooks

set_option linter.unusedSimpArgs false
set_option linter.unusedVariables false
set_option linter.unnecessarySimpa false

namespace PyGql.Heap.Own
open PyGql.Heap

/-- the (possibly rebuilt) type object: attributes of `t`, members a sub-list of `fs` -/
theorem rebuiltOrSame_mem (h0 h1 : Heap) (st : StepImp chkT h0 h1) (a : Addr) (t : TypeO) (ht : h0.readType a = some t) (fs : List Addr) :
    ∃ tu, (rebuiltOrSame h1 a t fs).1.readType (rebuiltOrSame h1 a t fs).2 = some tu ∧ TAttr t tu ∧ List.Sublist tu.fields fs ∧
      StepImp chkT h1 (rebuiltOrSame h1 a t fs).1 := by
  simp only [rebuiltOrSame]
  split
  · exact ⟨_, readType_alloc_new _ _, ⟨rfl, rfl, rfl, rfl, rfl, rfl, rfl, rfl⟩, List.Sublist.refl _, step_alloc chkT _ _⟩
  · rename_i hb
    have heq := bne_false_eq hb
    obtain ⟨o', hr', hd, hk, _⟩ := st a _ (readType_read ht)
    cases o' with
    | type t' => exact ⟨t', readType_of_read hr', hd, by rw [heq]; simpa [kids] using hk, StepImp.refl chkT h1⟩
    | field _ => simp [SameHead] at hd
    | arg _ => simp [SameHead] at hd
    | dir _ => simp [SameHead] at hd

theorem TAttr.kind {t t' : TypeO} (a : TAttr t t') : t'.kind = t.kind := by
  simp only [TAttr, SameHead] at a; exact a.1

theorem compositeRest_mem (v : Visitor) (hv : NoWrap v) (reg : List (String × Addr)) (ρ : String → String) (h0 : Heap) (a : Addr) (h : Heap)
    (t0 t : TypeO) (ht : h.readType a = some t) (hat : TAttr t0 t) (hk : t0.kind = Kind.object ∨ t0.kind = Kind.interface)
    (hm : Sub2 (FRel ρ h0 h) t0.fields t.fields) :
    ∀ a', (compositeRest v reg a h t).2 = some a' → TRel (renAfter v ρ) h0 (compositeRest v reg a h t).1 t0 a' := by
  have hmem := mapFilter_sub2 (Rin := fun h => FRel ρ h0 h) (Rout := fun h => FRel (renAfter v ρ) h0 h)
    (fun _ _ _ _ st r => r.keep st) (fun _ _ _ _ st r => r.keep st) (onField_stepT v reg t.name)
    (fun h x a r => onField_mem v hv reg t.name ρ h0 h x a r) t0.fields t.fields h hm
  have hstep := mapFilter_step (onField_step v reg t.name) t.fields h chkT (compat_true v reg)
  obtain ⟨tu, hru, hau, hsub, stu⟩ := rebuiltOrSame_mem h _ hstep a t ht (mapFilter (onField v reg t.name) h t.fields).2
  have hrel : TRel (renAfter v ρ) h0 (rebuiltOrSame (mapFilter (onField v reg t.name) h t.fields).1 a t (mapFilter (onField v reg t.name) h t.fields).2).1 t0
      (rebuiltOrSame (mapFilter (onField v reg t.name) h t.fields).1 a t (mapFilter (onField v reg t.name) h t.fields).2).2 := by
    refine ⟨tu, hru, hat.trans hau, ?_⟩
    have : Sub2 (FRel (renAfter v ρ) h0 (rebuiltOrSame (mapFilter (onField v reg t.name) h t.fields).1 a t (mapFilter (onField v reg t.name) h t.fields).2).1)
        t0.fields tu.fields := (hmem.imp fun _ _ r => r.keep stu).sublist_right hsub
    rcases hk with hk | hk <;> simpa [MRel, hk] using this
  intro a' e
  simp only [compositeRest] at e ⊢
  cases v with
  | heal =>
    simp only at e ⊢
    split at e
    · rename_i hobj
      simp only [hobj, if_true, hru] at e ⊢
      simp only [Option.some.injEq] at e; subst e
      exact hrel.keep (write_type_ifaces chkT _ _ tu _ hru (by simp))
    · rename_i hobj
      simp only [hobj, Option.some.injEq, Bool.false_eq_true, if_false] at e ⊢; subst e
      exact hrel
  | vis p => simp only [Option.some.injEq] at e ⊢; subst e; exact hrel
  | camel r => simp only [Option.some.injEq] at e ⊢; subst e; exact hrel
  | sdir d w => exact absurd hv (by simp [NoWrap])

theorem onComposite_mem (v : Visitor) (hv : NoWrap v) (reg : List (String × Addr)) (ρ : String → String) (h0 h : Heap) (a : Addr)
    (t0 t : TypeO) (ht : h.readType a = some t) (hat : TAttr t0 t) (hk : t0.kind = Kind.object ∨ t0.kind = Kind.interface)
    (hm : Sub2 (FRel ρ h0 h) t0.fields t.fields) :
    ∀ a', (onComposite v reg h a t).2 = some a' → TRel (renAfter v ρ) h0 (onComposite v reg h a t).1 t0 a' := by
  simp only [onComposite]
  cases v with
  | vis p =>
    simp only
    split
    · intro a' e; cases e
    · split
      · have hw := write_type_fields chkT h a t (t.fields.filter fun fa => match fieldName h fa with | some fnm => p.fieldVis t.name fnm | none => true)
          ht List.filter_sublist
        exact compositeRest_mem (.vis p) hv reg ρ h0 a _ t0
          { t with fields := t.fields.filter fun fa => match fieldName h fa with | some fnm => p.fieldVis t.name fnm | none => true }
          (readType_write_self h a _ (readType_lt' ht)) (hat.trans ⟨rfl, rfl, rfl, rfl, rfl, rfl, rfl, rfl⟩) hk
          ((hm.imp fun _ _ r => r.keep hw).sublist_right List.filter_sublist)
      · exact compositeRest_mem _ hv reg ρ h0 a h t0 t ht hat hk hm
  | heal => exact compositeRest_mem _ hv reg ρ h0 a h t0 t ht hat hk hm
  | camel r => exact compositeRest_mem _ hv reg ρ h0 a h t0 t ht hat hk hm
  | sdir d w => exact absurd hv (by simp [NoWrap])

theorem inputRest_mem (v : Visitor) (hv : NoWrap v) (reg : List (String × Addr)) (ρ : String → String) (h0 : Heap) (a : Addr) (nm : String) (h : Heap)
    (t0 t : TypeO) (ht : h.readType a = some t) (hat : TAttr t0 t) (hk : t0.kind = Kind.input)
    (hm : Sub2 (ARel ρ h0 h) t0.fields t.fields) :
    ∀ a', (inputRest v reg a nm h t).2 = some a' → TRel (renAfter v ρ) h0 (inputRest v reg a nm h t).1 t0 a' := by
  have hmem := mapFilter_sub2 (Rin := fun h => ARel ρ h0 h) (Rout := fun h => ARel (renAfter v ρ) h0 h)
    (fun _ _ _ _ st r => r.keep st) (fun _ _ _ _ st r => r.keep st) (onInputField_stepT v reg)
    (fun h x a r => onInputField_mem v hv reg ρ h0 h x a r) t0.fields t.fields h hm
  have hstep := mapFilter_step (onInputField_step v reg) t.fields h chkT (compat_true v reg)
  obtain ⟨tu, hru, hau, hsub, stu⟩ := rebuiltOrSame_mem h _ hstep a t ht (mapFilter (onInputField v reg) h t.fields).2
  have hrel : TRel (renAfter v ρ) h0 (rebuiltOrSame (mapFilter (onInputField v reg) h t.fields).1 a t (mapFilter (onInputField v reg) h t.fields).2).1 t0
      (rebuiltOrSame (mapFilter (onInputField v reg) h t.fields).1 a t (mapFilter (onInputField v reg) h t.fields).2).2 := by
    refine ⟨tu, hru, hat.trans hau, ?_⟩
    have : Sub2 (ARel (renAfter v ρ) h0 (rebuiltOrSame (mapFilter (onInputField v reg) h t.fields).1 a t (mapFilter (onInputField v reg) h t.fields).2).1)
        t0.fields tu.fields := (hmem.imp fun _ _ r => r.keep stu).sublist_right hsub
    simpa [MRel, hk] using this
  intro a' e
  simp only [inputRest] at e ⊢
  cases v with
  | vis p =>
    simp only at e ⊢
    split at e
    · rename_i hvv
      simp only [hvv, if_true, Option.some.injEq] at e ⊢; subst e; exact hrel
    · cases e
  | heal => simp only [Option.some.injEq] at e ⊢; subst e; exact hrel
  | camel r => simp only [Option.some.injEq] at e ⊢; subst e; exact hrel
  | sdir d w => exact absurd hv (by simp [NoWrap])

theorem onInputObject_mem (v : Visitor) (hv : NoWrap v) (reg : List (String × Addr)) (ρ : String → String) (h0 h : Heap) (a : Addr)
    (t0 t : TypeO) (ht : h.readType a = some t) (hat : TAttr t0 t) (hk : t0.kind = Kind.input)
    (hm : Sub2 (ARel ρ h0 h) t0.fields t.fields) :
    ∀ a', (onInputObject v reg h a t).2 = some a' → TRel (renAfter v ρ) h0 (onInputObject v reg h a t).1 t0 a' := by
  simp only [onInputObject]
  cases v with
  | vis p =>
    simp only
    split
    · have hw := write_type_fields chkT h a t (t.fields.filter fun fa => match argName h fa with | some fnm => p.inputVis t.name fnm | none => true)
        ht List.filter_sublist
      exact inputRest_mem (.vis p) hv reg ρ h0 a t.name _ t0
        { t with fields := t.fields.filter fun fa => match argName h fa with | some fnm => p.inputVis t.name fnm | none => true }
        (readType_write_self h a _ (readType_lt' ht)) (hat.trans ⟨rfl, rfl, rfl, rfl, rfl, rfl, rfl, rfl⟩) hk
        ((hm.imp fun _ _ r => r.keep hw).sublist_right List.filter_sublist)
    · exact inputRest_mem _ hv reg ρ h0 a t.name h t0 t ht hat hk hm
  | heal => exact inputRest_mem _ hv reg ρ h0 a t.name h t0 t ht hat hk hm
  | camel r => exact inputRest_mem _ hv reg ρ h0 a t.name h t0 t ht hat hk hm
  | sdir d w => exact absurd hv (by simp [NoWrap])

/-- `on_schema`'s dispatch: what it returns for a type that is a copy of the source type `t0` is again a copy of `t0` -/
theorem onType_mem (v : Visitor) (hv : NoWrap v) (reg : List (String × Addr)) (ρ : String → String) (h0 h : Heap) (a : Addr) (t0 : TypeO)
    (r : TRel ρ h0 h t0 a) : ∀ a', (onType v reg h a).2 = some a' → TRel (renAfter v ρ) h0 (onType v reg h a).1 t0 a' := by
  obtain ⟨t, ht, hat, hm⟩ := r
  have hkind := hat.kind
  intro a' e
  cases hk0 : t0.kind with
  | object =>
    have hkt : t.kind = Kind.object := by rw [hkind, hk0]
    simp only [onType, ht, hkt] at e ⊢
    exact onComposite_mem v hv reg ρ h0 h a t0 t ht hat (Or.inl hk0) (by simpa [MRel, hk0] using hm) a' e
  | interface =>
    have hkt : t.kind = Kind.interface := by rw [hkind, hk0]
    simp only [onType, ht, hkt] at e ⊢
    exact onComposite_mem v hv reg ρ h0 h a t0 t ht hat (Or.inr hk0) (by simpa [MRel, hk0] using hm) a' e
  | input =>
    have hkt : t.kind = Kind.input := by rw [hkind, hk0]
    simp only [onType, ht, hkt] at e ⊢
    exact onInputObject_mem v hv reg ρ h0 h a t0 t ht hat hk0 (by simpa [MRel, hk0] using hm) a' e
  | union =>
    obtain ⟨t', ht', hat'⟩ := onType_attrs v reg h a t ht a' e
    exact ⟨t', ht', hat.trans hat', by simp [MRel, hk0]⟩
  | scalar =>
    obtain ⟨t', ht', hat'⟩ := onType_attrs v reg h a t ht a' e
    exact ⟨t', ht', hat.trans hat', by simp [MRel, hk0]⟩
  | enum =>
    obtain ⟨t', ht', hat'⟩ := onType_attrs v reg h a t ht a' e
    exact ⟨t', ht', hat.trans hat', by simp [MRel, hk0]⟩

end PyGql.Heap.Own

/-
  C14 — member-level provenance: the copies `Schema.clone` makes, and `transform_schema` as a whole.
-/
import PyGqlModel.Lemmas.HeapMembersLoop
import PyGqlModel.Lemmas.HeapExtFull

set_option linter.unusedSimpArgs false
set_option linter.unusedVariables false
set_option linter.unnecessarySimpa false

namespace PyGql.Heap.Own
open PyGql.Heap

/-- the heap still shows the source's objects -/
def ShowsSrc (h0 h : Heap) : Prop := h0.size ≤ h.size ∧ ∀ x, x < h0.size → h.read x = h0.read x

theorem ShowsSrc.alloc {h0 h : Heap} (s : ShowsSrc h0 h) (o : Obj) : ShowsSrc h0 (h.alloc o).1 :=
  ⟨by rw [size_alloc]; exact Nat.le_succ_of_le s.1, fun x hx => by rw [read_alloc_old h o x (Nat.lt_of_lt_of_le hx s.1)]; exact s.2 x hx⟩

theorem ShowsSrc.of_pres {h0 h h' : Heap} (s : ShowsSrc h0 h) (p : Pres h.size h h') : ShowsSrc h0 h' :=
  ⟨Nat.le_trans s.1 p.2.1, fun x hx => by rw [p.2.2 x (Nat.lt_of_lt_of_le hx s.1)]; exact s.2 x hx⟩

theorem AAttr.refl (g : ArgO) : AAttr id g g := ⟨rfl, rfl, rfl, rfl, sameNames_refl _⟩
theorem FAttr.refl (f : FieldO) : FAttr id f f := ⟨rfl, rfl, rfl, rfl, rfl, rfl, sameNames_refl _⟩

theorem copyArgs_sub2 (h0 : Heap) : ∀ (as : List Addr) (h : Heap), ShowsSrc h0 h → (∀ a, a ∈ as → a < h0.size) →
    Sub2 (ARel id h0 (copyArgs h as).1) as (copyArgs h as).2 := by
  intro as
  induction as with
  | nil => intro h _ _; simp only [copyArgs]; exact Sub2.nil
  | cons a as ih =>
    intro h ss hlt
    have ha := hlt a (by simp)
    cases hg : h.readArg a with
    | none =>
      simp only [copyArgs, hg]
      exact Sub2.skip (ih h ss (fun x hx => hlt x (by simp [hx])))
    | some g =>
      simp only [copyArgs, hg]
      have hg0 : h0.readArg a = some g := by
        have := ss.2 a ha
        simp only [Heap.readArg, ← this, readArg_read hg]
      refine Sub2.cons ?_ (ih _ (ss.alloc _) (fun x hx => hlt x (by simp [hx])))
      exact ARel.keep (copyArgs_step chkT _ as) ⟨g, g, hg0, readArg_alloc_new h g, AAttr.refl g⟩

theorem copyFields_sub2 (h0 : Heap) : ∀ (as : List Addr) (h : Heap), ShowsSrc h0 h →
    (∀ a, a ∈ as → a < h0.size ∧ ∀ f, h0.readField a = some f → ∀ x, x ∈ f.args → x < h0.size) →
    Sub2 (FRel id h0 (copyFields h as).1) as (copyFields h as).2 := by
  intro as
  induction as with
  | nil => intro h _ _; simp only [copyFields]; exact Sub2.nil
  | cons a as ih =>
    intro h ss hlt
    obtain ⟨ha, hargs⟩ := hlt a (by simp)
    cases hf : h.readField a with
    | none =>
      simp only [copyFields, hf]
      exact Sub2.skip (ih h ss (fun x hx => hlt x (by simp [hx])))
    | some f =>
      simp only [copyFields, hf]
      have hf0 : h0.readField a = some f := by
        have := ss.2 a ha
        simp only [Heap.readField, ← this, readField_read hf]
      have hA := copyArgs_sub2 h0 f.args h ss (hargs f hf0)
      have ss1 : ShowsSrc h0 (copyArgs h f.args).1 := ss.of_pres (copyArgs_ok h.size f.args h (inv_self h)).1
      refine Sub2.cons ?_ (ih _ (ss1.alloc _) (fun x hx => hlt x (by simp [hx])))
      apply FRel.keep (copyFields_step chkT _ as)
      exact ⟨f, { f with args := (copyArgs h f.args).2 }, hf0, readField_alloc_new _ _, ⟨rfl, rfl, rfl, rfl, rfl, rfl, sameNames_refl _⟩,
        hA.imp fun _ _ r => r.keep (step_alloc chkT _ _)⟩

/-- bounds for the members of a source type (what well-formedness gives) -/
theorem membersBound {h0 : Heap} {t : TypeO} (hr : MembersReadable h0 t) :
    (t.kind = Kind.input → ∀ a, a ∈ t.fields → a < h0.size) ∧
    ((t.kind = Kind.object ∨ t.kind = Kind.interface) → ∀ a, a ∈ t.fields → a < h0.size ∧ ∀ f, h0.readField a = some f → ∀ x, x ∈ f.args → x < h0.size) := by
  simp only [MembersReadable] at hr
  constructor
  · intro hk a ha
    simp only [hk] at hr
    obtain ⟨g, hg⟩ := hr a ha
    exact readArg_lt hg
  · intro hk a ha
    have hr' : ∀ a, a ∈ t.fields → ∃ f, h0.readField a = some f ∧ ∀ x, x ∈ f.args → ∃ g, h0.readArg x = some g := by
      rcases hk with hk | hk <;> simpa [hk] using hr
    obtain ⟨f, hf, hargs⟩ := hr' a ha
    refine ⟨readField_lt hf, fun f' hf' x hx => ?_⟩
    rw [hf] at hf'; cases hf'
    obtain ⟨g, hg⟩ := hargs x hx
    exact readArg_lt hg

theorem cloneType_mem (cfg : Cfg) (hd : cfg.deepClone = true) (h0 h : Heap) (ss : ShowsSrc h0 h) (t : TypeO) (hr : MembersReadable h0 t) :
    TRel id h0 (cloneType cfg h t).1 t (cloneType cfg h t).2 := by
  obtain ⟨bi, bo⟩ := membersBound hr
  simp only [cloneType, hd, if_true]
  cases hk : t.kind with
  | input =>
    simp only
    refine ⟨_, readType_alloc_new _ _, ⟨hk.symm, rfl, rfl, rfl, rfl, rfl, rfl, rfl⟩, ?_⟩
    simp only [MRel, hk]
    exact (copyArgs_sub2 h0 t.fields h ss (bi hk)).imp fun _ _ r => r.keep (step_alloc chkT _ _)
  | object =>
    simp only
    refine ⟨_, readType_alloc_new _ _, ⟨hk.symm, rfl, rfl, rfl, rfl, rfl, rfl, rfl⟩, ?_⟩
    simp only [MRel, hk]
    exact (copyFields_sub2 h0 t.fields h ss (bo (Or.inl hk))).imp fun _ _ r => r.keep (step_alloc chkT _ _)
  | interface =>
    simp only
    refine ⟨_, readType_alloc_new _ _, ⟨hk.symm, rfl, rfl, rfl, rfl, rfl, rfl, rfl⟩, ?_⟩
    simp only [MRel, hk]
    exact (copyFields_sub2 h0 t.fields h ss (bo (Or.inr hk))).imp fun _ _ r => r.keep (step_alloc chkT _ _)
  | union => simp only; exact ⟨_, readType_alloc_new _ _, ⟨hk.symm, rfl, rfl, rfl, rfl, rfl, rfl, rfl⟩, by simp [MRel, hk]⟩
  | scalar => simp only; exact ⟨_, readType_alloc_new _ _, ⟨hk.symm, rfl, rfl, rfl, rfl, rfl, rfl, rfl⟩, by simp [MRel, hk]⟩
  | enum => simp only; exact ⟨_, readType_alloc_new _ _, ⟨hk.symm, rfl, rfl, rfl, rfl, rfl, rfl, rfl⟩, by simp [MRel, hk]⟩

theorem cloneTypes_mem (cfg : Cfg) (hd : cfg.deepClone = true) (h0 : Heap) : ∀ (l : List (String × Addr)) (h : Heap), ShowsSrc h0 h →
    (∀ e, e ∈ l → ∀ t, h0.readType e.2 = some t → MembersReadable h0 t) →
    ∀ x, x ∈ (cloneTypes cfg h l).2 → ∀ a', x.2 = some a' → ∃ e, e ∈ l ∧ e.1 = x.1 ∧
      ∀ t0, h0.readType e.2 = some t0 → TRel id h0 (cloneTypes cfg h l).1 t0 a' := by
  intro l
  induction l with
  | nil => intro h _ _ x hx; simp [cloneTypes] at hx
  | cons e0 rest ih =>
    intro h ss hread x hx a' ea
    obtain ⟨n, a⟩ := e0
    have hreadr : ∀ e, e ∈ rest → ∀ t, h0.readType e.2 = some t → MembersReadable h0 t := fun e he => hread e (by simp [he])
    by_cases hp : isProtected n = true
    · simp only [cloneTypes, hp, if_true] at hx ⊢
      obtain ⟨e, he, h1, h2⟩ := ih h ss hreadr x hx a' ea
      exact ⟨e, by simp [he], h1, h2⟩
    · have hnp : isProtected n = false := by simpa using hp
      cases ht0 : h.readType a with
      | none =>
        simp only [cloneTypes, hnp, Bool.false_eq_true, if_false, ht0] at hx ⊢
        obtain ⟨e, he, h1, h2⟩ := ih h ss hreadr x hx a' ea
        exact ⟨e, by simp [he], h1, h2⟩
      | some t0 =>
        simp only [cloneTypes, hnp, Bool.false_eq_true, if_false, ht0] at hx ⊢
        have ss1 : ShowsSrc h0 (cloneType cfg h t0).1 := ss.of_pres (cloneType_ok h.size cfg hd h t0 (inv_self h)).1
        have strest := cloneTypes_step cfg hd chkT (cloneType cfg h t0).1 rest
        simp only [List.mem_cons] at hx
        rcases hx with rfl | hx
        · refine ⟨(n, a), by simp, rfl, fun t ht => ?_⟩
          simp only [Option.some.injEq] at ea; subst ea
          -- the object read in the current heap is the source's
          have hlt : a < h0.size := readType_lt' ht
          have : h.readType a = h0.readType a := by simp only [Heap.readType, ss.2 a hlt]
          rw [this, ht] at ht0; cases ht0
          exact (cloneType_mem cfg hd h0 h ss _ (hread (n, a) (by simp) _ ht)).keep strest
        · obtain ⟨e, he, h1, h2⟩ := ih _ ss1 hreadr x hx a' ea
          exact ⟨e, by simp [he], h1, h2⟩

/-- every non-protected registry entry of a clone is a member-by-member copy of the source's entry of the same name -/
theorem clone_mem (cfg : Cfg) (hd : cfg.deepClone = true) (fuel : Nat) (s : Schema) (h h' : Heap) (s' : Schema) (hcl : closedB h s = true)
    (w : WFs (refOK s.types) h s) (e : clone cfg fuel s h = some (h', s')) : MemOrigin id h s.types h' s'.types := by
  simp only [clone] at e
  split at e
  · cases e
  · rename_i h1 s1 hr
    simp only [Option.some.injEq, Prod.mk.injEq] at e
    obtain ⟨rfl, rfl⟩ := e
    suffices hmain : MemOrigin id h s.types h1 s1.types from hmain
    obtain ⟨pt, vt, st, nt⟩ := cloneTypes_ok h.size cfg hd s.types h (inv_self h)
    have stD := cloneDirs_step cfg hd chkT (cloneTypes cfg h s.types).1 s.dirs
    have hsub := cloneRegistry_sub cfg s h hcl
    have hreadable : ∀ e, e ∈ s.types → (h.readType e.2).isSome = true := by
      intro e he
      obtain ⟨t, ht, _⟩ := (typeShape_iff _ h e.2).mp (w.types e he)
      simp [ht]
    have hmr : ∀ e, e ∈ s.types → ∀ t, h.readType e.2 = some t → MembersReadable h t :=
      fun e he t ht => membersReadable_of_shape _ h e.2 t ht (w.types e he)
    have hstart : MemOrigin id h s.types (cloneDirs cfg (cloneTypes cfg h s.types).1 s.dirs).1
        (replaceCore cfg { types := cloneRegistry cfg s h, dirs := [], query := s.query, mutation := s.mutation, subscription := s.subscription, dres := none } (cloneTypes cfg h s.types).2 (cloneDirs cfg (cloneTypes cfg h s.types).1 s.dirs).2).1.types := by
      simp only [replaceCore]
      apply replaceTypes_pred cfg (fun e' => isProtected e'.1 = true ∨ EntRel id h s.types (cloneDirs cfg (cloneTypes cfg h s.types).1 s.dirs).1 e')
      · intro x hx a' ea
        obtain ⟨e1, he1, h1n, h2⟩ := cloneTypes_mem cfg hd h s.types h ⟨Nat.le_refl _, fun _ _ => rfl⟩ hmr x hx a' ea
        exact Or.inr ⟨e1, he1, h1n, fun t0 ht0 => (h2 t0 ht0).keep stD⟩
      · intro e' he'
        have hes := hsub e' he'
        by_cases hp : isProtected e'.1 = true
        · exact Or.inl (Or.inl hp)
        · right
          have hnp : isProtected e'.1 = false := by simpa using hp
          exact nt e'.1 e'.2 hes hnp (readType_lt (hreadable e' hes)) (hreadable e' hes)
    simp only [replaceTD] at hr
    split at hr
    · exact healLoop_mem cfg id h s.types fuel _ _ _ _ hstart hr
    · cases hr; exact hstart

end PyGql.Heap.Own

/-
  C14 — provenance of the registry entries: every entry of a derived schema carries the type-level attributes of the
  source's entry of the same name.
-/
import PyGqlModel.Lemmas.HeapAttrs

set_option linter.unusedSimpArgs false
set_option linter.unusedVariables false
set_option linter.unnecessarySimpa false

namespace PyGql.Heap.Own
open PyGql.Heap

/-- entry `e'` (in heap `h`) originates from entry `e` of the source registry (in heap `h0`): same name, same attributes -/
def OriginOf (h0 : Heap) (reg0 : List (String × Addr)) (h : Heap) (e' : String × Addr) : Prop :=
  ∃ e, e ∈ reg0 ∧ e.1 = e'.1 ∧ ∀ t, h0.readType e.2 = some t → ∃ t', h.readType e'.2 = some t' ∧ TAttr t t'

def RegOrigin (h0 : Heap) (reg0 : List (String × Addr)) (h : Heap) (reg : List (String × Addr)) : Prop :=
  ∀ e', e' ∈ reg → OriginOf h0 reg0 h e'

theorem OriginOf.keep {h0 : Heap} {reg0 : List (String × Addr)} {h h' : Heap} (st : StepImp chkT h h') {e' : String × Addr}
    (o : OriginOf h0 reg0 h e') : OriginOf h0 reg0 h' e' := by
  obtain ⟨e, he, hn, ha⟩ := o
  refine ⟨e, he, hn, fun t ht => ?_⟩
  obtain ⟨t', ht', hat⟩ := ha t ht
  obtain ⟨t'', ht'', hat'⟩ := readType_keep_attrs st e'.2 t' ht'
  exact ⟨t'', ht'', hat.trans hat'⟩

theorem regOrigin_refl (h : Heap) (reg : List (String × Addr)) : RegOrigin h reg h reg :=
  fun e' he' => ⟨e', he', rfl, fun t ht => ⟨t, ht, TAttr.refl t⟩⟩

/-- what `on_schema` puts into `updated_types`: objects carrying the attributes of the entry they replace -/
theorem visitTypes_attrs (v : Visitor) (reg : List (String × Addr)) : ∀ (l : List (String × Addr)) (h : Heap),
    ∀ x, x ∈ (visitTypes v reg h l).2 → ∀ a', x.2 = some a' → ∃ e, e ∈ l ∧ e.1 = x.1 ∧
      ∀ t, h.readType e.2 = some t → ∃ t', (visitTypes v reg h l).1.readType a' = some t' ∧ TAttr t t' := by
  intro l
  induction l with
  | nil => intro h x hx; simp [visitTypes] at hx
  | cons e0 rest ih =>
    intro h x hx a' ea
    obtain ⟨n, a⟩ := e0
    by_cases hp : isProtected n = true
    · simp only [visitTypes, hp, if_true] at hx ⊢
      obtain ⟨e, he, h1, h2⟩ := ih h x hx a' ea
      exact ⟨e, by simp [he], h1, h2⟩
    · have hp' : isProtected n = false := by simpa using hp
      simp only [visitTypes, hp', Bool.false_eq_true, if_false] at hx ⊢
      have st0 := onType_step v reg h a chkT (compat_true v reg)
      have strest := visitTypes_step v reg rest (onType v reg h a).1 chkT (compat_true v reg)
      have hrest : x ∈ (visitTypes v reg (onType v reg h a).1 rest).2 → ∃ e, e ∈ (n, a) :: rest ∧ e.1 = x.1 ∧
          ∀ t, h.readType e.2 = some t → ∃ t', (visitTypes v reg (onType v reg h a).1 rest).1.readType a' = some t' ∧ TAttr t t' := by
        intro hx'
        obtain ⟨e, he, h1, h2⟩ := ih _ x hx' a' ea
        refine ⟨e, by simp [he], h1, fun t ht => ?_⟩
        obtain ⟨t1, ht1, hat1⟩ := readType_keep_attrs st0 e.2 t ht
        obtain ⟨t', ht', hat'⟩ := h2 t1 ht1
        exact ⟨t', ht', hat1.trans hat'⟩
      split at hx
      · simp only [List.mem_cons] at hx
        rcases hx with rfl | hx
        · refine ⟨(n, a), by simp, rfl, fun t ht => ?_⟩
          obtain ⟨t1, ht1, hat1⟩ := onType_attrs v reg h a t ht a' ea
          obtain ⟨t', ht', hat'⟩ := readType_keep_attrs strest a' t1 ht1
          exact ⟨t', ht', hat1.trans hat'⟩
        · exact hrest hx
      · exact hrest hx

/-- one `on_schema` round keeps the provenance of every registry entry -/
theorem round_origin (cfg : Cfg) (v : Visitor) (h0 : Heap) (reg0 : List (String × Addr)) (s : Schema) (h : Heap)
    (ho : RegOrigin h0 reg0 h s.types) :
    RegOrigin h0 reg0 (visitAll v s h).1 (replaceCore cfg s (visitAll v s h).2.1 (visitAll v s h).2.2).1.types := by
  have stT := visitTypes_step v s.types s.types h chkT (compat_true v s.types)
  have stD := visitDirs_step v s.types s.dirs (visitTypes v s.types h s.types).1 chkT (compat_true v s.types)
  simp only [replaceCore, visitAll]
  apply replaceTypes_pred cfg (OriginOf h0 reg0 (visitDirs v s.types (visitTypes v s.types h s.types).1 s.dirs).1)
  · intro x hx a' ea
    obtain ⟨e1, he1, h1, h2⟩ := visitTypes_attrs v s.types s.types h x hx a' ea
    obtain ⟨e, he, hn, ha⟩ := ho e1 he1
    refine ⟨e, he, hn.trans h1, fun t ht => ?_⟩
    obtain ⟨t1, ht1, hat1⟩ := ha t ht
    obtain ⟨t2, ht2, hat2⟩ := h2 t1 ht1
    obtain ⟨t3, ht3, hat3⟩ := readType_keep_attrs stD a' t2 ht2
    exact ⟨t3, ht3, (hat1.trans hat2).trans hat3⟩
  · intro e' he'
    exact Or.inl ((ho e' he').keep (stT.trans stD))

theorem healLoop_origin (cfg : Cfg) (h0 : Heap) (reg0 : List (String × Addr)) : ∀ (fuel : Nat) (s : Schema) (h h' : Heap) (s' : Schema),
    RegOrigin h0 reg0 h s.types → healLoop cfg fuel s h = some (h', s') → RegOrigin h0 reg0 h' s'.types := by
  intro fuel
  induction fuel with
  | zero => intro s h h' s' _ e; simp [healLoop] at e
  | succ fuel ih =>
    intro s h h' s' ho e
    rw [healLoop] at e
    have hr := round_origin cfg .heal h0 reg0 s h ho
    split at e
    · exact ih _ _ _ _ hr e
    · cases e; exact hr

theorem onSchema_origin (cfg : Cfg) (fuel : Nat) (v : Visitor) (h0 : Heap) (reg0 : List (String × Addr)) (s : Schema) (h h' : Heap)
    (s' : Schema) (ho : RegOrigin h0 reg0 h s.types) (e : onSchema cfg fuel v s h = some (h', s')) : RegOrigin h0 reg0 h' s'.types := by
  simp only [onSchema, replaceTD] at e
  have hr := round_origin cfg v h0 reg0 s h ho
  split at e
  · exact healLoop_origin cfg h0 reg0 fuel _ _ _ _ hr e
  · cases e; exact hr

theorem transformFrom_origin (cfg : Cfg) (fuel : Nat) (h0 : Heap) (reg0 : List (String × Addr)) : ∀ (vs : List Visitor) (h : Heap) (s : Schema)
    (h' : Heap) (s' : Schema), RegOrigin h0 reg0 h s.types → transformFrom cfg fuel vs (h, s) = some (h', s') →
      RegOrigin h0 reg0 h' s'.types := by
  intro vs
  induction vs with
  | nil => intro h s h' s' ho e; simp only [transformFrom] at e; cases e; exact ho
  | cons v vs ih =>
    intro h s h' s' ho e
    simp only [transformFrom] at e
    split at e
    · cases e
    · rename_i r hr
      obtain ⟨h1, s1⟩ := r
      exact ih h1 s1 h' s' (onSchema_origin cfg fuel v h0 reg0 s h h1 s1 ho hr) e

/-- the copies `clone()` makes carry the attributes of the types they copy -/
theorem cloneTypes_attrs (cfg : Cfg) (hd : cfg.deepClone = true) : ∀ (l : List (String × Addr)) (h : Heap),
    ∀ x, x ∈ (cloneTypes cfg h l).2 → ∀ a', x.2 = some a' → ∃ e, e ∈ l ∧ e.1 = x.1 ∧
      ∀ t, h.readType e.2 = some t → ∃ t', (cloneTypes cfg h l).1.readType a' = some t' ∧ TAttr t t' := by
  intro l
  induction l with
  | nil => intro h x hx; simp [cloneTypes] at hx
  | cons e0 rest ih =>
    intro h x hx a' ea
    obtain ⟨n, a⟩ := e0
    by_cases hp : isProtected n = true
    · simp only [cloneTypes, hp, if_true] at hx ⊢
      obtain ⟨e, he, h1, h2⟩ := ih h x hx a' ea
      exact ⟨e, by simp [he], h1, h2⟩
    · have hnp : isProtected n = false := by simpa using hp
      cases ht0 : h.readType a with
      | none =>
        simp only [cloneTypes, hnp, Bool.false_eq_true, if_false, ht0] at hx ⊢
        obtain ⟨e, he, h1, h2⟩ := ih h x hx a' ea
        exact ⟨e, by simp [he], h1, h2⟩
      | some t0 =>
        simp only [cloneTypes, hnp, Bool.false_eq_true, if_false, ht0] at hx ⊢
        have st0 := cloneType_step cfg hd chkT h t0
        have strest := cloneTypes_step cfg hd chkT (cloneType cfg h t0).1 rest
        simp only [List.mem_cons] at hx
        rcases hx with rfl | hx
        · refine ⟨(n, a), by simp, rfl, fun t ht => ?_⟩
          simp only [Option.some.injEq] at ea
          subst ea
          rw [ht0] at ht; cases ht
          have hcopy : ∃ t1, (cloneType cfg h t0).1.readType (cloneType cfg h t0).2 = some t1 ∧ TAttr t0 t1 := by
            simp only [cloneType, hd, if_true]
            split <;> exact ⟨_, readType_alloc_new _ _, ⟨rfl, rfl, rfl, rfl, rfl, rfl, rfl, rfl⟩⟩
          obtain ⟨t1, ht1, hat1⟩ := hcopy
          obtain ⟨t', ht', hat'⟩ := readType_keep_attrs strest _ t1 ht1
          exact ⟨t', ht', hat1.trans hat'⟩
        · obtain ⟨e, he, h1, h2⟩ := ih _ x hx a' ea
          refine ⟨e, by simp [he], h1, fun t ht => ?_⟩
          obtain ⟨t1, ht1, hat1⟩ := readType_keep_attrs st0 e.2 t ht
          obtain ⟨t', ht', hat'⟩ := h2 t1 ht1
          exact ⟨t', ht', hat1.trans hat'⟩

/-- every registry entry of a clone originates from the source's entry of the same name -/
theorem clone_origin (cfg : Cfg) (hd : cfg.deepClone = true) (fuel : Nat) (s : Schema) (h h' : Heap) (s' : Schema) (hcl : closedB h s = true)
    (e : clone cfg fuel s h = some (h', s')) : RegOrigin h s.types h' s'.types := by
  simp only [clone] at e
  split at e
  · cases e
  · rename_i h1 s1 hr
    simp only [Option.some.injEq, Prod.mk.injEq] at e
    obtain ⟨rfl, rfl⟩ := e
    suffices hmain : RegOrigin h s.types h1 s1.types from hmain
    have stT := cloneTypes_step cfg hd chkT h s.types
    have stD := cloneDirs_step cfg hd chkT (cloneTypes cfg h s.types).1 s.dirs
    have hstart : RegOrigin h s.types (cloneDirs cfg (cloneTypes cfg h s.types).1 s.dirs).1
        (replaceCore cfg { types := cloneRegistry cfg s h, dirs := [], query := s.query, mutation := s.mutation, subscription := s.subscription, dres := none } (cloneTypes cfg h s.types).2 (cloneDirs cfg (cloneTypes cfg h s.types).1 s.dirs).2).1.types := by
      simp only [replaceCore]
      apply replaceTypes_pred cfg (OriginOf h s.types (cloneDirs cfg (cloneTypes cfg h s.types).1 s.dirs).1)
      · intro x hx a' ea
        obtain ⟨e1, he1, h1, h2⟩ := cloneTypes_attrs cfg hd s.types h x hx a' ea
        refine ⟨e1, he1, h1, fun t ht => ?_⟩
        obtain ⟨t1, ht1, hat1⟩ := h2 t ht
        obtain ⟨t2, ht2, hat2⟩ := readType_keep_attrs stD a' t1 ht1
        exact ⟨t2, ht2, hat1.trans hat2⟩
      · intro e' he'
        exact Or.inl ((regOrigin_refl h s.types e' (cloneRegistry_sub cfg s h hcl e' he')).keep (stT.trans stD))
    simp only [replaceTD] at hr
    split at hr
    · exact healLoop_origin cfg h s.types fuel _ _ _ _ hstart hr
    · cases hr; exact hstart

end PyGql.Heap.Own

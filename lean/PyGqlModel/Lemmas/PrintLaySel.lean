/-
  `Lay` for selections and selection sets (the `_block` / `_indent` nesting), operations and fragments.
-/
import PyGqlModel.Lemmas.PrintLayValues
namespace PyGql.PrintTokens
open PyGql PyGql.Ast PyGql.Parse PyGql.Spec PyGql.Print PyGql.PrintLex PyGql.PrintMatch PyGql.PrintString PyGql.Lex

/-! ### `_join` with a non-empty head -/

/-- what `_join` appends after a non-empty first entry: `sep + x` for every non-empty `x` -/
def tailJoin (sep : Text) : List Text → Text
  | [] => []
  | x :: xs => (if x.isEmpty then [] else sep ++ x) ++ tailJoin sep xs

theorem joinSep_cons (sep a : Text) (ys : List Text) : joinSep sep (a :: ys) = a ++ ys.flatMap (sep ++ ·) := by
  induction ys generalizing a with
  | nil => simp [joinSep]
  | cons y ys ih => simp [joinSep, ih]

theorem tailJoin_eq (sep : Text) (xs : List Text) :
    tailJoin sep xs = (xs.filter fun x => !x.isEmpty).flatMap (sep ++ ·) := by
  induction xs with
  | nil => rfl
  | cons x xs ih =>
    simp only [tailJoin, List.filter_cons]
    cases x with
    | nil => simp [ih]
    | cons a b => simp [ih]

theorem join_cons_ne (a : Text) (xs : List Text) (sep : Text) (ha : a ≠ []) :
    join (a :: xs) sep = a ++ tailJoin sep xs := by
  unfold join
  have : (!a.isEmpty) = true := by cases a with | nil => exact absurd rfl ha | cons _ _ => rfl
  rw [List.filter_cons, if_pos this, joinSep_cons, tailJoin_eq]

/-- `sep + x`, nothing for an empty `x` -/
def wrapS (x : Text) : Text := if x.isEmpty then [] else 32 :: x

theorem lay_wrapS {b : Text} {cb : List TokClass} (hb : Lay b cb) : Lay (wrapS b) cb := lay_wrap_space hb
theorem delimHead_wrapS (b : Text) : DelimHead (wrapS b) := by
  unfold wrapS; split
  · exact delimHead_nil
  · exact delimHead_cons (by decide)

theorem tailJoin_space2 (a b : Text) : tailJoin [32] [a, b] = wrapS a ++ wrapS b := by
  simp [tailJoin, wrapS]
theorem tailJoin_space3 (a b d : Text) : tailJoin [32] [a, b, d] = wrapS a ++ (wrapS b ++ wrapS d) := by
  simp [tailJoin, wrapS]

/-! ### the spread punctuator -/

theorem next_ellip (n : Nat) (r : Text) :
    next n (46 :: 46 :: 46 :: r) = .ok (⟨.ellip, posAt n (46 :: 46 :: 46 :: r), posAt n r, [46, 46, 46]⟩, some r) := by
  have h1 : isIgnored 46 = false := by decide
  have h3 : isPrintable 46 = true := by decide
  have h4 : symbolKind 46 = none := by decide
  simp [next, readOverWhitespace, h1, h3, h4, readEllipsis, readDots, Except.map]

theorem lay_ellip {b : Text} {cb : List TokClass} (hb : Lay b cb) : Lay (46 :: 46 :: 46 :: b) ((.ellip, []) :: cb) := by
  intro P hP r cs' hr hl
  have h := hb P hP r cs' hr hl
  have := lexesTo_step (w := [46, 46, 46]) (c := (.ellip, []))
    (fun n => ⟨_, next_ellip n _, by simp [cls, hasValue]⟩) (by simp; omega) h
  simpa [replaceLF] using this

/-! ### selections -/

mutual
def okSelection (ind : Text) : Selection → Prop
  | .field alias_ name args dirs ss _ =>
    (match alias_ with | some a => Spec.Lexical.isName a.value = true | none => True) ∧
    Spec.Lexical.isName name.value = true ∧ okArguments ind args ∧ okDirectives ind dirs ∧ okOptSelectionSet ind ss
  | .fragmentSpread name dirs _ => Spec.Lexical.isName name.value = true ∧ okDirectives ind dirs
  | .inlineFragment tc dirs ss _ =>
    (match tc with | some t => Spec.Lexical.isName t.name.value = true | none => True) ∧
    okDirectives ind dirs ∧ okSelectionSet ind ss
def okSelectionSet (ind : Text) : SelectionSet → Prop
  | .mk sels _ => sels ≠ [] ∧ okSelections ind sels
def okOptSelectionSet (ind : Text) : Option SelectionSet → Prop
  | none => True
  | some ss => okSelectionSet ind ss
def okSelections (ind : Text) : List Selection → Prop
  | [] => True
  | s :: ss => okSelection ind s ∧ okSelections ind ss
end

theorem delimHead_append {a b : Text} (ha : DelimHead a) (hb : DelimHead b) : DelimHead (a ++ b) := by
  cases a with
  | nil => simpa using hb
  | cons x y => intro c t e; simp at e; rw [← e.1]; exact ha x y rfl

/-- the text before the arguments of a field: `alias: name` or `name` -/
def fieldLead (alias_ : Option Name) (name : Name) : Text :=
  match alias_ with
  | some a => a.value ++ 58 :: 32 :: name.value
  | none => name.value

theorem join2_ne (a b : Text) (ha : a ≠ []) : join [a, b] = a ++ b := by
  rw [join_cons_ne _ _ _ ha]
  cases b <;> simp [tailJoin]

theorem printSelection_field_eq (c : Cfg) (alias_ : Option Name) (name : Name) (args : List Argument)
    (dirs : List Directive) (ss : Option SelectionSet) (loc : Loc)
    (ha : match alias_ with | some a => Spec.Lexical.isName a.value = true | none => True)
    (hn : Spec.Lexical.isName name.value = true) :
    printSelection c (.field alias_ name args dirs ss loc) =
      (fieldLead alias_ name ++ printArguments c args) ++
        (wrapS (printDirectives c dirs) ++ wrapS (printOptSelectionSet c ss)) := by
  have hnn := isName_ne_nil hn
  cases alias_ with
  | none =>
    simp only [printSelection, fieldLead]
    rw [join2_ne _ _ hnn, join_cons_ne _ _ _ (by intro e; exact hnn (List.append_eq_nil_iff.1 e).1), tailJoin_space2]
  | some a =>
    have han := isName_ne_nil ha
    have hw : wrap [] a.value [58, 32] = a.value ++ [58, 32] := by
      unfold wrap; cases hv : a.value with
      | nil => exact absurd hv han
      | cons x y => simp
    have hl : join [wrap [] a.value [58, 32], name.value] = a.value ++ 58 :: 32 :: name.value := by
      rw [hw, join2_ne _ _ (by simp)]; simp
    simp only [printSelection, fieldLead, hl]
    rw [join2_ne _ _ (by simp), join_cons_ne _ _ _ (by simp), tailJoin_space2]

theorem printSelection_ne (c : Cfg) (s : Selection) (h : okSelection c.indent s) : printSelection c s ≠ [] := by
  cases s with
  | field alias_ name args dirs ss loc =>
    simp only [okSelection] at h
    rw [printSelection_field_eq c _ _ _ _ _ _ h.1 h.2.1]
    have hnn := isName_ne_nil h.2.1
    cases alias_ with
    | none => simp [fieldLead, hnn]
    | some a => simp [fieldLead]
  | fragmentSpread name dirs loc => simp [printSelection]
  | inlineFragment tc dirs ss loc =>
    simp only [printSelection]
    rw [join_cons_ne _ _ _ (by simp)]
    simp

theorem indentText_ne (s ind : Text) (h : s ≠ []) : indentText s ind ≠ [] := by
  unfold indentText
  cases s with
  | nil => exact absurd rfl h
  | cons a b =>
    simp only [List.isEmpty_cons, Bool.false_eq_true, ↓reduceIte, replaceLF]
    split <;> simp

theorem printSelections_ne (c : Cfg) : ∀ (sels : List Selection), okSelections c.indent sels →
    ∀ x ∈ (printSelections c sels).map (fun s => indentText s c.indent), x ≠ []
  | [], _, x, hx => by simp [printSelections] at hx
  | s :: ss, h, x, hx => by
    simp only [okSelections] at h
    simp only [printSelections, List.map_cons, List.mem_cons] at hx
    rcases hx with rfl | hx
    · exact indentText_ne _ _ (printSelection_ne c s h.1)
    · exact printSelections_ne c ss h.2 x hx

theorem block_eq (arr : List Text) (ind : Text) (hne : arr ≠ []) (h : ∀ x ∈ arr.map (fun s => indentText s ind), x ≠ []) :
    block arr ind = 123 :: 10 :: (joinSep [10] (arr.map fun s => indentText s ind) ++ [10, 125]) := by
  unfold block
  have : arr.isEmpty = false := by cases arr with | nil => exact absurd rfl hne | cons _ _ => rfl
  simp [this, join_eq_joinSep _ _ h]

mutual
theorem lay_selection (c : Cfg) (hind : Blank c.indent) : ∀ (s : Selection), okSelection c.indent s →
    Lay (printSelection c s) (selectionV s).yield
  | .field alias_ name args dirs ss loc, h => by
    simp only [okSelection] at h
    obtain ⟨ha, hn, hargs, hdirs, hss⟩ := h
    have lss := lay_optSelectionSet c hind ss hss
    have hd2 : DelimHead (wrapS (printDirectives c dirs) ++ wrapS (printOptSelectionSet c ss)) :=
      delimHead_append (delimHead_wrapS _) (delimHead_wrapS _)
    have ltail := lay_append (lay_arguments c args hargs)
      (lay_append (lay_wrapS (lay_directives c dirs hdirs)) (lay_wrapS lss) (delimHead_wrapS _)) hd2
    have hdt := delimHead_append (delimHead_printArguments c args) hd2
    rw [printSelection_field_eq c _ _ _ _ _ _ ha hn]
    cases alias_ with
    | none =>
      have h1 := lay_append (lay_name hn) ltail hdt
      simpa [fieldLead, selectionV, nameV, Item.yield, Item.yieldAll, yieldAll_append, List.append_assoc] using h1
    | some a =>
      simp only at ha
      have h1 := lay_append (lay_name ha) (lay_colon (lay_space_cons (lay_append (lay_name hn) ltail hdt)))
        (delimHead_cons (by decide))
      simpa [fieldLead, selectionV, nameV, Item.yield, Item.yieldAll, yieldAll_append, List.append_assoc] using h1
  | .fragmentSpread name dirs loc, h => by
    simp only [okSelection] at h
    have h1 := lay_ellip (lay_append (lay_name h.1) (lay_wrapS (lay_directives c dirs h.2)) (delimHead_wrapS _))
    have hw : wrap [32] (printDirectives c dirs) = wrapS (printDirectives c dirs) := by
      unfold wrap wrapS; split <;> simp
    simp only [printSelection, hw]
    simpa [selectionV, nameV, Item.yield, Item.yieldAll, yieldAll_append] using h1
  | .inlineFragment tc dirs ss loc, h => by
    simp only [okSelection] at h
    obtain ⟨htc, hdirs, hss⟩ := h
    have lss := lay_selectionSet c hind ss hss
    have ltail := lay_append (lay_wrapS (lay_directives c dirs hdirs)) (lay_wrapS lss) (delimHead_wrapS _)
    simp only [printSelection]
    rw [join_cons_ne _ _ _ (by simp), tailJoin_space3]
    cases tc with
    | none =>
      have h1 := lay_ellip ltail
      simpa [selectionV, wrap, wrapS, Item.yield, Item.yieldAll, yieldAll_append] using h1
    | some t =>
      simp only at htc
      have htn := isName_ne_nil htc
      have hon : Spec.Lexical.isName K.on = true := by decide
      have hw : wrap [111, 110, 32] (printNamedType t) = 111 :: 110 :: 32 :: t.name.value := by
        unfold wrap printNamedType; cases hv : t.name.value with
        | nil => exact absurd hv htn
        | cons x y => simp
      have l1 : Lay (111 :: 110 :: 32 :: t.name.value) [(.name, K.on), (.name, t.name.value)] := by
        have := lay_append (lay_name hon) (lay_space_cons (lay_name htc)) (delimHead_cons (by decide))
        simpa [K.on] using this
      have hws : wrapS (111 :: 110 :: 32 :: t.name.value) = 32 :: 111 :: 110 :: 32 :: t.name.value := by simp [wrapS]
      have hd : DelimHead (wrapS (printDirectives c dirs) ++ wrapS (printSelectionSet c ss)) :=
        delimHead_append (delimHead_wrapS _) (delimHead_wrapS _)
      have h1 := lay_ellip (lay_space_cons (lay_append l1 ltail hd))
      rw [hw, hws]
      simpa [selectionV, namedTypeV, nameV, kw, Item.yield, Item.yieldAll, yieldAll_append, List.append_assoc] using h1
theorem lay_selectionSet (c : Cfg) (hind : Blank c.indent) : ∀ (ss : SelectionSet), okSelectionSet c.indent ss →
    Lay (printSelectionSet c ss) (selectionSetV ss).yield
  | .mk sels loc, h => by
    simp only [okSelectionSet] at h
    have hne : printSelections c sels ≠ [] := by
      cases sels with
      | nil => exact absurd rfl h.1
      | cons s ss => simp [printSelections]
    have h1 := lay_curlyL (lay_lf_cons (lay_append (lay_selections c hind sels h.2)
      (lay_lf_cons (lay_curlyR lay_nil)) (delimHead_cons (by decide))))
    simp only [printSelectionSet]
    rw [block_eq _ _ hne (printSelections_ne c sels h.2)]
    simpa [selectionSetV, Item.yield, Item.yieldAll, yieldAll_append] using h1
theorem lay_optSelectionSet (c : Cfg) (hind : Blank c.indent) : ∀ (o : Option SelectionSet), okOptSelectionSet c.indent o →
    Lay (printOptSelectionSet c o) (Item.yieldAll (optSelectionSetV o))
  | none, _ => by simpa [printOptSelectionSet, optSelectionSetV, Item.yieldAll] using lay_nil
  | some ss, h => by
    simp only [okOptSelectionSet] at h
    simpa [printOptSelectionSet, optSelectionSetV, Item.yieldAll] using lay_selectionSet c hind ss h
theorem lay_selections (c : Cfg) (hind : Blank c.indent) : ∀ (sels : List Selection), okSelections c.indent sels →
    Lay (joinSep [10] ((printSelections c sels).map fun s => indentText s c.indent)) (Item.yieldAll (selectionsV sels))
  | [], _ => by simpa [printSelections, joinSep, selectionsV, Item.yieldAll] using lay_nil
  | [s], h => by
    simp only [okSelections] at h
    simpa [printSelections, joinSep, selectionsV, Item.yieldAll] using lay_indentText hind (lay_selection c hind s h.1)
  | s :: s' :: ss, h => by
    simp only [okSelections] at h
    have ih := lay_selections c hind (s' :: ss) (by simp only [okSelections]; exact h.2)
    have h1 := lay_append (lay_indentText hind (lay_selection c hind s h.1)) (lay_lf_cons ih) (delimHead_cons (by decide))
    simpa [printSelections, joinSep, selectionsV, Item.yieldAll] using h1
end

end PyGql.PrintTokens

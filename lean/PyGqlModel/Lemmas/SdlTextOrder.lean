/-
  C12 text level — the order of the lists of a schema: `sortBy` (insertion sort by name) is a permutation, sorts lists with
  pairwise distinct names strictly and fixes strictly sorted lists; looking a type up by name and therefore `valueLit` do
  not depend on the order of `s.types` when the names are pairwise distinct.
-/
import PyGqlModel.SdlPrint
namespace PyGql.SdlText
open PyGql PyGql.Sdl PyGql.SdlPrint

/-! ### `sortBy` -/

theorem insertSorted_perm {α} (key : α → String) (x : α) : ∀ l : List α, (insertSorted key x l).Perm (x :: l)
  | [] => List.Perm.refl _
  | y :: ys => by
    unfold insertSorted
    split
    · exact List.Perm.refl _
    · exact ((insertSorted_perm key x ys).cons y).trans (List.Perm.swap x y ys)

theorem sortBy_perm {α} (key : α → String) : ∀ l : List α, (sortBy key l).Perm l
  | [] => List.Perm.refl _
  | x :: xs => by
    have : sortBy key (x :: xs) = insertSorted key x (sortBy key xs) := rfl
    rw [this]
    exact (insertSorted_perm key x _).trans ((sortBy_perm key xs).cons x)

/-- strictly ascending by key -/
abbrev Asc {α} (key : α → String) (l : List α) : Prop := l.Pairwise (fun a b => key a < key b)

theorem insertSorted_asc {α} (key : α → String) (x : α) : ∀ l : List α, Asc key l → (∀ y ∈ l, key x ≠ key y) →
    Asc key (insertSorted key x l)
  | [], _, _ => by simp [insertSorted, Asc]
  | y :: ys, h, hx => by
    have hy := List.pairwise_cons.1 h
    unfold insertSorted
    split
    · rename_i hlt
      refine List.pairwise_cons.2 ⟨?_, h⟩
      intro z hz
      rcases List.mem_cons.1 hz with rfl | hz
      · exact hlt
      · exact String.lt_trans hlt (hy.1 z hz)
    · rename_i hlt
      have hyx : key y < key x := by
        rcases Decidable.em (key y < key x) with h1 | h1
        · exact h1
        · exact absurd (String.le_antisymm (String.not_lt.1 h1) (String.not_lt.1 hlt)) (hx y (by simp))
      refine List.pairwise_cons.2 ⟨?_, insertSorted_asc key x ys hy.2 (fun z hz => hx z (by simp [hz]))⟩
      intro z hz
      rcases List.mem_cons.1 ((insertSorted_perm key x ys).mem_iff.1 hz) with rfl | hz
      · exact hyx
      · exact hy.1 z hz

theorem sortBy_asc {α} (key : α → String) : ∀ l : List α, (l.map key).Nodup → Asc key (sortBy key l)
  | [], _ => by simp [sortBy, Asc]
  | x :: xs, h => by
    have hn : key x ∉ xs.map key ∧ (xs.map key).Nodup := List.nodup_cons.1 h
    have : sortBy key (x :: xs) = insertSorted key x (sortBy key xs) := rfl
    rw [this]
    refine insertSorted_asc key x _ (sortBy_asc key xs hn.2) ?_
    intro y hy e
    exact hn.1 (List.mem_map.2 ⟨y, (sortBy_perm key xs).mem_iff.1 hy, e.symm⟩)

theorem sortBy_of_asc {α} (key : α → String) : ∀ l : List α, Asc key l → sortBy key l = l
  | [], _ => rfl
  | x :: xs, h => by
    have hx := List.pairwise_cons.1 h
    have : sortBy key (x :: xs) = insertSorted key x (sortBy key xs) := rfl
    rw [this, sortBy_of_asc key xs hx.2]
    cases xs with
    | nil => rfl
    | cons y ys => simp [insertSorted, hx.1 y (by simp)]

theorem sortBy_idem {α} (key : α → String) (l : List α) (h : (l.map key).Nodup) :
    sortBy key (sortBy key l) = sortBy key l := sortBy_of_asc key _ (sortBy_asc key l h)

/-! ### looking up by name -/

theorem find?_of_unique {α} (key : α → String) (n : String) : ∀ (l : List α), (l.map key).Nodup → ∀ t ∈ l, key t = n →
    l.find? (fun x => key x == n) = some t
  | [], _, t, ht, _ => by cases ht
  | y :: ys, h, t, ht, hk => by
    have hn : key y ∉ ys.map key ∧ (ys.map key).Nodup := List.nodup_cons.1 h
    rcases List.mem_cons.1 ht with rfl | ht
    · simp [hk]
    · have hy : key y ≠ n := by
        intro e; exact hn.1 (List.mem_map.2 ⟨t, ht, by rw [hk, e]⟩)
      have hb : (key y == n) = false := by simpa using hy
      simp only [List.find?_cons, hb]
      exact find?_of_unique key n ys hn.2 t ht hk

theorem find?_perm {α} (key : α → String) (n : String) (l l' : List α) (hp : l'.Perm l) (h : (l.map key).Nodup) :
    l'.find? (fun x => key x == n) = l.find? (fun x => key x == n) := by
  have h' : (l'.map key).Nodup := ((hp.map key).nodup_iff).2 h
  cases hf : l.find? (fun x => key x == n) with
  | none =>
    rw [List.find?_eq_none] at hf ⊢
    intro x hx; exact hf x (hp.mem_iff.1 hx)
  | some t =>
    have ht := List.mem_of_find?_eq_some hf
    have hk := List.find?_some hf
    exact find?_of_unique key n l' h' t (hp.mem_iff.2 ht) (by simpa using hk)

/-! ### `valueLit` depends on the schema through `findType` only -/

theorem valueLit_congr (s s' : SchemaD) (hf : ∀ n, s'.findType n = s.findType n) : ∀ fuel,
    (∀ v ty, valueLit s' fuel v ty = valueLit s fuel v ty) ∧
    (∀ items t, itemsLit s' fuel items t = itemsLit s fuel items t) ∧
    (∀ kvs fs, fieldsLit s' fuel kvs fs = fieldsLit s fuel kvs fs) := by
  intro fuel
  induction fuel with
  | zero =>
    refine ⟨fun v ty => by simp [valueLit], fun items t => by simp [itemsLit], fun kvs fs => by simp [fieldsLit]⟩
  | succ k ih =>
    obtain ⟨ih1, ih2, ih3⟩ := ih
    refine ⟨?_, ?_, ?_⟩
    · intro v ty
      cases ty with
      | nonNull t => simp only [valueLit, ih1]
      | list t => simp only [valueLit, ih1, ih2]
      | named n => simp only [valueLit, ih3, hf]
    · intro items t
      cases items with
      | nil => simp [itemsLit]
      | cons x xs => simp only [itemsLit, ih1, ih2]
    · intro kvs fs
      cases fs with
      | nil => simp [fieldsLit]
      | cons f fs => simp only [fieldsLit, ih1, ih3]

end PyGql.SdlText

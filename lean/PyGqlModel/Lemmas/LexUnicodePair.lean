/-
  Surrogate-pair escapes (fix C02-U1): the model's `pairEscape` is the specification's `pairedUnits`, and unfolding
  lemmas for `\uXXXX` in `readStringBody` / `Spec.Lexical.stringCharacters`.
-/
import PyGqlModel.Lemmas.LexChars
import PyGqlModel.Lemmas.LexRange

namespace PyGql.Lex
open PyGql.Spec.Lexical

theorem pairEscape_spec (hi e1 e2 a b c d : Nat) :
    pairEscape hi e1 e2 a b c d = pairedUnits hi e1 e2 a b c d := by
  have hB : (isHighSurrogate hi && e1 == 92 && e2 == 117) = true ↔ (isHighUnit hi = true ∧ e1 = 92 ∧ e2 = 117) := by
    have h1 : isHighSurrogate hi = isHighUnit hi := rfl
    rw [h1]; simp only [Bool.and_eq_true, beq_iff_eq, and_assoc]
  unfold pairEscape pairedUnits
  rw [← hex4_spec]
  by_cases hcond : isHighUnit hi = true ∧ e1 = 92 ∧ e2 = 117
  · rw [if_pos (hB.mpr hcond), if_pos hcond]; rfl
  · rw [if_neg (fun h => hcond (hB.mp h)), if_neg hcond]

/-- a quote among the six characters after a high-surrogate escape: no pair -/
theorem pairEscape_quote (hi e1 e2 a b c d : Nat)
    (h : e1 = 34 ∨ e2 = 34 ∨ a = 34 ∨ b = 34 ∨ c = 34 ∨ d = 34) : pairEscape hi e1 e2 a b c d = none := by
  have h34 : isHex 34 = false := by decide
  unfold pairEscape
  rcases h with rfl | rfl | rfl | rfl | rfl | rfl
  · simp
  · simp
  all_goals (simp only [hex4, h34, Bool.false_and, Bool.and_false, Bool.false_eq_true, ↓reduceIte]; split <;> rfl)

theorem pairAt_spec (hi : Nat) (t : Text) : pairAt hi t = pairedAt hi t := by
  unfold pairAt pairedAt
  split <;> simp [pairEscape_spec]

theorem pairAt_some_length (hi cp : Nat) (t : Text) (h : pairAt hi t = some cp) :
    ∃ e1 e2 a b c d t3, t = e1 :: e2 :: a :: b :: c :: d :: t3 := by
  unfold pairAt at h
  split at h
  · exact ⟨_, _, _, _, _, _, _, rfl⟩
  · cases h

theorem pairAt_quote_in_six (ch : Nat) (l : Text) (i : Nat) (hi : i < 6) (hl : l[i]? = some 34) : pairAt ch l = none := by
  unfold pairAt
  split
  · apply pairEscape_quote
    match i, hi with
    | 0, _ => simp at hl; simp [hl]
    | 1, _ => simp at hl; simp [hl]
    | 2, _ => simp at hl; simp [hl]
    | 3, _ => simp at hl; simp [hl]
    | 4, _ => simp at hl; simp [hl]
    | 5, _ => simp at hl; simp [hl]
  · rfl

/-- the closing quote (and what follows it) never takes part in a surrogate pair -/
theorem pairAt_append_quote (ch : Nat) (t2 rest : Text) : pairAt ch (t2 ++ 34 :: rest) = pairAt ch t2 := by
  match t2 with
  | [] => rw [pairAt_quote_in_six ch _ 0 (by decide) (by simp)]; rfl
  | [x1] => rw [pairAt_quote_in_six ch _ 1 (by decide) (by simp)]; rfl
  | [x1, x2] => rw [pairAt_quote_in_six ch _ 2 (by decide) (by simp)]; rfl
  | [x1, x2, x3] => rw [pairAt_quote_in_six ch _ 3 (by decide) (by simp)]; rfl
  | [x1, x2, x3, x4] => rw [pairAt_quote_in_six ch _ 4 (by decide) (by simp)]; rfl
  | [x1, x2, x3, x4, x5] => rw [pairAt_quote_in_six ch _ 5 (by decide) (by simp)]; rfl
  | x1 :: x2 :: x3 :: x4 :: x5 :: x6 :: u => simp [pairAt]

/-- `\uXXXX` not followed by a pairing low-surrogate escape: one code unit -/
theorem readStringBody_unicode_nopair (n : Nat) (a b c d ch : Nat) (t2 : Text) (hx : hex4 a b c d = some ch)
    (hnp : pairAt ch t2 = none) :
    readStringBody n (92 :: 117 :: a :: b :: c :: d :: t2) =
      (readStringBody n t2).map (fun p => (ch :: p.1, p.2)) := by
  have hq : quoted 117 = none := by decide
  rw [readStringBody.eq_def]
  simp only [Nat.reduceEqDiff, ↓reduceIte, hq, hx, hnp]
  cases readStringBody n t2 with
  | ok p => obtain ⟨v, r⟩ := p; rfl
  | error e => rfl

/-- `\uHHHH\uLLLL` with a high and a low surrogate: one astral character -/
theorem readStringBody_unicode_pair (n : Nat) (a b c d ch e1 e2 a2 b2 c2 d2 cp : Nat) (t3 : Text)
    (hx : hex4 a b c d = some ch) (hp : pairAt ch (e1 :: e2 :: a2 :: b2 :: c2 :: d2 :: t3) = some cp) :
    readStringBody n (92 :: 117 :: a :: b :: c :: d :: e1 :: e2 :: a2 :: b2 :: c2 :: d2 :: t3) =
      (readStringBody n t3).map (fun p => (cp :: p.1, p.2)) := by
  have hq : quoted 117 = none := by decide
  rw [readStringBody.eq_def]
  simp only [Nat.reduceEqDiff, ↓reduceIte, hq, hx, hp]
  cases readStringBody n t3 with
  | ok p => obtain ⟨v, r⟩ := p; rfl
  | error e => rfl

theorem stringCharacters_unicode_nopair (a b c d u : Nat) (t2 : Text) (hu : escapedUnicode a b c d = some u)
    (hnp : pairedAt u t2 = none) :
    stringCharacters (92 :: 117 :: a :: b :: c :: d :: t2) = (stringCharacters t2).map (u :: ·) := by
  rw [stringCharacters.eq_def]
  simp only [Nat.reduceEqDiff, ↓reduceIte, hu, hnp]

theorem stringCharacters_unicode_pair (a b c d u e1 e2 a2 b2 c2 d2 cp : Nat) (t3 : Text)
    (hu : escapedUnicode a b c d = some u) (hp : pairedAt u (e1 :: e2 :: a2 :: b2 :: c2 :: d2 :: t3) = some cp) :
    stringCharacters (92 :: 117 :: a :: b :: c :: d :: e1 :: e2 :: a2 :: b2 :: c2 :: d2 :: t3) =
      (stringCharacters t3).map (cp :: ·) := by
  rw [stringCharacters.eq_def]
  simp only [Nat.reduceEqDiff, ↓reduceIte, hu, hp]

end PyGql.Lex

/-
  Every concrete-syntax view of `Spec/Grammar.lean` is SOLID: each node certainly derives a token, and no optional token /
  look-ahead restriction concerns `<EOF>` — what `item_slice` needs to cut a node out of its document.
-/
import PyGqlModel.Lemmas.SpanShift
namespace PyGql.Spec
open PyGql PyGql.Ast PyGql.Parse

theorem leadAll_append (xs ys : List Item) : Item.leadAll (xs ++ ys) = (Item.leadAll xs || Item.leadAll ys) := by
  induction xs with
  | nil => simp [Item.leadAll]
  | cons x xs ih => simp [Item.leadAll, ih, Bool.or_assoc]

theorem solidAll_map {α} (f : α → Item) (xs : List α) (h : ∀ x ∈ xs, (f x).solid = true) :
    Item.solidAll (xs.map f) = true := by
  induction xs with
  | nil => simp [Item.solidAll]
  | cons x xs ih =>
    simp only [List.map_cons, Item.solidAll, Bool.and_eq_true]
    exact ⟨h x (by simp), ih (fun y hy => h y (by simp [hy]))⟩

theorem solidAll_optV {α} (f : α → Item) (o : Option α) (h : ∀ x, (f x).solid = true) : Item.solidAll (optV f o) = true := by
  cases o <;> simp [optV, Item.solidAll, h]

theorem solidAll_groupV {α} (o c : TokKind) (f : α → Item) (xs : List α) (h : ∀ x, (f x).solid = true) :
    Item.solidAll (groupV o c f xs) = true := by
  unfold groupV; split
  · simp [Item.solidAll]
  · simp [Item.solidAll, Item.solid, solidAll_append, solidAll_map f xs (fun x _ => h x)]

theorem solidAll_blockV {α} (f : α → Item) (xs : List α) (h : ∀ x, (f x).solid = true) :
    Item.solidAll (blockV f xs) = true := by
  unfold blockV; split
  · simp [Item.solidAll, Item.solid]
  · simp [Item.solidAll, Item.solid, solidAll_append, solidAll_map f xs (fun x _ => h x)]

theorem solidAll_flatMap {α} (sep : TokKind) (f : α → Item) (xs : List α) (h : ∀ x, (f x).solid = true) :
    Item.solidAll (xs.flatMap fun y => [p sep, f y]) = true := by
  induction xs with
  | nil => simp [Item.solidAll]
  | cons x xs ih => simp [List.flatMap_cons, Item.solidAll, Item.solid, h, ih]

theorem solidAll_sepV {α} (sep : TokKind) (hs : (sep != .eof) = true) (f : α → Item) (xs : List α)
    (h : ∀ x, (f x).solid = true) : Item.solidAll (sepV sep f xs) = true := by
  cases xs with
  | nil => simp [sepV, Item.solidAll]
  | cons x xs => simp [sepV, Item.solidAll, Item.solid, hs, h, solidAll_flatMap sep f xs h]

theorem namedTypeV_solid (t : NamedType) : (namedTypeV t).solid = true := by
  simp [namedTypeV, Item.solid, Item.solidAll, Item.leadAll, nameV_lead, nameV_solid]

theorem stringV_solid (s : StringValue) : (stringV s).solid = true := by
  simp [stringV, Item.solid, Item.solidAll, Item.leadAll, Item.lead]

theorem variableV_solid (v : Variable) : (variableV v).solid = true := by
  simp [variableV, Item.solid, Item.solidAll, Item.leadAll, Item.lead, nameV_solid]

theorem argumentV_solid (a : Argument) : (argumentV a).solid = true := by
  simp [argumentV, Item.solid, Item.solidAll, Item.leadAll, Item.lead, nameV_solid, valueV_solid]

theorem argumentsV_solid (as : List Argument) : Item.solidAll (argumentsV as) = true :=
  solidAll_groupV _ _ _ _ argumentV_solid

theorem directiveV_solid (d : Directive) : (directiveV d).solid = true := by
  simp [directiveV, Item.solid, Item.solidAll, Item.leadAll, Item.lead, nameV_solid, argumentsV_solid]

theorem directivesV_solid (ds : List Directive) : Item.solidAll (directivesV ds) = true :=
  solidAll_map _ _ (fun x _ => directiveV_solid x)

theorem defaultV_solid (o : Option Value) : Item.solidAll (defaultV o) = true := by
  cases o <;> simp [defaultV, Item.solidAll, Item.solid, valueV_solid]

theorem variableDefinitionV_solid (d : VariableDefinition) : (variableDefinitionV d).solid = true := by
  simp [variableDefinitionV, Item.solid, Item.solidAll, Item.leadAll, Item.lead, solidAll_append, variableV_solid,
    typeV_solid, defaultV_solid, directivesV_solid]

theorem variableDefinitionsV_solid (ds : List VariableDefinition) : Item.solidAll (variableDefinitionsV ds) = true :=
  solidAll_groupV _ _ _ _ variableDefinitionV_solid

mutual
theorem selectionV_solid : ∀ s : Selection, (selectionV s).solid = true
  | .field alias_ name args dirs ss loc => by
    cases alias_ <;>
      simp [selectionV, Item.solid, Item.solidAll, Item.leadAll, Item.lead, solidAll_append, leadAll_append, nameV_solid,
        nameV_lead, argumentsV_solid, directivesV_solid, optSelectionSetV_solid ss]
  | .fragmentSpread name dirs loc => by
    simp [selectionV, Item.solid, Item.solidAll, Item.leadAll, Item.lead, nameV_solid, directivesV_solid]
  | .inlineFragment tc dirs ss loc => by
    cases tc <;>
      simp [selectionV, Item.solid, Item.solidAll, Item.leadAll, Item.lead, solidAll_append, namedTypeV_solid,
        directivesV_solid, selectionSetV_solid ss]
theorem selectionSetV_solid : ∀ ss : SelectionSet, (selectionSetV ss).solid = true
  | .mk sels loc => by
    simp [selectionSetV, Item.solid, Item.solidAll, Item.leadAll, Item.lead, solidAll_append, selectionsV_solid sels]
theorem optSelectionSetV_solid : ∀ o : Option SelectionSet, Item.solidAll (optSelectionSetV o) = true
  | none => by simp [optSelectionSetV, Item.solidAll]
  | some ss => by simp [optSelectionSetV, Item.solidAll, selectionSetV_solid ss]
theorem selectionsV_solid : ∀ ss : List Selection, Item.solidAll (selectionsV ss) = true
  | [] => by simp [selectionsV, Item.solidAll]
  | s :: ss => by simp [selectionsV, Item.solidAll, selectionV_solid s, selectionsV_solid ss]
end

theorem selectionSetV_lead (ss : SelectionSet) : (selectionSetV ss).lead = true := by
  cases ss; simp [selectionSetV, Item.lead, Item.leadAll]

theorem operationV_solid (d : OperationDefinition) : (operationV d).solid = true := by
  unfold operationV; split
  · simp [Item.solid, Item.solidAll, Item.leadAll, Item.lead, selectionSetV_solid, selectionSetV_lead]
  · simp [Item.solid, Item.solidAll, Item.leadAll, Item.lead, solidAll_append, selectionSetV_solid,
      solidAll_optV nameV d.name nameV_solid, variableDefinitionsV_solid, directivesV_solid]

theorem fragmentV_solid (d : FragmentDefinition) : (fragmentV d).solid = true := by
  simp [fragmentV, Item.solid, Item.solidAll, Item.leadAll, Item.lead, solidAll_append, selectionSetV_solid, nameV_solid,
    namedTypeV_solid, variableDefinitionsV_solid, directivesV_solid]

theorem descV_solid (o : Option StringValue) : Item.solidAll (descV o) = true := solidAll_optV _ _ stringV_solid

theorem operationTypeV_solid (d : OperationTypeDefinition) : (operationTypeV d).solid = true := by
  simp [operationTypeV, Item.solid, Item.solidAll, Item.leadAll, Item.lead, namedTypeV_solid]

theorem inputValueV_solid (d : InputValueDefinition) : (inputValueV d).solid = true := by
  simp [inputValueV, Item.solid, Item.solidAll, Item.leadAll, Item.lead, solidAll_append, leadAll_append, descV_solid,
    nameV_solid, nameV_lead, typeV_solid, defaultV_solid, directivesV_solid]

theorem fieldDefinitionV_solid (d : FieldDefinition) : (fieldDefinitionV d).solid = true := by
  simp [fieldDefinitionV, Item.solid, Item.solidAll, Item.leadAll, Item.lead, solidAll_append, leadAll_append, descV_solid,
    nameV_solid, nameV_lead, typeV_solid, directivesV_solid, solidAll_groupV _ _ inputValueV _ inputValueV_solid]

theorem enumValueDefinitionV_solid (d : EnumValueDefinition) : (enumValueDefinitionV d).solid = true := by
  simp [enumValueDefinitionV, Item.solid, Item.solidAll, Item.leadAll, Item.lead, solidAll_append, leadAll_append,
    descV_solid, nameV_solid, nameV_lead, directivesV_solid]

theorem implementsV_solid (ts : List NamedType) : Item.solidAll (implementsV ts) = true := by
  unfold implementsV; split
  · simp [Item.solidAll]
  · simp [Item.solidAll, Item.solid, solidAll_sepV .amp (by decide) namedTypeV ts namedTypeV_solid]

theorem unionMembersV_solid (ts : List NamedType) : Item.solidAll (unionMembersV ts) = true := by
  unfold unionMembersV; split
  · simp [Item.solidAll]
  · simp [Item.solidAll, Item.solid, solidAll_sepV .pipe (by decide) namedTypeV ts namedTypeV_solid]

theorem definitionV_solid (x : Definition) : (definitionV x).solid = true := by
  cases x with
  | operation d => exact operationV_solid d
  | fragment d => exact fragmentV_solid d
  | _ =>
    simp [definitionV, Item.solid, Item.solidAll, Item.leadAll, Item.lead, solidAll_append, leadAll_append, descV_solid,
      nameV_solid, directivesV_solid, implementsV_solid, unionMembersV_solid,
      solidAll_blockV fieldDefinitionV _ fieldDefinitionV_solid, solidAll_blockV enumValueDefinitionV _ enumValueDefinitionV_solid,
      solidAll_blockV inputValueV _ inputValueV_solid, solidAll_blockV operationTypeV _ operationTypeV_solid,
      solidAll_groupV _ _ inputValueV _ inputValueV_solid, solidAll_sepV .pipe (by decide) nameV _ nameV_solid,
      solidAll_map operationTypeV _ (fun x _ => operationTypeV_solid x)]

end PyGql.Spec

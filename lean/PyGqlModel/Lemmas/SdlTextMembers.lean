/-
  C12 text level — the members printed by `SdlPrintT`: input values, arguments, fields, enum values, against the views
  of the document the printer denotes (`docToAst ∘ schemaToDoc`).  Descriptions and default values enter through the
  abstract parts `DescPart` / `DefaultPart` (trivial when absent; discharged separately when present).
-/
import PyGqlModel.Lemmas.SdlTextBase
namespace PyGql.SdlText
open PyGql PyGql.Ast PyGql.Sdl PyGql.Spec PyGql.PrintLex PyGql.PrintTokens PyGql.PrintMatch PyGql.PrintString PyGql.SdlPrint

theorem flatMap_congr' {α β} (l : List α) (f g : α → List β) (h : ∀ x ∈ l, f x = g x) : l.flatMap f = l.flatMap g := by
  induction l with
  | nil => rfl
  | cons x xs ih => simp [h x (by simp), ih (fun y hy => h y (by simp [hy]))]

/-- a printed description: nothing, or a text ending with a line feed whose part before the line feed is `Lay` -/
def DescPart (txt : Text) (cs : List TokClass) : Prop :=
  (txt = [] ∧ cs = []) ∨ ∃ pre, txt = pre ++ [10] ∧ Lay pre cs

theorem descPart_none (o : SdlPrintT.OptsT) (depth : Nat) (first : Bool) :
    DescPart (SdlPrintT.printDescription o none depth first) (Item.yieldAll (descV (descOf (descToDoc none)))) :=
  Or.inl ⟨rfl, rfl⟩

/-- a description followed by the definition it describes -/
theorem lay_desc_then {txt b : Text} {cs cb : List TokClass} (h : DescPart txt cs) (hb : Lay b cb) :
    Lay (txt ++ b) (cs ++ cb) := by
  rcases h with ⟨rfl, rfl⟩ | ⟨pre, rfl, hpre⟩
  · simpa using hb
  · have := lay_append hpre (lay_lf_cons hb) (delimHead_cons (by decide))
    simpa [List.append_assoc] using this

/-! ### default values -/

/-- the default value of an argument as the document has it -/
def dfltOf (s : SchemaD) (a : ArgD) : Option Value := (argToDef s a).default.map valueOf

/-- the text ` = value` (nothing without a default) -/
def defaultTxt (s : SchemaD) (a : ArgD) : Text :=
  if a.hasDefault then [32, 61, 32] ++ SdlPrintT.valueText s a.default a.type else []

/-- what is needed about a printed default value -/
def DefaultPart (s : SchemaD) (a : ArgD) : Prop :=
  Lay (defaultTxt s a) (Item.yieldAll (defaultV (dfltOf s a))) ∧ (defaultTxt s a = [] ∨ EndsNW (defaultTxt s a))

theorem defaultPart_none (s : SchemaD) (a : ArgD) (h : a.hasDefault = false) : DefaultPart s a := by
  have e1 : defaultTxt s a = [] := by simp [defaultTxt, h]
  have e2 : dfltOf s a = none := by simp [dfltOf, argToDef, h]
  rw [DefaultPart, e1, e2]
  exact ⟨by simpa [defaultV, Item.yieldAll] using lay_nil, Or.inl rfl⟩

theorem delimHead_defaultTxt (s : SchemaD) (a : ArgD) : DelimHead (defaultTxt s a) := by
  unfold defaultTxt; split
  · exact delimHead_cons (by decide)
  · exact delimHead_nil

/-! ### input values -/

/-- the tokens of an input value without its description -/
def ivCore (s : SchemaD) (a : ArgD) : List TokClass :=
  (nameV (nameOf a.name)).yield ++ (.colon, []) :: ((typeV (typeOf a.type)).yield ++ Item.yieldAll (defaultV (dfltOf s a)))

theorem printInputValue_eq (s : SchemaD) (a : ArgD) (hn : nameOK a.name = true) (ht : tyOK a.type = true)
    (hd : DefaultPart s a) :
    SdlPrintT.printInputValue s a = T a.name ++ 58 :: 32 :: (SdlPrintT.renderTy a.type ++ defaultTxt s a) := by
  obtain ⟨c, t, hct, hcw⟩ := headNW_name (w := T a.name) hn
  have hends : EndsNW (T a.name ++ 58 :: 32 :: (SdlPrintT.renderTy a.type ++ defaultTxt s a)) := by
    apply endsNW_append
    have : EndsNW (SdlPrintT.renderTy a.type ++ defaultTxt s a) := endsNW_append_nil (endsNW_renderTy _ ht) hd.2
    obtain ⟨l, hl, hlw⟩ := this
    refine ⟨l, ?_, hlw⟩
    have hne : SdlPrintT.renderTy a.type ++ defaultTxt s a ≠ [] := by
      intro e; rw [e] at hl; cases hl
    rw [List.getLast?_cons, List.getLast?_cons, hl]; rfl
  have hform : (if a.hasDefault then (T a.name ++ [58, 32] ++ SdlPrintT.renderTy a.type) ++ [32, 61, 32] ++ SdlPrintT.valueText s a.default a.type
      else T a.name ++ [58, 32] ++ SdlPrintT.renderTy a.type) =
      T a.name ++ 58 :: 32 :: (SdlPrintT.renderTy a.type ++ defaultTxt s a) := by
    unfold defaultTxt; split <;> simp [List.append_assoc]
  unfold SdlPrintT.printInputValue
  simp only [hform]
  obtain ⟨l, hl, hlw⟩ := hends
  rw [hct] at hl ⊢
  simp only [List.cons_append] at hl ⊢
  exact strip_of_ends c _ l hl hcw hlw

theorem lay_inputValueCore (s : SchemaD) (a : ArgD) (hn : nameOK a.name = true) (ht : tyOK a.type = true)
    (hd : DefaultPart s a) : Lay (SdlPrintT.printInputValue s a) (ivCore s a) := by
  rw [printInputValue_eq s a hn ht hd]
  have h1 := lay_append (lay_nameOf a.name hn) (lay_colon (lay_space_cons
    (lay_append (lay_renderTy a.type ht) hd.1 (delimHead_defaultTxt s a)))) (delimHead_cons (by decide))
  simpa [ivCore] using h1

theorem printInputValue_ne (s : SchemaD) (a : ArgD) (hn : nameOK a.name = true) (ht : tyOK a.type = true)
    (hd : DefaultPart s a) : SdlPrintT.printInputValue s a ≠ [] := by
  rw [printInputValue_eq s a hn ht hd]
  obtain ⟨c, t, hct, _⟩ := headNW_name (w := T a.name) hn
  rw [hct]; simp

/-- the view of an argument of the denoted document, when its description is not printed -/
theorem inputValueV_nodesc (s : SchemaD) (a : ArgD) (h : descToDoc a.desc = none) :
    (inputValueV (inputValOf (argToDef s a))).yield = ivCore s a := by
  simp [inputValueV, inputValOf, argToDef, h, descOf, descV, optV, ivCore, dfltOf, nameV, directivesV, Item.yield,
    Item.yieldAll, PrintMatch.yieldAll_append]

/-- the conditions on one argument that do not concern its description -/
def ArgCore (s : SchemaD) (a : ArgD) : Prop := nameOK a.name = true ∧ tyOK a.type = true ∧ DefaultPart s a

/-- `print_arguments`, one-line layout (no argument has a description to print) -/
theorem lay_arguments_oneline (s : SchemaD) (o : SdlPrintT.OptsT) (args : List ArgD) (depth : Nat)
    (hm : SdlPrintT.multiArgs o args = false) (hnd : ∀ a ∈ args, descToDoc a.desc = none)
    (hc : ∀ a ∈ args, ArgCore s a) :
    Lay (SdlPrintT.printArguments s o args depth)
      (Item.yieldAll (groupV .parenL .parenR inputValueV (args.map fun a => inputValOf (argToDef s a)))) ∧
    DelimHead (SdlPrintT.printArguments s o args depth) := by
  cases args with
  | nil => exact ⟨by simpa [SdlPrintT.printArguments, groupV, Item.yieldAll] using lay_nil,
      by simpa [SdlPrintT.printArguments] using delimHead_nil⟩
  | cons a as =>
    have hargs : ∀ (i : Nat) (l : List ArgD), SdlPrintT.printArgs s o depth false i l = l.map (SdlPrintT.printInputValue s) := by
      intro i l
      induction l generalizing i with
      | nil => rfl
      | cons x xs ih => simp [SdlPrintT.printArgs, ih]
    let ps : List LP := (a :: as).map fun x => (SdlPrintT.printInputValue s x, ivCore s x)
    have hps : ∀ p ∈ ps, Lay p.1 p.2 := by
      intro p hp; simp only [ps, List.mem_map] at hp; obtain ⟨x, hx, rfl⟩ := hp
      obtain ⟨h1, h2, h3⟩ := hc x hx
      exact lay_inputValueCore s x h1 h2 h3
    have l1 := lay_joinSep [44, 32] [] sep_comma (fun b => delimHead_cons (by decide)) ps hps
    have ef : ps.map Prod.fst = (a :: as).map (SdlPrintT.printInputValue s) := by simp [ps, List.map_map, Function.comp_def]
    have ey : joinCls [] ps = Item.yieldAll (((a :: as).map fun x => inputValOf (argToDef s x)).map inputValueV) := by
      rw [joinCls_nil, yieldAll_map]
      simp only [ps, List.flatMap_map]
      apply flatMap_congr'
      intro x hx
      exact (inputValueV_nodesc s x (hnd x hx)).symm
    rw [ef, ey] at l1
    have htxt : SdlPrintT.printArguments s o (a :: as) depth =
        40 :: (Print.joinSep [44, 32] ((a :: as).map (SdlPrintT.printInputValue s)) ++ [41]) := by
      simp [SdlPrintT.printArguments, hm, hargs, joinSep_eq]
    rw [htxt]
    refine ⟨?_, delimHead_cons (by decide)⟩
    have := lay_parenL (lay_append l1 (lay_parenR lay_nil) (delimHead_cons (by decide)))
    simpa [groupV, Item.yieldAll, Item.yield, PrintMatch.yieldAll_append] using this


theorem inputValueV_yield (s : SchemaD) (a : ArgD) :
    (inputValueV (inputValOf (argToDef s a))).yield = Item.yieldAll (descV (descOf (descToDoc a.desc))) ++ ivCore s a := by
  simp [inputValueV, inputValOf, argToDef, ivCore, dfltOf, nameV, directivesV, Item.yield, Item.yieldAll,
    PrintMatch.yieldAll_append]

/-! ### `@deprecated` -/

def kDeprecated : Text := T "deprecated"
def kReason : Text := T "reason"

theorem lay_deprecated (r : Option String) :
    Lay (SdlPrintT.printDeprecated r) (Item.yieldAll (directivesV ((deprDirs r).map dirOf))) ∧
    DelimHead (SdlPrintT.printDeprecated r) ∧ (SdlPrintT.printDeprecated r = [] ∨ EndsNW (SdlPrintT.printDeprecated r)) := by
  have hd : Spec.Lexical.isName kDeprecated = true := by decide
  have hr : Spec.Lexical.isName kReason = true := by decide
  have e1 : T " @deprecated" = 32 :: 64 :: kDeprecated := by decide
  have e2 : T " @deprecated(reason: " = 32 :: 64 :: (kDeprecated ++ 40 :: (kReason ++ [58, 32])) := by decide
  cases r with
  | none => exact ⟨by simpa [SdlPrintT.printDeprecated, deprDirs, directivesV, Item.yieldAll] using lay_nil, delimHead_nil, Or.inl rfl⟩
  | some x =>
    by_cases hx : (x.isEmpty || x == DEFAULT_DEPRECATION) = true
    · have ht : SdlPrintT.printDeprecated (some x) = 32 :: 64 :: kDeprecated := by simp [SdlPrintT.printDeprecated, hx, e1]
      have hdd : deprDirs (some x) = [{ name := "deprecated" }] := by simp [deprDirs, hx]
      rw [ht, hdd]
      refine ⟨?_, delimHead_cons (by decide), Or.inr (endsNW_append (a := [32, 64]) (endsNW_name hd))⟩
      have := lay_space_cons (lay_atSign (lay_name hd))
      simpa [directivesV, directiveV, dirOf, nameOf, nameV, argumentsV, groupV, kDeprecated, Item.yieldAll, Item.yield] using this
    · have hx' : (x.isEmpty || x == DEFAULT_DEPRECATION) = false := by simpa using hx
      have ht : SdlPrintT.printDeprecated (some x) =
          32 :: 64 :: (kDeprecated ++ 40 :: (kReason ++ 58 :: 32 :: (jsonDumps (T x) ++ [41]))) := by
        simp [SdlPrintT.printDeprecated, hx', e2, List.append_assoc]
      have hdd : deprDirs (some x) = [{ name := "deprecated", args := [("reason", .str x)] }] := by simp [deprDirs, hx']
      rw [ht, hdd]
      refine ⟨?_, delimHead_cons (by decide), Or.inr ?_⟩
      · have l1 := lay_append (lay_string (T x)) (lay_parenR lay_nil) (delimHead_cons (by decide))
        have l2 := lay_append (lay_name hr) (lay_colon (lay_space_cons l1)) (delimHead_cons (by decide))
        have l3 := lay_space_cons (lay_atSign (lay_append (lay_name hd) (lay_parenL l2) (delimHead_cons (by decide))))
        simpa [directivesV, directiveV, dirOf, argOf, nameOf, nameV, argumentsV, groupV, argumentV, valueOf, valueV, stringV,
          kDeprecated, kReason, Item.yieldAll, Item.yield, PrintMatch.yieldAll_append, List.append_assoc] using l3
      · have : EndsNW ((32 :: 64 :: (kDeprecated ++ 40 :: (kReason ++ 58 :: 32 :: jsonDumps (T x)))) ++ [41]) :=
          endsNW_snoc _ 41 (by decide)
        simpa [List.append_assoc] using this

/-! ### fields, enum values, input fields -/

/-- what is needed about the printed arguments of a field or directive -/
def ArgsPart (s : SchemaD) (o : SdlPrintT.OptsT) (args : List ArgD) (depth : Nat) : Prop :=
  Lay (SdlPrintT.printArguments s o args depth)
    (Item.yieldAll (groupV .parenL .parenR inputValueV (args.map fun a => inputValOf (argToDef s a)))) ∧
  DelimHead (SdlPrintT.printArguments s o args depth)

theorem lay_field (s : SchemaD) (o : SdlPrintT.OptsT) (hind : Blank o.indent) (i : Nat) (f : FieldD)
    (hn : nameOK f.name = true) (ht : tyOK f.type = true)
    (hdesc : DescPart (SdlPrintT.printDescription o f.desc 1 (i == 0)) (Item.yieldAll (descV (descOf (descToDoc f.desc)))))
    (hargs : ArgsPart s o f.args 1) :
    Lay (SdlPrintT.printField s o i f) (fieldDefinitionV (fieldOf (fieldToDef s f))).yield ∧ SdlPrintT.printField s o i f ≠ [] := by
  obtain ⟨ldep, ddep, edep⟩ := lay_deprecated f.deprecated
  have hends : EndsNW (SdlPrintT.printDescription o f.desc 1 (i == 0) ++ o.indent ++ T f.name ++ SdlPrintT.printArguments s o f.args 1 ++
      [58, 32] ++ SdlPrintT.renderTy f.type ++ SdlPrintT.printDeprecated f.deprecated) :=
    endsNW_append_nil (endsNW_append (endsNW_renderTy _ ht)) edep
  unfold SdlPrintT.printField
  rw [rstrip_of_endsNW hends]
  refine ⟨?_, by obtain ⟨c, hc, _⟩ := hends; intro e; rw [e] at hc; cases hc⟩
  have l1 := lay_colon (lay_space_cons (lay_append (lay_renderTy f.type ht) ldep ddep))
  have l2 := lay_append (lay_nameOf f.name hn) (lay_append hargs.1 l1 (delimHead_cons (by decide)))
    (delimHead_append hargs.2 (delimHead_cons (by decide)))
  have l3 := lay_desc_then hdesc (lay_blank_prefix hind l2)
  simpa [fieldDefinitionV, fieldOf, fieldToDef, nameV, Item.yield, Item.yieldAll, PrintMatch.yieldAll_append,
    List.append_assoc, List.map_map, Function.comp_def] using l3

theorem lay_enumValue (o : SdlPrintT.OptsT) (hind : Blank o.indent) (i : Nat) (v : EnumValD) (hn : nameOK v.name = true)
    (hdesc : DescPart (SdlPrintT.printDescription o v.desc 1 (i == 0)) (Item.yieldAll (descV (descOf (descToDoc v.desc))))) :
    Lay (SdlPrintT.printEnumValue o i v) (enumValueDefinitionV (enumValOf (enumValToDef v))).yield ∧
    SdlPrintT.printEnumValue o i v ≠ [] := by
  obtain ⟨ldep, ddep, edep⟩ := lay_deprecated v.deprecated
  have hends : EndsNW (SdlPrintT.printDescription o v.desc 1 (i == 0) ++ o.indent ++ T v.name ++ SdlPrintT.printDeprecated v.deprecated) :=
    endsNW_append_nil (endsNW_append (endsNW_name hn)) edep
  unfold SdlPrintT.printEnumValue
  rw [rstrip_of_endsNW hends]
  refine ⟨?_, by obtain ⟨c, hc, _⟩ := hends; intro e; rw [e] at hc; cases hc⟩
  have l3 := lay_desc_then hdesc (lay_blank_prefix hind (lay_append (lay_nameOf v.name hn) ldep ddep))
  simpa [enumValueDefinitionV, enumValOf, enumValToDef, nameV, Item.yield, Item.yieldAll, PrintMatch.yieldAll_append,
    List.append_assoc] using l3

theorem lay_inputField (s : SchemaD) (o : SdlPrintT.OptsT) (hind : Blank o.indent) (i : Nat) (a : ArgD) (hc : ArgCore s a)
    (hdesc : DescPart (SdlPrintT.printDescription o a.desc 1 (i == 0)) (Item.yieldAll (descV (descOf (descToDoc a.desc))))) :
    Lay (SdlPrintT.printInputField s o i a) (inputValueV (inputValOf (argToDef s a))).yield ∧
    SdlPrintT.printInputField s o i a ≠ [] := by
  obtain ⟨h1, h2, h3⟩ := hc
  have hne := printInputValue_ne s a h1 h2 h3
  refine ⟨?_, by unfold SdlPrintT.printInputField; intro e; exact hne (List.append_eq_nil_iff.1 e).2⟩
  have l3 := lay_desc_then hdesc (lay_blank_prefix hind (lay_inputValueCore s a h1 h2 h3))
  rw [inputValueV_yield]
  simpa [SdlPrintT.printInputField, List.append_assoc] using l3

end PyGql.SdlText

/-
  `Lay` (layout-robust lexing) for leaves, values, arguments, directives and types.
-/
import PyGqlModel.Lemmas.PrintLay
import PyGqlModel.Lemmas.PrintLexFloat
import PyGqlModel.Lemmas.PrintTokensDir
namespace PyGql.PrintTokens
open PyGql PyGql.Ast PyGql.Parse PyGql.Spec PyGql.Print PyGql.PrintLex PyGql.PrintMatch PyGql.PrintString

/-! ### punctuators -/
theorem lay_dollar {b cb} (h : Lay b cb) : Lay (36 :: b) ((.dollar, []) :: cb) :=
  lay_punct_cons (by decide) (by decide) (by decide) (by decide) rfl (by decide) h
theorem lay_parenL {b cb} (h : Lay b cb) : Lay (40 :: b) ((.parenL, []) :: cb) :=
  lay_punct_cons (by decide) (by decide) (by decide) (by decide) rfl (by decide) h
theorem lay_parenR {b cb} (h : Lay b cb) : Lay (41 :: b) ((.parenR, []) :: cb) :=
  lay_punct_cons (by decide) (by decide) (by decide) (by decide) rfl (by decide) h
theorem lay_colon {b cb} (h : Lay b cb) : Lay (58 :: b) ((.colon, []) :: cb) :=
  lay_punct_cons (by decide) (by decide) (by decide) (by decide) rfl (by decide) h
theorem lay_equals {b cb} (h : Lay b cb) : Lay (61 :: b) ((.equals, []) :: cb) :=
  lay_punct_cons (by decide) (by decide) (by decide) (by decide) rfl (by decide) h
theorem lay_atSign {b cb} (h : Lay b cb) : Lay (64 :: b) ((.atSign, []) :: cb) :=
  lay_punct_cons (by decide) (by decide) (by decide) (by decide) rfl (by decide) h
theorem lay_bracketL {b cb} (h : Lay b cb) : Lay (91 :: b) ((.bracketL, []) :: cb) :=
  lay_punct_cons (by decide) (by decide) (by decide) (by decide) rfl (by decide) h
theorem lay_bracketR {b cb} (h : Lay b cb) : Lay (93 :: b) ((.bracketR, []) :: cb) :=
  lay_punct_cons (by decide) (by decide) (by decide) (by decide) rfl (by decide) h
theorem lay_curlyL {b cb} (h : Lay b cb) : Lay (123 :: b) ((.curlyL, []) :: cb) :=
  lay_punct_cons (by decide) (by decide) (by decide) (by decide) rfl (by decide) h
theorem lay_curlyR {b cb} (h : Lay b cb) : Lay (125 :: b) ((.curlyR, []) :: cb) :=
  lay_punct_cons (by decide) (by decide) (by decide) (by decide) rfl (by decide) h
theorem lay_bang {b cb} (h : Lay b cb) : Lay (33 :: b) ((.bang, []) :: cb) :=
  lay_punct_cons (by decide) (by decide) (by decide) (by decide) rfl (by decide) h
theorem lay_pipe {b cb} (h : Lay b cb) : Lay (124 :: b) ((.pipe, []) :: cb) :=
  lay_punct_cons (by decide) (by decide) (by decide) (by decide) rfl (by decide) h
theorem lay_amp {b cb} (h : Lay b cb) : Lay (38 :: b) ((.amp, []) :: cb) :=
  lay_punct_cons (by decide) (by decide) (by decide) (by decide) rfl (by decide) h

/-! ### leaves -/

theorem name_noLF {w : Text} (h : Spec.Lexical.isName w = true) : ∀ c ∈ w, c ≠ 10 := by
  cases w with
  | nil => simp [Spec.Lexical.isName] at h
  | cons a t =>
    simp only [Spec.Lexical.isName, Bool.and_eq_true, List.all_eq_true] at h
    intro c hc
    simp only [List.mem_cons] at hc
    rcases hc with rfl | hc
    · intro e; subst e; simp [Spec.Lexical.isNameStart, Spec.Lexical.isLetter] at h
    · intro e; subst e
      have := h.2 10 hc
      simp [Spec.Lexical.isNameCont, Spec.Lexical.isNameStart, Spec.Lexical.isLetter, Spec.Lexical.isDigit] at this

theorem lay_name {w : Text} (h : Spec.Lexical.isName w = true) : Lay w [(.name, w)] :=
  lay_of_seg (name_noLF h) (fun _ _ hr hl => lexesTo_name h hr hl)

theorem digits_noLF {ds : Text} (h : ds.all Spec.Lexical.isDigit = true) : ∀ c ∈ ds, c ≠ 10 := by
  intro c hc e; subst e
  have := (List.all_eq_true.1 h) 10 hc
  simp [Spec.Lexical.isDigit] at this

theorem integerPart_noLF {w : Text} (h : Spec.Lexical.isIntegerPart w = true) : ∀ c ∈ w, c ≠ 10 := by
  have key : ∀ (d : Nat) (ds : Text),
      ((d == 48 && ds.isEmpty) || (Spec.Lexical.isNonZeroDigit d && ds.all Spec.Lexical.isDigit)) = true →
      ∀ c ∈ d :: ds, c ≠ 10 := by
    intro d ds h c hc
    simp only [Bool.or_eq_true, Bool.and_eq_true, beq_iff_eq, List.isEmpty_iff] at h
    simp only [List.mem_cons] at hc
    rcases h with ⟨rfl, rfl⟩ | ⟨hd, hds⟩
    · rcases hc with rfl | hc
      · decide
      · cases hc
    · rcases hc with rfl | hc
      · intro e; subst e; simp [Spec.Lexical.isNonZeroDigit] at hd
      · exact digits_noLF hds c hc
  simp only [Spec.Lexical.isIntegerPart] at h
  by_cases hneg : ∃ t, w = 45 :: t
  · obtain ⟨t, rfl⟩ := hneg
    simp only [Spec.Lexical.stripNegativeSign] at h
    cases t with
    | nil => simp at h
    | cons d ds =>
      intro c hc
      simp only [List.mem_cons] at hc
      rcases hc with rfl | hc
      · decide
      · exact key d ds h c (by simpa using hc)
  · cases w with
    | nil => simp [Spec.Lexical.stripNegativeSign] at h
    | cons d ds =>
      have hs : Spec.Lexical.stripNegativeSign (d :: ds) = d :: ds := by
        unfold Spec.Lexical.stripNegativeSign
        split
        · rename_i heq; simp at heq; exact absurd ⟨ds, by rw [heq.1]⟩ hneg
        · rfl
      rw [hs] at h
      exact key d ds h

theorem lay_int {w : Text} (h : Spec.Lexical.isIntValue w = true) : Lay w [(.int, w)] :=
  lay_of_seg (integerPart_noLF h) (fun _ _ hr hl => lexesTo_int h hr hl)

theorem float_noLF {w : Text} (h : Spec.Lexical.isFloatValue w = true) : ∀ c ∈ w, c ≠ 10 := by
  obtain ⟨ip, frac, exp, rfl, hip, hf, he, _⟩ := floatShape_of_isFloatValue w h
  intro c hc
  simp only [List.mem_append] at hc
  rcases hc with hc | hc | hc
  · exact integerPart_noLF hip c hc
  · rcases hf with rfl | hf
    · cases hc
    · match frac, hf, hc with
      | 46 :: d :: ds, hf, hc =>
        simp only [Spec.Lexical.isFractionalPart, Bool.and_eq_true] at hf
        simp only [List.mem_cons] at hc
        rcases hc with rfl | rfl | hc
        · decide
        · intro e; subst e; simp [Spec.Lexical.isDigit] at hf
        · exact digits_noLF hf.2 c hc
  · rcases he with rfl | he
    · cases hc
    · cases exp with
      | nil => cases hc
      | cons i rest =>
        simp only [Spec.Lexical.isExponentPart, Bool.and_eq_true, Bool.or_eq_true, beq_iff_eq] at he
        obtain ⟨hi, hrest⟩ := he
        simp only [List.mem_cons] at hc
        rcases hc with rfl | hc
        · rcases hi with h | h <;> omega
        · have key : ∀ (d : Nat) (ds : Text), (Spec.Lexical.isDigit d && ds.all Spec.Lexical.isDigit) = true →
              ∀ c ∈ d :: ds, c ≠ 10 := by
            intro d ds h c hc
            simp only [Bool.and_eq_true] at h
            simp only [List.mem_cons] at hc
            rcases hc with rfl | hc
            · intro e; subst e; simp [Spec.Lexical.isDigit] at h
            · exact digits_noLF h.2 c hc
          cases rest with
          | nil => cases hc
          | cons x u =>
            by_cases hx : x = 43 ∨ x = 45
            · have hs : Spec.Lexical.stripSign (x :: u) = u := by rcases hx with rfl | rfl <;> rfl
              rw [hs] at hrest
              simp only [List.mem_cons] at hc
              rcases hc with rfl | hc
              · rcases hx with h | h <;> omega
              · cases u with
                | nil => cases hc
                | cons d ds => exact key d ds hrest c hc
            · have hs : Spec.Lexical.stripSign (x :: u) = x :: u := by
                unfold Spec.Lexical.stripSign
                split
                · rename_i heq; simp at heq; exact absurd (Or.inl heq.1) hx
                · rename_i heq; simp at heq; exact absurd (Or.inr heq.1) hx
                · rfl
              rw [hs] at hrest
              exact key x u hrest c hc

theorem lay_float {w : Text} (h : Spec.Lexical.isFloatValue w = true) : Lay w [(.float, w)] :=
  lay_of_seg (float_noLF h) (fun _ _ hr hl => lexesTo_float (floatLexeme_of_isFloatValue w h) hr hl)

theorem jsonEscapeChar_noLF (a : Nat) : ∀ c ∈ jsonEscapeChar a, c ≠ 10 := by
  intro c hc
  have hx : ∀ n, hexDigitLower n ≠ 10 := by intro n; unfold hexDigitLower; split <;> omega
  have h1 := hx (a / 16)
  have h2 := hx (a % 16)
  unfold jsonEscapeChar at hc
  repeat' split at hc
  all_goals simp at hc
  all_goals omega

theorem jsonDumps_noLF (v : Text) : ∀ c ∈ jsonDumps v, c ≠ 10 := by
  have hesc : ∀ v : Text, ∀ c ∈ jsonEscape v, c ≠ 10 := by
    intro v
    induction v with
    | nil => intro c hc; cases hc
    | cons a t ih =>
      intro c hc
      simp only [jsonEscape, List.mem_append] at hc
      rcases hc with hc | hc
      · exact jsonEscapeChar_noLF a c hc
      · exact ih c hc
  intro c hc
  simp [jsonDumps] at hc
  rcases hc with rfl | hc | rfl
  · decide
  · exact hesc v c hc
  · decide

theorem lay_string (v : Text) : Lay (jsonDumps v) [(.string, v)] :=
  lay_of_seg (jsonDumps_noLF v) (fun _ _ hr hl => lexesTo_string hr hl)

end PyGql.PrintTokens

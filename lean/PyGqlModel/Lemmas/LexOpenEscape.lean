/-
  EXACTLY which texts make the lexer report a position beyond the end of the text (ledger L6, `len + 1`):
  the text ends INSIDE AN OPEN QUOTED STRING with a TRUNCATED ESCAPE SEQUENCE.

  `StrChars body`          `body` is a sequence of complete StringCharacters (recogniser only, no values)
  `TruncatedEscape tail`   `tail` is `\` or `\u` + at most three hex digits
  `readStringBody_open`    … then `_read_string` on `body ++ tail` raises NonTerminatedString at `len + 1`
  `readStringBody_beyond`  and conversely an error at `len + 1` of `_read_string` means the rest has this shape
-/
import PyGqlModel.Lemmas.LexRangeEsc
import PyGqlModel.Lemmas.LexUnicodePair
namespace PyGql.Spec.Lexical

/-- StringCharacter* as a recogniser: SourceCharacter but not `"` `\` LineTerminator | `\` EscapedCharacter |
    `\u` EscapedUnicode -/
inductive StrChars : Text → Prop
  | nil : StrChars []
  | char (c : Nat) (t : Text) : c ≠ 92 → c ≠ 34 → isLineTerm c = false → isSourceChar c = true → StrChars t →
      StrChars (c :: t)
  | esc (e : Nat) (t : Text) : (escapedCharacter e).isSome = true → StrChars t → StrChars (92 :: e :: t)
  | uni (a b c d : Nat) (t : Text) : (escapedUnicode a b c d).isSome = true → StrChars t →
      StrChars (92 :: 117 :: a :: b :: c :: d :: t)

/-- an escape sequence cut off by the end of the text: `\`, or `\u` followed by at most three hex digits -/
def TruncatedEscape (tail : Text) : Prop :=
  tail = [92] ∨ ∃ hs, tail = 92 :: 117 :: hs ∧ hs.length < 4 ∧ hs.all isHexDigit = true

theorem TruncatedEscape.length_lt {tail : Text} (h : TruncatedEscape tail) : tail.length < 6 := by
  rcases h with rfl | ⟨hs, rfl, hl, _⟩
  · decide
  · simp; omega

/-- `pre` consists of ignored runs and COMPLETE lexemes (each obeying its follow restriction), standing before `next`,
    the rest of the text, where the next token starts -/
inductive TiledBefore (next : Text) : Text → Prop
  | done (ign : Text) : IgnRun next ign → TiledBefore next ign
  | tok (ign lex rest : Text) (k : TokKind) (v : Text) : IgnRun (lex ++ rest ++ next) ign → Lexeme k lex v →
      Follow k lex (rest ++ next) → TiledBefore next rest → TiledBefore next (ign ++ (lex ++ rest))

/-- THE TEXT ENDS INSIDE AN OPEN QUOTED STRING WITH A TRUNCATED ESCAPE: complete tokens and ignored runs, then a quote
    (not the start of a block string: `body` cannot start with a quote and `tail` starts with a backslash), complete string
    characters, and an escape sequence cut off by the end of the text. -/
def OpenEscape (s : Text) : Prop :=
  ∃ pre body tail, s = pre ++ 34 :: (body ++ tail) ∧ TiledBefore (34 :: (body ++ tail)) pre ∧ StrChars body ∧
    TruncatedEscape tail

end PyGql.Spec.Lexical

namespace PyGql.Lex
open PyGql.Spec.Lexical

theorem all_isHex_spec (hs : Text) : hs.all isHex = hs.all isHexDigit := by
  induction hs with
  | nil => rfl
  | cons c t ih => simp [List.all_cons, isHex_spec, ih]

/-- `_read_string` at a truncated escape: NonTerminatedString one past the end -/
theorem readStringBody_truncated (n : Nat) (tail : Text) (h : TruncatedEscape tail) :
    readStringBody n tail = .error ⟨.nonTerminatedString, n + 1⟩ := by
  have hq : quoted 117 = none := by decide
  rcases h with rfl | ⟨hs, rfl, hl, hh⟩
  · rw [readStringBody.eq_def]; simp
  · rw [← all_isHex_spec] at hh
    match hs, hl, hh with
    | [], _, hh => rw [readStringBody.eq_def]; simp [hq, shortUnicodeErr]
    | [a], _, hh => rw [readStringBody.eq_def]; simp [hq, shortUnicodeErr, hh]
    | [a, b], _, hh => rw [readStringBody.eq_def]; simp [hq, shortUnicodeErr, hh]
    | [a, b, c], _, hh => rw [readStringBody.eq_def]; simp [hq, shortUnicodeErr, hh]

theorem pairAt_some_shape (hi cp e1 e2 a b c d : Nat) (t : Text)
    (h : pairAt hi (e1 :: e2 :: a :: b :: c :: d :: t) = some cp) : e1 = 92 ∧ e2 = 117 ∧ (hex4 a b c d).isSome = true := by
  simp only [pairAt, pairEscape] at h
  split at h
  · rename_i hc
    simp only [Bool.and_eq_true, beq_iff_eq] at hc
    refine ⟨hc.1.2, hc.2, ?_⟩
    cases hx : hex4 a b c d with
    | none => rw [hx] at h; cases h
    | some v => rfl
  · cases h

/-- (⇐) complete string characters, then a truncated escape: the error is at `len + 1` -/
theorem readStringBody_open (n : Nat) : ∀ (k : Nat) (body : Text), body.length ≤ k → StrChars body →
    ∀ tail, TruncatedEscape tail → readStringBody n (body ++ tail) = .error ⟨.nonTerminatedString, n + 1⟩
  | 0, body, hk, _, tail, ht => by
    have : body = [] := List.length_eq_zero_iff.mp (Nat.le_zero.mp hk)
    subst this
    exact readStringBody_truncated n tail ht
  | k + 1, body, hk, hb, tail, ht => by
    cases hb with
    | nil => exact readStringBody_truncated n tail ht
    | char c t h92 h34 hlt hsrc hbt =>
      have ih := readStringBody_open n k t (by simp at hk; omega) hbt tail ht
      have hp : isPrintable c = true := by rw [isPrintable_spec]; simp [hsrc, hlt]
      have hnl : ¬ (c = 10 ∨ c = 13) := by simp [isLineTerm] at hlt; omega
      simp only [List.cons_append]
      rw [readStringBody.eq_def]
      simp [h34, h92, hnl, hp, ih]
    | esc e t he hbt =>
      have ih := readStringBody_open n k t (by simp at hk; omega) hbt tail ht
      obtain ⟨u, hu⟩ := Option.isSome_iff_exists.mp he
      rw [← quoted_spec] at hu
      simp only [List.cons_append]
      rw [readStringBody.eq_def]
      simp [hu, ih]
    | uni a b c d t hx hbt =>
      obtain ⟨ch, hch⟩ := Option.isSome_iff_exists.mp hx
      rw [← hex4_spec] at hch
      simp only [List.cons_append]
      cases hp : pairAt ch (t ++ tail) with
      | none =>
        have ih := readStringBody_open n k t (by simp at hk; omega) hbt tail ht
        rw [readStringBody_unicode_nopair n a b c d ch _ hch hp, ih]; rfl
      | some cp =>
        obtain ⟨e1, e2, a2, b2, c2, d2, t3, heq⟩ := pairAt_some_length ch cp _ hp
        rw [heq] at hp
        obtain ⟨h1, h2, _⟩ := pairAt_some_shape ch cp e1 e2 a2 b2 c2 d2 t3 hp
        have hrest : readStringBody n t3 = .error ⟨.nonTerminatedString, n + 1⟩ := by
          cases hbt with
          | nil =>
            simp only [List.nil_append] at heq
            have := ht.length_lt
            rw [heq] at this; simp at this; omega
          | char c' t' h92' _ _ _ _ =>
            simp only [List.cons_append, List.cons.injEq] at heq
            exact absurd (heq.1.trans h1) h92'
          | esc e' t' he' _ =>
            simp only [List.cons_append, List.cons.injEq] at heq
            have : e' = 117 := heq.2.1.trans h2
            subst this
            exact absurd he' (by decide)
          | uni a' b' c' d' t'' _ hbt'' =>
            simp only [List.cons_append, List.cons.injEq] at heq
            obtain ⟨_, _, _, _, _, _, rfl⟩ := heq
            exact readStringBody_open n k t'' (by simp at hk; omega) hbt'' tail ht
        rw [heq, readStringBody_unicode_pair n a b c d ch e1 e2 a2 b2 c2 d2 cp t3 hch hp, hrest]; rfl

theorem short_trunc (n : Nat) (t1 : Text) (hl : t1.length < 4) (hpos : (shortUnicodeErr n t1).pos = n + 1) :
    ∃ body tail, 92 :: 117 :: t1 = body ++ tail ∧ StrChars body ∧ TruncatedEscape tail := by
  unfold shortUnicodeErr at hpos
  split at hpos
  · rename_i hh
    rw [all_isHex_spec] at hh
    exact ⟨[], _, rfl, .nil, .inr ⟨t1, rfl, hl, hh⟩⟩
  · simp only [posAt] at hpos; omega

/-- (⇒) an error of `_read_string` one past the end: the rest is complete string characters and a truncated escape -/
theorem readStringBody_beyond (n : Nat) (s : Text) : ∀ e, readStringBody n s = .error e → e.pos = n + 1 →
    ∃ body tail, s = body ++ tail ∧ StrChars body ∧ TruncatedEscape tail := by
  fun_induction readStringBody n s <;> intro e h hpos
  case case1 => cases h; simp at hpos
  case case2 => cases h
  case case3 => exact ⟨[], [92], rfl, .nil, .inl rfl⟩
  case case4 => cases h
  case case5 e' t1 lo hq err hrec _ ih =>
    cases h
    obtain ⟨body, tail, rfl, hb, ht⟩ := ih _ hrec hpos
    rw [quoted_spec] at hq
    exact ⟨92 :: e' :: body, tail, rfl, .esc _ _ (by rw [hq]; rfl) hb, ht⟩
  case case6 => cases h
  case case7 a b c' d ch hx cp e1 e2 a2 b2 c2 d2 t3 err hrec _ _ hp ih =>
    cases h
    obtain ⟨body, tail, rfl, hb, ht⟩ := ih _ hrec hpos
    obtain ⟨rfl, rfl, hx2⟩ := pairAt_some_shape _ _ _ _ _ _ _ _ _ hp
    rw [hex4_spec] at hx hx2
    exact ⟨92 :: 117 :: a :: b :: c' :: d :: 92 :: 117 :: a2 :: b2 :: c2 :: d2 :: body, tail, rfl,
      .uni _ _ _ _ _ (by rw [hx]; rfl) (.uni _ _ _ _ _ hx2 hb), ht⟩
  case case8 => cases h; simp only [posAt] at hpos; omega
  case case9 => cases h
  case case10 a b c' d t2 ch hx _ err hrec _ _ ih =>
    cases h
    obtain ⟨body, tail, rfl, hb, ht⟩ := ih _ hrec hpos
    rw [hex4_spec] at hx
    exact ⟨92 :: 117 :: a :: b :: c' :: d :: body, tail, rfl, .uni _ _ _ _ _ (by rw [hx]; rfl) hb, ht⟩
  case case11 => cases h; simp only [posAt] at hpos; omega
  case case12 t1 hno _ _ =>
    cases h
    exact short_trunc n t1 (short_of_no_four _ hno) hpos
  case case13 => cases h; simp only [posAt] at hpos; omega
  case case14 => cases h; simp only [posAt] at hpos; omega
  case case15 => cases h; simp only [posAt] at hpos; omega
  case case16 => cases h
  case case17 c t h34 h92 hnl hp err hrec ih =>
    cases h
    obtain ⟨body, tail, rfl, hb, ht⟩ := ih _ hrec hpos
    have hp' : isPrintable c = true := by simpa using hp
    rw [isPrintable_spec] at hp'
    simp only [Bool.and_eq_true, Bool.not_eq_true'] at hp'
    exact ⟨c :: body, tail, rfl, .char c body h92 h34 hp'.2 hp'.1 hb, ht⟩

end PyGql.Lex

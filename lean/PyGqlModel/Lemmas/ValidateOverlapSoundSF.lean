/-
  `OverlappingFieldsCanBeMergedChecker`, soundness half, part 3: THE SEARCH IS COMPLETE on documents without
  fragment spreads, when it does not crash and the routes to the parent types agree: `_find_conflict` returning
  false means the two fields do not conflict (`Spec.Conf`), a zero count of `_conflicts_between` /
  `_conflicts_between_subselections` means no cross pair conflicts. By induction on the fuel; a run that did not
  crash at the end did not crash before (the crash flag is never reset).
-/
import PyGqlModel.Lemmas.ValidateOverlapComplete
namespace PyGql.Validate
open PyGql PyGql.Validate.Spec

/-- a counting loop that ends without a crash started without one, and a zero total means every item counted zero -/
theorem sumLoop_complete {α} (xs : List α) (f : α → OCtx → Nat × OCtx) (P : OCtx → Prop) (Q : α → Prop)
    (hf : ∀ x ∈ xs, ∀ c, P c → P (f x c).2 ∧ ((f x c).2.crash = none → c.crash = none ∧ ((f x c).1 = 0 → Q x)))
    (c : OCtx) (hc : P c) (hn : (sumLoop xs f c).2.crash = none) :
    c.crash = none ∧ ((sumLoop xs f c).1 = 0 → ∀ x ∈ xs, Q x) := by
  unfold sumLoop at hn ⊢
  have key : ∀ (ys : List α) (acc : Nat × OCtx), (∀ x ∈ ys, x ∈ xs) → P acc.2 →
      (ys.foldl (fun (acc : Nat × OCtx) x =>
        if acc.2.crash.isSome then acc else ((acc.1 + (f x acc.2).1, (f x acc.2).2) : Nat × OCtx)) acc).2.crash = none →
      acc.2.crash = none ∧
      ((ys.foldl (fun (acc : Nat × OCtx) x =>
        if acc.2.crash.isSome then acc else ((acc.1 + (f x acc.2).1, (f x acc.2).2) : Nat × OCtx)) acc).1 = 0 →
        acc.1 = 0 ∧ ∀ x ∈ ys, Q x) := by
    intro ys
    induction ys with
    | nil => intro acc _ _ h; exact ⟨h, fun h0 => ⟨h0, fun _ hx => nomatch hx⟩⟩
    | cons y ys ih =>
      intro acc hsub hp h
      rw [List.foldl_cons] at h ⊢
      have hy : y ∈ xs := hsub y (List.mem_cons_self ..)
      have hys : ∀ x ∈ ys, x ∈ xs := fun x hx => hsub x (List.mem_cons_of_mem _ hx)
      by_cases hcr : acc.2.crash.isSome = true
      · rw [if_pos hcr] at h ⊢
        obtain ⟨a, _⟩ := ih acc hys hp h
        rw [a] at hcr; cases hcr
      · rw [if_neg hcr] at h ⊢
        obtain ⟨p1, q1⟩ := hf y hy acc.2 hp
        obtain ⟨a, b⟩ := ih (acc.1 + (f y acc.2).1, (f y acc.2).2) hys p1 h
        obtain ⟨c1, c2⟩ := q1 a
        refine ⟨c1, fun h0 => ?_⟩
        obtain ⟨b1, b2⟩ := b h0
        simp only at b1
        refine ⟨by omega, fun x hx => ?_⟩
        rcases List.mem_cons.mp hx with rfl | hx
        · exact c2 (by omega)
        · exact b2 x hx
  obtain ⟨a, b⟩ := key xs (0, c) (fun _ h => h) hc hn
  exact ⟨a, fun h0 => (b h0).2⟩

theorem sumLoop_complete' {α} (xs : List α) (f : α → OCtx → Nat × OCtx) (P : OCtx → Prop) (Q : α → Prop) (R : Prop)
    (hf : ∀ x ∈ xs, ∀ c, P c → P (f x c).2 ∧ ((f x c).2.crash = none → c.crash = none ∧ ((f x c).1 = 0 → Q x)))
    (hR : (∀ x ∈ xs, Q x) → R) (c : OCtx) (hc : P c) (hn : (sumLoop xs f c).2.crash = none) :
    c.crash = none ∧ ((sumLoop xs f c).1 = 0 → R) := by
  obtain ⟨a, b⟩ := sumLoop_complete xs f P Q hf c hc hn
  exact ⟨a, fun h0 => hR (b h0)⟩

section
variable (s : SchemaD) (fx : Fixes) (d : Doc)

def CFind (fuel : Nat) : Prop :=
  ∀ pme f1 f2 c, CI s d c → Ent s d f1 → Ent s d f2 → (findConflict s fx fuel pme f1 f2 c).2.crash = none →
    c.crash = none ∧ ((findConflict s fx fuel pme f1 f2 c).1 = false → ¬ Conf s d pme f1 f2)

def CCb (fuel : Nat) : Prop :=
  ∀ me fm1 fm2 c, CI s d c → EntOK (fun _ e => Ent s d e) fm1 → EntOK (fun _ e => Ent s d e) fm2 →
    (conflictsBetween s fx fuel me fm1 fm2 c).2.crash = none →
    c.crash = none ∧ ((conflictsBetween s fx fuel me fm1 fm2 c).1 = 0 →
      ∀ rn e1 e2, e1 ∈ AL.getD fm1 rn [] → e2 ∈ AL.getD fm2 rn [] → ¬ Conf s d me e1 e2)

def CSs (fuel : Nat) : Prop :=
  ∀ me p1 id1 sels1 p2 id2 sels2 c, CI s d c → SelSet d id1 sels1 → Adm s d id1 p1 → SelSet d id2 sels2 →
    Adm s d id2 p2 → (betweenSubselections s fx fuel me p1 id1 sels1 p2 id2 sels2 c).2.crash = none →
    c.crash = none ∧ ((betweenSubselections s fx fuel me p1 id1 sels1 p2 id2 sels2 c).1 = 0 →
      ∀ rn e1 e2, CollD s p1 sels1 rn e1 → CollD s p2 sels2 rn e2 → ¬ Conf s d me e1 e2)

theorem step_cfind (hns : NoSpreads d) (hpa : ParentsAgree s d) (fuel : Nat) (hcss : CSs s fx d fuel) :
    CFind s fx d (fuel + 1) := by
  intro pme f1 f2 c hc h1 h2
  simp only [findConflict]
  generalize hm0 : (pme || _) = me
  have hm : (pme || exclusiveParents s f1 f2) = me := hm0
  clear hm0
  -- the tail shared by the two ways of passing the argument check
  have htail : (∀ (_ : me = false), ¬ (f1.name ≠ f2.name ∨ sameArguments f1.args f2.args = some false)) →
      (if (match f1.fdef.map (·.type), f2.fdef.map (·.type) with
          | some a, some b => typesConflict s a b
          | _, _ => false) = true then (true, c)
        else if (f1.hasSub && f2.hasSub) = true then
          (decide ((betweenSubselections s fx fuel me ((f1.fdef.map (·.type)).map (·.base)) f1.ssid f1.sub
            ((f2.fdef.map (·.type)).map (·.base)) f2.ssid f2.sub c).1 > 0),
           (betweenSubselections s fx fuel me ((f1.fdef.map (·.type)).map (·.base)) f1.ssid f1.sub
            ((f2.fdef.map (·.type)).map (·.base)) f2.ssid f2.sub c).2)
        else (false, c)).2.crash = none →
      c.crash = none ∧
      ((if (match f1.fdef.map (·.type), f2.fdef.map (·.type) with
          | some a, some b => typesConflict s a b
          | _, _ => false) = true then (true, c)
        else if (f1.hasSub && f2.hasSub) = true then
          (decide ((betweenSubselections s fx fuel me ((f1.fdef.map (·.type)).map (·.base)) f1.ssid f1.sub
            ((f2.fdef.map (·.type)).map (·.base)) f2.ssid f2.sub c).1 > 0),
           (betweenSubselections s fx fuel me ((f1.fdef.map (·.type)).map (·.base)) f1.ssid f1.sub
            ((f2.fdef.map (·.type)).map (·.base)) f2.ssid f2.sub c).2)
        else (false, c)).1 = false → ¬ Conf s d pme f1 f2) := by
    intro hA
    have htypes : (match f1.fdef.map (·.type), f2.fdef.map (·.type) with
        | some a, some b => typesConflict s a b
        | _, _ => false) = false → ∀ t1 t2, f1.fdef.map (·.type) = some t1 → f2.fdef.map (·.type) = some t2 →
        typesConflict s t1 t2 = true → False := by
      intro h t1 t2 e1 e2 e3
      rw [e1, e2] at h
      simp only at h
      rw [h] at e3; cases e3
    generalize htcd : (match f1.fdef.map (·.type), f2.fdef.map (·.type) with
      | some a, some b => typesConflict s a b
      | _, _ => false) = tc at htypes
    cases tc with
    | true => exact fun h => ⟨h, fun h' => by cases h'⟩
    | false =>
      simp only [Bool.false_eq_true, ↓reduceIte]
      have hargsNo : ∀ {X : Prop}, (pme || exclusiveParents s f1 f2) = false →
          (f1.name ≠ f2.name ∨ sameArguments f1.args f2.args = some false) → X := by
        intro X hme harg
        exact absurd harg (hA (by rw [← hm]; exact hme))
      by_cases hsd : (f1.hasSub && f2.hasSub) = true
      · rw [if_pos hsd]
        simp only [Bool.and_eq_true] at hsd
        obtain ⟨s1, a1⟩ := h1.sub hsd.1
        obtain ⟨s2, a2⟩ := h2.sub hsd.2
        intro hcr
        obtain ⟨k1, k2⟩ := hcss me _ _ _ _ _ _ c hc s1 a1 s2 a2 hcr
        refine ⟨k1, fun h0 hC => ?_⟩
        have hk := k2 (by simpa using h0)
        cases hC with
        | args hme harg => exact hargsNo hme harg
        | types e1 e2 e3 => exact htypes rfl _ _ e1 e2 e3
        | sub _ _ b1 b2 b3 b4 b5 =>
          rw [hpa _ _ _ b1 a1] at b3
          rw [hpa _ _ _ b2 a2] at b4
          exact hk _ _ _ (coll_noSpreads hns s1 b3) (coll_noSpreads hns s2 b4) (by rw [← hm]; exact b5)
        | subSwap _ _ b1 b2 b3 b4 b5 =>
          rw [hpa _ _ _ b1 a1] at b3
          rw [hpa _ _ _ b2 a2] at b4
          exact hk _ _ _ (coll_noSpreads hns s1 b3) (coll_noSpreads hns s2 b4) (by rw [← hm]; exact Conf.symm b5)
      · rw [if_neg hsd]
        intro hcr
        refine ⟨hcr, fun _ hC => ?_⟩
        cases hC with
        | args hme harg => exact hargsNo hme harg
        | types e1 e2 e3 => exact htypes rfl _ _ e1 e2 e3
        | sub x1 x2 => exact hsd (by simp [x1, x2])
        | subSwap x1 x2 => exact hsd (by simp [x1, x2])
  cases me with
  | true =>
    simp only [↓reduceIte]
    exact htail (fun h => by cases h)
  | false =>
    simp only [Bool.false_eq_true, ↓reduceIte]
    by_cases hn : (f1.name != f2.name) = true
    · simp only [hn, ↓reduceIte]
      exact fun h => ⟨h, fun h' => by cases h'⟩
    · simp only [hn, Bool.false_eq_true, ↓reduceIte]
      cases hsa : sameArguments f1.args f2.args with
      | none => exact fun h => by cases h
      | some b =>
        cases b with
        | false => exact fun h => ⟨h, fun h' => by cases h'⟩
        | true =>
          refine htail (fun _ harg => ?_)
          rcases harg with h | h
          · exact h (by simpa using hn)
          · rw [hsa] at h; cases h

end
end PyGql.Validate

/-
  C12 text level — matcher side: the views of the trees `docToAst` constructs (no positions by construction, member
  descriptions included) are matched by their canonical yields.
-/
import PyGqlModel.Lemmas.SdlTextDoc
import PyGqlModel.Lemmas.PrintDocMatch
namespace PyGql.SdlText
open PyGql PyGql.Ast PyGql.Sdl PyGql.Spec PyGql.PrintLex PyGql.PrintTokens PyGql.PrintMatch PyGql.SdlPrint PyGql.Parse

mutual
theorem noLocValue_valueOf : ∀ (l : Lit), noLocValue (valueOf l) = true
  | .null => rfl
  | .int _ _ => rfl
  | .float _ _ => rfl
  | .str _ => rfl
  | .bool _ => rfl
  | .enum _ => rfl
  | .list l => by simp [valueOf, noLocValue, noLocValues_valuesOf l]
  | .obj fs => by simp [valueOf, noLocValue, noLocFields_fieldsOf fs]
theorem noLocValues_valuesOf : ∀ (l : List Lit), noLocValues (valuesOf l) = true
  | [] => rfl
  | v :: vs => by simp [valuesOf, noLocValues, noLocValue_valueOf v, noLocValues_valuesOf vs]
theorem noLocFields_fieldsOf : ∀ (fs : List (String × Lit)), noLocFields (fieldsOf fs) = true
  | [] => rfl
  | (k, v) :: fs => by simp [fieldsOf, noLocFields, noLocField, nameOf, noLocValue_valueOf v, noLocFields_fieldsOf fs]
end

theorem noLocDirective_dirOf (d : DirApp) : noLocDirective (dirOf d) = true := by
  simp [dirOf, noLocDirective, nameOf, argOf, noLocArgument, noLocValue_valueOf]

theorem plainAll_dirs (ds : List DirApp) : plainAll (directivesV (ds.map dirOf)) = true :=
  plainAll_directivesV _ (by simp [noLocDirective_dirOf])

theorem plainAll_descOf (d : Option String) : plainAll (descV (descOf d)) = true := by
  cases d <;> simp [descOf, descV, optV, stringV, plainAll, plain, Item.yieldAll, Item.yield]

theorem plain_nameOf (n : String) : plain (nameV (nameOf n)) = true := by
  simp [nameOf, nameV, plain, plainAll, Item.yieldAll, Item.yield]
theorem plain_namedOf (n : String) : plain (namedTypeV (namedOf n)) = true := by
  simp [namedOf, nameOf, namedTypeV, nameV, plain, plainAll, Item.yieldAll, Item.yield]

theorem plain_inputValOf (a : InputValDef) : plain (inputValueV (inputValOf a)) = true := by
  have hd := plainAll_dirs a.dirs
  have ht := plain_typeV _ (noLocType_typeOf a.type)
  have hdesc := plainAll_descOf a.desc
  have hdef : plainAll (defaultV (a.default.map valueOf)) = true := by
    cases a.default with
    | none => rfl
    | some v => simp [defaultV, plainAll, plain, plain_valueV _ (noLocValue_valueOf v)]
  simp [inputValueV, inputValOf, nameOf, nameV, plain, plainAll, plainAll_append, Item.yieldAll, Item.yield,
    PrintMatch.yieldAll_append, hd, ht, hdesc, hdef]

theorem plainAll_argDefs (as : List InputValDef) : plainAll (groupV .parenL .parenR inputValueV (as.map inputValOf)) = true := by
  unfold groupV
  split
  · rfl
  · have := plainAll_map inputValueV (as.map inputValOf) (by
      intro x hx; simp only [List.mem_map] at hx; obtain ⟨y, _, rfl⟩ := hx; exact plain_inputValOf y)
    rw [List.map_map] at this
    simp [plainAll, plainAll_append, plain, this]

theorem plain_fieldOf (f : FieldDef) : plain (fieldDefinitionV (fieldOf f)) = true := by
  have hd := plainAll_dirs f.dirs
  have ht := plain_typeV _ (noLocType_typeOf f.type)
  have hdesc := plainAll_descOf f.desc
  have ha := plainAll_argDefs f.args
  simp [fieldDefinitionV, fieldOf, nameOf, nameV, plain, plainAll, plainAll_append, Item.yieldAll, Item.yield,
    PrintMatch.yieldAll_append, hd, ht, hdesc, ha]

theorem plain_enumValOf (v : EnumValDef) : plain (enumValueDefinitionV (enumValOf v)) = true := by
  have hd := plainAll_dirs v.dirs
  have hdesc := plainAll_descOf v.desc
  simp [enumValueDefinitionV, enumValOf, nameOf, nameV, plain, plainAll, plainAll_append, Item.yieldAll, Item.yield,
    PrintMatch.yieldAll_append, hd, hdesc]

theorem plain_opTypeOf (p : String × String) : plain (operationTypeV (opTypeOf p)) = true := by
  simp [operationTypeV, opTypeOf, kw, plain, plainAll, Item.yieldAll, Item.yield, plain_namedOf]

/-- a `{ X+ }` block with at least one member -/
theorem pf_block_ne {α} (f : α → Item) (xs : List α) (hne : xs ≠ []) (hp : ∀ x ∈ xs, plain (f x) = true) (fol : List TokClass) :
    plainAllF (blockV f xs) fol = true :=
  plainAllF_blockV f xs fol hp (by intro he; exact absurd (List.isEmpty_iff.1 he) hne)

theorem pf_implements (ifs : List String) (fol : List TokClass) : plainAllF (implementsV (ifs.map namedOf)) fol = true := by
  unfold implementsV
  split
  · rfl
  · exact pf_cons_plain rfl (plainAllF_sepV .amp (by decide) namedTypeV _ fol
      (by intro x hx; simp only [List.mem_map] at hx; obtain ⟨y, _, rfl⟩ := hx; exact plain_namedOf y)
      (fun x _ => namedTypeV_head x))

theorem pf_unionMembers (ms : List String) (fol : List TokClass) : plainAllF (unionMembersV (ms.map namedOf)) fol = true := by
  unfold unionMembersV
  split
  · rfl
  · exact pf_cons_plain rfl (plainAllF_sepV .pipe (by decide) namedTypeV _ fol
      (by intro x hx; simp only [List.mem_map] at hx; obtain ⟨y, _, rfl⟩ := hx; exact plain_namedOf y)
      (fun x _ => namedTypeV_head x))

/-- members are present where the grammar's optional block would otherwise be absent -/
def membersNonEmpty (t : TypeDef) : Prop :=
  match t.kind with
  | .object | .interface => t.fields ≠ []
  | .enum => t.values ≠ []
  | .input => t.inputFields ≠ []
  | _ => True

theorem plainF_typeDefOf (t : TypeDef) (hne : membersNonEmpty t) (fol : List TokClass) :
    plainF (definitionV (typeDefOf t)) fol = true := by
  have hdesc := plainAll_descOf t.desc
  have hdirs := plainAll_dirs t.dirs
  unfold membersNonEmpty at hne
  cases hk : t.kind <;> rw [hk] at hne <;>
    simp only [typeDefOf, hk, definitionV, plainF, Bool.and_eq_true, Option.isNone_none, Bool.not_eq_true',
      List.isEmpty_eq_false_iff, true_and]
  · exact ⟨pf_append_plain hdesc (pf_cons_plain rfl (pf_cons_plain (plain_nameOf _) (pf_of_plainAll hdirs))),
      by simp [Item.yieldAll, Item.yield, PrintMatch.yieldAll_append]⟩
  · refine ⟨pf_append_plain hdesc (pf_cons_plain rfl (pf_cons_plain (plain_nameOf _)
      (pf_append_all (fun f' => pf_append_all (fun f'' => pf_implements _ f'') (pf_of_plainAll hdirs))
        (pf_block_ne _ _ (by simpa using hne) (by
          intro x hx; simp only [List.mem_map] at hx; obtain ⟨y, _, rfl⟩ := hx; exact plain_fieldOf y) fol)))),
      by simp [Item.yieldAll, Item.yield, PrintMatch.yieldAll_append]⟩
  · refine ⟨pf_append_plain hdesc (pf_cons_plain rfl (pf_cons_plain (plain_nameOf _)
      (pf_append_plain hdirs (pf_block_ne _ _ (by simpa using hne) (by
          intro x hx; simp only [List.mem_map] at hx; obtain ⟨y, _, rfl⟩ := hx; exact plain_fieldOf y) fol)))),
      by simp [Item.yieldAll, Item.yield, PrintMatch.yieldAll_append]⟩
  · exact ⟨pf_append_plain hdesc (pf_cons_plain rfl (pf_cons_plain (plain_nameOf _)
      (pf_append_plain hdirs (pf_unionMembers _ fol)))), by simp [Item.yieldAll, Item.yield, PrintMatch.yieldAll_append]⟩
  · refine ⟨pf_append_plain hdesc (pf_cons_plain rfl (pf_cons_plain (plain_nameOf _)
      (pf_append_plain hdirs (pf_block_ne _ _ (by simpa using hne) (by
          intro x hx; simp only [List.mem_map] at hx; obtain ⟨y, _, rfl⟩ := hx; exact plain_enumValOf y) fol)))),
      by simp [Item.yieldAll, Item.yield, PrintMatch.yieldAll_append]⟩
  · refine ⟨pf_append_plain hdesc (pf_cons_plain rfl (pf_cons_plain (plain_nameOf _)
      (pf_append_plain hdirs (pf_block_ne _ _ (by simpa using hne) (by
          intro x hx; simp only [List.mem_map] at hx; obtain ⟨y, _, rfl⟩ := hx; exact plain_inputValOf y) fol)))),
      by simp [Item.yieldAll, Item.yield, PrintMatch.yieldAll_append]⟩

theorem plainF_directiveDef (d : DirDef) (fol : List TokClass) :
    plainF (definitionV (defTree (.directive d))) fol = true := by
  simp only [defTree, definitionV, plainF, Bool.and_eq_true, Option.isNone_none, Bool.not_eq_true',
    List.isEmpty_eq_false_iff, true_and]
  exact ⟨pf_append_plain (plainAll_descOf d.desc) (pf_cons_plain rfl (pf_cons_plain rfl (pf_cons_plain (plain_nameOf _)
    (pf_append_plain (plainAll_argDefs d.args) (pf_cons_plain rfl (plainAllF_sepV .pipe (by decide) nameV _ fol
      (by intro x hx; simp only [List.mem_map] at hx; obtain ⟨y, _, rfl⟩ := hx; exact plain_nameOf y)
      (fun x _ => nameV_head x))))))), by simp [Item.yieldAll, Item.yield, PrintMatch.yieldAll_append]⟩

theorem plainF_schemaDef (sd : SchemaDef) (fol : List TokClass) : plainF (definitionV (defTree (.schema sd))) fol = true := by
  simp only [defTree, definitionV, plainF, Bool.and_eq_true, Option.isNone_none, Bool.not_eq_true',
    List.isEmpty_eq_false_iff, true_and]
  have hops := plainAll_map operationTypeV (sd.ops.map opTypeOf) (by
    intro x hx; simp only [List.mem_map] at hx; obtain ⟨y, _, rfl⟩ := hx; exact plain_opTypeOf y)
  rw [List.map_map] at hops
  refine ⟨pf_cons_plain rfl (pf_append_plain (plainAll_dirs sd.dirs) (pf_of_plainAll ?_)), by simp [Item.yieldAll, Item.yield]⟩
  simp [plainAll, plainAll_append, plain, hops]

end PyGql.SdlText

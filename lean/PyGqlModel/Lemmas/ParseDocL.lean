/-
  Layer 3 (document level): `parse_executable_definition`, `parse_definition`, `parse_document`.
  The type-system branches are abstracted as hypotheses (`TSSound`, `TSComplete`), discharged in layer 4;
  with `allow_type_system = false` they are unreachable.
-/
import PyGqlModel.Lemmas.ParseExecD
namespace PyGql.Parse
open PyGql PyGql.Ast PyGql.Spec

/-! ### `parse_executable_definition` -/

theorem opKeywords_iff (v : Text) :
    v ∈ Generated.ParserTables.operationTypesKeywords ↔ v ∈ Generated.ParserTables.operationTypeTuple := by
  simp [Generated.ParserTables.operationTypesKeywords, Generated.ParserTables.operationTypeTuple] <;> grind

theorem parseExecutableDefinition_sound (fl : Flags) (fuel : Nat) (s : PS) (d : Definition) (s' : PS)
    (h : parseExecutableDefinition fl fuel s = .ok (d, s')) :
    wfDefinition fl d = true ∧ isTypeSystem d = false ∧
      (definitionV d).check fl s.last s.toks = some (s'.last, s'.toks) := by
  simp only [parseExecutableDefinition, bind_ok, peek_ok, ite_ok, pure_ok, fail_ok, and_false, or_false] at h
  obtain ⟨st, s1, ⟨ts, h1, hs1⟩, h⟩ := h
  subst hs1
  rcases h with ⟨_, ⟨_, od, s2, ho, hfin⟩ | ⟨_, _, fd, s2, hfd, hfin⟩⟩ | ⟨_, _, od, s2, ho, hfin⟩
  · cases hfin
    obtain ⟨w, c⟩ := parseOperationDefinition_sound fl fuel _ _ _ ho
    exact ⟨by simpa [wfDefinition] using w, rfl, by simpa [definitionV] using c⟩
  · cases hfin
    obtain ⟨w, c⟩ := parseFragmentDefinition_sound fl fuel _ _ _ hfd
    exact ⟨by simpa [wfDefinition] using w, rfl, by simpa [definitionV] using c⟩
  · cases hfin
    obtain ⟨w, c⟩ := parseOperationDefinition_sound fl fuel _ _ _ ho
    exact ⟨by simpa [wfDefinition] using w, rfl, by simpa [definitionV] using c⟩

/-- the first token of an operation: `{` or an operation type keyword -/
theorem operationV_first {fl : Flags} {d : OperationDefinition} {l : Tok} {ts : List Tok} {r : Tok × List Tok}
    (w : wfOperation d = true) (h : (operationV d).check fl l ts = some r) :
    ∃ t tl, ts = t :: tl ∧ (t.kind = .curlyL ∨
      (t.kind = .name ∧ t.value ∈ Generated.ParserTables.operationTypeTuple)) := by
  rcases r with ⟨l', rest⟩
  rcases d with ⟨op, nm, vds, ds, ss, loc⟩
  simp only [wfOperation, Bool.and_eq_true, decide_eq_true_eq] at w
  by_cases hsh : isShorthand ⟨op, nm, vds, ds, ss, loc⟩ = true
  · simp only [operationV, hsh, if_true, check_node] at h
    obtain ⟨f, tl, rfl, hall, _⟩ := h
    refine ⟨f, tl, rfl, ?_⟩
    rw [checkAll_cons] at hall
    obtain ⟨l1, ts1, hopt, hs⟩ := hall
    rw [check_optTok] at hopt
    rcases hopt with ⟨t, e, hc, _⟩ | ⟨_, rfl, _⟩
    · cases e
      obtain ⟨hk, hv⟩ := cls_kw_inv hc
      exact Or.inr ⟨hk, hv ▸ query_mem⟩
    · simp only [checkAll_cons] at hs
      obtain ⟨_, _, hs, _⟩ := hs
      obtain ⟨t, tl', e, hk⟩ := selectionSetV_first hs
      cases e; exact Or.inl hk
  · simp only [operationV, hsh, Bool.false_eq_true, if_false, check_node, checkAll_cons, check_tok] at h
    obtain ⟨f, tl, rfl, ⟨l1, ts1, ⟨t, e, hc, _⟩, _⟩, _⟩ := h
    cases e
    obtain ⟨hk, hv⟩ := cls_kw_inv hc
    exact ⟨_, _, rfl, Or.inr ⟨hk, hv ▸ w.1.1.1⟩⟩

theorem fragmentV_first {fl : Flags} {d : FragmentDefinition} {l : Tok} {ts : List Tok} {r : Tok × List Tok}
    (h : (fragmentV d).check fl l ts = some r) :
    ∃ t tl, ts = t :: tl ∧ t.kind = .name ∧ t.value = K.fragment := by
  rcases r with ⟨l', rest⟩
  simp only [fragmentV, check_node, checkAll_cons, check_tok] at h
  obtain ⟨f, tl, rfl, ⟨l1, ts1, ⟨t, e, hc, _⟩, _⟩, _⟩ := h
  cases e
  exact ⟨_, _, rfl, cls_kw_inv hc⟩

theorem fragment_not_op : K.fragment ∉ Generated.ParserTables.operationTypesKeywords := by decide

theorem parseExecutableDefinition_complete (fl : Flags) (fuel : Nat) (d : Definition) (l l' : Tok)
    (ts rest : List Tok) (hx : isTypeSystem d = false) (w : wfDefinition fl d = true) (hf : ts.length ≤ fuel)
    (h : (definitionV d).check fl l ts = some (l', rest)) :
    parseExecutableDefinition fl fuel ⟨ts, l⟩ = .ok (d, ⟨rest, l'⟩) := by
  cases d with
  | operation od =>
    simp only [wfDefinition] at w
    simp only [definitionV] at h
    have c := parseOperationDefinition_complete fl fuel od l l' ts rest w hf h
    obtain ⟨t, tl, rfl, hk⟩ := operationV_first w h
    rcases hk with hk | ⟨hk, hv⟩
    · simp [parseExecutableDefinition, bind_eq, peek_cons, hk, c, pure_eq]
    · simp [parseExecutableDefinition, bind_eq, peek_cons, hk, (opKeywords_iff _).2 hv, c, pure_eq]
  | fragment fd =>
    simp only [wfDefinition] at w
    simp only [definitionV] at h
    have c := parseFragmentDefinition_complete fl fuel fd l l' ts rest w hf h
    obtain ⟨t, tl, rfl, hk, hv⟩ := fragmentV_first h
    have := fragment_not_op
    simp [parseExecutableDefinition, bind_eq, peek_cons, hk, hv, this, c, pure_eq]
  | _ => simp [isTypeSystem] at hx


/-! ### `parse_definition`, `parse_document` -/

/-- the keywords that can start a definition -/
def defKeywords : List Text :=
  [K.query, K.mutation, K.subscription, K.fragment, K.schema, K.scalar, K.type_, K.interface_, K.union, K.enum_,
   K.input, K.directive, K.extend]

/-- the token after a definition starts the next definition or is `<EOF>` -/
def DefStart (t : Tok) : Prop :=
  t.kind = .eof ∨ t.kind = .curlyL ∨ t.kind = .string ∨ t.kind = .blockString ∨
    (t.kind = .name ∧ t.value ∈ defKeywords)

def FollowDef (ts : List Tok) : Prop := ∃ t tl, ts = t :: tl ∧ DefStart t

/-- type-system EXTENSION? -/
def isExtension : Definition → Bool
  | .schemaExtension .. | .scalarTypeExtension .. | .objectTypeExtension .. | .interfaceTypeExtension ..
  | .unionTypeExtension .. | .enumTypeExtension .. | .inputObjectTypeExtension .. => true
  | _ => false

/-- soundness of the two type-system dispatchers (layer 4) -/
structure TSSound (fl : Flags) (fuel : Nat) : Prop where
  def_ : ∀ s d s', parseTypeSystemDefinition fl fuel s = .ok (d, s') →
    wfDefinition fl d = true ∧ isTypeSystem d = true ∧ (definitionV d).check fl s.last s.toks = some (s'.last, s'.toks)
  ext : ∀ s d s', parseTypeSystemExtension fl fuel s = .ok (d, s') →
    wfDefinition fl d = true ∧ isTypeSystem d = true ∧ (definitionV d).check fl s.last s.toks = some (s'.last, s'.toks)

/-- completeness of the two type-system dispatchers (layer 4) -/
structure TSComplete (fl : Flags) (fuel : Nat) : Prop where
  first : ∀ d l ts r, isTypeSystem d = true → wfDefinition fl d = true → (definitionV d).check fl l ts = some r →
    ∃ t tl, ts = t :: tl ∧
      if isExtension d then t.kind = .name ∧ t.value = K.extend
      else (t.kind = .string ∨ t.kind = .blockString ∨
        (t.kind = .name ∧ t.value ∈ Generated.ParserTables.schemaDefinitionsKeywords))
  def_ : ∀ d l l' ts rest, isTypeSystem d = true → isExtension d = false → wfDefinition fl d = true →
    ts.length ≤ fuel → (definitionV d).check fl l ts = some (l', rest) → FollowDef rest →
    parseTypeSystemDefinition fl fuel ⟨ts, l⟩ = .ok (d, ⟨rest, l'⟩)
  ext : ∀ d l l' ts rest, isTypeSystem d = true → isExtension d = true → wfDefinition fl d = true →
    ts.length ≤ fuel → (definitionV d).check fl l ts = some (l', rest) → FollowDef rest →
    parseTypeSystemExtension fl fuel ⟨ts, l⟩ = .ok (d, ⟨rest, l'⟩)

theorem parseDefinition_sound (fl : Flags) (fuel : Nat) (hTS : fl.allowTypeSystem = true → TSSound fl fuel)
    (s : PS) (d : Definition) (s' : PS) (h : parseDefinition fl fuel s = .ok (d, s')) :
    (wfDefinition fl d = true ∧ (fl.allowTypeSystem || !isTypeSystem d) = true) ∧
      (definitionV d).check fl s.last s.toks = some (s'.last, s'.toks) := by
  simp only [parseDefinition, bind_ok, peek_ok, ite_ok, fail_ok, and_false, or_false] at h
  obtain ⟨st, s1, ⟨ts, h1, hs1⟩, h⟩ := h
  subst hs1
  have hex : ∀ {d s'}, parseExecutableDefinition fl fuel s1 = .ok (d, s') →
      (wfDefinition fl d = true ∧ (fl.allowTypeSystem || !isTypeSystem d) = true) ∧
      (definitionV d).check fl s1.last s1.toks = some (s'.last, s'.toks) := by
    intro d s' h
    obtain ⟨w, x, c⟩ := parseExecutableDefinition_sound fl fuel _ _ _ h
    exact ⟨⟨w, by simp [x]⟩, c⟩
  rcases h with ⟨_, ⟨_, h⟩ | ⟨_, hts, ⟨_, h⟩ | ⟨_, _, h⟩⟩⟩ | ⟨_, ⟨_, h⟩ | ⟨_, ⟨hts, _⟩, h⟩⟩
  · exact hex h
  · obtain ⟨w, x, c⟩ := (hTS hts).def_ _ _ _ h
    exact ⟨⟨w, by simp [hts]⟩, c⟩
  · obtain ⟨w, x, c⟩ := (hTS hts).ext _ _ _ h
    exact ⟨⟨w, by simp [hts]⟩, c⟩
  · exact hex h
  · obtain ⟨w, x, c⟩ := (hTS hts).def_ _ _ _ h
    exact ⟨⟨w, by simp [hts]⟩, c⟩

theorem parseDocumentP_sound (fl : Flags) (fuel : Nat) (hTS : fl.allowTypeSystem = true → TSSound fl fuel)
    (s : PS) (d : Document) (s' : PS) (h : parseDocumentP fl fuel s = .ok (d, s')) :
    wfDocument fl d = true ∧ (documentV d).check fl s.last s.toks = some (s'.last, s'.toks) := by
  simp only [parseDocumentP, bind_ok, peek_ok, mkLoc_ok, pure_ok] at h
  obtain ⟨st, s1, ⟨ts, h1, hs1⟩, defs, s2, hm, loc, s3, ⟨hloc, hs3⟩, hfin⟩ := h
  subst hs1
  obtain ⟨ne, q, c⟩ := many_sound fl _ .sof .eof rfl rfl
    (fun x => wfDefinition fl x = true ∧ (fl.allowTypeSystem || !isTypeSystem x) = true) definitionV
    (parseDefinition_sound fl fuel hTS) _ _ _ _ hm
  cases hfin; subst hs3; subst hloc
  refine ⟨?_, ?_⟩
  · simp only [wfDocument, Bool.and_eq_true, List.all_eq_true]
    exact ⟨by cases defs <;> simp_all, fun x hx => q x hx⟩
  · simp only [documentV, check_node]
    exact ⟨_, _, h1, c, rfl⟩


theorem tuple_exec (v : Text) (h : v ∈ Generated.ParserTables.operationTypeTuple) :
    v ∈ Generated.ParserTables.executableDefinitionsKeywords := by
  simp [Generated.ParserTables.operationTypeTuple] at h
  rcases h with rfl | rfl | rfl <;> decide

theorem fragment_exec : K.fragment ∈ Generated.ParserTables.executableDefinitionsKeywords := by decide
theorem extend_not_exec : K.extend ∉ Generated.ParserTables.executableDefinitionsKeywords := by decide
theorem extend_not_schema : K.extend ∉ Generated.ParserTables.schemaDefinitionsKeywords := by decide
theorem schema_not_exec (v : Text) (h : v ∈ Generated.ParserTables.schemaDefinitionsKeywords) :
    v ∉ Generated.ParserTables.executableDefinitionsKeywords := by
  simp [Generated.ParserTables.schemaDefinitionsKeywords] at h
  rcases h with rfl | rfl | rfl | rfl | rfl | rfl | rfl | rfl <;> decide
theorem exec_def (v : Text) (h : v ∈ Generated.ParserTables.executableDefinitionsKeywords) : v ∈ defKeywords := by
  simp [Generated.ParserTables.executableDefinitionsKeywords] at h
  rcases h with rfl | rfl | rfl | rfl <;> decide
theorem schema_def (v : Text) (h : v ∈ Generated.ParserTables.schemaDefinitionsKeywords) : v ∈ defKeywords := by
  simp [Generated.ParserTables.schemaDefinitionsKeywords] at h
  rcases h with rfl | rfl | rfl | rfl | rfl | rfl | rfl | rfl <;> decide
theorem extend_def : K.extend ∈ defKeywords := by decide

/-- the first token of a (well-formed) definition starts a definition and is not `<EOF>` -/
theorem definitionV_first (fl : Flags) (fuel : Nat) (hTS : fl.allowTypeSystem = true → TSComplete fl fuel)
    (d : Definition) (l : Tok) (ts : List Tok) (r : Tok × List Tok)
    (w : wfDefinition fl d = true) (ha : (fl.allowTypeSystem || !isTypeSystem d) = true)
    (h : (definitionV d).check fl l ts = some r) :
    ∃ t tl, ts = t :: tl ∧ DefStart t ∧ t.kind ≠ .eof := by
  cases hx : isTypeSystem d with
  | false =>
    cases d with
    | operation od =>
      simp only [wfDefinition] at w; simp only [definitionV] at h
      obtain ⟨t, tl, rfl, hk⟩ := operationV_first w h
      rcases hk with hk | ⟨hk, hv⟩
      · exact ⟨_, _, rfl, Or.inr (Or.inl hk), by simp [hk]⟩
      · exact ⟨_, _, rfl, Or.inr (Or.inr (Or.inr (Or.inr ⟨hk, exec_def _ (tuple_exec _ hv)⟩))), by simp [hk]⟩
    | fragment fd =>
      simp only [definitionV] at h
      obtain ⟨t, tl, rfl, hk, hv⟩ := fragmentV_first h
      exact ⟨_, _, rfl, Or.inr (Or.inr (Or.inr (Or.inr ⟨hk, hv ▸ exec_def _ fragment_exec⟩))), by simp [hk]⟩
    | _ => simp [isTypeSystem] at hx
  | true =>
    have hts : fl.allowTypeSystem = true := by simpa [hx] using ha
    obtain ⟨t, tl, rfl, hk⟩ := (hTS hts).first d l ts r hx w h
    refine ⟨t, tl, rfl, ?_⟩
    split at hk
    · exact ⟨Or.inr (Or.inr (Or.inr (Or.inr ⟨hk.1, hk.2 ▸ extend_def⟩))), by simp [hk.1]⟩
    · rcases hk with hk | hk | ⟨hk, hv⟩
      · exact ⟨Or.inr (Or.inr (Or.inl hk)), by simp [hk]⟩
      · exact ⟨Or.inr (Or.inr (Or.inr (Or.inl hk))), by simp [hk]⟩
      · exact ⟨Or.inr (Or.inr (Or.inr (Or.inr ⟨hk, schema_def _ hv⟩))), by simp [hk]⟩

theorem parseDefinition_complete (fl : Flags) (fuel : Nat) (hTS : fl.allowTypeSystem = true → TSComplete fl fuel)
    (d : Definition) (l l' : Tok) (ts rest : List Tok)
    (w : wfDefinition fl d = true) (ha : (fl.allowTypeSystem || !isTypeSystem d) = true) (hf : ts.length ≤ fuel)
    (h : (definitionV d).check fl l ts = some (l', rest)) (hfol : FollowDef rest) :
    parseDefinition fl fuel ⟨ts, l⟩ = .ok (d, ⟨rest, l'⟩) := by
  cases hx : isTypeSystem d with
  | false =>
    have c := parseExecutableDefinition_complete fl fuel d l l' ts rest hx w hf h
    cases d with
    | operation od =>
      simp only [wfDefinition] at w; simp only [definitionV] at h
      obtain ⟨t, tl, rfl, hk⟩ := operationV_first w h
      rcases hk with hk | ⟨hk, hv⟩
      · simp [parseDefinition, bind_eq, peek_cons, hk, c]
      · simp [parseDefinition, bind_eq, peek_cons, hk, tuple_exec _ hv, c]
    | fragment fd =>
      simp only [definitionV] at h
      obtain ⟨t, tl, rfl, hk, hv⟩ := fragmentV_first h
      simp [parseDefinition, bind_eq, peek_cons, hk, hv, fragment_exec, c]
    | _ => simp [isTypeSystem] at hx
  | true =>
    have hts : fl.allowTypeSystem = true := by simpa [hx] using ha
    obtain ⟨t, tl, rfl, hk⟩ := (hTS hts).first d l ts _ hx w h
    cases he : isExtension d with
    | true =>
      simp only [he, if_true] at hk
      have c := (hTS hts).ext d l l' _ rest hx he w hf h hfol
      simp [parseDefinition, bind_eq, peek_cons, hk.1, hk.2, extend_not_exec, extend_not_schema, hts, c]
    | false =>
      simp only [he, Bool.false_eq_true, if_false] at hk
      have c := (hTS hts).def_ d l l' _ rest hx he w hf h hfol
      rcases hk with hk | hk | ⟨hk, hv⟩
      · simp [parseDefinition, bind_eq, peek_cons, hk, hts, c]
      · simp [parseDefinition, bind_eq, peek_cons, hk, hts, c]
      · simp [parseDefinition, bind_eq, peek_cons, hk, hv, schema_not_exec _ hv, hts, c]

theorem definitionV_width (d : Definition) : 1 ≤ (definitionV d).yield.length := by
  cases d with
  | operation od =>
    simp only [definitionV, operationV]
    split <;> simp [Item.yield, Item.yieldAll, selectionSetV]
    · cases od.selectionSet; simp [selectionSetV, Item.yield, Item.yieldAll]
  | fragment fd => simp [definitionV, fragmentV, Item.yield, Item.yieldAll]
  | _ => simp [definitionV, Item.yield, Item.yieldAll, yieldAll_append] <;> omega

theorem parseDocumentP_complete (fl : Flags) (fuel : Nat) (hTS : fl.allowTypeSystem = true → TSComplete fl fuel)
    (d : Document) (l l' : Tok) (ts rest : List Tok) (w : wfDocument fl d = true) (hf : ts.length ≤ fuel)
    (h : (documentV d).check fl l ts = some (l', rest)) :
    parseDocumentP fl fuel ⟨ts, l⟩ = .ok (d, ⟨rest, l'⟩) := by
  rcases d with ⟨defs, loc⟩
  simp only [wfDocument, Bool.and_eq_true, List.all_eq_true] at w
  simp only [documentV, check_node] at h
  obtain ⟨f, tl, rfl, hall, rfl⟩ := h
  have hne : defs ≠ [] := by cases defs <;> simp_all
  have hlen : defs.length ≤ fuel := by
    have a := checkAll_width fl _ _ _ _ _ hall
    have b := length_le_yieldAll definitionV definitionV_width defs
    simp only [Item.yieldAll, yieldAll_append, List.length_append] at a
    omega
  have c := many_complete fl (parseDefinition fl fuel) .sof .eof definitionV FollowDef fuel defs l l' (f :: tl) rest
    hne hlen
    (by
      intro x hx l ts' l' rest hl hc hfo
      exact parseDefinition_complete fl fuel hTS x l l' ts' rest (w.2 x hx).1 (w.2 x hx).2 (by omega) hc hfo)
    (by
      intro x hx l ts r hc
      obtain ⟨t, tl', rfl, hs, hk⟩ := definitionV_first fl fuel hTS x l ts r (w.2 x hx).1 (w.2 x hx).2 hc
      exact ⟨⟨t, tl', rfl, hs⟩, NotK.cons (by simpa using hk)⟩)
    (by intro t tl hk; exact ⟨t, tl, rfl, Or.inl hk⟩)
    hall
  simp [parseDocumentP, bind_eq, peek_cons, c, mkLoc_eq, pure_eq]

end PyGql.Parse

/-
  Completeness of `_read_number`: an IntValue / FloatValue lexeme (Spec/Lexical.lean) followed by anything its
  `Follow` restriction allows is read as exactly that token. Reuses lang3's specification-to-lexer lemmas
  (`Lemmas/PrintLex.lean`, `Lemmas/PrintLexFloat.lean`: `readOverInteger_ip`, `readFraction_frac`,
  `readOverDigits_digits`, `floatShape_of_isFloatValue`, `next_number`), whose `Safe r` (a delimiter follows) is
  weakened here to the look-ahead restriction itself.
-/
import PyGqlModel.Lemmas.LexComplete
import PyGqlModel.Lemmas.PrintLexFloat

namespace PyGql.Lex
open PyGql.Spec.Lexical
open PyGql.PrintLex (NoDigitHead readOverInteger_ip readOverDigits_digits readFraction_frac floatShape_of_isFloatValue
  next_number FloatShape)

/-- ignored characters in front of a token start do not matter -/
theorem next_skip (n : Nat) (ign X : Text) (hrun : IgnRun X ign) (hX : tokenStart X) :
    next n (ign ++ X) = next n X := by
  unfold next
  rw [row_complete _ _ hrun hX, row_stop _ hX]

/-- what `Follow .float` says about the rest, in the form the sub-readers need -/
theorem follow_float_facts (r : Text)
    (h : startsWith (fun c => Spec.Lexical.isDigit c || Spec.Lexical.isNameStart c) r = false) :
    NoDigitHead r ∧ (∀ c t, r = c :: t → ¬ (c = 101 ∨ c = 69)) ∧ (∀ c t, r = c :: t → Lex.isNameStart c = false) := by
  refine ⟨?_, ?_, ?_⟩ <;> intro c t e <;> subst e <;>
    simp only [startsWith, Bool.or_eq_false_iff] at h
  · rw [isDigit_spec]; exact h.1
  · intro hc
    have : Spec.Lexical.isNameStart c = true := by rcases hc with rfl | rfl <;> decide
    rw [this] at h; exact absurd h.2 (by simp)
  · rw [isNameStart_spec]; exact h.2

theorem lookahead_ok (n : Nat) (r : Text) (h : ∀ c t, r = c :: t → Lex.isNameStart c = false) :
    numberLookahead n r = .ok () := by
  cases r with
  | nil => rfl
  | cons c t => simp [numberLookahead, h c t rfl]

theorem readExponent_exp' (n : Nat) (exp r : Text) (he : exp = [] ∨ Spec.Lexical.isExponentPart exp = true)
    (hnd : NoDigitHead r) (hee : ∀ c t, r = c :: t → ¬ (c = 101 ∨ c = 69)) :
    readExponent n (exp ++ r) = .ok (!exp.isEmpty, r) := by
  rcases he with rfl | he
  · cases r with
    | nil => simp [readExponent]
    | cons c t => simp [readExponent, hee c t rfl]
  · cases exp with
    | nil => simp [Spec.Lexical.isExponentPart] at he
    | cons i rest =>
      simp only [Spec.Lexical.isExponentPart, Bool.and_eq_true, Bool.or_eq_true, beq_iff_eq] at he
      obtain ⟨hi, hrest⟩ := he
      have key : ∀ (d : Nat) (ds : Text), Spec.Lexical.isDigit d = true → ds.all Spec.Lexical.isDigit = true →
          readOverDigits n (d :: ds ++ r) = .ok r := fun d ds a b => readOverDigits_digits n d ds r a b hnd
      cases rest with
      | nil => simp [Spec.Lexical.stripSign] at hrest
      | cons x u =>
        by_cases hx : x = 43 ∨ x = 45
        · have hs : Spec.Lexical.stripSign (x :: u) = u := by
            rcases hx with rfl | rfl <;> rfl
          rw [hs] at hrest
          cases u with
          | nil => simp at hrest
          | cons d ds =>
            simp only [Bool.and_eq_true] at hrest
            have := key d ds hrest.1 hrest.2
            simp only [List.cons_append] at this ⊢
            simp [readExponent, skipSign, hi, hx, this, Except.map]
        · have hs : Spec.Lexical.stripSign (x :: u) = x :: u := by
            unfold Spec.Lexical.stripSign
            split
            · rename_i heq; simp at heq; exact absurd (Or.inl heq.1) hx
            · rename_i heq; simp at heq; exact absurd (Or.inr heq.1) hx
            · rfl
          rw [hs] at hrest
          simp only [Bool.and_eq_true] at hrest
          have := key x u hrest.1 hrest.2
          simp only [List.cons_append] at this ⊢
          simp [readExponent, skipSign, hi, hx, this, Except.map]

/-- heads of the tails of a FloatValue -/
theorem float_tail_heads (frac exp r : Text) (hf : frac = [] ∨ Spec.Lexical.isFractionalPart frac = true)
    (he : exp = [] ∨ Spec.Lexical.isExponentPart exp = true) (hne : ¬ (frac = [] ∧ exp = [])) (hnd : NoDigitHead r) :
    NoDigitHead (frac ++ (exp ++ r)) ∧ NoDigitHead (exp ++ r) ∧
    (frac = [] → ∀ c t, exp ++ r = c :: t → c ≠ 46) := by
  have hexp : NoDigitHead (exp ++ r) ∧ (exp ≠ [] → ∀ c t, exp ++ r = c :: t → c ≠ 46) := by
    rcases he with rfl | he
    · exact ⟨by simpa using hnd, fun h => absurd rfl h⟩
    · cases exp with
      | nil => simp [Spec.Lexical.isExponentPart] at he
      | cons i rest =>
        simp only [Spec.Lexical.isExponentPart, Bool.and_eq_true, Bool.or_eq_true, beq_iff_eq] at he
        constructor
        · intro c t e
          simp only [List.cons_append, List.cons.injEq] at e
          rcases he.1 with h | h <;> (rw [← e.1, h]; decide)
        · intro _ c t e
          simp only [List.cons_append, List.cons.injEq] at e
          rcases he.1 with h | h <;> omega
  refine ⟨?_, hexp.1, fun hfr => hexp.2 (fun hex => hne ⟨hfr, hex⟩)⟩
  rcases hf with rfl | hf
  · simpa using hexp.1
  · match frac, hf with
    | 46 :: d :: ds, _ =>
      intro c t e
      simp only [List.cons_append, List.cons.injEq] at e
      rw [← e.1]; decide

theorem take_len (w r : Text) : (w ++ r).take ((w ++ r).length - r.length) = w := by simp

/-- `next` on a FloatValue lexeme followed by a non-digit, non-NameStart rest -/
theorem next_float_shape (n : Nat) (w r : Text) (hw : FloatShape w)
    (hfo : startsWith (fun c => Spec.Lexical.isDigit c || Spec.Lexical.isNameStart c) r = false) :
    next n (w ++ r) = .ok (⟨.float, posAt n (w ++ r), posAt n r, w⟩, some r) := by
  obtain ⟨hnd, hee, hns⟩ := follow_float_facts r hfo
  obtain ⟨ip, frac, exp, rfl, hip, hf, he, hne⟩ := hw
  obtain ⟨nd1, nd2, h46⟩ := float_tail_heads frac exp r hf he hne hnd
  have hfr := readFraction_frac n frac (exp ++ r) hf h46 nd2
  have hex := readExponent_exp' n exp r he hnd hee
  have hla := lookahead_ok n r hns
  have hflag : (!frac.isEmpty || !exp.isEmpty) = true := by
    cases frac <;> cases exp <;> simp at hne ⊢
  have htake := take_len (ip ++ (frac ++ exp)) r
  simp only [Spec.Lexical.isIntegerPart] at hip
  by_cases hneg : ∃ t, ip = 45 :: t
  · obtain ⟨t, rfl⟩ := hneg
    simp only [Spec.Lexical.stripNegativeSign] at hip
    cases t with
    | nil => simp at hip
    | cons d ds =>
      simp only at hip
      have hro := readOverInteger_ip n d ds (frac ++ (exp ++ r)) hip nd1
      simp only [List.cons_append, List.append_assoc] at hro htake ⊢
      rw [next_number n 45 _ (Or.inl rfl)]
      simp only [readNumber, skipMinus, ↓reduceIte, hro, hfr, hex, hla, hflag, bind, Except.bind, pure, Except.pure, Except.map]
      rw [htake]
  · cases ip with
    | nil => simp [Spec.Lexical.stripNegativeSign] at hip
    | cons d ds =>
      have hd45 : d ≠ 45 := fun e => hneg ⟨ds, by rw [e]⟩
      have hs : Spec.Lexical.stripNegativeSign (d :: ds) = d :: ds := by
        unfold Spec.Lexical.stripNegativeSign
        split
        · rename_i heq; simp at heq; exact absurd heq.1 hd45
        · rfl
      rw [hs] at hip
      simp only at hip
      have hro := readOverInteger_ip n d ds (frac ++ (exp ++ r)) hip nd1
      have hdig : Lex.isDigit d = true := by
        rw [isDigit_spec]
        simp [Spec.Lexical.isNonZeroDigit, Spec.Lexical.isDigit] at hip ⊢
        rcases hip with ⟨rfl, _⟩ | ⟨h, _⟩ <;> omega
      simp only [List.cons_append, List.append_assoc] at hro htake ⊢
      rw [next_number n d _ (Or.inr hdig)]
      simp only [readNumber, skipMinus, hd45, ↓reduceIte, hro, hfr, hex, hla, hflag, bind, Except.bind, pure, Except.pure, Except.map]
      rw [htake]

/-- `next` on an IntValue lexeme followed by a rest that is no digit, no NameStart and no `.` -/
theorem next_int_value (n : Nat) (w r : Text) (hw : Spec.Lexical.isIntValue w = true)
    (hfo : startsWith (fun c => Spec.Lexical.isDigit c || Spec.Lexical.isNameStart c || c == 46) r = false) :
    next n (w ++ r) = .ok (⟨.int, posAt n (w ++ r), posAt n r, w⟩, some r) := by
  have hfo' : startsWith (fun c => Spec.Lexical.isDigit c || Spec.Lexical.isNameStart c) r = false := by
    cases r with
    | nil => rfl
    | cons c t => simp only [startsWith, Bool.or_eq_false_iff] at hfo ⊢; exact hfo.1
  have h46 : ∀ c t, r = c :: t → c ≠ 46 := by
    intro c t e; subst e
    simp only [startsWith, Bool.or_eq_false_iff, beq_eq_false_iff_ne] at hfo
    exact hfo.2
  obtain ⟨hdr, hee, hns⟩ := follow_float_facts r hfo'
  have t1 : readFraction n r = .ok (false, r) := by
    cases r with
    | nil => simp [readFraction]
    | cons c t => simp [readFraction, h46 c t rfl]
  have t2 : readExponent n r = .ok (false, r) := by
    cases r with
    | nil => simp [readExponent]
    | cons c t => simp [readExponent, hee c t rfl]
  have t3 := lookahead_ok n r hns
  simp only [Spec.Lexical.isIntValue, Spec.Lexical.isIntegerPart] at hw
  have htake := take_len w r
  by_cases hneg : ∃ t, w = 45 :: t
  · obtain ⟨t, rfl⟩ := hneg
    simp only [Spec.Lexical.stripNegativeSign] at hw
    cases t with
    | nil => simp at hw
    | cons d ds =>
      simp only at hw
      have hro := readOverInteger_ip n d ds r hw hdr
      simp only [List.cons_append] at hro htake ⊢
      rw [next_number n 45 _ (Or.inl rfl)]
      simp only [readNumber, skipMinus, ↓reduceIte, hro, t1, t2, t3, bind, Except.bind, pure, Except.pure, Except.map,
        Bool.or_self, Bool.false_eq_true]
      rw [htake]
  · cases w with
    | nil => simp [Spec.Lexical.stripNegativeSign] at hw
    | cons d ds =>
      have hd45 : d ≠ 45 := fun e => hneg ⟨ds, by rw [e]⟩
      have hs : Spec.Lexical.stripNegativeSign (d :: ds) = d :: ds := by
        unfold Spec.Lexical.stripNegativeSign
        split
        · rename_i heq; simp at heq; exact absurd heq.1 hd45
        · rfl
      rw [hs] at hw
      simp only at hw
      have hro := readOverInteger_ip n d ds r hw hdr
      have hdig : Lex.isDigit d = true := by
        rw [isDigit_spec]
        simp [Spec.Lexical.isNonZeroDigit, Spec.Lexical.isDigit] at hw ⊢
        rcases hw with ⟨rfl, _⟩ | ⟨h, _⟩ <;> omega
      simp only [List.cons_append] at hro htake ⊢
      rw [next_number n d _ (Or.inr hdig)]
      simp only [readNumber, skipMinus, hd45, ↓reduceIte, hro, t1, t2, t3, bind, Except.bind, pure, Except.pure, Except.map,
        Bool.or_self, Bool.false_eq_true]
      rw [htake]

end PyGql.Lex

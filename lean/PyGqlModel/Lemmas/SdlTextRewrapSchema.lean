/-
  C12 text level — the printer is invariant under RE-WRAPPING the descriptions of a schema (each at the indentation of
  its position), when the wrapped lines fit the width: `printSchemaT o (rewrapSchema i s) = printSchemaT o s`.
-/
import PyGqlModel.Lemmas.SdlTextRewrap
import PyGqlModel.Lemmas.SdlTextOrder
namespace PyGql.SdlText
open PyGql PyGql.Ast PyGql.Sdl PyGql.Spec PyGql.PrintLex PyGql.PrintTokens PyGql.PrintString PyGql.BlockString PyGql.Lex PyGql.SdlPrint

/-! ### the re-wrapped schema -/

/-- the description read back from the printed text at indentation width `w` (empty descriptions are not printed) -/
def rewrapOpt (w : Nat) (d : Option String) : Option String := d.map fun x => if x.isEmpty then x else rewrapS w x

def rewrapArg (w : Nat) (a : ArgD) : ArgD := { a with desc := rewrapOpt w a.desc }
def rewrapField (i : Nat) (f : FieldD) : FieldD := { f with desc := rewrapOpt i f.desc, args := f.args.map (rewrapArg (2 * i)) }
def rewrapEnumVal (i : Nat) (v : EnumValD) : EnumValD := { v with desc := rewrapOpt i v.desc }
def rewrapType (i : Nat) (t : TypeD) : TypeD :=
  { t with desc := rewrapOpt 0 t.desc, fields := t.fields.map (rewrapField i), values := t.values.map (rewrapEnumVal i),
           inputFields := t.inputFields.map (rewrapArg i) }
def rewrapDirective (i : Nat) (d : DirectiveD) : DirectiveD := { d with desc := rewrapOpt 0 d.desc, args := d.args.map (rewrapArg i) }
/-- every description re-wrapped at the indentation of its position (`i` = length of the indent string) -/
def rewrapSchema (i : Nat) (s : SchemaD) : SchemaD :=
  { s with types := s.types.map (rewrapType i), directives := s.directives.map (rewrapDirective i) }

/-- a description may be re-wrapped: inside `descWrapOK` and its wrapped lines fit the width -/
def descRewrapOK (w : Nat) (d : Option String) : Bool :=
  match d with
  | none => true
  | some x => x.isEmpty || (descWrapOK w x && (wrappedOf w x).all (fun l => l.length ≤ 120 - w))

def argRewrapOK (w : Nat) (a : ArgD) : Bool := descRewrapOK w a.desc
def fieldRewrapOK (i : Nat) (f : FieldD) : Bool := descRewrapOK i f.desc && f.args.all (argRewrapOK (2 * i))
def typeRewrapOK (i : Nat) (t : TypeD) : Bool :=
  descRewrapOK 0 t.desc && t.fields.all (fieldRewrapOK i) && t.values.all (fun v => descRewrapOK i v.desc) &&
  t.inputFields.all (argRewrapOK i)
def directiveRewrapOK (i : Nat) (d : DirectiveD) : Bool := descRewrapOK 0 d.desc && d.args.all (argRewrapOK i)
def schemaRewrapOK (i : Nat) (s : SchemaD) : Bool := s.types.all (typeRewrapOK i) && s.directives.all (directiveRewrapOK i)

/-! ### descriptions -/

theorem rewrapS_nonempty (w : Nat) (x : String) (h : descWrapOK w x = true) : (rewrapS w x).isEmpty = false := by
  obtain ⟨l, ls, hW, _, _, _, hlne, _⟩ := wrapOK_facts w x h
  rw [← SdlModels.T_isEmpty]
  have hT : SdlPrintT.T (rewrapS w x) = joinLF (l :: ls) := by
    have := T_rewrapS w x
    rw [hW] at this; exact this
  rw [hT]
  cases ls with
  | nil => cases l with
    | nil => exact absurd rfl hlne
    | cons _ _ => rfl
  | cons a b => rw [joinLF_cons_cons]; cases l <;> rfl

theorem printDescription_rewrapOpt (o : SdlPrintT.OptsT) (d : Option String) (depth : Nat) (first : Bool)
    (h : descRewrapOK (depth * o.indent.length) d = true) :
    SdlPrintT.printDescription o (rewrapOpt (depth * o.indent.length) d) depth first = SdlPrintT.printDescription o d depth first := by
  cases d with
  | none => rfl
  | some x =>
    by_cases hx : x.isEmpty = true
    · simp only [rewrapOpt, Option.map_some, hx, if_true]
    · have hx' : x.isEmpty = false := by simpa using hx
      simp only [descRewrapOK, hx', Bool.false_or, Bool.and_eq_true, List.all_eq_true, decide_eq_true_eq] at h
      simp only [rewrapOpt, Option.map_some, hx', Bool.false_eq_true, if_false]
      by_cases hd : o.descriptions = true
      · exact printDescription_rewrap o hd x depth first h.1 h.2
      · have hd' : o.descriptions = false := by simpa using hd
        simp [SdlPrintT.printDescription, hd']

/-- the emptiness of a description (what `print_arguments` looks at) survives -/
theorem rewrapOpt_nonempty (w : Nat) (d : Option String) (h : descRewrapOK w d = true) :
    (match rewrapOpt w d with | some x => !x.isEmpty | none => false) = (match d with | some x => !x.isEmpty | none => false) := by
  cases d with
  | none => rfl
  | some x =>
    by_cases hx : x.isEmpty = true
    · simp only [rewrapOpt, Option.map_some, hx, if_true]
    · have hx' : x.isEmpty = false := by simpa using hx
      simp only [descRewrapOK, hx', Bool.false_or, Bool.and_eq_true] at h
      simp only [rewrapOpt, Option.map_some, hx', Bool.false_eq_true, if_false, rewrapS_nonempty w x h.1]

/-! ### default values do not look at descriptions -/

theorem findType_rewrap (i : Nat) (s : SchemaD) (n : String) :
    (rewrapSchema i s).findType n = (s.findType n).map (rewrapType i) := by
  simp only [SchemaD.findType, rewrapSchema]
  induction s.types with
  | nil => rfl
  | cons t ts ih =>
    have hn : (rewrapType i t).name = t.name := rfl
    simp only [List.map_cons, List.find?_cons, hn]
    cases t.name == n <;> simp [ih]

theorem find_values_rewrap (i : Nat) (v : J) : ∀ (vs : List EnumValD),
    ((vs.map (rewrapEnumVal i)).find? (fun ev => jEq ev.value v)).map (fun ev => Lit.enum ev.name) =
      (vs.find? (fun ev => jEq ev.value v)).map (fun ev => Lit.enum ev.name)
  | [] => rfl
  | x :: vs => by
    have hv : (rewrapEnumVal i x).value = x.value := rfl
    simp only [List.map_cons, List.find?_cons, hv]
    cases jEq x.value v
    · exact find_values_rewrap i v vs
    · rfl

theorem valueLit_rewrap (i : Nat) (s : SchemaD) : ∀ fuel,
    (∀ v ty, valueLit (rewrapSchema i s) fuel v ty = valueLit s fuel v ty) ∧
    (∀ items t, itemsLit (rewrapSchema i s) fuel items t = itemsLit s fuel items t) ∧
    (∀ kvs w (fs : List ArgD), fieldsLit (rewrapSchema i s) fuel kvs (fs.map (rewrapArg w)) = fieldsLit s fuel kvs fs) := by
  intro fuel
  induction fuel with
  | zero =>
    refine ⟨fun v ty => by simp [valueLit], fun items t => by simp [itemsLit], fun kvs w fs => by simp [fieldsLit]⟩
  | succ k ih =>
    obtain ⟨ih1, ih2, ih3⟩ := ih
    refine ⟨?_, ?_, ?_⟩
    · intro v ty
      cases ty with
      | nonNull t => simp only [valueLit, ih1]
      | list t => simp only [valueLit, ih1, ih2]
      | named n =>
        simp only [valueLit, findType_rewrap]
        cases hft : s.findType n with
        | none => rfl
        | some t =>
          simp only [Option.map_some]
          have hk : (rewrapType i t).kind = t.kind := rfl
          rw [hk]
          cases v <;> cases t.kind <;> simp only [rewrapType, find_values_rewrap, ih3]
    · intro items t
      cases items with
      | nil => simp [itemsLit]
      | cons x xs => simp only [itemsLit, ih1, ih2]
    · intro kvs w fs
      cases fs with
      | nil => simp [fieldsLit]
      | cons f fs =>
        simp only [List.map_cons, fieldsLit, ih1, ih3]
        rfl

theorem valueText_rewrap (i : Nat) (s : SchemaD) (v : J) (ty : Ty) :
    SdlPrintT.valueText (rewrapSchema i s) v ty = SdlPrintT.valueText s v ty := by
  simp only [SdlPrintT.valueText, (valueLit_rewrap i s valueFuel).1]

end PyGql.SdlText

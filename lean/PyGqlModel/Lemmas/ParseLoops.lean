/-
  Layer 1: the loops `many`, `delimited_list`, the `implements` loop, `parse_directives`, and on top of them
  arguments and directives (const and non-const): soundness (incl. WF and spans) and exact completeness.
-/
import PyGqlModel.Lemmas.ParseValue
namespace PyGql.Parse
open PyGql PyGql.Ast PyGql.Spec

/-- the next token exists and its kind is none of `ks` (what FOLLOWS an optional part) -/
def NotK (ks : List TokKind) (ts : List Tok) : Prop := ∃ t tl, ts = t :: tl ∧ t.kind ∉ ks

theorem NotK.mono {ks ks' : List TokKind} {ts : List Tok} (h : NotK ks ts) (hs : ∀ k ∈ ks', k ∈ ks) : NotK ks' ts := by
  obtain ⟨t, tl, rfl, hk⟩ := h
  exact ⟨t, tl, rfl, fun hm => hk (hs _ hm)⟩

theorem NotK.cons {ks : List TokKind} {t : Tok} {tl : List Tok} (h : t.kind ∉ ks) : NotK ks (t :: tl) := ⟨t, tl, rfl, h⟩

/-! ### `many` -/

theorem manyLoop_sound {α} (fl : Flags) (p : P α) (close : TokKind) (hcl : hasValue close = false)
    (Q : α → Prop) (V : α → Item)
    (hp : ∀ s x s', p s = .ok (x, s') → Q x ∧ (V x).check fl s.last s.toks = some (s'.last, s'.toks)) :
    ∀ (n : Nat) (s : PS) (xs : List α) (s' : PS), manyLoop p close n s = .ok (xs, s') →
      xs ≠ [] ∧ (∀ x ∈ xs, Q x) ∧
      Item.checkAll fl (xs.map V ++ [Spec.p close]) s.last s.toks = some (s'.last, s'.toks) := by
  intro n
  induction n with
  | zero => intro s xs s' h; simp [manyLoop, fail_ok] at h
  | succ n ih =>
    intro s xs s' h
    simp only [manyLoop, bind_ok, skip_ok, ite_ok, pure_ok] at h
    obtain ⟨x, s1, hx, b, s2, ⟨t, ts, h1, hb⟩, hrest⟩ := h
    obtain ⟨q, c⟩ := hp _ _ _ hx
    rcases hb with ⟨hk, rfl, rfl⟩ | ⟨hk, rfl, rfl⟩
    · simp only [true_and, not_true_eq_false, false_and, or_false] at hrest
      cases hrest
      simp only [h1] at c
      refine ⟨by simp, by simpa using q, ?_⟩
      simp [Item.checkAll, Item.check, c, cls_const hk hcl]
    · simp only [Bool.false_eq_true, false_and, not_false_eq_true, true_and, false_or] at hrest
      obtain ⟨xs', s3, hxs, hfin⟩ := hrest
      cases hfin
      obtain ⟨_, qs, cs⟩ := ih _ _ _ hxs
      refine ⟨by simp, by simpa using ⟨q, qs⟩, ?_⟩
      simp [Item.checkAll, c, cs]

theorem many_sound {α} (fl : Flags) (p : P α) (opn close : TokKind) (hop : hasValue opn = false)
    (hcl : hasValue close = false) (Q : α → Prop) (V : α → Item)
    (hp : ∀ s x s', p s = .ok (x, s') → Q x ∧ (V x).check fl s.last s.toks = some (s'.last, s'.toks))
    (n : Nat) (s : PS) (xs : List α) (s' : PS) (h : many n opn p close s = .ok (xs, s')) :
    xs ≠ [] ∧ (∀ x ∈ xs, Q x) ∧
      Item.checkAll fl (Spec.p opn :: (xs.map V ++ [Spec.p close])) s.last s.toks = some (s'.last, s'.toks) := by
  simp only [many, bind_ok, expect_ok] at h
  obtain ⟨o, s1, ⟨ts, h1, hk, rfl⟩, hl⟩ := h
  obtain ⟨ne, q, c⟩ := manyLoop_sound fl p close hcl Q V hp _ _ _ _ hl
  refine ⟨ne, q, ?_⟩
  simp only at c
  simp [Item.checkAll, Item.check, h1, cls_const hk hop, c]

theorem manyLoop_complete {α} (fl : Flags) (p : P α) (close : TokKind) (V : α → Item) (Fol : List Tok → Prop)
    (B : Nat) :
    ∀ (n : Nat) (xs : List α) (l l' : Tok) (ts rest : List Tok),
      xs ≠ [] → xs.length ≤ n → ts.length ≤ B →
      (∀ x ∈ xs, ∀ l ts l' rest, ts.length ≤ B → (V x).check fl l ts = some (l', rest) → Fol rest →
        p ⟨ts, l⟩ = .ok (x, ⟨rest, l'⟩)) →
      (∀ x ∈ xs, ∀ l ts r, (V x).check fl l ts = some r → Fol ts ∧ NotK [close] ts) →
      (∀ t tl, t.kind = close → Fol (t :: tl)) →
      Item.checkAll fl (xs.map V ++ [Spec.p close]) l ts = some (l', rest) →
      manyLoop p close n ⟨ts, l⟩ = .ok (xs, ⟨rest, l'⟩) := by
  intro n
  induction n with
  | zero => intro xs l l' ts rest hne hn; cases xs <;> simp_all
  | succ n ih =>
    intro xs l l' ts rest hne hn hB hp hfirst hclose h
    cases xs with
    | nil => exact (hne rfl).elim
    | cons x xs =>
      simp only [List.map_cons, List.cons_append, checkAll_cons] at h
      obtain ⟨l1, ts1, hx, hxs⟩ := h
      cases xs with
      | nil =>
        simp only [List.map_nil, List.nil_append, checkAll_cons, checkAll_nil, check_tok] at hxs
        obtain ⟨l2, ts2, ⟨t, rfl, hc, rfl⟩, hfin⟩ := hxs
        cases hfin
        have cx := hp x (by simp) _ _ _ _ hB hx (hclose _ _ (cls_kind hc))
        simp [manyLoop, bind_eq, cx, skip_pos (cls_kind hc), pure_eq]
      | cons y ys =>
        have hy : ∃ l2 ts2, (V y).check fl l1 ts1 = some (l2, ts2) := by
          simp only [List.map_cons, List.cons_append, checkAll_cons] at hxs
          obtain ⟨l2, ts2, hy, _⟩ := hxs; exact ⟨l2, ts2, hy⟩
        obtain ⟨l2, ts2, hy⟩ := hy
        obtain ⟨hfol, t, tl, rfl, hk⟩ := hfirst y (by simp) _ _ _ hy
        have cx := hp x (by simp) _ _ _ _ hB hx hfol
        have hB1 : (t :: tl).length ≤ B := Nat.le_trans (check_len hx) hB
        have cxs := ih (y :: ys) l1 l' (t :: tl) rest (by simp) (by simp at hn ⊢; omega) hB1
          (fun z hz => hp z (by simp [hz])) (fun z hz => hfirst z (by simp [hz])) hclose
          (by simpa [checkAll_cons] using hxs)
        have hk' : t.kind ≠ close := by simpa using hk
        simp [manyLoop, bind_eq, cx, skip_neg hk', cxs, pure_eq]

theorem many_complete {α} (fl : Flags) (p : P α) (opn close : TokKind) (V : α → Item) (Fol : List Tok → Prop)
    (n : Nat) (xs : List α) (l l' : Tok) (ts rest : List Tok)
    (hne : xs ≠ []) (hn : xs.length ≤ n)
    (hp : ∀ x ∈ xs, ∀ l ts' l' rest, ts'.length < ts.length → (V x).check fl l ts' = some (l', rest) → Fol rest →
        p ⟨ts', l⟩ = .ok (x, ⟨rest, l'⟩))
    (hfirst : ∀ x ∈ xs, ∀ l ts r, (V x).check fl l ts = some r → Fol ts ∧ NotK [close] ts)
    (hclose : ∀ t tl, t.kind = close → Fol (t :: tl))
    (h : Item.checkAll fl (Spec.p opn :: (xs.map V ++ [Spec.p close])) l ts = some (l', rest)) :
    many n opn p close ⟨ts, l⟩ = .ok (xs, ⟨rest, l'⟩) := by
  simp only [checkAll_cons, check_tok] at h
  obtain ⟨l1, ts1, ⟨t, rfl, hc, rfl⟩, hall⟩ := h
  have c := manyLoop_complete fl p close V Fol ts1.length n xs l1 l' ts1 rest hne hn (Nat.le_refl _)
    (fun x hx l ts' l' rest hl => hp x hx l ts' l' rest (by simp; omega)) hfirst hclose
    (by simpa [checkAll_cons] using hall)
  simp [many, bind_eq, expect_pos (cls_kind hc), c]


/-! ### the optional bracketed group: `if self.peek().__class__ is Open: many(...) else []` -/

/-- common shape of `parse_arguments`, `parse_variable_definitions`, `parse_argument_definitions`, … -/
def optMany {α} (fuel : Nat) (opn : TokKind) (p : P α) (close : TokKind) : P (List α) := do
  if (← peek).kind = opn then many fuel opn p close
  else pure []

theorem optMany_sound {α} (fl : Flags) (p : P α) (opn close : TokKind) (hop : hasValue opn = false)
    (hcl : hasValue close = false) (Q : α → Prop) (V : α → Item)
    (hp : ∀ s x s', p s = .ok (x, s') → Q x ∧ (V x).check fl s.last s.toks = some (s'.last, s'.toks))
    (n : Nat) (s : PS) (xs : List α) (s' : PS) (h : optMany n opn p close s = .ok (xs, s')) :
    (∀ x ∈ xs, Q x) ∧
      Item.checkAll fl (groupV opn close V xs) s.last s.toks = some (s'.last, s'.toks) ∧
      (xs = [] → s' = s ∧ NotK [opn] s.toks) := by
  simp only [optMany, bind_ok, peek_ok, ite_ok, pure_ok] at h
  obtain ⟨t, s1, ⟨ts, h1, rfl⟩, h⟩ := h
  rcases h with ⟨hk, hm⟩ | ⟨hk, hfin⟩
  · obtain ⟨ne, q, c⟩ := many_sound fl p opn close hop hcl Q V hp _ _ _ _ hm
    refine ⟨q, ?_, fun e => (ne e).elim⟩
    cases xs with
    | nil => exact (ne rfl).elim
    | cons x xs => simpa [groupV] using c
  · cases hfin
    refine ⟨by simp, by simp [groupV, Item.checkAll], fun _ => ⟨rfl, ?_⟩⟩
    rw [h1]; exact NotK.cons (by simpa using hk)

theorem optMany_complete {α} (fl : Flags) (p : P α) (opn close : TokKind) (V : α → Item) (Fol : List Tok → Prop)
    (n : Nat) (xs : List α) (l l' : Tok) (ts rest : List Tok)
    (hn : xs.length ≤ n)
    (hp : ∀ x ∈ xs, ∀ l ts' l' rest, ts'.length < ts.length → (V x).check fl l ts' = some (l', rest) → Fol rest →
        p ⟨ts', l⟩ = .ok (x, ⟨rest, l'⟩))
    (hfirst : ∀ x ∈ xs, ∀ l ts r, (V x).check fl l ts = some r → Fol ts ∧ NotK [close] ts)
    (hclose : ∀ t tl, t.kind = close → Fol (t :: tl))
    (hempty : xs = [] → NotK [opn] rest)
    (h : Item.checkAll fl (groupV opn close V xs) l ts = some (l', rest)) :
    optMany n opn p close ⟨ts, l⟩ = .ok (xs, ⟨rest, l'⟩) := by
  cases xs with
  | nil =>
    simp only [groupV, List.isEmpty_nil, if_true, checkAll_nil] at h
    cases h
    obtain ⟨t, tl, rfl, hk⟩ := hempty rfl
    have hk' : t.kind ≠ opn := by simpa using hk
    simp [optMany, bind_eq, peek_cons, hk', pure_eq]
  | cons x xs =>
    simp only [groupV, List.isEmpty_cons, Bool.false_eq_true, if_false] at h
    have c := many_complete fl p opn close V Fol n (x :: xs) l l' ts rest (by simp) hn hp hfirst hclose h
    simp only [checkAll_cons, check_tok] at h
    obtain ⟨l1, ts1, ⟨t, rfl, hc, rfl⟩, _⟩ := h
    simp [optMany, bind_eq, peek_cons, cls_kind hc, c]

/-! ### `delimited_list` and the `implements` loop -/

theorem delimLoop_sound {α} (fl : Flags) (p : P α) (sep : TokKind) (hsep : hasValue sep = false)
    (Q : α → Prop) (V : α → Item)
    (hp : ∀ s x s', p s = .ok (x, s') → Q x ∧ (V x).check fl s.last s.toks = some (s'.last, s'.toks)) :
    ∀ (n : Nat) (s : PS) (xs : List α) (s' : PS), delimLoop p sep n s = .ok (xs, s') →
      ∃ x xs', xs = x :: xs' ∧ (∀ y ∈ xs, Q y) ∧
      Item.checkAll fl (V x :: xs'.flatMap fun y => [Spec.p sep, V y]) s.last s.toks = some (s'.last, s'.toks) ∧
      NotK [sep] s'.toks := by
  intro n
  induction n with
  | zero => intro s xs s' h; simp [delimLoop, fail_ok] at h
  | succ n ih =>
    intro s xs s' h
    simp only [delimLoop, bind_ok, skip_ok, ite_ok, pure_ok] at h
    obtain ⟨x, s1, hx, b, s2, ⟨t, ts, h1, hb⟩, hrest⟩ := h
    obtain ⟨q, c⟩ := hp _ _ _ hx
    rcases hb with ⟨hk, rfl, rfl⟩ | ⟨hk, rfl, rfl⟩
    · simp only [true_and, not_true_eq_false, false_and, or_false] at hrest
      obtain ⟨xs', s3, hxs, hfin⟩ := hrest
      cases hfin
      obtain ⟨y, ys, rfl, qs, cs, nk⟩ := ih _ _ _ hxs
      refine ⟨x, y :: ys, rfl, ?_, ?_, nk⟩
      · intro z hz
        rcases List.mem_cons.1 hz with rfl | hz
        · exact q
        · exact qs _ hz
      simp only [h1] at c
      simp only at cs
      simp [Item.checkAll, Item.check, c, cls_const hk hsep]
      simpa [Item.checkAll] using cs
    · simp only [Bool.false_eq_true, false_and, not_false_eq_true, true_and, false_or] at hrest
      cases hrest
      refine ⟨x, [], rfl, by simpa using q, by simp [Item.checkAll, c], ?_⟩
      rw [h1]; exact NotK.cons (by simpa using hk)

theorem delimitedList_sound {α} (fl : Flags) (p : P α) (sep : TokKind) (hsep : hasValue sep = false)
    (Q : α → Prop) (V : α → Item)
    (hp : ∀ s x s', p s = .ok (x, s') → Q x ∧ (V x).check fl s.last s.toks = some (s'.last, s'.toks))
    (n : Nat) (s : PS) (xs : List α) (s' : PS) (h : delimitedList n sep p s = .ok (xs, s')) :
    xs ≠ [] ∧ (∀ y ∈ xs, Q y) ∧
      Item.checkAll fl (sepV sep V xs) s.last s.toks = some (s'.last, s'.toks) ∧ NotK [sep] s'.toks := by
  simp only [delimitedList, bind_ok, skip_ok] at h
  obtain ⟨b, s1, ⟨t, ts, h1, hb⟩, hl⟩ := h
  obtain ⟨x, xs', rfl, q, c, nk⟩ := delimLoop_sound fl p sep hsep Q V hp _ _ _ _ hl
  refine ⟨by simp, q, ?_, nk⟩
  rcases hb with ⟨hk, rfl, rfl⟩ | ⟨hk, rfl, rfl⟩
  · simp only at c
    simp [sepV, Item.checkAll, Item.check, h1, cls_const hk hsep]
    simpa [Item.checkAll] using c
  · have : cls t ≠ (sep, []) := fun e => hk (cls_kind e)
    simp only [h1] at c
    simp [sepV, Item.checkAll, Item.check, h1, this]
    simpa [Item.checkAll] using c

theorem delimLoop_complete {α} (fl : Flags) (p : P α) (sep : TokKind) (V : α → Item) :
    ∀ (n : Nat) (x : α) (xs : List α) (l l' : Tok) (ts rest : List Tok),
      xs.length < n →
      (∀ y ∈ x :: xs, ∀ l ts l' rest, (V y).check fl l ts = some (l', rest) → p ⟨ts, l⟩ = .ok (y, ⟨rest, l'⟩)) →
      NotK [sep] rest →
      Item.checkAll fl (V x :: xs.flatMap fun y => [Spec.p sep, V y]) l ts = some (l', rest) →
      delimLoop p sep n ⟨ts, l⟩ = .ok (x :: xs, ⟨rest, l'⟩) := by
  intro n
  induction n with
  | zero => intro x xs l l' ts rest hn; omega
  | succ n ih =>
    intro x xs l l' ts rest hn hp hnk h
    simp only [checkAll_cons] at h
    obtain ⟨l1, ts1, hx, hxs⟩ := h
    have cx := hp x (by simp) _ _ _ _ hx
    cases xs with
    | nil =>
      simp only [List.flatMap_nil, checkAll_nil] at hxs
      cases hxs
      obtain ⟨t, tl, rfl, hk⟩ := hnk
      have hk' : t.kind ≠ sep := by simpa using hk
      simp [delimLoop, bind_eq, cx, skip_neg hk', pure_eq]
    | cons y ys =>
      simp only [List.flatMap_cons, List.cons_append, List.nil_append, checkAll_cons, check_tok] at hxs
      obtain ⟨l2, ts2, ⟨t, rfl, hc, rfl⟩, hrest⟩ := hxs
      have cxs := ih y ys l2 l' ts2 rest (by simp at hn; omega) (fun z hz => hp z (List.mem_cons_of_mem _ hz)) hnk
        (by simpa [checkAll_cons] using hrest)
      simp [delimLoop, bind_eq, cx, skip_pos (cls_kind hc), cxs, pure_eq]

theorem delimitedList_complete {α} (fl : Flags) (p : P α) (sep : TokKind) (V : α → Item)
    (n : Nat) (xs : List α) (l l' : Tok) (ts rest : List Tok)
    (hne : xs ≠ []) (hn : xs.length ≤ n)
    (hp : ∀ y ∈ xs, ∀ l ts l' rest, (V y).check fl l ts = some (l', rest) → p ⟨ts, l⟩ = .ok (y, ⟨rest, l'⟩))
    (hfirst : ∀ y ∈ xs, ∀ l ts r, (V y).check fl l ts = some r → NotK [sep] ts)
    (hnk : NotK [sep] rest)
    (h : Item.checkAll fl (sepV sep V xs) l ts = some (l', rest)) :
    delimitedList n sep p ⟨ts, l⟩ = .ok (xs, ⟨rest, l'⟩) := by
  cases xs with
  | nil => exact (hne rfl).elim
  | cons x xs =>
    simp only [sepV, checkAll_cons, check_optTok] at h
    obtain ⟨l1, ts1, hopt, hrest⟩ := h
    have hrest' : Item.checkAll fl (V x :: xs.flatMap fun y => [Spec.p sep, V y]) l1 ts1 = some (l', rest) := by
      simpa [checkAll_cons] using hrest
    have c := delimLoop_complete fl p sep V n x xs l1 l' ts1 rest (by simp at hn; omega) hp hnk hrest'
    rcases hopt with ⟨t, rfl, hc, rfl⟩ | ⟨rfl, rfl, hno⟩
    · simp [delimitedList, bind_eq, skip_pos (cls_kind hc), c]
    · simp only [checkAll_cons] at hrest'
      obtain ⟨l2, ts2, hx, _⟩ := hrest'
      obtain ⟨t, tl, rfl, hk⟩ := hfirst x (by simp) _ _ _ hx
      have hk' : t.kind ≠ sep := by simpa using hk
      simp [delimitedList, bind_eq, skip_neg hk', c]

theorem implementsLoop_eq (fl : Flags) : ∀ n, implementsLoop fl n = delimLoop (parseNamedType fl) .amp n := by
  intro n
  induction n with
  | zero => rfl
  | succ n ih => simp only [implementsLoop, delimLoop, ih]

end PyGql.Parse

/-
  Views under `mapLoc (locUp d)` (mirror of `Lemmas/SpanShift.lean` / `SpanShiftDoc.lean` for the node kinds that occur
  below a selection: names, values, arguments, directives, selections), and: these views are PLAIN (no optional token,
  no look-ahead restriction), so matching them does not depend on what follows.
-/
import PyGqlModel.Lemmas.ItemUp
import PyGqlModel.Lemmas.SpanShiftDoc
import PyGqlModel.Shift
namespace PyGql.Spec
open PyGql PyGql.Ast PyGql.Parse

/-! ### views commute with the move -/

theorem nameV_up (d : Nat) (n : Name) : nameV (n.mapLoc (locUp d)) = (nameV n).up d := by
  simp [nameV, Name.mapLoc, Item.up, Item.upAll]

theorem namedTypeV_up (d : Nat) (t : NamedType) : namedTypeV (t.mapLoc (locUp d)) = (namedTypeV t).up d := by
  simp [namedTypeV, NamedType.mapLoc, Item.up, Item.upAll, nameV_up]

theorem typeV_up (d : Nat) : ∀ t : TypeRef, typeV (t.mapLoc (locUp d)) = (typeV t).up d
  | .named t => by simp [typeV, TypeRef.mapLoc, namedTypeV_up]
  | .list t loc => by simp [typeV, TypeRef.mapLoc, Item.up, Item.upAll, typeV_up d t]
  | .nonNull t loc => by simp [typeV, TypeRef.mapLoc, Item.up, Item.upAll, typeV_up d t]

theorem variableV_up (d : Nat) (v : Variable) : variableV (v.mapLoc (locUp d)) = (variableV v).up d := by
  simp [variableV, Variable.mapLoc, Item.up, Item.upAll, nameV_up]

theorem stringV_up (d : Nat) (s : StringValue) : stringV (s.mapLoc (locUp d)) = (stringV s).up d := by
  cases s; rfl

theorem upAll_append (d : Nat) (xs ys : List Item) : Item.upAll d (xs ++ ys) = Item.upAll d xs ++ Item.upAll d ys := by
  induction xs with
  | nil => rfl
  | cons x xs ih => simp [Item.upAll, ih]

mutual
theorem valueV_up (d : Nat) : ∀ v : Value, valueV (v.mapLoc (locUp d)) = (valueV v).up d
  | .var v => by simp [valueV, Value.mapLoc, variableV_up]
  | .int v loc => by simp [valueV, Value.mapLoc, Item.up, Item.upAll]
  | .float v loc => by simp [valueV, Value.mapLoc, Item.up, Item.upAll]
  | .string s => by simp [valueV, Value.mapLoc, stringV_up]
  | .boolean b loc => by simp [valueV, Value.mapLoc, Item.up, Item.upAll]
  | .null loc => by simp [valueV, Value.mapLoc, Item.up, Item.upAll]
  | .enum v loc => by simp [valueV, Value.mapLoc, Item.up, Item.upAll]
  | .list vs loc => by
    simp [valueV, Value.mapLoc, Item.up, Item.upAll, upAll_append, valuesV_up d vs]
  | .object fs loc => by
    simp [valueV, Value.mapLoc, Item.up, Item.upAll, upAll_append, fieldsV_up d fs]
theorem valuesV_up (d : Nat) : ∀ vs : List Value, valuesV (mapLocValues (locUp d) vs) = Item.upAll d (valuesV vs)
  | [] => by simp [valuesV, mapLocValues, Item.upAll]
  | v :: vs => by simp [valuesV, mapLocValues, Item.upAll, valueV_up d v, valuesV_up d vs]
theorem objectFieldV_up (d : Nat) : ∀ f : ObjectField, objectFieldV (f.mapLoc (locUp d)) = (objectFieldV f).up d
  | .mk n v loc => by simp [objectFieldV, ObjectField.mapLoc, Item.up, Item.upAll, nameV_up, valueV_up d v]
theorem fieldsV_up (d : Nat) : ∀ fs : List ObjectField, fieldsV (mapLocFields (locUp d) fs) = Item.upAll d (fieldsV fs)
  | [] => by simp [fieldsV, mapLocFields, Item.upAll]
  | f :: fs => by simp [fieldsV, mapLocFields, Item.upAll, objectFieldV_up d f, fieldsV_up d fs]
end

section generic
variable {α : Type} (d : Nat) (m : α → α) (fV : α → Item) (h : ∀ x, fV (m x) = (fV x).up d)
include h

theorem map_view_up (xs : List α) : (xs.map m).map fV = Item.upAll d (xs.map fV) := by
  induction xs with
  | nil => rfl
  | cons x xs ih => simp [Item.upAll, h, ih]

theorem optV_up (o : Option α) : optV fV (o.map m) = Item.upAll d (optV fV o) := by
  cases o <;> simp [optV, Item.upAll, h]

theorem groupV_up (o c : TokKind) (xs : List α) : groupV o c fV (xs.map m) = Item.upAll d (groupV o c fV xs) := by
  unfold groupV
  cases xs with
  | nil => simp [Item.upAll]
  | cons x xs =>
    simp only [List.map_cons, List.isEmpty_cons, Bool.false_eq_true, ↓reduceIte, Item.upAll, Item.up, upAll_append]
    rw [h, map_view_up d m fV h]

theorem blockV_up (xs : List α) : blockV fV (xs.map m) = Item.upAll d (blockV fV xs) := by
  unfold blockV
  cases xs with
  | nil => simp [Item.upAll, Item.up]
  | cons x xs =>
    simp only [List.map_cons, List.isEmpty_cons, Bool.false_eq_true, ↓reduceIte, Item.upAll, Item.up, upAll_append]
    rw [h, map_view_up d m fV h]

theorem flatMap_up (sep : TokKind) (xs : List α) :
    ((xs.map m).flatMap fun y => [p sep, fV y]) = Item.upAll d (xs.flatMap fun y => [p sep, fV y]) := by
  induction xs with
  | nil => rfl
  | cons x xs ih => simp [List.flatMap_cons, Item.upAll, Item.up, h, ih]

theorem sepV_up (sep : TokKind) (xs : List α) : sepV sep fV (xs.map m) = Item.upAll d (sepV sep fV xs) := by
  cases xs with
  | nil => rfl
  | cons x xs => simp [sepV, Item.upAll, Item.up, h, flatMap_up d m fV h sep xs]
end generic

theorem argumentV_up (d : Nat) (a : Argument) : argumentV (a.mapLoc (locUp d)) = (argumentV a).up d := by
  simp [argumentV, Argument.mapLoc, Item.up, Item.upAll, nameV_up, valueV_up]

theorem argumentsV_up (d : Nat) (as : List Argument) :
    argumentsV (as.map (Argument.mapLoc (locUp d))) = Item.upAll d (argumentsV as) :=
  groupV_up d _ _ (argumentV_up d) _ _ as

theorem directiveV_up (d : Nat) (x : Directive) : directiveV (x.mapLoc (locUp d)) = (directiveV x).up d := by
  simp [directiveV, Directive.mapLoc, Item.up, Item.upAll, nameV_up, argumentsV_up]

theorem directivesV_up (d : Nat) (ds : List Directive) :
    directivesV (ds.map (Directive.mapLoc (locUp d))) = Item.upAll d (directivesV ds) :=
  map_view_up d _ _ (directiveV_up d) ds

mutual
theorem selectionV_up (d : Nat) : ∀ s : Selection, selectionV (s.mapLoc (locUp d)) = (selectionV s).up d
  | .field alias_ name args dirs ss loc => by
    cases alias_ <;>
      simp [selectionV, Selection.mapLoc, Item.up, Item.upAll, upAll_append, nameV_up, argumentsV_up,
        directivesV_up, optSelectionSetV_up d ss]
  | .fragmentSpread name dirs loc => by
    simp [selectionV, Selection.mapLoc, Item.up, Item.upAll, nameV_up, directivesV_up]
  | .inlineFragment tc dirs ss loc => by
    cases tc <;>
      simp [selectionV, Selection.mapLoc, Item.up, Item.upAll, upAll_append, namedTypeV_up, directivesV_up,
        selectionSetV_up d ss]
theorem selectionSetV_up (d : Nat) : ∀ ss : SelectionSet, selectionSetV (ss.mapLoc (locUp d)) = (selectionSetV ss).up d
  | .mk sels loc => by
    simp [selectionSetV, SelectionSet.mapLoc, Item.up, Item.upAll, upAll_append, selectionsV_up d sels]
theorem optSelectionSetV_up (d : Nat) : ∀ o : Option SelectionSet,
    optSelectionSetV (mapLocOptSS (locUp d) o) = Item.upAll d (optSelectionSetV o)
  | none => by simp [optSelectionSetV, mapLocOptSS, Item.upAll]
  | some ss => by simp [optSelectionSetV, mapLocOptSS, Item.upAll, selectionSetV_up d ss]
theorem selectionsV_up (d : Nat) : ∀ ss : List Selection,
    selectionsV (mapLocSelections (locUp d) ss) = Item.upAll d (selectionsV ss)
  | [] => by simp [selectionsV, mapLocSelections, Item.upAll]
  | s :: ss => by simp [selectionsV, mapLocSelections, Item.upAll, selectionV_up d s, selectionsV_up d ss]
end


/-! ### plain views -/

theorem plainAll_append (xs ys : List Item) : Item.plainAll (xs ++ ys) = (Item.plainAll xs && Item.plainAll ys) := by
  induction xs with
  | nil => simp [Item.plainAll]
  | cons x xs ih => simp [Item.plainAll, ih, Bool.and_assoc]

theorem plainAll_map {α} (f : α → Item) (xs : List α) (h : ∀ x, (f x).plain = true) : Item.plainAll (xs.map f) = true := by
  induction xs with
  | nil => rfl
  | cons x xs ih => simp [Item.plainAll, h, ih]

theorem plainAll_groupV {α} (o c : TokKind) (f : α → Item) (xs : List α) (h : ∀ x, (f x).plain = true) :
    Item.plainAll (groupV o c f xs) = true := by
  unfold groupV
  split
  · rfl
  · simp [Item.plainAll, plainAll_append, plainAll_map f xs h, Item.plain]

theorem nameV_plain (n : Name) : (nameV n).plain = true := by simp [nameV, Item.plain, Item.plainAll]
theorem namedTypeV_plain (t : NamedType) : (namedTypeV t).plain = true := by
  simp [namedTypeV, Item.plain, Item.plainAll, nameV_plain]
theorem stringV_plain (s : StringValue) : (stringV s).plain = true := by simp [stringV, Item.plain, Item.plainAll]
theorem variableV_plain (v : Variable) : (variableV v).plain = true := by
  simp [variableV, Item.plain, Item.plainAll, nameV_plain]

mutual
theorem valueV_plain : ∀ v : Value, (valueV v).plain = true
  | .var v => by simp [valueV, variableV_plain]
  | .int v loc => by simp [valueV, Item.plain, Item.plainAll]
  | .float v loc => by simp [valueV, Item.plain, Item.plainAll]
  | .string s => by simp [valueV, stringV_plain]
  | .boolean b loc => by simp [valueV, Item.plain, Item.plainAll]
  | .null loc => by simp [valueV, Item.plain, Item.plainAll]
  | .enum v loc => by simp [valueV, Item.plain, Item.plainAll]
  | .list vs loc => by simp [valueV, Item.plain, Item.plainAll, plainAll_append, valuesV_plain vs]
  | .object fs loc => by simp [valueV, Item.plain, Item.plainAll, plainAll_append, fieldsV_plain fs]
theorem valuesV_plain : ∀ vs : List Value, Item.plainAll (valuesV vs) = true
  | [] => by simp [valuesV, Item.plainAll]
  | v :: vs => by simp [valuesV, Item.plainAll, valueV_plain v, valuesV_plain vs]
theorem objectFieldV_plain : ∀ x : ObjectField, (objectFieldV x).plain = true
  | .mk n v loc => by simp [objectFieldV, Item.plain, Item.plainAll, nameV_plain, valueV_plain v]
theorem fieldsV_plain : ∀ fs : List ObjectField, Item.plainAll (fieldsV fs) = true
  | [] => by simp [fieldsV, Item.plainAll]
  | x :: fs => by simp [fieldsV, Item.plainAll, objectFieldV_plain x, fieldsV_plain fs]
end

theorem argumentV_plain (a : Argument) : (argumentV a).plain = true := by
  simp [argumentV, Item.plain, Item.plainAll, nameV_plain, valueV_plain]
theorem argumentsV_plain (as : List Argument) : Item.plainAll (argumentsV as) = true :=
  plainAll_groupV _ _ _ _ argumentV_plain
theorem directiveV_plain (d : Directive) : (directiveV d).plain = true := by
  simp [directiveV, Item.plain, Item.plainAll, nameV_plain, argumentsV_plain]
theorem directivesV_plain (ds : List Directive) : Item.plainAll (directivesV ds) = true :=
  plainAll_map _ _ directiveV_plain

mutual
theorem selectionV_plain : ∀ s : Selection, (selectionV s).plain = true
  | .field alias_ name args dirs ss loc => by
    cases alias_ <;>
      simp [selectionV, Item.plain, Item.plainAll, plainAll_append, nameV_plain, argumentsV_plain, directivesV_plain,
        optSelectionSetV_plain ss]
  | .fragmentSpread name dirs loc => by
    simp [selectionV, Item.plain, Item.plainAll, nameV_plain, directivesV_plain]
  | .inlineFragment tc dirs ss loc => by
    cases tc <;>
      simp [selectionV, Item.plain, Item.plainAll, plainAll_append, namedTypeV_plain, directivesV_plain,
        selectionSetV_plain ss]
theorem selectionSetV_plain : ∀ ss : SelectionSet, (selectionSetV ss).plain = true
  | .mk sels loc => by simp [selectionSetV, Item.plain, Item.plainAll, plainAll_append, selectionsV_plain sels]
theorem optSelectionSetV_plain : ∀ o : Option SelectionSet, Item.plainAll (optSelectionSetV o) = true
  | none => by simp [optSelectionSetV, Item.plainAll]
  | some ss => by simp [optSelectionSetV, Item.plainAll, selectionSetV_plain ss]
theorem selectionsV_plain : ∀ ss : List Selection, Item.plainAll (selectionsV ss) = true
  | [] => by simp [selectionsV, Item.plainAll]
  | s :: ss => by simp [selectionsV, Item.plainAll, selectionV_plain s, selectionsV_plain ss]
end

/-! ### variable definitions -/

theorem defaultV_up (d : Nat) (o : Option Value) :
    defaultV (o.map (Value.mapLoc (locUp d))) = Item.upAll d (defaultV o) := by
  cases o <;> simp [defaultV, Item.upAll, Item.up, valueV_up]

theorem variableDefinitionV_up (d : Nat) (x : VariableDefinition) :
    variableDefinitionV (x.mapLoc (locUp d)) = (variableDefinitionV x).up d := by
  simp [variableDefinitionV, VariableDefinition.mapLoc, Item.up, Item.upAll, upAll_append, variableV_up, typeV_up,
    defaultV_up, directivesV_up]

theorem typeV_plain : ∀ t : TypeRef, (typeV t).plain = true
  | .named t => by simp [typeV, namedTypeV_plain]
  | .list t loc => by simp [typeV, Item.plain, Item.plainAll, typeV_plain t]
  | .nonNull t loc => by simp [typeV, Item.plain, Item.plainAll, typeV_plain t]

theorem defaultV_plain (o : Option Value) : Item.plainAll (defaultV o) = true := by
  cases o <;> simp [defaultV, Item.plainAll, Item.plain, valueV_plain]

theorem variableDefinitionV_plain (x : VariableDefinition) : (variableDefinitionV x).plain = true := by
  simp [variableDefinitionV, Item.plain, Item.plainAll, plainAll_append, variableV_plain, typeV_plain, defaultV_plain,
    directivesV_plain]

/-! ### members of type-system definitions -/

theorem descV_up (d : Nat) (o : Option StringValue) :
    descV (o.map (StringValue.mapLoc (locUp d))) = Item.upAll d (descV o) :=
  optV_up d _ stringV (stringV_up d) o

theorem operationTypeV_up (d : Nat) (x : OperationTypeDefinition) :
    operationTypeV (x.mapLoc (locUp d)) = (operationTypeV x).up d := by
  simp [operationTypeV, OperationTypeDefinition.mapLoc, Item.up, Item.upAll, namedTypeV_up]

theorem inputValueV_up (d : Nat) (x : InputValueDefinition) :
    inputValueV (x.mapLoc (locUp d)) = (inputValueV x).up d := by
  simp [inputValueV, InputValueDefinition.mapLoc, Item.up, Item.upAll, upAll_append, descV_up, nameV_up,
    typeV_up, defaultV_up, directivesV_up]

theorem fieldDefinitionV_up (d : Nat) (x : FieldDefinition) :
    fieldDefinitionV (x.mapLoc (locUp d)) = (fieldDefinitionV x).up d := by
  simp [fieldDefinitionV, FieldDefinition.mapLoc, Item.up, Item.upAll, upAll_append, descV_up, nameV_up,
    typeV_up, directivesV_up, groupV_up d _ inputValueV (inputValueV_up d)]

theorem enumValueDefinitionV_up (d : Nat) (x : EnumValueDefinition) :
    enumValueDefinitionV (x.mapLoc (locUp d)) = (enumValueDefinitionV x).up d := by
  simp [enumValueDefinitionV, EnumValueDefinition.mapLoc, Item.up, Item.upAll, upAll_append, descV_up, nameV_up,
    directivesV_up]


theorem plainAll_optV {α} (f : α → Item) (o : Option α) (h : ∀ x, (f x).plain = true) : Item.plainAll (optV f o) = true := by
  cases o <;> simp [optV, Item.plainAll, h]

theorem descV_plain (o : Option StringValue) : Item.plainAll (descV o) = true := plainAll_optV _ _ stringV_plain

theorem operationTypeV_plain (d : OperationTypeDefinition) : (operationTypeV d).plain = true := by
  simp [operationTypeV, Item.plain, Item.plainAll, namedTypeV_plain]

theorem inputValueV_plain (d : InputValueDefinition) : (inputValueV d).plain = true := by
  simp [inputValueV, Item.plain, Item.plainAll, plainAll_append, descV_plain, nameV_plain, typeV_plain, defaultV_plain,
    directivesV_plain]

theorem fieldDefinitionV_plain (d : FieldDefinition) : (fieldDefinitionV d).plain = true := by
  simp [fieldDefinitionV, Item.plain, Item.plainAll, plainAll_append, descV_plain, nameV_plain, typeV_plain,
    directivesV_plain, plainAll_groupV _ _ inputValueV _ inputValueV_plain]

theorem enumValueDefinitionV_plain (d : EnumValueDefinition) : (enumValueDefinitionV d).plain = true := by
  simp [enumValueDefinitionV, Item.plain, Item.plainAll, plainAll_append, descV_plain, nameV_plain, directivesV_plain]

end PyGql.Spec

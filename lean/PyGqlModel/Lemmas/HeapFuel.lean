/-
  C14 — fuel sufficiency for `fix_type_references`: once every reference carries a REGISTERED NAME, a heal
  round re-points references in place and replaces nothing; so the second round always ends the loop.
-/
import PyGqlModel.Lemmas.HeapClosedLoop

set_option linter.unusedSimpArgs false
set_option linter.unusedVariables false
set_option linter.unnecessarySimpa false

namespace PyGql.Heap.Own
open PyGql.Heap

/-- the reference names a registered type -/
def nameReg (reg : List (String × Addr)) (r : Ref) : Bool := (lookup reg r.name).isSome

theorem compat_nameReg (reg : List (String × Addr)) : Compat .heal reg (nameReg reg) := by
  intro r hr
  simp only [refOK, beq_iff_eq] at hr
  simp [nameReg, hr]

theorem healed_some (reg : List (String × Addr)) (t : TRef) (hn : nameReg reg t.base = true) : (healed reg t).isSome = true := by
  induction t with
  | named r => simpa [healed, nameReg, TRef.base] using hn
  | list t ih => simpa [healed] using ih (by simpa [TRef.base] using hn)
  | nonNull t ih => simpa [healed] using ih (by simpa [TRef.base] using hn)

theorem onArgument_same (reg : List (String × Addr)) (h : Heap) (a : Addr) (hs : argShape (nameReg reg) h a = true) :
    (onArgument .heal reg h a).2 = some a := by
  simp only [argShape] at hs
  split at hs
  · rename_i g hg
    simp only [onArgument, hg]
    cases ht : healed reg g.ty with
    | none => have := healed_some reg g.ty hs; simp [ht] at this
    | some t => rfl
  · cases hs

theorem onInputField_same (reg : List (String × Addr)) (h : Heap) (a : Addr) (hs : argShape (nameReg reg) h a = true) :
    (onInputField .heal reg h a).2 = some a := by
  simp only [argShape] at hs
  split at hs
  · rename_i g hg
    simp only [onInputField, hg]
    cases ht : healed reg g.ty with
    | none => have := healed_some reg g.ty hs; simp [ht] at this
    | some t => rfl
  · cases hs

/-- `map_and_filter` returns the list it was given when every hook returns its argument -/
theorem mapFilter_same {S : Heap → Addr → Bool} {f : Heap → Addr → Heap × Option Addr}
    (keep : ∀ h a c, S h c = true → S (f h a).1 c = true)
    (same : ∀ h a, S h a = true → (f h a).2 = some a) :
    ∀ (as : List Addr) (h : Heap), (∀ c, c ∈ as → S h c = true) → (mapFilter f h as).2 = as := by
  intro as
  induction as with
  | nil => intro h _; simp [mapFilter]
  | cons a as ih =>
    intro h hin
    simp only [mapFilter, same h a (hin a (by simp))]
    rw [ih (f h a).1 (fun c hc => keep h a c (hin c (by simp [hc])))]

theorem onField_same (reg : List (String × Addr)) (tn : String) (h : Heap) (a : Addr) (hs : fieldShape (nameReg reg) h a = true) :
    (onField .heal reg tn h a).2 = some a := by
  obtain ⟨f, hf, hty, hargs⟩ := (fieldShape_iff _ h a).mp hs
  have hsame : (mapFilter (onArgument .heal reg) h f.args).2 = f.args :=
    mapFilter_same (S := argShape (nameReg reg))
      (fun h a c hc => argShape_keep (onArgument_step .heal reg h a _ (compat_nameReg reg)) c hc)
      (fun h a hs => onArgument_same reg h a hs) f.args h hargs
  have hstep := mapFilter_step (onArgument_step .heal reg) f.args h _ (compat_nameReg reg)
  simp only [onField, hf, onFieldBase, hsame, bne_self_eq_false, Bool.false_eq_true, if_false]
  -- the field object is still a field whose type reference names a registered type
  have hfs := fieldShape_keep hstep a hs
  obtain ⟨f', hf', hty', _⟩ := (fieldShape_iff _ _ a).mp hfs
  simp only [healFieldType, hf']
  cases ht : healed reg f'.ty with
  | none => have := healed_some reg f'.ty hty'; simp [ht] at this
  | some t => rfl

theorem onType_same (reg : List (String × Addr)) (h : Heap) (a : Addr) (hs : typeShape (nameReg reg) h a = true) :
    (onType .heal reg h a).2 = some a := by
  obtain ⟨t, ht, hrefs, hm⟩ := (typeShape_iff _ h a).mp hs
  simp only [onType, ht]
  cases hk : t.kind with
  | object =>
    have hfields : ∀ c, c ∈ t.fields → fieldShape (nameReg reg) h c = true := by simpa [typeMembersOK, hk, List.all_eq_true] using hm
    have hsame : (mapFilter (onField .heal reg t.name) h t.fields).2 = t.fields :=
      mapFilter_same (S := fieldShape (nameReg reg))
        (fun h a c hc => fieldShape_keep (onField_step .heal reg t.name h a _ (compat_nameReg reg)) c hc)
        (fun h a hs => onField_same reg t.name h a hs) t.fields h hfields
    simp only [onComposite, compositeRest, rebuiltOrSame, hsame, bne_self_eq_false, Bool.false_eq_true, if_false]
    split
    · split <;> rfl
    · rfl
  | interface =>
    have hfields : ∀ c, c ∈ t.fields → fieldShape (nameReg reg) h c = true := by simpa [typeMembersOK, hk, List.all_eq_true] using hm
    have hsame : (mapFilter (onField .heal reg t.name) h t.fields).2 = t.fields :=
      mapFilter_same (S := fieldShape (nameReg reg))
        (fun h a c hc => fieldShape_keep (onField_step .heal reg t.name h a _ (compat_nameReg reg)) c hc)
        (fun h a hs => onField_same reg t.name h a hs) t.fields h hfields
    simp only [onComposite, compositeRest, rebuiltOrSame, hsame, bne_self_eq_false, Bool.false_eq_true, if_false]
    split
    · split <;> rfl
    · rfl
  | input =>
    have hfields : ∀ c, c ∈ t.fields → argShape (nameReg reg) h c = true := by simpa [typeMembersOK, hk, List.all_eq_true] using hm
    have hsame : (mapFilter (onInputField .heal reg) h t.fields).2 = t.fields :=
      mapFilter_same (S := argShape (nameReg reg))
        (fun h a c hc => argShape_keep (onInputField_step .heal reg h a _ (compat_nameReg reg)) c hc)
        (fun h a hs => onInputField_same reg h a hs) t.fields h hfields
    simp only [onInputObject, inputRest, rebuiltOrSame, hsame, bne_self_eq_false, Bool.false_eq_true, if_false]
  | union => simp [onUnion]
  | scalar => simp [onLeaf]
  | enum => simp [onLeaf]

theorem onDirective_same (reg : List (String × Addr)) (h : Heap) (a : Addr) (hs : dirShape (nameReg reg) h a = true) :
    (onDirective .heal reg h a).2 = some a := by
  simp only [dirShape] at hs
  split at hs
  · rename_i d hd
    simp only [List.all_eq_true] at hs
    have hsame : (mapFilter (onArgument .heal reg) h d.args).2 = d.args :=
      mapFilter_same (S := argShape (nameReg reg))
        (fun h a c hc => argShape_keep (onArgument_step .heal reg h a _ (compat_nameReg reg)) c hc)
        (fun h a hs => onArgument_same reg h a hs) d.args h hs
    simp [onDirective, hd, dirHidden, hsame]
  · cases hs

theorem visitTypes_same (reg : List (String × Addr)) : ∀ (l : List (String × Addr)) (h : Heap),
    (∀ e, e ∈ l → isProtected e.1 = false → typeShape (nameReg reg) h e.2 = true) → (visitTypes .heal reg h l).2 = [] := by
  intro l
  induction l with
  | nil => intro h _; simp [visitTypes]
  | cons e rest ih =>
    intro h hin
    obtain ⟨n, a⟩ := e
    simp only [visitTypes]
    split
    · exact ih h (fun e he => hin e (by simp [he]))
    · rename_i hp
      have hnp : isProtected n = false := by simpa using hp
      have hsame := onType_same reg h a (hin (n, a) (by simp) hnp)
      simp only [hsame, bne_self_eq_false, Bool.false_eq_true, if_false]
      exact ih _ (fun e he hq => typeShape_keep (onType_step .heal reg h a _ (compat_nameReg reg)) e.2 (hin e (by simp [he]) hq))


theorem lookup_isSome_of_name {reg : List (String × Addr)} {n : String} (hn : n ∈ regNames reg) : (lookup reg n).isSome = true := by
  simp only [regNames, List.mem_map] at hn
  obtain ⟨e, he, rfl⟩ := hn
  cases hl : lookup reg e.1 with
  | none => have := lookup_none_ne hl e he; simp at this
  | some a => rfl

theorem name_of_lookup {reg : List (String × Addr)} {n : String} {a : Addr} (hl : lookup reg n = some a) : n ∈ regNames reg :=
  List.mem_map.mpr ⟨(n, a), lookup_mem' hl, rfl⟩

/-- FUEL SUFFICIENCY: on a well-formed schema two rounds of `fix_type_references` are enough -/
theorem healLoop_two (cfg : Cfg) (s : Schema) (h : Heap) (w : WFs (fun _ => true) h s) : (healLoop cfg 2 s h).isSome = true := by
  rw [healLoop]
  split
  · -- the first round replaced something: the second one cannot
    have w1 := round_wf_out cfg .heal s h _ (compat_true .heal s.types) w
    have hnames : ∀ n, n ∈ regNames s.types → n ∈ regNames (replaceCore cfg s (visitAll .heal s h).2.1 (visitAll .heal s h).2.2).1.types := by
      intro n hn
      simp only [replaceCore, visitAll]
      exact replaceTypes_names cfg _ _ _ (visitTypes_heal_some s.types s.types h) n hn
    have w2 : WFs (nameReg (replaceCore cfg s (visitAll .heal s h).2.1 (visitAll .heal s h).2.2).1.types) (visitAll .heal s h).1
        (replaceCore cfg s (visitAll .heal s h).2.1 (visitAll .heal s h).2.2).1 := by
      apply w1.mono
      intro r hr
      simp only [outChk, refOK, beq_iff_eq] at hr
      exact lookup_isSome_of_name (hnames _ (name_of_lookup hr))
    rw [healLoop]
    have hnil := visitTypes_same (replaceCore cfg s (visitAll .heal s h).2.1 (visitAll .heal s h).2.2).1.types
      (replaceCore cfg s (visitAll .heal s h).2.1 (visitAll .heal s h).2.2).1.types (visitAll .heal s h).1 (fun e he _ => w2.types e he)
    have : (replaceCore cfg (replaceCore cfg s (visitAll .heal s h).2.1 (visitAll .heal s h).2.2).1
        (visitAll .heal (replaceCore cfg s (visitAll .heal s h).2.1 (visitAll .heal s h).2.2).1 (visitAll .heal s h).1).2.1
        (visitAll .heal (replaceCore cfg s (visitAll .heal s h).2.1 (visitAll .heal s h).2.2).1 (visitAll .heal s h).1).2.2).2 = false := by
      simp only [replaceCore, visitAll] at hnil ⊢
      rw [hnil]
      simp [replaceTypes]
    simp [this]
  · rfl

end PyGql.Heap.Own

/-
  Values: `parse_variable`, `parse_string_literal`, the `any_` loop, `parse_value_literal(const)`
  agree with the matcher of the grammar (soundness incl. WF and spans; exact completeness).
-/
import PyGqlModel.Lemmas.ParseType
namespace PyGql.Parse
open PyGql PyGql.Ast PyGql.Spec

theorem parseVariable_sound (fl : Flags) (s : PS) (v : Variable) (s' : PS) (h : parseVariable fl s = .ok (v, s')) :
    (variableV v).check fl s.last s.toks = some (s'.last, s'.toks) := by
  simp only [parseVariable, bind_ok, peek_ok, expect_ok, mkLoc_ok, pure_ok] at h
  obtain ⟨st, s1, ⟨ts, h1, rfl⟩, d, s2, ⟨ts2, h2, hk, rfl⟩, nm, s3, hn, loc, s4, ⟨rfl, rfl⟩, hfin⟩ := h
  cases hfin
  rw [h1] at h2; cases h2
  have c := parseName_sound fl _ _ _ hn
  simp only at c
  simp [variableV, Item.check, Item.checkAll, h1, cls_const hk rfl, c]

theorem parseVariable_complete (fl : Flags) (v : Variable) (l l' : Tok) (ts rest : List Tok)
    (h : (variableV v).check fl l ts = some (l', rest)) :
    parseVariable fl ⟨ts, l⟩ = .ok (v, ⟨rest, l'⟩) := by
  rcases v with ⟨nm, loc⟩
  simp only [variableV, check_node, checkAll_cons, checkAll_nil, check_tok] at h
  obtain ⟨f, tl, rfl, ⟨l1, ts1, ⟨t, h1, hc, rfl⟩, l2, ts2, hn, hfin⟩, rfl⟩ := h
  cases hfin; cases h1
  have c := parseName_complete fl _ _ _ _ _ hn
  simp [parseVariable, bind_eq, peek_cons, expect_pos (cls_kind hc), c, mkLoc_eq, pure_eq]

theorem parseStringLiteral_sound (fl : Flags) (s : PS) (v : StringValue) (s' : PS)
    (hk : ∃ t ts, s.toks = t :: ts ∧ (t.kind = .string ∨ t.kind = .blockString))
    (h : parseStringLiteral fl s = .ok (v, s')) :
    (stringV v).check fl s.last s.toks = some (s'.last, s'.toks) := by
  simp only [parseStringLiteral, bind_ok, advance_ok, mkLoc_ok, pure_ok] at h
  obtain ⟨t, s1, ⟨ts, h1, rfl⟩, loc, s2, ⟨rfl, rfl⟩, hfin⟩ := h
  cases hfin
  obtain ⟨t', ts', h2, hk⟩ := hk
  rw [h1] at h2; cases h2
  rcases hk with hk | hk <;> simp [stringV, Item.check, Item.checkAll, h1, cls, hk, hasValue]

theorem parseStringLiteral_complete (fl : Flags) (v : StringValue) (l l' : Tok) (ts rest : List Tok)
    (h : (stringV v).check fl l ts = some (l', rest)) :
    parseStringLiteral fl ⟨ts, l⟩ = .ok (v, ⟨rest, l'⟩) ∧
    ∃ t tl, ts = t :: tl ∧ t.kind = (if v.block then .blockString else .string) := by
  rcases v with ⟨val, blk, loc⟩
  simp only [stringV, check_node, checkAll_cons, checkAll_nil, check_tok] at h
  obtain ⟨f, tl, rfl, ⟨l1, ts1, ⟨t, h1, hc, rfl⟩, hfin⟩, rfl⟩ := h
  cases hfin; cases h1
  have hk := cls_kind hc
  refine ⟨?_, _, _, rfl, hk⟩
  have hv : l'.value = val := by
    simp [cls, hk] at hc
    cases blk <;> simp [hasValue] at hc <;> exact hc
  cases blk <;> simp at hk <;> simp [parseStringLiteral, bind_eq, advance_cons, mkLoc_eq, pure_eq, hk, hv]


/-! ### the `any_` loop -/

theorem anyLoop_sound {α} (fl : Flags) (p : P α) (close : TokKind) (hcl : hasValue close = false)
    (Q : α → Prop) (V : α → Item)
    (hp : ∀ s x s', p s = .ok (x, s') → Q x ∧ (V x).check fl s.last s.toks = some (s'.last, s'.toks)) :
    ∀ (n : Nat) (s : PS) (xs : List α) (s' : PS), anyLoop p close n s = .ok (xs, s') →
      (∀ x ∈ xs, Q x) ∧ Item.checkAll fl (xs.map V ++ [Spec.p close]) s.last s.toks = some (s'.last, s'.toks) := by
  intro n
  induction n with
  | zero => intro s xs s' h; simp [anyLoop, fail_ok] at h
  | succ n ih =>
    intro s xs s' h
    simp only [anyLoop, bind_ok, skip_ok, ite_ok, pure_ok] at h
    obtain ⟨b, s1, ⟨t, ts, h1, hb⟩, hrest⟩ := h
    rcases hb with ⟨hk, rfl, rfl⟩ | ⟨hk, rfl, rfl⟩
    · simp only [true_and, not_true_eq_false, false_and, or_false] at hrest
      cases hrest
      simp [Item.checkAll, Item.check, h1, cls_const hk hcl]
    · simp only [Bool.false_eq_true, false_and, not_false_eq_true, true_and, false_or] at hrest
      obtain ⟨x, s2, hx, xs', s3, hxs, hfin⟩ := hrest
      cases hfin
      obtain ⟨q, c⟩ := hp _ _ _ hx
      obtain ⟨qs, cs⟩ := ih _ _ _ hxs
      refine ⟨by simpa using ⟨q, qs⟩, ?_⟩
      simp [Item.checkAll, c, cs]

theorem anyLoop_complete {α} (fl : Flags) (p : P α) (close : TokKind) (V : α → Item) :
    ∀ (n : Nat) (xs : List α) (l l' : Tok) (ts rest : List Tok),
      (∀ x ∈ xs, ∀ l ts l' rest, (V x).check fl l ts = some (l', rest) →
        p ⟨ts, l⟩ = .ok (x, ⟨rest, l'⟩) ∧ ∃ t tl, ts = t :: tl ∧ t.kind ≠ close) →
      xs.length < n →
      Item.checkAll fl (xs.map V ++ [Spec.p close]) l ts = some (l', rest) →
      anyLoop p close n ⟨ts, l⟩ = .ok (xs, ⟨rest, l'⟩) := by
  intro n
  induction n with
  | zero => intro xs l l' ts rest _ hn; omega
  | succ n ih =>
    intro xs l l' ts rest hp hn h
    cases xs with
    | nil =>
      simp only [List.map_nil, List.nil_append, checkAll_cons, checkAll_nil, check_tok] at h
      obtain ⟨l1, ts1, ⟨t, rfl, hc, rfl⟩, hfin⟩ := h
      cases hfin
      simp [anyLoop, bind_eq, skip_pos (cls_kind hc), pure_eq]
    | cons x xs =>
      simp only [List.map_cons, List.cons_append, checkAll_cons] at h
      obtain ⟨l1, ts1, hx, hxs⟩ := h
      obtain ⟨cx, t, tl, rfl, hk⟩ := hp x (by simp) _ _ _ _ hx
      have cxs := ih xs l1 l' ts1 rest (fun y hy => hp y (by simp [hy])) (by simp at hn; omega)
        (by simpa [checkAll_cons] using hxs)
      simp [anyLoop, bind_eq, skip_neg hk, cx, cxs, pure_eq]


/-! ### values -/

theorem valuesV_eq (vs : List Value) : valuesV vs = vs.map valueV := by
  induction vs with
  | nil => simp [valuesV]
  | cons v vs ih => simp [valuesV, ih]

theorem fieldsV_eq (fs : List ObjectField) : fieldsV fs = fs.map objectFieldV := by
  induction fs with
  | nil => simp [fieldsV]
  | cons v vs ih => simp [fieldsV, ih]

theorem wfValues_eq (c : Bool) (vs : List Value) : wfValues c vs = true ↔ ∀ v ∈ vs, wfValue c v = true := by
  induction vs with
  | nil => simp [wfValues]
  | cons v vs ih => simp [wfValues, ih]

theorem wfFields_eq (c : Bool) (fs : List ObjectField) : wfFields c fs = true ↔ ∀ f ∈ fs, wfField c f = true := by
  induction fs with
  | nil => simp [wfFields]
  | cons v vs ih => simp [wfFields, ih]

theorem parseObjectFieldWith_sound (fl : Flags) (c : Bool) (pv : P Value)
    (hpv : ∀ s x s', pv s = .ok (x, s') → wfValue c x = true ∧ (valueV x).check fl s.last s.toks = some (s'.last, s'.toks))
    (s : PS) (f : ObjectField) (s' : PS) (h : parseObjectFieldWith fl pv s = .ok (f, s')) :
    wfField c f = true ∧ (objectFieldV f).check fl s.last s.toks = some (s'.last, s'.toks) := by
  simp only [parseObjectFieldWith, bind_ok, peek_ok, expect_ok, mkLoc_ok, pure_ok] at h
  obtain ⟨st, s1, ⟨ts, h1, rfl⟩, nm, s2, hn, col, s3, ⟨ts3, h3, hk3, rfl⟩, v, s4, hv, loc, s5, ⟨rfl, rfl⟩, hfin⟩ := h
  cases hfin
  have cn := parseName_sound fl _ _ _ hn
  obtain ⟨w, cv⟩ := hpv _ _ _ hv
  simp only [h1, h3] at cn cv
  simp [wfField, w, objectFieldV, Item.check, Item.checkAll, h1, cn, cls_const hk3 rfl, cv]

theorem parseValueLiteral_sound (fl : Flags) : ∀ (n : Nat) (c : Bool) (s : PS) (v : Value) (s' : PS),
    parseValueLiteral fl n c s = .ok (v, s') →
    wfValue c v = true ∧ (valueV v).check fl s.last s.toks = some (s'.last, s'.toks) := by
  intro n
  induction n with
  | zero => intro c s v s' h; simp [parseValueLiteral, fail_ok] at h
  | succ n ih =>
    intro c s v s' h
    simp only [parseValueLiteral, bind_ok, peek_ok] at h
    obtain ⟨tok, s1, ⟨ts, h1, rfl⟩, h⟩ := h
    generalize hk : tok.kind = k at h
    cases k with
    | bracketL =>
      simp only at h
      simp only [any_, bind_ok, expect_ok, mkLoc_ok, pure_ok] at h
      obtain ⟨vs, s2, ⟨o, s3, ⟨ts3, h3, _, rfl⟩, hl⟩, loc, s4, ⟨rfl, rfl⟩, hfin⟩ := h
      cases hfin
      rw [h1] at h3; cases h3
      obtain ⟨q, cs⟩ := anyLoop_sound fl _ .bracketR rfl (fun v => wfValue c v = true) valueV (ih c) _ _ _ _ hl
      simp only at cs
      refine ⟨by simp only [wfValue, wfValues_eq]; exact q, ?_⟩
      simp [valueV, valuesV_eq, Item.check, Item.checkAll, h1, cls_const hk rfl, cs]
    | curlyL =>
      simp only at h
      simp only [bind_ok, expect_ok, mkLoc_ok, pure_ok] at h
      obtain ⟨o, s3, ⟨ts3, h3, _, rfl⟩, fs, s2, hl, loc, s4, ⟨rfl, rfl⟩, hfin⟩ := h
      cases hfin
      rw [h1] at h3; cases h3
      obtain ⟨q, cs⟩ := anyLoop_sound fl _ .curlyR rfl (fun f => wfField c f = true) objectFieldV
        (parseObjectFieldWith_sound fl c _ (ih c)) _ _ _ _ hl
      simp only at cs
      refine ⟨by simp only [wfValue, wfFields_eq]; exact q, ?_⟩
      simp [valueV, fieldsV_eq, Item.check, Item.checkAll, h1, cls_const hk rfl, cs]
    | int =>
      simp only at h
      simp only [bind_ok, advance_ok, mkLoc_ok, pure_ok] at h
      obtain ⟨t, s2, ⟨ts2, h2, rfl⟩, loc, s3, ⟨rfl, rfl⟩, hfin⟩ := h
      cases hfin; rw [h1] at h2; cases h2
      simp [wfValue, valueV, Item.check, Item.checkAll, h1, cls, hk, hasValue]
    | float =>
      simp only at h
      simp only [bind_ok, advance_ok, mkLoc_ok, pure_ok] at h
      obtain ⟨t, s2, ⟨ts2, h2, rfl⟩, loc, s3, ⟨rfl, rfl⟩, hfin⟩ := h
      cases hfin; rw [h1] at h2; cases h2
      simp [wfValue, valueV, Item.check, Item.checkAll, h1, cls, hk, hasValue]
    | string =>
      simp only at h
      simp only [bind_ok, pure_ok] at h
      obtain ⟨sv, s2, hs, hfin⟩ := h
      cases hfin
      have cs := parseStringLiteral_sound fl _ _ _ ⟨_, _, h1, Or.inl hk⟩ hs
      simp [wfValue, valueV, cs]
    | blockString =>
      simp only at h
      simp only [bind_ok, pure_ok] at h
      obtain ⟨sv, s2, hs, hfin⟩ := h
      cases hfin
      have cs := parseStringLiteral_sound fl _ _ _ ⟨_, _, h1, Or.inr hk⟩ hs
      simp [wfValue, valueV, cs]
    | name =>
      simp only at h
      simp only [ite_ok, bind_ok, advance_ok, mkLoc_ok, pure_ok] at h
      rcases h with ⟨hv, t, s2, ⟨ts2, h2, rfl⟩, loc, s3, ⟨rfl, rfl⟩, hfin⟩ |
        ⟨hv, ⟨hv2, t, s2, ⟨ts2, h2, rfl⟩, loc, s3, ⟨rfl, rfl⟩, hfin⟩ | ⟨hv2, t, s2, ⟨ts2, h2, rfl⟩, loc, s3, ⟨rfl, rfl⟩, hfin⟩⟩
      · cases hfin; rw [h1] at h2; cases h2
        rcases hv with hv | hv
        · simp [wfValue, valueV, Item.check, Item.checkAll, h1, cls, hk, hasValue, hv]
        · have : ¬ (K.false_ = K.true_) := by decide
          simp [wfValue, valueV, Item.check, Item.checkAll, h1, cls, hk, hasValue, hv, this]
      · cases hfin; rw [h1] at h2; cases h2
        simp [wfValue, valueV, Item.check, Item.checkAll, h1, cls, hk, hasValue, hv2]
      · cases hfin; rw [h1] at h2; cases h2
        simp only [not_or] at hv
        simp [wfValue, notBoolNull, hv, hv2, valueV, Item.check, Item.checkAll, h1, cls, hk, hasValue]
    | dollar =>
      simp only at h
      simp only [ite_ok, fail_ok, bind_ok, pure_ok, and_false, false_or] at h
      obtain ⟨hc, var_, s2, hvar, hfin⟩ := h
      cases hfin
      have cv := parseVariable_sound fl _ _ _ hvar
      simp at hc
      simp [wfValue, hc, valueV, cv]
    | _ => simp [fail_ok] at h


/-! ### completeness -/

theorem yieldAll_mem_le {α} (V : α → Item) (xs : List α) (x : α) (hx : x ∈ xs) :
    (V x).yield.length ≤ (Item.yieldAll (xs.map V)).length := by
  induction xs with
  | nil => cases hx
  | cons y ys ih =>
    simp only [List.map_cons, Item.yieldAll, List.length_append]
    rcases List.mem_cons.1 hx with rfl | h
    · omega
    · have := ih h; omega

theorem yieldAll_append (a b : List Item) : Item.yieldAll (a ++ b) = Item.yieldAll a ++ Item.yieldAll b := by
  induction a with
  | nil => simp [Item.yieldAll]
  | cons i is ih => simp [Item.yieldAll, ih]

/-- the first token of a value -/
theorem valueV_first (fl : Flags) (v : Value) (l : Tok) (ts : List Tok) (r : Tok × List Tok)
    (h : (valueV v).check fl l ts = some r) :
    ∃ t tl, ts = t :: tl ∧ t.kind ≠ .bracketR ∧ t.kind ≠ .curlyR := by
  rcases r with ⟨l', rest⟩
  cases v with
  | var v =>
    simp only [valueV, variableV, check_node, checkAll_cons, check_tok] at h
    obtain ⟨f, tl, rfl, ⟨l1, ts1, ⟨t, h1, hc, _⟩, _⟩, _⟩ := h
    cases h1; exact ⟨_, _, rfl, by rw [cls_kind hc]; decide, by rw [cls_kind hc]; decide⟩
  | string sv =>
    simp only [valueV, stringV, check_node, checkAll_cons, check_tok] at h
    obtain ⟨f, tl, rfl, ⟨l1, ts1, ⟨t, h1, hc, _⟩, _⟩, _⟩ := h
    cases h1
    refine ⟨_, _, rfl, ?_, ?_⟩ <;> rw [cls_kind hc] <;> split <;> decide
  | int _ _ | float _ _ | boolean _ _ | null _ | enum _ _ | list _ _ | object _ _ =>
    simp only [valueV, check_node, checkAll_cons, check_tok] at h
    obtain ⟨f, tl, rfl, ⟨l1, ts1, ⟨t, h1, hc, _⟩, _⟩, _⟩ := h
    cases h1; exact ⟨_, _, rfl, by rw [cls_kind hc]; decide, by rw [cls_kind hc]; decide⟩

theorem parseObjectFieldWith_complete (fl : Flags) (pv : P Value) (f : ObjectField)
    (hpv : ∀ name value loc, f = .mk name value loc → ∀ l ts l' rest, (valueV value).check fl l ts = some (l', rest) →
      pv ⟨ts, l⟩ = .ok (value, ⟨rest, l'⟩))
    (l l' : Tok) (ts rest : List Tok) (h : (objectFieldV f).check fl l ts = some (l', rest)) :
    parseObjectFieldWith fl pv ⟨ts, l⟩ = .ok (f, ⟨rest, l'⟩) ∧ ∃ t tl, ts = t :: tl ∧ t.kind ≠ .curlyR := by
  rcases f with ⟨name, value, loc⟩
  simp only [objectFieldV, check_node, checkAll_cons, checkAll_nil, check_tok] at h
  obtain ⟨st, tl, rfl, ⟨l1, ts1, hn, l2, ts2, ⟨col, h2, hc2, rfl⟩, l3, ts3, hv, hfin⟩, rfl⟩ := h
  cases hfin; subst h2
  have cn := parseName_complete fl _ _ _ _ _ hn
  have cv := hpv name value _ rfl _ _ _ _ hv
  have hfirst : st.kind ≠ .curlyR := by
    simp only [nameV, check_node, checkAll_cons, check_tok] at hn
    obtain ⟨f, tl', hf, ⟨_, _, ⟨t, h1, hc, _⟩, _⟩, _⟩ := hn
    cases hf; cases h1; rw [cls_kind hc]; decide
  refine ⟨?_, _, _, rfl, hfirst⟩
  simp [parseObjectFieldWith, bind_eq, peek_cons, cn, expect_pos (cls_kind hc2), cv, mkLoc_eq, pure_eq]

theorem parseValueLiteral_complete (fl : Flags) : ∀ (n : Nat) (c : Bool) (v : Value) (l l' : Tok) (ts rest : List Tok),
    wfValue c v = true → width (valueV v) ≤ n →
    (valueV v).check fl l ts = some (l', rest) →
    parseValueLiteral fl n c ⟨ts, l⟩ = .ok (v, ⟨rest, l'⟩) := by
  intro n
  induction n with
  | zero =>
    intro c v l l' ts rest _ hw
    cases v <;> simp [width, valueV, variableV, stringV, Item.yield, Item.yieldAll] at hw
  | succ n ih =>
    intro c v l l' ts rest w hw h
    cases v with
    | var var_ =>
      have cv := parseVariable_complete fl var_ l l' ts rest h
      simp only [valueV, variableV, check_node, checkAll_cons, check_tok] at h
      obtain ⟨f, tl, rfl, ⟨l1, ts1, ⟨t, h1, hc, _⟩, _⟩, _⟩ := h
      cases h1
      have hc' : c = false := by simpa [wfValue] using w
      simp [parseValueLiteral, bind_eq, peek_cons, cls_kind hc, hc', cv, pure_eq]
    | int val loc =>
      simp only [valueV, check_node, checkAll_cons, checkAll_nil, check_tok] at h
      obtain ⟨f, tl, rfl, ⟨l1, ts1, ⟨t, h1, hc, rfl⟩, hfin⟩, rfl⟩ := h
      cases hfin; cases h1
      have hk := cls_kind hc
      have hv : l'.value = val := by simpa [cls, hk, hasValue] using hc
      simp [parseValueLiteral, bind_eq, peek_cons, hk, advance_cons, mkLoc_eq, pure_eq, hv]
    | float val loc =>
      simp only [valueV, check_node, checkAll_cons, checkAll_nil, check_tok] at h
      obtain ⟨f, tl, rfl, ⟨l1, ts1, ⟨t, h1, hc, rfl⟩, hfin⟩, rfl⟩ := h
      cases hfin; cases h1
      have hk := cls_kind hc
      have hv : l'.value = val := by simpa [cls, hk, hasValue] using hc
      simp [parseValueLiteral, bind_eq, peek_cons, hk, advance_cons, mkLoc_eq, pure_eq, hv]
    | string sv =>
      obtain ⟨cs, t, tl, rfl, hk⟩ := parseStringLiteral_complete fl sv l l' ts rest h
      rcases sv with ⟨val, blk, loc⟩
      cases blk <;> simp at hk <;> simp [parseValueLiteral, bind_eq, peek_cons, hk, cs, pure_eq]
    | boolean b loc =>
      simp only [valueV, check_node, checkAll_cons, checkAll_nil, check_tok] at h
      obtain ⟨f, tl, rfl, ⟨l1, ts1, ⟨t, h1, hc, rfl⟩, hfin⟩, rfl⟩ := h
      cases hfin; cases h1
      have hk := cls_kind hc
      have hv : l'.value = (if b then K.true_ else K.false_) := by simpa [cls, hk, hasValue] using hc
      have hne : ¬ (K.false_ = K.true_) := by decide
      cases b <;> simp at hv <;>
        simp [parseValueLiteral, bind_eq, peek_cons, hk, ite_app, advance_cons, mkLoc_eq, pure_eq, hv, hne]
    | null loc =>
      simp only [valueV, check_node, checkAll_cons, checkAll_nil, check_tok] at h
      obtain ⟨f, tl, rfl, ⟨l1, ts1, ⟨t, h1, hc, rfl⟩, hfin⟩, rfl⟩ := h
      cases hfin; cases h1
      have hk := cls_kind hc
      have hv : l'.value = K.null_ := by simpa [cls, hk, hasValue] using hc
      have h1 : ¬ (K.null_ = K.true_) := by decide
      have h2 : ¬ (K.null_ = K.false_) := by decide
      simp [parseValueLiteral, bind_eq, peek_cons, hk, ite_app, advance_cons, mkLoc_eq, pure_eq, hv, h1, h2]
    | enum val loc =>
      simp only [valueV, check_node, checkAll_cons, checkAll_nil, check_tok] at h
      obtain ⟨f, tl, rfl, ⟨l1, ts1, ⟨t, h1, hc, rfl⟩, hfin⟩, rfl⟩ := h
      cases hfin; cases h1
      have hk := cls_kind hc
      have hv : l'.value = val := by simpa [cls, hk, hasValue] using hc
      simp only [wfValue, notBoolNull, decide_eq_true_eq] at w
      simp [parseValueLiteral, bind_eq, peek_cons, hk, ite_app, advance_cons, mkLoc_eq, pure_eq, hv, w]
    | list vs loc =>
      simp only [valueV, valuesV_eq, check_node, checkAll_cons, check_tok] at h
      obtain ⟨f, tl, rfl, ⟨l1, ts1, ⟨t, h1, hc, rfl⟩, hall⟩, rfl⟩ := h
      cases h1
      have hk := cls_kind hc
      have hwid : (Item.yieldAll (vs.map valueV)).length + 2 ≤ n + 1 := by
        simp [width, valueV, valuesV_eq, Item.yield, Item.yieldAll, yieldAll_append] at hw; omega
      have hlen : vs.length < n := by
        have : vs.length ≤ (Item.yieldAll (vs.map valueV)).length := by
          clear hall hwid hw w
          induction vs with
          | nil => simp
          | cons v vs ih' =>
            simp only [List.map_cons, Item.yieldAll, List.length_append, List.length_cons]
            have : 1 ≤ (valueV v).yield.length := by
              cases v <;> simp [valueV, variableV, stringV, Item.yield, Item.yieldAll]
            omega
        omega
      have hp : ∀ x ∈ vs, ∀ l ts l' rest, (valueV x).check fl l ts = some (l', rest) →
          parseValueLiteral fl n c ⟨ts, l⟩ = .ok (x, ⟨rest, l'⟩) ∧ ∃ t tl, ts = t :: tl ∧ t.kind ≠ .bracketR := by
        intro x hx l ts l' rest hx'
        have wx : wfValue c x = true := by
          simp only [wfValue, wfValues_eq] at w; exact w x hx
        have := yieldAll_mem_le valueV vs x hx
        refine ⟨ih c x l l' ts rest wx (by simp [width]; omega) hx', ?_⟩
        obtain ⟨t, tl, e, h1, _⟩ := valueV_first fl x l ts _ hx'
        exact ⟨t, tl, e, h1⟩
      have cl := anyLoop_complete fl (parseValueLiteral fl n c) .bracketR valueV n vs f l' tl rest hp hlen hall
      simp [parseValueLiteral, bind_eq, peek_cons, hk, any_, expect_pos hk, cl, mkLoc_eq, pure_eq]
    | object fs loc =>
      simp only [valueV, fieldsV_eq, check_node, checkAll_cons, check_tok] at h
      obtain ⟨f, tl, rfl, ⟨l1, ts1, ⟨t, h1, hc, rfl⟩, hall⟩, rfl⟩ := h
      cases h1
      have hk := cls_kind hc
      have hwid : (Item.yieldAll (fs.map objectFieldV)).length + 2 ≤ n + 1 := by
        simp [width, valueV, fieldsV_eq, Item.yield, Item.yieldAll, yieldAll_append] at hw; omega
      have hlen : fs.length < n := by
        have : fs.length ≤ (Item.yieldAll (fs.map objectFieldV)).length := by
          clear hall hwid hw w
          induction fs with
          | nil => simp
          | cons v vs ih' =>
            simp only [List.map_cons, Item.yieldAll, List.length_append, List.length_cons]
            have : 1 ≤ (objectFieldV v).yield.length := by
              cases v; simp [objectFieldV, nameV, Item.yield, Item.yieldAll]
            omega
        omega
      have hp : ∀ x ∈ fs, ∀ l ts l' rest, (objectFieldV x).check fl l ts = some (l', rest) →
          parseObjectFieldWith fl (parseValueLiteral fl n c) ⟨ts, l⟩ = .ok (x, ⟨rest, l'⟩) ∧
            ∃ t tl, ts = t :: tl ∧ t.kind ≠ .curlyR := by
        intro x hx l ts l' rest hx'
        apply parseObjectFieldWith_complete fl _ x _ l l' ts rest hx'
        intro name value loc' e l ts l' rest hv
        have wx : wfField c x = true := by
          simp only [wfValue, wfFields_eq] at w; exact w x hx
        have := yieldAll_mem_le objectFieldV fs x hx
        subst e
        refine ih c value l l' ts rest (by simpa [wfField] using wx) ?_ hv
        simp [objectFieldV, Item.yield, Item.yieldAll] at this
        simp [width]; omega
      have cl := anyLoop_complete fl _ .curlyR objectFieldV n fs f l' tl rest hp hlen hall
      simp [parseValueLiteral, bind_eq, peek_cons, hk, expect_pos hk, cl, mkLoc_eq, pure_eq]

end PyGql.Parse

/-
  Completeness of `__next__` (for punctuators, `...`, names and quoted strings): an ignored run followed by a
  complete lexeme that obeys the follow restriction is read as exactly that token.
-/
import PyGqlModel.Lemmas.LexTiles

namespace PyGql.Lex
open PyGql.Spec.Lexical

/-! ### `_read_over_whitespace` skips exactly an ignored run -/

theorem row_true_eq (Y : Text) (h : startsWith Lex.isCommentChar Y = false) :
    readOverWhitespace true Y = readOverWhitespace false Y := by
  cases Y with
  | nil => rfl
  | cons c t =>
    simp only [startsWith] at h
    unfold readOverWhitespace
    simp [h]

theorem row_comment_body (body Y : Text) (hb : ∀ x ∈ body, Lex.isCommentChar x = true) :
    readOverWhitespace true (body ++ Y) = readOverWhitespace true Y := by
  induction body with
  | nil => rfl
  | cons c t ih =>
    have hc := hb c (by simp)
    rw [List.cons_append, readOverWhitespace]
    simp only [hc, Bool.and_self, ↓reduceIte]
    exact ih (fun x hx => hb x (by simp [hx]))

/-- the character a token can start with: not ignored, not `#` -/
def tokenStart (X : Text) : Prop := startsWith (fun c => Lex.isIgnored c || c == 35) X = false

theorem row_stop (X : Text) (hX : tokenStart X) : readOverWhitespace false X = X := by
  cases X with
  | nil => rfl
  | cons c t =>
    simp only [tokenStart, startsWith, Bool.or_eq_false_iff, beq_eq_false_iff_ne] at hX
    unfold readOverWhitespace
    simp [hX.1, hX.2]

theorem row_complete (X ign : Text) (hrun : IgnRun X ign) (hX : tokenStart X) :
    readOverWhitespace false (ign ++ X) = X := by
  induction hrun with
  | nil => exact row_stop X hX
  | char c t hc _ ih =>
    rw [List.cons_append, readOverWhitespace]
    have : Lex.isIgnored c = true := by rw [isIgnored_spec]; exact hc
    simp only [Bool.false_and, Bool.false_eq_true, ↓reduceIte, this]
    exact ih
  | comment body t hbody hstop _ ih =>
    have h35 : Lex.isIgnored 35 = false := by decide
    have hbody' : ∀ x ∈ body, Lex.isCommentChar x = true := fun x hx => by
      rw [isCommentChar_spec]; exact hbody x hx
    have hstop' : startsWith Lex.isCommentChar (t ++ X) = false := by
      have : Lex.isCommentChar = Spec.Lexical.isCommentChar := funext isCommentChar_spec
      rw [this]; exact hstop
    rw [List.cons_append, readOverWhitespace]
    simp only [Bool.false_and, Bool.false_eq_true, ↓reduceIte, h35]
    rw [List.append_assoc, row_comment_body body _ hbody', row_true_eq _ hstop']
    exact ih

/-! ### dispatch facts about first characters -/

theorem symbol_start (c : Nat) (h : (symbolKind c).isSome = true) :
    Lex.isPrintable c = true ∧ Lex.isIgnored c = false ∧ c ≠ 35 := by
  by_cases hc : c < 128
  · have key : ∀ c, c < 128 → (symbolKind c).isSome = true →
        Lex.isPrintable c = true ∧ Lex.isIgnored c = false ∧ c ≠ 35 := by decide
    exact key c hc h
  · rw [symbolKind, lookup_none_of_lt (b := 128) (by decide) (by omega)] at h
    simp at h

theorem nameStart_dispatch (c : Nat) (h : Spec.Lexical.isNameStart c = true) :
    Lex.isPrintable c = true ∧ symbolKind c = none ∧ c ≠ 46 ∧ c ≠ 34 ∧ (decide (c = 45) || Lex.isDigit c) = false ∧
      Lex.isIgnored c = false ∧ c ≠ 35 ∧ Lex.isNameStart c = true := by
  by_cases hc : c < 128
  · rw [← isNameStart_spec] at h
    have key : ∀ c, c < 128 → Lex.isNameStart c = true →
        Lex.isPrintable c = true ∧ symbolKind c = none ∧ c ≠ 46 ∧ c ≠ 34 ∧ (decide (c = 45) || Lex.isDigit c) = false ∧
          Lex.isIgnored c = false ∧ c ≠ 35 ∧ Lex.isNameStart c = true := by decide
    exact key c hc h
  · simp [Spec.Lexical.isNameStart, Spec.Lexical.isLetter] at h; omega

/-! ### one token -/

/-- the token `next` must return for lexeme `lex` of kind `k` with value `v`, followed by `rest` -/
def tokAt (n : Nat) (k : TokKind) (lex rest v : Text) : Tok := ⟨k, n - (lex ++ rest).length, n - rest.length, v⟩

theorem next_punct (n : Nat) (ign rest : Text) (c : Nat) (k : TokKind) (hk : symbolKind c = some k)
    (hrun : IgnRun ([c] ++ rest) ign) :
    next n (ign ++ ([c] ++ rest)) = .ok (tokAt n k [c] rest [c], some rest) := by
  obtain ⟨hp, hi, h35⟩ := symbol_start c (by simp [hk])
  have hX : tokenStart ([c] ++ rest) := by simp [tokenStart, startsWith, hi, h35]
  unfold next
  rw [row_complete _ _ hrun hX]
  simp [hp, hk, tokAt, posAt]

theorem next_ellip (n : Nat) (ign rest : Text) (hrun : IgnRun ([46, 46, 46] ++ rest) ign) :
    next n (ign ++ ([46, 46, 46] ++ rest)) = .ok (tokAt n .ellip [46, 46, 46] rest [46, 46, 46], some rest) := by
  have hX : tokenStart ([46, 46, 46] ++ rest) := by
    have : Lex.isIgnored 46 = false := by decide
    simp [tokenStart, startsWith, this]
  have h1 : Lex.isPrintable 46 = true := by decide
  have h2 : symbolKind 46 = none := by decide
  unfold next
  rw [row_complete _ _ hrun hX]
  simp [h1, h2, readEllipsis, readDots, Except.map, tokAt, posAt]

theorem next_name (n : Nat) (ign lex rest : Text) (hl : isName lex = true)
    (hf : startsWith isNameCont rest = false) (hrun : IgnRun (lex ++ rest) ign) :
    next n (ign ++ (lex ++ rest)) = .ok (tokAt n .name lex rest lex, some rest) := by
  cases lex with
  | nil => simp [isName] at hl
  | cons c t =>
    simp only [isName, Bool.and_eq_true] at hl
    obtain ⟨hp, hs, h46, h34, hnum, hi, h35, hns⟩ := nameStart_dispatch c hl.1
    have hX : tokenStart (c :: t ++ rest) := by simp [tokenStart, startsWith, hi, h35]
    have hfun : Lex.isNameChar = isNameCont := funext isNameChar_spec
    have hall : ∀ x ∈ c :: t, Lex.isNameChar x = true := by
      intro x hx
      rw [isNameChar_spec]
      rcases List.mem_cons.mp hx with rfl | hx
      · simp [isNameCont, hl.1]
      · exact List.all_eq_true.mp hl.2 x hx
    obtain ⟨htk, hdr⟩ := takeWhile_append_stop Lex.isNameChar (c :: t) rest hall (by rw [hfun]; exact hf)
    have htq : tq.isPrefixOf (c :: (t ++ rest)) = false := by
      simp [tq, List.isPrefixOf, Ne.symm h34]
    unfold next
    rw [row_complete _ _ hrun hX]
    simp only [List.cons_append] at htk hdr ⊢
    simp [hp, hs, h46, h34, htq, hnum, hns, readName, htk, hdr, Except.map, tokAt, posAt]

theorem next_string (n : Nat) (ign lex rest v : Text) (hl : stringValue lex = some v)
    (hf : lex = [34, 34] → startsWith (· == 34) rest = false) (hrun : IgnRun (lex ++ rest) ign) :
    next n (ign ++ (lex ++ rest)) = .ok (tokAt n .string lex rest v, some rest) := by
  cases lex with
  | nil => simp [stringValue] at hl
  | cons c t =>
    -- shape of the lexeme: `"` body `"`
    have hc : c = 34 := by
      unfold stringValue at hl
      split at hl
      · rename_i t' heq; simp only [List.cons.injEq] at heq; exact heq.1
      · cases hl
    subst hc
    simp only [stringValue] at hl
    split at hl
    · rename_i hlast
      obtain ⟨body, rfl⟩ : ∃ body, t = body ++ [34] := List.getLast?_eq_some_iff.mp hlast
      simp only [List.dropLast_concat] at hl
      have hbody := PyGql.Props.C02.escape_spec_complete n body v rest hl
      have hi : Lex.isIgnored 34 = false := by decide
      have hX : tokenStart (34 :: (body ++ [34]) ++ rest) := by simp [tokenStart, startsWith, hi]
      have hp : Lex.isPrintable 34 = true := by decide
      have hs : symbolKind 34 = none := by decide
      have htq : ¬ (tq <+: 34 :: (body ++ 34 :: rest)) := by
        rw [← List.isPrefixOf_iff_prefix, Bool.not_eq_true]
        cases body with
        | nil =>
          have := hf rfl
          cases rest with
          | nil => simp [tq, List.isPrefixOf]
          | cons x xs =>
            simp only [startsWith, beq_eq_false_iff_ne] at this
            simp [tq, List.isPrefixOf, Ne.symm this]
        | cons b bs =>
          have hb : b ≠ 34 := by
            intro hb; subst hb
            rw [stringCharacters.eq_def] at hl; simp at hl
          simp [tq, List.isPrefixOf, Ne.symm hb]
      unfold next
      rw [row_complete _ _ hrun hX]
      simp only [List.cons_append, List.append_assoc, List.singleton_append] at hbody ⊢
      simp [hp, hs, htq, readString, hbody, Except.map, tokAt, posAt]
    · cases hl

end PyGql.Lex

/-
  Frame / congruence facts of `enterRule` (see `Lemmas/ValidateChainFrame.lean`), part 1b: proved case by case over the
  26 rules and the 14 node kinds.
-/
import PyGqlModel.Lemmas.ValidateChainFrame
namespace PyGql.Validate
open PyGql

set_option maxHeartbeats 2000000 in
/-- the own part after entering depends on the own part before only -/
theorem enterRule_own (s : SchemaD) (fx : Fixes) (r : Rule) (n : Node) (ti : TI) (a : RS) :
    ((enterRule s fx r n ti a).1).own r = ((enterRule s fx r n ti (a.own r)).1).own r := by
  cases r <;> cases n <;> rs_cases

end PyGql.Validate

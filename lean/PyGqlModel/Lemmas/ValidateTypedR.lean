/-
  GENERIC TYPED RELATIONAL WALK (port of `Lemmas/ValidateTyped.lean` from error counts to an arbitrary relation):
  any relation `R l st st'` between the states before / after a visit and the list `l` of (node, static context)
  pairs of the visited sub-tree that restores the stacks of `TypeInfoVisitor` (`ti`), holds for the empty visit
  (`nil`), composes (`append`) and is preserved by `visitNode` (`node`) holds of every visit function with the
  list of `Spec.typedNodes`. For chains that never raise SkipNode but whose behaviour depends on the rule STATE.
-/
import PyGqlModel.Lemmas.ValidateTyped
namespace PyGql.Validate
open PyGql PyGql.Validate.Spec

structure TAlg (c : Cfg) (R : List (Node × View) → St → St → Prop) : Prop where
  ti : ∀ {l : List (Node × View)} {st st' : St}, R l st st' → st'.ti = st.ti
  nil : ∀ st, R [] st st
  append : ∀ {a b : List (Node × View)} {s1 s2 s3 : St}, R a s1 s2 → R b s2 s3 → R (a ++ b) s1 s3
  node : ∀ (n : Node) (body : St → St) (l : List (Node × View)) (st : St), n.isDoc = false →
    (∀ d, n = .directive d → st.ti.directive = none) →
    (∀ st1, st1.ti = tiEnter c.schema n st.ti → R l st1 (body st1)) →
    R ((n, View.enter c.schema n st.ti.view) :: l) st (visitNode c n body st)

variable {c : Cfg} {R : List (Node × View) → St → St → Prop}

/-- a leaf node (no children) whose context is the current one -/
theorem leafR (h : TAlg c R) (n : Node) (st : St) (hn : n.isDoc = false)
    (hd : ∀ d, n = .directive d → st.ti.directive = none) (hv : View.enter c.schema n st.ti.view = st.ti.view) :
    R (withView st.ti.view [n]) st (visitNode c n id st) := by
  have := h.node n id [] st hn hd (fun st1 _ => h.nil st1)
  rwa [hv] at this

mutual
theorem visitValueR (h : TAlg c R) : ∀ (v : Value) (st : St),
    R (withView st.ti.view (valueNodes v)) st (visitValue c v st)
  | .list vs, st => by
    rw [visitValue, valueNodes, withView_cons]
    have := h.node (.value (.list vs)) (fun st => visitValues c vs st) (withView st.ti.view (valuesNodes vs)) st rfl
      (fun _ e => by cases e) (fun st1 e => by
        have := visitValuesR h vs st1
        rwa [e, view_tiEnter_value] at this)
    exact this
  | .obj fs, st => by
    rw [visitValue, valueNodes, withView_cons]
    have := h.node (.value (.obj fs)) (fun st => visitObjFields c fs st) (withView st.ti.view (objFieldsNodes fs)) st rfl
      (fun _ e => by cases e) (fun st1 e => by
        have := visitObjFieldsR h fs st1
        rwa [e, view_tiEnter_value] at this)
    exact this
  | .var x, st => by rw [visitValue]; simp only [valueNodes]; exact leafR h _ st rfl (fun _ e => by cases e) rfl
  | .int x, st => by rw [visitValue]; simp only [valueNodes]; exact leafR h _ st rfl (fun _ e => by cases e) rfl
  | .float x, st => by rw [visitValue]; simp only [valueNodes]; exact leafR h _ st rfl (fun _ e => by cases e) rfl
  | .str x, st => by rw [visitValue]; simp only [valueNodes]; exact leafR h _ st rfl (fun _ e => by cases e) rfl
  | .bool x, st => by rw [visitValue]; simp only [valueNodes]; exact leafR h _ st rfl (fun _ e => by cases e) rfl
  | .null, st => by rw [visitValue]; simp only [valueNodes]; exact leafR h _ st rfl (fun _ e => by cases e) rfl
  | .enum x, st => by rw [visitValue]; simp only [valueNodes]; exact leafR h _ st rfl (fun _ e => by cases e) rfl
theorem visitValuesR (h : TAlg c R) : ∀ (vs : List Value) (st : St),
    R (withView st.ti.view (valuesNodes vs)) st (visitValues c vs st)
  | [], st => by rw [visitValues, valuesNodes]; exact h.nil st
  | v :: vs, st => by
    rw [visitValues, valuesNodes, withView_append]
    have h1 := visitValueR h v st
    have h2 := visitValuesR h vs (visitValue c v st)
    rw [h.ti h1] at h2
    exact h.append h1 h2
theorem visitObjFieldR (h : TAlg c R) : ∀ (x : ObjField) (st : St),
    R (withView st.ti.view (objFieldNodes x)) st (visitObjField c x st)
  | .mk n v, st => by
    rw [visitObjField, objFieldNodes, withView_cons]
    exact h.node (.objField n) (visitValue c v) (withView st.ti.view (valueNodes v)) st rfl
      (fun _ e => by cases e) (fun st1 e => by
        have := visitValueR h v st1
        rwa [e, view_tiEnter_objField] at this)
theorem visitObjFieldsR (h : TAlg c R) : ∀ (fs : List ObjField) (st : St),
    R (withView st.ti.view (objFieldsNodes fs)) st (visitObjFields c fs st)
  | [], st => by rw [visitObjFields, objFieldsNodes]; exact h.nil st
  | x :: fs, st => by
    rw [visitObjFields, objFieldsNodes, withView_append]
    have h1 := visitObjFieldR h x st
    have h2 := visitObjFieldsR h fs (visitObjField c x st)
    rw [h.ti h1] at h2
    exact h.append h1 h2
end


/-- a fold over children whose visits restore the stacks: the context is the same for all of them -/
theorem foldlR {α} (h : TAlg c R) (P : TI → Prop) (visit : α → St → St) (ns : View → α → List (Node × View))
    (hv : ∀ a st, P st.ti → R (ns st.ti.view a) st (visit a st)) :
    ∀ (as : List α) (st : St), P st.ti →
      R (as.flatMap (ns st.ti.view)) st (as.foldl (fun st a => visit a st) st)
  | [], st, _ => by simpa using h.nil st
  | a :: as, st, hp => by
    rw [List.foldl_cons, List.flatMap_cons]
    have h1 := hv a st hp
    have h2 := foldlR h P visit ns hv as (visit a st) (by rw [h.ti h1]; exact hp)
    rw [h.ti h1] at h2
    exact h.append h1 h2

theorem visitArgumentR (h : TAlg c R) (a : Arg) (st : St) :
    R (withView st.ti.view (argNodes a)) st (visitArgument c a st) := by
  rw [visitArgument, argNodes, withView_cons]
  exact h.node (.argument a) (visitValue c a.value) (withView st.ti.view (valueNodes a.value)) st rfl
    (fun _ e => by cases e) (fun st1 e => by
      have := visitValueR h a.value st1
      rwa [e, view_tiEnter_argument] at this)

theorem visitArgumentsR (h : TAlg c R) (as : List Arg) (st : St) :
    R (withView st.ti.view (argsNodes as)) st (visitArguments c as st) := by
  have := foldlR h (fun _ => True) (visitArgument c) (fun v a => withView v (argNodes a))
    (fun a st _ => visitArgumentR h a st) as st trivial
  simpa [withView, argsNodes, List.map_flatMap, visitArguments] using this

theorem visitDirectiveR (h : TAlg c R) (d : Dir) (st : St) (hd : st.ti.directive = none) :
    R (tnDir c.schema st.ti.view d) st (visitDirective c d st) := by
  rw [visitDirective, tnDir]
  exact h.node (.directive d) (visitArguments c d.args) _ st rfl (fun _ _ => hd) (fun st1 e => by
    have := visitArgumentsR h d.args st1
    rwa [e, view_enter] at this)

theorem visitDirectivesR (h : TAlg c R) (ds : List Dir) (st : St) (hd : st.ti.directive = none) :
    R (tnDirs c.schema st.ti.view ds) st (visitDirectives c ds st) :=
  foldlR h (fun t => t.directive = none) (visitDirective c) (fun v d => tnDir c.schema v d)
    (fun d st hp => visitDirectiveR h d st hp) ds st hd

mutual
theorem visitSelR (h : TAlg c R) : ∀ (x : Sel) (st : St), st.ti.directive = none →
    R (tnSel c.schema st.ti.view x) st (visitSel c x st)
  | .field al name args dirs true ssid sub, st, hd => by
    rw [visitSel, tnSel]
    refine h.node (.field name args dirs true) _ _ st rfl (fun _ e => by cases e) (fun st1 e => ?_)
    have hd1 : st1.ti.directive = none := by rw [e, directive_tiEnter _ _ _ (fun _ => by simp)]; exact hd
    have hv1 : st1.ti.view = View.enter c.schema (.field name args dirs true) st.ti.view := by rw [e, view_enter]
    simp only [↓reduceIte]
    have h1 := visitArgumentsR h args st1
    have h2 := visitDirectivesR h dirs (visitArguments c args st1) (by rw [h.ti h1]; exact hd1)
    have h3 := h.node (.selectionSet ssid sub) (visitSels c sub) _ (visitDirectives c dirs (visitArguments c args st1))
      rfl (fun _ e => by cases e) (fun st2 e2 => by
        have := visitSelsR h sub st2 (by rw [e2, directive_tiEnter _ _ _ (fun _ => by simp), h.ti h2, h.ti h1]; exact hd1)
        rwa [e2, view_enter] at this)
    rw [h.ti h2, h.ti h1] at h3
    rw [h.ti h1] at h2
    rw [hv1] at h1 h2 h3
    exact h.append (h.append h1 h2) h3
  | .field al name args dirs false ssid sub, st, hd => by
    rw [visitSel, tnSel]
    refine h.node (.field name args dirs false) _ _ st rfl (fun _ e => by cases e) (fun st1 e => ?_)
    have hd1 : st1.ti.directive = none := by rw [e, directive_tiEnter _ _ _ (fun _ => by simp)]; exact hd
    have hv1 : st1.ti.view = View.enter c.schema (.field name args dirs false) st.ti.view := by rw [e, view_enter]
    simp only [Bool.false_eq_true, ↓reduceIte, List.append_nil]
    have h1 := visitArgumentsR h args st1
    have h2 := visitDirectivesR h dirs (visitArguments c args st1) (by rw [h.ti h1]; exact hd1)
    rw [h.ti h1] at h2
    rw [hv1] at h1 h2
    exact h.append h1 h2
  | .spread name dirs, st, hd => by
    rw [visitSel, tnSel]
    have := h.node (.spread name dirs) (visitDirectives c dirs) (tnDirs c.schema st.ti.view dirs) st rfl
      (fun _ e => by cases e) (fun st1 e => by
        have := visitDirectivesR h dirs st1 (by rw [e, directive_tiEnter _ _ _ (fun _ => by simp)]; exact hd)
        rwa [e, view_enter] at this)
    exact this
  | .inline on dirs ssid sub, st, hd => by
    rw [visitSel, tnSel]
    refine h.node (.inline on dirs) _ _ st rfl (fun _ e => by cases e) (fun st1 e => ?_)
    have hd1 : st1.ti.directive = none := by rw [e, directive_tiEnter _ _ _ (fun _ => by simp)]; exact hd
    have hv1 : st1.ti.view = View.enter c.schema (.inline on dirs) st.ti.view := by rw [e, view_enter]
    have h2 := visitDirectivesR h dirs st1 hd1
    have h3 := h.node (.selectionSet ssid sub) (visitSels c sub) _ (visitDirectives c dirs st1)
      rfl (fun _ e => by cases e) (fun st2 e2 => by
        have := visitSelsR h sub st2 (by rw [e2, directive_tiEnter _ _ _ (fun _ => by simp), h.ti h2]; exact hd1)
        rwa [e2, view_enter] at this)
    rw [h.ti h2] at h3
    rw [hv1] at h2 h3
    exact h.append h2 h3
theorem visitSelsR (h : TAlg c R) : ∀ (xs : List Sel) (st : St), st.ti.directive = none →
    R (tnSels c.schema st.ti.view xs) st (visitSels c xs st)
  | [], st, _ => by rw [visitSels, tnSels]; exact h.nil st
  | x :: xs, st, hd => by
    rw [visitSels, tnSels]
    have h1 := visitSelR h x st hd
    have h2 := visitSelsR h xs (visitSel c x st) (by rw [h.ti h1]; exact hd)
    rw [h.ti h1] at h2
    exact h.append h1 h2
end


theorem visitVarDefR (h : TAlg c R) (v : VarDef) (st : St) (hd : st.ti.directive = none) :
    R (tnVarDef c.schema st.ti.view v) st (visitVarDef c v st) := by
  rw [visitVarDef, tnVarDef, withView_cons, List.cons_append]
  refine h.node (.varDef v) _ _ st rfl (fun _ e => by cases e) (fun st1 e => ?_)
  have hv1 : st1.ti.view = st.ti.view := by rw [e, view_enter]; rfl
  have hd1 : st1.ti.directive = none := by rw [e, directive_tiEnter _ _ _ (fun _ => by simp)]; exact hd
  have key : ∀ st', st'.ti = st1.ti →
      R (withView st.ti.view [.typeNode v.type] ++ tnDirs c.schema st.ti.view v.dirs) st'
        (visitDirectives c v.dirs (visitNode c (.typeNode v.type) id st')) := by
    intro st' ht
    have hv' : st'.ti.view = st.ti.view := by rw [ht]; exact hv1
    have a := leafR h (.typeNode v.type) st' rfl (fun _ e => by cases e) rfl
    have b := visitDirectivesR h v.dirs (visitNode c (.typeNode v.type) id st') (by rw [h.ti a, ht]; exact hd1)
    rw [h.ti a, hv'] at b
    rw [hv'] at a
    exact h.append a b
  rw [withView_append, List.append_assoc]
  cases hd' : v.default with
  | none => simpa [withView] using key st1 rfl
  | some dv =>
    simp only
    have h1 := visitValueR h dv st1
    have h2 := key (visitValue c dv st1) (h.ti h1)
    rw [hv1] at h1
    exact h.append h1 h2

theorem visitDefR (h : TAlg c R) (d : Def) (st : St) (h0 : st.ti = {}) :
    R (tnDef c.schema d) st (visitDef c d st) := by
  have hd0 : st.ti.directive = none := by rw [h0]
  have hv0 : st.ti.view = ({} : View) := by rw [h0]; rfl
  cases d with
  | op kind name vars dirs ssid sels =>
    rw [visitDef, tnDef]
    have := h.node (.operation kind name vars dirs sels) (fun st =>
        visitNode c (.selectionSet ssid sels) (visitSels c sels)
          (visitDirectives c dirs (vars.foldl (fun st v => visitVarDef c v st) st)))
      (vars.flatMap (tnVarDef c.schema (View.enter c.schema (.operation kind name vars dirs sels) {})) ++
        tnDirs c.schema (View.enter c.schema (.operation kind name vars dirs sels) {}) dirs ++
        (.selectionSet ssid sels, View.enter c.schema (.selectionSet ssid sels)
            (View.enter c.schema (.operation kind name vars dirs sels) {})) ::
          tnSels c.schema (View.enter c.schema (.selectionSet ssid sels)
            (View.enter c.schema (.operation kind name vars dirs sels) {})) sels)
      st rfl (fun _ e => by cases e) (fun st1 e => by
        have hd1 : st1.ti.directive = none := by rw [e, directive_tiEnter _ _ _ (fun _ => by simp)]; exact hd0
        have hv1 : st1.ti.view = View.enter c.schema (.operation kind name vars dirs sels) {} := by
          rw [e, view_enter, hv0]
        have h1' := foldlR h (fun t => t.directive = none) (visitVarDef c)
          (fun v x => tnVarDef c.schema v x) (fun a st hp => visitVarDefR h a st hp) vars st1 hd1
        have h2 := visitDirectivesR h dirs _ (by rw [h.ti h1']; exact hd1)
        have h3 := h.node (.selectionSet ssid sels) (visitSels c sels) _
          (visitDirectives c dirs (vars.foldl (fun st v => visitVarDef c v st) st1))
          rfl (fun _ e => by cases e) (fun st2 e2 => by
            have := visitSelsR h sels st2 (by rw [e2, directive_tiEnter _ _ _ (fun _ => by simp), h.ti h2, h.ti h1']; exact hd1)
            rwa [e2, view_enter] at this)
        rw [h.ti h2, h.ti h1'] at h3
        rw [h.ti h1'] at h2
        rw [hv1] at h1' h2 h3
        exact h.append (h.append h1' h2) h3)
    rwa [hv0] at this
  | frag name on dirs ssid sels =>
    rw [visitDef, tnDef]
    have := h.node (.fragmentDef name on dirs) (fun st =>
        visitNode c (.selectionSet ssid sels) (visitSels c sels) (visitDirectives c dirs st))
      (tnDirs c.schema (View.enter c.schema (.fragmentDef name on dirs) {}) dirs ++
        (.selectionSet ssid sels, View.enter c.schema (.selectionSet ssid sels)
            (View.enter c.schema (.fragmentDef name on dirs) {})) ::
          tnSels c.schema (View.enter c.schema (.selectionSet ssid sels)
            (View.enter c.schema (.fragmentDef name on dirs) {})) sels)
      st rfl (fun _ e => by cases e) (fun st1 e => by
        have hd1 : st1.ti.directive = none := by rw [e, directive_tiEnter _ _ _ (fun _ => by simp)]; exact hd0
        have hv1 : st1.ti.view = View.enter c.schema (.fragmentDef name on dirs) {} := by rw [e, view_enter, hv0]
        have h2 := visitDirectivesR h dirs st1 hd1
        have h3 := h.node (.selectionSet ssid sels) (visitSels c sels) _ (visitDirectives c dirs st1)
          rfl (fun _ e => by cases e) (fun st2 e2 => by
            have := visitSelsR h sels st2 (by rw [e2, directive_tiEnter _ _ _ (fun _ => by simp), h.ti h2]; exact hd1)
            rwa [e2, view_enter] at this)
        rw [h.ti h2] at h3
        rw [hv1] at h2 h3
        exact h.append h2 h3)
    rwa [hv0] at this
  | ts a b =>
    rw [visitDef, tnDef]
    have := leafR h .tsDef st rfl (fun _ e => by cases e) rfl
    rwa [hv0] at this

/-- **the stacks are balanced and every (node, static context) pair is met exactly once** -/
theorem visitDefsR (h : TAlg c R) (ds : List Def) (st : St) (h0 : st.ti = {}) :
    R (ds.flatMap (tnDef c.schema)) st (ds.foldl (fun st x => visitDef c x st) st) :=
  foldlR h (fun t => t = {}) (visitDef c) (fun _ d => tnDef c.schema d) (fun d st hp => visitDefR h d st hp) ds st h0

end PyGql.Validate

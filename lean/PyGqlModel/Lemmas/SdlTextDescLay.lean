/-
  C12 text level — LAYER (ii): the block strings `print_description` writes (one-line form, multi-line form, multi-line
  form with a white-space-led first line) are ONE BlockString token with the description as value, under every
  enclosing indentation.
-/
import PyGqlModel.Lemmas.SdlTextDescBase
import PyGqlModel.Lemmas.LexBlockRange
namespace PyGql.SdlText
open PyGql PyGql.Spec PyGql.PrintLex PyGql.PrintTokens PyGql.PrintString PyGql.BlockString PyGql.Lex

/-! ### smallest indentation 0 -/

theorem foldl_min_zero (t : List Nat) : t.foldl min 0 = 0 := by
  induction t with
  | nil => rfl
  | cons a t ih => simpa using ih

theorem foldl_min_mem_zero (a : Nat) (t : List Nat) (h : 0 ∈ a :: t) : t.foldl min a = 0 := by
  induction t generalizing a with
  | nil => simp at h; simp [h]
  | cons b t ih =>
    simp only [List.foldl_cons]
    simp only [List.mem_cons] at h
    rcases h with h | h | h
    · subst h; simpa using foldl_min_zero t
    · subst h; simpa using foldl_min_zero t
    · exact ih (min a b) (by simp [h])

theorem min?_zero (l : List Nat) (h : 0 ∈ l) : l.min? = some 0 := by
  cases l with
  | nil => cases h
  | cons a t => simp only [List.min?_cons']; rw [foldl_min_mem_zero a t h]

theorem foldl_indentStep_zero (ls : List Text) (h : minIndentZero ls = true) : ls.foldl indentStep none = some 0 := by
  rw [foldl_eq_M]
  unfold M
  apply min?_zero
  simp only [minIndentZero, List.any_eq_true, List.mem_filter, Bool.not_eq_true', beq_iff_eq] at h
  obtain ⟨l, ⟨hl, hb⟩, hz⟩ := h
  simp only [List.mem_map, List.mem_filter]
  refine ⟨l, ⟨hl, ?_⟩, hz⟩
  rw [nb_iff]; exact hb

/-! ### the scan + layout core -/

/-- CORE (no leading line): `"""⏎Q·l₀⏎Q·l₁…⏎P'"""` -/
theorem lexesTo_layout_core (Q P' l : Text) (ls : List Text) (r : Text) (cs' : List TokClass) (hQ : Blank Q) (hP : Blank P')
    (hlines : ∀ x ∈ l :: ls, IsLine x) (hchars : ∀ c ∈ joinLF (l :: ls), blockChar c = true)
    (hfirst : onlyWhiteSpace l = false) (hlast : onlyWhiteSpace ((l :: ls).getLast (by simp)) = false)
    (hmin : (l :: ls).foldl indentStep none = some 0) (hl : LexesTo r cs') :
    LexesTo (tq ++ 10 :: (Q ++ (escapeTQAux 0 (replaceLF Q (joinLF (l :: ls))) ++ 10 :: (P' ++ (tq ++ r)))))
      ((.blockString, joinLF (l :: ls)) :: cs') := by
  have hX : ∀ c ∈ replaceLF Q (joinLF (l :: ls)), blockChar c = true := by
    intro c hc
    rcases mem_replaceLF hc with h | h
    · exact hchars c h
    · rcases hQ c h with e | e <;> subst e <;> decide
  refine lexesTo_step (w := tq ++ 10 :: (Q ++ (escapeTQAux 0 (replaceLF Q (joinLF (l :: ls))) ++ 10 :: (P' ++ tq))))
    (r := r) (c := (.blockString, joinLF (l :: ls))) (fun n => ?_) (by simp; omega) hl |> fun x => by
      simpa [List.append_assoc] using x
  have := next_block_layout n Q P' (replaceLF Q (joinLF (l :: ls))) r hQ hP hX
  rw [parseBlockString_layout Q P' l ls hQ hP hlines hfirst hlast hmin] at this
  exact ⟨_, by simpa [List.append_assoc] using this, by simp [cls, hasValue]⟩


/-- CORE (one line): `"""x"""` where `x` does not end with `"` or `\` -/
theorem lexesTo_oneline_core (v r : Text) (cs' : List TokClass) (hline : IsLine v) (hchars : ∀ c ∈ v, blockChar c = true)
    (hnb : onlyWhiteSpace v = false) (h34 : v.getLast? ≠ some 34) (h92 : v.getLast? ≠ some 92) (hl : LexesTo r cs') :
    LexesTo (tq ++ (escapeTQAux 0 v ++ (tq ++ r))) ((.blockString, v) :: cs') := by
  have hvne : v ≠ [] := by intro e; subst e; simp [onlyWhiteSpace] at hnb
  obtain ⟨v0, c, rfl⟩ : ∃ v0 c, v = v0 ++ [c] := ⟨v.dropLast, v.getLast hvne, (List.dropLast_concat_getLast hvne).symm⟩
  have hc34 : c ≠ 34 := by intro e; subst e; simp at h34
  have hc92 : c ≠ 92 := by intro e; subst e; simp at h92
  have hcb : blockChar c = true := hchars c (by simp)
  have hv0 : ∀ x ∈ v0, blockChar x = true := fun x hx => hchars x (by simp [hx])
  have e : tq ++ (escapeTQAux 0 (v0 ++ [c]) ++ (tq ++ r)) = tq ++ (escapeTQAux 0 v0 ++ c :: (tq ++ r)) := by
    rw [escape_snoc c hc34]; simp
  rw [e]
  refine lexesTo_tq _ r (v0 ++ [c]) cs' (v0 ++ [c]) (fun n => ?_) (parseBlockString_single _ hline hnb) (by simp; omega) hl
  rw [readBlockBody_escape_c c hc34 n (tq ++ r) v0 0 (Nat.zero_le _) hv0, readBlockBody_last n c r hc34 hc92 hcb]; rfl

/-- layout with the value's first line directly after the opening quotes: `"""l₀⏎Q·l₁…⏎P'"""` -/
theorem parseBlockString_layout_lead (Q P' l0 : Text) (ls : List Text) (hQ : Blank Q) (hP : Blank P')
    (hlines : ∀ x ∈ l0 :: ls, IsLine x) (hfirst : onlyWhiteSpace l0 = false)
    (hlast : onlyWhiteSpace ((l0 :: ls).getLast (by simp)) = false)
    (hmin : ls = [] ∨ ls.foldl indentStep none = some 0) :
    parseBlockString (replaceLF Q (joinLF (l0 :: ls)) ++ 10 :: P') = joinLF (l0 :: ls) := by
  have hQb := isBlank_of_blank hQ
  have hPb := isBlank_of_blank hP
  cases ls with
  | nil =>
    have hl0 := hlines l0 (by simp)
    simp only [joinLF]
    rw [replaceLF_noLF Q l0 (isLine_noLF hl0)]
    exact parseBlockString_single_lf l0 P' hP hl0 hfirst
  | cons l1 ls =>
    have hmin' : (l1 :: ls).foldl indentStep none = some 0 := by
      rcases hmin with h | h
      · cases h
      · exact h
    have hl0 := hlines l0 (by simp)
    have htail : ∀ x ∈ l1 :: ls, IsLine x := fun x hx => hlines x (by simp at hx ⊢; right; exact hx)
    have hraw : replaceLF Q (joinLF (l0 :: l1 :: ls)) ++ 10 :: P' = joinLF (l0 :: ((l1 :: ls).map (Q ++ ·) ++ [P'])) := by
      rw [joinLF_cons_cons, replaceLF_append, replaceLF_noLF Q l0 (isLine_noLF hl0)]
      simp only [replaceLF, ↓reduceIte]
      rw [indent_joinLF Q l1 ls htail]
      have := joinLF_snoc (Q ++ l1) (ls.map (Q ++ ·)) P'
      simp only [List.map_cons, List.cons_append] at this ⊢
      rw [joinLF_cons_cons, this]; simp
    have hsplit : splitLines (joinLF (l0 :: ((l1 :: ls).map (Q ++ ·) ++ [P']))) = l0 :: ((l1 :: ls).map (Q ++ ·) ++ [P']) := by
      apply splitLines_joinLF
      intro x hx
      simp only [List.mem_cons, List.mem_append, List.mem_map, List.not_mem_nil, or_false] at hx
      rcases hx with rfl | ⟨y, hy, rfl⟩ | rfl
      · exact hl0
      · exact isLine_blank_append hQ (htail y (by simpa using hy))
      · exact isLine_blank hP
    have hci : BlockString.commonIndent (l0 :: ((l1 :: ls).map (Q ++ ·) ++ [P'])) = some Q.length := by
      unfold BlockString.commonIndent
      simp only [List.drop_succ_cons, List.drop_zero, List.foldl_append, List.foldl_cons, List.foldl_nil]
      have := foldl_indentStep_prefix Q hQb (l1 :: ls) none
      simp only [Option.map_none] at this
      rw [this, hmin', indentStep_blank _ P' hPb]; simp
    rw [hraw]
    unfold parseBlockString
    rw [hsplit]
    simp only [hci]
    have hmd := map_drop_prefix Q ls
    have hd1 : List.drop Q.length (Q ++ l1) = l1 := by simp
    simp only [List.take_succ_cons, List.take_zero, List.drop_succ_cons, List.drop_zero, List.map_append,
      List.map_cons, List.map_nil, hmd, hd1]
    have hP' : IsBlank (List.drop Q.length P') := fun c hc => hPb c (List.mem_of_mem_drop hc)
    have e1 : popLeading (l0 :: (l1 :: ls ++ [List.drop Q.length P'])) = l0 :: (l1 :: ls ++ [List.drop Q.length P']) :=
      popLeading_nonblank l0 _ hfirst
    have e2 : popTrailing (l0 :: l1 :: ls ++ [List.drop Q.length P']) = l0 :: l1 :: ls := by
      rw [popTrailing_blank _ _ hP']
      have hsplit2 : l0 :: l1 :: ls = (l0 :: l1 :: ls).dropLast ++ [(l0 :: l1 :: ls).getLast (by simp)] :=
        (List.dropLast_concat_getLast (by simp)).symm
      rw [hsplit2]
      exact popTrailing_nonblank _ _ hlast
    simp only [List.nil_append, List.cons_append] at e1 e2 ⊢
    rw [e1, e2]

/-- CORE (white-space-led first line): `"""l₀⏎Q·l₁…⏎P'"""` -/
theorem lexesTo_layout_lead_core (Q P' l0 : Text) (ls : List Text) (r : Text) (cs' : List TokClass) (hQ : Blank Q) (hP : Blank P')
    (hlines : ∀ x ∈ l0 :: ls, IsLine x) (hchars : ∀ c ∈ joinLF (l0 :: ls), blockChar c = true)
    (hfirst : onlyWhiteSpace l0 = false) (hlast : onlyWhiteSpace ((l0 :: ls).getLast (by simp)) = false)
    (hmin : ls = [] ∨ ls.foldl indentStep none = some 0) (hl : LexesTo r cs') :
    LexesTo (tq ++ (escapeTQAux 0 (replaceLF Q (joinLF (l0 :: ls))) ++ 10 :: (P' ++ (tq ++ r))))
      ((.blockString, joinLF (l0 :: ls)) :: cs') := by
  have hX : ∀ c ∈ replaceLF Q (joinLF (l0 :: ls)), blockChar c = true := by
    intro c hc
    rcases mem_replaceLF hc with h | h
    · exact hchars c h
    · rcases hQ c h with e | e <;> subst e <;> decide
  refine lexesTo_tq _ r (joinLF (l0 :: ls)) cs' (replaceLF Q (joinLF (l0 :: ls)) ++ 10 :: P') (fun n => ?_)
    (parseBlockString_layout_lead Q P' l0 ls hQ hP hlines hfirst hlast hmin) (by simp; omega) hl
  have h1 := readBlockBody_escape n (P' ++ (tq ++ r)) (replaceLF Q (joinLF (l0 :: ls))) 0 (Nat.zero_le _) hX
  have h2 := readBlockBody_close n (10 :: P') r (layoutText_lf_blank hP)
  simp only [List.cons_append, List.append_assoc] at h2
  rw [h1, h2]; rfl

end PyGql.SdlText

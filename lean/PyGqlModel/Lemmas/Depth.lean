/-
  C19 — helper lemmas: potential / fuel stability of the specification, invariants of
  `collect_fields_untyped` (grouping, `_seen_fragments`), `_nesting_levels` = spec levels.
-/
import PyGqlModel.Depth
import PyGqlModel.Spec.DepthSpec

set_option linter.unusedVariables false
set_option linter.unusedSimpArgs false

namespace PyGql.Depth.Lemmas
open PyGql.Depth PyGql.DepthSpec

/-! ### basic facts -/

theorem pot_field (w : String → Nat) (a n d sub) : pot w (.field a n d sub) = potL w sub + 1 := by
  simp [pot]; omega
theorem pot_inline (w : String → Nat) (d ss) : pot w (.inline d ss) = potL w ss + 1 := by
  simp [pot]; omega
theorem pot_spread (w : String → Nat) (n d) : pot w (.spread n d) = w n + 1 := by
  simp [pot]; omega
theorem potL_nil (w : String → Nat) : potL w [] = 0 := by simp [potL]
theorem potL_cons (w : String → Nat) (s ss) : potL w (s :: ss) = max (pot w s) (potL w ss) := by simp [potL]

theorem pot_pos (w : String → Nat) (s : Sel) : 1 ≤ pot w s := by
  cases s <;> simp [pot_field, pot_inline, pot_spread]

theorem pot_le_potL (w : String → Nat) : ∀ (l : List Sel) (s : Sel), s ∈ l → pot w s ≤ potL w l := by
  intro l
  induction l with
  | nil => intro s h; cases h
  | cons x xs ih =>
    intro s h
    rw [potL_cons]
    cases h with
    | head => omega
    | tail _ h => have := ih s h; omega

theorem potL_append (w : String → Nat) (a b : List Sel) : potL w (a ++ b) = max (potL w a) (potL w b) := by
  induction a with
  | nil => simp [potL_nil]
  | cons x xs ih => simp only [List.cons_append, potL_cons, ih]; omega

theorem maxL_append (a b : List Nat) : maxL (a ++ b) = max (maxL a) (maxL b) := by
  induction a with
  | nil => simp [maxL]
  | cons x xs ih => simp only [List.cons_append, maxL, ih]; omega

theorem le_maxL {l : List Nat} {x : Nat} (h : x ∈ l) : x ≤ maxL l := by
  induction l with
  | nil => cases h
  | cons y ys ih =>
    simp only [maxL]
    cases h with
    | head => omega
    | tail _ h => have := ih h; omega

theorem maxL_le {l : List Nat} {b : Nat} (h : ∀ x ∈ l, x ≤ b) : maxL l ≤ b := by
  induction l with
  | nil => simp [maxL]
  | cons y ys ih =>
    simp only [maxL]
    have h1 := h y (by simp)
    have h2 := ih (fun x hx => h x (by simp [hx]))
    omega

theorem lookupFrag_some {frags : List Frag} {n : String} {f : Frag} (h : lookupFrag frags n = some f) :
    f ∈ frags ∧ f.name = n := by
  unfold lookupFrag at h
  have h1 := List.mem_of_find?_eq_some h
  have h2 := List.find?_some h
  simp at h1 h2
  exact ⟨h1, h2⟩

/-! ### boundness of the directive variables -/

def condBound (vars : Vars) : Cond → Bool
  | .lit _ => true
  | .var n => (vars.lookup n).isSome

def optBound (vars : Vars) : Option Cond → Bool
  | none => true
  | some c => condBound vars c

def dirsBound (vars : Vars) (d : Dirs) : Bool := optBound vars d.skip && optBound vars d.incl

mutual
def boundSel (vars : Vars) : Sel → Bool
  | .field _ _ d sub => dirsBound vars d && boundL vars sub
  | .inline d ss => dirsBound vars d && boundL vars ss
  | .spread _ d => dirsBound vars d
def boundL (vars : Vars) : List Sel → Bool
  | [] => true
  | s :: ss => boundSel vars s && boundL vars ss
end

theorem boundL_cons (vars : Vars) (s ss) : boundL vars (s :: ss) = (boundSel vars s && boundL vars ss) := by
  simp [boundL]

theorem boundL_append (vars : Vars) (a b : List Sel) : boundL vars (a ++ b) = (boundL vars a && boundL vars b) := by
  induction a with
  | nil => simp [boundL]
  | cons x xs ih => simp [boundL_cons, ih, Bool.and_assoc]

theorem boundL_mem (vars : Vars) : ∀ (l : List Sel) (s : Sel), boundL vars l = true → s ∈ l → boundSel vars s = true := by
  intro l
  induction l with
  | nil => intro s _ h; cases h
  | cons x xs ih =>
    intro s hb h
    simp [boundL_cons] at hb
    cases h with
    | head => exact hb.1
    | tail _ h => exact ih s hb.2 h

theorem evalCond_ok (vars : Vars) (c : Cond) (h : condBound vars c = true) :
    evalCond vars c = .ok (condVal vars c) := by
  cases c with
  | lit b => simp [evalCond, condVal]
  | var n =>
    simp only [condBound] at h
    cases hl : vars.lookup n with
    | none => simp [hl] at h
    | some b => simp [evalCond, condVal, hl]

theorem evalOpt_ok (vars : Vars) (o : Option Cond) (h : optBound vars o = true) :
    evalOpt vars o = .ok (o.map (condVal vars)) := by
  cases o with
  | none => simp [evalOpt]
  | some c => simp only [optBound] at h; simp [evalOpt, evalCond_ok vars c h]

theorem skipSelection_ok (vars : Vars) (d : Dirs) (h : dirsBound vars d = true) :
    skipSelection d vars = .ok (skipped vars d) := by
  simp only [dirsBound, Bool.and_eq_true] at h
  simp [skipSelection, evalOpt_ok vars _ h.1, evalOpt_ok vars _ h.2, skipped]

/-! ### fuel stability of the specification -/

section
variable (frags : List Frag) (vars : Vars) (w : String → Nat)

theorem levelsSel_stable (hc : Consistent frags w) :
    ∀ (k : Nat) (s : Sel) (k' : Nat), pot w s ≤ k → pot w s ≤ k' →
      levelsSel frags vars k s = levelsSel frags vars k' s := by
  intro k
  induction k with
  | zero => intro s k' h; have := pot_pos w s; omega
  | succ k ih =>
    intro s k' h h'
    cases k' with
    | zero => have := pot_pos w s; omega
    | succ k' =>
      have hlist : ∀ l : List Sel, potL w l ≤ k → potL w l ≤ k' →
          l.map (levelsSel frags vars k) = l.map (levelsSel frags vars k') := by
        intro l hl hl'
        apply List.map_congr_left
        intro c hc'
        have := pot_le_potL w l c hc'
        exact ih c k' (by omega) (by omega)
      cases s with
      | field a n d sub =>
        rw [pot_field] at h h'
        simp only [levelsSel]
        rw [hlist sub (by omega) (by omega)]
      | inline d ss =>
        rw [pot_inline] at h h'
        simp only [levelsSel]
        rw [hlist ss (by omega) (by omega)]
      | spread n d =>
        rw [pot_spread] at h h'
        simp only [levelsSel]
        cases hl : lookupFrag frags n with
        | none => rfl
        | some f =>
          have ⟨hm, hn⟩ := lookupFrag_some hl
          have := hc f hm
          rw [hn] at this
          simp only []
          rw [hlist f.sels (by omega) (by omega)]

/-- canonical (fuel-free) levels of a selection / a selection list -/
def cLv (s : Sel) : Nat := levelsSel frags vars (pot w s) s
def cL (sels : List Sel) : Nat := maxL (sels.map (cLv frags vars w))

theorem cL_nil : cL frags vars w [] = 0 := by simp [cL, maxL]
theorem cL_cons (s ss) : cL frags vars w (s :: ss) = max (cLv frags vars w s) (cL frags vars w ss) := by
  simp [cL, maxL]
theorem cL_append (a b) : cL frags vars w (a ++ b) = max (cL frags vars w a) (cL frags vars w b) := by
  simp [cL, maxL_append]

theorem levels_eq_cL (hc : Consistent frags w) (k : Nat) (sels : List Sel) (h : potL w sels ≤ k) :
    levels frags vars k sels = cL frags vars w sels := by
  unfold levels cL
  congr 1
  apply List.map_congr_left
  intro c hc'
  have := pot_le_potL w sels c hc'
  exact levelsSel_stable frags vars w hc k c (pot w c) (by omega) (by omega)

theorem cLv_field (hc : Consistent frags w) (a n d sub) :
    cLv frags vars w (.field a n d sub) = if skipped vars d then 0 else 1 + cL frags vars w sub := by
  unfold cLv
  rw [pot_field]
  simp only [levelsSel]
  have := levels_eq_cL frags vars w hc (potL w sub) sub (by omega)
  unfold levels at this
  rw [this]

theorem cLv_inline (hc : Consistent frags w) (d ss) :
    cLv frags vars w (.inline d ss) = if skipped vars d then 0 else cL frags vars w ss := by
  unfold cLv
  rw [pot_inline]
  simp only [levelsSel]
  have := levels_eq_cL frags vars w hc (potL w ss) ss (by omega)
  unfold levels at this
  rw [this]

/-- canonical levels of a fragment by name -/
def fragLv (n : String) : Nat :=
  match lookupFrag frags n with
  | none => 0
  | some f => cL frags vars w f.sels

theorem cLv_spread (hc : Consistent frags w) (n d) :
    cLv frags vars w (.spread n d) = if skipped vars d then 0 else fragLv frags vars w n := by
  unfold cLv fragLv
  rw [pot_spread]
  simp only [levelsSel]
  cases hl : lookupFrag frags n with
  | none => rfl
  | some f =>
    have ⟨hm, hn⟩ := lookupFrag_some hl
    have hw := hc f hm
    rw [hn] at hw
    have := levels_eq_cL frags vars w hc (w n) f.sels hw
    unfold levels at this
    simp only []
    rw [this]

end

end PyGql.Depth.Lemmas

/-
  C12 text level, applied schema directives — type definitions, directive definitions and the schema block printed by
  `SdlPrintTA`, against the views of the document `schemaToDocA` denotes.
-/
import PyGqlModel.Lemmas.SdlTextAMembers
namespace PyGql.SdlText
open PyGql PyGql.Ast PyGql.Sdl PyGql.Spec PyGql.PrintLex PyGql.PrintTokens PyGql.PrintMatch PyGql.PrintString PyGql.SdlPrint PyGql.Parse

/-- what is needed about the members of a type, by kind -/
def MembersPartA (s : SchemaD) (c : SdlPrintTA.OptsA) (apps : Apps) (t : TypeD) : Prop :=
  match t.kind with
  | .scalar => True
  | .object => t.fields ≠ [] ∧ (∀ n ∈ t.interfaces, nameOK n = true) ∧
      ∀ i, ∀ f ∈ t.fields, Lay (SdlPrintTA.printField s c apps t.name i f) (fieldDefinitionV (fieldOf (SdlPrintTA.fieldToDefA s c apps t.name f))).yield
  | .interface => t.fields ≠ [] ∧
      ∀ i, ∀ f ∈ t.fields, Lay (SdlPrintTA.printField s c apps t.name i f) (fieldDefinitionV (fieldOf (SdlPrintTA.fieldToDefA s c apps t.name f))).yield
  | .union => t.members ≠ [] ∧ ∀ n ∈ t.members, nameOK n = true
  | .enum => t.values ≠ [] ∧
      ∀ i, ∀ v ∈ t.values, Lay (SdlPrintTA.printEnumValue c apps t.name i v) (enumValueDefinitionV (enumValOf (SdlPrintTA.enumValToDefA c apps t.name v))).yield
  | .input => t.inputFields ≠ [] ∧
      ∀ i, ∀ a ∈ t.inputFields, Lay (SdlPrintTA.printInputField s c apps t.name i a) (inputValueV (inputValOf (SdlPrintTA.argToDefA s c apps t.name a))).yield

private theorem e_scalar : T "scalar " = K.scalar ++ [32] := by decide
private theorem e_enum : T "enum " = K.enum_ ++ [32] := by decide
private theorem e_union : T "union " = K.union ++ [32] := by decide
private theorem e_type : T "type " = K.type_ ++ [32] := by decide
private theorem e_interface : T "interface " = K.interface_ ++ [32] := by decide
private theorem e_input : T "input " = K.input ++ [32] := by decide
private theorem e_implements : T " implements " = 32 :: (K.implements ++ [32]) := by decide
private theorem e_directive : T "directive @" = K.directive ++ [32, 64] := by decide
private theorem e_on : T " on " = 32 :: (K.on ++ [32]) := by decide
private theorem e_schema : T "schema" = K.schema := by decide

theorem lay_printTypeA (s : SchemaD) (c : SdlPrintTA.OptsA) (apps : Apps) (t : TypeD) (hn : nameOK t.name = true)
    (hdesc : DescPart (SdlPrintT.printDescription c.base t.desc) (Item.yieldAll (descV (descOf (descToDoc t.desc)))))
    (hf : DirsFacts (SdlPrintTA.printDirectives c apps t.name) (SdlPrintTA.keptAt c apps t.name))
    (hm : MembersPartA s c apps t) :
    Lay (SdlPrintTA.printType s c apps t) (definitionV (typeDefOf (SdlPrintTA.typeToDefA s c apps t))).yield := by
  have kS : Spec.Lexical.isName K.scalar = true := by decide
  have kE : Spec.Lexical.isName K.enum_ = true := by decide
  have kU : Spec.Lexical.isName K.union = true := by decide
  have kT : Spec.Lexical.isName K.type_ = true := by decide
  have kI : Spec.Lexical.isName K.interface_ = true := by decide
  have kN : Spec.Lexical.isName K.input = true := by decide
  have kM : Spec.Lexical.isName K.implements = true := by decide
  have hfl := hf.lay
  have hfd := hf.delim
  unfold MembersPartA at hm
  cases hk : t.kind with
  | scalar =>
    have l := lay_desc_then hdesc (lay_kw_name kS t.name hn hfl hfd)
    simpa [SdlPrintTA.printType, hk, e_scalar, typeDefOf, SdlPrintTA.typeToDefA, definitionV, kw, Item.yield, Item.yieldAll,
      PrintMatch.yieldAll_append, List.append_assoc] using l
  | enum =>
    rw [hk] at hm
    have lb := lay_braces (SdlPrintTA.printEnumValue c apps t.name) (fun v => enumValueDefinitionV (enumValOf (SdlPrintTA.enumValToDefA c apps t.name v)))
      (SdlPrintTA.printEnumValues c apps t.name) (fun _ => rfl) (fun _ _ _ => rfl) t.values hm.1 hm.2
    have l := lay_desc_then hdesc (lay_kw_name kE t.name hn (lay_append hfl lb (delimHead_braces _))
      (delimHead_append hfd (delimHead_braces _)))
    have hmap : blockV enumValueDefinitionV (t.values.map fun v => enumValOf (SdlPrintTA.enumValToDefA c apps t.name v)) =
        blockV (fun v => enumValueDefinitionV (enumValOf (SdlPrintTA.enumValToDefA c apps t.name v))) t.values := by
      simp [blockV, List.map_map, Function.comp_def]
    simpa [SdlPrintTA.printType, hk, e_enum, typeDefOf, SdlPrintTA.typeToDefA, definitionV, kw, Item.yield, Item.yieldAll,
      PrintMatch.yieldAll_append, List.append_assoc, List.map_map, Function.comp_def, hmap] using l
  | union =>
    rw [hk] at hm
    have ln := lay_names_sep [32, 124, 32] .pipe sep_pipe' (fun b => delimHead_cons (by decide)) t.members hm.2
    have hemp : (t.members.map namedOf).isEmpty = false := by
      cases hmm : t.members with | nil => exact absurd hmm hm.1 | cons _ _ => rfl
    have l := lay_desc_then hdesc (lay_kw_name kU t.name hn
      (lay_append hfl (lay_space_cons (lay_equals (lay_space_cons ln))) (delimHead_cons (by decide)))
      (delimHead_append hfd (delimHead_cons (by decide))))
    simpa [SdlPrintTA.printType, hk, e_union, typeDefOf, SdlPrintTA.typeToDefA, definitionV, kw, unionMembersV, hemp, Item.yield,
      Item.yieldAll, PrintMatch.yieldAll_append, List.append_assoc] using l
  | object =>
    rw [hk] at hm
    obtain ⟨hne, hifs, hfs⟩ := hm
    have lb := lay_braces (SdlPrintTA.printField s c apps t.name) (fun f => fieldDefinitionV (fieldOf (SdlPrintTA.fieldToDefA s c apps t.name f)))
      (SdlPrintTA.printFields s c apps t.name) (fun _ => rfl) (fun _ _ _ => rfl) t.fields hne hfs
    have ldb := lay_append hfl lb (delimHead_braces _)
    have ddb := delimHead_append hfd (delimHead_braces (SdlPrintTA.printFields s c apps t.name 0 t.fields))
    have hmap : blockV fieldDefinitionV (t.fields.map fun f => fieldOf (SdlPrintTA.fieldToDefA s c apps t.name f)) =
        blockV (fun f => fieldDefinitionV (fieldOf (SdlPrintTA.fieldToDefA s c apps t.name f))) t.fields := by
      simp [blockV, List.map_map, Function.comp_def]
    by_cases hi : t.interfaces.isEmpty = true
    · have hi' : t.interfaces = [] := List.isEmpty_iff.1 hi
      have l := lay_desc_then hdesc (lay_kw_name kT t.name hn ldb ddb)
      simpa [SdlPrintTA.printType, hk, e_type, hi', typeDefOf, SdlPrintTA.typeToDefA, definitionV, kw, implementsV, Item.yield,
        Item.yieldAll, PrintMatch.yieldAll_append, List.append_assoc, List.map_map, Function.comp_def, hmap] using l
    · have hi' : t.interfaces.isEmpty = false := by simpa using hi
      have hemp : (t.interfaces.map namedOf).isEmpty = false := by simpa using hi'
      have ln := lay_names_sep [32, 38, 32] .amp sep_amp' (fun b => delimHead_cons (by decide)) t.interfaces hifs
      have limpl := lay_space_cons (lay_append (lay_name kM) (lay_space_cons (lay_append ln ldb ddb))
        (delimHead_cons (by decide)))
      have l := lay_desc_then hdesc (lay_kw_name kT t.name hn limpl (delimHead_cons (by decide)))
      simpa [SdlPrintTA.printType, hk, e_type, e_implements, hi', typeDefOf, SdlPrintTA.typeToDefA, definitionV, kw, implementsV,
        hemp, Item.yield, Item.yieldAll, PrintMatch.yieldAll_append, List.append_assoc, List.map_map, Function.comp_def, hmap]
        using l
  | interface =>
    rw [hk] at hm
    have lb := lay_braces (SdlPrintTA.printField s c apps t.name) (fun f => fieldDefinitionV (fieldOf (SdlPrintTA.fieldToDefA s c apps t.name f)))
      (SdlPrintTA.printFields s c apps t.name) (fun _ => rfl) (fun _ _ _ => rfl) t.fields hm.1 hm.2
    have hmap : blockV fieldDefinitionV (t.fields.map fun f => fieldOf (SdlPrintTA.fieldToDefA s c apps t.name f)) =
        blockV (fun f => fieldDefinitionV (fieldOf (SdlPrintTA.fieldToDefA s c apps t.name f))) t.fields := by
      simp [blockV, List.map_map, Function.comp_def]
    have l := lay_desc_then hdesc (lay_kw_name kI t.name hn (lay_append hfl lb (delimHead_braces _))
      (delimHead_append hfd (delimHead_braces _)))
    simpa [SdlPrintTA.printType, hk, e_interface, typeDefOf, SdlPrintTA.typeToDefA, definitionV, kw, Item.yield, Item.yieldAll,
      PrintMatch.yieldAll_append, List.append_assoc, List.map_map, Function.comp_def, hmap] using l
  | input =>
    rw [hk] at hm
    have lb := lay_braces (SdlPrintTA.printInputField s c apps t.name) (fun a => inputValueV (inputValOf (SdlPrintTA.argToDefA s c apps t.name a)))
      (SdlPrintTA.printInputFields s c apps t.name) (fun _ => rfl) (fun _ _ _ => rfl) t.inputFields hm.1 hm.2
    have hmap : blockV inputValueV (t.inputFields.map fun a => inputValOf (SdlPrintTA.argToDefA s c apps t.name a)) =
        blockV (fun a => inputValueV (inputValOf (SdlPrintTA.argToDefA s c apps t.name a))) t.inputFields := by
      simp [blockV, List.map_map, Function.comp_def]
    have l := lay_desc_then hdesc (lay_kw_name kN t.name hn (lay_append hfl lb (delimHead_braces _))
      (delimHead_append hfd (delimHead_braces _)))
    simpa [SdlPrintTA.printType, hk, e_input, typeDefOf, SdlPrintTA.typeToDefA, definitionV, kw, Item.yield, Item.yieldAll,
      PrintMatch.yieldAll_append, List.append_assoc, List.map_map, Function.comp_def, hmap] using l

theorem printTypeA_ne (s : SchemaD) (c : SdlPrintTA.OptsA) (apps : Apps) (t : TypeD) : SdlPrintTA.printType s c apps t ≠ [] := by
  unfold SdlPrintTA.printType
  cases t.kind <;> simp [e_scalar, e_enum, e_union, e_type, e_interface, e_input, K.scalar, K.enum_, K.union, K.type_,
    K.interface_, K.input]

theorem lay_printDirectiveDefinitionA (s : SchemaD) (c : SdlPrintTA.OptsA) (apps : Apps) (d : DirectiveD) (hn : nameOK d.name = true)
    (hdesc : DescPart (SdlPrintT.printDescription c.base d.desc) (Item.yieldAll (descV (descOf (descToDoc d.desc)))))
    (hargs : ArgsPartA s c apps ("@" ++ d.name) d.args 0) (hl : ∀ n ∈ d.locations, nameOK n = true) :
    Lay (SdlPrintTA.printDirectiveDefinition s c apps d)
      (definitionV (.directiveDefinition (descOf (descToDoc d.desc)) (nameOf d.name)
        (d.args.map fun a => inputValOf (SdlPrintTA.argToDefA s c apps ("@" ++ d.name) a)) (d.locations.map nameOf) none)).yield := by
  have kD : Spec.Lexical.isName K.directive = true := by decide
  have kO : Spec.Lexical.isName K.on = true := by decide
  have l1 := lay_space_cons (lay_append (lay_name kO) (lay_space_cons (lay_locations d.locations hl)) (delimHead_cons (by decide)))
  have l2 := lay_append (lay_nameOf d.name hn) (lay_append hargs.1 l1 (delimHead_cons (by decide)))
    (delimHead_append hargs.2 (delimHead_cons (by decide)))
  have l3 := lay_append (lay_name kD) (lay_space_cons (lay_atSign l2)) (delimHead_cons (by decide))
  have l := lay_desc_then hdesc l3
  simpa [SdlPrintTA.printDirectiveDefinition, e_directive, e_on, definitionV, kw, nameV, Item.yield, Item.yieldAll,
    PrintMatch.yieldAll_append, List.append_assoc] using l

theorem printDirectiveDefinitionA_ne (s : SchemaD) (c : SdlPrintTA.OptsA) (apps : Apps) (d : DirectiveD) :
    SdlPrintTA.printDirectiveDefinition s c apps d ≠ [] := by
  unfold SdlPrintTA.printDirectiveDefinition
  simp [e_directive, K.directive]

/-- the `schema` block with its applied directives -/
theorem lay_printSchemaDefinitionA (c : SdlPrintTA.OptsA) (apps : Apps) (hind : Blank c.base.indent) (s : SchemaD)
    (hq : rootOKT s.query = true) (hm : rootOKT s.mutation = true) (hs : rootOKT s.subscription = true)
    (hne : rootOps s ≠ []) (hf : DirsFacts (SdlPrintTA.printDirectives c apps "") (SdlPrintTA.keptAt c apps "")) :
    Lay (T "schema" ++ SdlPrintTA.printDirectives c apps "" ++ SdlPrintT.braces (SdlPrintT.rootLines c.base s))
      (definitionV (.schemaDefinition ((SdlPrintTA.keptAt c apps "").map dirOf) ((rootOps s).map opTypeOf) none)).yield := by
  have kS : Spec.Lexical.isName K.schema = true := by decide
  have hops := rootOps_ops s
  have hnames := rootOps_names s hq hm hs
  have hline : ∀ i : Nat, ∀ p ∈ rootOps s, Lay (c.base.indent ++ (T p.1 ++ 58 :: 32 :: T p.2)) (operationTypeV (opTypeOf p)).yield := by
    intro _ p hp
    have hop : Spec.Lexical.isName (T p.1) = true := by
      rcases hops p hp with h | h | h <;> rw [h] <;> decide
    have l := lay_blank_prefix hind (lay_append (lay_name hop) (lay_colon (lay_space_cons (lay_nameOf p.2 (hnames p hp))))
      (delimHead_cons (by decide)))
    simpa [operationTypeV, opTypeOf, namedOf, namedTypeV, nameOf, nameV, kw, Item.yield, Item.yieldAll] using l
  have lb := lay_braces (fun (_ : Nat) (p : String × String) => c.base.indent ++ (T p.1 ++ 58 :: 32 :: T p.2))
    (fun p => operationTypeV (opTypeOf p)) (fun _ l => l.map fun p => c.base.indent ++ (T p.1 ++ 58 :: 32 :: T p.2))
    (fun _ => rfl) (fun _ _ _ => rfl) (rootOps s) hne hline
  have hemp : (rootOps s).isEmpty = false := by cases h : rootOps s with | nil => exact absurd h hne | cons _ _ => rfl
  have l := lay_append (lay_name kS) (lay_append hf.lay lb (delimHead_braces _)) (delimHead_append hf.delim (delimHead_braces _))
  rw [rootLines_eq, e_schema]
  simpa [definitionV, kw, blockV, hemp, Item.yield, Item.yieldAll, PrintMatch.yieldAll_append, List.map_map,
    Function.comp_def, List.append_assoc] using l

end PyGql.SdlText

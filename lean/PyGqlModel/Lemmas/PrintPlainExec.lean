/-
  Location-free executable trees have `plain` views (needed to turn token classes into a `Matches`).
-/
import PyGqlModel.Lemmas.PrintTokens
namespace PyGql.PrintTokens
open PyGql PyGql.Ast PyGql.Parse PyGql.Spec PyGql.Print PyGql.PrintLex PyGql.PrintMatch

theorem plainAll_map {α} (f : α → Item) (xs : List α) (h : ∀ x ∈ xs, plain (f x) = true) :
    plainAll (xs.map f) = true := by
  induction xs with
  | nil => rfl
  | cons x xs ih =>
    simp only [List.map_cons, plainAll, Bool.and_eq_true]
    exact ⟨h x (by simp), ih (fun y hy => h y (by simp [hy]))⟩

def noLocArgument (a : Argument) : Bool := a.loc.isNone && a.name.loc.isNone && noLocValue a.value
def noLocDirective (d : Directive) : Bool := d.loc.isNone && d.name.loc.isNone && d.arguments.all noLocArgument
def noLocVarDef (d : VariableDefinition) : Bool :=
  d.loc.isNone && d.var.loc.isNone && d.var.name.loc.isNone && noLocType d.type &&
  (match d.defaultValue with | some v => noLocValue v | none => true) && d.directives.all noLocDirective

mutual
def noLocSelection : Selection → Bool
  | .field alias_ name args dirs ss loc =>
    loc.isNone && (match alias_ with | some a => a.loc.isNone | none => true) && name.loc.isNone &&
    args.all noLocArgument && dirs.all noLocDirective && noLocOptSS ss
  | .fragmentSpread name dirs loc => loc.isNone && name.loc.isNone && dirs.all noLocDirective
  | .inlineFragment tc dirs ss loc =>
    loc.isNone && (match tc with | some t => t.loc.isNone && t.name.loc.isNone | none => true) &&
    dirs.all noLocDirective && noLocSS ss
def noLocSS : SelectionSet → Bool
  | .mk sels loc => loc.isNone && noLocSelections sels
def noLocOptSS : Option SelectionSet → Bool
  | none => true
  | some ss => noLocSS ss
def noLocSelections : List Selection → Bool
  | [] => true
  | s :: ss => noLocSelection s && noLocSelections ss
end

theorem plain_argumentV (a : Argument) (h : noLocArgument a = true) : plain (argumentV a) = true := by
  simp [noLocArgument] at h
  simp [argumentV, nameV, plain, plainAll, Item.yieldAll, Item.yield, h.1.1, h.1.2, plain_valueV a.value h.2]

theorem plainAll_argumentsV (as : List Argument) (h : as.all noLocArgument = true) : plainAll (argumentsV as) = true := by
  unfold argumentsV groupV
  split
  · rfl
  · have := plainAll_map argumentV as (fun x hx => plain_argumentV x ((List.all_eq_true.1 h) x hx))
    simp [plainAll, plainAll_append, plain, this]

theorem plain_directiveV (d : Directive) (h : noLocDirective d = true) : plain (directiveV d) = true := by
  simp only [noLocDirective, Bool.and_eq_true, Option.isNone_iff_eq_none] at h
  have := plainAll_argumentsV d.arguments h.2
  simp [directiveV, nameV, plain, plainAll, Item.yieldAll, Item.yield, h.1.1, h.1.2, this]

theorem plainAll_directivesV (ds : List Directive) (h : ds.all noLocDirective = true) : plainAll (directivesV ds) = true :=
  plainAll_map directiveV ds (fun x hx => plain_directiveV x ((List.all_eq_true.1 h) x hx))

theorem plain_variableDefinitionV (d : VariableDefinition) (h : noLocVarDef d = true) :
    plain (variableDefinitionV d) = true := by
  simp only [noLocVarDef, Bool.and_eq_true, Option.isNone_iff_eq_none] at h
  obtain ⟨⟨⟨⟨⟨h1, h2⟩, h3⟩, h4⟩, h5⟩, h6⟩ := h
  have hd := plainAll_directivesV d.directives h6
  have ht := plain_typeV d.type h4
  have hdef : plainAll (defaultV d.defaultValue) = true := by
    cases hv : d.defaultValue with
    | none => rfl
    | some v => rw [hv] at h5; simp [defaultV, plainAll, plain, plain_valueV v h5]
  simp [variableDefinitionV, variableV, nameV, plain, plainAll, plainAll_append, Item.yieldAll, Item.yield, h1, h2, h3,
    hd, ht, hdef]

theorem plainAll_variableDefinitionsV (ds : List VariableDefinition) (h : ds.all noLocVarDef = true) :
    plainAll (variableDefinitionsV ds) = true := by
  unfold variableDefinitionsV groupV
  split
  · rfl
  · have := plainAll_map variableDefinitionV ds (fun x hx => plain_variableDefinitionV x ((List.all_eq_true.1 h) x hx))
    simp [plainAll, plainAll_append, plain, this]

mutual
theorem plain_selectionV : ∀ (s : Selection), noLocSelection s = true → plain (selectionV s) = true
  | .field alias_ name args dirs ss loc, h => by
    simp only [noLocSelection, Bool.and_eq_true, Option.isNone_iff_eq_none] at h
    obtain ⟨⟨⟨⟨⟨h1, h2⟩, h3⟩, h4⟩, h5⟩, h6⟩ := h
    have ha := plainAll_argumentsV args h4
    have hd := plainAll_directivesV dirs h5
    have hs := plainAll_optSelectionSetV ss h6
    cases alias_ with
    | none =>
      simp [selectionV, nameV, plain, plainAll, plainAll_append, Item.yieldAll, Item.yield, h1, h3, ha, hd, hs]
    | some a =>
      simp at h2
      simp [selectionV, nameV, plain, plainAll, plainAll_append, Item.yieldAll, Item.yield, h1, h2, h3, ha, hd, hs]
  | .fragmentSpread name dirs loc, h => by
    simp only [noLocSelection, Bool.and_eq_true, Option.isNone_iff_eq_none] at h
    have hd := plainAll_directivesV dirs h.2
    simp [selectionV, nameV, plain, plainAll, Item.yieldAll, Item.yield, h.1.1, h.1.2, hd]
  | .inlineFragment tc dirs ss loc, h => by
    simp only [noLocSelection, Bool.and_eq_true, Option.isNone_iff_eq_none] at h
    obtain ⟨⟨⟨h1, h2⟩, h3⟩, h4⟩ := h
    have hd := plainAll_directivesV dirs h3
    have hs := plain_selectionSetV ss h4
    cases tc with
    | none => simp [selectionV, plain, plainAll, plainAll_append, Item.yieldAll, Item.yield, h1, hd, hs]
    | some t =>
      simp at h2
      simp [selectionV, namedTypeV, nameV, kw, plain, plainAll, plainAll_append, Item.yieldAll, Item.yield, h1, h2.1, h2.2,
        hd, hs]
theorem plain_selectionSetV : ∀ (ss : SelectionSet), noLocSS ss = true → plain (selectionSetV ss) = true
  | .mk sels loc, h => by
    simp only [noLocSS, Bool.and_eq_true, Option.isNone_iff_eq_none] at h
    have := plainAll_selectionsV sels h.2
    simp [selectionSetV, plain, plainAll, plainAll_append, Item.yieldAll, Item.yield, h.1, this]
theorem plainAll_optSelectionSetV : ∀ (o : Option SelectionSet), noLocOptSS o = true → plainAll (optSelectionSetV o) = true
  | none, _ => rfl
  | some ss, h => by
    simp only [noLocOptSS] at h
    simp [optSelectionSetV, plainAll, plain_selectionSetV ss h]
theorem plainAll_selectionsV : ∀ (sels : List Selection), noLocSelections sels = true → plainAll (selectionsV sels) = true
  | [], _ => rfl
  | s :: ss, h => by
    simp only [noLocSelections, Bool.and_eq_true] at h
    simp [selectionsV, plainAll, plain_selectionV s h.1, plainAll_selectionsV ss h.2]
end

end PyGql.PrintTokens

/-
  C20 — helper definitions and lemmas for the INPUT side of "operations stay valid" (Props/C20_rules_values.lean,
  Props/C20_rules_vars.lean): type expressions that are at least as permissive (`TyLoose`), expected input types old
  and new (`InRel`), argument / list item / input object field positions (`argPos_rel`, `listItemPos_rel`,
  `objFieldPos_rel`), the paired input views and their step (`IInv`, `pdI_step`).
-/
import PyGqlModel.Props.C20_rules_in
import PyGqlModel.Lemmas.ValidateCtxArgPar

set_option linter.unusedSimpArgs false
set_option linter.unusedVariables false

namespace PyGql.Props.C20
open PyGql PyGql.Differ PyGql.Diff PyGql.Validate PyGql.Validate.Spec

/-! ### type expressions -/

/-- `t'` is at least as permissive as `t`; the two are equal or `t` is well formed -/
def TyLoose (t t' : Ty) : Prop := sub t t' = true ∧ (t = t' ∨ t.wf = true)

theorem TyLoose.refl (t : Ty) : TyLoose t t := ⟨sub_refl_in t, Or.inl rfl⟩

theorem itemOf_base (t : Ty) : (TI.itemOf t).base = t.base := by
  cases t with
  | named x => rfl
  | list i => rfl
  | nonNull a => cases a <;> rfl

/-- a safe input type change never ADDS a non-null wrapper -/
theorem sub_nonNull_right {t b : Ty} (h : sub t (.nonNull b) = true) : ∃ a, t = .nonNull a ∧ sub a b = true := by
  cases t with
  | named x => simp [sub] at h
  | list i => simp [sub] at h
  | nonNull a => exact ⟨a, rfl, by simpa [sub] using h⟩

/-- the item position of a list position gets at least as permissive too -/
theorem TyLoose.itemOf {t t' : Ty} (h : TyLoose t t') : TyLoose (TI.itemOf t) (TI.itemOf t') := by
  obtain ⟨hs, he | hw⟩ := h
  · subst he; exact TyLoose.refl _
  · cases t with
    | named x =>
      cases t' with
      | named y => exact ⟨hs, Or.inr rfl⟩
      | list j => simp [sub] at hs
      | nonNull b => simp [sub] at hs
    | list i =>
      cases t' with
      | list j => exact ⟨by simpa [sub, TI.itemOf] using hs, Or.inr (by simpa [Ty.wf, TI.itemOf] using hw)⟩
      | named y => simp [sub] at hs
      | nonNull b => simp [sub] at hs
    | nonNull a =>
      have hwa : a.isNonNull = false ∧ a.wf = true := by simpa [Ty.wf] using hw
      cases a with
      | nonNull c => simp [Ty.isNonNull] at hwa
      | named x =>
        cases t' with
        | named y => exact ⟨by simpa [sub, TI.itemOf] using hs, Or.inr rfl⟩
        | list j => simp [sub] at hs
        | nonNull b =>
          cases b with
          | named y => exact ⟨by simpa [sub, TI.itemOf] using hs, Or.inr rfl⟩
          | list j => simp [sub] at hs
          | nonNull c => simp [sub] at hs
      | list i =>
        have hwi : i.wf = true := by simpa [Ty.wf] using hwa.2
        cases t' with
        | named y => simp [sub] at hs
        | list j => exact ⟨by simpa [sub, TI.itemOf] using hs, Or.inr hwi⟩
        | nonNull b =>
          cases b with
          | named y => simp [sub] at hs
          | list j => exact ⟨by simpa [sub, TI.itemOf] using hs, Or.inr hwi⟩
          | nonNull c => simp [sub] at hs

/-! ### expected input types, old and new -/

/-- unknown on both sides, or known on both sides and at least as permissive on the new one -/
def InRel (o : SchemaD) (x y : Option Ty) : Prop :=
  (x = none ∧ y = none) ∨ ∃ t t', x = some t ∧ y = some t' ∧ TyLoose t t' ∧ isInputTy o t = true

theorem kind_of_in {o : SchemaD} {t : Ty} (h : isInputTy o t = true) : (kindOf o t.base).isSome = true := by
  unfold isInputTy at h
  cases hk : kindOf o t.base with
  | none => rw [hk] at h; simp at h
  | some k => rfl

private theorem isInputTy_eq (o n : SchemaD) (h : diffSchema o n 2 = []) {t t' : Ty} (hb : t'.base = t.base)
    (hk : (kindOf o t.base).isSome = true) : isInputTy n t' = isInputTy o t := by
  cases hko : kindOf o t.base with
  | none => rw [hko] at hk; simp at hk
  | some k => unfold isInputTy; rw [hb, hko, nobreaking_V_kindOf o n h _ k hko]

theorem inOnly_rel (o n : SchemaD) (h : diffSchema o n 2 = []) (t t' : Ty) (hl : TyLoose t t')
    (hk : (kindOf o t.base).isSome = true) : InRel o (TI.inOnly o (some t)) (TI.inOnly n (some t')) := by
  unfold TI.inOnly
  simp only [Option.bind_some]
  rw [isInputTy_eq o n h (sub_base _ _ hl.1) hk]
  by_cases hi : isInputTy o t = true
  · rw [if_pos hi, if_pos hi]; exact Or.inr ⟨t, t', rfl, rfl, hl, hi⟩
  · rw [if_neg hi, if_neg hi]; exact Or.inl ⟨rfl, rfl⟩

/-- the types of the arguments are well-formed expressions over defined types -/
def ArgsWf (o : SchemaD) (as : List ArgD) : Prop :=
  ∀ a ∈ as, a.type.wf = true ∧ (kindOf o a.type.base).isSome = true

structure OldWfIn (o : SchemaD) : Prop where
  fieldArgs : ∀ t ∈ o.types, ∀ f ∈ t.fields, ArgsWf o f.args
  directiveArgs : ∀ d ∈ o.directives, ArgsWf o d.args
  inputFields : ∀ t ∈ o.types, ArgsWf o t.inputFields

structure NewWfIn (n : SchemaD) : Prop where
  inputFields : ∀ t ∈ n.types, Uniq ArgD.name t.inputFields

private theorem find_of_known (as : List ArgD) (nm : String) (hk : ∃ ad ∈ as, ad.name = nm) :
    ∃ a, as.find? (·.name == nm) = some a ∧ a ∈ as ∧ a.name = nm := by
  obtain ⟨ad, had, hn⟩ := hk
  cases hf : as.find? (·.name == nm) with
  | none =>
    have := List.find?_eq_none.mp hf ad had
    simp [hn] at this
  | some a => exact ⟨a, rfl, List.mem_of_find?_eq_some hf, by simpa using List.find?_some hf⟩

/-- one looked-up argument / input field, old and new -/
private theorem found_rel (o n : SchemaD) (h : diffSchema o n 2 = []) (as bs : List ArgD) (nm : String)
    (hS : ArgsRelS as bs) (hW : ArgsWf o as) (a : ArgD) (hf : as.find? (·.name == nm) = some a) :
    ∃ b, bs.find? (·.name == nm) = some b ∧ InRel o (TI.inOnly o (some a.type)) (TI.inOnly n (some b.type)) ∧
      becameRequired a b = false := by
  have ham : a ∈ as := List.mem_of_find?_eq_some hf
  have han : a.name = nm := by simpa using List.find?_some hf
  obtain ⟨b, hb, hs, hr⟩ := hS a ham
  rw [han] at hb
  exact ⟨b, hb, inOnly_rel o n h a.type b.type ⟨hs, Or.inr (hW a ham).1⟩ (hW a ham).2, hr⟩

/-- a default that made a non-null position optional is still there -/
private theorem default_kept {a b : ArgD} (hr : becameRequired a b = false) (c : Ty) (hb : b.type = .nonNull c)
    (hd : a.hasDefault = true) : b.hasDefault = true := by
  unfold becameRequired Diff.ArgD.required at hr
  rw [hb, hd] at hr
  cases hbd : b.hasDefault with
  | true => rfl
  | false => rw [hbd] at hr; simp [Ty.isNonNull] at hr

private theorem inOnly_some {s : SchemaD} {t u : Ty} (h : TI.inOnly s (some t) = some u) : t = u := by
  unfold TI.inOnly at h
  simp only [Option.bind_some] at h
  by_cases hi : isInputTy s t = true
  · rw [if_pos hi] at h; exact Option.some.inj h
  · rw [if_neg hi] at h; cases h

/-! ### the enclosing field / directive definitions -/

structure FDInv (o : SchemaD) (x : View × View) : Prop where
  fieldS : ∀ f f', x.1.field = some f → x.2.field = some f' → ArgsRelS f.args f'.args
  fieldW : ∀ f, x.1.field = some f → ArgsWf o f.args
  dirS : ∀ f f', x.1.directive = some f → x.2.directive = some f' → ArgsRelS f.args f'.args
  dirW : ∀ f, x.1.directive = some f → ArgsWf o f.args

private theorem fieldOf_argsWf (o : SchemaD) (woi : OldWfIn o) (p name : String) (fd : FieldD)
    (hf : fieldOf o p name = some fd) : ArgsWf o fd.args := by
  unfold fieldOf at hf
  by_cases hk : isObjOrIface o p = true
  · rw [if_pos hk] at hf
    cases ho : o.findType p with
    | none => rw [ho] at hf; simp at hf
    | some t =>
      rw [ho] at hf
      simp only [Option.bind_some] at hf
      unfold SchemaD.findType at ho
      exact woi.fieldArgs t (List.mem_of_find?_eq_some ho) fd (List.mem_of_find?_eq_some hf)
  · rw [if_neg hk] at hf; cases hf

private theorem getFieldDef_argsWf (o : SchemaD) (wo : OldWf o) (woi : OldWfIn o) (p name : String) (fd : FieldD)
    (hf : getFieldDef o p name = some fd) : ArgsWf o fd.args := by
  unfold getFieldDef at hf
  split at hf
  · cases hf; intro a ha; simp [schemaField] at ha
  · split at hf
    · cases hf
      intro a ha
      simp only [typeField, List.mem_singleton] at ha
      subst ha
      exact ⟨rfl, wo.metas.1⟩
    · split at hf
      · cases hf; intro a ha; simp [typenameField] at ha
      · exact fieldOf_argsWf o woi p name fd hf

theorem fd_step (o n : SchemaD) (h : diffSchema o n 2 = []) (wo : OldWf o) (woi : OldWfIn o) (nd : Node)
    (a b : View) (hv : VInv o (a, b)) (hfd : FDInv o (a, b)) : FDInv o (View.enter o nd a, View.enter n nd b) := by
  cases nd with
  | document d => exact hfd
  | tsDef => exact hfd
  | varDef v => exact hfd
  | typeNode t => exact hfd
  | argument a => exact hfd
  | value v => exact hfd
  | objField nm => exact hfd
  | spread nm ds => exact hfd
  | selectionSet i sels => exact ⟨hfd.fieldS, hfd.fieldW, hfd.dirS, hfd.dirW⟩
  | operation kind name vars dirs sels => exact ⟨hfd.fieldS, hfd.fieldW, hfd.dirS, hfd.dirW⟩
  | fragmentDef name on dirs => exact ⟨hfd.fieldS, hfd.fieldW, hfd.dirS, hfd.dirW⟩
  | inline on dirs =>
    cases on with
    | some c => exact ⟨hfd.fieldS, hfd.fieldW, hfd.dirS, hfd.dirW⟩
    | none => exact ⟨hfd.fieldS, hfd.fieldW, hfd.dirS, hfd.dirW⟩
  | directive dr =>
    refine ⟨hfd.fieldS, hfd.fieldW, ?_, ?_⟩
    · intro f f' hf hf'
      exact nobreaking_V_findDirective_in o n h dr.name f f' hf hf'
    · intro f hf
      have hf2 : findDirective o dr.name = some f := hf
      unfold findDirective at hf2
      exact woi.directiveArgs f (List.mem_of_find?_eq_some hf2)
  | field name args dirs hs =>
    have hpar : a.parent = b.parent := hv.parent
    refine ⟨?_, ?_, hfd.dirS, hfd.dirW⟩
    · intro f f' hf hf'
      have hf1 : (a.parent.bind fun p => getFieldDef o p name) = some f := hf
      have hf2 : (b.parent.bind fun p => getFieldDef n p name) = some f' := hf'
      cases hp : a.parent with
      | none => rw [hp] at hf1; cases hf1
      | some p =>
        rw [hp] at hf1
        rw [← hpar, hp] at hf2
        exact nobreaking_V_getFieldDef_in o n h wo p name (hv.comp p hp) f f' hf1 hf2
    · intro f hf
      have hf1 : (a.parent.bind fun p => getFieldDef o p name) = some f := hf
      cases hp : a.parent with
      | none => rw [hp] at hf1; cases hf1
      | some p => rw [hp] at hf1; exact getFieldDef_argsWf o wo woi p name f hf1

/-! ### the input views, side by side -/

def pdI (o n : SchemaD) (nd : Node) (x : IView × IView) : IView × IView := (IView.enter o nd x.1, IView.enter n nd x.2)

theorem IView.enter_view (s : SchemaD) (nd : Node) (w : IView) : (IView.enter s nd w).view = View.enter s nd w.view := by
  cases nd with
  | value v => cases v <;> rfl
  | _ => rfl

structure IInv (o : SchemaD) (x : IView × IView) : Prop where
  view : VInv o (x.1.view, x.2.view)
  fd : FDInv o (x.1.view, x.2.view)
  input : InRel o x.1.input x.2.input
  outer : InRel o x.1.outer x.2.outer

/-- the argument given is one the enclosing directive, else the enclosing field, defines (KnownArgumentNames, seen
    from the argument node) -/
def ArgKnown (v : View) (nm : String) : Prop :=
  (∀ dd, v.directive = some dd → ∃ ad ∈ dd.args, ad.name = nm) ∧
  (v.directive = none → ∀ fd, v.field = some fd → ∃ ad ∈ fd.args, ad.name = nm)

/-- what the rules on the OLD schema say at one node (the part that keeps the input views defined) -/
def OldOkI (o : SchemaD) (fx : Fixes) (p : Node × (IView × IView)) : Prop :=
  OldOk o (p.1, (p.2.1.view, p.2.2.view)) ∧
  (∀ v, p.1 = .varDef v → ∃ t, typeFromAst o v.type = some t ∧ isInputTy o t = true) ∧
  (∀ a, p.1 = .argument a → ArgKnown p.2.1.view a.name) ∧
  (∀ nm, p.1 = .objField nm → p.2.1.input = none → p.2.1.outerObject o fx = none)

/-- **argument positions**: known on both sides, at least as permissive, a default that mattered is kept -/
theorem argPos_rel (o n : SchemaD) (h : diffSchema o n 2 = []) (v v' : View) (nm : String)
    (hv : VInv o (v, v')) (hfd : FDInv o (v, v')) (hk : ArgKnown v nm) :
    InRel o (argPos o v nm).inputType (argPos n v' nm).inputType ∧
      (∀ c, (argPos n v' nm).inputType = some (.nonNull c) → (argPos o v nm).locDefault = true →
        (argPos n v' nm).locDefault = true) := by
  have key : ∀ (as bs : List ArgD), ArgsRelS as bs → ArgsWf o as → (∃ ad ∈ as, ad.name = nm) →
      InRel o (TI.inOnly o ((as.find? (·.name == nm)).map (·.type))) (TI.inOnly n ((bs.find? (·.name == nm)).map (·.type))) ∧
      (∀ c, TI.inOnly n ((bs.find? (·.name == nm)).map (·.type)) = some (.nonNull c) →
        ((as.find? (·.name == nm)).map (·.hasDefault)).getD false = true →
        ((bs.find? (·.name == nm)).map (·.hasDefault)).getD false = true) := by
    intro as bs hS hW hkn
    obtain ⟨a, hfa, _, _⟩ := find_of_known as nm hkn
    obtain ⟨b, hfb, hrel, hr⟩ := found_rel o n h as bs nm hS hW a hfa
    rw [hfa, hfb]
    simp only [Option.map_some, Option.getD_some]
    exact ⟨hrel, fun c hc hd => default_kept hr c (inOnly_some hc) hd⟩
  unfold argPos
  rcases hv.directive with ⟨hx, hy⟩ | ⟨f, f', hx, hy, _⟩
  · have hd : v.directive = none := hx
    have hd' : v'.directive = none := hy
    simp only [hd, hd']
    rcases hv.field with ⟨hx, hy⟩ | ⟨f, f', hx, hy, _⟩
    · rw [show v.field = none from hx, show v'.field = none from hy]
      exact ⟨Or.inl ⟨rfl, rfl⟩, fun c hc => by cases hc⟩
    · have hx' : v.field = some f := hx
      have hy' : v'.field = some f' := hy
      rw [hx', hy']
      simp only [Option.map_some]
      exact key f.args f'.args (hfd.fieldS f f' hx' hy') (hfd.fieldW f hx') (hk.2 hd f hx')
  · have hx' : v.directive = some f := hx
    have hy' : v'.directive = some f' := hy
    simp only [hx', hy']
    exact key f.args f'.args (hfd.dirS f f' hx' hy') (hfd.dirW f hx') (hk.1 f hx')

private theorem inputFields_argsWf (o : SchemaD) (woi : OldWfIn o) (x : String) : ArgsWf o (inputFields o x) := by
  unfold inputFields
  cases ho : o.findType x with
  | none => intro a ha; simp at ha
  | some t =>
    unfold SchemaD.findType at ho
    have htm := List.mem_of_find?_eq_some ho
    by_cases hk : (t.kind == Kind.input) = true
    · simp only [hk, if_true]; exact woi.inputFields t htm
    · simp only [hk]; intro a ha; simp at ha

/-- **input object field positions** -/
theorem objFieldPos_rel (o n : SchemaD) (h : diffSchema o n 2 = []) (woi : OldWfIn o) (u u' : Usage) (nm : String)
    (hin : InRel o u.inputType u'.inputType)
    (hk : (objFieldPos o u nm).inputType = none → ∀ t, u.inputType = some t → isInputObject o t.base = false) :
    InRel o (objFieldPos o u nm).inputType (objFieldPos n u' nm).inputType ∧
      (∀ c, (objFieldPos n u' nm).inputType = some (.nonNull c) → (objFieldPos o u nm).locDefault = true →
        (objFieldPos n u' nm).locDefault = true) := by
  rcases hin with ⟨hx, hy⟩ | ⟨t, t', hx, hy, hl, hi⟩
  · unfold objFieldPos
    rw [hx, hy]
    exact ⟨Or.inl ⟨rfl, rfl⟩, fun c hc => by cases hc⟩
  · have hb := sub_base _ _ hl.1
    have hkn := kind_of_in hi
    by_cases hio : isInputObject o t.base = true
    · obtain ⟨hin', hS, _⟩ := nobreaking_V_inputFields o n h t.base hio
      cases hf : (inputFields o t.base).find? (·.name == nm) with
      | none =>
        have : (objFieldPos o u nm).inputType = none := by
          unfold objFieldPos; rw [hx]; simp only [Option.map_some]; rw [if_pos hio, hf]; rfl
        have := hk this t hx
        rw [hio] at this; cases this
      | some a =>
        obtain ⟨b, hfb, hrel, hr⟩ := found_rel o n h _ _ nm hS (inputFields_argsWf o woi t.base) a hf
        unfold objFieldPos
        rw [hx, hy]
        simp only [Option.map_some]
        rw [hb, if_pos hio, if_pos hin', hf, hfb]
        simp only [Option.map_some, Option.getD_some]
        exact ⟨hrel, fun c hc hd => default_kept hr c (inOnly_some hc) hd⟩
    · have hio' : isInputObject o t.base = false := by simpa using hio
      have hin' : isInputObject n t.base = false := by
        cases hko : kindOf o t.base with
        | none => rw [hko] at hkn; simp at hkn
        | some k =>
          unfold isInputObject at hio' ⊢
          rw [nobreaking_V_kindOf o n h _ k hko]; rw [hko] at hio'; exact hio'
      unfold objFieldPos
      rw [hx, hy]
      simp only [Option.map_some]
      rw [hb, hio', hin']
      exact ⟨Or.inl ⟨rfl, rfl⟩, fun c hc => by cases hc⟩

/-- list item positions -/
theorem listItemPos_rel (o n : SchemaD) (h : diffSchema o n 2 = []) (x y : Option Ty) (hin : InRel o x y) :
    InRel o (TI.inOnly o (x.map TI.itemOf)) (TI.inOnly n (y.map TI.itemOf)) := by
  rcases hin with ⟨hx, hy⟩ | ⟨t, t', hx, hy, hl, hi⟩
  · rw [hx, hy]; exact Or.inl ⟨rfl, rfl⟩
  · rw [hx, hy]
    simp only [Option.map_some]
    exact inOnly_rel o n h _ _ hl.itemOf (by rw [itemOf_base]; exact kind_of_in hi)

private theorem typeFromAst_kept (o n : SchemaD) (h : diffSchema o n 2 = []) (t u : Ty)
    (ht : typeFromAst o t = some u) : u = t ∧ typeFromAst n t = some t := by
  unfold typeFromAst at ht ⊢
  by_cases hf : (o.findType t.base).isSome = true
  · rw [if_pos hf] at ht
    refine ⟨(Option.some.inj ht).symm, ?_⟩
    cases ho : o.findType t.base with
    | none => rw [ho] at hf; simp at hf
    | some td =>
      obtain ⟨td', hn, _⟩ := nobreaking_findType o n h _ td ho
      rw [hn]; rfl
  · rw [if_neg hf] at ht; cases ht

theorem outerObject_v9 (s : SchemaD) (fx : Fixes) (hv9 : fx.v9 = true) (w : IView) :
    w.outerObject s fx = match w.outer with
      | some ty => if isInputObject s ty.base then some ty.base else none
      | none => none := by
  unfold IView.outerObject
  cases w.outer with
  | none => rfl
  | some ty => simp [hv9]

/-- the input part of the step -/
theorem in_step (o n : SchemaD) (h : diffSchema o n 2 = []) (woi : OldWfIn o) (fx : Fixes) (hv9 : fx.v9 = true)
    (nd : Node) (x : IView × IView) (hinv : IInv o x) (hok : OldOkI o fx (nd, pdI o n nd x)) :
    InRel o (IView.enter o nd x.1).input (IView.enter n nd x.2).input ∧
      InRel o (IView.enter o nd x.1).outer (IView.enter n nd x.2).outer := by
  obtain ⟨w, w'⟩ := x
  obtain ⟨_, okV, okA, okF⟩ := hok
  cases nd with
  | document d => exact ⟨hinv.input, hinv.outer⟩
  | tsDef => exact ⟨hinv.input, hinv.outer⟩
  | typeNode t => exact ⟨hinv.input, hinv.outer⟩
  | spread nm ds => exact ⟨hinv.input, hinv.outer⟩
  | selectionSet i sels => exact ⟨hinv.input, hinv.outer⟩
  | operation kind name vars dirs sels => exact ⟨hinv.input, hinv.outer⟩
  | fragmentDef name on dirs => exact ⟨hinv.input, hinv.outer⟩
  | inline on dirs => exact ⟨hinv.input, hinv.outer⟩
  | directive dr => exact ⟨hinv.input, hinv.outer⟩
  | field name args dirs hs => exact ⟨hinv.input, hinv.outer⟩
  | varDef v =>
    refine ⟨?_, hinv.input⟩
    show InRel o (TI.inOnly o (typeFromAst o v.type)) (TI.inOnly n (typeFromAst n v.type))
    obtain ⟨t, ht, hi⟩ := okV v rfl
    obtain ⟨e, hn⟩ := typeFromAst_kept o n h v.type t ht
    subst e
    rw [ht, hn]
    exact inOnly_rel o n h _ _ (TyLoose.refl _) (kind_of_in hi)
  | argument a =>
    refine ⟨?_, hinv.input⟩
    show InRel o (argPos o w.view a.name).inputType (argPos n w'.view a.name).inputType
    have hk : ArgKnown w.view a.name := okA a rfl
    exact (argPos_rel o n h w.view w'.view a.name hinv.view hinv.fd hk).1
  | objField nm =>
    refine ⟨?_, hinv.input⟩
    show InRel o (objFieldPos o ⟨w.input, false⟩ nm).inputType (objFieldPos n ⟨w'.input, false⟩ nm).inputType
    refine (objFieldPos_rel o n h woi ⟨w.input, false⟩ ⟨w'.input, false⟩ nm hinv.input ?_).1
    intro hnone t ht
    have hoo := okF nm rfl hnone
    rw [outerObject_v9 o fx hv9] at hoo
    have ho : (IView.enter o (.objField nm) w).outer = some t := ht
    have hoo' : (match (some t : Option Ty) with
        | some ty => if isInputObject o ty.base then some ty.base else none
        | none => none) = none := by rw [← ho]; exact hoo
    by_cases hio : isInputObject o t.base = true
    · simp [hio] at hoo'
    · simpa using hio
  | value v =>
    cases v with
    | list vs =>
      refine ⟨?_, hinv.input⟩
      show InRel o (TI.inOnly o (w.input.map TI.itemOf)) (TI.inOnly n (w'.input.map TI.itemOf))
      exact listItemPos_rel o n h _ _ hinv.input
    | obj fs => exact ⟨hinv.input, hinv.outer⟩
    | var a => exact ⟨hinv.input, hinv.outer⟩
    | int a => exact ⟨hinv.input, hinv.outer⟩
    | float a => exact ⟨hinv.input, hinv.outer⟩
    | str a => exact ⟨hinv.input, hinv.outer⟩
    | bool a => exact ⟨hinv.input, hinv.outer⟩
    | null => exact ⟨hinv.input, hinv.outer⟩
    | enum a => exact ⟨hinv.input, hinv.outer⟩

/-- **the input views stay compatible** below every node that is in order on the old schema -/
theorem pdI_step (o n : SchemaD) (h : diffSchema o n 2 = []) (wo : OldWf o) (wn : NewWf n) (woi : OldWfIn o)
    (fx : Fixes) (hv9 : fx.v9 = true) (nd : Node) (x : IView × IView) (hinv : IInv o x)
    (hok : OldOkI o fx (nd, pdI o n nd x)) : IInv o (pdI o n nd x) := by
  have e1 : (pdI o n nd x).1.view = View.enter o nd x.1.view := IView.enter_view o nd x.1
  have e2 : (pdI o n nd x).2.view = View.enter n nd x.2.view := IView.enter_view n nd x.2
  have hok1 : OldOk o (nd, pd o n nd (x.1.view, x.2.view)) := by
    have := hok.1
    show OldOk o (nd, (View.enter o nd x.1.view, View.enter n nd x.2.view))
    rw [← e1, ← e2]; exact this
  have hv := pd_step o n h wo wn nd (x.1.view, x.2.view) hinv.view hok1
  have hf := fd_step o n h wo woi nd x.1.view x.2.view hinv.view hinv.fd
  obtain ⟨hi, ho⟩ := in_step o n h woi fx hv9 nd x hinv hok
  refine ⟨?_, ?_, hi, ho⟩
  · rw [e1, e2]; exact hv
  · rw [e1, e2]; exact hf

/-! ### the enumeration -/

def pairNodesI (o n : SchemaD) (d : Doc) : List (Node × (IView × IView)) := gnDoc (pdI o n) ({}, {}) d

private theorem pairI_fst (o n : SchemaD) (d : Doc) : pmap Prod.fst (pairNodesI o n d) = inputNodes o d :=
  gnDoc_map Prod.fst (pdI o n) (IView.enter o) (fun _ _ => rfl) d ({}, {})

private theorem pairI_snd (o n : SchemaD) (d : Doc) : pmap Prod.snd (pairNodesI o n d) = inputNodes n d :=
  gnDoc_map Prod.snd (pdI o n) (IView.enter n) (fun _ _ => rfl) d ({}, {})

private theorem pairI_view (o n : SchemaD) (d : Doc) :
    pmap (fun x : IView × IView => x.1.view) (pairNodesI o n d) = typedNodes o d := by
  rw [typedNodes_eq_viewNodes]
  exact gnDoc_map (fun x : IView × IView => x.1.view) (pdI o n) (View.enter o)
    (fun nd x => IView.enter_view o nd x.1) d ({}, {})

theorem memI_old {o n : SchemaD} {d : Doc} {p : Node × (IView × IView)} (hp : p ∈ pairNodesI o n d) :
    (p.1, p.2.1) ∈ inputNodes o d := by
  rw [← pairI_fst o n d]; exact List.mem_map.mpr ⟨p, hp, rfl⟩

theorem memI_typed {o n : SchemaD} {d : Doc} {p : Node × (IView × IView)} (hp : p ∈ pairNodesI o n d) :
    (p.1, p.2.1.view) ∈ typedNodes o d := by
  rw [← pairI_view o n d]; exact List.mem_map.mpr ⟨p, hp, rfl⟩

theorem ofI_new {o n : SchemaD} {d : Doc} {q : Node × IView} (hq : q ∈ inputNodes n d) :
    ∃ p ∈ pairNodesI o n d, q = (p.1, p.2.2) := by
  rw [← pairI_snd o n d] at hq
  obtain ⟨p, hp, e⟩ := List.mem_map.mp hq
  exact ⟨p, hp, e.symm⟩

private theorem dir_kept (s : SchemaD) (nd : Node) (w : IView) (hnd : ∀ dr, nd ≠ Node.directive dr) :
    (IView.enter s nd w).view.directive = w.view.directive := by
  rw [IView.enter_view]
  cases nd with
  | directive dr => exact absurd rfl (hnd dr)
  | inline on dirs => cases on <;> rfl
  | _ => rfl

/-- every node of a document in order on the old schema is `OldOkI` -/
theorem oldOkI_all (o n : SchemaD) (fx : Fixes) (d : Doc) (hv : SchemaRules o d) (hR : OpsRooted o d)
    (hval : valuesOfCorrectType o fx d) : ∀ p ∈ pairNodesI o n d, OldOkI o fx p := by
  have hpar := gnDoc_argPar (pdI o n) (fun x : IView × IView => x.1.view.directive = none)
    (fun nd x hx hnd => by
      show (IView.enter o nd x.1).view.directive = none
      rw [dir_kept o nd x.1 hnd]; exact hx) d ({}, {}) rfl
  have hD := directivesDefined_of_known o d hv.knownDirectives
  intro p hp
  have hm := memI_typed hp
  have hnode : p.1 ∈ nodes d := typed_node_mem hm
  refine ⟨⟨?_, ?_, ?_, ?_, ?_⟩, ?_, ?_, ?_⟩
  · intro name args dirs hs e; exact hv.fieldsOnCorrectType _ hm name args dirs hs e
  · intro dr e; exact hD _ hnode dr e
  · intro on dirs e; exact hv.fragmentsOnCompositeTypes.1 _ hnode on dirs e
  · intro name on dirs e; exact hv.fragmentsOnCompositeTypes.2 _ hnode name on dirs e
  · intro kind name vars dirs sels e; exact hR _ hnode kind name vars dirs sels e
  · intro v e; exact hv.variablesAreInputTypes _ hnode v e
  · intro a e
    obtain ⟨q, hq, hc, hpa⟩ := hpar p hp a e
    have hview : p.2.1.view = q.2.1.view := by
      rw [hc]; exact IView.enter_view o (.argument a) q.2.1
    rw [hview]
    have hqm := memI_typed hq
    rcases hpa with ⟨name, args, dirs, hs, eq, ha, hdn⟩ | ⟨dr, x, eq, ex, ha⟩
    · refine ⟨fun dd hdd => ?_, fun _ fd hfd => ?_⟩
      · rw [show q.2.1.view.directive = none from hdn] at hdd; cases hdd
      · exact hv.knownArgumentNames.1 _ hqm name args dirs hs eq fd hfd a ha
    · have hdir : q.2.1.view.directive = findDirective o dr.name := by
        rw [ex]; show (IView.enter o (.directive dr) x.1).view.directive = _
        rw [IView.enter_view]; rfl
      refine ⟨fun dd hdd => hv.knownArgumentNames.2 _ hqm dr eq dd hdd a ha, fun hnone => ?_⟩
      have := hD _ (typed_node_mem hqm) dr eq
      rw [← hdir, hnone] at this; cases this
  · intro nm e hnone
    have := hval _ (memI_old hp)
    rw [show (p.1, p.2.1).1 = Node.objField nm from e] at this
    exact this hnone

theorem iinv_root (o : SchemaD) : IInv o (({} : IView), ({} : IView)) :=
  ⟨⟨rfl, fun p hp => (by cases hp), Or.inl ⟨rfl, rfl⟩, Or.inl ⟨rfl, rfl⟩, Or.inl ⟨rfl, rfl⟩⟩,
   ⟨fun f f' hf => (by cases hf), fun f hf => (by cases hf), fun f f' hf => (by cases hf), fun f hf => (by cases hf)⟩,
   Or.inl ⟨rfl, rfl⟩, Or.inl ⟨rfl, rfl⟩⟩

end PyGql.Props.C20

/-
  All views of documents commute with `mapLoc (locDown d)`; well-formedness of definitions is position-free.
-/
import PyGqlModel.Lemmas.SpanShift
namespace PyGql.Spec
open PyGql PyGql.Ast PyGql.Parse

section generic
variable {α : Type} (d : Nat) (m : α → α) (fV : α → Item) (h : ∀ x, fV (m x) = (fV x).down d)
include h

theorem map_view_down (xs : List α) : (xs.map m).map fV = Item.downAll d (xs.map fV) := by
  induction xs with
  | nil => rfl
  | cons x xs ih => simp [Item.downAll, h, ih]

theorem optV_down (o : Option α) : optV fV (o.map m) = Item.downAll d (optV fV o) := by
  cases o <;> simp [optV, Item.downAll, h]

theorem groupV_down (o c : TokKind) (xs : List α) : groupV o c fV (xs.map m) = Item.downAll d (groupV o c fV xs) := by
  unfold groupV
  cases xs with
  | nil => simp [Item.downAll]
  | cons x xs =>
    simp only [List.map_cons, List.isEmpty_cons, Bool.false_eq_true, ↓reduceIte, Item.downAll, Item.down, downAll_append]
    rw [h, map_view_down d m fV h]

theorem blockV_down (xs : List α) : blockV fV (xs.map m) = Item.downAll d (blockV fV xs) := by
  unfold blockV
  cases xs with
  | nil => simp [Item.downAll, Item.down]
  | cons x xs =>
    simp only [List.map_cons, List.isEmpty_cons, Bool.false_eq_true, ↓reduceIte, Item.downAll, Item.down, downAll_append]
    rw [h, map_view_down d m fV h]

theorem flatMap_down (sep : TokKind) (xs : List α) :
    ((xs.map m).flatMap fun y => [p sep, fV y]) = Item.downAll d (xs.flatMap fun y => [p sep, fV y]) := by
  induction xs with
  | nil => rfl
  | cons x xs ih => simp [List.flatMap_cons, Item.downAll, Item.down, downAll_append, h, ih]

theorem sepV_down (sep : TokKind) (xs : List α) : sepV sep fV (xs.map m) = Item.downAll d (sepV sep fV xs) := by
  cases xs with
  | nil => rfl
  | cons x xs => simp [sepV, Item.downAll, Item.down, h, flatMap_down d m fV h sep xs]
end generic

theorem argumentV_down (d : Nat) (a : Argument) : argumentV (a.mapLoc (locDown d)) = (argumentV a).down d := by
  simp [argumentV, Argument.mapLoc, Item.down, Item.downAll, nameV_down, valueV_down]

theorem argumentsV_down (d : Nat) (as : List Argument) :
    argumentsV (as.map (Argument.mapLoc (locDown d))) = Item.downAll d (argumentsV as) :=
  groupV_down d _ _ (argumentV_down d) _ _ as

theorem directiveV_down (d : Nat) (x : Directive) : directiveV (x.mapLoc (locDown d)) = (directiveV x).down d := by
  simp [directiveV, Directive.mapLoc, Item.down, Item.downAll, nameV_down, argumentsV_down]

theorem directivesV_down (d : Nat) (ds : List Directive) :
    directivesV (ds.map (Directive.mapLoc (locDown d))) = Item.downAll d (directivesV ds) :=
  map_view_down d _ _ (directiveV_down d) ds

theorem defaultV_down (d : Nat) (o : Option Value) :
    defaultV (o.map (Value.mapLoc (locDown d))) = Item.downAll d (defaultV o) := by
  cases o <;> simp [defaultV, Item.downAll, Item.down, valueV_down]

theorem variableDefinitionV_down (d : Nat) (x : VariableDefinition) :
    variableDefinitionV (x.mapLoc (locDown d)) = (variableDefinitionV x).down d := by
  simp [variableDefinitionV, VariableDefinition.mapLoc, Item.down, Item.downAll, downAll_append, variableV_down, typeV_down,
    defaultV_down, directivesV_down]

theorem variableDefinitionsV_down (d : Nat) (xs : List VariableDefinition) :
    variableDefinitionsV (xs.map (VariableDefinition.mapLoc (locDown d))) = Item.downAll d (variableDefinitionsV xs) :=
  groupV_down d _ _ (variableDefinitionV_down d) _ _ xs

mutual
theorem selectionV_down (d : Nat) : ∀ s : Selection, selectionV (s.mapLoc (locDown d)) = (selectionV s).down d
  | .field alias_ name args dirs ss loc => by
    cases alias_ <;>
      simp [selectionV, Selection.mapLoc, Item.down, Item.downAll, downAll_append, nameV_down, argumentsV_down,
        directivesV_down, optSelectionSetV_down d ss]
  | .fragmentSpread name dirs loc => by
    simp [selectionV, Selection.mapLoc, Item.down, Item.downAll, nameV_down, directivesV_down]
  | .inlineFragment tc dirs ss loc => by
    cases tc <;>
      simp [selectionV, Selection.mapLoc, Item.down, Item.downAll, downAll_append, namedTypeV_down, directivesV_down,
        selectionSetV_down d ss]
theorem selectionSetV_down (d : Nat) : ∀ ss : SelectionSet, selectionSetV (ss.mapLoc (locDown d)) = (selectionSetV ss).down d
  | .mk sels loc => by
    simp [selectionSetV, SelectionSet.mapLoc, Item.down, Item.downAll, downAll_append, selectionsV_down d sels]
theorem optSelectionSetV_down (d : Nat) : ∀ o : Option SelectionSet,
    optSelectionSetV (mapLocOptSS (locDown d) o) = Item.downAll d (optSelectionSetV o)
  | none => by simp [optSelectionSetV, mapLocOptSS, Item.downAll]
  | some ss => by simp [optSelectionSetV, mapLocOptSS, Item.downAll, selectionSetV_down d ss]
theorem selectionsV_down (d : Nat) : ∀ ss : List Selection,
    selectionsV (mapLocSelections (locDown d) ss) = Item.downAll d (selectionsV ss)
  | [] => by simp [selectionsV, mapLocSelections, Item.downAll]
  | s :: ss => by simp [selectionsV, mapLocSelections, Item.downAll, selectionV_down d s, selectionsV_down d ss]
end

theorem isShorthand_mapLoc (f : Loc → Loc) (x : OperationDefinition) : isShorthand (x.mapLoc f) = isShorthand x := by
  cases x with | mk op name vds dirs ss loc => cases name <;> simp [isShorthand, OperationDefinition.mapLoc]

theorem operationV_down (d : Nat) (x : OperationDefinition) : operationV (x.mapLoc (locDown d)) = (operationV x).down d := by
  unfold operationV
  rw [isShorthand_mapLoc]
  split
  · simp [OperationDefinition.mapLoc, Item.down, Item.downAll, selectionSetV_down]
  · simp [OperationDefinition.mapLoc, Item.down, Item.downAll, downAll_append, selectionSetV_down,
      optV_down d _ nameV (nameV_down d), variableDefinitionsV_down, directivesV_down]

theorem fragmentV_down (d : Nat) (x : FragmentDefinition) : fragmentV (x.mapLoc (locDown d)) = (fragmentV x).down d := by
  simp [fragmentV, FragmentDefinition.mapLoc, Item.down, Item.downAll, downAll_append, selectionSetV_down, nameV_down,
    namedTypeV_down, variableDefinitionsV_down, directivesV_down]

theorem descV_down (d : Nat) (o : Option StringValue) :
    descV (o.map (StringValue.mapLoc (locDown d))) = Item.downAll d (descV o) :=
  optV_down d _ stringV (stringV_down d) o

theorem operationTypeV_down (d : Nat) (x : OperationTypeDefinition) :
    operationTypeV (x.mapLoc (locDown d)) = (operationTypeV x).down d := by
  simp [operationTypeV, OperationTypeDefinition.mapLoc, Item.down, Item.downAll, namedTypeV_down]

theorem inputValueV_down (d : Nat) (x : InputValueDefinition) :
    inputValueV (x.mapLoc (locDown d)) = (inputValueV x).down d := by
  simp [inputValueV, InputValueDefinition.mapLoc, Item.down, Item.downAll, downAll_append, descV_down, nameV_down,
    typeV_down, defaultV_down, directivesV_down]

theorem fieldDefinitionV_down (d : Nat) (x : FieldDefinition) :
    fieldDefinitionV (x.mapLoc (locDown d)) = (fieldDefinitionV x).down d := by
  simp [fieldDefinitionV, FieldDefinition.mapLoc, Item.down, Item.downAll, downAll_append, descV_down, nameV_down,
    typeV_down, directivesV_down, groupV_down d _ inputValueV (inputValueV_down d)]

theorem enumValueDefinitionV_down (d : Nat) (x : EnumValueDefinition) :
    enumValueDefinitionV (x.mapLoc (locDown d)) = (enumValueDefinitionV x).down d := by
  simp [enumValueDefinitionV, EnumValueDefinition.mapLoc, Item.down, Item.downAll, downAll_append, descV_down, nameV_down,
    directivesV_down]

theorem implementsV_down (d : Nat) (ts : List NamedType) :
    implementsV (ts.map (NamedType.mapLoc (locDown d))) = Item.downAll d (implementsV ts) := by
  unfold implementsV
  cases ts with
  | nil => simp [Item.downAll]
  | cons t ts =>
    simp only [List.isEmpty_cons, List.map_cons, Bool.false_eq_true, ↓reduceIte, Item.downAll, Item.down]
    rw [← List.map_cons, sepV_down d _ namedTypeV (namedTypeV_down d)]

theorem unionMembersV_down (d : Nat) (ts : List NamedType) :
    unionMembersV (ts.map (NamedType.mapLoc (locDown d))) = Item.downAll d (unionMembersV ts) := by
  unfold unionMembersV
  cases ts with
  | nil => simp [Item.downAll]
  | cons t ts =>
    simp only [List.isEmpty_cons, List.map_cons, Bool.false_eq_true, ↓reduceIte, Item.downAll, Item.down]
    rw [← List.map_cons, sepV_down d _ namedTypeV (namedTypeV_down d)]

theorem definitionV_down (d : Nat) (x : Definition) : definitionV (x.mapLoc (locDown d)) = (definitionV x).down d := by
  cases x with
  | operation o => simp [definitionV, Definition.mapLoc, operationV_down]
  | fragment o => simp [definitionV, Definition.mapLoc, fragmentV_down]
  | _ =>
    simp [definitionV, Definition.mapLoc, Item.down, Item.downAll, downAll_append, descV_down, nameV_down, directivesV_down,
      implementsV_down, unionMembersV_down, blockV_down d _ fieldDefinitionV (fieldDefinitionV_down d),
      blockV_down d _ enumValueDefinitionV (enumValueDefinitionV_down d), blockV_down d _ inputValueV (inputValueV_down d),
      blockV_down d _ operationTypeV (operationTypeV_down d), groupV_down d _ inputValueV (inputValueV_down d),
      sepV_down d _ nameV (nameV_down d), map_view_down d _ operationTypeV (operationTypeV_down d)]

end PyGql.Spec

/-
  `Lay` for values, types, arguments, directives, variable definitions.
-/
import PyGqlModel.Lemmas.PrintLayTokens
namespace PyGql.PrintTokens
open PyGql PyGql.Ast PyGql.Parse PyGql.Spec PyGql.Print PyGql.PrintLex PyGql.PrintMatch PyGql.PrintString

/-- the printed block string (value position) is ONE BlockString token with the same value under every enclosing
    indentation — `BlockRoundtripStatement` of the string part for ALL depths at once, with a rest -/
def BlockLay (ind v : Text) : Prop := Lay (blockString v ind false) [(.blockString, v)]

mutual
/-- every leaf is a lexeme of its class by the SPECIFICATION recognisers (`Spec/Lexical.lean`): names, integers,
    floats; quoted strings arbitrary; block strings `BlockLay` -/
def okValue (ind : Text) : Value → Prop
  | .var v => Spec.Lexical.isName v.name.value = true
  | .int w _ => Spec.Lexical.isIntValue w = true
  | .float w _ => Spec.Lexical.isFloatValue w = true
  | .string s => s.block = true → BlockLay ind s.value
  | .boolean _ _ => True
  | .null _ => True
  | .enum w _ => Spec.Lexical.isName w = true
  | .list vs _ => okValues ind vs
  | .object fs _ => okFields ind fs
def okValues (ind : Text) : List Value → Prop
  | [] => True
  | v :: vs => okValue ind v ∧ okValues ind vs
def okField (ind : Text) : ObjectField → Prop
  | .mk name value _ => Spec.Lexical.isName name.value = true ∧ okValue ind value
def okFields (ind : Text) : List ObjectField → Prop
  | [] => True
  | f :: fs => okField ind f ∧ okFields ind fs
end

private theorem isName_true' : Spec.Lexical.isName K.true_ = true := by decide
private theorem isName_false' : Spec.Lexical.isName K.false_ = true := by decide
private theorem isName_null' : Spec.Lexical.isName K.null_ = true := by decide

theorem printValue_ne_nil' (c : Cfg) (v : Value) (h : okValue c.indent v) : printValue c v ≠ [] := by
  cases v with
  | var v => simp [printValue, printVariable]
  | int w loc =>
    simp only [okValue] at h
    simp only [printValue]
    intro e; subst e
    simp [Spec.Lexical.isIntValue, Spec.Lexical.isIntegerPart, Spec.Lexical.stripNegativeSign] at h
  | float w loc => simp only [okValue] at h; exact (floatLexeme_of_isFloatValue w h).1
  | string s =>
    simp only [printValue, printStringValue]
    split
    · exact blockString_ne_nil _ _ _
    · simp [jsonDumps]
  | boolean b loc => cases b <;> simp [printValue, K.true_, K.false_]
  | null loc => simp [printValue, K.null_]
  | enum w loc => simp only [okValue] at h; exact isName_ne_nil h
  | list vs loc => simp [printValue]
  | object fs loc => simp [printValue]

theorem printValues_ne' (c : Cfg) : ∀ (vs : List Value), okValues c.indent vs → ∀ x ∈ printValues c vs, x ≠ []
  | [], _, x, hx => by simp [printValues] at hx
  | v :: vs, h, x, hx => by
    simp only [okValues] at h
    simp only [printValues, List.mem_cons] at hx
    rcases hx with rfl | hx
    · exact printValue_ne_nil' c v h.1
    · exact printValues_ne' c vs h.2 x hx

mutual
theorem lay_value (c : Cfg) : ∀ (v : Value), okValue c.indent v → Lay (printValue c v) (valueV v).yield
  | .var v, h => by
    simp only [okValue] at h
    simpa [printValue, printVariable, valueV, variableV, nameV, Item.yield, Item.yieldAll] using lay_dollar (lay_name h)
  | .int w loc, h => by
    simp only [okValue] at h
    simpa [printValue, valueV, Item.yield, Item.yieldAll] using lay_int h
  | .float w loc, h => by
    simp only [okValue] at h
    simpa [printValue, valueV, Item.yield, Item.yieldAll] using lay_float h
  | .string s, h => by
    simp only [okValue] at h
    cases hb : s.block with
    | true => simpa [printValue, printStringValue, valueV, stringV, Item.yield, Item.yieldAll, hb, BlockLay] using h hb
    | false => simpa [printValue, printStringValue, valueV, stringV, Item.yield, Item.yieldAll, hb] using lay_string s.value
  | .boolean b loc, _ => by
    cases b
    · simpa [printValue, valueV, kw, Item.yield, Item.yieldAll] using lay_name isName_false'
    · simpa [printValue, valueV, kw, Item.yield, Item.yieldAll] using lay_name isName_true'
  | .null loc, _ => by simpa [printValue, valueV, kw, Item.yield, Item.yieldAll] using lay_name isName_null'
  | .enum w loc, h => by
    simp only [okValue] at h
    simpa [printValue, valueV, Item.yield, Item.yieldAll] using lay_name h
  | .list vs loc, h => by
    simp only [okValue] at h
    have h1 := lay_append (lay_values c vs h) (lay_bracketR lay_nil) (delimHead_cons (by decide))
    have h2 := lay_bracketL h1
    simpa [printValue, valueV, Item.yield, Item.yieldAll, yieldAll_append, join_eq_joinSep _ _ (printValues_ne' c vs h)]
      using h2
  | .object fs loc, h => by
    simp only [okValue] at h
    have h1 := lay_append (lay_fields c fs h) (lay_curlyR lay_nil) (delimHead_cons (by decide))
    have h2 := lay_curlyL h1
    simpa [printValue, valueV, Item.yield, Item.yieldAll, yieldAll_append, join_eq_joinSep _ _ (printObjectFields_ne c fs)]
      using h2
theorem lay_values (c : Cfg) : ∀ (vs : List Value), okValues c.indent vs →
    Lay (joinSep [44, 32] (printValues c vs)) (Item.yieldAll (valuesV vs))
  | [], _ => by simpa [printValues, joinSep, valuesV, Item.yieldAll] using lay_nil
  | [v], h => by
    simp only [okValues] at h
    simpa [printValues, joinSep, valuesV, Item.yieldAll] using lay_value c v h.1
  | v :: v' :: vs, h => by
    simp only [okValues] at h
    have ih := lay_values c (v' :: vs) (by simp only [okValues]; exact h.2)
    have h1 := lay_append (lay_value c v h.1) (lay_comma_cons (lay_space_cons ih)) (delimHead_cons (by decide))
    simpa [printValues, joinSep, valuesV, Item.yieldAll] using h1
theorem lay_field (c : Cfg) : ∀ (f : ObjectField), okField c.indent f → Lay (printObjectField c f) (objectFieldV f).yield
  | .mk name value loc, h => by
    simp only [okField] at h
    have h1 := lay_append (lay_name h.1) (lay_colon (lay_space_cons (lay_value c value h.2))) (delimHead_cons (by decide))
    simpa [printObjectField, objectFieldV, nameV, Item.yield, Item.yieldAll] using h1
theorem lay_fields (c : Cfg) : ∀ (fs : List ObjectField), okFields c.indent fs →
    Lay (joinSep [44, 32] (printObjectFields c fs)) (Item.yieldAll (fieldsV fs))
  | [], _ => by simpa [printObjectFields, joinSep, fieldsV, Item.yieldAll] using lay_nil
  | [f], h => by
    simp only [okFields] at h
    simpa [printObjectFields, joinSep, fieldsV, Item.yieldAll] using lay_field c f h.1
  | f :: f' :: fs, h => by
    simp only [okFields] at h
    have ih := lay_fields c (f' :: fs) (by simp only [okFields]; exact h.2)
    have h1 := lay_append (lay_field c f h.1) (lay_comma_cons (lay_space_cons ih)) (delimHead_cons (by decide))
    simpa [printObjectFields, joinSep, fieldsV, Item.yieldAll] using h1
end

/-! ### types -/

theorem lay_type (t : TypeRef) (hl : lexOkType t = true) : Lay (printType t) (typeV t).yield := by
  induction t with
  | named t =>
    simp only [lexOkType] at hl
    simpa [printType, printNamedType, typeV, namedTypeV, nameV, Item.yield, Item.yieldAll] using lay_name hl
  | list t loc ih =>
    simp only [lexOkType] at hl
    have h1 := lay_bracketL (lay_append (ih hl) (lay_bracketR lay_nil) (delimHead_cons (by decide)))
    simpa [printType, typeV, Item.yield, Item.yieldAll, yieldAll_append] using h1
  | nonNull t loc ih =>
    simp only [lexOkType] at hl
    have h1 := lay_append (ih hl) (lay_bang lay_nil) (delimHead_cons (by decide))
    simpa [printType, typeV, Item.yield, Item.yieldAll] using h1

/-! ### arguments, directives -/

def okArgument (ind : Text) (a : Argument) : Prop := Spec.Lexical.isName a.name.value = true ∧ okValue ind a.value
def okArguments (ind : Text) : List Argument → Prop
  | [] => True
  | a :: as => okArgument ind a ∧ okArguments ind as
def okDirective (ind : Text) (d : Directive) : Prop := Spec.Lexical.isName d.name.value = true ∧ okArguments ind d.arguments
def okDirectives (ind : Text) : List Directive → Prop
  | [] => True
  | d :: ds => okDirective ind d ∧ okDirectives ind ds

theorem lay_argument (c : Cfg) (a : Argument) (h : okArgument c.indent a) : Lay (printArgument c a) (argumentV a).yield := by
  have h1 := lay_append (lay_name h.1) (lay_colon (lay_space_cons (lay_value c a.value h.2))) (delimHead_cons (by decide))
  simpa [printArgument, argumentV, nameV, Item.yield, Item.yieldAll] using h1

theorem lay_argumentList (c : Cfg) : ∀ (as : List Argument), okArguments c.indent as →
    Lay (joinSep [44, 32] (as.map (printArgument c))) (Item.yieldAll (as.map argumentV))
  | [], _ => by simpa [joinSep, Item.yieldAll] using lay_nil
  | [a], h => by simpa [joinSep, Item.yieldAll] using lay_argument c a h.1
  | a :: a' :: as, h => by
    have ih := lay_argumentList c (a' :: as) h.2
    have h1 := lay_append (lay_argument c a h.1) (lay_comma_cons (lay_space_cons ih)) (delimHead_cons (by decide))
    simpa [joinSep, Item.yieldAll] using h1

theorem printArguments_eq (c : Cfg) (a : Argument) (as : List Argument) :
    printArguments c (a :: as) = 40 :: (joinSep [44, 32] ((a :: as).map (printArgument c)) ++ [41]) := by
  have hj := join_eq_joinSep _ [44, 32] (printArgument_ne c (a :: as))
  have hne := joinSep_ne_nil [44, 32] ((a :: as).map (printArgument c)) (by simp) (printArgument_ne c (a :: as))
  rw [printArguments, hj]
  unfold wrap
  cases hh : joinSep [44, 32] ((a :: as).map (printArgument c)) with
  | nil => exact absurd hh hne
  | cons x y => simp

theorem lay_arguments (c : Cfg) (as : List Argument) (h : okArguments c.indent as) :
    Lay (printArguments c as) (Item.yieldAll (argumentsV as)) := by
  cases as with
  | nil => simpa [printArguments, join, joinSep, wrap, argumentsV, groupV, Item.yieldAll] using lay_nil
  | cons a as =>
    rw [printArguments_eq]
    have h1 := lay_parenL (lay_append (lay_argumentList c (a :: as) h) (lay_parenR lay_nil) (delimHead_cons (by decide)))
    simpa [argumentsV, groupV, Item.yieldAll, yieldAll_append, Item.yield] using h1

theorem delimHead_printArguments (c : Cfg) (as : List Argument) : DelimHead (printArguments c as) := by
  cases as with
  | nil => simpa [printArguments, join, joinSep, wrap] using delimHead_nil
  | cons a as => rw [printArguments_eq]; exact delimHead_cons (by decide)

theorem lay_directive (c : Cfg) (d : Directive) (h : okDirective c.indent d) :
    Lay (printDirective c d) (directiveV d).yield := by
  have h1 := lay_atSign (lay_append (lay_name h.1) (lay_arguments c d.arguments h.2) (delimHead_printArguments c _))
  simpa [printDirective, directiveV, nameV, Item.yield, Item.yieldAll, yieldAll_append] using h1

theorem lay_directiveList (c : Cfg) : ∀ (ds : List Directive), okDirectives c.indent ds →
    Lay (joinSep [32] (ds.map (printDirective c))) (Item.yieldAll (directivesV ds))
  | [], _ => by simpa [joinSep, directivesV, Item.yieldAll] using lay_nil
  | [d], h => by simpa [joinSep, directivesV, Item.yieldAll] using lay_directive c d h.1
  | d :: d' :: ds, h => by
    have ih := lay_directiveList c (d' :: ds) h.2
    have h1 := lay_append (lay_directive c d h.1) (lay_space_cons ih) (delimHead_cons (by decide))
    simpa [joinSep, directivesV, Item.yieldAll] using h1

theorem lay_directives (c : Cfg) (ds : List Directive) (h : okDirectives c.indent ds) :
    Lay (printDirectives c ds) (Item.yieldAll (directivesV ds)) := by
  rw [printDirectives, join_eq_joinSep _ _ (printDirective_ne c ds)]
  exact lay_directiveList c ds h

theorem printDirectives_nil_iff (c : Cfg) (ds : List Directive) : printDirectives c ds = [] ↔ ds = [] := by
  rw [printDirectives, join_eq_joinSep _ _ (printDirective_ne c ds)]
  cases ds with
  | nil => simp [joinSep]
  | cons d ds =>
    simp only [reduceCtorEq, iff_false]
    exact joinSep_ne_nil _ _ (by simp) (printDirective_ne c (d :: ds))

end PyGql.PrintTokens

/-
  THE BRIDGE, part 1 (lexer): every token of an accepted text has a class whose value is a lexeme of that class by the
  specification — names, integers, floats by the recognisers; block-string values canonical (`CanonBlock`).
  From `lex_sound` (C01), `block_string_spec` (C02) and `parseBlockString_range`.
-/
import PyGqlModel.Props.C01_lex
import PyGqlModel.Props.C02_decode
import PyGqlModel.Lemmas.LexBlockRange
import PyGqlModel.Lemmas.PrintBlockForms
namespace PyGql.PrintTokens
open PyGql PyGql.Lex PyGql.Spec PyGql.PrintLex PyGql.PrintString

/-- the value carried by a token class is a lexeme of that class -/
def ClassOK : TokClass → Prop
  | (.name, v) => Spec.Lexical.isName v = true
  | (.int, v) => Spec.Lexical.isIntValue v = true
  | (.float, v) => Spec.Lexical.isFloatValue v = true
  | (.blockString, v) => CanonBlock v
  | _ => True

/-! ### characters of a decoded block string -/

theorem isSourceChar_blockChar (c : Nat) : Spec.Lexical.isSourceChar c = blockChar c := by
  rw [Bool.eq_iff_iff]
  simp [Spec.Lexical.isSourceChar, blockChar, isPrintable]
  omega

theorem blockStringCharacters_chars : ∀ (s : Text) (k : Nat) (raw : Text), k ≤ leadQ s →
    Spec.Lexical.blockStringCharacters k s = some raw → ∀ c ∈ raw, blockChar c = true
  | [], k, raw, _, h => by simp [Spec.Lexical.blockStringCharacters] at h
  | a :: t, k + 1, raw, hk, h => by
    have ha : a = 34 := by
      by_cases e : a = 34
      · exact e
      · simp [leadQ, e] at hk
    subst ha
    have hk' : k ≤ leadQ t := by simp [leadQ] at hk; omega
    simp only [Spec.Lexical.blockStringCharacters, Option.map_eq_some_iff] at h
    obtain ⟨r, hr, rfl⟩ := h
    intro c hc
    simp only [List.mem_cons] at hc
    rcases hc with rfl | hc
    · decide
    · exact blockStringCharacters_chars t k r hk' hr c hc
  | a :: t, 0, raw, _, h => by
    rw [Spec.Lexical.blockStringCharacters] at h
    split at h
    · split at h
      · cases h; intro c hc; cases hc
      · cases h
    · rename_i hp
      split at h
      · rename_i h92
        have h3 : 3 ≤ leadQ t := (tq_prefix_iff t).mp (by simpa [tq] using h92.2)
        exact blockStringCharacters_chars t 3 raw h3 h
      · split at h
        · cases h
        · rename_i hsc
          simp only [Option.map_eq_some_iff] at h
          obtain ⟨r, hr, rfl⟩ := h
          intro c hc
          simp only [List.mem_cons] at hc
          rcases hc with rfl | hc
          · rw [← isSourceChar_blockChar]; simpa using hsc
          · exact blockStringCharacters_chars t 0 r (Nat.zero_le _) hr c hc

open PyGql.BlockString in
theorem mem_splitLinesAux (b : Bool) (s : Text) : ∀ x ∈ splitLinesAux b s, ∀ c ∈ x, c ∈ s := by
  induction s generalizing b with
  | nil => intro x hx c hc; simp [splitLinesAux] at hx; subst hx; cases hc
  | cons a t ih =>
    intro x hx c hc
    simp only [splitLinesAux] at hx
    split at hx
    · split at hx
      · exact List.mem_cons_of_mem _ (ih false x hx c hc)
      · simp only [List.mem_cons] at hx
        rcases hx with rfl | hx
        · cases hc
        · exact List.mem_cons_of_mem _ (ih false x hx c hc)
    · split at hx
      · simp only [List.mem_cons] at hx
        rcases hx with rfl | hx
        · cases hc
        · exact List.mem_cons_of_mem _ (ih true x hx c hc)
      · cases hs : splitLinesAux false t with
        | nil => rw [hs] at hx; simp at hx; subst hx; simp at hc; subst hc; simp
        | cons l ls =>
          rw [hs] at hx
          simp only [List.mem_cons] at hx
          rcases hx with rfl | hx
          · simp only [List.mem_cons] at hc
            rcases hc with rfl | hc
            · simp
            · exact List.mem_cons_of_mem _ (ih false l (by rw [hs]; simp) c hc)
          · exact List.mem_cons_of_mem _ (ih false x (by rw [hs]; simp [hx]) c hc)

open PyGql.BlockString in
theorem mem_joinLF (ls : List Text) : ∀ c ∈ joinLF ls, c = 10 ∨ ∃ x ∈ ls, c ∈ x := by
  induction ls with
  | nil => intro c hc; cases hc
  | cons l t ih =>
    intro c hc
    cases t with
    | nil => simp [joinLF] at hc; exact Or.inr ⟨l, by simp, hc⟩
    | cons b bs =>
      rw [joinLF_cons_cons] at hc
      simp only [List.mem_append, List.mem_cons] at hc
      rcases hc with hc | rfl | hc
      · exact Or.inr ⟨l, by simp, hc⟩
      · exact Or.inl rfl
      · rcases ih c hc with h | ⟨x, hx, hcx⟩
        · exact Or.inl h
        · exact Or.inr ⟨x, List.mem_cons_of_mem _ hx, hcx⟩

open PyGql.BlockString in
/-- the characters of `parse_block_string(raw)` are characters of `raw`, or the LF that joins the lines -/
theorem mem_parseBlockString (raw : Text) : ∀ c ∈ parseBlockString raw, c = 10 ∨ c ∈ raw := by
  intro c hc
  unfold parseBlockString at hc
  rcases mem_joinLF _ c hc with h | ⟨x, hx, hcx⟩
  · exact Or.inl h
  · right
    have hx1 := mem_popLeading (mem_popTrailing hx)
    have hsplit := mem_splitLinesAux false raw
    cases hci : BlockString.commonIndent (splitLines raw) with
    | none => rw [hci] at hx1; exact hsplit x hx1 c hcx
    | some k =>
      rw [hci] at hx1
      simp only [List.mem_append, List.mem_map] at hx1
      rcases hx1 with h | ⟨y, hy, rfl⟩
      · exact hsplit x (List.mem_of_mem_take h) c hcx
      · exact hsplit y (List.mem_of_mem_drop hy) c (List.mem_of_mem_drop hcx)


open PyGql.BlockString in
/-- a single non-blank line that does not start with a blank has indentation 0 -/
theorem indentStep_single (l : Text) (hml : multiLineForm l = true) (hline : IsLine l) (hnb : onlyWhiteSpace l = false) :
    [l].foldl indentStep none = some 0 := by
  have hnoLF : l.contains 10 = false := by
    rw [Bool.eq_false_iff]; intro h
    exact (hline 10 (by simpa using h)).1 rfl
  cases l with
  | nil => simp [onlyWhiteSpace] at hnb
  | cons a t =>
    simp only [multiLineForm, hnoLF, Bool.not_false, Bool.and_true, Bool.not_eq_true', Bool.or_eq_false_iff, beq_eq_false_iff_ne] at hml
    have ha : isBlankChar a = false := by simp [isBlankChar, hml.1, hml.2]
    simp [indentStep, lstrip, List.dropWhile, ha]

open PyGql.BlockString in
/-- every value `parse_block_string` returns for a raw text of block-string characters is canonical -/
theorem canonBlock_parseBlockString (raw : Text) (hraw : ∀ c ∈ raw, blockChar c = true) : CanonBlock (parseBlockString raw) := by
  have hchars : ∀ c ∈ parseBlockString raw, blockChar c = true := by
    intro c hc
    rcases mem_parseBlockString raw c hc with rfl | h
    · decide
    · exact hraw c h
  rcases parseBlockString_range raw with h | ⟨l, ls, he, hlines, hfirst, hlast, hmin⟩
  · exact Or.inl h
  · refine Or.inr ⟨l, ls, he, hlines, hchars, hfirst, hlast, fun hml => ?_⟩
    rcases hmin with rfl | h
    · rw [he] at hml
      simp only [joinLF] at hml
      exact indentStep_single l hml (hlines l (by simp)) hfirst
    · exact h

/-- a lexeme of the specification carries a value of its class -/
theorem classOK_of_lexeme (k : TokKind) (lex v : Text) (h : Spec.Lexical.Lexeme k lex v) : ClassOK (k, v) := by
  cases k <;> simp only [Spec.Lexical.Lexeme, ClassOK] at h ⊢
  · obtain ⟨h1, rfl⟩ := h; exact h1
  · obtain ⟨h1, rfl⟩ := h; exact h1
  · obtain ⟨h1, rfl⟩ := h; exact h1
  · -- block string
    simp only [Option.map_eq_some_iff] at h
    obtain ⟨raw, hraw, rfl⟩ := h
    rw [← Props.C02.block_string_spec]
    apply canonBlock_parseBlockString
    unfold Spec.Lexical.blockStringRaw at hraw
    split at hraw
    · exact blockStringCharacters_chars _ 0 raw (Nat.zero_le _) hraw
    · cases hraw

theorem classOK_of_tiles (n : Nat) (s : Text) (body : List Tok) (h : Spec.Lexical.Tiles n s body) :
    ∀ t ∈ body, ClassOK (t.kind, t.value) := by
  induction h with
  | eof ign _ => intro t ht; simp at ht; subst ht; simp [ClassOK]
  | tok ign lex rest k v toks _ hlex _ _ ih =>
    intro t ht
    simp only [List.mem_cons] at ht
    rcases ht with rfl | ht
    · exact classOK_of_lexeme k lex v hlex
    · exact ih t ht

/-- THE BRIDGE, part 1: every token the lexer returns has a valid class -/
theorem classOK_of_lexAll (s : Text) (toks : List Tok) (h : lexAll s = .ok toks) : ∀ t ∈ toks, ClassOK (cls t) := by
  obtain ⟨body, rfl, htiles⟩ := Props.C01.lex_sound s toks h
  intro t ht
  simp only [List.mem_cons] at ht
  have key : ∀ t : Tok, ClassOK (t.kind, t.value) → ClassOK (cls t) := by
    intro t h
    unfold cls
    cases hk : t.kind <;> simp only [hk, hasValue, ↓reduceIte, Bool.false_eq_true] at h ⊢ <;>
      first | exact h | simp [ClassOK]
  rcases ht with rfl | ht
  · simp [cls, sofTok, hasValue, ClassOK]
  · exact key t (classOK_of_tiles _ _ _ htiles t ht)

end PyGql.PrintTokens

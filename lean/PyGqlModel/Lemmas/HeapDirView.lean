/-
  C14 — the copying phase of `clone()` for DIRECTIVES (`_clone_directive`): the copy of a directive has the by-name view of its
  source, the copies come in the order of the source's `directives` dict; and the ORDER of the registries through
  `_replace_types_and_directives` when every entry replaces (none deletes).
-/
import PyGqlModel.Lemmas.HeapCopyView

set_option linter.unusedSimpArgs false
set_option linter.unusedVariables false

namespace PyGql.Heap.Own
open PyGql.Heap

/-- all argument views of a directive view are there -/
def fullD (p : DirO × List (Option ArgO)) : Prop := ∀ v, v ∈ p.2 → v.isSome = true

theorem dirV_grow {h h' : Heap} (g : ShowsSrc h h') {a : Addr} {p : DirO × List (Option ArgO)} (hv : dirV h a = some p) (hf : fullD p) :
    dirV h' a = some p := by
  simp only [dirV, Option.map_eq_some_iff] at hv
  obtain ⟨d, hd0, rfl⟩ := hv
  have ha : a < h.size := read_lt h a _ (readDir_read hd0)
  have hr : h'.readDir a = some d := by simp only [Heap.readDir, g.2 a ha]; exact hd0
  simp only [dirV, hr, Option.map_some, Option.some.injEq, Prod.mk.injEq, true_and]
  exact argsV_grow g d.args (fun x hx => hf _ (List.mem_map.mpr ⟨x, hx, rfl⟩))

/-- the arguments of the directive at `a` exist (what `wfB` says about a registered directive) -/
def DirReadable (h0 : Heap) (a : Addr) : Prop := ∃ d, h0.readDir a = some d ∧ ∀ x, x ∈ d.args → ∃ g, h0.readArg x = some g

/-- `_clone_directive`: the copy has the view of its source -/
theorem cloneDir_view (cfg : Cfg) (hd : cfg.deepClone = true) (h0 h : Heap) (ss : ShowsSrc h0 h) (a : Addr) (d : DirO)
    (hd0 : h0.readDir a = some d) (hargs : ∀ x, x ∈ d.args → ∃ g, h0.readArg x = some g) :
    ShowsSrc h (cloneDir cfg h d).1 ∧ dirV (cloneDir cfg h d).1 (cloneDir cfg h d).2 = dirV h0 a ∧
      ∃ p, dirV h0 a = some p ∧ fullD p := by
  simp only [cloneDir, hd, if_true]
  obtain ⟨sa, ea, fa⟩ := copyArgs_view h0 d.args h ss hargs
  have s1 : ShowsSrc (copyArgs h d.args).1 ((copyArgs h d.args).1.alloc (.dir { d with args := (copyArgs h d.args).2 })).1 :=
    (ShowsSrc.refl' _).alloc _
  have hsrc : dirV h0 a = some ({ d with args := [] }, d.args.map (argV h0)) := by simp [dirV, hd0]
  refine ⟨sa.trans' s1, ?_, _, hsrc, fa⟩
  rw [hsrc]
  simp only [dirV, readDir_alloc_new, Option.map_some, Option.some.injEq, Prod.mk.injEq, true_and]
  rw [← ea]
  exact argsV_grow s1 _ (fun x hx => fa _ (by rw [← ea]; exact List.mem_map.mpr ⟨x, hx, rfl⟩))

/-- the loop over `self.directives`: one copy per directive, IN ORDER, under the same name, with the view of its source -/
theorem cloneDirs_view (cfg : Cfg) (hd : cfg.deepClone = true) (h0 : Heap) : ∀ (l : List (String × Addr)) (h : Heap), ShowsSrc h0 h →
    (∀ e, e ∈ l → DirReadable h0 e.2) →
    ShowsSrc h (cloneDirs cfg h l).1 ∧
    ∃ cs : List (String × Addr), (cloneDirs cfg h l).2 = cs.map (fun c => (c.1, some c.2)) ∧
      cs.map (fun c => (c.1, dirV (cloneDirs cfg h l).1 c.2)) = l.map (fun e => (e.1, dirV h0 e.2)) := by
  intro l
  induction l with
  | nil => intro h _ _; exact ⟨ShowsSrc.refl' h, [], rfl, rfl⟩
  | cons e rest ih =>
    intro h ss hall
    obtain ⟨n, a⟩ := e
    obtain ⟨d, hd0, hargs⟩ := hall (n, a) (by simp)
    have ha : a < h0.size := read_lt h0 a _ (readDir_read hd0)
    have hdh : h.readDir a = some d := by simp only [Heap.readDir, ss.2 a ha]; exact hd0
    obtain ⟨s1, v1, p, hp, fp⟩ := cloneDir_view cfg hd h0 h ss a d hd0 hargs
    obtain ⟨s2, cs, e2, v2⟩ := ih (cloneDir cfg h d).1 (ss.trans' s1) (fun e he => hall e (by simp [he]))
    simp only [cloneDirs, hdh]
    refine ⟨s1.trans' s2, (n, (cloneDir cfg h d).2) :: cs, by simp [e2], ?_⟩
    simp only [List.map_cons, v2, List.cons.injEq, and_true, Prod.mk.injEq, true_and]
    rw [hp] at v1 ⊢
    exact dirV_grow s2 v1 fp

/-! ### order of the registries -/

theorem lookup_append_none {A : List (String × Addr)} {n m : String} {a : Addr} (hA : lookup A m = none) (hne : n ≠ m) :
    lookup (A ++ [(n, a)]) m = none := by
  simp only [lookup, Option.map_eq_none_iff, List.find?_eq_none] at hA ⊢
  intro e he
  simp only [List.mem_append, List.mem_singleton] at he
  rcases he with he | rfl
  · exact hA e he
  · simpa using hne

/-- `directives[name] = copy` for distinct names not yet registered: appended in order -/
theorem replaceDirs_append : ∀ (cs : List (String × Addr)) (reg : List (String × Addr)), (cs.map (·.1)).Nodup →
    (∀ c, c ∈ cs → lookup reg c.1 = none) → replaceDirs reg (cs.map fun c => (c.1, some c.2)) = reg ++ cs := by
  intro cs
  induction cs with
  | nil => intro reg _ _; simp [replaceDirs]
  | cons c rest ih =>
    intro reg hn hf
    obtain ⟨n, a⟩ := c
    simp only [List.map_cons, List.nodup_cons] at hn
    have hl : lookup reg n = none := hf (n, a) (by simp)
    simp only [List.map_cons, replaceDirs]
    have hrs : regSet reg n a = reg ++ [(n, a)] := by simp [regSet, hl]
    rw [hrs, ih (reg ++ [(n, a)]) hn.2]
    · simp
    · intro c hc
      apply lookup_append_none (hf c (by simp [hc]))
      intro hq
      exact hn.1 (by rw [hq]; exact List.mem_map.mpr ⟨c, hc, rfl⟩)

/-- `types[name] = copy` for registered names (every entry replaces, none deletes): the registry keeps its order of names -/
theorem replaceTypes_order (cfg : Cfg) : ∀ (ut : List (String × Option Addr)) (reg : List (String × Addr)) (b : Bool),
    (∀ x, x ∈ ut → x.2 ≠ none) → (replaceTypes cfg reg b ut).1.map (·.1) = reg.map (·.1) := by
  intro ut
  induction ut with
  | nil => intro reg b _; simp [replaceTypes]
  | cons x rest ih =>
    intro reg b hs
    obtain ⟨nm, new⟩ := x
    have hrest : ∀ x, x ∈ rest → x.2 ≠ none := fun x hx => hs x (by simp [hx])
    simp only [replaceTypes]
    split
    · exact ih reg b hrest
    · rename_i orig hl
      cases new with
      | none => exact absurd rfl (hs (nm, none) (by simp))
      | some a' =>
        simp only
        rw [ih _ _ hrest, regSet_names_eq reg nm a' (by simp [hl])]

end PyGql.Heap.Own

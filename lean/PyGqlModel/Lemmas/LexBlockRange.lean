/-
  The range of `parse_block_string` (= `BlockStringValue`): a value is empty, or it is LF-joined lines whose first and
  last lines are not blank and — unless it is a single line — whose smallest indentation over the non-blank lines is 0.
-/
import PyGqlModel.Lemmas.LexBlockLayout

namespace PyGql.BlockString
open PyGql.Spec

/-- non-blank line -/
def NB (l : Text) : Bool := decide (indentOf l < l.length)

theorem nb_iff (l : Text) : NB l = true ↔ onlyWhiteSpace l = false := by
  have hle := indentOf_le l
  have hsplit := length_take_drop_while isWhiteSpace l
  simp only [NB, decide_eq_true_eq]
  constructor
  · intro h
    cases hw : onlyWhiteSpace l with
    | false => rfl
    | true =>
      have : (lstrip l).isEmpty = true := by rw [lstrip_isEmpty]; exact hw
      have h0 : (lstrip l).length = 0 := by simpa using this
      rw [lstrip_length] at h0; omega
  · intro h
    have : (lstrip l).isEmpty = false := by rw [lstrip_isEmpty]; exact h
    have h0 : (lstrip l).length ≠ 0 := by
      intro e; rw [List.length_eq_zero_iff] at e; rw [e] at this; simp at this
    rw [lstrip_length] at h0; omega

/-- the minimum the indentation loop computes -/
def M (X : List Text) : Option Nat := ((X.filter NB).map indentOf).min?

theorem foldl_eq_M (X : List Text) : X.foldl indentStep none = M X := by
  rw [foldl_indentStep]; rfl

theorem filter_popLeading (X : List Text) : (popLeading X).filter NB = X.filter NB := by
  induction X with
  | nil => rfl
  | cons l ls ih =>
    simp only [popLeading]
    split
    · rename_i h
      have : NB l = false := by
        cases hn : NB l with
        | false => rfl
        | true => rw [lstrip_isEmpty] at h; rw [(nb_iff l).mp hn] at h; cases h
      rw [ih]; simp [List.filter_cons, this]
    · rfl

theorem popTrailing_cons_nil (l : Text) (ls : List Text) (h : popTrailing ls = []) :
    popTrailing (l :: ls) = if (lstrip l).isEmpty then [] else [l] := by
  rw [popTrailing, h]

theorem popTrailing_cons_ne (l : Text) (ls : List Text) (h : popTrailing ls ≠ []) :
    popTrailing (l :: ls) = l :: popTrailing ls := by
  rw [popTrailing]
  cases h' : popTrailing ls with
  | nil => exact absurd h' h
  | cons a b => rfl

theorem nb_false_of_blank (l : Text) (hb : (lstrip l).isEmpty = true) : NB l = false := by
  cases hn : NB l with
  | false => rfl
  | true => rw [lstrip_isEmpty] at hb; rw [(nb_iff l).mp hn] at hb; cases hb

theorem filter_popTrailing (X : List Text) : (popTrailing X).filter NB = X.filter NB := by
  induction X with
  | nil => rfl
  | cons l ls ih =>
    by_cases h : popTrailing ls = []
    · rw [popTrailing_cons_nil l ls h]
      rw [h] at ih
      split
      · rename_i hb
        simp [List.filter_cons, nb_false_of_blank l hb, ← ih]
      · simp [List.filter_cons, ← ih]
    · rw [popTrailing_cons_ne l ls h]
      simp [List.filter_cons, ih]

theorem mem_popLeading {x : Text} {X : List Text} (h : x ∈ popLeading X) : x ∈ X := by
  induction X with
  | nil => simp [popLeading] at h
  | cons l ls ih =>
    simp only [popLeading] at h
    split at h
    · exact List.mem_cons_of_mem _ (ih h)
    · exact h

theorem mem_popTrailing {x : Text} {X : List Text} (h : x ∈ popTrailing X) : x ∈ X := by
  induction X with
  | nil => simp [popTrailing] at h
  | cons l ls ih =>
    by_cases hp : popTrailing ls = []
    · rw [popTrailing_cons_nil l ls hp] at h
      split at h
      · simp at h
      · simp at h; simp [h]
    · rw [popTrailing_cons_ne l ls hp] at h
      rcases List.mem_cons.mp h with rfl | h
      · simp
      · exact List.mem_cons_of_mem _ (ih h)

theorem popLeading_head (X : List Text) : popLeading X = [] ∨ ∃ l ls, popLeading X = l :: ls ∧ onlyWhiteSpace l = false := by
  induction X with
  | nil => exact Or.inl rfl
  | cons l ls ih =>
    simp only [popLeading]
    split
    · exact ih
    · rename_i h
      refine Or.inr ⟨l, ls, rfl, ?_⟩
      rw [lstrip_isEmpty] at h; simpa using h

theorem popTrailing_last (X : List Text) :
    popTrailing X = [] ∨ ∃ h : popTrailing X ≠ [], onlyWhiteSpace ((popTrailing X).getLast h) = false := by
  induction X with
  | nil => exact Or.inl rfl
  | cons l ls ih =>
    by_cases hp : popTrailing ls = []
    · rw [popTrailing_cons_nil l ls hp]
      split
      · exact Or.inl rfl
      · rename_i hb
        refine Or.inr ⟨by simp, ?_⟩
        rw [lstrip_isEmpty] at hb; simpa using hb
    · rcases ih with h | ⟨hne, hl⟩
      · exact absurd h hp
      · refine Or.inr ⟨by rw [popTrailing_cons_ne l ls hp]; simp, ?_⟩
        simp only [popTrailing_cons_ne l ls hp]
        rw [List.getLast_cons hne]; exact hl

theorem popTrailing_cons_nb (l : Text) (ls : List Text) (hl : onlyWhiteSpace l = false) :
    ∃ r, popTrailing (l :: ls) = l :: r := by
  by_cases hp : popTrailing ls = []
  · rw [popTrailing_cons_nil l ls hp, lstrip_isEmpty, hl]; exact ⟨[], by simp⟩
  · exact ⟨_, popTrailing_cons_ne l ls hp⟩

/-! ### dedenting -/

theorem indentOf_cons (c : Nat) (t : Text) : indentOf (c :: t) = if isWhiteSpace c then indentOf t + 1 else 0 := by
  simp only [indentOf, List.takeWhile_cons]
  split <;> simp

theorem indentOf_drop (k : Nat) (t : Text) (h : k ≤ indentOf t) :
    indentOf (t.drop k) = indentOf t - k ∧ (t.drop k).length = t.length - k := by
  induction k generalizing t with
  | zero => simp
  | succ k ih =>
    cases t with
    | nil => simp [indentOf] at h
    | cons c u =>
      rw [indentOf_cons] at h ⊢
      split at h
      · rename_i hc
        have := ih u (by omega)
        simp only [List.drop_succ_cons, hc, ↓reduceIte, List.length_cons]
        omega
      · omega

theorem M_dedent (T : List Text) (k : Nat) (h : M T = some k) : M (T.map (fun l => l.drop k)) = some 0 := by
  unfold M at h ⊢
  rw [List.min?_eq_some_iff] at h ⊢
  obtain ⟨hmem, hmin⟩ := h
  refine ⟨?_, fun b _ => Nat.zero_le b⟩
  simp only [List.mem_map, List.mem_filter] at hmem hmin ⊢
  obtain ⟨t0, ⟨ht0, hnb⟩, hk⟩ := hmem
  refine ⟨t0.drop k, ⟨⟨t0, ht0, rfl⟩, ?_⟩, ?_⟩
  · have := indentOf_drop k t0 (by omega)
    simp only [NB, decide_eq_true_eq] at hnb ⊢
    omega
  · have := indentOf_drop k t0 (by omega)
    omega

/-! ### lines -/

theorem splitLinesAux_isLine (b : Bool) (s : Text) : ∀ x ∈ splitLinesAux b s, IsLine x := by
  induction s generalizing b with
  | nil => intro x hx; simp [splitLinesAux] at hx; subst hx; intro c hc; simp at hc
  | cons c t ih =>
    intro x hx
    simp only [splitLinesAux] at hx
    split at hx
    · split at hx
      · exact ih _ x hx
      · rcases List.mem_cons.mp hx with rfl | hx
        · intro c hc; simp at hc
        · exact ih _ x hx
    · split at hx
      · rcases List.mem_cons.mp hx with rfl | hx
        · intro c hc; simp at hc
        · exact ih _ x hx
      · rename_i h10 h13
        split at hx
        · rename_i l ls hs
          rcases List.mem_cons.mp hx with rfl | hx
          · have hl := ih false l (by rw [hs]; simp)
            intro d hd
            rcases List.mem_cons.mp hd with rfl | hd
            · exact ⟨h10, h13⟩
            · exact hl d hd
          · exact ih false x (by rw [hs]; simp [hx])
        · simp at hx; subst hx
          intro d hd; simp at hd; subst hd; exact ⟨h10, h13⟩

theorem isLine_drop {l : Text} (h : IsLine l) (k : Nat) : IsLine (l.drop k) :=
  fun c hc => h c (List.mem_of_mem_drop hc)

/-- the range of `parse_block_string` -/
theorem parseBlockString_range (raw : Text) :
    parseBlockString raw = [] ∨
    ∃ l ls, parseBlockString raw = joinLF (l :: ls) ∧ (∀ x ∈ l :: ls, IsLine x) ∧ onlyWhiteSpace l = false ∧
      onlyWhiteSpace ((l :: ls).getLast (by simp)) = false ∧
      (ls = [] ∨ (l :: ls).foldl indentStep none = some 0) := by
  have hlines := splitLinesAux_isLine false raw
  have hne := splitLinesAux_ne_nil false raw
  unfold parseBlockString splitLines
  cases hsp : splitLinesAux false raw with
  | nil => exact absurd hsp hne
  | cons f T =>
    rw [hsp] at hlines
    -- the dedented lines X and what is known about their minimum
    have key : ∀ X : List Text, (∀ x ∈ X, IsLine x) →
        (M X = some 0 ∨ (X = f :: T ∧ M T = none)) →
        joinLF (popTrailing (popLeading X)) = [] ∨
        ∃ l ls, joinLF (popTrailing (popLeading X)) = joinLF (l :: ls) ∧ (∀ x ∈ l :: ls, IsLine x) ∧
          onlyWhiteSpace l = false ∧ onlyWhiteSpace ((l :: ls).getLast (by simp)) = false ∧
          (ls = [] ∨ (l :: ls).foldl indentStep none = some 0) := by
      intro X hX hM
      rcases popLeading_head X with h0 | ⟨l, Y, hY, hl⟩
      · left; rw [h0]; rfl
      · obtain ⟨r, hr⟩ := popTrailing_cons_nb l Y hl
        have hR : popTrailing (popLeading X) = l :: r := by rw [hY, hr]
        right
        refine ⟨l, r, by rw [hR], ?_, hl, ?_, ?_⟩
        · intro x hx; rw [← hR] at hx; exact hX x (mem_popLeading (mem_popTrailing hx))
        · rcases popTrailing_last (popLeading X) with h | ⟨hne', hlast⟩
          · rw [hR] at h; cases h
          · simp only [hR] at hlast; exact hlast
        · have hfilter : (l :: r).filter NB = X.filter NB := by
            rw [← hR, filter_popTrailing, filter_popLeading]
          rcases hM with hM | ⟨rfl, hT⟩
          · right
            rw [foldl_eq_M]; unfold M; rw [hfilter]; exact hM
          · -- all of `T` is blank: a single line is left
            left
            have hTe : T.filter NB = [] := by
              unfold M at hT
              rw [List.min?_eq_none_iff, List.map_eq_nil_iff] at hT; exact hT
            have hfl : (f :: T).filter NB = [f] ∨ (f :: T).filter NB = [] := by
              simp only [List.filter_cons, hTe]; split <;> simp
            cases r with
            | nil => rfl
            | cons a r' =>
              exfalso
              -- the last line of `l :: a :: r'` is non-blank and lies in `T`... it would be in `T.filter NB`
              rcases popTrailing_last (popLeading (f :: T)) with h | ⟨hne', hlast⟩
              · rw [hR] at h; cases h
              · simp only [hR] at hlast
                have hmem : (l :: a :: r').getLast (by simp) ∈ (l :: a :: r').filter NB := by
                  rw [List.mem_filter]; exact ⟨List.getLast_mem _, (nb_iff _).mpr hlast⟩
                have hlm : l ∈ (l :: a :: r').filter NB := by
                  rw [List.mem_filter]; exact ⟨by simp, (nb_iff _).mpr hl⟩
                rw [hfilter] at hmem hlm
                have hlen : ((l :: a :: r').filter NB).length ≤ 1 := by
                  rw [hfilter]; rcases hfl with h | h <;> simp [h]
                -- two NB members at distinct positions: first and last of a list of length ≥ 2
                have h2 : 2 ≤ ((l :: a :: r').filter NB).length := by
                  have hlastnb : NB ((a :: r').getLast (by simp)) = true := by
                    have : (l :: a :: r').getLast (by simp) = (a :: r').getLast (by simp) := List.getLast_cons (by simp)
                    rw [this] at hlast; exact (nb_iff _).mpr hlast
                  have hsub : ((a :: r').filter NB).length ≥ 1 := by
                    have : (a :: r').getLast (by simp) ∈ (a :: r').filter NB := by
                      rw [List.mem_filter]; exact ⟨List.getLast_mem _, hlastnb⟩
                    exact List.length_pos_of_mem this
                  simp only [List.filter_cons, (nb_iff l).mpr hl, ↓reduceIte, List.length_cons]
                  simp only [List.filter_cons] at hsub
                  omega
                omega
    cases hci : commonIndent (f :: T) with
    | none =>
      simp only [hci]
      have hT : M T = none := by
        rw [← foldl_eq_M]; simpa [commonIndent] using hci
      exact key (f :: T) hlines (Or.inr ⟨rfl, hT⟩)
    | some k =>
      simp only [hci, List.take_succ_cons, List.take_zero, List.drop_succ_cons, List.drop_zero, List.singleton_append,
        List.nil_append, List.cons_append]
      have hT : M T = some k := by
        rw [← foldl_eq_M]; simpa [commonIndent] using hci
      have hT' := M_dedent T k hT
      have hX : ∀ x ∈ f :: T.map (fun l => l.drop k), IsLine x := by
        intro x hx
        rcases List.mem_cons.mp hx with rfl | hx
        · exact hlines _ (by simp)
        · obtain ⟨y, hy, rfl⟩ := List.mem_map.mp hx
          exact isLine_drop (hlines y (by simp [hy])) k
      have hM0 : M (f :: T.map (fun l => l.drop k)) = some 0 := by
        unfold M at hT' ⊢
        rw [List.min?_eq_some_iff] at hT' ⊢
        refine ⟨?_, fun b _ => Nat.zero_le b⟩
        simp only [List.filter_cons]
        split
        · exact List.mem_cons_of_mem _ hT'.1
        · exact hT'.1
      exact key _ hX (Or.inl hM0)

end PyGql.BlockString

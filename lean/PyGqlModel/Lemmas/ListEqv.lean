/-
  Lists up to reordering AND an element-wise relation (`ListEqv R l l'`: `l'` lists the elements of `l` in some order,
  each up to `R`), with the transport lemmas for `find?`, `filter`, `map`, `filterMap`, `flatMap`.
  Used by C20 (`diff_perm_deep`: schema descriptions up to the order of every member list at every level).
-/
namespace PyGql.ListEqv

/-- names are unique (same definition as `Props.C20.Uniq`) -/
def UniqN {α} (name : α → String) (l : List α) : Prop :=
  ∀ x ∈ l, l.find? (fun y => name y == name x) = some x

/-- element-wise related lists of the same length -/
inductive F2 {α} (R : α → α → Prop) : List α → List α → Prop
  | nil : F2 R [] []
  | cons {a b : α} {l l' : List α} : R a b → F2 R l l' → F2 R (a :: l) (b :: l')

def ListEqv {α} (R : α → α → Prop) (l l' : List α) : Prop := ∃ m, l.Perm m ∧ F2 R m l'

def OptRel {α β} (R : α → β → Prop) : Option α → Option β → Prop
  | none, none => True
  | some a, some b => R a b
  | _, _ => False

theorem ListEqv.of_perm {α} {l l' : List α} (h : l.Perm l') : ListEqv Eq l l' :=
  ⟨l', h, by
    clear h
    induction l' with
    | nil => exact .nil
    | cons a l ih => exact .cons rfl ih⟩

/-! ### permutations -/

theorem flatMap_perm_plain {α β} (f : α → List β) {l l' : List α} (h : l.Perm l') :
    (l.flatMap f).Perm (l'.flatMap f) := by
  induction h with
  | nil => exact List.Perm.refl _
  | cons a _ ih => simp only [List.flatMap_cons]; exact List.Perm.append (List.Perm.refl _) ih
  | swap a b l =>
    simp only [List.flatMap_cons, ← List.append_assoc]
    exact List.Perm.append List.perm_append_comm (List.Perm.refl _)
  | trans _ _ ih1 ih2 => exact ih1.trans ih2

theorem find_perm {α} {l l' : List α} (p : α → Bool) (h : l.Perm l')
    (u : ∀ x ∈ l, ∀ y ∈ l, p x = true → p y = true → x = y) : l.find? p = l'.find? p := by
  cases hf : l.find? p with
  | none =>
    have hn := List.find?_eq_none.mp hf
    exact (List.find?_eq_none.mpr (fun x hx => hn x (h.mem_iff.mpr hx))).symm
  | some x =>
    have hpx := List.find?_some hf
    have hxl := List.mem_of_find?_eq_some hf
    cases hf' : l'.find? p with
    | none =>
      have hn := List.find?_eq_none.mp hf'
      exact absurd hpx (hn x (h.mem_iff.mp hxl))
    | some y =>
      have hpy := List.find?_some hf'
      have hyl := h.mem_iff.mpr (List.mem_of_find?_eq_some hf')
      rw [u x hxl y hyl hpx hpy]

theorem uniq_inj {α} {name : α → String} {l : List α} (h : UniqN name l) (nm : String) :
    ∀ x ∈ l, ∀ y ∈ l, (name x == nm) = true → (name y == nm) = true → x = y := by
  intro x hx y hy px py
  have ex : name x = nm := by simpa using px
  have ey : name y = nm := by simpa using py
  have h1 := h x hx
  have h2 := h y hy
  rw [ex] at h1; rw [ey] at h2
  rw [h1] at h2
  exact Option.some.inj h2

/-- look-up by name does not depend on the order of a list with unique names -/
theorem find_name_perm {α} {name : α → String} {l l' : List α} (h : l.Perm l') (u : UniqN name l)
    (nm : String) : l.find? (fun y => name y == nm) = l'.find? (fun y => name y == nm) :=
  find_perm _ h (uniq_inj u nm)

/-- whether a look-up fails does not depend on the order of ANY list -/
theorem findNone_perm {α} {l l' : List α} (p : α → Bool) (h : l.Perm l') :
    (l.find? p).isNone = (l'.find? p).isNone := by
  cases hf : l.find? p with
  | none =>
    have hn := List.find?_eq_none.mp hf
    rw [List.find?_eq_none.mpr (fun x hx => hn x (h.mem_iff.mpr hx))]
  | some x =>
    have hpx := List.find?_some hf
    have hxl := List.mem_of_find?_eq_some hf
    cases hf' : l'.find? p with
    | none => exact absurd hpx (List.find?_eq_none.mp hf' x (h.mem_iff.mp hxl))
    | some y => rfl

theorem uniq_perm {α} {name : α → String} {l l' : List α} (h : l.Perm l') (u : UniqN name l) : UniqN name l' := by
  intro x hx
  rw [← find_name_perm h u (name x)]
  exact u x (h.mem_iff.mpr hx)

theorem find_filter_of_find {α} (l : List α) (p q : α → Bool) (x : α)
    (h : l.find? p = some x) (hq : q x = true) : (l.filter q).find? p = some x := by
  induction l with
  | nil => simp at h
  | cons a l ih =>
    simp only [List.find?_cons] at h
    by_cases hqa : q a = true
    · simp only [List.filter_cons, hqa, if_true, List.find?_cons]
      cases hp : p a with
      | true => simp [hp] at h; simp [h]
      | false => simp [hp] at h; exact ih h
    · have hqa' : q a = false := by simpa using hqa
      simp only [List.filter_cons, hqa']
      cases hp : p a with
      | true => simp [hp] at h; subst h; simp [hq] at hqa'
      | false => simp [hp] at h; exact ih h

theorem uniq_filter {α} {name : α → String} {l : List α} (u : UniqN name l) (q : α → Bool) : UniqN name (l.filter q) := by
  intro x hx
  have hm := List.mem_filter.mp hx
  exact find_filter_of_find l _ q x (u x hm.1) hm.2

/-! ### element-wise related lists in the same order -/

theorem forall2_flatMap {α β} {R : α → α → Prop} {m l' : List α} (h : F2 R m l') (f g : α → List β)
    (hfg : ∀ a b, a ∈ m → R a b → (f a).Perm (g b)) : (m.flatMap f).Perm (l'.flatMap g) := by
  induction h with
  | nil => exact List.Perm.refl _
  | cons hab _ ih =>
    simp only [List.flatMap_cons]
    exact (hfg _ _ List.mem_cons_self hab).append (ih fun a b ha r => hfg a b (List.mem_cons_of_mem _ ha) r)

theorem forall2_find {α} {R : α → α → Prop} {m l' : List α} (h : F2 R m l') (p q : α → Bool)
    (hpq : ∀ a b, R a b → p a = q b) : OptRel R (m.find? p) (l'.find? q) := by
  induction h with
  | nil => simp [OptRel]
  | @cons a b m' l'' hab _ ih =>
    simp only [List.find?_cons]
    rw [← hpq a b hab]
    cases hp : p a with
    | true => exact hab
    | false => exact ih

theorem forall2_filter {α} {R : α → α → Prop} {m l' : List α} (h : F2 R m l') (p q : α → Bool)
    (hpq : ∀ a b, a ∈ m → R a b → p a = q b) : F2 R (m.filter p) (l'.filter q) := by
  induction h with
  | nil => exact .nil
  | @cons a b m' l'' hab _ ih =>
    have ih' := ih fun x y hx r => hpq x y (List.mem_cons_of_mem _ hx) r
    simp only [List.filter_cons]
    rw [← hpq a b List.mem_cons_self hab]
    cases hp : p a with
    | true => exact .cons hab ih'
    | false => exact ih'

theorem forall2_filterMap {α β} {R : α → α → Prop} {S : β → β → Prop} {m l' : List α} (h : F2 R m l')
    (f g : α → Option β) (hfg : ∀ a b, a ∈ m → R a b → OptRel S (f a) (g b)) :
    F2 S (m.filterMap f) (l'.filterMap g) := by
  induction h with
  | nil => exact .nil
  | @cons a b m' l'' hab _ ih =>
    have ih' := ih fun x y hx r => hfg x y (List.mem_cons_of_mem _ hx) r
    have h0 := hfg a b List.mem_cons_self hab
    simp only [List.filterMap_cons]
    cases hfa : f a <;> cases hgb : g b <;> rw [hfa, hgb] at h0 <;> simp only [OptRel] at h0
    · exact ih'
    · exact .cons h0 ih'

/-! ### `ListEqv` -/

theorem ListEqv.mem_left {α} {R : α → α → Prop} {l l' m : List α} (hp : l.Perm m) {a : α} (ha : a ∈ m) : a ∈ l :=
  hp.mem_iff.mpr ha

theorem ListEqv.flatMap_perm {α β} {R : α → α → Prop} {l l' : List α} (h : ListEqv R l l') (f g : α → List β)
    (hfg : ∀ a b, a ∈ l → R a b → (f a).Perm (g b)) : (l.flatMap f).Perm (l'.flatMap g) := by
  obtain ⟨m, hp, h2⟩ := h
  exact (flatMap_perm_plain f hp).trans
    (forall2_flatMap h2 f g fun a b ha r => hfg a b (hp.mem_iff.mpr ha) r)

theorem ListEqv.map_perm {α β} {R : α → α → Prop} {l l' : List α} (h : ListEqv R l l') (f g : α → β)
    (hfg : ∀ a b, a ∈ l → R a b → f a = g b) : (l.map f).Perm (l'.map g) := by
  obtain ⟨m, hp, h2⟩ := h
  have e : m.map f = l'.map g := by
    have hfg' : ∀ a b, a ∈ m → R a b → f a = g b := fun a b ha r => hfg a b (hp.mem_iff.mpr ha) r
    clear hp hfg
    induction h2 with
    | nil => rfl
    | @cons a b m' l'' hab _ ih =>
      simp only [List.map_cons]
      rw [hfg' a b List.mem_cons_self hab, ih fun x y hx r => hfg' x y (List.mem_cons_of_mem _ hx) r]
  exact (hp.map f).trans (by rw [e])

theorem ListEqv.filter {α} {R : α → α → Prop} {l l' : List α} (h : ListEqv R l l') (p q : α → Bool)
    (hpq : ∀ a b, a ∈ l → R a b → p a = q b) : ListEqv R (l.filter p) (l'.filter q) := by
  obtain ⟨m, hp, h2⟩ := h
  exact ⟨m.filter p, hp.filter p, forall2_filter h2 p q fun a b ha r => hpq a b (hp.mem_iff.mpr ha) r⟩

theorem ListEqv.filterMap {α β} {R : α → α → Prop} {S : β → β → Prop} {l l' : List α} (h : ListEqv R l l')
    (f g : α → Option β) (hfg : ∀ a b, a ∈ l → R a b → OptRel S (f a) (g b)) :
    ListEqv S (l.filterMap f) (l'.filterMap g) := by
  obtain ⟨m, hp, h2⟩ := h
  exact ⟨m.filterMap f, hp.filterMap f, forall2_filterMap h2 f g fun a b ha r => hfg a b (hp.mem_iff.mpr ha) r⟩

/-- a `filterMap` whose results agree on related elements -/
theorem ListEqv.filterMap_perm {α β} {R : α → α → Prop} {l l' : List α} (h : ListEqv R l l')
    (f g : α → Option β) (hfg : ∀ a b, a ∈ l → R a b → f a = g b) : (l.filterMap f).Perm (l'.filterMap g) := by
  have := ListEqv.flatMap_perm h (fun a => (f a).toList) (fun b => (g b).toList)
    (fun a b ha r => by rw [hfg a b ha r])
  have e : ∀ (k : α → Option β) (xs : List α), xs.filterMap k = xs.flatMap fun a => (k a).toList := by
    intro k xs
    induction xs with
    | nil => rfl
    | cons x xs ih => cases hk : k x <;> simp [List.filterMap_cons, List.flatMap_cons, hk, ih]
  rw [e f l, e g l']; exact this

/-- look-up by name in related lists (names unique in the first) gives related results -/
theorem ListEqv.find {α} {R : α → α → Prop} {name : α → String} (hname : ∀ a b, R a b → name a = name b)
    {l l' : List α} (h : ListEqv R l l') (u : UniqN name l) (x : String) :
    OptRel R (l.find? fun y => name y == x) (l'.find? fun y => name y == x) := by
  obtain ⟨m, hp, h2⟩ := h
  rw [find_name_perm hp u x]
  exact forall2_find h2 _ _ fun a b r => by rw [hname a b r]

/-- whether the look-up fails is the same (no uniqueness needed) -/
theorem ListEqv.findNone {α} {R : α → α → Prop} {name : α → String} (hname : ∀ a b, R a b → name a = name b)
    {l l' : List α} (h : ListEqv R l l') (x : String) :
    (l.find? fun y => name y == x).isNone = (l'.find? fun y => name y == x).isNone := by
  obtain ⟨m, hp, h2⟩ := h
  rw [findNone_perm _ hp]
  have := forall2_find h2 (fun y => name y == x) (fun y => name y == x) fun a b r => by rw [hname a b r]
  cases h1 : m.find? (fun y => name y == x) <;> cases h3 : l'.find? (fun y => name y == x) <;>
    rw [h1, h3] at this <;> simp_all [OptRel]

theorem OptRel.isNone_eq {α β} {R : α → β → Prop} {x : Option α} {y : Option β} (h : OptRel R x y) : x.isNone = y.isNone := by
  cases x <;> cases y <;> simp_all [OptRel]

/-- pairwise distinct names: every element is the first one carrying its name -/
theorem nodup_uniq {α} {name : α → String} {l : List α} (h : (l.map name).Nodup) : UniqN name l := by
  induction l with
  | nil => intro x hx; cases hx
  | cons a l ih =>
    simp only [List.map_cons, List.nodup_cons] at h
    intro x hx
    rcases List.mem_cons.mp hx with rfl | hx
    · simp [List.find?_cons]
    · have hne : (name a == name x) = false := by
        have : name a ≠ name x := fun e => h.1 (e ▸ List.mem_map.mpr ⟨x, hx, rfl⟩)
        simpa using this
      simp only [List.find?_cons, hne]
      exact ih h.2 x hx

end PyGql.ListEqv

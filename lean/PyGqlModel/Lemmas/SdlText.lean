/-
  C12 at TEXT level — the connection between the schema printer's text (`SdlPrint.printSchema`, strings) and the
  language front end (`Lex.lexAll`, `Parse.parseDocument`, code points):
    * `docToAst`  — the tree (`Ast.Document`, no positions) that an SDL document of the C11/C12 model (`Sdl.Doc`) denotes;
      descriptions are block strings (the schema printer always writes `"""…"""`);
    * `parseSdlText` — `parse(text, allow_type_system=True, no_location=True)` on a `String`;
    * `printedDoc` — the document `to_string` denotes IN PRINTING ORDER (schema block, directive definitions sorted by
      name, type definitions sorted by name): `schemaToDoc` of the schema with its lists sorted as the printer sorts them.
-/
import PyGqlModel.SdlPrint
import PyGqlModel.ParseText
namespace PyGql.SdlText
open PyGql PyGql.Ast PyGql.Sdl PyGql.SdlPrint

def T (s : String) : Text := textOfString s
def nameOf (s : String) : Name := ⟨T s, none⟩
def namedOf (s : String) : NamedType := ⟨nameOf s, none⟩

def typeOf : Ty → TypeRef
  | .named n => .named (namedOf n)
  | .list t => .list (typeOf t) none
  | .nonNull t => .nonNull (typeOf t) none

mutual
/-- a constant literal; the `f` component (Python's `repr(float(text))`, used by `build` only) is not part of the tree -/
def valueOf : Lit → Value
  | .null => .null none
  | .int v _ => .int (T v) none
  | .float v _ => .float (T v) none
  | .str s => .string ⟨T s, false, none⟩
  | .bool b => .boolean b none
  | .enum s => .enum (T s) none
  | .list l => .list (valuesOf l) none
  | .obj fs => .object (fieldsOf fs) none
def valuesOf : List Lit → List Value
  | [] => []
  | v :: vs => valueOf v :: valuesOf vs
def fieldsOf : List (String × Lit) → List ObjectField
  | [] => []
  | (k, v) :: fs => .mk (nameOf k) (valueOf v) none :: fieldsOf fs
end

def argOf (a : String × Lit) : Argument := ⟨nameOf a.1, valueOf a.2, none⟩
def dirOf (d : DirApp) : Directive := ⟨nameOf d.name, d.args.map argOf, none⟩
/-- a description, as the schema printer writes it: a block string -/
def descOf (d : Option String) : Option StringValue := d.map fun x => ⟨T x, true, none⟩

def inputValOf (a : InputValDef) : InputValueDefinition :=
  ⟨descOf a.desc, nameOf a.name, typeOf a.type, a.default.map valueOf, a.dirs.map dirOf, none⟩
def fieldOf (f : FieldDef) : FieldDefinition :=
  ⟨descOf f.desc, nameOf f.name, f.args.map inputValOf, typeOf f.type, f.dirs.map dirOf, none⟩
def enumValOf (v : EnumValDef) : EnumValueDefinition := ⟨descOf v.desc, nameOf v.name, v.dirs.map dirOf, none⟩
def opTypeOf (o : String × String) : OperationTypeDefinition := ⟨T o.1, namedOf o.2, none⟩

def typeDefOf (t : TypeDef) : Definition :=
  match t.kind with
  | .scalar => .scalarTypeDefinition (descOf t.desc) (nameOf t.name) (t.dirs.map dirOf) none
  | .object => .objectTypeDefinition (descOf t.desc) (nameOf t.name) (t.interfaces.map namedOf) (t.dirs.map dirOf) (t.fields.map fieldOf) none
  | .interface => .interfaceTypeDefinition (descOf t.desc) (nameOf t.name) (t.dirs.map dirOf) (t.fields.map fieldOf) none
  | .union => .unionTypeDefinition (descOf t.desc) (nameOf t.name) (t.dirs.map dirOf) (t.members.map namedOf) none
  | .enum => .enumTypeDefinition (descOf t.desc) (nameOf t.name) (t.dirs.map dirOf) (t.values.map enumValOf) none
  | .input => .inputObjectTypeDefinition (descOf t.desc) (nameOf t.name) (t.dirs.map dirOf) (t.inputFields.map inputValOf) none

def typeExtOf (t : TypeDef) : Definition :=
  match t.kind with
  | .scalar => .scalarTypeExtension (nameOf t.name) (t.dirs.map dirOf) none
  | .object => .objectTypeExtension (nameOf t.name) (t.interfaces.map namedOf) (t.dirs.map dirOf) (t.fields.map fieldOf) none
  | .interface => .interfaceTypeExtension (nameOf t.name) (t.dirs.map dirOf) (t.fields.map fieldOf) none
  | .union => .unionTypeExtension (nameOf t.name) (t.dirs.map dirOf) (t.members.map namedOf) none
  | .enum => .enumTypeExtension (nameOf t.name) (t.dirs.map dirOf) (t.values.map enumValOf) none
  | .input => .inputObjectTypeExtension (nameOf t.name) (t.dirs.map dirOf) (t.inputFields.map inputValOf) none

def defOf : Def → Option Definition
  | .type t => some (typeDefOf t)
  | .ext t => some (typeExtOf t)
  | .directive d => some (.directiveDefinition (descOf d.desc) (nameOf d.name) (d.args.map inputValOf) (d.locations.map nameOf) none)
  | .schema s => some (.schemaDefinition (s.dirs.map dirOf) (s.ops.map opTypeOf) none)
  | .schemaExt s => some (.schemaExtension (s.dirs.map dirOf) (s.ops.map opTypeOf) none)
  | .other => none

/-- the location-free tree an SDL document denotes (`none`: the document contains an executable definition) -/
def docToAst (doc : Doc) : Option Document := (doc.mapM defOf).map fun ds => ⟨ds, none⟩

/-- `parse(text, allow_type_system=True, no_location=True)` -/
def parseSdlText (text : String) : Option Document :=
  Parse.parseText { noLocation := true, allowTypeSystem := true } (T text)

/-- the document `to_string` denotes, in the order the printer writes it -/
def printedDoc (s : SchemaD) : Doc :=
  schemaToDoc { s with directives := sortBy (·.name) s.directives, types := sortBy (·.name) s.types }

end PyGql.SdlText

/-
  C14 — ownership / separation invariant for the object heap.

  `Inv n h`: the heap has at least `n` objects and every object at an address `≥ n` owns (through its
  `fields` / `arguments` lists) only objects at addresses `≥ n`. `Pres n h h'`: `h'` still satisfies `Inv n`
  and no object below `n` was written. Every visitor hook keeps `Pres` when it is started on an address `≥ n`.
-/
import PyGqlModel.Heap

set_option linter.unusedSimpArgs false
set_option linter.unusedVariables false

namespace PyGql.Heap.Own
open PyGql.Heap

theorem read_alloc_old (h : Heap) (o : Obj) (a : Addr) (ha : a < h.size) : (h.alloc o).1.read a = h.read a := by
  simp only [Heap.alloc, Heap.read, Heap.size] at *
  exact List.getElem?_append_left ha

theorem read_alloc_new (h : Heap) (o : Obj) : (h.alloc o).1.read h.size = some o := by
  simp [Heap.alloc, Heap.read, Heap.size]

theorem read_alloc_lt (h : Heap) (o : Obj) (a : Addr) (o' : Obj) (hr : (h.alloc o).1.read a = some o') :
    a < h.size ∨ (a = h.size ∧ o' = o) := by
  simp only [Heap.alloc, Heap.read, Heap.size] at *
  by_cases ha : a < h.objs.length
  · exact Or.inl ha
  · right
    obtain ⟨hlen, _⟩ := List.getElem?_eq_some_iff.mp hr
    have hlen' : a < h.objs.length + 1 := by simpa using hlen
    have : a = h.objs.length := Nat.le_antisymm (Nat.le_of_lt_succ hlen') (Nat.le_of_not_lt ha)
    subst this
    simp at hr
    exact ⟨rfl, hr.symm⟩

theorem size_alloc (h : Heap) (o : Obj) : (h.alloc o).1.size = h.size + 1 := by simp [Heap.alloc, Heap.size]
theorem alloc_addr (h : Heap) (o : Obj) : (h.alloc o).2 = h.size := rfl
theorem size_write (h : Heap) (a : Addr) (o : Obj) : (h.write a o).size = h.size := by simp [Heap.write, Heap.size]

theorem read_write_other (h : Heap) (a b : Addr) (o : Obj) (hne : a ≠ b) : (h.write a o).read b = h.read b := by
  simp only [Heap.write, Heap.read]
  exact List.getElem?_set_ne hne

theorem read_write (h : Heap) (a b : Addr) (o o' : Obj) (hr : (h.write a o).read b = some o') :
    (b = a ∧ o' = o) ∨ (b ≠ a ∧ h.read b = some o') := by
  by_cases hb : a = b
  · subst hb
    left
    simp only [Heap.write, Heap.read] at hr
    rw [List.getElem?_set] at hr
    split at hr
    · split at hr
      · exact ⟨rfl, by cases hr; rfl⟩
      · cases hr
    · exact absurd rfl ‹_›
  · right
    rw [read_write_other h a b o hb] at hr
    exact ⟨fun e => hb e.symm, hr⟩

theorem read_lt (h : Heap) (a : Addr) (o : Obj) (hr : h.read a = some o) : a < h.size := by
  simp only [Heap.read, Heap.size] at *
  exact (List.getElem?_eq_some_iff.mp hr).1

/-! ### the invariant -/

def Inv (n : Nat) (h : Heap) : Prop :=
  n ≤ h.size ∧ ∀ a o, n ≤ a → h.read a = some o → ∀ c, c ∈ kids o → n ≤ c

def Pres (n : Nat) (h h' : Heap) : Prop :=
  Inv n h' ∧ h.size ≤ h'.size ∧ ∀ x, x < n → h'.read x = h.read x

theorem Pres.refl {n : Nat} {h : Heap} (i : Inv n h) : Pres n h h := ⟨i, Nat.le_refl _, fun _ _ => rfl⟩

theorem Pres.trans {n : Nat} {h1 h2 h3 : Heap} (a : Pres n h1 h2) (b : Pres n h2 h3) : Pres n h1 h3 :=
  ⟨b.1, Nat.le_trans a.2.1 b.2.1, fun x hx => by rw [b.2.2 x hx, a.2.2 x hx]⟩

theorem pres_alloc {n : Nat} {h : Heap} (i : Inv n h) (o : Obj) (ho : ∀ c, c ∈ kids o → n ≤ c) :
    Pres n h (h.alloc o).1 ∧ n ≤ (h.alloc o).2 := by
  refine ⟨⟨⟨?_, ?_⟩, ?_, ?_⟩, ?_⟩
  · rw [size_alloc]; have := i.1; omega
  · intro a o' ha hr c hc
    rcases read_alloc_lt h o a o' hr with hlt | ⟨_, rfl⟩
    · rw [read_alloc_old h o a hlt] at hr
      exact i.2 a o' ha hr c hc
    · exact ho c hc
  · rw [size_alloc]; omega
  · intro x hx
    exact read_alloc_old h o x (Nat.lt_of_lt_of_le hx i.1)
  · rw [alloc_addr]; exact i.1

theorem pres_write {n : Nat} {h : Heap} (i : Inv n h) (a : Addr) (o : Obj) (ha : n ≤ a) (ho : ∀ c, c ∈ kids o → n ≤ c) :
    Pres n h (h.write a o) := by
  refine ⟨⟨?_, ?_⟩, ?_, ?_⟩
  · rw [size_write]; exact i.1
  · intro b o' hb hr c hc
    rcases read_write h a b o o' hr with ⟨_, rfl⟩ | ⟨_, hr'⟩
    · exact ho c hc
    · exact i.2 b o' hb hr' c hc
  · rw [size_write]; exact Nat.le_refl _
  · intro x hx
    exact read_write_other h a x o (Nat.ne_of_gt (Nat.lt_of_lt_of_le hx ha))

theorem kids_arg {n : Nat} {h : Heap} (i : Inv n h) {a : Addr} (ha : n ≤ a) {g : ArgO} (hr : h.readArg a = some g) : True := trivial

theorem readArg_read {h : Heap} {a : Addr} {g : ArgO} (hr : h.readArg a = some g) : h.read a = some (.arg g) := by
  simp only [Heap.readArg] at hr
  split at hr <;> simp_all

theorem readField_read {h : Heap} {a : Addr} {g : FieldO} (hr : h.readField a = some g) : h.read a = some (.field g) := by
  simp only [Heap.readField] at hr
  split at hr <;> simp_all

theorem readType_read {h : Heap} {a : Addr} {g : TypeO} (hr : h.readType a = some g) : h.read a = some (.type g) := by
  simp only [Heap.readType] at hr
  split at hr <;> simp_all

theorem readDir_read {h : Heap} {a : Addr} {g : DirO} (hr : h.readDir a = some g) : h.read a = some (.dir g) := by
  simp only [Heap.readDir] at hr
  split at hr <;> simp_all

theorem field_args_fresh {n : Nat} {h : Heap} (i : Inv n h) {a : Addr} (ha : n ≤ a) {f : FieldO} (hr : h.readField a = some f) :
    ∀ c, c ∈ f.args → n ≤ c := fun c hc => i.2 a _ ha (readField_read hr) c (by simpa [kids] using hc)

theorem type_fields_fresh {n : Nat} {h : Heap} (i : Inv n h) {a : Addr} (ha : n ≤ a) {t : TypeO} (hr : h.readType a = some t) :
    ∀ c, c ∈ t.fields → n ≤ c := fun c hc => i.2 a _ ha (readType_read hr) c (by simpa [kids] using hc)

theorem dir_args_fresh {n : Nat} {h : Heap} (i : Inv n h) {a : Addr} (ha : n ≤ a) {d : DirO} (hr : h.readDir a = some d) :
    ∀ c, c ∈ d.args → n ≤ c := fun c hc => i.2 a _ ha (readDir_read hr) c (by simpa [kids] using hc)

/-- what a visitor hook guarantees when started on an owned address -/
def HookOK (n : Nat) (f : Heap → Addr → Heap × Option Addr) : Prop :=
  ∀ h a, Inv n h → n ≤ a → Pres n h (f h a).1 ∧ ∀ a', (f h a).2 = some a' → n ≤ a'

theorem mapFilter_ok {n : Nat} {f : Heap → Addr → Heap × Option Addr} (hf : HookOK n f) :
    ∀ (as : List Addr) (h : Heap), Inv n h → (∀ c, c ∈ as → n ≤ c) →
      Pres n h (mapFilter f h as).1 ∧ ∀ c, c ∈ (mapFilter f h as).2 → n ≤ c := by
  intro as
  induction as with
  | nil => intro h i _; exact ⟨Pres.refl i, by simp [mapFilter]⟩
  | cons a as ih =>
    intro h i has
    simp only [mapFilter]
    obtain ⟨p1, r1⟩ := hf h a i (has a (by simp))
    obtain ⟨p2, r2⟩ := ih (f h a).1 p1.1 (fun c hc => has c (by simp [hc]))
    refine ⟨p1.trans p2, ?_⟩
    intro c hc
    split at hc
    · rename_i x hx
      simp only [List.mem_cons] at hc
      rcases hc with rfl | hc
      · exact r1 _ hx
      · exact r2 c hc
    · exact r2 c hc

/-! ### hooks -/

theorem onArgument_ok (n : Nat) (v : Visitor) (reg : List (String × Addr)) : HookOK n (onArgument v reg) := by
  intro h a i ha
  simp only [onArgument]
  split
  · exact ⟨Pres.refl i, fun a' e => by cases e; exact ha⟩
  · rename_i g hg
    cases v with
    | camel ren =>
      obtain ⟨p, q⟩ := pres_alloc i (.arg { g with name := ren g.name }) (by simp [kids])
      exact ⟨p, fun a' e => by cases e; exact q⟩
    | heal =>
      simp only
      split
      · exact ⟨Pres.refl i, fun a' e => by cases e⟩
      · exact ⟨pres_write i a _ ha (by simp [kids]), fun a' e => by cases e; exact ha⟩
    | vis p => exact ⟨Pres.refl i, fun a' e => by cases e; exact ha⟩
    | sdir d w => exact ⟨Pres.refl i, fun a' e => by cases e; exact ha⟩

theorem onInputField_ok (n : Nat) (v : Visitor) (reg : List (String × Addr)) : HookOK n (onInputField v reg) := by
  intro h a i ha
  simp only [onInputField]
  split
  · exact ⟨Pres.refl i, fun a' e => by cases e; exact ha⟩
  · rename_i g hg
    cases v with
    | camel ren =>
      obtain ⟨p, q⟩ := pres_alloc i (.arg { g with name := ren g.name }) (by simp [kids])
      exact ⟨p, fun a' e => by cases e; exact q⟩
    | heal =>
      simp only
      split
      · exact ⟨Pres.refl i, fun a' e => by cases e⟩
      · exact ⟨pres_write i a _ ha (by simp [kids]), fun a' e => by cases e; exact ha⟩
    | vis p =>
      simp only
      split
      · exact ⟨Pres.refl i, fun a' e => by cases e; exact ha⟩
      · exact ⟨Pres.refl i, fun a' e => by cases e⟩
    | sdir d w => exact ⟨Pres.refl i, fun a' e => by cases e; exact ha⟩

theorem onFieldBase_ok (n : Nat) (v : Visitor) (reg : List (String × Addr)) (h : Heap) (a : Addr) (f : FieldO)
    (i : Inv n h) (ha : n ≤ a) (hf : ∀ c, c ∈ f.args → n ≤ c) :
    Pres n h (onFieldBase v reg h a f).1 ∧ n ≤ (onFieldBase v reg h a f).2 := by
  simp only [onFieldBase]
  obtain ⟨p, q⟩ := mapFilter_ok (onArgument_ok n v reg) f.args h i hf
  split
  · obtain ⟨p2, q2⟩ := pres_alloc p.1 (.field { f with args := (mapFilter (onArgument v reg) h f.args).2 }) (by simpa [kids] using q)
    exact ⟨p.trans p2, q2⟩
  · exact ⟨p, ha⟩

theorem healFieldType_ok (n : Nat) (reg : List (String × Addr)) : HookOK n (healFieldType reg) := by
  intro h a i ha
  simp only [healFieldType]
  split
  · exact ⟨Pres.refl i, fun a' e => by cases e; exact ha⟩
  · rename_i f hf
    split
    · exact ⟨Pres.refl i, fun a' e => by cases e⟩
    · exact ⟨pres_write i a _ ha (by simpa [kids] using field_args_fresh i ha hf), fun a' e => by cases e; exact ha⟩

theorem onField_ok (n : Nat) (v : Visitor) (reg : List (String × Addr)) (tn : String) : HookOK n (onField v reg tn) := by
  intro h a i ha
  simp only [onField]
  split
  · exact ⟨Pres.refl i, fun a' e => by cases e; exact ha⟩
  · rename_i f hf
    have hargs := field_args_fresh i ha hf
    cases v with
    | camel ren =>
      simp only
      obtain ⟨p, q⟩ := pres_alloc i (.field { f with name := ren f.name }) (by simpa [kids] using hargs)
      obtain ⟨p2, q2⟩ := onFieldBase_ok n (.camel ren) reg _ _ { f with name := ren f.name } p.1 q hargs
      exact ⟨p.trans p2, fun a' e => by cases e; exact q2⟩
    | sdir d w =>
      simp only
      split
      · exact ⟨Pres.refl i, fun a' e => by cases e⟩
      · split
        · rename_i id _
          obtain ⟨p, q⟩ := pres_alloc i (.field { f with res := some id }) (by simpa [kids] using hargs)
          obtain ⟨p2, q2⟩ := onFieldBase_ok n (.sdir d w) reg _ _ { f with res := some id } p.1 q hargs
          exact ⟨p.trans p2, fun a' e => by cases e; exact q2⟩
        · obtain ⟨p2, q2⟩ := onFieldBase_ok n (.sdir d w) reg h a f i ha hargs
          exact ⟨p2, fun a' e => by cases e; exact q2⟩
    | heal =>
      simp only
      obtain ⟨p2, q2⟩ := onFieldBase_ok n .heal reg h a f i ha hargs
      obtain ⟨p3, q3⟩ := healFieldType_ok n reg _ _ p2.1 q2
      exact ⟨p2.trans p3, q3⟩
    | vis p =>
      simp only
      obtain ⟨p2, q2⟩ := onFieldBase_ok n (.vis p) reg h a f i ha hargs
      exact ⟨p2, fun a' e => by cases e; exact q2⟩


theorem filter_fresh {n : Nat} {l : List Addr} (p : Addr → Bool) (hl : ∀ c, c ∈ l → n ≤ c) : ∀ c, c ∈ l.filter p → n ≤ c :=
  fun c hc => hl c (List.mem_filter.mp hc).1

theorem rebuilt_ok {n : Nat} {h h1 : Heap} (p : Pres n h h1) (a : Addr) (ha : n ≤ a) (t : TypeO) (fs old : List Addr)
    (hfs : ∀ c, c ∈ fs → n ≤ c) :
    Pres n h (if fs != old then h1.alloc (.type { t with fields := fs }) else (h1, a)).1 ∧
      n ≤ (if fs != old then h1.alloc (.type { t with fields := fs }) else (h1, a)).2 := by
  split
  · obtain ⟨p2, q2⟩ := pres_alloc p.1 (.type { t with fields := fs }) (by simpa [kids] using hfs)
    exact ⟨p.trans p2, q2⟩
  · exact ⟨p, ha⟩

theorem compositeRest_ok (n : Nat) (v : Visitor) (reg : List (String × Addr)) (a : Addr) (h : Heap) (t : TypeO)
    (i : Inv n h) (ha : n ≤ a) (ht : ∀ c, c ∈ t.fields → n ≤ c) :
    Pres n h (compositeRest v reg a h t).1 ∧ ∀ a', (compositeRest v reg a h t).2 = some a' → n ≤ a' := by
  simp only [compositeRest, rebuiltOrSame]
  obtain ⟨p, q⟩ := mapFilter_ok (onField_ok n v reg t.name) t.fields h i ht
  obtain ⟨pu, qu⟩ := rebuilt_ok p a ha t _ t.fields q
  cases v with
  | heal =>
    simp only
    split
    · split
      · rename_i tu htu
        refine ⟨pu.trans (pres_write pu.1 _ _ qu ?_), fun a' e => by cases e; exact qu⟩
        simpa [kids] using type_fields_fresh pu.1 qu htu
      · exact ⟨pu, fun a' e => by cases e; exact qu⟩
    · exact ⟨pu, fun a' e => by cases e; exact qu⟩
  | vis p => exact ⟨pu, fun a' e => by cases e; exact qu⟩
  | camel r => exact ⟨pu, fun a' e => by cases e; exact qu⟩
  | sdir d w => exact ⟨pu, fun a' e => by cases e; exact qu⟩

/-- `on_object` / `on_interface`, started on an owned type object -/
theorem onComposite_ok (n : Nat) (v : Visitor) (reg : List (String × Addr)) (h : Heap) (a : Addr) (t : TypeO)
    (i : Inv n h) (ha : n ≤ a) (ht : ∀ c, c ∈ t.fields → n ≤ c) :
    Pres n h (onComposite v reg h a t).1 ∧ ∀ a', (onComposite v reg h a t).2 = some a' → n ≤ a' := by
  simp only [onComposite]
  cases v with
  | vis p =>
    simp only
    split
    · exact ⟨Pres.refl i, fun a' e => by cases e⟩
    · split
      · have pw := pres_write i a (.type { t with fields := t.fields.filter fun fa => match fieldName h fa with | some fnm => p.fieldVis t.name fnm | none => true })
          ha (by simpa [kids] using filter_fresh _ ht)
        obtain ⟨p2, q2⟩ := compositeRest_ok n (.vis p) reg a _ { t with fields := t.fields.filter fun fa => match fieldName h fa with | some fnm => p.fieldVis t.name fnm | none => true }
          pw.1 ha (by simpa using filter_fresh _ ht)
        exact ⟨pw.trans p2, q2⟩
      · exact compositeRest_ok n _ reg a h t i ha ht
  | heal => exact compositeRest_ok n _ reg a h t i ha ht
  | camel r => exact compositeRest_ok n _ reg a h t i ha ht
  | sdir d w => exact compositeRest_ok n _ reg a h t i ha ht

theorem inputRest_ok (n : Nat) (v : Visitor) (reg : List (String × Addr)) (a : Addr) (nm : String) (h : Heap) (t : TypeO)
    (i : Inv n h) (ha : n ≤ a) (ht : ∀ c, c ∈ t.fields → n ≤ c) :
    Pres n h (inputRest v reg a nm h t).1 ∧ ∀ a', (inputRest v reg a nm h t).2 = some a' → n ≤ a' := by
  simp only [inputRest, rebuiltOrSame]
  obtain ⟨p, q⟩ := mapFilter_ok (onInputField_ok n v reg) t.fields h i ht
  obtain ⟨pu, qu⟩ := rebuilt_ok p a ha t _ t.fields q
  cases v with
  | vis p =>
    simp only
    split
    · exact ⟨pu, fun a' e => by cases e; exact qu⟩
    · exact ⟨pu, fun a' e => by cases e⟩
  | heal => exact ⟨pu, fun a' e => by cases e; exact qu⟩
  | camel r => exact ⟨pu, fun a' e => by cases e; exact qu⟩
  | sdir d w => exact ⟨pu, fun a' e => by cases e; exact qu⟩

theorem onInputObject_ok (n : Nat) (v : Visitor) (reg : List (String × Addr)) (h : Heap) (a : Addr) (t : TypeO)
    (i : Inv n h) (ha : n ≤ a) (ht : ∀ c, c ∈ t.fields → n ≤ c) :
    Pres n h (onInputObject v reg h a t).1 ∧ ∀ a', (onInputObject v reg h a t).2 = some a' → n ≤ a' := by
  simp only [onInputObject]
  cases v with
  | vis p =>
    simp only
    split
    · have pw := pres_write i a (.type { t with fields := t.fields.filter fun fa => match argName h fa with | some fnm => p.inputVis t.name fnm | none => true })
        ha (by simpa [kids] using filter_fresh _ ht)
      obtain ⟨p2, q2⟩ := inputRest_ok n (.vis p) reg a t.name _ { t with fields := t.fields.filter fun fa => match argName h fa with | some fnm => p.inputVis t.name fnm | none => true }
        pw.1 ha (by simpa using filter_fresh _ ht)
      exact ⟨pw.trans p2, q2⟩
    · exact inputRest_ok n _ reg a t.name h t i ha ht
  | heal => exact inputRest_ok n _ reg a t.name h t i ha ht
  | camel r => exact inputRest_ok n _ reg a t.name h t i ha ht
  | sdir d w => exact inputRest_ok n _ reg a t.name h t i ha ht

theorem onUnion_ok (n : Nat) (v : Visitor) (reg : List (String × Addr)) (h : Heap) (a : Addr) (t : TypeO)
    (i : Inv n h) (ha : n ≤ a) (ht : ∀ c, c ∈ t.fields → n ≤ c) :
    Pres n h (onUnion v reg h a t).1 ∧ ∀ a', (onUnion v reg h a t).2 = some a' → n ≤ a' := by
  simp only [onUnion]
  cases v with
  | heal => exact ⟨pres_write i a _ ha (by simpa [kids] using ht), fun a' e => by cases e; exact ha⟩
  | vis p =>
    simp only
    split
    · exact ⟨Pres.refl i, fun a' e => by cases e; exact ha⟩
    · exact ⟨Pres.refl i, fun a' e => by cases e⟩
  | camel r => exact ⟨Pres.refl i, fun a' e => by cases e; exact ha⟩
  | sdir d w => exact ⟨Pres.refl i, fun a' e => by cases e; exact ha⟩

theorem onLeaf_ok (n : Nat) (v : Visitor) (h : Heap) (a : Addr) (t : TypeO) (i : Inv n h) (ha : n ≤ a) :
    Pres n h (onLeaf v h a t).1 ∧ ∀ a', (onLeaf v h a t).2 = some a' → n ≤ a' := by
  simp only [onLeaf]
  cases v with
  | vis p =>
    simp only
    split
    · exact ⟨Pres.refl i, fun a' e => by cases e; exact ha⟩
    · exact ⟨Pres.refl i, fun a' e => by cases e⟩
  | heal => exact ⟨Pres.refl i, fun a' e => by cases e; exact ha⟩
  | camel r => exact ⟨Pres.refl i, fun a' e => by cases e; exact ha⟩
  | sdir d w => exact ⟨Pres.refl i, fun a' e => by cases e; exact ha⟩

theorem onType_ok (n : Nat) (v : Visitor) (reg : List (String × Addr)) : HookOK n (onType v reg) := by
  intro h a i ha
  simp only [onType]
  split
  · exact ⟨Pres.refl i, fun a' e => by cases e; exact ha⟩
  · rename_i t ht
    have hf := type_fields_fresh i ha ht
    split
    · exact onComposite_ok n v reg h a t i ha hf
    · exact onComposite_ok n v reg h a t i ha hf
    · exact onInputObject_ok n v reg h a t i ha hf
    · exact onUnion_ok n v reg h a t i ha hf
    · exact onLeaf_ok n v h a t i ha
    · exact onLeaf_ok n v h a t i ha

theorem onDirective_ok (n : Nat) (v : Visitor) (reg : List (String × Addr)) : HookOK n (onDirective v reg) := by
  intro h a i ha
  simp only [onDirective]
  split
  · exact ⟨Pres.refl i, fun a' e => by cases e; exact ha⟩
  · rename_i d hd
    split
    · exact ⟨Pres.refl i, fun a' e => by cases e⟩
    · obtain ⟨p, q⟩ := mapFilter_ok (onArgument_ok n v reg) d.args h i (dir_args_fresh i ha hd)
      split
      · obtain ⟨p2, q2⟩ := pres_alloc p.1 (.dir { d with args := (mapFilter (onArgument v reg) h d.args).2 }) (by simpa [kids] using q)
        exact ⟨p.trans p2, fun a' e => by cases e; exact q2⟩
      · exact ⟨p, fun a' e => by cases e; exact ha⟩


/-! ### schema level -/

def TypesFresh (n : Nat) (reg : List (String × Addr)) : Prop := ∀ e, e ∈ reg → isProtected e.1 = true ∨ n ≤ e.2
def DirsFresh (n : Nat) (reg : List (String × Addr)) : Prop := ∀ e, e ∈ reg → n ≤ e.2
def ValsFresh (n : Nat) (ut : List (String × Option Addr)) : Prop := ∀ e, e ∈ ut → ∀ a', e.2 = some a' → n ≤ a'
/-- the schema owns its (non-protected) type and directive objects: all of them live at addresses `≥ n` -/
def RegFresh (n : Nat) (s : Schema) : Prop := TypesFresh n s.types ∧ DirsFresh n s.dirs

theorem visitTypes_ok (n : Nat) (v : Visitor) (reg : List (String × Addr)) :
    ∀ (l : List (String × Addr)) (h : Heap), Inv n h → TypesFresh n l →
      Pres n h (visitTypes v reg h l).1 ∧ ValsFresh n (visitTypes v reg h l).2 := by
  intro l
  induction l with
  | nil => intro h i _; exact ⟨Pres.refl i, by simp [visitTypes, ValsFresh]⟩
  | cons e rest ih =>
    intro h i hl
    obtain ⟨nm, a⟩ := e
    have hrest : TypesFresh n rest := fun e he => hl e (by simp [he])
    simp only [visitTypes]
    split
    · exact ih h i hrest
    · rename_i hp
      have ha : n ≤ a := by
        rcases hl (nm, a) (by simp) with h1 | h1
        · simp at h1; simp [h1] at hp
        · exact h1
      obtain ⟨p1, q1⟩ := onType_ok n v reg h a i ha
      obtain ⟨p2, q2⟩ := ih _ p1.1 hrest
      refine ⟨p1.trans p2, ?_⟩
      split
      · intro e he a' ea
        simp only [List.mem_cons] at he
        rcases he with rfl | he
        · exact q1 a' ea
        · exact q2 e he a' ea
      · exact q2

theorem visitDirs_ok (n : Nat) (v : Visitor) (reg : List (String × Addr)) :
    ∀ (l : List (String × Addr)) (h : Heap), Inv n h → DirsFresh n l →
      Pres n h (visitDirs v reg h l).1 ∧ ValsFresh n (visitDirs v reg h l).2 := by
  intro l
  induction l with
  | nil => intro h i _; exact ⟨Pres.refl i, by simp [visitDirs, ValsFresh]⟩
  | cons e rest ih =>
    intro h i hl
    obtain ⟨nm, a⟩ := e
    have hrest : DirsFresh n rest := fun e he => hl e (by simp [he])
    simp only [visitDirs]
    obtain ⟨p1, q1⟩ := onDirective_ok n v reg h a i (hl (nm, a) (by simp))
    obtain ⟨p2, q2⟩ := ih _ p1.1 hrest
    refine ⟨p1.trans p2, ?_⟩
    split
    · intro e he a' ea
      simp only [List.mem_cons] at he
      rcases he with rfl | he
      · exact q1 a' ea
      · exact q2 e he a' ea
    · exact q2

theorem mem_regSet {reg : List (String × Addr)} {nm : String} {a : Addr} {e : String × Addr} (he : e ∈ regSet reg nm a) :
    e = (nm, a) ∨ (e ∈ reg ∧ (e.1 == nm) = false) := by
  simp only [regSet] at he
  split at he
  · simp only [List.mem_map] at he
    obtain ⟨e0, he0, rfl⟩ := he
    by_cases hq : (e0.1 == nm) = true
    · simp [hq]
    · simp only [Bool.not_eq_true] at hq
      simp [hq, he0]
  · simp only [List.mem_append, List.mem_singleton] at he
    rcases he with he | he
    · right
      refine ⟨he, ?_⟩
      rename_i hn
      simp only [lookup, Option.isSome_map, Bool.not_eq_true, Option.isSome_eq_false_iff, Option.isNone_iff_eq_none,
        List.find?_eq_none] at hn
      simpa using hn e he
    · exact Or.inl he

theorem mem_regErase {reg : List (String × Addr)} {nm : String} {e : String × Addr} (he : e ∈ regErase reg nm) : e ∈ reg :=
  (List.mem_filter.mp he).1

theorem lookup_none_ne {reg : List (String × Addr)} {nm : String} (hl : lookup reg nm = none) :
    ∀ e, e ∈ reg → (e.1 == nm) = false := by
  intro e he
  simp only [lookup, Option.map_eq_none_iff, List.find?_eq_none] at hl
  simpa using hl e he

/-- after `_replace_types_and_directives`' loop every entry is protected, owned, or was owned already;
    names still to be replaced (`ut`) end up owned -/
theorem replaceTypes_cover (n : Nat) (cfg : Cfg) :
    ∀ (ut : List (String × Option Addr)) (reg : List (String × Addr)) (b : Bool), ValsFresh n ut →
      (∀ e, e ∈ reg → isProtected e.1 = true ∨ n ≤ e.2 ∨ (e.1 ∈ ut.map (·.1) ∧ ∀ x, x ∈ ut → x.1 = e.1 → x.2 ≠ none)) →
      TypesFresh n (replaceTypes cfg reg b ut).1 := by
  intro ut
  induction ut with
  | nil =>
    intro reg b _ hreg e he
    rcases hreg e he with h1 | h1 | h1
    · exact Or.inl h1
    · exact Or.inr h1
    · simp at h1
  | cons x rest ih =>
    intro reg b hv hreg
    obtain ⟨nm, new⟩ := x
    have hvr : ValsFresh n rest := fun e he => hv e (by simp [he])
    simp only [replaceTypes]
    split
    · rename_i hl
      apply ih reg b hvr
      intro e he
      rcases hreg e he with h1 | h1 | ⟨h1, h2⟩
      · exact Or.inl h1
      · exact Or.inr (Or.inl h1)
      · right; right
        have hne := lookup_none_ne hl e he
        simp only [List.map_cons, List.mem_cons] at h1
        rcases h1 with h1 | h1
        · simp [h1] at hne
        · exact ⟨h1, fun x hx => h2 x (by simp [hx])⟩
    · rename_i orig hl
      cases new with
      | none =>
        apply ih _ _ hvr
        intro e he
        have he0 := mem_regErase he
        have hne : (e.1 != nm) = true := (List.mem_filter.mp he).2
        rcases hreg e he0 with h1 | h1 | ⟨h1, h2⟩
        · exact Or.inl h1
        · exact Or.inr (Or.inl h1)
        · right; right
          simp only [List.map_cons, List.mem_cons] at h1
          rcases h1 with h1 | h1
          · simp [h1] at hne
          · exact ⟨h1, fun x hx => h2 x (by simp [hx])⟩
      | some a' =>
        apply ih _ _ hvr
        intro e he
        rcases mem_regSet he with rfl | ⟨he0, hne⟩
        · exact Or.inr (Or.inl (hv (nm, some a') (by simp) a' rfl))
        · rcases hreg e he0 with h1 | h1 | ⟨h1, h2⟩
          · exact Or.inl h1
          · exact Or.inr (Or.inl h1)
          · right; right
            simp only [List.map_cons, List.mem_cons] at h1
            rcases h1 with h1 | h1
            · simp [h1] at hne
            · exact ⟨h1, fun x hx => h2 x (by simp [hx])⟩

theorem replaceTypes_fresh (n : Nat) (cfg : Cfg) (ut : List (String × Option Addr)) (reg : List (String × Addr)) (b : Bool)
    (hv : ValsFresh n ut) (hreg : TypesFresh n reg) : TypesFresh n (replaceTypes cfg reg b ut).1 :=
  replaceTypes_cover n cfg ut reg b hv (fun e he => by
    rcases hreg e he with h1 | h1
    · exact Or.inl h1
    · exact Or.inr (Or.inl h1))

theorem replaceDirs_fresh (n : Nat) : ∀ (ud : List (String × Option Addr)) (reg : List (String × Addr)),
    ValsFresh n ud → DirsFresh n reg → DirsFresh n (replaceDirs reg ud) := by
  intro ud
  induction ud with
  | nil => intro reg _ hr; simpa [replaceDirs] using hr
  | cons x rest ih =>
    intro reg hv hr
    obtain ⟨nm, new⟩ := x
    have hvr : ValsFresh n rest := fun e he => hv e (by simp [he])
    cases new with
    | none =>
      simp only [replaceDirs]
      exact ih _ hvr (fun e he => hr e (mem_regErase he))
    | some a' =>
      simp only [replaceDirs]
      apply ih _ hvr
      intro e he
      rcases mem_regSet he with rfl | ⟨he0, _⟩
      · exact hv (nm, some a') (by simp) a' rfl
      · exact hr e he0

theorem replaceCore_fresh (n : Nat) (cfg : Cfg) (s : Schema) (ut ud : List (String × Option Addr))
    (hs : RegFresh n s) (hut : ValsFresh n ut) (hud : ValsFresh n ud) : RegFresh n (replaceCore cfg s ut ud).1 := by
  simp only [replaceCore, RegFresh]
  exact ⟨replaceTypes_fresh n cfg ut s.types false hut hs.1, replaceDirs_fresh n ud s.dirs hud hs.2⟩

theorem visitAll_ok (n : Nat) (v : Visitor) (s : Schema) (h : Heap) (i : Inv n h) (hs : RegFresh n s) :
    Pres n h (visitAll v s h).1 ∧ ValsFresh n (visitAll v s h).2.1 ∧ ValsFresh n (visitAll v s h).2.2 := by
  simp only [visitAll]
  obtain ⟨p1, q1⟩ := visitTypes_ok n v s.types s.types h i hs.1
  obtain ⟨p2, q2⟩ := visitDirs_ok n v s.types s.dirs _ p1.1 hs.2
  exact ⟨p1.trans p2, q1, q2⟩

theorem healLoop_ok (n : Nat) (cfg : Cfg) : ∀ (fuel : Nat) (s : Schema) (h : Heap) (h' : Heap) (s' : Schema),
    Inv n h → RegFresh n s → healLoop cfg fuel s h = some (h', s') → Pres n h h' ∧ RegFresh n s' := by
  intro fuel
  induction fuel with
  | zero => intro s h h' s' _ _ e; simp [healLoop] at e
  | succ fuel ih =>
    intro s h h' s' i hs e
    simp only [healLoop] at e
    obtain ⟨p, q1, q2⟩ := visitAll_ok n .heal s h i hs
    have hc := replaceCore_fresh n cfg s _ _ hs q1 q2
    split at e
    · obtain ⟨p2, r2⟩ := ih _ _ _ _ p.1 hc e
      exact ⟨p.trans p2, r2⟩
    · cases e
      exact ⟨p, hc⟩

theorem replaceTD_ok (n : Nat) (cfg : Cfg) (fuel : Nat) (s : Schema) (h : Heap) (ut ud : List (String × Option Addr))
    (h' : Heap) (s' : Schema) (i : Inv n h) (hc : RegFresh n (replaceCore cfg s ut ud).1)
    (e : replaceTD cfg fuel s h ut ud = some (h', s')) : Pres n h h' ∧ RegFresh n s' := by
  simp only [replaceTD] at e
  split at e
  · exact healLoop_ok n cfg fuel _ _ _ _ i hc e
  · cases e
    exact ⟨Pres.refl i, hc⟩

theorem onSchema_ok (n : Nat) (cfg : Cfg) (fuel : Nat) (v : Visitor) (s : Schema) (h : Heap) (h' : Heap) (s' : Schema)
    (i : Inv n h) (hs : RegFresh n s) (e : onSchema cfg fuel v s h = some (h', s')) : Pres n h h' ∧ RegFresh n s' := by
  simp only [onSchema] at e
  obtain ⟨p, q1, q2⟩ := visitAll_ok n v s h i hs
  obtain ⟨p2, r2⟩ := replaceTD_ok n cfg fuel s _ _ _ _ _ p.1 (replaceCore_fresh n cfg s _ _ hs q1 q2) e
  exact ⟨p.trans p2, r2⟩

theorem transformFrom_ok (n : Nat) (cfg : Cfg) (fuel : Nat) : ∀ (vs : List Visitor) (h : Heap) (s : Schema) (h' : Heap) (s' : Schema),
    Inv n h → RegFresh n s → transformFrom cfg fuel vs (h, s) = some (h', s') → Pres n h h' ∧ RegFresh n s' := by
  intro vs
  induction vs with
  | nil => intro h s h' s' i hs e; simp only [transformFrom] at e; cases e; exact ⟨Pres.refl i, hs⟩
  | cons v vs ih =>
    intro h s h' s' i hs e
    simp only [transformFrom] at e
    split at e
    · cases e
    · rename_i r hr
      obtain ⟨h1, s1⟩ := r
      obtain ⟨p1, q1⟩ := onSchema_ok n cfg fuel v s h h1 s1 i hs hr
      obtain ⟨p2, q2⟩ := ih h1 s1 h' s' p1.1 q1 e
      exact ⟨p1.trans p2, q2⟩


/-! ### `Schema.clone` establishes ownership (deep-clone variant) -/

theorem inv_self (h : Heap) : Inv h.size h :=
  ⟨Nat.le_refl _, fun a o ha hr => absurd (read_lt h a o hr) (Nat.not_lt.mpr ha)⟩

theorem copyArgs_ok (n : Nat) : ∀ (as : List Addr) (h : Heap), Inv n h →
    Pres n h (copyArgs h as).1 ∧ ∀ c, c ∈ (copyArgs h as).2 → n ≤ c := by
  intro as
  induction as with
  | nil => intro h i; exact ⟨Pres.refl i, by simp [copyArgs]⟩
  | cons a as ih =>
    intro h i
    simp only [copyArgs]
    split
    · rename_i g _
      obtain ⟨p1, q1⟩ := pres_alloc i (.arg g) (by simp [kids])
      obtain ⟨p2, q2⟩ := ih _ p1.1
      refine ⟨p1.trans p2, ?_⟩
      intro c hc
      simp only [List.mem_cons] at hc
      rcases hc with rfl | hc
      · exact q1
      · exact q2 c hc
    · exact ih h i

theorem copyFields_ok (n : Nat) : ∀ (as : List Addr) (h : Heap), Inv n h →
    Pres n h (copyFields h as).1 ∧ ∀ c, c ∈ (copyFields h as).2 → n ≤ c := by
  intro as
  induction as with
  | nil => intro h i; exact ⟨Pres.refl i, by simp [copyFields]⟩
  | cons a as ih =>
    intro h i
    simp only [copyFields]
    split
    · rename_i f _
      obtain ⟨p0, q0⟩ := copyArgs_ok n f.args h i
      obtain ⟨p1, q1⟩ := pres_alloc p0.1 (.field { f with args := (copyArgs h f.args).2 }) (by simpa [kids] using q0)
      obtain ⟨p2, q2⟩ := ih _ p1.1
      refine ⟨(p0.trans p1).trans p2, ?_⟩
      intro c hc
      simp only [List.mem_cons] at hc
      rcases hc with rfl | hc
      · exact q1
      · exact q2 c hc
    · exact ih h i

theorem cloneType_ok (n : Nat) (cfg : Cfg) (hd : cfg.deepClone = true) (h : Heap) (t : TypeO) (i : Inv n h) :
    Pres n h (cloneType cfg h t).1 ∧ n ≤ (cloneType cfg h t).2 := by
  simp only [cloneType, hd, if_true]
  split
  · obtain ⟨p0, q0⟩ := copyArgs_ok n t.fields h i
    obtain ⟨p1, q1⟩ := pres_alloc p0.1 (.type { t with fields := (copyArgs h t.fields).2 }) (by simpa [kids] using q0)
    exact ⟨p0.trans p1, q1⟩
  · obtain ⟨p0, q0⟩ := copyFields_ok n t.fields h i
    obtain ⟨p1, q1⟩ := pres_alloc p0.1 (.type { t with fields := (copyFields h t.fields).2 }) (by simpa [kids] using q0)
    exact ⟨p0.trans p1, q1⟩

theorem cloneDir_ok (n : Nat) (cfg : Cfg) (hd : cfg.deepClone = true) (h : Heap) (d : DirO) (i : Inv n h) :
    Pres n h (cloneDir cfg h d).1 ∧ n ≤ (cloneDir cfg h d).2 := by
  simp only [cloneDir, hd, if_true]
  obtain ⟨p0, q0⟩ := copyArgs_ok n d.args h i
  obtain ⟨p1, q1⟩ := pres_alloc p0.1 (.dir { d with args := (copyArgs h d.args).2 }) (by simpa [kids] using q0)
  exact ⟨p0.trans p1, q1⟩

theorem readType_pres {n : Nat} {h h' : Heap} (p : Pres n h h') {a : Addr} (ha : a < n) : h'.readType a = h.readType a := by
  simp only [Heap.readType, p.2.2 a ha]

/-- the copies: all owned; every readable non-protected registered name gets one, and only `some` entries are produced -/
theorem cloneTypes_ok (n : Nat) (cfg : Cfg) (hd : cfg.deepClone = true) :
    ∀ (l : List (String × Addr)) (h : Heap), Inv n h →
      Pres n h (cloneTypes cfg h l).1 ∧ ValsFresh n (cloneTypes cfg h l).2 ∧
      (∀ x, x ∈ (cloneTypes cfg h l).2 → x.2 ≠ none) ∧
      (∀ nm a, (nm, a) ∈ l → isProtected nm = false → a < n → (h.readType a).isSome = true →
        nm ∈ (cloneTypes cfg h l).2.map (·.1)) := by
  intro l
  induction l with
  | nil => intro h i; exact ⟨Pres.refl i, by simp [cloneTypes, ValsFresh], by simp [cloneTypes], by simp⟩
  | cons e rest ih =>
    intro h i
    obtain ⟨nm0, a0⟩ := e
    simp only [cloneTypes]
    split
    · rename_i hp
      obtain ⟨p, q, r, c⟩ := ih h i
      refine ⟨p, q, r, ?_⟩
      intro nm a hm hnp ha hr
      simp only [List.mem_cons, Prod.mk.injEq] at hm
      rcases hm with ⟨rfl, rfl⟩ | hm
      · simp [hnp] at hp
      · exact c nm a hm hnp ha hr
    · split
      · rename_i t ht
        obtain ⟨p1, q1⟩ := cloneType_ok n cfg hd h t i
        obtain ⟨p, q, r, c⟩ := ih _ p1.1
        refine ⟨p1.trans p, ?_, ?_, ?_⟩
        · intro e he a' ea
          simp only [List.mem_cons] at he
          rcases he with rfl | he
          · cases ea; exact q1
          · exact q e he a' ea
        · intro x hx
          simp only [List.mem_cons] at hx
          rcases hx with rfl | hx
          · simp
          · exact r x hx
        · intro nm a hm hnp ha hr
          simp only [List.mem_cons, Prod.mk.injEq] at hm
          rcases hm with ⟨rfl, rfl⟩ | hm
          · simp
          · have := c nm a hm hnp ha (by rw [readType_pres p1 ha]; exact hr)
            simp only [List.map_cons, List.mem_cons]
            exact Or.inr this
      · rename_i hnone
        obtain ⟨p, q, r, c⟩ := ih h i
        refine ⟨p, q, r, ?_⟩
        intro nm a hm hnp ha hr
        simp only [List.mem_cons, Prod.mk.injEq] at hm
        rcases hm with ⟨rfl, rfl⟩ | hm
        · cases hx : h.readType a <;> simp_all
        · exact c nm a hm hnp ha hr

theorem cloneDirs_ok (n : Nat) (cfg : Cfg) (hd : cfg.deepClone = true) :
    ∀ (l : List (String × Addr)) (h : Heap), Inv n h →
      Pres n h (cloneDirs cfg h l).1 ∧ ValsFresh n (cloneDirs cfg h l).2 := by
  intro l
  induction l with
  | nil => intro h i; exact ⟨Pres.refl i, by simp [cloneDirs, ValsFresh]⟩
  | cons e rest ih =>
    intro h i
    obtain ⟨nm0, a0⟩ := e
    simp only [cloneDirs]
    split
    · rename_i d _
      obtain ⟨p1, q1⟩ := cloneDir_ok n cfg hd h d i
      obtain ⟨p, q⟩ := ih _ p1.1
      refine ⟨p1.trans p, ?_⟩
      intro e he a' ea
      simp only [List.mem_cons] at he
      rcases he with rfl | he
      · cases ea; exact q1
      · exact q e he a' ea
    · exact ih h i

/-- every name the clone starts with (`Schema(query_type=…)` + `setdefault`) is a readable registered name of the source -/
def CloneCovered (cfg : Cfg) (s : Schema) (h : Heap) : Prop :=
  ∀ e, e ∈ cloneRegistry cfg s h → isProtected e.1 = true ∨ ∃ a, (e.1, a) ∈ s.types ∧ (h.readType a).isSome = true

theorem readType_lt {h : Heap} {a : Addr} (hr : (h.readType a).isSome = true) : a < h.size := by
  cases ht : h.readType a with
  | none => simp [ht] at hr
  | some t => exact read_lt h a _ (readType_read ht)

/-- `Schema.clone` (deep variant) writes nothing below `h.size` and its result owns all its objects -/
theorem clone_ok (cfg : Cfg) (hd : cfg.deepClone = true) (fuel : Nat) (s : Schema) (h h' : Heap) (s' : Schema)
    (hc : CloneCovered cfg s h) (e : clone cfg fuel s h = some (h', s')) : Pres h.size h h' ∧ RegFresh h.size s' := by
  simp only [clone] at e
  split at e
  · cases e
  · rename_i h1 s1 hr
    cases e
    have i0 := inv_self h
    obtain ⟨pt, vt, st, nt⟩ := cloneTypes_ok h.size cfg hd s.types h i0
    obtain ⟨pd, vd⟩ := cloneDirs_ok h.size cfg hd s.dirs _ pt.1
    have hcore : RegFresh h.size (replaceCore cfg
        { types := cloneRegistry cfg s h, dirs := [], query := s.query, mutation := s.mutation, subscription := s.subscription, dres := none }
        (cloneTypes cfg h s.types).2 (cloneDirs cfg (cloneTypes cfg h s.types).1 s.dirs).2).1 := by
      simp only [replaceCore, RegFresh]
      refine ⟨?_, replaceDirs_fresh h.size _ [] vd (by intro e he; simp at he)⟩
      apply replaceTypes_cover h.size cfg _ _ false vt
      intro e he
      rcases hc e he with h1 | ⟨a, ha, hra⟩
      · exact Or.inl h1
      · by_cases hp : isProtected e.1 = true
        · exact Or.inl hp
        · right; right
          simp only [Bool.not_eq_true] at hp
          exact ⟨nt e.1 a ha hp (readType_lt hra) hra, fun x hx _ => st x hx⟩
    obtain ⟨p2, r2⟩ := replaceTD_ok h.size cfg fuel _ _ _ _ _ _ pd.1 hcore hr
    exact ⟨(pt.trans pd).trans p2, r2⟩

/-- `transform_schema`: clone, then any list of visitors -/
theorem transform_ok (cfg : Cfg) (hd : cfg.deepClone = true) (fuel : Nat) (vs : List Visitor) (s : Schema) (h h' : Heap) (s' : Schema)
    (hc : CloneCovered cfg s h) (e : transform cfg fuel vs s h = some (h', s')) : Pres h.size h h' ∧ RegFresh h.size s' := by
  simp only [transform] at e
  split at e
  · cases e
  · rename_i r hr
    obtain ⟨h1, s1⟩ := r
    obtain ⟨p1, q1⟩ := clone_ok cfg hd fuel s h h1 s1 hc hr
    obtain ⟨p2, q2⟩ := transformFrom_ok h.size cfg fuel vs h1 s1 h' s' p1.1 q1 e
    exact ⟨p1.trans p2, q2⟩

end PyGql.Heap.Own

/-
  C13 — helper lemmas for `perm_deep` (Props/C13_perm.lean): schema descriptions up to the order of every list
  (`SchemaEqvV`), what the validator's look-ups give on two such descriptions, and the rules one by one
  (`valid_eqv`: `ValidSchema` is carried along a reordering).
-/
import PyGqlModel.Props.C13
import PyGqlModel.Lemmas.ListEqv

set_option linter.unusedSimpArgs false
set_option linter.unusedVariables false
set_option linter.unusedSectionVars false

namespace PyGql.Props.C13
open PyGql PyGql.SchemaValid PyGql.SchemaValidSpec PyGql.ListEqv PyGql.Generated.Subtype

/-- the same field, its arguments possibly listed in another order -/
structure FieldEqvV (f g : FieldD) : Prop where
  name : f.name = g.name
  type : f.type = g.type
  resolver : f.resolver = g.resolver
  subscriptionResolver : f.subscriptionResolver = g.subscriptionResolver
  args : f.args.Perm g.args

/-- the same type definition up to the order of its fields (and their arguments), interfaces, members, values and
    input fields -/
structure TypeEqvV (t u : TypeD) : Prop where
  kind : t.kind = u.kind
  name : t.name = u.name
  builtin : t.builtin = u.builtin
  defaultResolver : t.defaultResolver = u.defaultResolver
  members : t.members.Perm u.members
  interfaces : t.interfaces.Perm u.interfaces
  values : t.values.Perm u.values
  inputFields : t.inputFields.Perm u.inputFields
  fields : ListEqv FieldEqvV t.fields u.fields

structure DirEqvV (d e : DirectiveD) : Prop where
  name : d.name = e.name
  args : d.args.Perm e.args

/-- the same schema up to the order of every list in it -/
structure SchemaEqvV (s s' : SchemaD) : Prop where
  types : ListEqv TypeEqvV s.types s'.types
  directives : ListEqv DirEqvV s.directives s'.directives
  query : s.query = s'.query
  mutation : s.mutation = s'.mutation
  subscription : s.subscription = s'.subscription
  defaultResolver : s.defaultResolver = s'.defaultResolver

/-! ### lists up to order and an element-wise relation -/

private theorem f2_left {α} {R : α → α → Prop} {m l' : List α} (h : F2 R m l') :
    ∀ a ∈ m, ∃ b ∈ l', R a b := by
  induction h with
  | nil => intro a ha; cases ha
  | @cons a b m' l'' hab _ ih =>
    intro x hx
    rcases List.mem_cons.mp hx with rfl | hx
    · exact ⟨b, List.mem_cons_self, hab⟩
    · obtain ⟨y, hy, r⟩ := ih x hx; exact ⟨y, List.mem_cons_of_mem _ hy, r⟩

private theorem f2_right {α} {R : α → α → Prop} {m l' : List α} (h : F2 R m l') :
    ∀ b ∈ l', ∃ a ∈ m, R a b := by
  induction h with
  | nil => intro a ha; cases ha
  | @cons a b m' l'' hab _ ih =>
    intro x hx
    rcases List.mem_cons.mp hx with rfl | hx
    · exact ⟨a, List.mem_cons_self, hab⟩
    · obtain ⟨y, hy, r⟩ := ih x hx; exact ⟨y, List.mem_cons_of_mem _ hy, r⟩

private theorem f2_length {α} {R : α → α → Prop} {m l' : List α} (h : F2 R m l') : m.length = l'.length := by
  induction h with
  | nil => rfl
  | cons _ _ ih => simp [ih]

theorem eqv_left {α} {R : α → α → Prop} {l l' : List α} (h : ListEqv R l l') : ∀ a ∈ l, ∃ b ∈ l', R a b := by
  obtain ⟨m, hp, h2⟩ := h
  intro a ha; exact f2_left h2 a (hp.mem_iff.mp ha)

theorem eqv_right {α} {R : α → α → Prop} {l l' : List α} (h : ListEqv R l l') : ∀ b ∈ l', ∃ a ∈ l, R a b := by
  obtain ⟨m, hp, h2⟩ := h
  intro b hb
  obtain ⟨a, ha, r⟩ := f2_right h2 b hb
  exact ⟨a, hp.mem_iff.mpr ha, r⟩

theorem eqv_ne_nil {α} {R : α → α → Prop} {l l' : List α} (h : ListEqv R l l') (hn : l ≠ []) : l' ≠ [] := by
  obtain ⟨m, hp, h2⟩ := h
  intro e
  have := f2_length h2
  rw [e, ← hp.length_eq] at this
  exact hn (List.length_eq_zero_iff.mp this)

/-- pull a permutation through an element-wise relation -/
private theorem f2_perm {α} {R : α → α → Prop} {m l : List α} (hp : m.Perm l) :
    ∀ l', F2 R m l' → ∃ m', l'.Perm m' ∧ F2 R l m' := by
  induction hp with
  | nil => intro l' h; cases h; exact ⟨[], List.Perm.refl _, .nil⟩
  | cons x _ ih =>
    intro l' h
    cases h with
    | cons hab ht =>
      obtain ⟨m', hp', h2⟩ := ih _ ht
      exact ⟨_ :: m', hp'.cons _, .cons hab h2⟩
  | swap x y l =>
    intro l' h
    cases h with
    | cons hab ht =>
      cases ht with
      | cons hcd ht2 => exact ⟨_ :: _ :: _, List.Perm.swap _ _ _, .cons hcd (.cons hab ht2)⟩
  | trans _ _ ih1 ih2 =>
    intro l' h
    obtain ⟨m1, hp1, h1⟩ := ih1 l' h
    obtain ⟨m2, hp2, h2⟩ := ih2 m1 h1
    exact ⟨m2, hp1.trans hp2, h2⟩

private theorem f2_flip {α} {R S : α → α → Prop} (hRS : ∀ a b, R a b → S b a) {m l' : List α} (h : F2 R m l') :
    F2 S l' m := by
  induction h with
  | nil => exact .nil
  | cons hab _ ih => exact .cons (hRS _ _ hab) ih

theorem eqv_symm {α} {R S : α → α → Prop} (hRS : ∀ a b, R a b → S b a) {l l' : List α} (h : ListEqv R l l') :
    ListEqv S l' l := by
  obtain ⟨m, hp, h2⟩ := h
  obtain ⟨m', hp', h2'⟩ := f2_perm hp.symm l' h2
  exact ⟨m', hp', f2_flip hRS h2'⟩

theorem lastNamed_eq_find {α} {name : α → String} {l : List α} (h : (l.map name).Nodup) (n : String) :
    lastNamed name l n = l.find? (fun x => name x == n) := by
  unfold lastNamed
  exact (find_name_perm (List.reverse_perm l).symm (nodup_uniq h) n).symm

/-! ### symmetry -/

theorem FieldEqvV.symm {f g : FieldD} (h : FieldEqvV f g) : FieldEqvV g f :=
  ⟨h.name.symm, h.type.symm, h.resolver.symm, h.subscriptionResolver.symm, h.args.symm⟩

theorem TypeEqvV.symm {t u : TypeD} (h : TypeEqvV t u) : TypeEqvV u t :=
  ⟨h.kind.symm, h.name.symm, h.builtin.symm, h.defaultResolver.symm, h.members.symm, h.interfaces.symm,
   h.values.symm, h.inputFields.symm, eqv_symm (fun _ _ r => FieldEqvV.symm r) h.fields⟩

theorem SchemaEqvV.symm {s s' : SchemaD} (h : SchemaEqvV s s') : SchemaEqvV s' s :=
  ⟨eqv_symm (fun _ _ r => TypeEqvV.symm r) h.types,
   eqv_symm (fun _ _ r => (⟨r.name.symm, r.args.symm⟩ : DirEqvV _ _)) h.directives,
   h.query.symm, h.mutation.symm, h.subscription.symm, h.defaultResolver.symm⟩

/-! ### the look-ups of the validator -/

private theorem any_perm {α} {l l' : List α} (h : l.Perm l') (p : α → Bool) : l.any p = l'.any p := by
  apply Bool.eq_iff_iff.mpr
  simp only [List.any_eq_true]
  exact ⟨fun ⟨x, hx, hp⟩ => ⟨x, h.mem_iff.mp hx, hp⟩, fun ⟨x, hx, hp⟩ => ⟨x, h.mem_iff.mpr hx, hp⟩⟩


section
variable {s s' : SchemaD} (E : SchemaEqvV s s') (ND : (s.types.map (·.name)).Nodup)
include E ND

theorem findType_eqv (n : String) : OptRel TypeEqvV (s.findType n) (s'.findType n) := by
  unfold SchemaD.findType
  exact ListEqv.find (name := TypeD.name) (fun a b r => r.name) E.types (nodup_uniq ND) n

theorem kindOf_eqv : kindOf s' = kindOf s := by
  funext n
  unfold kindOf
  have := findType_eqv E ND n
  cases h1 : s.findType n <;> cases h2 : s'.findType n <;> rw [h1, h2] at this <;> simp only [OptRel] at this
  simp [this.kind]

theorem isPossibleType_eqv : isPossibleType s' = isPossibleType s := by
  funext a b
  cases a with
  | named x =>
    cases b with
    | named y =>
      simp only [isPossibleType]
      have hx := findType_eqv E ND x
      have hy := findType_eqv E ND y
      cases h1 : s.findType x <;> cases h2 : s'.findType x <;> rw [h1, h2] at hx <;> simp only [OptRel] at hx
      cases h3 : s.findType y <;> cases h4 : s'.findType y <;> rw [h3, h4] at hy <;> simp only [OptRel] at hy
      rename_i tx tx' ty ty'
      have hm : tx'.members.contains y = tx.members.contains y := by
        apply Bool.eq_iff_iff.mpr; simp only [List.contains_iff_mem]; exact hx.members.symm.mem_iff
      have hi : ty'.interfaces.contains x = ty.interfaces.contains x := by
        apply Bool.eq_iff_iff.mpr; simp only [List.contains_iff_mem]; exact hy.interfaces.symm.mem_iff
      simp only [← hx.kind, ← hy.kind, hm, hi]
    | _ => rfl
  | _ => rfl

theorem subtype_eqv (a b : Ty) : Subtype s' a b ↔ Subtype s a b := by
  have hk := kindOf_eqv E ND
  have hab : isAbstractTy s' = isAbstractTy s := by funext t; cases t <;> simp [isAbstractTy, hk]
  have hob : isObjectTy s' = isObjectTy s := by funext t; cases t <;> simp [isObjectTy, hk]
  have hpo := isPossibleType_eqv E ND
  have hit : ∀ k, subIter s' k = subIter s k := by
    intro k; induction k with
    | zero => rfl
    | succ k ih => simp [subIter, hab, hob, hpo, ih]
  rw [← subtype_iff, ← subtype_iff]; simp [isSubtype, hit]

theorem defaultBad_eqv : ∀ (n : Nat) (ty : Ty) (v : J), defaultBad s' n ty v = defaultBad s n ty v := by
  intro n
  induction n with
  | zero => intro ty v; simp [defaultBad]
  | succ n ih =>
    intro ty v
    cases ty with
    | nonNull t => simp only [defaultBad, ih]
    | list t =>
      cases v <;> simp only [defaultBad]
      congr 1; funext x; exact ih t x
    | named nm =>
      cases v with
      | null => simp only [defaultBad]
      | _ =>
        simp only [defaultBad]
        have hx := findType_eqv E ND nm
        cases h1 : s.findType nm <;> cases h2 : s'.findType nm <;> rw [h1, h2] at hx <;> simp only [OptRel] at hx
        rename_i td td'
        simp only [← hx.kind, ← hx.builtin]
        rw [any_perm hx.values.symm]
        try first
        | rfl
        | (congr 1; congr 1; congr 1
           rw [any_perm hx.inputFields.symm]
           congr 1; funext f
           cases lookupKey _ f.pythonName <;> simp [ih])

end


/-! ### the rules, one by one -/

theorem resolverCompatible_perm {args args' : List ArgD} (hp : args.Perm args') (r : ResolverD)
    (h : ResolverCompatible args r) : ResolverCompatible args' r := by
  obtain ⟨h1, h2, h3⟩ := h
  refine ⟨h1, fun a ha => h2 a (hp.mem_iff.mpr ha), ?_⟩
  have e : unfedParams r.params args' = unfedParams r.params args := by
    unfold unfedParams
    congr 1
    funext p
    have : (providedNames r.params args').contains p.name = (providedNames r.params args).contains p.name := by
      apply Bool.eq_iff_iff.mpr
      simp only [List.contains_iff_mem]
      unfold providedNames
      exact (hp.filterMap _).symm.mem_iff
    rw [this]
  rw [e]; exact h3

section
variable {s s' : SchemaD} (E : SchemaEqvV s s') (ND : (s.types.map (·.name)).Nodup) {rv : Bool}
include E ND

theorem isInputType_eqv : isInputType s' = isInputType s := by
  funext t; simp [isInputType, kindOf_eqv E ND]

theorem isOutputType_eqv : isOutputType s' = isOutputType s := by
  funext t; simp [isOutputType, kindOf_eqv E ND]

theorem argsOK_eqv {args args' : List ArgD} (hp : args.Perm args') (h : ArgsOK s args) : ArgsOK s' args' := by
  obtain ⟨h1, h2⟩ := h
  refine ⟨fun a ha => ?_, (hp.map _).nodup_iff.mp h2⟩
  obtain ⟨hn, hi, hd⟩ := h1 a (hp.mem_iff.mpr ha)
  refine ⟨hn, by rw [isInputType_eqv E ND]; exact hi, ?_⟩
  intro hdef
  rw [defaultBad_eqv E ND]; exact hd hdef

theorem fieldsOK_eqv {t t' : TypeD} (ht : TypeEqvV t t') (h : FieldsOK s rv t) : FieldsOK s' rv t' := by
  obtain ⟨hne, hall, hnd⟩ := h
  refine ⟨eqv_ne_nil ht.fields hne, ?_, ?_⟩
  · intro f' hf'
    obtain ⟨f, hf, r⟩ := eqv_right ht.fields f' hf'
    obtain ⟨hn, ho, ha, hr⟩ := hall f hf
    refine ⟨by rw [← r.name]; exact hn, by rw [isOutputType_eqv E ND, ← r.type]; exact ho,
      argsOK_eqv E ND r.args ha, ?_⟩
    intro res hres hrv hk
    have hpick : pickResolver s' t' f' = pickResolver s t f := by
      unfold pickResolver
      rw [← r.resolver, ← ht.kind, ← ht.defaultResolver, ← E.defaultResolver]
    have := hr res (by rw [hpick, ← r.subscriptionResolver] at hres; exact hres) hrv (by rw [ht.kind]; exact hk)
    exact ⟨this.1, fun hi => resolverCompatible_perm r.args res (this.2 hi)⟩
  · exact (ListEqv.map_perm ht.fields _ _ (fun a b _ r => r.name)).nodup_iff.mp hnd

theorem implements_eqv {t t' it it' : TypeD} (ht : TypeEqvV t t') (hit : TypeEqvV it it')
    (hft : (t.fields.map (·.name)).Nodup) (hat : ∀ f ∈ t.fields, (f.args.map (·.name)).Nodup)
    (hait : ∀ f ∈ it.fields, (f.args.map (·.name)).Nodup) (h : Implements s t it) : Implements s' t' it' := by
  intro f' hf'
  obtain ⟨f, hf, rf⟩ := eqv_right hit.fields f' hf'
  obtain ⟨o, ho, hsub, hargs, hextra⟩ := h f hf
  have hfind := ListEqv.find (name := FieldD.name) (fun a b r => r.name) ht.fields (nodup_uniq hft) f.name
  have hft' : (t'.fields.map (·.name)).Nodup :=
    (ListEqv.map_perm ht.fields _ _ (fun a b _ r => r.name)).nodup_iff.mp hft
  unfold fieldMap at ho ⊢
  rw [lastNamed_eq_find hft] at ho
  rw [lastNamed_eq_find hft', ← rf.name]
  rw [ho] at hfind
  have hom : o ∈ t.fields := List.mem_of_find?_eq_some ho
  cases ho' : t'.fields.find? (fun y => y.name == f.name) with
  | none => rw [ho'] at hfind; simp [OptRel] at hfind
  | some o' =>
    rw [ho'] at hfind
    have ro : FieldEqvV o o' := hfind
    have hno : (o.args.map (·.name)).Nodup := hat o hom
    have hnf : (f.args.map (·.name)).Nodup := hait f hf
    refine ⟨o', rfl, ?_, ?_, ?_⟩
    · rw [subtype_eqv E ND, ← ro.type, ← rf.type]; exact hsub
    · intro a ha
      obtain ⟨oa, hoa, hty⟩ := hargs a (rf.args.mem_iff.mpr ha)
      unfold argMap at hoa ⊢
      rw [lastNamed_eq_find hno] at hoa
      rw [lastNamed_eq_find ((ro.args.map _).nodup_iff.mp hno), ← find_name_perm ro.args (nodup_uniq hno) a.name]
      exact ⟨oa, hoa, hty⟩
    · intro a ha hnone
      apply hextra a (ro.args.mem_iff.mpr ha)
      unfold argMap at hnone ⊢
      rw [lastNamed_eq_find hnf]
      rw [lastNamed_eq_find ((rf.args.map _).nodup_iff.mp hnf), ← find_name_perm rf.args (nodup_uniq hnf) a.name] at hnone
      exact hnone

theorem interfacesOK_eqv {t t' : TypeD} (ht : TypeEqvV t t') (V : ∀ u ∈ s.types, TypeOK s rv u)
    (hfo : FieldsOK s rv t) (h : InterfacesOK s t) : InterfacesOK s' t' := by
  obtain ⟨h1, h2⟩ := h
  refine ⟨fun i hi => ?_, ht.interfaces.nodup_iff.mp h2⟩
  obtain ⟨it, hfi, hk, himp⟩ := h1 i (ht.interfaces.mem_iff.mpr hi)
  have hx := findType_eqv E ND i
  rw [hfi] at hx
  cases h2' : s'.findType i with
  | none => rw [h2'] at hx; simp [OptRel] at hx
  | some it' =>
    rw [h2'] at hx
    have rit : TypeEqvV it it' := hx
    have hitm : it ∈ s.types := by
      unfold SchemaD.findType at hfi; exact List.mem_of_find?_eq_some hfi
    have hok := V it hitm
    have hfi' : FieldsOK s rv it := by
      simp only [TypeOK, hk] at hok; exact hok.2
    exact ⟨it', rfl, by rw [← rit.kind]; exact hk,
      implements_eqv E ND ht rit hfo.2.2 (fun f hf => (hfo.2.1 f hf).2.2.1.2)
        (fun f hf => (hfi'.2.1 f hf).2.2.1.2) himp⟩

theorem typeOK_eqv {t t' : TypeD} (ht : TypeEqvV t t') (V : ∀ u ∈ s.types, TypeOK s rv u)
    (h : TypeOK s rv t) : TypeOK s' rv t' := by
  unfold TypeOK at h ⊢
  obtain ⟨hname, hbody⟩ := h
  refine ⟨by rw [← ht.builtin, ← ht.name]; exact hname, ?_⟩
  rw [← ht.kind]
  cases hk : t.kind <;> rw [hk] at hbody <;> simp only at hbody ⊢
  · exact ⟨fieldsOK_eqv E ND ht hbody.1, interfacesOK_eqv E ND ht V hbody.1 hbody.2⟩
  · exact fieldsOK_eqv E ND ht hbody
  · obtain ⟨h1, h2, h3⟩ := hbody
    refine ⟨fun e => h1 (List.Perm.eq_nil (e ▸ ht.members)) , fun m hm => ?_, ht.members.nodup_iff.mp h3⟩
    rw [kindOf_eqv E ND]; exact h2 m (ht.members.mem_iff.mpr hm)
  · obtain ⟨h1, h2⟩ := hbody
    exact ⟨fun e => h1 (List.Perm.eq_nil (e ▸ ht.values)), fun v hv => h2 v (ht.values.mem_iff.mpr hv)⟩
  · obtain ⟨h1, h2, h3⟩ := hbody
    refine ⟨fun e => h1 (List.Perm.eq_nil (e ▸ ht.inputFields)), fun f hf => ?_, (ht.inputFields.map _).nodup_iff.mp h3⟩
    obtain ⟨hn, hi, hd⟩ := h2 f (ht.inputFields.mem_iff.mpr hf)
    refine ⟨hn, by rw [isInputType_eqv E ND]; exact hi, ?_⟩
    intro hdef; rw [defaultBad_eqv E ND]; exact hd hdef

/-- validity is carried along a reordering of every list of the description -/
theorem valid_eqv (V : ValidSchema s rv) : ValidSchema s' rv := by
  obtain ⟨hr, ht, hd⟩ := V
  refine ⟨?_, ?_, ?_⟩
  · unfold RootsOK RootOK at hr ⊢
    rw [← E.query, ← E.mutation, ← E.subscription, kindOf_eqv E ND]; exact hr
  · intro t' ht'
    obtain ⟨t, htm, r⟩ := eqv_right E.types t' ht'
    exact typeOK_eqv E ND r ht (ht t htm)
  · intro d' hd'
    obtain ⟨d, hdm, r⟩ := eqv_right E.directives d' hd'
    obtain ⟨hn, ha⟩ := hd d hdm
    exact ⟨by rw [← r.name]; exact hn, argsOK_eqv E ND r.args ha⟩

end

end PyGql.Props.C13

/-
  `index_to_loc` / `highlight_location` are total for positions inside the text.
-/
import PyGqlModel.StringUtils
import PyGqlModel.Lemmas.LexBlockString

namespace PyGql.StringUtils
open PyGql.BlockString

def countLF : Text → Nat
  | [] => 0
  | c :: t => (if c = 10 then 1 else 0) + countLF t

theorem locLoop_line_le (p off lines cols : Nat) (body : Text) :
    (locLoop p off lines cols body).1 ≤ lines + 1 + countLF body := by
  induction body generalizing off lines cols with
  | nil => simp [locLoop, countLF]
  | cons c t ih =>
    simp only [locLoop, countLF]
    split
    · dsimp only; omega
    · split
      · have := ih (off + 1) (lines + 1) 0
        omega
      · have := ih (off + 1) lines (cols + 1)
        omega

theorem locLoop_line_pos (p off lines cols : Nat) (body : Text) :
    1 ≤ (locLoop p off lines cols body).1 := by
  induction body generalizing off lines cols with
  | nil => simp [locLoop]
  | cons c t ih =>
    simp only [locLoop]
    split
    · simp
    · split
      · exact ih _ _ _
      · exact ih _ _ _

theorem countLF_lt_splitLinesAux (b : Bool) (body : Text) :
    countLF body < (splitLinesAux b body).length + (if b then 1 else 0) := by
  induction body generalizing b with
  | nil => cases b <;> simp [countLF, splitLinesAux]
  | cons c t ih =>
    simp only [countLF, splitLinesAux]
    split
    · rename_i hc
      split
      · rename_i hb; subst hb
        have := ih false; simp at this ⊢; omega
      · rename_i hb
        have hb' : b = false := by cases b <;> simp_all
        subst hb'
        have := ih false; simp at this ⊢; omega
    · split
      · have := ih true; simp at this ⊢
        cases b <;> simp <;> omega
      · have := ih false
        have hne := splitLinesAux_ne_nil false t
        cases hs : splitLinesAux false t with
        | nil => exact absurd hs hne
        | cons l ls =>
          rw [hs] at this; simp at this ⊢
          cases b <;> simp <;> omega

theorem countLF_lt_splitLines (body : Text) : countLF body < (splitLines body).length := by
  have := countLF_lt_splitLinesAux false body
  simpa [splitLines] using this

theorem mapM_getElem?_isSome {α} (xs : List α) (a k : Nat) (h : a + k ≤ xs.length) :
    ((List.range' a k).mapM (fun l => xs[l]?)).isSome = true := by
  induction k generalizing a with
  | zero => simp
  | succ k ih =>
    have h1 : a < xs.length := by omega
    have := ih (a + 1) (by omega)
    rw [List.range'_succ, List.mapM_cons]
    cases hm : List.mapM (fun l => xs[l]?) (List.range' (a + 1) k) with
    | none => simp [hm] at this
    | some r => simp [List.getElem?_eq_getElem h1]

theorem indexToLoc_isSome (body : Text) (p : Nat) (h : p ≤ body.length) :
    ∃ l c, indexToLoc body p = some (l, c) ∧ 1 ≤ l ∧ l ≤ 1 + countLF body := by
  unfold indexToLoc
  split
  · exact ⟨1, 1, rfl, Nat.le_refl _, by omega⟩
  · have : ¬ p > body.length := by omega
    simp only [this, ↓reduceIte]
    refine ⟨_, _, rfl, locLoop_line_pos _ _ _ _ _, ?_⟩
    have := locLoop_line_le p 0 0 0 body
    omega

theorem highlightLocation_isSome (body : Text) (p : Nat) (h : p ≤ body.length) :
    (highlightLocation body p).isSome = true := by
  obtain ⟨l, c, hloc, h1, h2⟩ := indexToLoc_isSome body p h
  have hlen := countLF_lt_splitLines body
  unfold highlightLocation
  simp only [hloc, bind, Option.bind]
  have hcur : l - 1 < (splitLines body).length := by omega
  have hb := mapM_getElem?_isSome (splitLines body) (l - 1 - 2) (l - 1 - (l - 1 - 2)) (by omega)
  have ha := mapM_getElem?_isSome (splitLines body) (l - 1 + 1)
    (min (l - 1 + 2) ((splitLines body).length - 1) + 1 - (l - 1 + 1)) (by omega)
  cases hb' : List.mapM (fun l => (splitLines body)[l]?) (List.range' (l - 1 - 2) (l - 1 - (l - 1 - 2))) with
  | none => rw [hb'] at hb; exact absurd hb (by simp)
  | some before =>
    cases ha' : List.mapM (fun l => (splitLines body)[l]?) (List.range' (l - 1 + 1)
        (min (l - 1 + 2) ((splitLines body).length - 1) + 1 - (l - 1 + 1))) with
    | none => rw [ha'] at ha; exact absurd ha (by simp)
    | some after =>
      simp [List.getElem?_eq_getElem hcur, pure]

end PyGql.StringUtils

/-
  `index_to_loc` / `highlight_location` are total for positions inside the text.
-/
import PyGqlModel.StringUtils
import PyGqlModel.Lemmas.LexBlockString

namespace PyGql.StringUtils
open PyGql.BlockString

open PyGql.Response (indexToLocLoop)

/-- number of line ends `index_to_loc` counts (fix X4): LF, lone CR; the CR of CRLF has no width -/
def countEnds : Text → Nat
  | [] => 0
  | c :: t =>
    (if c = 10 then 1 else if c = 13 then (if t.head? = some 10 then 0 else 1) else 0) + countEnds t

theorem locLoop_line_le (body : Text) (p lines cols : Nat) :
    (indexToLocLoop body p lines cols).1 ≤ lines + 1 + countEnds body := by
  induction body generalizing p lines cols with
  | nil => simp [indexToLocLoop, countEnds]
  | cons c t ih =>
    cases p with
    | zero => simp [indexToLocLoop]
    | succ p =>
      simp only [indexToLocLoop, countEnds]
      by_cases h10 : c = 10
      · simp only [h10, ↓reduceIte]; have := ih p (lines + 1) 0; omega
      · by_cases h13 : c = 13
        · subst h13
          simp only [Nat.reduceEqDiff, ↓reduceIte]
          by_cases hh : t.head? = some 10
          · simp only [hh, ↓reduceIte]; have := ih p lines cols; omega
          · simp only [hh, ↓reduceIte]; have := ih p (lines + 1) 0; simp at this ⊢; omega
        · simp only [h10, h13, ↓reduceIte]; have := ih p lines (cols + 1); omega

theorem locLoop_line_pos (body : Text) (p lines cols : Nat) :
    1 ≤ (indexToLocLoop body p lines cols).1 := by
  induction body generalizing p lines cols with
  | nil => simp [indexToLocLoop]
  | cons c t ih =>
    cases p with
    | zero => simp [indexToLocLoop]
    | succ p =>
      simp only [indexToLocLoop]
      repeat' split
      all_goals exact ih _ _ _

theorem splitLinesAux_length (b : Bool) (body : Text) :
    (splitLinesAux b body).length + (if b = true ∧ body.head? = some 10 then 1 else 0) = countEnds body + 1 := by
  induction body generalizing b with
  | nil => simp [countEnds, splitLinesAux]
  | cons c t ih =>
    simp only [countEnds, splitLinesAux, List.head?_cons]
    by_cases h10 : c = 10
    · subst h10
      have := ih false
      cases b <;> simp at this ⊢ <;> omega
    · by_cases h13 : c = 13
      · subst h13
        have := ih true
        by_cases hh : t.head? = some 10
        · simp [hh] at this ⊢; omega
        · simp [hh] at this ⊢; omega
      · have := ih false
        have hne := splitLinesAux_ne_nil false t
        cases hs : splitLinesAux false t with
        | nil => exact absurd hs hne
        | cons l ls =>
          rw [hs] at this
          have hc : ¬ (some c = some 10) := by simpa using h10
          simp [h10, h13] at this ⊢; omega

theorem countEnds_lt_splitLines (body : Text) : countEnds body < (splitLines body).length := by
  have := splitLinesAux_length false body
  simp [splitLines] at this ⊢; omega

theorem mapM_getElem?_isSome {α} (xs : List α) (a k : Nat) (h : a + k ≤ xs.length) :
    ((List.range' a k).mapM (fun l => xs[l]?)).isSome = true := by
  induction k generalizing a with
  | zero => simp
  | succ k ih =>
    have h1 : a < xs.length := by omega
    have := ih (a + 1) (by omega)
    rw [List.range'_succ, List.mapM_cons]
    cases hm : List.mapM (fun l => xs[l]?) (List.range' (a + 1) k) with
    | none => simp [hm] at this
    | some r => simp [List.getElem?_eq_getElem h1]

theorem indexToLoc_isSome (body : Text) (p : Nat) (h : p ≤ body.length) :
    ∃ l c, indexToLoc body p = some (l, c) ∧ 1 ≤ l ∧ l ≤ 1 + countEnds body := by
  unfold indexToLoc Response.indexToLoc
  split
  · exact ⟨1, 1, rfl, Nat.le_refl _, by omega⟩
  · have : ¬ p > body.length := by omega
    simp only [this, ↓reduceIte]
    refine ⟨_, _, rfl, locLoop_line_pos _ _ _ _, ?_⟩
    have := locLoop_line_le body p 0 0
    omega

theorem highlightLocation_isSome (body : Text) (p : Nat) (h : p ≤ body.length) :
    (highlightLocation body p).isSome = true := by
  obtain ⟨l, c, hloc, h1, h2⟩ := indexToLoc_isSome body p h
  have hlen := countEnds_lt_splitLines body
  unfold highlightLocation
  simp only [hloc, bind, Option.bind]
  have hcur : l - 1 < (splitLines body).length := by omega
  have hb := mapM_getElem?_isSome (splitLines body) (l - 1 - 2) (l - 1 - (l - 1 - 2)) (by omega)
  have ha := mapM_getElem?_isSome (splitLines body) (l - 1 + 1)
    (min (l - 1 + 2) ((splitLines body).length - 1) + 1 - (l - 1 + 1)) (by omega)
  cases hb' : List.mapM (fun l => (splitLines body)[l]?) (List.range' (l - 1 - 2) (l - 1 - (l - 1 - 2))) with
  | none => rw [hb'] at hb; exact absurd hb (by simp)
  | some before =>
    cases ha' : List.mapM (fun l => (splitLines body)[l]?) (List.range' (l - 1 + 1)
        (min (l - 1 + 2) ((splitLines body).length - 1) + 1 - (l - 1 + 1))) with
    | none => rw [ha'] at ha; exact absurd ha (by simp)
    | some after =>
      simp [List.getElem?_eq_getElem hcur, pure]

end PyGql.StringUtils

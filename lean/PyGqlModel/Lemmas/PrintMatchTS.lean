/-
  The views of location-free type-system definitions (member descriptions removed) are matched by their canonical yield.
-/
import PyGqlModel.Lemmas.PrintMatchF
import PyGqlModel.Lemmas.PrintStrip
namespace PyGql.PrintTokens
open PyGql PyGql.Ast PyGql.Parse PyGql.Spec PyGql.Print PyGql.PrintLex PyGql.PrintMatch

def noLocNamedType (t : NamedType) : Bool := t.loc.isNone && t.name.loc.isNone
def noLocDesc : Option StringValue → Bool
  | none => true
  | some s => s.loc.isNone
def noLocInputValue (d : InputValueDefinition) : Bool :=
  d.loc.isNone && d.name.loc.isNone && noLocType d.type &&
  (match d.defaultValue with | some v => noLocValue v | none => true) && d.directives.all noLocDirective
def noLocFieldDef (d : FieldDefinition) : Bool :=
  d.loc.isNone && d.name.loc.isNone && d.arguments.all noLocInputValue && noLocType d.type && d.directives.all noLocDirective
def noLocEnumValue (d : EnumValueDefinition) : Bool := d.loc.isNone && d.name.loc.isNone && d.directives.all noLocDirective
def noLocOpType (d : OperationTypeDefinition) : Bool := d.loc.isNone && noLocNamedType d.type

theorem plain_namedTypeV (t : NamedType) (h : noLocNamedType t = true) : plain (namedTypeV t) = true := by
  simp [noLocNamedType] at h
  simp [namedTypeV, nameV, plain, plainAll, Item.yieldAll, Item.yield, h.1, h.2]

theorem plain_nameV (n : Name) (h : n.loc.isNone = true) : plain (nameV n) = true := by
  simp at h; simp [nameV, plain, plainAll, Item.yieldAll, Item.yield, h]

theorem plainAll_descV (o : Option StringValue) (h : noLocDesc o = true) : plainAll (descV o) = true := by
  cases o with
  | none => rfl
  | some s => simp [noLocDesc] at h; simp [descV, optV, stringV, plainAll, plain, Item.yieldAll, Item.yield, h]

theorem plain_inputValueV (d : InputValueDefinition) (h : noLocInputValue d = true) : plain (inputValueV (stripIV d)) = true := by
  simp only [noLocInputValue, Bool.and_eq_true, Option.isNone_iff_eq_none] at h
  obtain ⟨⟨⟨⟨h1, h2⟩, h3⟩, h4⟩, h5⟩ := h
  have hd := plainAll_directivesV d.directives h5
  have ht := plain_typeV d.type h3
  have hdef : plainAll (defaultV d.defaultValue) = true := by
    cases hv : d.defaultValue with
    | none => rfl
    | some v => rw [hv] at h4; simp [defaultV, plainAll, plain, plain_valueV v h4]
  simp [inputValueV, stripIV, descV, optV, nameV, plain, plainAll, plainAll_append, Item.yieldAll, Item.yield, h1, h2, hd, ht, hdef]

theorem plainAll_argDefsV (ds : List InputValueDefinition) (h : ds.all noLocInputValue = true) :
    plainAll (groupV .parenL .parenR inputValueV (ds.map stripIV)) = true := by
  unfold groupV
  split
  · rfl
  · have := plainAll_map inputValueV (ds.map stripIV) (by
      intro x hx; simp only [List.mem_map] at hx; obtain ⟨y, hy, rfl⟩ := hx
      exact plain_inputValueV y ((List.all_eq_true.1 h) y hy))
    rw [List.map_map] at this
    simp [plainAll, plainAll_append, plain, this]

theorem plain_fieldDefinitionV (d : FieldDefinition) (h : noLocFieldDef d = true) :
    plain (fieldDefinitionV (stripFD d)) = true := by
  simp only [noLocFieldDef, Bool.and_eq_true, Option.isNone_iff_eq_none] at h
  obtain ⟨⟨⟨⟨h1, h2⟩, h3⟩, h4⟩, h5⟩ := h
  have hd := plainAll_directivesV d.directives h5
  have ht := plain_typeV d.type h4
  have ha := plainAll_argDefsV d.arguments h3
  simp [fieldDefinitionV, stripFD, descV, optV, nameV, plain, plainAll, plainAll_append, Item.yieldAll, Item.yield, h1, h2, hd,
    ht, ha]

theorem plain_enumValueDefinitionV (d : EnumValueDefinition) (h : noLocEnumValue d = true) :
    plain (enumValueDefinitionV (stripEV d)) = true := by
  simp only [noLocEnumValue, Bool.and_eq_true, Option.isNone_iff_eq_none] at h
  have hd := plainAll_directivesV d.directives h.2
  simp [enumValueDefinitionV, stripEV, descV, optV, nameV, plain, plainAll, Item.yieldAll, Item.yield, h.1.1, h.1.2, hd]

theorem plain_operationTypeV (d : OperationTypeDefinition) (h : noLocOpType d = true) : plain (operationTypeV d) = true := by
  simp only [noLocOpType, Bool.and_eq_true, Option.isNone_iff_eq_none] at h
  simp [operationTypeV, kw, plain, plainAll, Item.yieldAll, Item.yield, h.1, plain_namedTypeV d.type h.2]

/-! ### look-ahead items -/

/-- `sep? X (sep X)*` with `plain` elements whose yield starts with a Name token -/
theorem plainAllF_sepV {α} (sep : TokKind) (hsep : sep ≠ .name) (f : α → Item) (xs : List α) (fol : List TokClass)
    (hp : ∀ x ∈ xs, plain (f x) = true) (hh : ∀ x ∈ xs, ∃ v tl, (f x).yield = (.name, v) :: tl) :
    plainAllF (sepV sep f xs) fol = true := by
  cases xs with
  | nil => rfl
  | cons x xs =>
    obtain ⟨v, tl, hv⟩ := hh x (by simp)
    have hrest : plainAll (xs.flatMap fun y => [p sep, f y]) = true := by
      induction xs with
      | nil => rfl
      | cons y ys ih =>
        simp only [List.flatMap_cons, List.cons_append, List.nil_append, plainAll, plain, Bool.true_and, Bool.and_eq_true]
        exact ⟨hp y (by simp), ih (fun z hz => hp z (by simp at hz ⊢; rcases hz with rfl | hz; exact Or.inl rfl; exact Or.inr (Or.inr hz)))
          (fun z hz => hh z (by simp at hz ⊢; rcases hz with rfl | hz; exact Or.inl rfl; exact Or.inr (Or.inr hz)))⟩
    simp only [sepV, plainAllF, plainF, Item.yieldAll, hv, List.cons_append, List.head?_cons, Bool.and_eq_true, bne_iff_ne, ne_eq,
      Option.some.injEq, Prod.mk.injEq, not_and]
    refine ⟨fun e => absurd e.symm hsep, plainF_of_plain _ _ (hp x (by simp)), plainAllF_of_plainAll _ _ hrest⟩

/-- the optional `{ X+ }` block: when absent the following class must not be `{` -/
theorem plainAllF_blockV {α} (f : α → Item) (xs : List α) (fol : List TokClass) (hp : ∀ x ∈ xs, plain (f x) = true)
    (hf : xs.isEmpty = true → (fol.head?.map Prod.fst) ≠ some .curlyL) : plainAllF (blockV f xs) fol = true := by
  unfold blockV
  split
  · rename_i he
    simp only [plainAllF, plainF, Item.yieldAll, List.nil_append, Bool.and_true, bne_iff_ne, ne_eq]
    exact hf he
  · apply plainAllF_of_plainAll
    simp [plainAll, plainAll_append, plain, plainAll_map f xs hp]


theorem pf_cons_plain {i : Item} {is : List Item} {fol : List TokClass} (hi : plain i = true) (h : plainAllF is fol = true) :
    plainAllF (i :: is) fol = true := by
  simp only [plainAllF, Bool.and_eq_true]; exact ⟨plainF_of_plain i _ hi, h⟩
theorem pf_append_plain {a b : List Item} {fol : List TokClass} (ha : plainAll a = true) (hb : plainAllF b fol = true) :
    plainAllF (a ++ b) fol = true := by
  rw [plainAllF_append, plainAllF_of_plainAll a _ ha, hb]; rfl
theorem pf_append_all {a b : List Item} {fol : List TokClass} (ha : ∀ f', plainAllF a f' = true) (hb : plainAllF b fol = true) :
    plainAllF (a ++ b) fol = true := by
  rw [plainAllF_append, ha, hb]; rfl
theorem pf_of_plainAll {a : List Item} {fol : List TokClass} (ha : plainAll a = true) : plainAllF a fol = true :=
  plainAllF_of_plainAll a fol ha

theorem namedTypeV_head (t : NamedType) : ∃ v tl, (namedTypeV t).yield = (.name, v) :: tl :=
  ⟨t.name.value, [], by simp [namedTypeV, nameV, Item.yield, Item.yieldAll]⟩
theorem nameV_head (n : Name) : ∃ v tl, (nameV n).yield = (.name, v) :: tl :=
  ⟨n.value, [], by simp [nameV, Item.yield, Item.yieldAll]⟩

theorem pf_implementsV (ifs : List NamedType) (h : ifs.all noLocNamedType = true) (fol : List TokClass) :
    plainAllF (implementsV ifs) fol = true := by
  unfold implementsV
  split
  · rfl
  · exact pf_cons_plain rfl (plainAllF_sepV .amp (by decide) namedTypeV ifs fol
      (fun x hx => plain_namedTypeV x ((List.all_eq_true.1 h) x hx)) (fun x _ => namedTypeV_head x))

theorem pf_unionMembersV (ts : List NamedType) (h : ts.all noLocNamedType = true) (fol : List TokClass) :
    plainAllF (unionMembersV ts) fol = true := by
  unfold unionMembersV
  split
  · rfl
  · exact pf_cons_plain rfl (plainAllF_sepV .pipe (by decide) namedTypeV ts fol
      (fun x hx => plain_namedTypeV x ((List.all_eq_true.1 h) x hx)) (fun x _ => namedTypeV_head x))

/-- no positions in a type-system definition (member descriptions are ignored: they are removed by `stripDef`) -/
def noLocTSDefinition : Definition → Bool
  | .schemaDefinition dirs ops loc => loc.isNone && dirs.all noLocDirective && ops.all noLocOpType
  | .schemaExtension dirs ops loc => loc.isNone && dirs.all noLocDirective && ops.all noLocOpType
  | .scalarTypeDefinition desc name dirs loc => loc.isNone && noLocDesc desc && name.loc.isNone && dirs.all noLocDirective
  | .scalarTypeExtension name dirs loc => loc.isNone && name.loc.isNone && dirs.all noLocDirective
  | .objectTypeDefinition desc name ifs dirs fields loc =>
    loc.isNone && noLocDesc desc && name.loc.isNone && ifs.all noLocNamedType && dirs.all noLocDirective && fields.all noLocFieldDef
  | .objectTypeExtension name ifs dirs fields loc =>
    loc.isNone && name.loc.isNone && ifs.all noLocNamedType && dirs.all noLocDirective && fields.all noLocFieldDef
  | .interfaceTypeDefinition desc name dirs fields loc =>
    loc.isNone && noLocDesc desc && name.loc.isNone && dirs.all noLocDirective && fields.all noLocFieldDef
  | .interfaceTypeExtension name dirs fields loc => loc.isNone && name.loc.isNone && dirs.all noLocDirective && fields.all noLocFieldDef
  | .unionTypeDefinition desc name dirs types loc =>
    loc.isNone && noLocDesc desc && name.loc.isNone && dirs.all noLocDirective && types.all noLocNamedType
  | .unionTypeExtension name dirs types loc => loc.isNone && name.loc.isNone && dirs.all noLocDirective && types.all noLocNamedType
  | .enumTypeDefinition desc name dirs values loc =>
    loc.isNone && noLocDesc desc && name.loc.isNone && dirs.all noLocDirective && values.all noLocEnumValue
  | .enumTypeExtension name dirs values loc => loc.isNone && name.loc.isNone && dirs.all noLocDirective && values.all noLocEnumValue
  | .inputObjectTypeDefinition desc name dirs fields loc =>
    loc.isNone && noLocDesc desc && name.loc.isNone && dirs.all noLocDirective && fields.all noLocInputValue
  | .inputObjectTypeExtension name dirs fields loc => loc.isNone && name.loc.isNone && dirs.all noLocDirective && fields.all noLocInputValue
  | .directiveDefinition desc name args locations loc =>
    loc.isNone && noLocDesc desc && name.loc.isNone && args.all noLocInputValue && locations.all (fun n => n.loc.isNone)
  | _ => false

theorem pf_blockFD (fields : List FieldDefinition) (h : fields.all noLocFieldDef = true) (fol : List TokClass)
    (hf : fields.isEmpty = true → (fol.head?.map Prod.fst) ≠ some .curlyL) :
    plainAllF (blockV fieldDefinitionV (fields.map stripFD)) fol = true :=
  plainAllF_blockV _ _ _ (by intro x hx; simp only [List.mem_map] at hx; obtain ⟨y, hy, rfl⟩ := hx
                             exact plain_fieldDefinitionV y ((List.all_eq_true.1 h) y hy)) (by simpa using hf)
theorem pf_blockEV (values : List EnumValueDefinition) (h : values.all noLocEnumValue = true) (fol : List TokClass)
    (hf : values.isEmpty = true → (fol.head?.map Prod.fst) ≠ some .curlyL) :
    plainAllF (blockV enumValueDefinitionV (values.map stripEV)) fol = true :=
  plainAllF_blockV _ _ _ (by intro x hx; simp only [List.mem_map] at hx; obtain ⟨y, hy, rfl⟩ := hx
                             exact plain_enumValueDefinitionV y ((List.all_eq_true.1 h) y hy)) (by simpa using hf)
theorem pf_blockIV (fields : List InputValueDefinition) (h : fields.all noLocInputValue = true) (fol : List TokClass)
    (hf : fields.isEmpty = true → (fol.head?.map Prod.fst) ≠ some .curlyL) :
    plainAllF (blockV inputValueV (fields.map stripIV)) fol = true :=
  plainAllF_blockV _ _ _ (by intro x hx; simp only [List.mem_map] at hx; obtain ⟨y, hy, rfl⟩ := hx
                             exact plain_inputValueV y ((List.all_eq_true.1 h) y hy)) (by simpa using hf)
theorem pf_blockOT (ops : List OperationTypeDefinition) (h : ops.all noLocOpType = true) (fol : List TokClass)
    (hf : ops.isEmpty = true → (fol.head?.map Prod.fst) ≠ some .curlyL) :
    plainAllF (blockV operationTypeV ops) fol = true :=
  plainAllF_blockV _ _ _ (fun x hx => plain_operationTypeV x ((List.all_eq_true.1 h) x hx)) hf

end PyGql.PrintTokens

/-
  C14 — closedness of every type object `extend_schema` registers: the rebuilt source types (with the members the document adds)
  and the types the document defines.
-/
import PyGqlModel.Lemmas.HeapExtNew

set_option linter.unusedSimpArgs false
set_option linter.unusedVariables false

namespace PyGql.Heap.Own
open PyGql.Heap

/-- the rebuilt object of a source type has the type shape: interfaces / union members / all members (rebuilt and added) are the
    registered objects; and it carries its name -/
theorem extend_src_type_shape (cfg : Cfg) (hk : cfg.extKeepAll = true) (hin : cfg.extInputFieldExtended = true) (ext : Ext) (s : Schema) (h : Heap)
    (w : WFs (refOK s.types) h s) (hnew : ∀ e, e ∈ ext.newTypes → e.1 ∉ s.types.map (·.1))
    (n : String) (a : Addr) (t : TypeO) (hm : (n, a) ∈ s.types) (hp : isProtected n = false) (ht : h.readType a = some t)
    (hf : FieldsOK (extend cfg ext s h).2.types (assocD ext.fields t.name))
    (hi : ArgsOK (extend cfg ext s h).2.types (assocD ext.inputFields t.name))
    (hmem : ∀ m, m ∈ assocD ext.members t.name → (lookup (extend cfg ext s h).2.types m).isSome = true) :
    ∃ a', lookup (extend cfg ext s h).2.types n = some a' ∧
      typeShape (refOK (extend cfg ext s h).2.types) (extend cfg ext s h).1 a' = true ∧ nameOK (extend cfg ext s h).1 (n, a') = true := by
  have hreg : ∀ r, refOK s.types r = true → (lookup (extend cfg ext s h).2.types r.name).isSome = true := fun r hr =>
    extend_registers_source_names cfg hk ext s h w.nodup r.name (name_of_lookup (refOK_lookup hr))
  obtain ⟨t0, ht0, hrefs, hsh⟩ := (typeShape_iff _ h a).mp (w.types (n, a) hm)
  rw [ht] at ht0; cases ht0
  have hname : t.name = n := by
    have := w.names (n, a) hm
    simpa [nameOK, ht] using this
  have hnd := w.nodup
  have hsrc : n ∈ (s.types.filter fun e => !isProtected e.1).map (·.1) :=
    List.mem_map.mpr ⟨(n, a), List.mem_filter.mpr ⟨hm, by simp [hp]⟩, rfl⟩
  obtain ⟨na, hna⟩ := allocPlaceholders_some ((s.types.filter fun e => !isProtected e.1).map (·.1) ++ ext.newTypes.map (·.1)) h n
    (List.mem_append.mpr (Or.inl hsrc))
  have hinj := allocPlaceholders_inj ((s.types.filter fun e => !isProtected e.1).map (·.1) ++ ext.newTypes.map (·.1)) h
  have hb := fun n x hx => allocPlaceholders_lookup ((s.types.filter fun e => !isProtected e.1).map (·.1) ++ ext.newTypes.map (·.1)) h n x hx
  have hfr0 := allocPlaceholdersX (fun x => h.size ≤ x) ((s.types.filter fun e => !isProtected e.1).map (·.1) ++ ext.newTypes.map (·.1)) h
  simp only [extend, hk, hin, if_true] at hf hi hmem hreg ⊢
  generalize hP : allocPlaceholders h ((s.types.filter fun e => !isProtected e.1).map (·.1) ++ ext.newTypes.map (·.1)) = p at hna hinj hb hfr0 hf hi hmem hreg
  obtain ⟨hkk, hszk, frk, hrk, kfk⟩ := extendAll_spec2 cfg ext ((s.types.filter fun e => isProtected e.1) ++ p.2)
    ((s.types.filter fun e => isProtected e.1) ++ p.2)
    p.2 h p.1.size hb hinj s.types p.1 (Nat.le_refl _) hfr0 hnd n a t na hm hp ht hna
  have hkids := extendKids_closed cfg ext ((s.types.filter fun e => isProtected e.1) ++ p.2) h hkk t hreg frk hsh hf hi
  have ktail := extend_tail_keeps cfg ((s.types.filter fun e => isProtected e.1) ++ p.2) p.2
    (extendAll cfg ext ((s.types.filter fun e => isProtected e.1) ++ p.2) ((s.types.filter fun e => isProtected e.1) ++ p.2)
      p.2 h p.1 s.types) s ext p.1.size (fun n x hx => (hb n x hx).2)
  have hfinal : (buildNewDirs cfg ((s.types.filter fun e => isProtected e.1) ++ p.2)
      (extendDirs cfg ((s.types.filter fun e => isProtected e.1) ++ p.2)
        (buildNewTypes ((s.types.filter fun e => isProtected e.1) ++ p.2) p.2
          (extendAll cfg ext ((s.types.filter fun e => isProtected e.1) ++ p.2) ((s.types.filter fun e => isProtected e.1) ++ p.2) p.2 h p.1 s.types)
          ext.newTypes) s.dirs).1 ext.newDirs).1.readType na =
      some (rebuiltType cfg ext ((s.types.filter fun e => isProtected e.1) ++ p.2) t
        (extendKids cfg ext ((s.types.filter fun e => isProtected e.1) ++ p.2) ((s.types.filter fun e => isProtected e.1) ++ p.2) hkk t).2) := by
    apply (extend_tail cfg _ p.2 _ s ext na (Nat.lt_of_lt_of_le (hb n na hna).2 (Nat.le_trans hszk (Nat.le_trans (extendKidsX (fun _ => False) cfg ext _ _ hkk t).1 kfk.1))) ?_).trans hrk
    rintro ⟨e, he, hx⟩
    have := hinj e.1 n na hx hna
    exact hnew e he (this ▸ List.mem_map.mpr ⟨(n, a), hm, rfl⟩)
  refine ⟨na, ?_, ?_, ?_⟩
  · rw [lookup_append_right]
    · exact hna
    · intro e he
      have hpe := (List.mem_filter.mp he).2
      cases hq : (e.1 == n) with
      | false => rfl
      | true =>
        simp only [beq_iff_eq] at hq
        rw [hq, hp] at hpe
        cases hpe
  · refine (typeShape_iff _ _ na).mpr ⟨_, hfinal, ?_, ?_⟩
    · -- the references the rebuilt type object holds itself
      simp only [typeRefs, rebuiltType, List.all_eq_true]
      cases hkind : t.kind <;> simp only [hkind] at hrefs ⊢
      · intro r hr
        simp only [typeRefs, hkind, List.all_eq_true] at hrefs
        exact refOK_repointRefs _ t.ifaces (fun r0 hr0 => hreg r0 (hrefs r0 hr0)) r hr
      · intro r hr; cases hr
      · intro r hr
        simp only [typeRefs, hkind, List.all_eq_true] at hrefs
        rcases List.mem_append.mp hr with hr | hr
        · exact refOK_repointRefs _ t.members (fun r0 hr0 => hreg r0 (hrefs r0 hr0)) r hr
        · obtain ⟨m, hm', rfl⟩ := List.mem_map.mp hr
          obtain ⟨x, hx⟩ := Option.isSome_iff_exists.mp (hmem m hm')
          simp [refOK, hx]
      · intro r hr; cases hr
      · intro r hr; cases hr
      · intro r hr; cases hr
    · exact KidsC.membersOK (lo := hkk.size) (t := rebuiltType cfg ext _ t _)
        (hkids.keep (keepsFrom_mono hszk (kfk.trans ktail)))
  · simp only [nameOK, hfinal, rebuiltType, hname, beq_self_eq_true]

end PyGql.Heap.Own

/-
  The block-string scanner inverts the escaping in front of ANY non-quote character (generalisation of
  `Lemmas/LexBlockEscape.lean`, where the following character is the line feed of the multi-line form): needed for the
  one-line printed form `"""  x"""`, where the character before the closing quotes is the last character of the value.
-/
import PyGqlModel.Lemmas.LexBlockEscape
namespace PyGql.Lex
open PyGql.PrintString

private theorem map_cons_comp {v : Text} {c : Nat} (r : R (Text × Text)) :
    (match (r.map (fun p => (v ++ p.1, p.2)) : R (Text × Text)) with
      | .ok (x, y) => (.ok (c :: x, y) : R (Text × Text))
      | .error e => .error e) = r.map (fun p => ((c :: v) ++ p.1, p.2)) := by
  cases r with
  | ok p => obtain ⟨a, b⟩ := p; rfl
  | error e => rfl

theorem leadQ_escape_c (c0 : Nat) (hc0 : c0 ≠ 34) (t w : Text) :
    leadQ (escapeTQAux 0 t ++ c0 :: w) = if 3 ≤ leadQ t then 0 else leadQ t := by
  induction t with
  | nil => simp [escapeTQAux, leadQ, hc0]
  | cons c t' ih =>
    by_cases hp : ([34, 34, 34] : Text).isPrefixOf (c :: t') = true
    · have h3 : 3 ≤ leadQ (c :: t') := (tq_prefix_iff _).mp hp
      simp only [leadQ] at h3
      simp [escapeTQAux, hp, leadQ, h3]
    · have h3 : ¬ 3 ≤ leadQ (c :: t') := fun h => hp ((tq_prefix_iff _).mpr h)
      have hp' : ([34, 34, 34] : Text).isPrefixOf (c :: t') = false := (Bool.not_eq_true _).mp hp
      simp only [escapeTQAux, hp', Bool.false_eq_true, ↓reduceIte, List.cons_append, leadQ] at h3 ⊢
      by_cases hc : c = 34
      · simp only [hc, ↓reduceIte] at h3 ⊢
        rw [ih]
        have : ¬ 3 ≤ leadQ t' := by omega
        simp [this, h3]
      · simp [hc]


/-- scanning the escaped value (followed by a line feed) yields the value: for every `k ≤ |v|` pending copied quotes -/
theorem readBlockBody_escape_c (c0 : Nat) (hc0 : c0 ≠ 34) (n : Nat) (w : Text) (v : Text) (k : Nat) (hk : k ≤ v.length)
    (hv : ∀ c ∈ v, blockChar c = true) :
    readBlockBody n k (escapeTQAux k v ++ c0 :: w) =
      (readBlockBody n 0 (c0 :: w)).map (fun p => (v ++ p.1, p.2)) := by
  induction v generalizing k with
  | nil =>
    have : k = 0 := by simpa using hk
    subst this
    simp only [escapeTQAux, List.nil_append]
    cases readBlockBody n 0 (c0 :: w) with
    | ok p => obtain ⟨a, b⟩ := p; rfl
    | error e => rfl
  | cons c t ih =>
    have hvt : ∀ x ∈ t, blockChar x = true := fun x hx => hv x (by simp [hx])
    cases k with
    | succ k' =>
      have := ih k' (by simpa using hk) hvt
      simp only [escapeTQAux, List.cons_append, readBlockBody, this]
      exact map_cons_comp _
    | zero =>
      by_cases hp : ([34, 34, 34] : Text).isPrefixOf (c :: t) = true
      · -- an escaped triple quote
        have h3 : 3 ≤ leadQ (c :: t) := (tq_prefix_iff _).mp hp
        have hc : c = 34 := by
          by_cases hc : c = 34
          · exact hc
          · simp [leadQ, hc] at h3
        subst hc
        have ht2 : 2 ≤ leadQ t := by simpa [leadQ] using h3
        have hlen : 2 ≤ t.length := by
          match t, ht2 with
          | a :: b :: r, _ => simp
          | [a], h => simp [leadQ] at h; split at h <;> omega
          | [], h => simp [leadQ] at h
        have := ih 2 hlen hvt
        -- shape of the escaped tail: two copied quotes
        obtain ⟨a, b, r, rfl⟩ : ∃ a b r, t = a :: b :: r := by
          match t, hlen with
          | a :: b :: r, _ => exact ⟨a, b, r, rfl⟩
        have hab : a = 34 ∧ b = 34 := by
          simp only [leadQ] at ht2
          by_cases ha : a = 34
          · by_cases hb : b = 34
            · exact ⟨ha, hb⟩
            · simp [ha, hb] at ht2
          · simp [ha] at ht2
        obtain ⟨rfl, rfl⟩ := hab
        generalize readBlockBody n 0 (c0 :: w) = R at this ⊢
        simp only [escapeTQAux, hp, ↓reduceIte, List.cons_append] at this ⊢
        rw [readBlockBody]
        simp only [tq, List.isPrefixOf, Bool.and_eq_true, beq_iff_eq, Nat.reduceEqDiff, false_and, Bool.false_eq_true,
          ↓reduceIte, BEq.rfl, Bool.true_and, Bool.and_self, decide_true]
        simp only [readBlockBody] at this ⊢
        rw [this]
        cases R with
        | ok p => obtain ⟨x, y⟩ := p; rfl
        | error e => rfl
      · -- an ordinary character
        have hp' : ([34, 34, 34] : Text).isPrefixOf (c :: t) = false := (Bool.not_eq_true _).mp hp
        have h3 : ¬ 3 ≤ leadQ (c :: t) := fun h => hp ((tq_prefix_iff _).mpr h)
        have hY := leadQ_escape_c c0 hc0 t w
        have hrec := ih 0 (Nat.zero_le _) hvt
        have hc := hv c (by simp)
        simp only [escapeTQAux, hp', Bool.false_eq_true, ↓reduceIte, List.cons_append]
        rw [readBlockBody]
        -- the scanner does not see a closing or an escaped triple quote here
        have hn1 : tq.isPrefixOf (c :: (escapeTQAux 0 t ++ c0 :: w)) = false := by
          rw [Bool.eq_false_iff]; intro h
          have := (tq_prefix_iff _).mp h
          simp only [leadQ] at this h3
          by_cases hc34 : c = 34
          · simp only [hc34, ↓reduceIte] at this h3
            rw [hY] at this
            split at this <;> omega
          · simp [hc34] at this
        have hn2 : tq.isPrefixOf (escapeTQAux 0 t ++ c0 :: w) = false := by
          rw [Bool.eq_false_iff]; intro h
          have := (tq_prefix_iff _).mp h
          rw [hY] at this
          split at this <;> omega
        have hbad : (!(isPrintable c || c == 10 || c == 13)) = false := by
          unfold blockChar at hc; rw [hc]; rfl
        simp only [hn1, hn2, Bool.false_eq_true, ↓reduceIte, Bool.and_false, hbad, hrec]
        exact map_cons_comp _


end PyGql.Lex

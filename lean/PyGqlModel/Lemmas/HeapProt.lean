/-
  C14 — the entries of the PROTECTED names (the specified scalars `Int`, `Float`, `String`, `Boolean`, `ID`) of a derived schema are
  the entries of the schema it was derived from: `clone`, every visitor, `_replace_types_and_directives`, the healing loop,
  `transform_schema` and `extend_schema` never copy, rebuild or re-register them (`on_schema` skips them; `clone` and
  `extend_schema` take them over). So all schemas of a derivation history share these objects with their sources.
-/
import PyGqlModel.Lemmas.HeapOwn
import PyGqlModel.Lemmas.HeapExtNew

set_option linter.unusedSimpArgs false
set_option linter.unusedVariables false

namespace PyGql.Heap.Prot
open PyGql.Heap PyGql.Heap.Own

/-- every protected entry of `reg` is an entry of `reg0` -/
def ProtSub (reg0 reg : List (String × Addr)) : Prop := ∀ e, e ∈ reg → isProtected e.1 = true → e ∈ reg0

theorem ProtSub.refl (reg : List (String × Addr)) : ProtSub reg reg := fun _ he _ => he

theorem ProtSub.trans {r0 r1 r2 : List (String × Addr)} (a : ProtSub r0 r1) (b : ProtSub r1 r2) : ProtSub r0 r2 :=
  fun e he hp => a e (b e he hp) hp

/-- the names a visitor round reports are never protected -/
def NamesFree (ut : List (String × Option Addr)) : Prop := ∀ x, x ∈ ut → isProtected x.1 = false

theorem visitTypes_free (v : Visitor) (reg : List (String × Addr)) : ∀ (l : List (String × Addr)) (h : Heap),
    NamesFree (visitTypes v reg h l).2 := by
  intro l
  induction l with
  | nil => intro h x hx; simp [visitTypes] at hx
  | cons e rest ih =>
    intro h
    obtain ⟨n, a⟩ := e
    simp only [visitTypes]
    split
    · exact ih h
    · rename_i hp
      split
      · intro x hx
        simp only [List.mem_cons] at hx
        rcases hx with rfl | hx
        · simpa using hp
        · exact ih _ x hx
      · exact ih _

theorem cloneTypes_free (cfg : Cfg) : ∀ (l : List (String × Addr)) (h : Heap), NamesFree (cloneTypes cfg h l).2 := by
  intro l
  induction l with
  | nil => intro h x hx; simp [cloneTypes] at hx
  | cons e rest ih =>
    intro h
    obtain ⟨n, a⟩ := e
    simp only [cloneTypes]
    split
    · exact ih h
    · rename_i hp
      split
      · intro x hx
        simp only [List.mem_cons] at hx
        rcases hx with rfl | hx
        · simpa using hp
        · exact ih _ x hx
      · exact ih _

theorem replaceTypes_prot (cfg : Cfg) : ∀ (ut : List (String × Option Addr)) (reg : List (String × Addr)) (b : Bool),
    NamesFree ut → ProtSub reg (replaceTypes cfg reg b ut).1 := by
  intro ut
  induction ut with
  | nil => intro reg b _; exact ProtSub.refl reg
  | cons x rest ih =>
    intro reg b hf
    obtain ⟨nm, new⟩ := x
    have hfr : NamesFree rest := fun y hy => hf y (by simp [hy])
    have hnm : isProtected nm = false := hf (nm, new) (by simp)
    simp only [replaceTypes]
    split
    · exact ih reg b hfr
    · cases new with
      | none =>
        exact ProtSub.trans (fun e he _ => mem_regErase he) (ih _ _ hfr)
      | some a' =>
        refine ProtSub.trans ?_ (ih _ _ hfr)
        intro e he hp
        rcases mem_regSet he with rfl | ⟨he0, _⟩
        · simp [hnm] at hp
        · exact he0

theorem replaceCore_prot (cfg : Cfg) (s : Schema) (ut ud : List (String × Option Addr)) (hf : NamesFree ut) :
    ProtSub s.types (replaceCore cfg s ut ud).1.types := by
  simp only [replaceCore]
  exact replaceTypes_prot cfg ut s.types false hf

theorem healLoop_prot (cfg : Cfg) : ∀ (fuel : Nat) (s : Schema) (h h' : Heap) (s' : Schema),
    healLoop cfg fuel s h = some (h', s') → ProtSub s.types s'.types := by
  intro fuel
  induction fuel with
  | zero => intro s h h' s' e; simp [healLoop] at e
  | succ fuel ih =>
    intro s h h' s' e
    simp only [healLoop] at e
    have hc := replaceCore_prot cfg s (visitAll .heal s h).2.1 (visitAll .heal s h).2.2 (by simp only [visitAll]; exact visitTypes_free _ _ _ _)
    split at e
    · exact ProtSub.trans hc (ih _ _ _ _ e)
    · cases e; exact hc

theorem replaceTD_prot (cfg : Cfg) (fuel : Nat) (s : Schema) (h : Heap) (ut ud : List (String × Option Addr)) (h' : Heap) (s' : Schema)
    (hf : NamesFree ut) (e : replaceTD cfg fuel s h ut ud = some (h', s')) : ProtSub s.types s'.types := by
  simp only [replaceTD] at e
  have hc := replaceCore_prot cfg s ut ud hf
  split at e
  · exact ProtSub.trans hc (healLoop_prot cfg fuel _ _ _ _ e)
  · cases e; exact hc

theorem onSchema_prot (cfg : Cfg) (fuel : Nat) (v : Visitor) (s : Schema) (h h' : Heap) (s' : Schema)
    (e : onSchema cfg fuel v s h = some (h', s')) : ProtSub s.types s'.types := by
  simp only [onSchema] at e
  exact replaceTD_prot cfg fuel s _ _ _ h' s' (by simp only [visitAll]; exact visitTypes_free _ _ _ _) e

theorem transformFrom_prot (cfg : Cfg) (fuel : Nat) : ∀ (vs : List Visitor) (h : Heap) (s : Schema) (h' : Heap) (s' : Schema),
    transformFrom cfg fuel vs (h, s) = some (h', s') → ProtSub s.types s'.types := by
  intro vs
  induction vs with
  | nil => intro h s h' s' e; simp only [transformFrom] at e; cases e; exact ProtSub.refl _
  | cons v vs ih =>
    intro h s h' s' e
    simp only [transformFrom] at e
    split at e
    · cases e
    · rename_i r hr
      obtain ⟨h1, s1⟩ := r
      exact ProtSub.trans (onSchema_prot cfg fuel v s h h1 s1 hr) (ih h1 s1 h' s' e)

theorem foldl_setdefault_mem (l : List (String × Addr)) : ∀ (acc : List (String × Addr)) (e : String × Addr),
    e ∈ l.foldl (fun reg e => if (lookup reg e.1).isSome then reg else reg ++ [e]) acc → e ∈ acc ∨ e ∈ l := by
  induction l with
  | nil => intro acc e he; exact Or.inl he
  | cons x l ih =>
    intro acc e he
    simp only [List.foldl_cons] at he
    rcases ih _ e he with h1 | h1
    · split at h1
      · exact Or.inl h1
      · simp only [List.mem_append, List.mem_singleton] at h1
        rcases h1 with h1 | h1
        · exact Or.inl h1
        · exact Or.inr (by simp [h1])
    · exact Or.inr (by simp [h1])

theorem cloneRegistry_prot (cfg : Cfg) (s : Schema) (h : Heap) : ProtSub s.types (cloneRegistry cfg s h) := by
  intro e he hp
  simp only [cloneRegistry] at he
  have base : ∀ e : String × Addr, isProtected e.1 = true →
      e ∈ (s.types.filter fun e => isProtected e.1) ++
        ((buildTypeMap h (reachFuel h (rootAddrs s)) (rootAddrs s)).filter fun e => !isProtected e.1) → e ∈ s.types := by
    intro e hp he
    simp only [List.mem_append, List.mem_filter] at he
    rcases he with he | he
    · exact he.1
    · simp [hp] at he
  split at he
  · rcases foldl_setdefault_mem _ _ e he with h1 | h1
    · exact base e hp h1
    · exact h1
  · exact base e hp he

theorem clone_prot (cfg : Cfg) (fuel : Nat) (s : Schema) (h h' : Heap) (s' : Schema) (e : clone cfg fuel s h = some (h', s')) :
    ProtSub s.types s'.types := by
  simp only [clone] at e
  split at e
  · cases e
  · rename_i h1 s1 hr
    have := replaceTD_prot cfg fuel _ _ _ _ h1 s1 (cloneTypes_free cfg s.types h) hr
    cases e
    exact ProtSub.trans (cloneRegistry_prot cfg s h) this

theorem transform_prot (cfg : Cfg) (fuel : Nat) (vs : List Visitor) (s : Schema) (h h' : Heap) (s' : Schema)
    (e : transform cfg fuel vs s h = some (h', s')) : ProtSub s.types s'.types := by
  simp only [transform] at e
  split at e
  · cases e
  · rename_i r hr
    obtain ⟨h1, s1⟩ := r
    exact ProtSub.trans (clone_prot cfg fuel s h h1 s1 hr) (transformFrom_prot cfg fuel vs h1 s1 h' s' e)

/-- `extend_schema` (the variant of /repo, which registers every rebuilt type): protected entries are taken over -/
theorem extend_prot (cfg : Cfg) (hk : cfg.extKeepAll = true) (ext : Ext) (s : Schema) (h : Heap)
    (hnp : ∀ e, e ∈ ext.newTypes → isProtected e.1 = false) : ProtSub s.types (extend cfg ext s h).2.types := by
  intro e he hp
  simp only [extend, hk, if_true] at he
  simp only [List.mem_append, List.mem_filter] at he
  rcases he with he | he
  · exact he.1
  · exfalso
    have hn : e.1 ∈ (allocPlaceholders h ((s.types.filter fun e => !isProtected e.1).map (·.1) ++ ext.newTypes.map (·.1))).2.map (·.1) :=
      List.mem_map.mpr ⟨e, he, rfl⟩
    rw [allocPlaceholders_names] at hn
    simp only [List.mem_append, List.mem_map, List.mem_filter] at hn
    rcases hn with ⟨x, ⟨_, hx⟩, hxe⟩ | ⟨x, hx, hxe⟩
    · rw [hxe] at hx; simp [hp] at hx
    · have := hnp x hx; rw [hxe] at this; simp [hp] at this

end PyGql.Heap.Prot

/-
  `decode (encode t) = t` for every text of scalar values: the UTF-8 bytes of a text decode to the text.
-/
import PyGqlModel.Utf8
namespace PyGql.Utf8

/-- one encoded character is consumed from the initial state and appended to the output -/
theorem feed_encodeChar (c : Nat) (hc : isScalar c = true) (out : List Nat) (r : List Nat) :
    feed { out := out } (encodeChar c ++ r) = feed { out := c :: out } r := by
  simp only [isScalar, Bool.and_eq_true, decide_eq_true_eq, Bool.not_eq_true', Bool.and_eq_false_iff, decide_eq_false_iff_not] at hc
  obtain ⟨h1, h2⟩ := hc
  unfold encodeChar
  by_cases c1 : c < 0x80
  · simp only [c1, ↓reduceIte, List.cons_append, List.nil_append]
    rw [feed]; simp [c1]
  by_cases c2 : c < 0x800
  · simp only [c1, c2, ↓reduceIte, List.cons_append, List.nil_append]
    have a1 : ¬ (0xC0 + c / 64 < 0x80) := by omega
    have a2 : 0xC2 ≤ 0xC0 + c / 64 ∧ 0xC0 + c / 64 ≤ 0xDF := by omega
    have a3 : 0x80 ≤ 0x80 + c % 64 ∧ 0x80 + c % 64 ≤ 0xBF := by omega
    have a4 : (0xC0 + c / 64 - 0xC0) * 64 + (0x80 + c % 64 - 0x80) = c := by omega
    rw [feed]; simp only [↓reduceIte, a1, a2, and_self]
    rw [feed]; simp only [↓reduceIte, a3, and_self, a4, show (1 : Nat) ≠ 0 by decide]
  by_cases c3 : c < 0x10000
  · simp only [c1, c2, c3, ↓reduceIte, List.cons_append, List.nil_append]
    have a1 : ¬ (0xE0 + c / 4096 < 0x80) := by omega
    have a2 : ¬ (0xC2 ≤ 0xE0 + c / 4096 ∧ 0xE0 + c / 4096 ≤ 0xDF) := by omega
    have a3 : 0xE0 ≤ 0xE0 + c / 4096 ∧ 0xE0 + c / 4096 ≤ 0xEF := by omega
    have a4 : (if 0xE0 + c / 4096 = 0xE0 then 0xA0 else 0x80) ≤ 0x80 + c / 64 % 64 ∧
        0x80 + c / 64 % 64 ≤ (if 0xE0 + c / 4096 = 0xED then 0x9F else 0xBF) := by
      have h2' : c < 0xD800 ∨ 0xDFFF < c := by rcases h2 with h | h <;> omega
      constructor
      · split <;> omega
      · split <;> omega
    have a5 : 0x80 ≤ 0x80 + c % 64 ∧ 0x80 + c % 64 ≤ 0xBF := by omega
    have a6 : ((0xE0 + c / 4096 - 0xE0) * 64 + (0x80 + c / 64 % 64 - 0x80)) * 64 + (0x80 + c % 64 - 0x80) = c := by omega
    rw [feed]; simp only [↓reduceIte, a1, a2, a3, and_self]
    rw [feed]; simp only [a4, and_self, ↓reduceIte, show (2 : Nat) ≠ 0 by decide, show (2 : Nat) ≠ 1 by decide]
    rw [feed]; simp only [show 2 - 1 = 1 by rfl, a5, and_self, ↓reduceIte, a6, show (1 : Nat) ≠ 0 by decide]
  · simp only [c1, c2, c3, ↓reduceIte, List.cons_append, List.nil_append]
    have a1 : ¬ (0xF0 + c / 262144 < 0x80) := by omega
    have a2 : ¬ (0xC2 ≤ 0xF0 + c / 262144 ∧ 0xF0 + c / 262144 ≤ 0xDF) := by omega
    have a3 : ¬ (0xE0 ≤ 0xF0 + c / 262144 ∧ 0xF0 + c / 262144 ≤ 0xEF) := by omega
    have a4 : 0xF0 ≤ 0xF0 + c / 262144 ∧ 0xF0 + c / 262144 ≤ 0xF4 := by omega
    have a5 : (if 0xF0 + c / 262144 = 0xF0 then 0x90 else 0x80) ≤ 0x80 + c / 4096 % 64 ∧
        0x80 + c / 4096 % 64 ≤ (if 0xF0 + c / 262144 = 0xF4 then 0x8F else 0xBF) := by
      constructor
      · split <;> omega
      · split <;> omega
    have a6 : 0x80 ≤ 0x80 + c / 64 % 64 ∧ 0x80 + c / 64 % 64 ≤ 0xBF := by omega
    have a7 : 0x80 ≤ 0x80 + c % 64 ∧ 0x80 + c % 64 ≤ 0xBF := by omega
    have a8 : (((0xF0 + c / 262144 - 0xF0) * 64 + (0x80 + c / 4096 % 64 - 0x80)) * 64 + (0x80 + c / 64 % 64 - 0x80)) * 64 +
        (0x80 + c % 64 - 0x80) = c := by omega
    rw [feed]; simp only [↓reduceIte, a1, a2, a3, a4, and_self]
    rw [feed]; simp only [a5, and_self, ↓reduceIte, show (3 : Nat) ≠ 0 by decide, show (3 : Nat) ≠ 1 by decide]
    rw [feed]; simp only [show 3 - 1 = 2 by rfl, a6, and_self, ↓reduceIte, show (2 : Nat) ≠ 0 by decide, show (2 : Nat) ≠ 1 by decide]
    rw [feed]; simp only [show 2 - 1 = 1 by rfl, a7, and_self, ↓reduceIte, a8, show (1 : Nat) ≠ 0 by decide]

theorem feed_encode (t : Text) (ht : t.all isScalar = true) (out : List Nat) :
    feed { out := out } (encode t) = .ok (out.reverse ++ t) := by
  induction t generalizing out with
  | nil => simp [encode, feed]
  | cons c t ih =>
    simp only [List.all_cons, Bool.and_eq_true] at ht
    simp only [encode, List.flatMap_cons] at ih ⊢
    rw [feed_encodeChar c ht.1 out, ih ht.2]
    simp

end PyGql.Utf8

/-
  Frame / congruence facts of `enterRule` (see `Lemmas/ValidateChainFrame.lean`), part 2b: proved case by case over the
  26 rules and the 14 node kinds.
-/
import PyGqlModel.Lemmas.ValidateChainFrame
namespace PyGql.Validate
open PyGql

set_option maxHeartbeats 2000000 in
/-- a rule only adds errors of its own -/
theorem enterRule_errs_mine (s : SchemaD) (fx : Fixes) (r : Rule) (n : Node) (ti : TI) (a : RS) :
    ∀ x ∈ (enterRule s fx r n ti (a.own r)).1.errs, x = r := by
  cases r <;> cases n <;> rs_cases

end PyGql.Validate

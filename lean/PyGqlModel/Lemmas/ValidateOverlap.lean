/-
  `OverlappingFieldsCanBeMergedChecker`, part 1: the counting loops, the field collection (`collectSels`) against the
  declarative `Spec.CollD` / `Spec.SpreadD`, and `_fields_and_fragments` with its parent-type cache.
-/
import PyGqlModel.Validate.Rules
import PyGqlModel.Spec.ValidSpecOverlap
import PyGqlModel.Lemmas.ValidateVarsAL
namespace PyGql.Validate
open PyGql PyGql.Validate.Spec

/-! ### `sumLoop` -/

theorem sumLoop_spec {α} (xs : List α) (f : α → OCtx → Nat × OCtx) (P : OCtx → Prop) (Q : α → Prop)
    (hf : ∀ x ∈ xs, ∀ c, P c → P (f x c).2 ∧ (0 < (f x c).1 → Q x)) (c : OCtx) (hc : P c) :
    P (sumLoop xs f c).2 ∧ (0 < (sumLoop xs f c).1 → ∃ x ∈ xs, Q x) := by
  unfold sumLoop
  have key : ∀ (ys : List α) (acc : Nat × OCtx), (∀ x ∈ ys, x ∈ xs) → P acc.2 →
      P (ys.foldl (fun (acc : Nat × OCtx) x =>
        if acc.2.crash.isSome then acc else ((acc.1 + (f x acc.2).1, (f x acc.2).2) : Nat × OCtx)) acc).2 ∧
      (0 < (ys.foldl (fun (acc : Nat × OCtx) x =>
        if acc.2.crash.isSome then acc else ((acc.1 + (f x acc.2).1, (f x acc.2).2) : Nat × OCtx)) acc).1 →
        0 < acc.1 ∨ ∃ x ∈ xs, Q x) := by
    intro ys
    induction ys with
    | nil => intro acc _ hp; exact ⟨hp, fun h => Or.inl h⟩
    | cons y ys ih =>
      intro acc hsub hp
      rw [List.foldl_cons]
      have hy : y ∈ xs := hsub y (List.mem_cons_self ..)
      have hys : ∀ x ∈ ys, x ∈ xs := fun x hx => hsub x (List.mem_cons_of_mem _ hx)
      by_cases hcr : acc.2.crash.isSome = true
      · rw [if_pos hcr]; exact ih acc hys hp
      · rw [if_neg hcr]
        obtain ⟨p1, q1⟩ := hf y hy acc.2 hp
        obtain ⟨p2, q2⟩ := ih (acc.1 + (f y acc.2).1, (f y acc.2).2) hys p1
        refine ⟨p2, fun h => ?_⟩
        rcases q2 h with h' | h'
        · simp only at h'
          by_cases h0 : 0 < acc.1
          · exact Or.inl h0
          · exact Or.inr ⟨y, hy, q1 (by omega)⟩
        · exact Or.inr h'
  obtain ⟨a, b⟩ := key xs (0, c) (fun _ h => h) hc
  refine ⟨a, fun h => ?_⟩
  rcases b h with h' | h'
  · exact absurd h' (by simp)
  · exact h'

theorem sumLoop_spec' {α} (xs : List α) (f : α → OCtx → Nat × OCtx) (P : OCtx → Prop) (Q : α → Prop) (R : Prop)
    (hf : ∀ x ∈ xs, ∀ c, P c → P (f x c).2 ∧ (0 < (f x c).1 → Q x)) (hR : ∀ x ∈ xs, Q x → R) (c : OCtx) (hc : P c) :
    P (sumLoop xs f c).2 ∧ (0 < (sumLoop xs f c).1 → R) := by
  obtain ⟨a, b⟩ := sumLoop_spec xs f P Q hf c hc
  exact ⟨a, fun h => by obtain ⟨x, hx, hq⟩ := b h; exact hR x hx hq⟩

/-! ### field maps -/

/-- every entry of the field map satisfies `P` (with its response name) -/
def EntOK (P : String → FEntry → Prop) (fm : FMap) : Prop := ∀ q ∈ fm, ∀ e ∈ q.2, P q.1 e

theorem entOK_nil (P : String → FEntry → Prop) : EntOK P [] := fun _ h => nomatch h

theorem entOK_add {P : String → FEntry → Prop} {fm : FMap} (h : EntOK P fm) (rn : String) (e : FEntry) (he : P rn e) :
    EntOK P (AL.modify fm rn [] (· ++ [e])) := by
  intro q hq x hx
  rcases AL.mem_set hq with hq | rfl
  · exact h q hq x hx
  · simp only at hx ⊢
    rcases List.mem_append.mp hx with hx | hx
    · rcases AL.getD_cases fm rn [] with e0 | e0
      · rw [e0] at hx; cases hx
      · exact h _ e0 x hx
    · simp only [List.mem_singleton] at hx; subst hx; exact he

theorem entOK_get {P : String → FEntry → Prop} {fm : FMap} (h : EntOK P fm) {rn : String} {l : List FEntry}
    (hg : AL.get? fm rn = some l) : ∀ e ∈ l, P rn e := h (rn, l) (AL.mem_of_get? hg)

theorem Spec.CollD.mono {s : SchemaD} {p : Option String} {xs ys : List Sel} (hsub : ∀ y ∈ xs, y ∈ ys) {rn : String}
    {e : FEntry} (h : CollD s p xs rn e) : CollD s p ys rn e := by
  cases h with
  | field hm => exact .field (hsub _ hm)
  | inline hm hs => exact .inline (hsub _ hm) hs

theorem Spec.SpreadD.mono {xs ys : List Sel} (hsub : ∀ y ∈ xs, y ∈ ys) {g : String} (h : SpreadD xs g) : SpreadD ys g := by
  cases h with
  | spread hm => exact .spread (hsub _ hm)
  | inline hm hs => exact .inline (hsub _ hm) hs

mutual
theorem collectSel_sound (s : SchemaD) (P : String → FEntry → Prop) (Sp : String → Prop) :
    ∀ (parent : Option String) (x : Sel) (acc : FMap × List String),
    (∀ rn e, CollD s parent [x] rn e → P rn e) → (∀ g, SpreadD [x] g → Sp g) →
    EntOK P acc.1 → (∀ g ∈ acc.2, Sp g) →
    EntOK P (collectSel s parent x acc).1 ∧ ∀ g ∈ (collectSel s parent x acc).2, Sp g
  | parent, .field alias name args dirs hasSub ssid sub, (fm, fr), hP, _, h1, h2 => by
    simp only [collectSel]
    exact ⟨entOK_add h1 _ _ (hP _ _ (.field (List.mem_singleton.mpr rfl))), h2⟩
  | parent, .spread name dirs, (fm, fr), _, hS, h1, h2 => by
    simp only [collectSel]
    refine ⟨h1, fun g hg => ?_⟩
    rcases List.mem_append.mp hg with hg | hg
    · exact h2 g hg
    · simp only [List.mem_singleton] at hg; subst hg
      exact hS _ (.spread (List.mem_singleton.mpr rfl))
  | parent, .inline on dirs id sub, (fm, fr), hP, hS, h1, h2 => by
    simp only [collectSel]
    exact collectSels_sound s P Sp _ sub (fm, fr)
      (fun rn e h => hP rn e (.inline (List.mem_singleton.mpr rfl) h))
      (fun g h => hS g (.inline (List.mem_singleton.mpr rfl) h)) h1 h2
theorem collectSels_sound (s : SchemaD) (P : String → FEntry → Prop) (Sp : String → Prop) :
    ∀ (parent : Option String) (xs : List Sel) (acc : FMap × List String),
    (∀ rn e, CollD s parent xs rn e → P rn e) → (∀ g, SpreadD xs g → Sp g) →
    EntOK P acc.1 → (∀ g ∈ acc.2, Sp g) →
    EntOK P (collectSels s parent xs acc).1 ∧ ∀ g ∈ (collectSels s parent xs acc).2, Sp g
  | _, [], acc, _, _, h1, h2 => by rw [collectSels]; exact ⟨h1, h2⟩
  | parent, x :: xs, acc, hP, hS, h1, h2 => by
    rw [collectSels]
    obtain ⟨a1, a2⟩ := collectSel_sound s P Sp parent x acc
      (fun rn e h => hP rn e (h.mono (fun y hy => by simp only [List.mem_singleton] at hy; subst hy; exact List.mem_cons_self ..)))
      (fun g h => hS g (h.mono (fun y hy => by simp only [List.mem_singleton] at hy; subst hy; exact List.mem_cons_self ..)))
      h1 h2
    exact collectSels_sound s P Sp parent xs _
      (fun rn e h => hP rn e (h.mono (fun y hy => List.mem_cons_of_mem _ hy)))
      (fun g h => hS g (h.mono (fun y hy => List.mem_cons_of_mem _ hy))) a1 a2
end

/-- **`_fields_and_fragments`**: the fields collected are fields of the set under an ADMISSIBLE parent type (the
    cached one, if the set was met before), the names are fragments the set spreads; the cache stays admissible -/
theorem fieldsAndFragments_sound (s : SchemaD) (d : Doc) (p : Option String) (i : Nat) (sels : List Sel) (c : OCtx)
    (hc : ∀ q ∈ c.cache, Adm s d q.1 q.2) (hp : Adm s d i p) :
    (∃ p', Adm s d i p' ∧ EntOK (CollD s p' sels) (fieldsAndFragments s p i sels c).1.1) ∧
    (∀ g ∈ (fieldsAndFragments s p i sels c).1.2, SpreadD sels g) ∧
    (∀ q ∈ (fieldsAndFragments s p i sels c).2.cache, Adm s d q.1 q.2) ∧
    (fieldsAndFragments s p i sels c).2.frags = c.frags := by
  unfold fieldsAndFragments
  cases hf : c.cache.find? (·.1 == i) with
  | some q =>
    obtain ⟨j, p0⟩ := q
    have hj : j = i := by simpa using List.find?_some hf
    have hadm : Adm s d i p0 := hj ▸ hc _ (List.mem_of_find?_eq_some hf)
    obtain ⟨a1, a2⟩ := collectSels_sound s (CollD s p0 sels) (SpreadD sels) p0 sels ([], [])
      (fun _ _ h => h) (fun _ h => h) (entOK_nil _) (fun _ h => nomatch h)
    exact ⟨⟨p0, hadm, a1⟩, a2, hc, rfl⟩
  | none =>
    obtain ⟨a1, a2⟩ := collectSels_sound s (CollD s p sels) (SpreadD sels) p sels ([], [])
      (fun _ _ h => h) (fun _ h => h) (entOK_nil _) (fun _ h => nomatch h)
    simp only
    refine ⟨⟨p, hp, a1⟩, fun g hg => a2 g (List.mem_eraseDups.mp hg), fun q hq => ?_, by first | rfl | trivial⟩
    rcases List.mem_cons.mp hq with rfl | hq
    · exact hp
    · exact hc q hq

end PyGql.Validate

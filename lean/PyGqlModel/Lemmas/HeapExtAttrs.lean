/-
  C14 — `extend_schema`: the rebuilt object registered under a name keeps the attributes of the
  source object (which ones is what `Cfg.ext*` says), whatever else the extension adds.
-/
import PyGqlModel.Lemmas.HeapReach
import PyGqlModel.HeapExt

set_option linter.unusedSimpArgs false
set_option linter.unusedVariables false

namespace PyGql.Heap.Own
open PyGql.Heap

/-- nothing outside the write set `W` is written, nothing disappears -/
def FrameX (W : Addr → Prop) (h h' : Heap) : Prop :=
  h.size ≤ h'.size ∧ ∀ a, a < h.size → ¬ W a → h'.read a = h.read a

theorem FrameX.refl (W : Addr → Prop) (h : Heap) : FrameX W h h := ⟨Nat.le_refl _, fun _ _ _ => rfl⟩
theorem FrameX.trans {W : Addr → Prop} {h1 h2 h3 : Heap} (a : FrameX W h1 h2) (b : FrameX W h2 h3) : FrameX W h1 h3 :=
  ⟨Nat.le_trans a.1 b.1, fun x hx hw => by rw [b.2 x (Nat.lt_of_lt_of_le hx a.1) hw, a.2 x hx hw]⟩
theorem FrameX.mono {W W' : Addr → Prop} {h h' : Heap} (f : FrameX W h h') (hw : ∀ a, W a → W' a) : FrameX W' h h' :=
  ⟨f.1, fun x hx hn => f.2 x hx (fun w => hn (hw x w))⟩
theorem allocX (W : Addr → Prop) (h : Heap) (o : Obj) : FrameX W h (h.alloc o).1 :=
  ⟨by rw [size_alloc]; omega, fun a ha _ => read_alloc_old h o a ha⟩
theorem writeX (W : Addr → Prop) (h : Heap) (a : Addr) (o : Obj) (hw : W a) : FrameX W h (h.write a o) :=
  ⟨by rw [size_write]; exact Nat.le_refl _, fun x hx hn => read_write_other h a x o (fun e => hn (e ▸ hw))⟩

theorem extendArgsX (W : Addr → Prop) (k : Bool) (N : List (String × Addr)) : ∀ (as : List Addr) (h : Heap), FrameX W h (extendArgs k N h as).1 := by
  intro as
  induction as with
  | nil => intro h; exact FrameX.refl W h
  | cons a as ih =>
    intro h
    simp only [extendArgs]
    split
    · exact (allocX W h _).trans (ih _)
    · exact ih h

theorem buildArgsX (W : Addr → Prop) (N : List (String × Addr)) : ∀ (gs : List ExtArg) (h : Heap), FrameX W h (buildArgs N h gs).1 := by
  intro gs
  induction gs with
  | nil => intro h; exact FrameX.refl W h
  | cons g gs ih => intro h; simp only [buildArgs]; exact (allocX W h _).trans (ih _)

theorem extendFieldsX (W : Addr → Prop) (cfg : Cfg) (N : List (String × Addr)) : ∀ (as : List Addr) (h : Heap), FrameX W h (extendFields cfg N h as).1 := by
  intro as
  induction as with
  | nil => intro h; exact FrameX.refl W h
  | cons a as ih =>
    intro h
    simp only [extendFields]
    split
    · exact ((extendArgsX W _ N _ h).trans (allocX W _ _)).trans (ih _)
    · exact ih h

theorem buildFieldsX (W : Addr → Prop) (N : List (String × Addr)) : ∀ (fs : List ExtField) (h : Heap), FrameX W h (buildFields N h fs).1 := by
  intro fs
  induction fs with
  | nil => intro h; exact FrameX.refl W h
  | cons g gs ih => intro h; simp only [buildFields]; exact ((buildArgsX W N _ h).trans (allocX W _ _)).trans (ih _)

theorem extendDirsX (W : Addr → Prop) (cfg : Cfg) (N : List (String × Addr)) : ∀ (l : List (String × Addr)) (h : Heap), FrameX W h (extendDirs cfg N h l).1 := by
  intro l
  induction l with
  | nil => intro h; exact FrameX.refl W h
  | cons e rest ih =>
    intro h
    obtain ⟨n, a⟩ := e
    simp only [extendDirs]
    split
    · exact ((extendArgsX W _ N _ h).trans (allocX W _ _)).trans (ih _)
    · exact ih h

theorem buildNewDirsX (W : Addr → Prop) (cfg : Cfg) (N : List (String × Addr)) : ∀ (l : List (String × List ExtArg × List String)) (h : Heap),
    FrameX W h (buildNewDirs cfg N h l).1 := by
  intro l
  induction l with
  | nil => intro h; exact FrameX.refl W h
  | cons e rest ih =>
    intro h
    obtain ⟨n, args, locs⟩ := e
    simp only [buildNewDirs]
    exact (((buildArgsX W N _ h).trans (extendArgsX W _ N _ _)).trans (allocX W _ _)).trans (ih _)

/-- the attributes of a type object that extension has to keep (those the flags promise) -/
def TypeKept (cfg : Cfg) (t t' : TypeO) : Prop :=
  t'.name = t.name ∧ t'.kind = t.kind ∧ t'.prot = t.prot ∧
  t'.desc = (if t.kind == Kind.union && !cfg.extUnionDesc then none else t.desc) ∧
  t'.dres = (if t.kind == Kind.object && !cfg.extObjDres then none else t.dres) ∧
  t'.rtype = (match t.kind with
               | .interface => if cfg.extIfaceRtype then t.rtype else none
               | .union => if cfg.extUnionRtype then t.rtype else none
               | _ => t.rtype) ∧
  (∃ added, t'.values = t.values ++ added) ∧
  t'.cls = (if (t.kind == Kind.scalar || t.kind == Kind.enum) && cfg.extLeafCopied then t.cls else none)

theorem read_write_same (h : Heap) (a : Addr) (o : Obj) (ha : a < h.size) : (h.write a o).read a = some o := by
  simp only [Heap.write, Heap.read, Heap.size] at *
  simp [List.getElem?_set, ha]

theorem extendKidsX (W : Addr → Prop) (cfg : Cfg) (ext : Ext) (N Nin : List (String × Addr)) (h : Heap) (t : TypeO) :
    FrameX W h (extendKids cfg ext N Nin h t).1 := by
  simp only [extendKids]
  split
  · exact (extendArgsX _ _ N _ h).trans (buildArgsX _ Nin _ _)
  · exact (extendFieldsX _ cfg N _ h).trans (buildFieldsX _ N _ _)
  · exact (extendFieldsX _ cfg N _ h).trans (buildFieldsX _ N _ _)
  · exact FrameX.refl _ h

theorem rebuilt_kept (cfg : Cfg) (ext : Ext) (N : List (String × Addr)) (t : TypeO) (fs : List Addr) :
    TypeKept cfg t (rebuiltType cfg ext N t fs) := ⟨rfl, rfl, rfl, rfl, rfl, rfl, ⟨_, rfl⟩, rfl⟩

theorem extendOne_spec (cfg : Cfg) (ext : Ext) (N Nin : List (String × Addr)) (h : Heap) (t : TypeO) (na : Addr) (hna : na < h.size) :
    FrameX (fun x => x = na) h (extendOne cfg ext N Nin h t na) ∧
    ∃ t', (extendOne cfg ext N Nin h t na).readType na = some t' ∧ TypeKept cfg t t' := by
  have hpre := extendKidsX (fun x => x = na) cfg ext N Nin h t
  simp only [extendOne]
  refine ⟨hpre.trans (writeX _ _ na _ rfl), rebuiltType cfg ext N t (extendKids cfg ext N Nin h t).2, ?_, rebuilt_kept _ _ _ _ _⟩
  simp only [Heap.readType, read_write_same _ na _ (Nat.lt_of_lt_of_le hna hpre.1)]

/-- placeholders: one fresh address per name, pairwise different, all inside the new heap -/
theorem allocPlaceholders_lookup : ∀ (ns : List String) (h : Heap) (n : String) (x : Addr),
    lookup (allocPlaceholders h ns).2 n = some x → h.size ≤ x ∧ x < (allocPlaceholders h ns).1.size := by
  intro ns
  induction ns with
  | nil => intro h n x hl; simp [allocPlaceholders, lookup] at hl
  | cons n0 ns ih =>
    intro h n x hl
    simp only [allocPlaceholders, lookup, List.find?_cons] at hl ⊢
    have hmono : (h.alloc (placeholder n0)).1.size ≤ (allocPlaceholders (h.alloc (placeholder n0)).1 ns).1.size := by
      clear hl ih
      generalize (h.alloc (placeholder n0)).1 = h1
      induction ns generalizing h1 with
      | nil => simp [allocPlaceholders]
      | cons m ms ih2 =>
        simp only [allocPlaceholders]
        have := ih2 (h1.alloc (placeholder m)).1
        rw [size_alloc] at this
        omega
    split at hl
    · simp only [Option.map_some, Option.some.injEq] at hl
      subst hl
      rw [alloc_addr]
      rw [size_alloc] at hmono
      exact ⟨Nat.le_refl _, Nat.lt_of_succ_le hmono⟩
    · have := ih (h.alloc (placeholder n0)).1 n x (by simpa [lookup] using hl)
      rw [size_alloc] at this
      exact ⟨Nat.le_of_succ_le this.1, this.2⟩

theorem allocPlaceholders_inj : ∀ (ns : List String) (h : Heap) (n n' : String) (x : Addr),
    lookup (allocPlaceholders h ns).2 n = some x → lookup (allocPlaceholders h ns).2 n' = some x → n = n' := by
  intro ns
  induction ns with
  | nil => intro h n n' x hl; simp [allocPlaceholders, lookup] at hl
  | cons n0 ns ih =>
    intro h n n' x hl hl'
    have b1 := fun n x (hh : lookup (allocPlaceholders (h.alloc (placeholder n0)).1 ns).2 n = some x) =>
      (allocPlaceholders_lookup ns (h.alloc (placeholder n0)).1 n x hh).1
    simp only [allocPlaceholders, lookup, List.find?_cons] at hl hl'
    split at hl <;> split at hl'
    · rename_i e1 _ e2
      simp only [beq_iff_eq] at e1 e2
      rw [← e1, ← e2]
    · simp only [Option.map_some, Option.some.injEq] at hl
      subst hl
      have := b1 n' _ (by simpa [lookup] using hl')
      rw [size_alloc, alloc_addr] at this
      exact absurd this (Nat.not_succ_le_self _)
    · simp only [Option.map_some, Option.some.injEq] at hl'
      subst hl'
      have := b1 n _ (by simpa [lookup] using hl)
      rw [size_alloc, alloc_addr] at this
      exact absurd this (Nat.not_succ_le_self _)
    · exact ih _ n n' x (by simpa [lookup] using hl) (by simpa [lookup] using hl')

theorem allocPlaceholders_some : ∀ (ns : List String) (h : Heap) (n : String), n ∈ ns →
    ∃ x, lookup (allocPlaceholders h ns).2 n = some x := by
  intro ns
  induction ns with
  | nil => intro h n hn; simp at hn
  | cons n0 ns ih =>
    intro h n hn
    simp only [allocPlaceholders, lookup, List.find?_cons]
    split
    · exact ⟨_, rfl⟩
    · rename_i hne
      simp only [List.mem_cons] at hn
      rcases hn with rfl | hn
      · simp at hne
      · obtain ⟨x, hx⟩ := ih (h.alloc (placeholder n0)).1 n hn
        exact ⟨x, by simpa [lookup] using hx⟩

theorem allocPlaceholdersX (W : Addr → Prop) : ∀ (ns : List String) (h : Heap), FrameX W h (allocPlaceholders h ns).1 := by
  intro ns
  induction ns with
  | nil => intro h; exact FrameX.refl W h
  | cons n ns ih => intro h; simp only [allocPlaceholders]; exact (allocX W h _).trans (ih _)

theorem readType_frameX {W : Addr → Prop} {h h' : Heap} (f : FrameX W h h') {a : Addr} (ha : a < h.size) (hw : ¬ W a) :
    h'.readType a = h.readType a := by
  simp only [Heap.readType, f.2 a ha hw]

/-- `extendAll` writes only the placeholders of the names it walks over; the placeholder of each readable,
    non-protected entry holds the rebuilt object (registry names are distinct, as in a Python dict) -/
theorem extendAll_spec (cfg : Cfg) (ext : Ext) (N Nin P : List (String × Addr)) (hr : Heap)
    (hinj : ∀ n n' x, lookup P n = some x → lookup P n' = some x → n = n') :
    ∀ (l : List (String × Addr)) (h : Heap), (∀ n x, lookup P n = some x → x < h.size) → (l.map (·.1)).Nodup →
      FrameX (fun x => ∃ e, e ∈ l ∧ lookup P e.1 = some x) h (extendAll cfg ext N Nin P hr h l) ∧
      ∀ n a t na, (n, a) ∈ l → isProtected n = false → hr.readType a = some t → lookup P n = some na →
        ∃ t', (extendAll cfg ext N Nin P hr h l).readType na = some t' ∧ TypeKept cfg t t' := by
  intro l
  induction l with
  | nil => intro h _ _; exact ⟨FrameX.refl _ h, by simp⟩
  | cons e rest ih =>
    intro h hb hnd
    obtain ⟨n0, a0⟩ := e
    simp only [List.map_cons, List.nodup_cons] at hnd
    obtain ⟨hn0, hndr⟩ := hnd
    simp only [extendAll]
    split
    · rename_i hp
      obtain ⟨f, g⟩ := ih h hb hndr
      refine ⟨f.mono (fun x ⟨e, he, hx⟩ => ⟨e, by simp [he], hx⟩), ?_⟩
      intro n a t na hm hnp ht hl
      simp only [List.mem_cons, Prod.mk.injEq] at hm
      rcases hm with ⟨rfl, rfl⟩ | hm
      · simp [hnp] at hp
      · exact g n a t na hm hnp ht hl
    · split
      · rename_i t0 na0 ht0 hl0
        obtain ⟨f1, t1, hr1, k1⟩ := extendOne_spec cfg ext N Nin h t0 na0 (hb n0 na0 hl0)
        obtain ⟨f, g⟩ := ih (extendOne cfg ext N Nin h t0 na0) (fun n x hx => Nat.lt_of_lt_of_le (hb n x hx) f1.1) hndr
        refine ⟨(f1.mono (fun x hx => ⟨(n0, a0), by simp, by rw [hx]; exact hl0⟩)).trans
                 (f.mono (fun x ⟨e, he, hx⟩ => ⟨e, by simp [he], hx⟩)), ?_⟩
        intro n a t na hm hnp ht hl
        simp only [List.mem_cons, Prod.mk.injEq] at hm
        rcases hm with ⟨rfl, rfl⟩ | hm
        · rw [ht0] at ht; cases ht
          rw [hl0] at hl; cases hl
          refine ⟨t1, ?_, k1⟩
          rw [readType_frameX f (Nat.lt_of_lt_of_le (hb _ _ hl0) f1.1) ?_]
          · exact hr1
          · rintro ⟨e, he, hx⟩
            have := hinj e.1 _ _ hx hl0
            exact hn0 (List.mem_map.mpr ⟨e, he, this⟩)
        · exact g n a t na hm hnp ht hl
      · rename_i hnot
        obtain ⟨f, g⟩ := ih h hb hndr
        refine ⟨f.mono (fun x ⟨e, he, hx⟩ => ⟨e, by simp [he], hx⟩), ?_⟩
        intro n a t na hm hnp ht hl
        simp only [List.mem_cons, Prod.mk.injEq] at hm
        rcases hm with ⟨rfl, rfl⟩ | hm
        · exact (hnot t na ht hl).elim
        · exact g n a t na hm hnp ht hl

theorem buildNewTypesX (N P : List (String × Addr)) : ∀ (l : List (String × List ExtField)) (h : Heap),
    FrameX (fun x => ∃ e, e ∈ l ∧ lookup P e.1 = some x) h (buildNewTypes N P h l) := by
  intro l
  induction l with
  | nil => intro h; exact FrameX.refl _ h
  | cons e rest ih =>
    intro h
    obtain ⟨n, fs⟩ := e
    simp only [buildNewTypes]
    have fb := buildFieldsX (fun x => ∃ e, e ∈ (n, fs) :: rest ∧ lookup P e.1 = some x) N fs h
    refine FrameX.trans ?_ ((ih _).mono (fun x ⟨e, he, hx⟩ => ⟨e, by simp [he], hx⟩))
    split
    · rename_i na hl
      exact fb.trans (writeX _ _ na _ ⟨(n, fs), by simp, hl⟩)
    · exact fb

theorem lookup_append_right {A B : List (String × Addr)} {n : String} (hA : ∀ e, e ∈ A → (e.1 == n) = false) :
    lookup (A ++ B) n = lookup B n := by
  simp only [lookup, List.find?_append]
  have : A.find? (fun e => e.1 == n) = none := by
    simp only [List.find?_eq_none]
    intro e he
    simp [hA e he]
  simp [this]

theorem extend_tail (cfg : Cfg) (N P : List (String × Addr)) (h1 : Heap) (s : Schema) (ext : Ext) (na : Addr) (hlt : na < h1.size)
    (hnw : ¬ ∃ e, e ∈ ext.newTypes ∧ lookup P e.1 = some na) :
    (buildNewDirs cfg N (extendDirs cfg N (buildNewTypes N P h1 ext.newTypes) s.dirs).1 ext.newDirs).1.readType na = h1.readType na := by
  have f2 := buildNewTypesX N P ext.newTypes h1
  have f3 := extendDirsX (fun _ => False) cfg N s.dirs (buildNewTypes N P h1 ext.newTypes)
  have f4 := buildNewDirsX (fun _ => False) cfg N ext.newDirs (extendDirs cfg N (buildNewTypes N P h1 ext.newTypes) s.dirs).1
  rw [readType_frameX f4 (Nat.lt_of_lt_of_le hlt (Nat.le_trans f2.1 f3.1)) (fun x => x),
      readType_frameX f3 (Nat.lt_of_lt_of_le hlt f2.1) (fun x => x), readType_frameX f2 hlt hnw]

/-- S2 (type level), for EVERY heap, schema and extension document: the object `extend_schema` registers under the
    name of a source type is a rebuilt copy keeping name, kind, description, default resolver, type resolver and
    enum values exactly as far as the `_extend_*` constructors pass them on (`TypeKept`) -/
theorem extend_type_kept (cfg : Cfg) (hk : cfg.extKeepAll = true) (ext : Ext) (s : Schema) (h : Heap)
    (hnd : (s.types.map (·.1)).Nodup) (hnew : ∀ e, e ∈ ext.newTypes → e.1 ∉ s.types.map (·.1))
    (n : String) (a : Addr) (t : TypeO) (hm : (n, a) ∈ s.types) (hp : isProtected n = false) (ht : h.readType a = some t) :
    ∃ a' t', lookup (extend cfg ext s h).2.types n = some a' ∧ (extend cfg ext s h).1.readType a' = some t' ∧ TypeKept cfg t t' := by
  have hsrc : n ∈ (s.types.filter fun e => !isProtected e.1).map (·.1) :=
    List.mem_map.mpr ⟨(n, a), List.mem_filter.mpr ⟨hm, by simp [hp]⟩, rfl⟩
  obtain ⟨na, hna⟩ := allocPlaceholders_some ((s.types.filter fun e => !isProtected e.1).map (·.1) ++ ext.newTypes.map (·.1)) h n
    (List.mem_append.mpr (Or.inl hsrc))
  have hinj := allocPlaceholders_inj ((s.types.filter fun e => !isProtected e.1).map (·.1) ++ ext.newTypes.map (·.1)) h
  have hb := fun n x hx => (allocPlaceholders_lookup ((s.types.filter fun e => !isProtected e.1).map (·.1) ++ ext.newTypes.map (·.1)) h n x hx).2
  simp only [extend, hk, if_true]
  generalize hP : allocPlaceholders h ((s.types.filter fun e => !isProtected e.1).map (·.1) ++ ext.newTypes.map (·.1)) = p at hna hinj hb
  obtain ⟨f1, g1⟩ := extendAll_spec cfg ext ((s.types.filter fun e => isProtected e.1) ++ p.2)
    (if cfg.extInputFieldExtended then (s.types.filter fun e => isProtected e.1) ++ p.2 else s.types ++ ((s.types.filter fun e => isProtected e.1) ++ p.2))
    p.2 h hinj s.types p.1 hb hnd
  obtain ⟨t1, hr1, k1⟩ := g1 n a t na hm hp ht hna
  refine ⟨na, t1, ?_, ?_, k1⟩
  · rw [lookup_append_right]
    · exact hna
    · intro e he
      have hpe := (List.mem_filter.mp he).2
      cases hq : (e.1 == n) with
      | false => rfl
      | true =>
        simp only [beq_iff_eq] at hq
        rw [hq, hp] at hpe
        cases hpe
  · apply (extend_tail cfg _ p.2 _ s ext na (Nat.lt_of_lt_of_le (hb n na hna) f1.1) ?_).trans hr1
    rintro ⟨e, he, hx⟩
    have := hinj e.1 n na hx hna
    exact hnew e he (this ▸ List.mem_map.mpr ⟨(n, a), hm, rfl⟩)

end PyGql.Heap.Own
